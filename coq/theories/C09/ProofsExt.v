(* PV.C09.ProofsExt — program-level theorems for add_iov / remove_iov (substitution lemma for programs), add_allometry,
   transform_blq M3/M4 and the numerator update of the transit rates. *)
From Coq Require Import QArith Qfield List Bool PArith Arith Lia Setoid.
From PV Require Import Base.PyData Base.Expr Base.Interp Base.Stmts C09.Model C09.Proofs C09.ProofsExec C09.ProofsSurgery.
Import ListNotations.
Local Open Scope Q_scope.

(* ---- program-level substitution lemma --------------------------------------------------------------- *)
Definition ode_rhs (l : list stmt) : list id := flat_map (fun st => match st with Ode _ r => r | _ => [] end) l.

Lemma eval_ext fi r r' e : (forall x, r x = r' x) -> eval r fi e = eval r' fi e.
Proof. intros H. apply eval_coincidence. intros x _. apply H. Qed.

Section Subs.
  Variable fi : finterp.
  Variable ode : id -> list (option Q) -> option Q.

  Lemma exec_subs s t l : forall r r',
    ~ In s (flat_map defs l) -> (forall y, In y (free_syms t) -> ~ In y (flat_map defs l)) -> ~ In s (ode_rhs l) ->
    (forall x, r' x = if Pos.eqb x s then eval r fi t else r x) ->
    forall x, exec fi ode r' l x = (if Pos.eqb x s then eval (exec fi ode r (subs_stmts_sym s t l)) fi t
                                    else exec fi ode r (subs_stmts_sym s t l) x).
  Proof.
    induction l as [|st tl IH]; intros r r' Hs Ht Ho Hr x; cbn [exec subs_stmts_sym map]; [apply Hr|].
    cbn [flat_map] in Hs, Ht. cbn [ode_rhs flat_map] in Ho.
    apply IH.
    - intro H; apply Hs, in_or_app; right; exact H.
    - intros y Hy H. apply (Ht y Hy), in_or_app; right; exact H.
    - intro H. apply Ho, in_or_app; right; exact H.
    - intros z. destruct st as [y e | amts rh]; cbn [exec1 subs_stmt_sym].
      + assert (Hys : Pos.eqb y s = false).
        { apply Pos.eqb_neq. intro E. subst. apply Hs, in_or_app. left. left. reflexivity. }
        assert (Hyt : ~ In y (free_syms t)) by (intros Hy; apply (Ht y Hy), in_or_app; left; left; reflexivity).
        assert (Ee : eval r' fi e = eval r fi (subs s t e)).
        { rewrite subs_eval. apply eval_ext. intros w. rewrite Hr. unfold upd. reflexivity. }
        unfold upd at 1. destruct (Pos.eqb z s) eqn:Ez.
        * apply Pos.eqb_eq in Ez. subst z. rewrite Pos.eqb_sym, Hys. rewrite Hr, Pos.eqb_refl.
          apply eval_coincidence. intros w Hw. unfold upd. destruct (Pos.eqb w y) eqn:Ew; [|reflexivity].
          apply Pos.eqb_eq in Ew. subst. contradiction.
        * unfold upd. destruct (Pos.eqb z y); [exact Ee|]. rewrite Hr, Ez. reflexivity.
      + cbn [defs] in Hs, Ht.
        assert (Hsa : memp s amts = false).
        { destruct (memp s amts) eqn:E; [|reflexivity]. apply memp_In in E. exfalso. apply Hs, in_or_app; left; exact E. }
        assert (Hm : map r' rh = map r rh).
        { apply map_ext_in. intros w Hw. rewrite Hr. destruct (Pos.eqb w s) eqn:E; [|reflexivity].
          apply Pos.eqb_eq in E. subst. exfalso. apply Ho, in_or_app; left; exact Hw. }
        unfold upd_list at 1. destruct (Pos.eqb z s) eqn:Ez.
        * apply Pos.eqb_eq in Ez. subst z. rewrite Hsa, Hr, Pos.eqb_refl.
          apply eval_coincidence. intros w Hw. unfold upd_list. destruct (memp w amts) eqn:Ew; [|reflexivity].
          apply memp_In in Ew. exfalso. apply (Ht w Hw), in_or_app; left; exact Ew.
        * unfold upd_list. destruct (memp z amts); [f_equal; exact Hm|]. rewrite Hr, Ez. reflexivity.
  Qed.

  (* the usual form: the substituted program in r = the program in r[s := value of t] (away from s) *)
  Lemma exec_subs_upd s t l r x :
    ~ In s (flat_map defs l) -> (forall y, In y (free_syms t) -> ~ In y (flat_map defs l)) -> ~ In s (ode_rhs l) ->
    x <> s ->
    exec fi ode r (subs_stmts_sym s t l) x = exec fi ode (upd r s (eval r fi t)) l x.
  Proof.
    intros Hs Ht Ho Hx.
    rewrite (exec_subs s t l r (upd r s (eval r fi t)) Hs Ht Ho (fun w => eq_refl) x).
    apply Pos.eqb_neq in Hx. rewrite Hx. reflexivity.
  Qed.
End Subs.


Lemma defs_subs_stmts s t l : flat_map defs (subs_stmts_sym s t l) = flat_map defs l.
Proof. induction l as [|[x e|a r] tl IH]; cbn [subs_stmts_sym map flat_map subs_stmt_sym defs]; [reflexivity| |]; f_equal; exact IH. Qed.
Lemma ode_rhs_subs_stmts s t l : ode_rhs (subs_stmts_sym s t l) = ode_rhs l.
Proof. induction l as [|[x e|a r] tl IH]; cbn [subs_stmts_sym map ode_rhs flat_map subs_stmt_sym]; [reflexivity|exact IH|]; f_equal; exact IH. Qed.

Definition item_etas (items : list iov_item) : list id := map ie_eta items.
Definition item_fresh (items : list iov_item) : list id := map ie_iov items ++ map ie_etai items.

(* the environment in which the ORIGINAL program runs: every requested eta reads its ETAI *)
Fixpoint ren (items : list iov_item) (r : env) : env :=
  match items with
  | [] => r
  | it :: tl => let r' := ren tl r in upd r' (ie_eta it) (r' (ie_etai it))
  end.

(* SPEC: every requested eta is replaced by eta + the IOV eta of the row's occasion *)
Definition oadd (a b : option Q) : option Q :=
  match a, b with Some x, Some y => Some (Qred (x + y)) | _, _ => None end.
Fixpoint shift (occ : id) (items : list iov_item) (r0 r : env) : env :=
  match items with
  | [] => r
  | it :: tl => upd (shift occ tl r0 r) (ie_eta it) (oadd (r0 (ie_eta it)) (iov_value r0 occ (ie_levels it)))
  end.

Section Iov.
  Variable fi : finterp.
  Hypothesis Hp : fi_proper fi.
  Variable ode : id -> list (option Q) -> option Q.
  Hypothesis Hode : ode_proper ode.

  Lemma exec_fold_subs items : forall l r x,
    (forall it, In it items -> ~ In (ie_eta it) (flat_map defs l) /\ ~ In (ie_etai it) (flat_map defs l) /\
                               ~ In (ie_eta it) (ode_rhs l)) ->
    ~ In x (item_etas items) ->
    exec fi ode r (fold_left (fun acc it => subs_stmts_sym (ie_eta it) (Sym (ie_etai it)) acc) items l) x
    = exec fi ode (ren items r) l x.
  Proof.
    induction items as [|it tl IH]; intros l r x H Hx; cbn [fold_left ren]; [reflexivity|].
    cbn [item_etas map] in Hx.
    rewrite IH.
    - destruct (H it (or_introl eq_refl)) as [A [B C]].
      rewrite (exec_subs_upd fi ode (ie_eta it) (Sym (ie_etai it)) l (ren tl r) x); auto.
      + intros y [<-|[]]. exact B.
      + intro E. apply Hx. left. symmetry. exact E.
    - intros it' Hin. rewrite defs_subs_stmts, ode_rhs_subs_stmts. apply H. right. exact Hin.
    - intro Hin. apply Hx. right. exact Hin.
  Qed.

  (* evaluation of the IOV piecewise: the eta of the matching level *)
  Lemma eval_iov_piecewise r occ levels :
    eval r fi (iov_piecewise occ levels) = iov_value r occ levels.
  Proof.
    unfold iov_piecewise, iov_value. destruct (r occ) as [o|] eqn:Eo.
    - induction levels as [|[lv e] tl IH]; cbn [map piecewise_of find fst snd]; [reflexivity|].
      cbn [eval evalc]. rewrite Eo. cbn [obind relb]. destruct (Qeq_bool lv o); cbn [eval]; [reflexivity | exact IH].
    - destruct levels as [|[lv e] tl]; cbn [map piecewise_of]; [reflexivity|]. cbn [eval evalc fst snd]. rewrite Eo. reflexivity.
  Qed.
End Iov.


Definition level_etas (levels : list (Q * id)) : list id := map snd levels.

Lemma iov_value_ext r r' occ levels :
  r occ = r' occ -> (forall e, In e (level_etas levels) -> r e = r' e) ->
  iov_value r occ levels = iov_value r' occ levels.
Proof.
  intros Ho He. unfold iov_value. rewrite <- Ho. destruct (r occ) as [o|]; [|reflexivity].
  destruct (find (fun lv : Q * id => Qeq_bool (fst lv) o) levels) as [lv|] eqn:Ef; [|reflexivity].
  apply He. apply find_some in Ef. apply in_map. apply Ef.
Qed.

Section Decls.
  Variable fi : finterp.
  Variable ode : id -> list (option Q) -> option Q.
  Variable occ : id.

  (* inputs of the declarations: the occasion column and the IOV etas are not among the declared names *)
  Definition inputs_ok (items : list iov_item) (names : list id) : Prop :=
    ~ In occ names /\ forall it, In it items -> forall e, In e (level_etas (ie_levels it)) -> ~ In e names.

  Lemma flat_defs_iov_decls items : flat_map defs (iov_decls occ items) = flat_map (fun it => [ie_iov it; ie_iov it]) items.
  Proof. induction items as [|it tl IH]; cbn; [reflexivity|]. f_equal. f_equal. exact IH. Qed.

  Lemma exec_iov_decls items : forall r,
    NoDup (map ie_iov items) -> inputs_ok items (map ie_iov items) ->
    forall it, In it items -> exec fi ode r (iov_decls occ items) (ie_iov it) = iov_value r occ (ie_levels it).
  Proof.
    induction items as [|hd tl IH]; intros r Hnd [Hocc Hlev] it Hin; [contradiction|].
    cbn [map] in Hnd, Hocc, Hlev. inversion Hnd as [|? ? Hnot Hnd']; subst.
    cbn [iov_decls flat_map]. fold (iov_decls occ tl). cbn [app exec exec1].
    set (r2 := upd (upd r (ie_iov hd) (eval r fi (Num 0))) (ie_iov hd)
                   (eval (upd r (ie_iov hd) (eval r fi (Num 0))) fi (iov_piecewise occ (ie_levels hd)))).
    assert (Hr2 : forall x, x <> ie_iov hd -> r2 x = r x).
    { intros x Hx. unfold r2, upd. apply Pos.eqb_neq in Hx. rewrite Hx. reflexivity. }
    assert (Hval : forall it', In it' (hd :: tl) -> iov_value r2 occ (ie_levels it') = iov_value r occ (ie_levels it')).
    { intros it' Hin'. apply iov_value_ext.
      - apply Hr2. intro E. apply Hocc. left. symmetry. exact E.
      - intros e He. apply Hr2. intro E. apply (Hlev it' Hin' e He). left. symmetry. exact E. }
    destruct Hin as [<-|Hin].
    - rewrite exec_not_defined.
      + unfold r2. unfold upd at 1. rewrite Pos.eqb_refl. rewrite eval_iov_piecewise.
        apply iov_value_ext.
        * unfold upd. destruct (Pos.eqb occ (ie_iov hd)) eqn:E; [|reflexivity]. apply Pos.eqb_eq in E.
          exfalso. apply Hocc. left. symmetry. exact E.
        * intros e He. unfold upd. destruct (Pos.eqb e (ie_iov hd)) eqn:E; [|reflexivity]. apply Pos.eqb_eq in E.
          exfalso. apply (Hlev hd (or_introl eq_refl) e He). left. symmetry. exact E.
      + rewrite flat_defs_iov_decls. intro H. apply Hnot. apply in_flat_map in H. destruct H as [it' [Hi Hx]].
        apply in_map_iff. exists it'. split; [|exact Hi]. destruct Hx as [E|[E|[]]]; exact E.
    - rewrite (IH r2 Hnd').
      + apply Hval. right. exact Hin.
      + split; [intro H; apply Hocc; right; exact H|].
        intros it' Hi e He H. apply (Hlev it' (or_intror Hi) e He). right. exact H.
      + exact Hin.
  Qed.

  Lemma exec_etai_decls items : forall r,
    NoDup (map ie_etai items) ->
    (forall it, In it items -> ~ In (ie_eta it) (map ie_etai items) /\ ~ In (ie_iov it) (map ie_etai items)) ->
    forall it, In it items ->
      exec fi ode r (etai_decls items) (ie_etai it) = oadd (r (ie_eta it)) (r (ie_iov it)).
  Proof.
    induction items as [|hd tl IH]; intros r Hnd Hin0 it Hin; [contradiction|].
    cbn [map] in Hnd, Hin0. inversion Hnd as [|? ? Hnot Hnd']; subst.
    cbn [etai_decls map exec exec1]. fold (etai_decls tl).
    set (r2 := upd r (ie_etai hd) (eval r fi (Add (Sym (ie_eta hd)) (Sym (ie_iov hd))))).
    assert (Hdefs : flat_map defs (etai_decls tl) = map ie_etai tl).
    { clear. induction tl as [|x tl IH]; cbn; [reflexivity|]. f_equal. exact IH. }
    destruct Hin as [<-|Hin].
    - rewrite exec_not_defined by (rewrite Hdefs; exact Hnot).
      unfold r2, upd. rewrite Pos.eqb_refl. cbn [eval].
      destruct (r (ie_eta hd)), (r (ie_iov hd)); reflexivity.
    - rewrite (IH r2 Hnd').
      + destruct (Hin0 it (or_intror Hin)) as [A B].
        unfold r2, upd.
        destruct (Pos.eqb (ie_eta it) (ie_etai hd)) eqn:E1; [apply Pos.eqb_eq in E1; exfalso; apply A; left; symmetry; exact E1|].
        destruct (Pos.eqb (ie_iov it) (ie_etai hd)) eqn:E2; [apply Pos.eqb_eq in E2; exfalso; apply B; left; symmetry; exact E2|].
        reflexivity.
      + intros it' Hi. destruct (Hin0 it' (or_intror Hi)) as [A B]. split; intro H; [apply A | apply B]; right; exact H.
      + exact Hin.
  Qed.
End Decls.


Lemma ren_notin items r z : ~ In z (item_etas items) -> ren items r z = r z.
Proof.
  induction items as [|it tl IH]; intros H; cbn [ren]; [reflexivity|]. cbn [item_etas map] in H.
  unfold upd. destruct (Pos.eqb z (ie_eta it)) eqn:E.
  - apply Pos.eqb_eq in E. exfalso. apply H. left. symmetry. exact E.
  - apply IH. intro Hin. apply H. right. exact Hin.
Qed.

Lemma NoDup_app_inv {A} (a b : list A) :
  NoDup (a ++ b) -> NoDup a /\ NoDup b /\ forall x, In x a -> ~ In x b.
Proof.
  induction a as [|y tl IH]; cbn [app]; intros H; [repeat split; [constructor | exact H | intros ? []]|].
  inversion H as [|? ? Hn Hd]; subst. destruct (IH Hd) as [A1 [B1 C1]]. repeat split.
  - constructor; [intro Hi; apply Hn, in_or_app; left; exact Hi | exact A1].
  - exact B1.
  - intros x [<-|Hx]; [intro Hb; apply Hn, in_or_app; right; exact Hb | apply C1, Hx].
Qed.

Section IovSound.
  Variable fi : finterp.
  Hypothesis Hp : fi_proper fi.
  Variable ode : id -> list (option Q) -> option Q.
  Hypothesis Hode : ode_proper ode.

  Theorem add_iov_sound_lemma occ items l r :
    let fresh := item_fresh items in
    NoDup fresh ->
    inputs_ok occ items fresh ->
    (forall it, In it items -> ~ In (ie_eta it) fresh /\ ~ In (ie_eta it) (flat_map defs l) /\ ~ In (ie_eta it) (ode_rhs l)) ->
    (forall x, In x fresh -> ~ In x (flat_map defs l) /\ ~ In x (flat_map rhs l)) ->
    forall x, ~ In x fresh -> ~ In x (item_etas items) ->
      oq_equiv (exec fi ode r (add_iov occ items l) x) (exec fi ode (shift occ items r r) l x).
  Proof.
    intros fresh Hnd Hin Heta Hfresh x Hx Hxe.
    unfold add_iov. rewrite !exec_app.
    set (rd := exec fi ode r (iov_decls occ items)). set (r1 := exec fi ode rd (etai_decls items)).
    destruct (NoDup_app_inv _ _ Hnd) as [NDi [NDe Hdisj]].
    assert (Hiov_fresh : forall z, In z (map ie_iov items) -> In z fresh) by (intros z Hz; apply in_or_app; left; exact Hz).
    assert (Hetai_fresh : forall z, In z (map ie_etai items) -> In z fresh) by (intros z Hz; apply in_or_app; right; exact Hz).
    assert (Hdd : forall z, In z (flat_map defs (iov_decls occ items)) -> In z (map ie_iov items)).
    { intros z Hz. rewrite flat_defs_iov_decls in Hz. apply in_flat_map in Hz. destruct Hz as [it [Hi Hz]].
      apply in_map_iff. exists it. split; [|exact Hi]. destruct Hz as [E|[E|[]]]; exact E. }
    assert (Hde : flat_map defs (etai_decls items) = map ie_etai items).
    { clear. induction items as [|y tl IH]; cbn; [reflexivity|]. f_equal. exact IH. }
    assert (Hrd : forall z, ~ In z (map ie_iov items) -> rd z = r z).
    { intros z Hz. unfold rd. apply exec_not_defined. intro H. apply Hz, Hdd, H. }
    assert (Hr1 : forall z, ~ In z fresh -> r1 z = r z).
    { intros z Hz. unfold r1. rewrite exec_not_defined.
      - apply Hrd. intro H. apply Hz, Hiov_fresh, H.
      - rewrite Hde. intro H. apply Hz, Hetai_fresh, H. }
    assert (Hetai : forall it, In it items ->
              r1 (ie_etai it) = oadd (r (ie_eta it)) (iov_value r occ (ie_levels it))).
    { intros it Hit. unfold r1. rewrite (exec_etai_decls fi ode items rd NDe).
      - f_equal.
        + apply Hrd. intro H. apply (proj1 (Heta it Hit)), Hiov_fresh, H.
        + unfold rd. apply (exec_iov_decls fi ode occ items r NDi); [|exact Hit].
          destruct Hin as [Ho Hl]. split; [intro H; apply Ho, Hiov_fresh, H|].
          intros it' Hi e He H. apply (Hl it' Hi e He), Hiov_fresh, H.
      - intros it' Hi. split.
        + intro H. apply (proj1 (Heta it' Hi)), Hetai_fresh, H.
        + intro H. apply (Hdisj (ie_iov it')); [apply in_map; exact Hi | exact H].
      - exact Hit. }
    (* the substituted program in r1 = the original program with every eta reading its ETAI *)
    rewrite (exec_fold_subs fi ode items l r1 x); [|
      intros it Hit; destruct (Heta it Hit) as [A [B C]]; repeat split; auto;
      apply (Hfresh (ie_etai it)), Hetai_fresh, in_map, Hit | exact Hxe].
    (* ... and that environment agrees with the shifted one outside the declared names *)
    assert (Hag : agree_off fresh (ren items r1) (shift occ items r r)).
    { assert (Gen : forall its, (forall it, In it its -> In it items) ->
                     forall y, ~ In y fresh -> ren its r1 y = shift occ its r r y).
      { induction its as [|hd tl IH]; intros Hsub y Hy; cbn [ren shift]; [apply Hr1, Hy|].
        unfold upd. destruct (Pos.eqb y (ie_eta hd)) eqn:E.
        - rewrite ren_notin.
          + apply Hetai, Hsub. left; reflexivity.
          + intro H. apply in_map_iff in H. destruct H as [it' [E' Hi']].
            apply (proj1 (Heta it' (Hsub it' (or_intror Hi')))). rewrite E'. apply Hetai_fresh, in_map, Hsub. left; reflexivity.
        - apply IH; [intros it Hi; apply Hsub; right; exact Hi | exact Hy]. }
      intros y Hy. rewrite (Gen items (fun it H => H) y Hy). apply oq_refl. }
    apply (exec_agree fi Hp ode Hode fresh l _ _ Hag); [|exact Hx].
    apply Forall_forall. intros st Hst z Hz Hr. apply (proj2 (Hfresh z Hz)). apply in_flat_map. exists st. split; assumption.
  Qed.
End IovSound.


Fixpoint zero_env (ies : list id) (r : env) : env :=
  match ies with [] => r | e :: tl => upd (zero_env tl r) e (Some 0) end.

Lemma zero_env_notin ies r z : ~ In z ies -> zero_env ies r z = r z.
Proof.
  induction ies as [|e tl IH]; intros H; cbn [zero_env]; [reflexivity|]. unfold upd.
  destruct (Pos.eqb z e) eqn:E; [apply Pos.eqb_eq in E; exfalso; apply H; left; symmetry; exact E|].
  apply IH. intro Hi. apply H. right. exact Hi.
Qed.
Lemma zero_env_in ies r z : In z ies -> zero_env ies r z = Some 0.
Proof.
  induction ies as [|e tl IH]; intros H; [contradiction|]. cbn [zero_env]. unfold upd.
  destruct (Pos.eqb z e) eqn:E; [reflexivity|]. destruct H as [<-|H]; [rewrite Pos.eqb_refl in E; discriminate | apply IH, H].
Qed.

Section RemoveIov.
  Variable fi : finterp.
  Hypothesis Hp : fi_proper fi.
  Variable ode : id -> list (option Q) -> option Q.
  Hypothesis Hode : ode_proper ode.

  Lemma exec_remove_iov ies : forall L r x,
    (forall e, In e ies -> ~ In e (flat_map defs L) /\ ~ In e (ode_rhs L)) -> ~ In x ies ->
    exec fi ode r (remove_iov ies L) x = exec fi ode (zero_env ies r) L x.
  Proof.
    unfold remove_iov. induction ies as [|e tl IH]; intros L r x H Hx; cbn [fold_left zero_env]; [reflexivity|].
    rewrite IH.
    - destruct (H e (or_introl eq_refl)) as [A B].
      rewrite (exec_subs_upd fi ode e (Num 0) L (zero_env tl r) x A); [reflexivity | intros y [] | exact B |].
      intro E. apply Hx. left. symmetry. exact E.
    - intros e' Hi. rewrite defs_subs_stmts, ode_rhs_subs_stmts. apply H. right. exact Hi.
    - intro Hi. apply Hx. right. exact Hi.
  Qed.

  Lemma defs_add_iov occ items l :
    forall z, In z (flat_map defs (add_iov occ items l)) -> In z (item_fresh items) \/ In z (flat_map defs l).
  Proof.
    intros z Hz. unfold add_iov in Hz. rewrite !flat_map_app in Hz.
    apply in_app_or in Hz. destruct Hz as [Hz|Hz].
    - left. apply in_or_app. left. rewrite flat_defs_iov_decls in Hz. apply in_flat_map in Hz.
      destruct Hz as [it [Hi Hz]]. apply in_map_iff. exists it. split; [|exact Hi]. destruct Hz as [E|[E|[]]]; exact E.
    - apply in_app_or in Hz. destruct Hz as [Hz|Hz].
      + left. apply in_or_app. right.
        replace (flat_map defs (etai_decls items)) with (map ie_etai items) in Hz; [exact Hz|].
        clear. induction items as [|y tl IH]; cbn; [reflexivity|]. f_equal. exact IH.
      + right. revert l Hz. induction items as [|it tl IH]; intros l Hz; cbn [fold_left] in Hz; [exact Hz|].
        apply IH in Hz. rewrite defs_subs_stmts in Hz. exact Hz.
  Qed.
  Lemma ode_rhs_add_iov occ items l : ode_rhs (add_iov occ items l) = ode_rhs l.
  Proof.
    unfold add_iov, ode_rhs. rewrite !flat_map_app.
    replace (flat_map (fun st => match st with Ode _ r => r | _ => [] end) (iov_decls occ items)) with (@nil id).
    2:{ clear. induction items as [|y tl IH]; cbn; [reflexivity|]. exact IH. }
    replace (flat_map (fun st => match st with Ode _ r => r | _ => [] end) (etai_decls items)) with (@nil id).
    2:{ clear. induction items as [|y tl IH]; cbn; [reflexivity|]. exact IH. }
    cbn [app]. revert l. induction items as [|it tl IH]; intros l; cbn [fold_left]; [reflexivity|].
    rewrite IH. apply ode_rhs_subs_stmts.
  Qed.

  (* remove_iov (add_iov M) = M: for every program, at every value of the etas *)
  Theorem remove_add_iov_lemma occ items l r :
    let fresh := item_fresh items in
    let ies := flat_map (fun it => level_etas (ie_levels it)) items in
    NoDup fresh -> inputs_ok occ items fresh ->
    (forall it, In it items -> ~ In (ie_eta it) fresh /\ ~ In (ie_eta it) (flat_map defs l) /\ ~ In (ie_eta it) (ode_rhs l)) ->
    (forall x, In x fresh -> ~ In x (flat_map defs l) /\ ~ In x (flat_map rhs l)) ->
    (* the IOV etas are new symbols: not the occasion column, not a requested eta, unknown to the program *)
    ~ In occ ies ->
    (forall e, In e ies -> ~ In e (flat_map defs l) /\ ~ In e (flat_map rhs l) /\ ~ In e (ode_rhs l)) ->
    (* the row's occasion is one of the levels *)
    (forall it, In it items -> exists o lv, r occ = Some o /\ In lv (ie_levels it) /\ Qeq_bool (fst lv) o = true) ->
    forall x, ~ In x fresh -> ~ In x (item_etas items) -> ~ In x ies ->
      oq_equiv (exec fi ode r (remove_iov ies (add_iov occ items l)) x) (exec fi ode r l x).
  Proof.
    intros fresh ies Hnd Hin Heta Hfresh Hocc Hies Hlev x Hx Hxe Hxi.
    rewrite exec_remove_iov; [| | exact Hxi].
    2:{ intros e He. rewrite ode_rhs_add_iov. split; [|apply Hies, He].
        intro Hd. apply defs_add_iov in Hd. destruct Hd as [Hd|Hd]; [|apply (proj1 (Hies e He)), Hd].
        apply in_flat_map in He. destruct He as [it [Hi He]]. apply (proj2 Hin it Hi e He), Hd. }
    set (r0 := zero_env ies r).
    eapply oq_trans; [apply (add_iov_sound_lemma fi Hp ode Hode occ items l r0 Hnd Hin Heta Hfresh x Hx Hxe)|].
    (* shifting by IOV etas that are all 0 changes nothing *)
    assert (Hsh : env_equiv (shift occ items r0 r0) r0).
    { assert (Gen : forall its, (forall it, In it its -> In it items) -> env_equiv (shift occ its r0 r0) r0).
      { induction its as [|hd tl IH]; intros Hsub; cbn [shift]; [apply env_equiv_refl|].
        intros y. unfold upd. destruct (Pos.eqb y (ie_eta hd)) eqn:E; [|apply IH; intros it Hi; apply Hsub; right; exact Hi].
        apply Pos.eqb_eq in E. subst y.
        destruct (Hlev hd (Hsub hd (or_introl eq_refl))) as [o [lv [Ho [Hl Hq]]]].
        assert (Hv : iov_value r0 occ (ie_levels hd) = Some 0).
        { unfold iov_value. unfold r0 at 1. rewrite zero_env_notin by exact Hocc. rewrite Ho.
          destruct (find (fun lv0 : Q * id => Qeq_bool (fst lv0) o) (ie_levels hd)) as [lv'|] eqn:Ef.
          - apply find_some in Ef. unfold r0. apply zero_env_in. apply in_flat_map. exists hd.
            split; [apply Hsub; left; reflexivity | apply in_map, Ef].
          - exfalso. pose proof (find_none _ _ Ef lv Hl) as Hn. cbv beta in Hn. rewrite Hq in Hn. discriminate Hn. }
        rewrite Hv. destruct (r0 (ie_eta hd)) as [e|]; cbn [oadd oq_equiv]; [|exact I].
        rewrite Qred_correct. ring. }
      apply Gen. auto. }
    eapply oq_trans; [apply (exec_proper fi Hp ode Hode l _ _ Hsh)|].
    (* the program does not know the IOV etas *)
    assert (Hag : agree_off ies r0 r) by (intros y Hy; unfold r0; rewrite zero_env_notin by exact Hy; apply oq_refl).
    apply (exec_agree fi Hp ode Hode ies l _ _ Hag); [|exact Hxi].
    apply Forall_forall. intros st Hst z Hz Hr. apply (proj1 (proj2 (Hies z Hz))). apply in_flat_map. exists st. split; assumption.
  Qed.
End RemoveIov.


(* ---- add_allometry ------------------------------------------------------------------------------------ *)
Definition doc_allometry_closed (p th var : id) (ref : Q) : expr :=
  Mul (Sym p) (Fn2 F_POW (Div (Sym var) (Num ref)) (Sym th)).

Lemma allometry_stmt_equiv T p th var ref :
  templates_equiv T doc_templates ->
  expr_equiv (subs_map [(s_p, Sym p); (s_var, Sym var); (s_ref, Num ref); (s_allo, Sym th)] (t_allometry T))
             (doc_allometry_closed p th var ref).
Proof.
  intros HT. eapply expr_equiv_trans; [apply expr_equiv_subs_map, (te_allometry _ _ HT)|].
  cbn. apply expr_equiv_refl.
Qed.

Section Allometry.
  Variable fi : finterp.
  Hypothesis Hp : fi_proper fi.
  Hypothesis Hpow : pow_base_one fi.
  Variable ode : id -> list (option Q) -> option Q.
  Hypothesis Hode : ode_proper ode.

  (* FORMULA: one step of add_allometry inserts P = P * (X / Z) ** T after the last assignment of P *)
  Lemma add_allometry1_formula T var ref l p th i r :
    templates_equiv T doc_templates -> find_assignment_index l p = Some i ->
    env_equiv (exec fi ode r (add_allometry1 T var ref l (p, th)))
              (exec fi ode r (firstn (S i) l ++ Assign p (doc_allometry_closed p th var ref) :: skipn (S i) l)).
  Proof.
    intros HT Ei. unfold add_allometry1. cbn [fst snd]. rewrite Ei. unfold allometry_stmt.
    apply exec_replace_equiv; auto. apply allometry_stmt_equiv, HT.
  Qed.

  (* NEUTRAL: at the reference value of the allometric variable one step changes nothing *)
  Lemma add_allometry1_neutral T var ref l p th r m t :
    templates_equiv T doc_templates ->
    ~ In var (flat_map defs l) -> ~ In th (flat_map defs l) ->
    r var = Some m -> m == ref -> ~ ref == 0 -> r th = Some t ->
    env_equiv (exec fi ode r (add_allometry1 T var ref l (p, th))) (exec fi ode r l).
  Proof.
    intros HT Hv Ht Hm Hmr Hr0 Hth.
    destruct (find_assignment_index l p) as [i|] eqn:Ei.
    2:{ unfold add_allometry1. cbn [fst]. rewrite Ei. apply env_equiv_refl. }
    eapply env_equiv_trans; [apply (add_allometry1_formula T var ref l p th i r HT Ei)|].
    eapply env_equiv_trans; [| rewrite <- (firstn_skipn (S i) l) at 1; apply env_equiv_refl].
    apply exec_insert_neutral; auto.
    change (doc_allometry_closed p th var ref) with (apply_op OpMul (Sym p) (Fn2 F_POW (Div (Sym var) (Num ref)) (Sym th))).
    apply mul_neutral_stmt; auto.
    set (pre := firstn (S i) l).
    assert (Hsub : forall x, ~ In x (flat_map defs l) -> ~ In x (flat_map defs pre)).
    { intros x Hx Hin. apply Hx. rewrite <- (firstn_skipn (S i) l), flat_map_app. apply in_or_app; left; exact Hin. }
    cbn [eval]. rewrite !exec_not_defined by (apply Hsub; assumption). rewrite Hm, Hth. cbn [obind].
    assert (N : Qeq_bool ref 0 = false) by (destruct (Qeq_bool ref 0) eqn:E; [apply Qeq_bool_iff in E; contradiction | reflexivity]).
    rewrite N. cbn [obind]. apply pow_at_one; auto. rewrite Qred_correct, Hmr. field. exact Hr0.
  Qed.

  Lemma defs_add_allometry1 T var ref l pt :
    forall x, In x (flat_map defs (add_allometry1 T var ref l pt)) -> x = fst pt \/ In x (flat_map defs l).
  Proof.
    intros x Hx. unfold add_allometry1 in Hx. destruct (find_assignment_index l (fst pt)) as [i|]; [|right; exact Hx].
    rewrite flat_map_app in Hx. cbn [flat_map] in Hx. apply in_app_or in Hx.
    destruct Hx as [Hx|Hx].
    - right. rewrite <- (firstn_skipn (S i) l), flat_map_app. apply in_or_app. left. exact Hx.
    - apply in_app_or in Hx. destruct Hx as [Hx|Hx].
      + cbn in Hx. destruct Hx as [E|[]]. left. symmetry. exact E.
      + right. rewrite <- (firstn_skipn (S i) l), flat_map_app. apply in_or_app. right. exact Hx.
  Qed.

  (* allometry_program_neutral: the whole add_allometry (any list of parameters) at the reference value *)
  Theorem add_allometry_neutral_lemma T var ref params : forall l r m,
    templates_equiv T doc_templates ->
    ~ In var (flat_map defs l) -> ~ In var (map fst params) ->
    (forall pt, In pt params -> ~ In (snd pt) (flat_map defs l) /\ ~ In (snd pt) (map fst params) /\
                                exists t, r (snd pt) = Some t) ->
    r var = Some m -> m == ref -> ~ ref == 0 ->
    env_equiv (exec fi ode r (add_allometry T var ref params l)) (exec fi ode r l).
  Proof.
    unfold add_allometry. induction params as [|[p th] tl IH]; intros l r m HT Hv Hvp Hth Hm Hmr Hr0; cbn [fold_left];
      [apply env_equiv_refl|].
    cbn [map fst] in Hvp. destruct (Hth (p, th) (or_introl eq_refl)) as [A [B [t Ht]]]. cbn [snd map fst] in *.
    eapply env_equiv_trans.
    - apply (IH (add_allometry1 T var ref l (p, th)) r m HT); auto.
      + intro H. apply defs_add_allometry1 in H. cbn [fst] in H. destruct H as [E|H]; [apply Hvp; left; symmetry; exact E | contradiction].
      + intro H. apply Hvp. right. exact H.
      + intros pt Hin. destruct (Hth pt (or_intror Hin)) as [A' [B' C']]. repeat split; auto.
        * intro H. apply defs_add_allometry1 in H. cbn [fst] in H. destruct H as [E|H]; [apply B'; left; symmetry; exact E | contradiction].
        * intro H. apply B'. right. exact H.
    - apply (add_allometry1_neutral T var ref l p th r m t); auto.
  Qed.
End Allometry.


(* ---- transform_blq M3/M4 ------------------------------------------------------------------------------ *)
Definition blq_prefix (a : blq_args) (yexpr : expr) : list stmt := removelast (blq_new_stmts a yexpr).
Definition blq_below (a : blq_args) (yexpr : expr) : expr :=
  let ipred := zero_eps (b_epsilons a) yexpr in
  if b_m4 a
  then PwCons CTrue (Div (Add (Sym (b_cumd a)) (Neg (Sym (b_cumdz a)))) (Add (Num 1) (Neg (Sym (b_cumdz a))))) PwNil
  else PwCons CTrue (Fn1 F_PHI (Div (Add (b_level a) (Neg ipred)) (Sym (b_sd a)))) PwNil.

Lemma blq_new_stmts_split a yexpr :
  blq_new_stmts a yexpr = blq_prefix a yexpr ++ [Assign (b_y a) (PwCons (b_above a) yexpr (blq_below a yexpr))].
Proof.
  unfold blq_prefix, blq_new_stmts, blq_below. destruct (b_m4 a), (b_lloq_stmt a); cbn; reflexivity.
Qed.

Lemma blq_prefix_defs a yexpr : forall x, In x (flat_map defs (blq_prefix a yexpr)) -> In x (blq_fresh a).
Proof.
  intros x Hx. unfold blq_prefix, blq_new_stmts, blq_fresh in *.
  destruct (b_m4 a), (b_lloq_stmt a) as [ls|]; cbn [app removelast flat_map defs] in Hx;
    repeat (apply in_app_or in Hx; destruct Hx as [Hx|Hx]); cbn [In] in *;
    try (right; right; right; apply in_or_app; (left; assumption) || (right; assumption));
    intuition (subst; auto).
Qed.

Section Blq.
  Variable fi : finterp.
  Hypothesis Hp : fi_proper fi.
  Variable ode : id -> list (option Q) -> option Q.
  Hypothesis Hode : ode_proper ode.

  (* above the LLOQ (the indicator condition holds where Y is assigned) the transformed model computes the
     same Y — and every other symbol of the original program — as the original model *)
  Theorem transform_blq_above_lemma a l l' r :
    transform_blq a l = Some l' ->
    let F := blq_fresh a in
    (forall x, In x F -> ~ In x (flat_map defs l) /\ ~ In x (flat_map rhs l)) ->
    ~ In (b_y a) F ->
    (forall i yexpr, find_assignment_index l (b_y a) = Some i -> nths l i = Assign (b_y a) yexpr ->
       evalc (exec fi ode r (firstn i l ++ blq_prefix a yexpr)) fi (b_above a) = Some true) ->
    agree_off F (exec fi ode r l') (exec fi ode r l).
  Proof.
    intros Ht F Hfresh Hy Habove. unfold transform_blq in Ht.
    destruct (find_assignment_index l (b_y a)) as [i|] eqn:Ei; [|discriminate].
    destruct (find_index_split l (b_y a) i Ei) as [yexpr [Hl [Hn [_ Hi]]]].
    rewrite Hn in Ht.
    assert (E : l' = firstn i l ++ blq_new_stmts a yexpr ++ skipn (S i) l) by (injection Ht as <-; reflexivity).
    subst l'. clear Ht.
    specialize (Habove i yexpr eq_refl Hn).
    assert (Hreads : forall st, In st l -> reads_none F st).
    { intros st Hst x Hx Hin. apply (proj2 (Hfresh x Hx)). apply in_flat_map. exists st. split; assumption. }
    assert (HY : In (Assign (b_y a) yexpr) l) by (rewrite Hl; apply in_or_app; right; left; reflexivity).
    replace (exec fi ode r l) with (exec fi ode r (firstn i l ++ Assign (b_y a) yexpr :: skipn (S i) l))
      by (rewrite <- Hl; reflexivity).
    rewrite blq_new_stmts_split.
    replace (firstn i l ++ (blq_prefix a yexpr ++ [Assign (b_y a) (PwCons (b_above a) yexpr (blq_below a yexpr))]) ++ skipn (S i) l)
      with ((firstn i l ++ blq_prefix a yexpr) ++ Assign (b_y a) (PwCons (b_above a) yexpr (blq_below a yexpr)) :: skipn (S i) l)
      by (rewrite <- !app_assoc; reflexivity).
    rewrite (exec_app fi ode (firstn i l ++ blq_prefix a yexpr)), (exec_app fi ode (firstn i l) (Assign (b_y a) yexpr :: _)).
    cbn [exec].
    apply (exec_agree fi Hp ode Hode F).
    2:{ apply Forall_forall. intros st Hst. apply Hreads. rewrite Hl. apply in_or_app. right. right. exact Hst. }
    set (rm := exec fi ode r (firstn i l ++ blq_prefix a yexpr)) in *.
    set (rs := exec fi ode r (firstn i l)).
    assert (Hag : agree_off F rm rs).
    { intros x Hx. unfold rm. rewrite exec_app. rewrite exec_not_defined; [apply oq_refl|].
      intro H. apply Hx, (blq_prefix_defs a yexpr x H). }
    cbn [exec1]. intros x Hx. unfold upd. destruct (Pos.eqb x (b_y a)); [|apply Hag, Hx].
    cbn [eval]. rewrite Habove. cbn [obind].
    apply (eval_equiv_on fi Hp). intros z Hz. apply Hag. intro Hin. apply (Hreads _ HY z Hin). exact Hz.
  Qed.
End Blq.


(* ---- _update_numerators ------------------------------------------------------------------------------- *)
Lemma lookup_set_rate d s v s' :
  lookup_rate (set_rate d s v) s' =
  match lookup_rate d s' with Some w => if Pos.eqb s' s then Some v else Some w | None => None end.
Proof.
  induction d as [|[k w] tl IH]; cbn [set_rate map lookup_rate fst snd]; [reflexivity|].
  fold (set_rate tl s v). destruct (Pos.eqb k s) eqn:Eks; cbn [fst lookup_rate].
  - destruct (Pos.eqb k s') eqn:Eks'.
    + apply Pos.eqb_eq in Eks, Eks'. subst. rewrite Pos.eqb_refl. reflexivity.
    + exact IH.
  - destruct (Pos.eqb k s') eqn:Eks'.
    + apply Pos.eqb_eq in Eks'. subst. rewrite Eks. reflexivity.
    + exact IH.
Qed.

Definition rate_syms (rates : list trate) : list id :=
  flat_map (fun rt => match tr_numer rt with NSym s => [s] | _ => [] end) rates.

Lemma update_defs_spec newn rates : forall d s den,
  (exists z, lookup_rate d s = Some (NInt z, den)) ->
  In s (rate_syms rates) \/ lookup_rate d s = Some (NInt newn, den) ->
  lookup_rate (update_defs newn rates d) s = Some (NInt newn, den).
Proof.
  unfold update_defs. induction rates as [|rt tl IH]; intros d s den [z Hz] Hor; cbn [fold_left].
  - destruct Hor as [[]|H]. exact H.
  - cbn [rate_syms flat_map] in Hor.
    destruct (tr_numer rt) as [q|s0|] eqn:En.
    + apply IH; [exists z; exact Hz|]. destruct Hor as [H|H]; [left; exact H | right; exact H].
    + destruct (lookup_rate d s0) as [[[z0|?|] den0]|] eqn:E0.
      * (* the entry of s0 is rewritten *)
        apply IH.
        -- rewrite lookup_set_rate, Hz. destruct (Pos.eqb s s0) eqn:E; [|exists z; reflexivity].
           apply Pos.eqb_eq in E. subst. rewrite Hz in E0. injection E0 as <- <-. exists newn. reflexivity.
        -- destruct (Pos.eqb s s0) eqn:E.
           ++ right. apply Pos.eqb_eq in E. subst. rewrite lookup_set_rate, Hz, Pos.eqb_refl.
              rewrite Hz in E0. injection E0 as <- <-. reflexivity.
           ++ destruct Hor as [H|H].
              ** cbn [app In] in H. destruct H as [H|H]; [subst; rewrite Pos.eqb_refl in E; discriminate | left; exact H].
              ** right. rewrite lookup_set_rate, H, E. reflexivity.
      * apply IH; [exists z; exact Hz|]. destruct Hor as [H|H]; [|right; exact H].
        cbn [app In] in H. destruct H as [H|H]; [subst; rewrite Hz in E0; discriminate | left; exact H].
      * apply IH; [exists z; exact Hz|]. destruct Hor as [H|H]; [|right; exact H].
        cbn [app In] in H. destruct H as [H|H]; [subst; rewrite Hz in E0; discriminate | left; exact H].
      * apply IH; [exists z; exact Hz|]. destruct Hor as [H|H]; [|right; exact H].
        cbn [app In] in H. destruct H as [H|H]; [subst; rewrite Hz in E0; discriminate | left; exact H].
    + apply IH; [exists z; exact Hz|]. destruct Hor as [H|H]; [left; exact H | right; exact H].
Qed.

(* every transit rate with an integer numerator (written directly or through a rate symbol) has the
   numerator n — the number of compartments handed to _update_numerators — afterwards, same denominator *)
Theorem update_numerators_lemma n rates d rt z den :
  In rt rates -> rate_value d rt = Some (NInt z, den) ->
  let '(rates', d') := update_numerators n rates d in
  rate_value d' (update_direct (inject_Z (Z.of_nat n)) rt) = Some (NInt (inject_Z (Z.of_nat n)), den) /\
  In (update_direct (inject_Z (Z.of_nat n)) rt) rates'.
Proof.
  intros Hin Hv. unfold update_numerators. split; [|apply in_map; exact Hin].
  unfold rate_value, update_direct in *. destruct (tr_numer rt) as [q|s|] eqn:En; cbn [tr_numer tr_denom].
  - injection Hv as _ <-. reflexivity.
  - rewrite En. apply update_defs_spec; [exists z; exact Hv|]. left.
    unfold rate_syms. apply in_flat_map. exists rt. split; [exact Hin|]. rewrite En. left; reflexivity.
  - discriminate.
Qed.


Theorem rates_after_update_lemma rates d :
  length rates <> 1%nat ->
  (forall rt, In rt rates -> exists z, rate_value d rt = Some (NInt z, Sym s_mdt)) ->
  let '(rates', d') := rates_after_update rates d in
  forall rt', In rt' rates' -> rate_value d' rt' = Some (NInt (inject_Z (Z.of_nat (length rates))), Sym s_mdt).
Proof.
  intros Hlen Hall. unfold rates_after_update, detected_transits.
  destruct (Nat.eqb (length rates) 1) eqn:E1; [apply Nat.eqb_eq in E1; contradiction|].
  destruct (Nat.eqb (length rates) 0) eqn:E0.
  - apply Nat.eqb_eq in E0. destruct rates; [|discriminate]. intros rt' [].
  - unfold update_numerators. intros rt' Hin. apply in_map_iff in Hin. destruct Hin as [rt [<- Hin]].
    destruct (Hall rt Hin) as [z Hz].
    pose proof (update_numerators_lemma (length rates) rates d rt z (Sym s_mdt) Hin Hz) as H.
    unfold update_numerators in H. apply H.
Qed.
