(* PV.C09.ProofsExec — program-level lemmas: sequential execution respects Qeq-equivalence of environments;
   inserting the documented covariate-effect statement / replacing a parameter assignment by the documented
   eta form leaves EVERY symbol of EVERY program unchanged at the reference covariate value / at eta = 0. *)
From Coq Require Import QArith Qfield List Bool PArith Arith Lia Setoid.
From PV Require Import Base.PyData Base.Expr Base.Interp Base.Stmts C09.Model C09.Proofs.
Import ListNotations.
Local Open Scope Q_scope.

Lemma env_equiv_refl r : env_equiv r r.
Proof. intros x; apply oq_refl. Qed.
Lemma env_equiv_sym r r' : env_equiv r r' -> env_equiv r' r.
Proof. intros H x; apply oq_sym, H. Qed.
Lemma env_equiv_trans r r' r'' : env_equiv r r' -> env_equiv r' r'' -> env_equiv r r''.
Proof. intros H1 H2 x; eapply oq_trans; [apply H1 | apply H2]. Qed.

Lemma env_equiv_upd r r' s v v' : env_equiv r r' -> oq_equiv v v' -> env_equiv (upd r s v) (upd r' s v').
Proof. intros Hr Hv x. unfold upd. destruct (Pos.eqb x s); [exact Hv | apply Hr]. Qed.

(* the ODE oracle respects Qeq *)
Definition ode_proper (ode : id -> list (option Q) -> option Q) : Prop :=
  forall a vs vs', Forall2 oq_equiv vs vs' -> oq_equiv (ode a vs) (ode a vs').

Section Exec.
  Variable fi : finterp.
  Hypothesis Hp : fi_proper fi.
  Variable ode : id -> list (option Q) -> option Q.
  Hypothesis Hode : ode_proper ode.

  Lemma eval_env_equiv r r' e : env_equiv r r' -> oq_equiv (eval r fi e) (eval r' fi e).
  Proof. intros H. apply (proj1 (eval_proper fi r r' Hp H)). Qed.

  Lemma exec1_proper r r' st : env_equiv r r' -> env_equiv (exec1 fi ode r st) (exec1 fi ode r' st).
  Proof.
    intros H. destruct st as [s e | amts rh]; cbn [exec1].
    - apply env_equiv_upd; [exact H | apply eval_env_equiv; exact H].
    - intros x. unfold upd_list. destruct (memp x amts); [|apply H].
      apply Hode. induction rh as [|y tl IH]; cbn [map]; constructor; [apply H | exact IH].
  Qed.

  Lemma exec_proper l : forall r r', env_equiv r r' -> env_equiv (exec fi ode r l) (exec fi ode r' l).
  Proof.
    induction l as [|st tl IH]; intros r r' H; cbn [exec]; [exact H|].
    apply IH, exec1_proper, H.
  Qed.

  Lemma exec_app l1 l2 r : exec fi ode r (l1 ++ l2) = exec fi ode (exec fi ode r l1) l2.
  Proof. revert r; induction l1 as [|st tl IH]; intros r; cbn [app exec]; [reflexivity | apply IH]. Qed.

  (* a symbol that no statement defines keeps its initial value *)
  Lemma exec_not_defined l : forall r x, ~ In x (flat_map defs l) -> exec fi ode r l x = r x.
  Proof.
    induction l as [|st tl IH]; intros r x Hx; cbn [exec]; [reflexivity|].
    cbn [flat_map] in Hx. rewrite IH by (intro H; apply Hx, in_or_app; right; exact H).
    destruct st as [s e | amts rh]; cbn [exec1 defs] in *.
    - unfold upd. destruct (Pos.eqb x s) eqn:E; [|reflexivity]. apply Pos.eqb_eq in E. subst.
      exfalso; apply Hx. left; reflexivity.
    - unfold upd_list. destruct (memp x amts) eqn:E; [|reflexivity]. apply memp_In in E.
      exfalso; apply Hx, in_or_app; left; exact E.
  Qed.

  (* replacing one statement by another that computes an equivalent environment *)
  Lemma exec_replace pre post st st' r :
    env_equiv (exec1 fi ode (exec fi ode r pre) st) (exec1 fi ode (exec fi ode r pre) st') ->
    env_equiv (exec fi ode r (pre ++ st :: post)) (exec fi ode r (pre ++ st' :: post)).
  Proof.
    intros H. rewrite !exec_app. cbn [exec]. apply exec_proper, H.
  Qed.

  (* inserting a statement that (in the environment where it runs) changes nothing *)
  Lemma exec_insert_neutral pre post st r :
    env_equiv (exec1 fi ode (exec fi ode r pre) st) (exec fi ode r pre) ->
    env_equiv (exec fi ode r (pre ++ st :: post)) (exec fi ode r (pre ++ post)).
  Proof.
    intros H. rewrite !exec_app. cbn [exec]. apply exec_proper, H.
  Qed.
End Exec.

Lemma firstn_skipn_S {A} (l : list A) i : firstn (S i) l ++ skipn (S i) l = l.
Proof. apply firstn_skipn. Qed.

(* ---- instantiation of a template: evaluation of the closed documented effect ------------------------ *)
Fixpoint upd_stats (stats : list (id * id * Q)) (r : env) : env :=
  match stats with
  | [] => r
  | (ts, _, v) :: tl => upd (upd_stats tl r) ts (Some v)
  end.

Lemma eval_fold_stats fi stats : forall e r,
  eval r fi (fold_left (fun e (st : id * id * Q) => let '(ts, _, v) := st in subs ts (Num v) e) stats e)
  = eval (upd_stats stats r) fi e.
Proof.
  induction stats as [|[[ts nm] v] tl IH]; intros e r; cbn [fold_left upd_stats]; [reflexivity|].
  rewrite IH, subs_eval. reflexivity.
Qed.

Definition inst_env (fi : finterp) (a : cov_args) (r : env) : env :=
  let r1 := upd_stats (a_stats a) r in
  let r2 := upd r1 s_cov (r1 (a_cov a)) in
  upd_map r2 fi (map (fun p => (fst p, Sym (snd p))) (a_thetas a)).

Lemma eval_doc_effect_closed fi a r :
  eval r fi (doc_effect_closed a) =
  eval (inst_env fi a r) fi (effect_expr doc_templates (a_kind a) (a_cats a) (a_mc a)).
Proof.
  unfold doc_effect_closed, inst_env. rewrite eval_fold_stats, subs_eval.
  rewrite (proj1 (subs_map_lemma _ fi _)). reflexivity.
Qed.

(* ---- executable guard on the arguments: shapes and freshness w.r.t. the placeholder symbols --------- *)
Definition not_placeholder (x : id) : bool := Pos.ltb 200 x.

Definition kind_of (k : dkind) : option ekind :=
  match k with DLin => Some ELin | DPiece => Some EPiece | DExp => Some EExp | DPow => Some EPow | DCat _ => None end.

Definition thetas_shape_ok (k : ekind) (th : list (id * id)) : bool :=
  match k, th with
  | EPiece, [(a, x); (b, y)] => Pos.eqb a s_theta1 && Pos.eqb b s_theta2 && not_placeholder x && not_placeholder y
  | EPiece, _ => false
  | _, [(a, x)] => Pos.eqb a s_theta && not_placeholder x
  | _, _ => false
  end.

Definition stats_shape_ok (st : list (id * id * Q)) : bool :=
  match st with
  | [(a, _, _); (b, _, _); (c, _, _)] => Pos.eqb a s_mean && Pos.eqb b s_median && Pos.eqb c s_std
  | _ => false
  end.

Definition median_of (st : list (id * id * Q)) : Q :=
  match st with [_; (_, _, v); _] => v | _ => 0 end.

Definition g_cov_args (a : cov_args) (k : ekind) : bool :=
  match kind_of (a_kind a) with
  | Some k' => match k, k' with
               | ELin, ELin | EPiece, EPiece | EExp, EExp | EPow, EPow => true | _, _ => false end
  | None => false
  end && thetas_shape_ok k (a_thetas a) && stats_shape_ok (a_stats a) && not_placeholder (a_cov a).

Lemma not_placeholder_neq x (p : id) : not_placeholder x = true -> (p <= 200)%positive -> Pos.eqb x p = false.
Proof.
  unfold not_placeholder. intros H Hp. apply Pos.ltb_lt in H. apply Pos.eqb_neq. intro E; subst. lia.
Qed.

Ltac cov_goal :=
  unfold upd_map; cbn [map fst snd alookup]; cbn [Pos.eqb s_theta s_theta1 s_theta2 s_cov]; unfold upd at 1;
  cbn [Pos.eqb s_cov]; unfold upd;
  match goal with E1 : Pos.eqb _ s_mean = false, E2 : Pos.eqb _ s_median = false, E3 : Pos.eqb _ s_std = false, Hc : _ = Some _ |- _ =>
    rewrite E1, E2, E3; exact Hc end.
Ltac med_goal :=
  unfold upd_map; cbn [map fst snd alookup]; cbn [Pos.eqb s_theta s_theta1 s_theta2 s_median]; unfold upd;
  cbn [Pos.eqb s_median s_cov s_std s_mean]; reflexivity.
Ltac theta_goal x Gx Hx :=
  unfold upd_map; cbn [map fst snd alookup]; cbn [Pos.eqb s_theta s_theta1 s_theta2]; cbn [eval]; unfold upd;
  rewrite (not_placeholder_neq x s_cov Gx), (not_placeholder_neq x s_mean Gx), (not_placeholder_neq x s_median Gx),
    (not_placeholder_neq x s_std Gx) by (now vm_compute); exact Hx.

Section Neutral.
  Variable fi : finterp.
  Hypothesis Hp : fi_proper fi.
  Hypothesis Hexp : exp_zero_one fi.
  Hypothesis Hpow : pow_base_one fi.
  Variable ode : id -> list (option Q) -> option Q.
  Hypothesis Hode : ode_proper ode.

  (* the closed documented effect is 1 in every environment where the covariate has the reference value *)
  Lemma doc_effect_closed_neutral a k r m :
    g_cov_args a k = true ->
    r (a_cov a) = Some m -> m == median_of (a_stats a) -> ref_ok k m ->
    (forall p, In p (a_thetas a) -> exists t, r (snd p) = Some t) ->
    oq_equiv (eval r fi (doc_effect_closed a)) (Some 1).
  Proof.
    intros G Hc Hm Hk Ht.
    rewrite eval_doc_effect_closed.
    unfold g_cov_args in G. apply andb_true_iff in G as [G Gc]. apply andb_true_iff in G as [G Gs].
    apply andb_true_iff in G as [Gk Gt].
    destruct (a_stats a) as [|[[s1 n1] v1] [|[[s2 n2] v2] [|[[s3 n3] v3] [|]]]] eqn:Es; cbn [stats_shape_ok] in Gs; try discriminate.
    apply andb_true_iff in Gs as [Gs G3]. apply andb_true_iff in Gs as [G1 G2].
    apply Pos.eqb_eq in G1, G2, G3. subst s1 s2 s3. cbn [median_of] in Hm.
    assert (Ec1 : Pos.eqb (a_cov a) s_mean = false) by (apply not_placeholder_neq; [exact Gc | now vm_compute]).
    assert (Ec2 : Pos.eqb (a_cov a) s_median = false) by (apply not_placeholder_neq; [exact Gc | now vm_compute]).
    assert (Ec3 : Pos.eqb (a_cov a) s_std = false) by (apply not_placeholder_neq; [exact Gc | now vm_compute]).
    destruct (a_kind a) eqn:Ek; cbn [kind_of] in Gk; destruct k; try discriminate; cbn [effect_expr doc_templates t_effect].
    all: eapply oq_trans; [apply eval_sem_e; exact Hp|].
    all: unfold inst_env; rewrite Es; cbn [upd_stats].
    - (* lin *)
      destruct (a_thetas a) as [|[ta x] [|]] eqn:Eth; cbn [thetas_shape_ok] in Gt; try discriminate.
      apply andb_true_iff in Gt as [Ga Gx]. apply Pos.eqb_eq in Ga. subst ta.
      destruct (Ht (s_theta, x) (or_introl eq_refl)) as [t Hx]. cbn [snd] in Hx.
      apply (doc_effect_neutral_sem fi _ ELin m v2 Hp Hexp Hpow); [cov_goal | med_goal | exact Hm | exact Hk |].
      cbn [thetas_defined]. exists t. theta_goal x Gx Hx.
    - (* piecewise *)
      destruct (a_thetas a) as [|[ta x] [|[tb y] [|]]] eqn:Eth; cbn [thetas_shape_ok] in Gt; try discriminate.
      apply andb_true_iff in Gt as [Gt Gy]. apply andb_true_iff in Gt as [Gt Gx]. apply andb_true_iff in Gt as [Ga Gb].
      apply Pos.eqb_eq in Ga, Gb. subst ta tb.
      destruct (Ht (s_theta1, x) (or_introl eq_refl)) as [t1 Hx].
      destruct (Ht (s_theta2, y) (or_intror (or_introl eq_refl))) as [t2 Hy].
      cbn [snd] in Hx, Hy.
      apply (doc_effect_neutral_sem fi _ EPiece m v2 Hp Hexp Hpow); [cov_goal | med_goal | exact Hm | exact Hk |].
      cbn [thetas_defined]. split; [exists t1; theta_goal x Gx Hx | exists t2; theta_goal y Gy Hy].
    - (* exp *)
      destruct (a_thetas a) as [|[ta x] [|]] eqn:Eth; cbn [thetas_shape_ok] in Gt; try discriminate.
      apply andb_true_iff in Gt as [Ga Gx]. apply Pos.eqb_eq in Ga. subst ta.
      destruct (Ht (s_theta, x) (or_introl eq_refl)) as [t Hx]. cbn [snd] in Hx.
      apply (doc_effect_neutral_sem fi _ EExp m v2 Hp Hexp Hpow); [cov_goal | med_goal | exact Hm | exact Hk |].
      cbn [thetas_defined]. exists t. theta_goal x Gx Hx.
    - (* pow *)
      destruct (a_thetas a) as [|[ta x] [|]] eqn:Eth; cbn [thetas_shape_ok] in Gt; try discriminate.
      apply andb_true_iff in Gt as [Ga Gx]. apply Pos.eqb_eq in Ga. subst ta.
      destruct (Ht (s_theta, x) (or_introl eq_refl)) as [t Hx]. cbn [snd] in Hx.
      apply (doc_effect_neutral_sem fi _ EPow m v2 Hp Hexp Hpow); [cov_goal | med_goal | exact Hm | exact Hk |].
      cbn [thetas_defined]. exists t. theta_goal x Gx Hx.
  Qed.

  (* multiplying a value by something Qeq to 1 *)
  Lemma mul_neutral_stmt r P e :
    oq_equiv (eval r fi e) (Some 1) ->
    env_equiv (exec1 fi ode r (Assign P (apply_op OpMul (Sym P) e))) r.
  Proof.
    intros He x. cbn [exec1 apply_op eval]. unfold upd. destruct (Pos.eqb x P) eqn:E; [|apply oq_refl].
    apply Pos.eqb_eq in E. subst x.
    destruct (r P) as [p|]; cbn [obind]; [|exact I].
    destruct (eval r fi e) as [v|]; cbn [obind oq_equiv] in *; [|contradiction].
    rewrite Qred_correct, He. ring.
  Qed.

  (* covariate_effect_program_neutral: the specified transformation (P = P * documented_effect after the last
     assignment of P) leaves the value of EVERY symbol of EVERY program unchanged when the covariate has the
     reference value — covariate and thetas are inputs (never assigned by the program). *)
  Lemma spec_cov_effect_neutral a k l l' r m :
    g_cov_args a k = true -> a_op a = OpMul ->
    spec_covariate_effect a l = Some l' ->
    ~ In (a_cov a) (flat_map defs l) -> (forall p, In p (a_thetas a) -> ~ In (snd p) (flat_map defs l)) ->
    r (a_cov a) = Some m -> m == median_of (a_stats a) -> ref_ok k m ->
    (forall p, In p (a_thetas a) -> exists t, r (snd p) = Some t) ->
    env_equiv (exec fi ode r l') (exec fi ode r l).
  Proof.
    intros G Ho Hs Hcd Htd Hc Hm Hk Ht.
    unfold spec_covariate_effect in Hs. destruct (find_assignment_index l (a_param a)) as [i|]; [|discriminate].
    injection Hs as <-. rewrite Ho.
    set (pre := firstn (S i) l).
    assert (Hsub : forall x, ~ In x (flat_map defs l) -> ~ In x (flat_map defs pre)).
    { intros x Hx Hin. apply Hx. rewrite <- (firstn_skipn (S i) l). rewrite flat_map_app. apply in_or_app; left; exact Hin. }
    eapply env_equiv_trans; [| rewrite <- (firstn_skipn (S i) l) at 1; apply env_equiv_refl].
    cbn [app]. apply exec_insert_neutral; auto.
    apply mul_neutral_stmt.
    apply (doc_effect_closed_neutral a k _ m); auto.
    - fold pre. rewrite exec_not_defined by (apply Hsub; exact Hcd). exact Hc.
    - intros p Hin. destruct (Ht p Hin) as [t Hx]. exists t. fold pre.
      rewrite exec_not_defined by (apply Hsub, Htd; exact Hin). exact Hx.
  Qed.
End Neutral.

(* ---- IIV: replacing P = e by P = documented_form(e, eta) is neutral at eta = 0 ---------------------- *)
Section IivNeutral.
  Variable fi : finterp.
  Hypothesis Hp : fi_proper fi.
  Hypothesis Hexp : exp_zero_one fi.
  Variable ode : id -> list (option Q) -> option Q.
  Hypothesis Hode : ode_proper ode.

  Lemma iiv_form_neutral k o e eta r z :
    iiv_neutral_kind k o = true -> not_placeholder eta = true ->
    r eta = Some z -> z == 0 ->
    oq_equiv (eval r fi (subs_map [(s_original, e); (s_eta_new, Sym eta)] (doc_iiv k o))) (eval r fi e).
  Proof.
    intros Hk Hn Hz Hz0.
    rewrite (proj1 (subs_map_lemma r fi _)).
    set (r' := upd_map r fi [(s_original, e); (s_eta_new, Sym eta)]).
    assert (Ho : r' s_original = eval r fi e) by reflexivity.
    assert (He : r' s_eta_new = Some z) by (unfold r', upd_map; cbn [alookup Pos.eqb s_original s_eta_new]; cbn [eval]; exact Hz).
    destruct (eval r fi e) as [p|] eqn:Ee.
    - eapply oq_trans; [apply eval_sem_e; exact Hp|].
      apply (doc_iiv_neutral_sem fi r' k o p z); auto.
    - (* undefined original: the form is undefined too *)
      eapply oq_trans; [apply eval_sem_e; exact Hp|].
      destruct k, o; cbn in Hk; try discriminate; cbn [doc_iiv apply_op sem one]; rewrite Ho; cbn [obind]; exact I.
  Qed.

  Lemma spec_iiv_neutral k o p eta l l' r z :
    iiv_neutral_kind k o = true -> not_placeholder eta = true ->
    spec_iiv k o p eta l = Some l' ->
    ~ In eta (flat_map defs l) -> r eta = Some z -> z == 0 ->
    env_equiv (exec fi ode r l') (exec fi ode r l).
  Proof.
    intros Hk Hn Hs Hd Hz Hz0.
    unfold spec_iiv in Hs. destruct (find_assignment_index l p) as [i|] eqn:Ei; [|discriminate].
    destruct (nths l i) as [s e | ? ?] eqn:En; [|discriminate].
    assert (Hform : l' = firstn i l ++ Assign p (subs_map [(s_original, e); (s_eta_new, Sym eta)] (doc_iiv k o)) :: skipn (S i) l).
    { destruct k; cbn in Hk; try discriminate; injection Hs as <-; reflexivity. }
    subst l'.
    assert (Hi : (i < length l)%nat /\ s = p).
    { unfold find_assignment_index in Ei.
      assert (Gen : forall l0 j acc, find_last_from (is_assign_of p) l0 j acc = Some i ->
                      (acc = Some i \/ (j <= i /\ i - j < length l0 /\ is_assign_of p (nth (i - j) l0 dummy) = true))%nat).
      { induction l0 as [|st tl IH]; intros j acc H; cbn [find_last_from] in H; [left; exact H|].
        apply IH in H. destruct H as [H|[H1 [H2 H3]]].
        - destruct (is_assign_of p st) eqn:Ea; [|left; exact H]. injection H as <-. right.
          rewrite Nat.sub_diag. cbn. repeat split; [lia | lia | exact Ea].
        - right. replace (i - j)%nat with (S (i - S j)) by lia. cbn [length nth]. repeat split; [lia | lia | exact H3]. }
      destruct (Gen l 0%nat None Ei) as [H|[_ [H2 H3]]]; [discriminate|].
      rewrite Nat.sub_0_r in H2, H3. split; [exact H2|].
      unfold nths in En. rewrite En in H3. cbn in H3. apply Pos.eqb_eq in H3. exact H3. }
    destruct Hi as [Hi ->].
    assert (Hl : l = firstn i l ++ Assign p e :: skipn (S i) l).
    { rewrite <- En. unfold nths. clear -Hi. revert i Hi. induction l as [|x tl IH]; intros i Hi; [cbn in Hi; lia|].
      destruct i; cbn [firstn skipn nth app]; [reflexivity|]. f_equal. apply IH. cbn in Hi. lia. }
    rewrite Hl at 3. apply exec_replace; auto.
    cbn [exec1]. apply env_equiv_upd; [apply env_equiv_refl|].
    apply (iiv_form_neutral k o e eta _ z); auto.
    rewrite exec_not_defined; [exact Hz|].
    intro Hin. apply Hd. rewrite <- (firstn_skipn i l), flat_map_app. apply in_or_app; left; exact Hin.
  Qed.
End IivNeutral.

(* ---- remove_iiv, product rule: what is left is the product of the factors that do not mention the eta *)
Section RemoveMul.
  Variable fi : finterp.
  Hypothesis Hp : fi_proper fi.

  Fixpoint prod_sem (r : env) (l : list expr) : option Q :=
    match l with
    | [] => Some 1
    | x :: tl => obind (eval r fi x) (fun a => obind (prod_sem r tl) (fun b => Some (a * b)))
    end.

  Lemma product_of_sem r l : oq_equiv (eval r fi (product_of l)) (prod_sem r l).
  Proof.
    induction l as [|x tl IH]; [cbn; reflexivity|].
    destruct tl as [|y tl'].
    - cbn [product_of prod_sem]. destruct (eval r fi x) as [a|]; cbn [obind oq_equiv]; [ring | exact I].
    - change (product_of (x :: y :: tl')) with (Mul x (product_of (y :: tl'))).
      change (prod_sem r (x :: y :: tl'))
        with (obind (eval r fi x) (fun a => obind (prod_sem r (y :: tl')) (fun b => Some (a * b)))).
      set (P := product_of (y :: tl')) in *. set (S := prod_sem r (y :: tl')) in *.
      cbn [eval]. destruct (eval r fi x) as [a|]; cbn [obind]; [|exact I].
      destruct (eval r fi P) as [b|], S as [b'|]; cbn [oq_equiv obind] in IH |- *; try contradiction; [|exact I].
      rewrite Qred_correct, IH. reflexivity.
  Qed.

  Lemma prod_sem_remove r eta l :
    oq_equiv (prod_sem r (map (fun f => if mentions eta f then Num 1 else f) l))
             (prod_sem r (filter (fun f => negb (mentions eta f)) l)).
  Proof.
    induction l as [|x tl IH]; [cbn; reflexivity|].
    cbn [map filter]. destruct (mentions eta x); cbn [negb prod_sem eval obind].
    - destruct (prod_sem r (map _ tl)) as [b|], (prod_sem r (filter _ tl)) as [b'|];
        cbn [oq_equiv obind] in IH |- *; try contradiction; [|exact I]. rewrite IH. ring.
    - destruct (eval r fi x) as [a|]; cbn [obind]; [|exact I].
      destruct (prod_sem r (map _ tl)) as [b|], (prod_sem r (filter _ tl)) as [b'|];
        cbn [oq_equiv obind] in IH |- *; try contradiction; [|exact I]. rewrite IH. reflexivity.
  Qed.

  Lemma remove_iiv_product r eta args whole :
    oq_equiv (eval r fi (remove_iiv_expr eta TopMul args whole))
             (eval r fi (product_of (filter (fun f => negb (mentions eta f)) args))).
  Proof.
    cbn [remove_iiv_expr].
    eapply oq_trans; [apply product_of_sem|]. eapply oq_trans; [apply prod_sem_remove|].
    apply oq_sym, product_of_sem.
  Qed.
End RemoveMul.
