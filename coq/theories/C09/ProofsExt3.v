(* PV.C09.ProofsExt3 — set_iiv_on_ruv for any list of (epsilon, eta) pairs. *)
From Coq Require Import QArith Qfield List Bool PArith Arith Lia Setoid.
From PV Require Import Base.PyData Base.Expr Base.Interp Base.Stmts C09.Model C09.Proofs C09.ProofsExec C09.ProofsSurgery C09.ProofsExt C09.ProofsExt2.
Import ListNotations.
Local Open Scope Q_scope.

(* the environment in which the ORIGINAL program is read: the substitutions were applied first pair first, so the
   last pair's epsilon is scaled in r, the one before in the environment so obtained, ... *)
Fixpoint ruv_scale (fi : finterp) (texpr : id -> id -> expr) (pairs : list (id * id)) (r : env) : env :=
  match pairs with
  | [] => r
  | p :: tl => let r' := ruv_scale fi texpr tl r in upd r' (fst p) (eval r' fi (texpr (fst p) (snd p)))
  end.

Definition doc_ruv_expr (eps eta : id) : expr := Mul (Sym eps) (Fn1 F_EXP (Sym eta)).

Section RuvList.
  Variable fi : finterp.
  Hypothesis Hp : fi_proper fi.
  Variable ode : id -> list (option Q) -> option Q.
  Hypothesis Hode : ode_proper ode.

  Lemma exec_fold_ruv (texpr : id -> id -> expr) pairs : forall l r x,
    (forall p, In p pairs -> ~ In (fst p) (flat_map defs l) /\ ~ In (fst p) (ode_rhs l) /\
                             forall y, In y (free_syms (texpr (fst p) (snd p))) -> ~ In y (flat_map defs l)) ->
    ~ In x (map fst pairs) ->
    exec fi ode r (fold_left (fun acc p => subs_stmts_sym (fst p) (texpr (fst p) (snd p)) acc) pairs l) x
    = exec fi ode (ruv_scale fi texpr pairs r) l x.
  Proof.
    induction pairs as [|p tl IH]; intros l r x H Hx; cbn [fold_left ruv_scale]; [reflexivity|].
    cbn [map] in Hx. rewrite IH.
    - destruct (H p (or_introl eq_refl)) as [A [B C]].
      rewrite (exec_subs_upd fi ode (fst p) (texpr (fst p) (snd p)) l (ruv_scale fi texpr tl r) x A C B); [reflexivity|].
      intro E. apply Hx. left. symmetry. exact E.
    - intros q Hq. rewrite defs_subs_stmts, ode_rhs_subs_stmts. apply H. right. exact Hq.
    - intro Hi. apply Hx. right. exact Hi.
  Qed.

  Lemma ruv_scale_equiv (t1 t2 : id -> id -> expr) pairs : forall r r',
    (forall e n, expr_equiv (t1 e n) (t2 e n)) -> env_equiv r r' ->
    env_equiv (ruv_scale fi t1 pairs r) (ruv_scale fi t2 pairs r').
  Proof.
    induction pairs as [|p tl IH]; intros r r' Ht Hr; cbn [ruv_scale]; [exact Hr|].
    apply env_equiv_upd; [apply IH; assumption|].
    eapply oq_trans; [apply Ht; exact Hp|]. apply (eval_env_equiv fi Hp). apply IH; assumption.
  Qed.

  (* set_iiv_on_ruv, any number of epsilons (same or different etas): the new model in r is the old model read
     with every listed epsilon multiplied by exp(its eta) *)
  Theorem set_iiv_on_ruv_list_lemma T pairs l r x :
    templates_equiv T doc_templates ->
    (forall p, In p pairs -> ~ In (fst p) (flat_map defs l) /\ ~ In (fst p) (ode_rhs l) /\
                             forall y, In y (free_syms (iiv_on_ruv_expr T (fst p) (snd p))) -> ~ In y (flat_map defs l)) ->
    ~ In x (map fst pairs) ->
    oq_equiv (exec fi ode r (set_iiv_on_ruv T pairs l) x)
             (exec fi ode (ruv_scale fi doc_ruv_expr pairs r) l x).
  Proof.
    intros HT H Hx. unfold set_iiv_on_ruv.
    rewrite (exec_fold_ruv (iiv_on_ruv_expr T) pairs l r x H Hx).
    apply (exec_proper fi Hp ode Hode l). apply ruv_scale_equiv; [|apply env_equiv_refl].
    intros e n. apply iiv_on_ruv_expr_equiv; assumption.
  Qed.

  (* what the scaled environment is for distinct epsilons that are not etas: eps_i * exp(eta_i), everything else as in r *)
  Lemma ruv_scale_other pairs r z : ~ In z (map fst pairs) -> ruv_scale fi doc_ruv_expr pairs r z = r z.
  Proof.
    induction pairs as [|p tl IH]; intros H; cbn [ruv_scale]; [reflexivity|]. cbn [map] in H. unfold upd.
    destruct (Pos.eqb z (fst p)) eqn:E; [apply Pos.eqb_eq in E; exfalso; apply H; left; symmetry; exact E|].
    apply IH. intro Hi. apply H. right. exact Hi.
  Qed.

  Theorem ruv_scale_value_lemma pairs r e n :
    NoDup (map fst pairs) -> (forall p, In p pairs -> ~ In (snd p) (map fst pairs)) -> In (e, n) pairs ->
    ruv_scale fi doc_ruv_expr pairs r e = eval r fi (doc_ruv_expr e n).
  Proof.
    induction pairs as [|p tl IH]; intros Hnd Heta Hin; [contradiction|].
    cbn [map] in Hnd. inversion Hnd as [|? ? Hnot Hnd']; subst. cbn [ruv_scale]. unfold upd.
    destruct Hin as [->|Hin].
    - cbn [fst snd]. rewrite Pos.eqb_refl. unfold doc_ruv_expr. cbn [eval].
      rewrite !ruv_scale_other; [reflexivity| |exact Hnot].
      intro H. apply (Heta (e, n) (or_introl eq_refl)). right. exact H.
    - destruct (Pos.eqb e (fst p)) eqn:E.
      + apply Pos.eqb_eq in E. subst. exfalso. apply Hnot. apply in_map_iff. exists (fst p, n). split; [reflexivity | exact Hin].
      + apply IH; [exact Hnd' | | exact Hin].
        intros q Hq H. apply (Heta q (or_intror Hq)). right. exact H.
  Qed.
End RuvList.
