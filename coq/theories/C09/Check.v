(* PV.C09.Check — comparisons run inside Coq on observations exported from the real pharmpy objects.
   [verdict T c]: T is the REGENERATED template record (build/gen/C09/Templates.v).
   tags 1..9   correspondence (hand model of the statement surgery, instantiated with T, vs implementation)
   tags >= 11  the property itself evaluated on the implementation's outputs (oracle)
   tags >= 200 guard facts;  1000 + t: sub-check t inconclusive (too few points where everything is defined) *)
From Coq Require Import QArith NArith List Bool PArith Arith Qabs.
From PV Require Import Base.PyData Base.Expr Base.Interp Base.Stmts C09.Model.
Import ListNotations.
Local Open Scope nat_scope.

Definition tag (b : bool) (t : nat) : list nat := if b then [] else [t].
Definition tag3 (v : nat) (t : nat) : list nat :=
  match v with 0 => [] | 1 => [t] | _ => [1000 + t] end.

Definition value_at (l : list stmt) (m : list (id * Q)) (s : id) : option Q := run m l s.

(* two programs compared on a list of symbols at a list of points: per symbol, equal wherever both are defined and
   both defined at [need] points at least *)
Definition progs_agree (need : nat) (envs : list (list (id * Q))) (syms : list id) (a b : list stmt) : nat :=
  let ra := map (fun m => run m a) envs in
  let rb := map (fun m => run m b) envs in
  let per := map (fun s => summarize need (map (fun p => cmp_oq (fst p s) (snd p s)) (combine ra rb))) syms in
  if existsb (Nat.eqb 1) per then 1 else if existsb (Nat.eqb 2) per then 2 else 0.

Definition oprogs_agree need envs syms (a : option (list stmt)) (b : list stmt) : nat :=
  match a with Some a' => progs_agree need envs syms a' b | None => 1 end.

Definition set_env (m : list (id * Q)) (s : id) (v : Q) : list (id * Q) := (s, v) :: m.

(* ---------------------------------------------------------------------------------------------------- *)
(* covariate effects                                                                                    *)
(* ---------------------------------------------------------------------------------------------------- *)
Record cov_case := mkCov {
  cc_before : list stmt;
  cc_after : list stmt;                 (* add_covariate_effect(M, ...) *)
  cc_args : cov_args;
  cc_syms : list id;                    (* every symbol assigned in M *)
  cc_envs : list (list (id * Q));       (* general points *)
  cc_ref : Q;                           (* reference value of the covariate: the statistic the code computed /
                                           the most common level *)
  cc_removed : option (list stmt);      (* remove_covariate_effect(after) when M had no effect of cov on P *)
  cc_groups : list (list Q)             (* covariate values per individual (dataset order), [] = not exported *)
}.

Definition check_cov (T : templates) (c : cov_case) : list nat :=
  let a := cc_args c in
  (* the freshly introduced symbols (effect symbol, statistic symbols) are not part of the model function *)
  let syms := diffp (cc_syms c) (fresh_names a) in
  let ref_envs := map (fun m => set_env m (a_cov a) (cc_ref c)) (cc_envs c) in
  let all_envs := cc_envs c ++ ref_envs in
  (* 1: hand model of apply / create_effect_statement / add_covariate_effect with the regenerated templates *)
  match add_covariate_effect T a (cc_before c) with
  | Some m => tag3 (stmts_agree 2 (map env_of all_envs) m (cc_after c)) 1
  | None => [1]
  end ++
  (* 11: P_after = P_before op documented_effect(cov), everything downstream consistent *)
  tag3 (oprogs_agree 2 all_envs syms (spec_covariate_effect a (cc_before c)) (cc_after c)) 11 ++
  (* 12 / 13: at the reference value the extended model is the original model *)
  tag3 (progs_agree 2 ref_envs syms (cc_before c) (cc_after c))
       (match a_op a with OpMul => 12 | OpAdd => 13 end) ++
  (* 14: removing the extension restores the previous function *)
  match cc_removed c with
  | Some r => tag3 (progs_agree 2 all_envs syms (cc_before c) r) 14
  | None => []
  end ++
  (* 15: the centring statistic is the median of the per-individual medians / mean of means of the dataset *)
  match cc_groups c with
  | [] => []
  | g => flat_map (fun st => let '(ts, _, v) := st in
                     if Pos.eqb ts s_median then
                       tag (match median_of_medians g with Some x => Qeq_bool x v | None => false end) 15
                     else if Pos.eqb ts s_mean then
                       tag (match mean_of_means g with
                            | Some x => Qle_bool (Qabs (x - v)) (Qabs v * (1 # 1000000000000)) | None => false end) 15
                     else []) (a_stats a)
  end ++
  tag (match a_op a with OpMul => true | OpAdd => false end) 201 ++
  tag (g_surgery T a (cc_before c)) 204.

(* ---------------------------------------------------------------------------------------------------- *)
(* IIV                                                                                                  *)
(* ---------------------------------------------------------------------------------------------------- *)
Record iiv_case := mkIiv {
  ic_before : list stmt;
  ic_after : list stmt;                 (* add_iiv(M, p, kind, op) *)
  ic_kind : ikind; ic_op : binop;
  ic_param : id; ic_eta : id; ic_phi : id;
  ic_syms : list id;
  ic_envs : list (list (id * Q));
  ic_removed : list stmt                (* remove_iiv(after, p) *)
}.

Definition iiv_neutral_expected (k : ikind) (o : binop) : bool :=
  match k, o with
  | IAdd, _ | IProp, _ | IExp, OpMul => true
  | _, _ => false
  end.

Definition check_iiv (T : templates) (c : iiv_case) : list nat :=
  let zero_envs := map (fun m => set_env m (ic_eta c) 0%Q) (ic_envs c) in
  let all_envs := ic_envs c ++ zero_envs in
  match add_iiv T (ic_kind c) (ic_op c) (ic_param c) (ic_eta c) (ic_phi c) (ic_before c) with
  | Some m => tag3 (stmts_agree 2 (map env_of all_envs) m (ic_after c)) 2
  | None => [2]
  end ++
  tag3 (oprogs_agree 2 all_envs (ic_syms c) (spec_iiv (ic_kind c) (ic_op c) (ic_param c) (ic_eta c) (ic_before c))
                     (ic_after c)) 21 ++
  tag3 (progs_agree 2 zero_envs (ic_syms c) (ic_before c) (ic_after c))
       (match ic_kind c, ic_op c with
        | IExp, OpAdd => 23 | ILogit, _ => 24 | IReLogit, _ => 25 | _, _ => 22 end) ++
  tag3 (progs_agree 2 all_envs (ic_syms c) (ic_before c) (ic_removed c))
       (match ic_kind c with IReLogit => 27 | _ => 26 end) ++
  tag (iiv_neutral_expected (ic_kind c) (ic_op c)) 202.

(* ---------------------------------------------------------------------------------------------------- *)
(* error models (statements after the ODE system only: amounts and S1 are leaves of the environments)   *)
(* ---------------------------------------------------------------------------------------------------- *)
Inductive errkind := EAdd (dt : dtrans) | EProp (dt : dtrans) (zp : bool) | EComb (k : combkind).

Record err_case := mkErr {
  ec_before : list stmt;
  ec_after : list stmt;
  ec_kind : errkind;
  ec_y : id;
  ec_old_eps : list id;                 (* the epsilons of M *)
  ec_eps1 : id; ec_eps2 : id;           (* new epsilons (prop/add; second only for combined) *)
  ec_ipredadj : id; ec_eta_ruv : id;
  ec_syms : list id;                    (* symbols assigned in M other than Y *)
  ec_envs : list (list (id * Q))        (* every epsilon (old and new) is 0 in these *)
}.

Definition err_model (T : templates) (c : err_case) : option (option (list stmt)) :=
  match ec_kind c with
  | EAdd DTId => Some (set_additive T (ec_y c) (ec_eps1 c) (ec_old_eps c) (ec_before c))
  | EAdd DTLog => None     (* series expansion by sympy: oracle only *)
  | EProp dt zp => Some (set_proportional T dt zp (ec_y c) (ec_eps1 c) (ec_ipredadj c) (ec_old_eps c) (ec_before c))
  | EComb k => Some (set_combined T k (ec_y c) (ec_eps1 c) (ec_eps2 c) (ec_eta_ruv c) (ec_old_eps c) (ec_before c))
  end.

Definition q_log (x : Q) : option Q := std_fi1 F_LOG x.
Definition q_exp (x : Q) : option Q := std_fi1 F_EXP x.
Definition odiv (a b : option Q) : option Q :=
  match a, b with Some x, Some y => if Qeq_bool y 0 then None else Some (Qred (x / y)) | _, _ => None end.

(* documented prediction and epsilon coefficients as functions of f (the prediction of M) and, for the
   IIV-on-RUV variant, of exp(ETA_RV1) *)
Definition doc_pred (k : errkind) (f : Q) : option Q :=
  match k with
  | EAdd DTId | EProp DTId _ | EComb CombPlain | EComb CombIivRuv => Some f
  | EAdd DTLog | EProp DTLog _ | EComb CombLog => q_log f
  end.
Definition doc_coeff1 (k : errkind) (f : Q) (eeta : option Q) : option Q :=
  match k with
  | EAdd DTId => Some 1%Q
  | EAdd DTLog => odiv (Some 1%Q) (Some f)
  | EProp DTId _ => Some f
  | EProp DTLog _ => Some 1%Q
  | EComb CombPlain => Some f
  | EComb CombLog => Some 1%Q
  | EComb CombIivRuv => option_map (fun e => Qred (f * e)) eeta
  end.
Definition doc_coeff2 (k : errkind) (f : Q) (eeta : option Q) : option Q :=
  match k with
  | EComb CombPlain => Some 1%Q
  | EComb CombLog => odiv (Some 1%Q) (Some f)
  | EComb CombIivRuv => eeta
  | _ => Some 0%Q
  end.

Definition oq3 (f : Q -> Q -> Q -> bool) (a b c : option Q) : nat :=
  match a, b, c with Some x, Some y, Some z => if f x y z then 0 else 1 | _, _, _ => 2 end.

Definition check_err_point (c : err_case) (m : list (id * Q)) : list nat :=
  let y v1 v2 := value_at (ec_after c) (set_env (set_env m (ec_eps1 c) v1) (ec_eps2 c) v2) (ec_y c) in
  let f0 := value_at (ec_before c) m (ec_y c) in
  match f0 with
  | None => [2; 2]
  | Some f =>
      let eeta := match m with _ => obind (env_of m (ec_eta_ruv c)) q_exp end in
      let y00 := y 0%Q 0%Q in
      let p := doc_pred (ec_kind c) f in
      let c1 := doc_coeff1 (ec_kind c) f eeta in
      let c2 := doc_coeff2 (ec_kind c) f eeta in
      [ (* prediction *) cmp_oq y00 p;
        (* affine in both epsilons with the documented coefficients: Y(v1, v2) = p + v1 c1 + v2 c2 at four points *)
        match p, c1, c2 with
        | Some p', Some a, Some b =>
            let ok v1 v2 := cmp_oq (y v1 v2) (Some (Qred (p' + v1 * a + v2 * b))) in
            let rs := [ok 1%Q 0%Q; ok 0%Q 1%Q; ok 2%Q 0%Q; ok 1%Q 1%Q; ok (-1)%Q 2%Q] in
            if existsb (Nat.eqb 1) rs then 1 else if existsb (Nat.eqb 2) rs then 2 else 0
        | _, _, _ => 2
        end ]
  end.

Definition check_err (T : templates) (c : err_case) : list nat :=
  let pts := map (check_err_point c) (ec_envs c) in
  match err_model T c with
  | Some (Some m) => tag3 (stmts_agree 2 (map env_of (ec_envs c)) m (ec_after c)) 3
  | Some None => [3]
  | None => []
  end ++
  tag3 (summarize 2 (map (fun r => nth 0 r 2) pts)) 31 ++
  tag3 (summarize 2 (map (fun r => nth 1 r 2) pts)) 32 ++
  tag3 (progs_agree 2 (ec_envs c) (ec_syms c) (ec_before c) (ec_after c)) 33.

(* ---------------------------------------------------------------------------------------------------- *)
(* transformations of the residual error (set_iiv_on_ruv, set_power_on_ruv, set_time_varying_error_model, *)
(* set_weighted_error_model): prediction unchanged, Y affine in each epsilon, new coefficient =            *)
(* (old coefficient, when [mult]) * documented factor                                                     *)
(* ---------------------------------------------------------------------------------------------------- *)
Record ruv_case := mkRuv {
  rc_before : list stmt; rc_after : list stmt;
  rc_y : id;
  rc_eps : list (id * expr * bool);     (* epsilon, documented factor (real symbols), multiply the old coefficient? *)
  rc_syms : list id;
  rc_envs : list (list (id * Q));       (* every epsilon is 0 in these *)
  rc_iiv_pairs : list (id * id)         (* set_iiv_on_ruv: (epsilon, eta) in call order; [] for the other transformations *)
}.

Definition osub (a b : option Q) : option Q :=
  match a, b with Some x, Some y => Some (Qred (x - y)) | _, _ => None end.
Definition omul (a b : option Q) : option Q :=
  match a, b with Some x, Some y => Some (Qred (x * y)) | _, _ => None end.

Definition check_ruv (T : templates) (c : ruv_case) : list nat :=
  let ya m := value_at (rc_after c) m (rc_y c) in
  let yb m := value_at (rc_before c) m (rc_y c) in
  let pred := summarize 2 (map (fun m => cmp_oq (ya m) (yb m)) (rc_envs c)) in
  let coeffs := flat_map (fun m : list (id * Q) =>
      map (fun p : id * expr * bool =>
             let '(e, fct, mult) := p in
             let ca := osub (ya (set_env m e 1%Q)) (ya m) in
             let ca2 := osub (ya (set_env m e 2%Q)) (ya m) in
             let cb := if mult then osub (yb (set_env m e 1%Q)) (yb m) else Some 1%Q in
             let f := eval (run m (rc_after c)) std_fi fct in
             match cmp_oq ca (omul cb f), cmp_oq ca2 (omul (Some 2%Q) ca) with
             | 0, 0 => 0 | 1, _ => 1 | _, 1 => 1 | _, _ => 2 end) (rc_eps c)) (rc_envs c) in
  tag3 pred 35 ++ tag3 (summarize 2 coeffs) 34 ++
  tag3 (progs_agree 2 (rc_envs c) (rc_syms c) (rc_before c) (rc_after c)) 33 ++
  (* 48: hand model of set_iiv_on_ruv (the regenerated substitution applied to every statement), at non-zero epsilons too *)
  match rc_iiv_pairs c with
  | [] => []
  | ps => let envs := map env_of (rc_envs c ++ map (fun m => fold_left (fun acc p => set_env acc (fst p) 3%Q) ps m) (rc_envs c)) in
          tag3 (stmts_agree 2 envs (set_iiv_on_ruv T ps (rc_before c)) (rc_after c)) 48
  end.

(* ---------------------------------------------------------------------------------------------------- *)
(* transit compartments / absorption: mean times                                                        *)
(* ---------------------------------------------------------------------------------------------------- *)
Inductive odekind := OTransit | OFirstOrder | OZeroOrder.
Record ode_case := mkOde {
  oc_kind : odekind;
  oc_stmts : list stmt;                 (* statements before the ODE system of the transformed model *)
  oc_exprs : list expr;                 (* transit: outflow rate of each transit compartment;
                                           first order: the depot -> central rate;  zero order: the infusion duration *)
  oc_time : id;                         (* MDT / MAT *)
  oc_n : nat;                           (* requested number of transit compartments *)
  oc_envs : list (list (id * Q))
}.

Fixpoint osum_inv (l : list (option Q)) : option Q :=
  match l with
  | [] => Some 0%Q
  | Some x :: tl => if Qeq_bool x 0 then None else
                      match osum_inv tl with Some y => Some (Qred (1 / x + y)) | None => None end
  | None :: _ => None
  end.

Definition check_ode (T : templates) (c : ode_case) : list nat :=
  let one m :=
    let r := run m (oc_stmts c) in
    let vals := map (eval r std_fi) (oc_exprs c) in
    let t := r (oc_time c) in
    match oc_kind c with
    | OTransit => cmp_oq (osum_inv vals) t
    | OFirstOrder => cmp_oq (osum_inv vals) t
    | OZeroOrder => cmp_oq (match vals with [Some d] => Some (Qred (d / 2)) | _ => None end) t
    end in
  tag3 (summarize 2 (map one (oc_envs c)))
       (match oc_kind c with OTransit => 41 | OFirstOrder => 42 | OZeroOrder => 43 end) ++
  match oc_kind c with
  | OTransit => tag (Nat.eqb (length (oc_exprs c)) (oc_n c)) 44
  | _ => tag (Nat.eqb (length (oc_exprs c)) 1) 44
  end ++
  (* the regenerated constant, instantiated, agrees with each exported rate *)
  let inst := match oc_kind c with
              | OTransit => subs_map [(s_n, Num (inject_Z (Z.of_nat (oc_n c)))); (s_mdt, Sym (oc_time c))] (t_transit_rate T)
              | OFirstOrder => subs s_mat (Sym (oc_time c)) (t_fo_rate T)
              | OZeroOrder => subs s_mat (Sym (oc_time c)) (t_zo_duration T)
              end in
  let envs := map (fun m => run m (oc_stmts c)) (oc_envs c) in
  flat_map (fun e => tag3 (summarize 2 (map (fun r => cmp_oq (eval r std_fi e) (eval r std_fi inst)) envs)) 45) (oc_exprs c).

(* ---------------------------------------------------------------------------------------------------- *)
(* allometry: P = P * (X / Z) ^ T after the last assignment of each listed parameter                    *)
(* ---------------------------------------------------------------------------------------------------- *)
Record allo_case := mkAllo {
  lc_before : list stmt; lc_after : list stmt;
  lc_params : list (id * id);           (* parameter, exponent theta *)
  lc_var : id; lc_ref : Q;
  lc_syms : list id;
  lc_envs : list (list (id * Q))
}.

Definition spec_allometry (T : templates) (c : allo_case) : option (list stmt) :=
  fold_left (fun acc p =>
    match acc with
    | None => None
    | Some l =>
        match find_assignment_index l (fst p) with
        | None => None
        | Some i =>
            let e := subs_map [(s_p, Sym (fst p)); (s_var, Sym (lc_var c)); (s_ref, Num (lc_ref c)); (s_allo, Sym (snd p))]
                              doc_allometry in
            Some (firstn (S i) l ++ [Assign (fst p) e] ++ skipn (S i) l)
        end
    end) (lc_params c) (Some (lc_before c)).

Definition check_allo (T : templates) (c : allo_case) : list nat :=
  let ref_envs := map (fun m => set_env m (lc_var c) (lc_ref c)) (lc_envs c) in
  tag3 (oprogs_agree 2 (lc_envs c ++ ref_envs) (lc_syms c) (spec_allometry T c) (lc_after c)) 51 ++
  tag3 (progs_agree 2 ref_envs (lc_syms c) (lc_before c) (lc_after c)) 52 ++
  tag3 (stmts_agree 2 (map env_of (lc_envs c ++ ref_envs))
          (add_allometry T (lc_var c) (lc_ref c) (lc_params c) (lc_before c)) (lc_after c)) 7.

(* ---------------------------------------------------------------------------------------------------- *)
(* CovariateEffect.categorical on generated count tables (template only)                                *)
(* ---------------------------------------------------------------------------------------------------- *)
Record cat_case := mkCat {
  kc_cats : list (option Q); kc_mc : Q; kc_alt : bool;
  kc_expr : expr;                       (* template.expression of the real object *)
  kc_envs : list (list (id * Q))
}.
Definition check_cat (T : templates) (c : cat_case) : list nat :=
  let envs := map env_of (kc_envs c) in
  tag3 (expr_agree 2 envs (categorical T (kc_cats c) (kc_mc c) (kc_alt c)) (kc_expr c)) 5 ++
  (* at the most common level the effect is 1 *)
  tag (forallb (fun m => match eval (env_of (set_env m s_cov (kc_mc c))) std_fi (kc_expr c) with
                         | Some v => Qeq_bool v 1 | None => false end) (kc_envs c)) 16 ++
  (* 17: at every other (non-missing) level the effect is the DOCUMENTED one: 1 + theta (cat), theta (cat2); one theta
     when there are exactly two levels, theta<i> (i = 1-based position of the level) otherwise *)
  let two := Nat.eqb (length (kc_cats c)) 2 in
  tag (forallb (fun m =>
         forallb (fun ic : nat * option Q =>
           match snd ic with
           | Some v =>
               if Qeq_bool v (kc_mc c) then true
               else oq_eqb (eval (env_of (set_env m s_cov v)) std_fi (kc_expr c))
                           (eval (env_of m) std_fi (doc_cat_other_value two (kc_alt c) (fst ic)))
           | None => true
           end) (combine (seq 1 (length (kc_cats c))) (kc_cats c))) (kc_envs c)) 17.

(* ---------------------------------------------------------------------------------------------------- *)
(* "the model function is unchanged at these points": eta transformations / IOV at eta = 0, BLQ above LLOQ *)
(* ---------------------------------------------------------------------------------------------------- *)
Record same_case := mkSame {
  sm_tag : nat;
  sm_before : list stmt; sm_after : list stmt;
  sm_syms : list id;
  sm_envs : list (list (id * Q))
}.
Definition check_same (c : same_case) : list nat :=
  tag3 (progs_agree 2 (sm_envs c) (sm_syms c) (sm_before c) (sm_after c)) (sm_tag c).

(* ---------------------------------------------------------------------------------------------------- *)
(* remove_iiv on one statement: hand model of the replacement rule vs implementation                     *)
(* ---------------------------------------------------------------------------------------------------- *)
Definition topkind_of (n : nat) : topkind :=
  match n with 0 => TopAtom | 1 => TopExp | 2 => TopMul | 3 => TopAdd | _ => TopOther end.
Record rem_case := mkRem {
  rm_eta : id;
  rm_kind : nat;                        (* of expand(expression): 0 atom, 1 exp, 2 Mul, 3 Add, 4 other *)
  rm_args : list expr;                  (* its args *)
  rm_whole : expr;                      (* the expanded expression *)
  rm_result : expr;                     (* expression of the same symbol after remove_iiv *)
  rm_original : expr;                   (* expression of the symbol before add_iiv *)
  rm_envs : list (list (id * Q))
}.
Definition check_rem (c : rem_case) : list nat :=
  let envs := map env_of (rm_envs c) in
  let m := remove_iiv_expr (rm_eta c) (topkind_of (rm_kind c)) (rm_args c) (rm_whole c) in
  tag3 (expr_agree 2 envs m (rm_result c)) 6 ++
  (* when the guard holds the model's result is the original expression *)
  match topkind_of (rm_kind c) with
  | TopMul => if g_eta_factors_pure (rm_eta c) (rm_args c)
              then tag3 (expr_agree 2 envs m (rm_original c)) 36 else [203]
  | _ => []
  end.

(* ---------------------------------------------------------------------------------------------------- *)
(* add_iov, one call of a history: at NON-ZERO, pairwise distinct eta values                              *)
(*   P_after(env) = P_before(env with every requested eta := eta + the IOV eta of the row's occasion),   *)
(*   every other symbol unchanged; no existing symbol gets another assignment; remove_iov restores.      *)
(* ---------------------------------------------------------------------------------------------------- *)
Record iov_case := mkIov {
  vc_before : list stmt;                (* the model before THIS add_iov call (earlier calls included) *)
  vc_after : list stmt;
  vc_removed : option (list stmt);      (* remove_iov(after, the etas this call declared) *)
  vc_occ : id;
  vc_etas : list (id * list (Q * id));  (* requested eta, [(occasion level, new IOV eta)] *)
  vc_syms : list id;
  vc_envs : list (list (id * Q));
  vc_items : list (id * id);            (* IOV_n, ETAI_n of each requested eta (same order as vc_etas) *)
  vc_groups : list (list nat);          (* positions of the requested etas per declared distribution group; [] = not compared *)
  vc_enames : list (nat * nat * id);    (* eta_name(i, k) *)
  vc_onames : list (nat * nat * id);    (* omega_iov_name(i, j), i <= j *)
  vc_dists : list (list id * list (list id))   (* the new distributions of the implementation: names, covariance symbols *)
}.

Definition tbl2 (t : list (nat * nat * id)) (i k : nat) : id :=
  match find (fun e : nat * nat * id => Nat.eqb (fst (fst e)) i && Nat.eqb (snd (fst e)) k) t with
  | Some e => snd e | None => 1%positive end.
Definition dist_eqb (a : rvdist) (b : list id * list (list id)) : bool :=
  list_eqb Pos.eqb (rd_names a) (fst b) && list_eqb (list_eqb Pos.eqb) (rd_sigma a) (snd b).
Fixpoint dists_eqb (a : list rvdist) (b : list (list id * list (list id))) : bool :=
  match a, b with
  | [], [] => true
  | x :: a', y :: b' => dist_eqb x y && dists_eqb a' b'
  | _, _ => false
  end.

Definition iov_items (c : iov_case) : list iov_item :=
  map (fun p : (id * list (Q * id)) * (id * id) =>
         {| ie_eta := fst (fst p); ie_iov := fst (snd p); ie_etai := snd (snd p); ie_levels := snd (fst p) |})
      (combine (vc_etas c) (vc_items c)).

Definition shift_env (c : iov_case) (m : list (id * Q)) : list (id * Q) :=
  fold_left (fun acc (p : id * list (Q * id)) =>
     let '(eta, levels) := p in
     match env_of m eta, env_of m (vc_occ c) with
     | Some e, Some o =>
         match find (fun lv : Q * id => Qeq_bool (fst lv) o) levels with
         | Some (_, ie) => match env_of m ie with Some d => set_env acc eta (Qred (e + d)) | None => acc end
         | None => acc
         end
     | _, _ => acc
     end) (vc_etas c) m.

Definition count_assign (l : list stmt) (s : id) : nat := length (filter (is_assign_of s) l).
Definition assigned_syms (l : list stmt) : list id :=
  flat_map (fun st => match st with Assign s _ => [s] | Ode _ _ => [] end) l.
(* symbols already assigned keep their number of assignments; a new symbol is assigned once, or twice
   when the first assignment is the initialisation "= 0" *)
Definition declarations_fresh (before after : list stmt) : bool :=
  forallb (fun s => Nat.eqb (count_assign after s) (count_assign before s)) (assigned_syms before) &&
  forallb (fun s => memp s (assigned_syms before) ||
                    match filter (is_assign_of s) after with
                    | [_] => true
                    | [Assign _ (Num q); _] => Qeq_bool q 0
                    | _ => false
                    end) (assigned_syms after).

Definition check_iov (c : iov_case) : list nat :=
  let per := map (fun s =>
      summarize 2 (map (fun m => cmp_oq (run (shift_env c m) (vc_before c) s) (run m (vc_after c) s)) (vc_envs c)))
      (vc_syms c) in
  tag3 (if existsb (Nat.eqb 1) per then 1 else if existsb (Nat.eqb 2) per then 2 else 0) 37 ++
  tag (declarations_fresh (vc_before c) (vc_after c)) 38 ++
  (* 47: the declared distributions (names, levels, same covariance symbols on every occasion) *)
  match vc_groups c with
  | [] => []
  | g => let K := match vc_etas c with (_, lv) :: _ => length lv | [] => 0 end in
         tag (dists_eqb (iov_dists (tbl2 (vc_enames c)) (tbl2 (vc_onames c)) g K) (vc_dists c)) 47
  end ++
  (* 8 / 9: hand models of add_iov and remove_iov, statement by statement *)
  tag3 (stmts_agree 2 (map env_of (vc_envs c)) (add_iov (vc_occ c) (iov_items c) (vc_before c)) (vc_after c)) 8 ++
  match vc_removed c with
  | Some r => tag3 (progs_agree 2 (vc_envs c) (vc_syms c) (vc_before c) r) 39 ++
              tag3 (stmts_agree 2 (map env_of (vc_envs c))
                      (remove_iov (flat_map (fun it => map snd (ie_levels it)) (iov_items c)) (vc_after c)) r) 9
  | None => []
  end.

(* ---------------------------------------------------------------------------------------------------- *)
(* transform_blq M3/M4: statement-level hand model vs implementation (PHI interpreted by a total stand-in) *)
(* ---------------------------------------------------------------------------------------------------- *)
Definition blq_fi : finterp :=
  {| fi1 := fun f x => if Pos.eqb f F_PHI then Some (Qred (x * x + x + 3)) else std_fi1 f x; fi2 := std_fi2 |}.
Definition expr_agree_fi (fi : finterp) (need : nat) (envs : list env) (a b : expr) : nat :=
  summarize need (map (fun r => cmp_oq (eval r fi a) (eval r fi b)) envs).
Fixpoint stmts_agree_fi (fi : finterp) (need : nat) (envs : list env) (a b : list stmt) : nat :=
  match a, b with
  | [], [] => 0
  | Assign s e :: a', Assign s' e' :: b' =>
      if Pos.eqb s s' then
        match expr_agree_fi fi need envs e e' with
        | 0 => stmts_agree_fi fi need envs a' b'
        | 1 => 1
        | _ => match stmts_agree_fi fi need envs a' b' with 1 => 1 | _ => 2 end
        end
      else 1
  | Ode am rh :: a', Ode am' rh' :: b' =>
      if setp_eqb am am' && setp_eqb rh rh' then stmts_agree_fi fi need envs a' b' else 1
  | _, _ => 1
  end.
Record blq_case := mkBlq {
  bq_args : blq_args; bq_before : list stmt; bq_after : list stmt;
  bq_envs : list (list (id * Q));
  bq_eps_sigma : list (id * id)         (* epsilon, its variance parameter *)
}.
Definition check_blq (c : blq_case) : list nat :=
  match transform_blq (bq_args c) (bq_before c) with
  | Some m => tag3 (stmts_agree_fi blq_fi 2 (map env_of (bq_envs c)) m (bq_after c)) 10
  | None => [10]
  end ++
  (* 54: SD is the standard deviation of the residual part of Y: SD^2 = sum_j (dY/d eps_j)^2 * sigma_j, the
     coefficients measured on the ORIGINAL model (Y affine in each epsilon) *)
  let y := b_y (bq_args c) in
  tag3 (summarize 2 (map (fun m =>
      let zero := fold_left (fun acc p => set_env acc (fst p) 0%Q) (bq_eps_sigma c) m in
      let y0 := value_at (bq_before c) zero y in
      let var := fold_left (fun acc p =>
                   match acc, osub (value_at (bq_before c) (set_env zero (fst p) 1%Q) y) y0, env_of m (snd p) with
                   | Some a, Some cj, Some sg => Some (Qred (a + cj * cj * sg))
                   | _, _, _ => None end) (bq_eps_sigma c) (Some 0%Q) in
      let sd := value_at (bq_after c) zero (b_sd (bq_args c)) in
      cmp_oq (omul sd sd) var) (bq_envs c))) 54.

(* ---------------------------------------------------------------------------------------------------- *)
(* _update_numerators called on a model whose transit rates were perturbed: hand model vs implementation *)
(* ---------------------------------------------------------------------------------------------------- *)
Record num_case := mkNum {
  nc_rates : list trate; nc_defs : rate_defs;
  nc_after : list expr;                 (* full expression of each transit rate after _update_numerators *)
  nc_envs : list (list (id * Q))
}.
Definition check_num (c : num_case) : list nat :=
  let '(rates', d') := rates_after_update (nc_rates c) (nc_defs c) in
  let envs := map env_of (nc_envs c) in
  tag (Nat.eqb (length rates') (length (nc_after c))) 46 ++
  flat_map (fun p : trate * expr =>
    match rate_value d' (fst p) with
    | Some (NInt z, den) => tag3 (expr_agree 2 envs (Div (Num z) den) (snd p)) 46
    | _ => [46]
    end) (combine rates' (nc_after c)).

Inductive case :=
| CNum (c : num_case)
| CBlq (c : blq_case)
| CIov (c : iov_case)
| CRem (c : rem_case)
| CSame (c : same_case)
| CCov (c : cov_case) | CIiv (c : iiv_case) | CErr (c : err_case) | CRuv (c : ruv_case)
| COde (c : ode_case) | CAllo (c : allo_case) | CCat (c : cat_case).

Definition verdict (T : templates) (c : case) : list nat :=
  match c with
  | CNum c => check_num c
  | CBlq c => check_blq c
  | CIov c => check_iov c
  | CRem c => check_rem c
  | CSame c => check_same c
  | CCov c => check_cov T c
  | CIiv c => check_iiv T c
  | CErr c => check_err T c
  | CRuv c => check_ruv T c
  | COde c => check_ode T c
  | CAllo c => check_allo T c
  | CCat c => check_cat T c
  end.
