(* PV.C09.ProofsExt2 — program-level soundness of the error-model setters (set_additive / set_proportional with and
   without zero protection / set_combined, set_iiv_on_ruv) and the distributions add_iov declares. *)
From Coq Require Import QArith Qfield List Bool PArith Arith Lia Setoid.
From PV Require Import Base.PyData Base.Expr Base.Interp Base.Stmts C09.Model C09.Proofs C09.ProofsExec C09.ProofsSurgery C09.ProofsExt.
Import ListNotations.
Local Open Scope Q_scope.

(* ---- reassign on a symbol that is assigned exactly once: replace that statement ------------------------ *)
Lemma reassign_rev_none s e rl b :
  (forall st, In st rl -> is_assign_of s st = false) -> reassign_rev s e rl b = rl.
Proof.
  induction rl as [|st tl IH]; intros H; cbn [reassign_rev]; [reflexivity|].
  rewrite (H st (or_introl eq_refl)). f_equal. apply IH. intros st' Hi. apply H. right. exact Hi.
Qed.

Lemma reassign_single pre post s e0 e :
  (forall st, In st pre -> is_assign_of s st = false) -> (forall st, In st post -> is_assign_of s st = false) ->
  reassign (pre ++ Assign s e0 :: post) s e = pre ++ Assign s e :: post.
Proof.
  intros Hpre Hpost. unfold reassign. rewrite rev_app_distr. cbn [rev]. rewrite <- app_assoc. cbn [app].
  assert (G : forall rl1 rl2, (forall st, In st rl1 -> is_assign_of s st = false) ->
              reassign_rev s e (rl1 ++ rl2) true = rl1 ++ reassign_rev s e rl2 true).
  { induction rl1 as [|st tl IH]; intros rl2 H; cbn [app reassign_rev]; [reflexivity|].
    rewrite (H st (or_introl eq_refl)). f_equal. apply IH. intros st' Hi. apply H. right. exact Hi. }
  rewrite G by (intros st Hi; apply Hpost, in_rev; exact Hi).
  cbn [reassign_rev is_assign_of]. rewrite Pos.eqb_refl.
  rewrite reassign_rev_none by (intros st Hi; apply Hpre, in_rev; exact Hi).
  rewrite rev_app_distr. cbn [rev]. rewrite !rev_involutive, <- app_assoc. reflexivity.
Qed.

Lemma not_defs_not_assign L y : ~ In y (flat_map defs L) -> forall st, In st L -> is_assign_of y st = false.
Proof.
  intros H st Hi. destruct st as [s e|a rh]; cbn; [|reflexivity]. apply Pos.eqb_neq. intro E. subst.
  apply H. apply in_flat_map. exists (Assign y e). split; [exact Hi | left; reflexivity].
Qed.

(* Y is assigned exactly once (and is not an ODE amount) *)
Definition single_assignment (l : list stmt) (y : id) (i : nat) (ye : expr) : Prop :=
  l = firstn i l ++ Assign y ye :: skipn (S i) l /\
  ~ In y (flat_map defs (firstn i l)) /\ ~ In y (flat_map defs (skipn (S i) l)).

Lemma single_length l y i ye : single_assignment l y i ye -> length (firstn i l) = i.
Proof.
  intros [Hl _]. rewrite firstn_length. destruct (Nat.le_gt_cases i (length l)); [lia|].
  exfalso. rewrite firstn_all2 in Hl by lia. rewrite skipn_all2 in Hl by lia.
  apply (f_equal (@length stmt)) in Hl. rewrite app_length in Hl. cbn in Hl. lia.
Qed.

Lemma single_y_expr l y i ye : single_assignment l y i ye -> y_expr l y = Some ye.
Proof.
  intros HS. pose proof (single_length l y i ye HS) as Hlen. destruct HS as [Hl [Hpre Hpost]]. unfold y_expr.
  assert (E : find_assignment_index l y = Some i).
  { rewrite Hl at 1. rewrite (find_index_prefix y (firstn i l) _ (not_defs_not_assign _ _ Hpre)). unfold find_assignment_index.
    cbn [find_last_from is_assign_of]. rewrite Pos.eqb_refl.
    assert (G : forall l0 j acc, (forall st, In st l0 -> is_assign_of y st = false) ->
                  find_last_from (is_assign_of y) l0 j acc = acc).
    { induction l0 as [|st tl IH]; intros j acc H; cbn [find_last_from]; [reflexivity|].
      rewrite (H st (or_introl eq_refl)). apply IH. intros st' Hi. apply H. right. exact Hi. }
    rewrite G by (apply not_defs_not_assign; exact Hpost). cbn [option_map]. rewrite Hlen. reflexivity. }
  rewrite E. unfold nths. rewrite Hl. rewrite app_nth2 by lia. rewrite Hlen, Nat.sub_diag. reflexivity.
Qed.

Lemma single_reassign l y i ye e :
  single_assignment l y i ye -> reassign l y e = firstn i l ++ Assign y e :: skipn (S i) l.
Proof.
  intros [Hl [Hpre Hpost]]. rewrite Hl at 1.
  apply reassign_single; apply not_defs_not_assign; assumption.
Qed.

Section ErrProg.
  Variable fi : finterp.
  Variable ode : id -> list (option Q) -> option Q.

  (* the final value of Y in a program  pre ++ Y = e :: post  where post does not define Y *)
  Lemma exec_at_y pre post y e r :
    ~ In y (flat_map defs post) ->
    exec fi ode r (pre ++ Assign y e :: post) y = eval (exec fi ode r pre) fi e.
  Proof.
    intros Hpost. rewrite exec_app. cbn [exec exec1]. rewrite exec_not_defined by exact Hpost.
    unfold upd. rewrite Pos.eqb_refl. reflexivity.
  Qed.
End ErrProg.


(* the environment in which the DOCUMENTED error-model expression is read: x and f are the old prediction F,
   every epsilon / eta placeholder reads the model symbol it was instantiated with *)
Definition tenv (F : option Q) (base : env) (m : list (id * id)) : env :=
  fun s => if Pos.eqb s s_x then F else if Pos.eqb s s_f then F
           else match alookup m s with Some real => base real | None => base s end.

Definition sym_map (m : list (id * id)) : list (id * expr) := map (fun p => (fst p, Sym (snd p))) m.

Lemma alookup_sym_map m s : alookup (sym_map m) s = option_map Sym (alookup m s).
Proof.
  induction m as [|[k v] tl IH]; cbn [sym_map map alookup fst snd]; [reflexivity|].
  destruct (Pos.eqb k s); [reflexivity | exact IH].
Qed.
Lemma alookup_not_key {A} (m : list (id * A)) s : (forall p, In p m -> fst p <> s) -> alookup m s = None.
Proof.
  induction m as [|[k v] tl IH]; intros H; cbn [alookup]; [reflexivity|].
  destruct (Pos.eqb k s) eqn:E; [apply Pos.eqb_eq in E; exfalso; apply (H (k, v) (or_introl eq_refl)); exact E|].
  apply IH. intros p Hi. apply H. right. exact Hi.
Qed.
Lemma alookup_in {A} (m : list (id * A)) s v : alookup m s = Some v -> In (s, v) m.
Proof.
  induction m as [|[k w] tl IH]; cbn [alookup]; [discriminate|].
  destruct (Pos.eqb k s) eqn:E; [intros H; injection H as <-; apply Pos.eqb_eq in E; subst; left; reflexivity|].
  intros H. right. apply IH, H.
Qed.

Section ErrSound.
  Variable fi : finterp.
  Hypothesis Hp : fi_proper fi.
  Variable ode : id -> list (option Q) -> option Q.

  (* evaluation of an instantiated template: placeholders of [m] renamed to model symbols, then x := f *)
  Lemma eval_instantiated (tmpl : expr) (m : list (id * id)) (f : expr) (r : env) :
    (forall p, In p m -> fst p <> s_x /\ snd p <> s_x) -> ~ In s_f (free_syms tmpl) ->
    eval r fi (subs s_x f (subs_map (sym_map m) tmpl)) = eval (tenv (eval r fi f) r m) fi tmpl.
  Proof.
    intros Hm Hf. rewrite subs_eval, (proj1 (subs_map_lemma _ fi _)).
    apply eval_coincidence. intros s Hs. unfold upd_map, tenv. rewrite alookup_sym_map.
    destruct (Pos.eqb s s_x) eqn:Ex.
    - apply Pos.eqb_eq in Ex. subst s.
      rewrite (alookup_not_key m s_x) by (intros p Hi; apply (Hm p Hi)). cbn [option_map].
      unfold upd. rewrite Pos.eqb_refl. reflexivity.
    - destruct (Pos.eqb s s_f) eqn:Ef; [apply Pos.eqb_eq in Ef; subst; contradiction|].
      destruct (alookup m s) as [real|] eqn:El; cbn [option_map eval].
      + apply alookup_in in El. destruct (Hm _ El) as [_ Hr]. cbn [snd] in Hr.
        unfold upd. apply Pos.eqb_neq in Hr. rewrite Hr. reflexivity.
      + unfold upd. rewrite Ex. reflexivity.
  Qed.

  (* ---- set_combined_error_model (all three forms) -------------------------------------------------- *)
  Theorem set_combined_program_sound_lemma T k l l' y i ye eps_p eps_a eta_ruv epsilons r :
    templates_equiv T doc_templates -> single_assignment l y i ye ->
    eps_p <> s_x -> eps_a <> s_x -> eta_ruv <> s_x ->
    set_combined T k y eps_p eps_a eta_ruv epsilons l = Some l' ->
    let ri := exec fi ode r (firstn i l) in
    let F := eval ri fi (zero_eps epsilons ye) in
    oq_equiv (exec fi ode r l' y)
             (eval (tenv F ri [(s_eps_p, eps_p); (s_eps_a, eps_a); (s_eta_ruv, eta_ruv)]) fi (doc_comb_error k)).
  Proof.
    intros HT HS H1 H2 H3 Hset ri F. unfold set_combined in Hset. rewrite (single_y_expr _ _ _ _ HS) in Hset.
    injection Hset as <-. rewrite (single_reassign _ _ _ _ _ HS).
    rewrite exec_at_y by (apply HS). fold ri.
    change [(s_eps_p, Sym eps_p); (s_eps_a, Sym eps_a); (s_eta_ruv, Sym eta_ruv)]
      with (sym_map [(s_eps_p, eps_p); (s_eps_a, eps_a); (s_eta_ruv, eta_ruv)]).
    eapply oq_trans.
    - apply (expr_equiv_subs s_x (zero_eps epsilons ye)); [apply expr_equiv_subs_map, (te_comb_error _ _ HT k) | exact Hp].
    - cbn [doc_templates t_comb_error]. rewrite eval_instantiated.
      + apply oq_refl.
      + intros p [<-|[<-|[<-|[]]]]; cbn [fst snd]; split; try assumption; discriminate.
      + destruct k; cbn; intuition discriminate.
  Qed.

  (* ---- set_proportional_error_model without zero protection ---------------------------------------- *)
  Theorem set_proportional_program_sound_lemma T dt l l' y i ye eps_p ipredadj epsilons r :
    templates_equiv T doc_templates -> single_assignment l y i ye ->
    eps_p <> s_x -> ipredadj <> s_x ->
    set_proportional T dt false y eps_p ipredadj epsilons l = Some l' ->
    let ri := exec fi ode r (firstn i l) in
    let F := eval ri fi (zero_eps epsilons ye) in
    oq_equiv (exec fi ode r l' y) (eval (tenv F ri [(s_eps_p, eps_p)]) fi (doc_prop_error dt false)).
  Proof.
    intros HT HS H1 H2 Hset ri F. unfold set_proportional in Hset. rewrite (single_y_expr _ _ _ _ HS) in Hset.
    injection Hset as <-. rewrite (single_reassign _ _ _ _ _ HS).
    rewrite exec_at_y by (apply HS). fold ri.
    eapply oq_trans.
    - apply (expr_equiv_subs s_x (zero_eps epsilons ye)); [apply expr_equiv_subs_map, (te_prop_error _ _ HT dt false) | exact Hp].
    - cbn [doc_templates t_prop_error].
      (* the documented template without zero protection mentions neither IPREDADJ nor f: a shorter map suffices *)
      rewrite subs_eval, (proj1 (subs_map_lemma _ fi _)).
      apply oq_sym. eapply oq_trans; [|apply oq_refl].
      assert (E : eval (tenv F ri [(s_eps_p, eps_p)]) fi (doc_prop_error dt false)
                  = eval (upd_map (upd ri s_x (eval ri fi (zero_eps epsilons ye))) fi
                            [(s_eps_p, Sym eps_p); (s_ipredadj, Sym ipredadj); (s_f, zero_eps epsilons ye)]) fi
                         (doc_prop_error dt false)).
      { apply eval_coincidence. intros s Hs. unfold tenv, upd_map.
        destruct dt; cbn in Hs; repeat (destruct Hs as [<-|Hs]; [|]); try contradiction;
          cbn [Pos.eqb s_x s_f s_eps_p s_ipredadj alookup eval]; unfold upd;
          try (rewrite (proj2 (Pos.eqb_neq _ _) H1)); try rewrite Pos.eqb_refl; reflexivity. }
      rewrite E. apply oq_refl.
  Qed.

  (* ---- set_additive_error_model -------------------------------------------------------------------- *)
  Theorem set_additive_program_sound_lemma T l l' y i ye eps_a epsilons r :
    templates_equiv T doc_templates -> single_assignment l y i ye ->
    set_additive T y eps_a epsilons l = Some l' ->
    let ri := exec fi ode r (firstn i l) in
    let F := eval ri fi (zero_eps epsilons ye) in
    oq_equiv (exec fi ode r l' y) (eval (tenv F ri [(s_eps_a, eps_a)]) fi doc_add_error).
  Proof.
    intros HT HS Hset ri F. unfold set_additive in Hset. rewrite (single_y_expr _ _ _ _ HS) in Hset.
    injection Hset as <-. rewrite (single_reassign _ _ _ _ _ HS).
    rewrite exec_at_y by (apply HS). fold ri.
    eapply oq_trans; [apply (expr_equiv_subs_map _ _ _ (te_add_error _ _ HT)); exact Hp|].
    cbn [doc_templates t_add_error]. rewrite (proj1 (subs_map_lemma _ fi _)).
    assert (E : eval (upd_map ri fi [(s_f, zero_eps epsilons ye); (s_eps_a, Sym eps_a)]) fi doc_add_error
                = eval (tenv F ri [(s_eps_a, eps_a)]) fi doc_add_error).
    { apply eval_coincidence. intros s Hs. cbn in Hs. unfold tenv, upd_map.
      destruct Hs as [<-|[<-|[]]]; cbn [Pos.eqb s_x s_f s_eps_a alookup eval]; reflexivity. }
    rewrite E. apply oq_refl.
  Qed.
End ErrSound.


(* with zero protection: x, f -> F;  IPREDADJ -> the documented guard of F;  eps_p -> the model's epsilon *)
Definition tenv_zp (fi : finterp) (F : option Q) (base : env) (eps_p : id) : env :=
  fun s => if Pos.eqb s s_ipredadj then eval (tenv F base []) fi doc_prop_guard
           else tenv F base [(s_eps_p, eps_p)] s.

Lemma firstn_app_exact {A} (a b : list A) n : length a = n -> firstn n (a ++ b) = a.
Proof. intros <-. rewrite firstn_app, Nat.sub_diag, firstn_all. cbn [firstn]. apply app_nil_r. Qed.
Lemma skipn_app_exact {A} (a b : list A) n : length a = n -> skipn n (a ++ b) = b.
Proof. intros <-. rewrite skipn_app, Nat.sub_diag, skipn_all. reflexivity. Qed.

(* the Y expression set_proportional writes with zero protection *)
Definition prop_y_expr (T : templates) (dt : dtrans) (eps_p ipredadj : id) (f : expr) : expr :=
  subs s_x f (subs_map [(s_eps_p, Sym eps_p); (s_ipredadj, Sym ipredadj); (s_f, f)] (t_prop_error T dt true)).

Section ErrZp.
  Variable fi : finterp.
  Hypothesis Hp : fi_proper fi.
  Variable ode : id -> list (option Q) -> option Q.

  Theorem set_proportional_zp_program_sound_lemma T dt l l' y i ye eps_p ipredadj epsilons r :
    templates_equiv T doc_templates -> single_assignment l y i ye ->
    eps_p <> s_x -> ipredadj <> s_x -> eps_p <> ipredadj -> ipredadj <> y ->
    ~ In ipredadj (free_syms (zero_eps epsilons ye)) ->
    (* the statement where IPREDADJ first occurs after the reassignment is the Y statement *)
    find_first_from (mentions_stmt ipredadj)
      (firstn i l ++ Assign y (prop_y_expr T dt eps_p ipredadj (zero_eps epsilons ye)) :: skipn (S i) l) 0 = Some i ->
    set_proportional T dt true y eps_p ipredadj epsilons l = Some l' ->
    let ri := exec fi ode r (firstn i l) in
    let F := eval ri fi (zero_eps epsilons ye) in
    oq_equiv (exec fi ode r l' y) (eval (tenv_zp fi F ri eps_p) fi (doc_prop_error dt true)).
  Proof.
    intros HT HS H1 H2 H3 H4 Hf Hfirst Hset ri F. unfold set_proportional in Hset.
    rewrite (single_y_expr _ _ _ _ HS) in Hset. rewrite (single_reassign _ _ _ _ _ HS) in Hset.
    set (f := zero_eps epsilons ye) in *.
    set (Yexpr := subs s_x f (subs_map [(s_eps_p, Sym eps_p); (s_ipredadj, Sym ipredadj); (s_f, f)] (t_prop_error T dt true))) in *.
    assert (Hind : match find_first_from (mentions_stmt ipredadj) (firstn i l ++ Assign y Yexpr :: skipn (S i) l) 0 with
                   | Some j => j | None => 0%nat end = i).
    { unfold prop_y_expr in Hfirst. fold f in Hfirst. fold Yexpr in Hfirst. rewrite Hfirst. reflexivity. }
    rewrite Hind in Hset. injection Hset as <-.
    pose proof (single_length _ _ _ _ HS) as Hlen.
    unfold insert_at.
    rewrite (firstn_app_exact _ _ i Hlen), (skipn_app_exact _ _ i Hlen).
    change (match l with [] => [] | _ :: l0 => skipn i l0 end) with (skipn (S i) l).
    set (g := subs s_f f (t_prop_guard T)).
    replace (firstn i l ++ Assign ipredadj g :: Assign y Yexpr :: skipn (S i) l)
      with ((firstn i l ++ [Assign ipredadj g]) ++ Assign y Yexpr :: skipn (S i) l) by (rewrite <- app_assoc; reflexivity).
    rewrite exec_at_y by (apply HS). rewrite exec_app. fold ri. cbn [exec exec1].
    set (ri' := upd ri ipredadj (eval ri fi g)).
    (* to the documented templates *)
    eapply oq_trans.
    - apply (expr_equiv_subs s_x f); [apply expr_equiv_subs_map, (te_prop_error _ _ HT dt true) | exact Hp].
    - cbn [doc_templates t_prop_error]. rewrite subs_eval, (proj1 (subs_map_lemma _ fi _)).
      assert (HF' : eval ri' fi f = F).
      { unfold F. apply eval_coincidence. intros s Hs. unfold ri', upd.
        destruct (Pos.eqb s ipredadj) eqn:E; [apply Pos.eqb_eq in E; subst; contradiction | reflexivity]. }
      assert (HG : oq_equiv (eval ri fi g) (eval (tenv F ri []) fi doc_prop_guard)).
      { unfold g. eapply oq_trans; [apply (expr_equiv_subs s_f f _ _ (te_prop_guard _ _ HT)); exact Hp|].
        cbn [doc_templates t_prop_guard]. rewrite subs_eval.
        replace (eval (upd ri s_f (eval ri fi f)) fi doc_prop_guard) with (eval (tenv F ri []) fi doc_prop_guard); [apply oq_refl|].
        apply eval_coincidence. intros s Hs. cbn in Hs. unfold tenv, upd.
        destruct Hs as [<-|[<-|[]]]; cbn [Pos.eqb s_f s_x alookup]; reflexivity. }
      apply (eval_equiv_on fi Hp). intros s Hs. unfold upd_map, tenv_zp, tenv. rewrite HF'.
      destruct dt; cbn in Hs; repeat (destruct Hs as [<-|Hs]; [|]); try contradiction;
        cbn [Pos.eqb s_x s_f s_eps_p s_ipredadj alookup eval]; unfold upd at 1;
        try rewrite Pos.eqb_refl;
        try (rewrite (proj2 (Pos.eqb_neq _ _) H1)); try (rewrite (proj2 (Pos.eqb_neq _ _) H2));
        unfold ri', upd; try rewrite Pos.eqb_refl; try (rewrite (proj2 (Pos.eqb_neq _ _) H3));
        try apply oq_refl; try exact HG.
  Qed.
End ErrZp.


Section RuvProg.
  Variable fi : finterp.
  Hypothesis Hp : fi_proper fi.
  Variable ode : id -> list (option Q) -> option Q.
  Hypothesis Hode : ode_proper ode.

  Lemma iiv_on_ruv_expr_equiv T eps eta :
    templates_equiv T doc_templates ->
    expr_equiv (iiv_on_ruv_expr T eps eta) (Mul (Sym eps) (Fn1 F_EXP (Sym eta))).
  Proof.
    intros HT. unfold iiv_on_ruv_expr. eapply expr_equiv_trans; [apply expr_equiv_subs_map, (te_iiv_on_ruv _ _ HT)|].
    cbn. apply expr_equiv_refl.
  Qed.

  (* set_iiv_on_ruv with one epsilon: the new model in r is the old model with eps := eps * exp(eta) *)
  Theorem set_iiv_on_ruv_program_sound_lemma T eps eta l r x :
    templates_equiv T doc_templates ->
    ~ In eps (flat_map defs l) -> ~ In eps (ode_rhs l) ->
    (forall y, In y (free_syms (iiv_on_ruv_expr T eps eta)) -> ~ In y (flat_map defs l)) -> x <> eps ->
    oq_equiv (exec fi ode r (set_iiv_on_ruv T [(eps, eta)] l) x)
             (exec fi ode (upd r eps (eval r fi (Mul (Sym eps) (Fn1 F_EXP (Sym eta))))) l x).
  Proof.
    intros HT He Ho Hfree Hx. unfold set_iiv_on_ruv. cbn [fold_left fst snd].
    rewrite (exec_subs_upd fi ode eps (iiv_on_ruv_expr T eps eta) l r x He Hfree Ho Hx).
    apply (exec_proper fi Hp ode Hode l). apply env_equiv_upd; [apply env_equiv_refl|].
    apply iiv_on_ruv_expr_equiv; assumption.
  Qed.
End RuvProg.


(* ---- the IOV distributions ----------------------------------------------------------------------------- *)
Section IovDists.
  Variables ename oname : nat -> nat -> id.

  (* SAME structure across occasions: within a group every level's distribution has the same covariance symbols *)
  Theorem iov_dists_same_structure_lemma indices K d d' :
    In d (iov_dists_group ename oname indices K) -> In d' (iov_dists_group ename oname indices K) ->
    rd_sigma d = rd_sigma d'.
  Proof.
    unfold iov_dists_group. destruct indices as [|i [|j tl]]; intros H H';
      apply in_map_iff in H; apply in_map_iff in H'; destruct H as [k [<- _]]; destruct H' as [k' [<- _]]; reflexivity.
  Qed.

  (* one distribution per level, and the level-k distribution declares exactly the eta_name(i, k) of the group *)
  Theorem iov_dists_exact_lemma indices K :
    length (iov_dists_group ename oname indices K) = K /\
    forall k, (k < K)%nat ->
      rd_names (nth k (iov_dists_group ename oname indices K) {| rd_names := []; rd_sigma := [] |})
      = map (fun i => ename i (S k)) indices.
  Proof.
    unfold iov_dists_group. destruct indices as [|i [|j tl]]; (split; [rewrite map_length, seq_length; reflexivity|]);
      intros k Hk;
      match goal with |- context[nth k (map ?f (seq 1 K)) ?d] =>
        rewrite (nth_indep (map f (seq 1 K)) d (f 0%nat)) by (rewrite map_length, seq_length; exact Hk);
        rewrite (map_nth f (seq 1 K) 0%nat k), seq_nth by exact Hk end; reflexivity.
  Qed.

  (* the covariance matrix is symmetric in its symbols and has the diagonal oname i i *)
  Theorem iov_sigma_symmetric_lemma i j : oname (Nat.min i j) (Nat.max i j) = oname (Nat.min j i) (Nat.max j i).
  Proof. rewrite Nat.min_comm, Nat.max_comm. reflexivity. Qed.
  Theorem iov_sigma_diagonal_lemma i : oname (Nat.min i i) (Nat.max i i) = oname i i.
  Proof. rewrite Nat.min_id, Nat.max_id. reflexivity. Qed.
End IovDists.

