(* PV.C09.ProofsSurgery — soundness of the hand model of add_covariate_effect (apply / statistic statements /
   create_effect_statement / insertion after the last assignment / grouping heuristic): for every program,
   outside the freshly introduced symbols, executing the model's statement list gives the same values as
   executing the SPEC  "after the last assignment of P insert  P = P op documented_effect". *)
From Coq Require Import QArith Qfield List Bool PArith Arith Lia Setoid.
From PV Require Import Base.PyData Base.Expr Base.Interp Base.Stmts C09.Model C09.Proofs C09.ProofsExec.
Import ListNotations.
Local Open Scope Q_scope.

(* ---- list/index facts about find_assignment_index --------------------------------------------------- *)
Lemma find_last_from_spec p : forall l j acc i,
  find_last_from (is_assign_of p) l j acc = Some i ->
  (acc = Some i /\ forall st, In st l -> is_assign_of p st = false) \/
  ((j <= i)%nat /\ (i - j < length l)%nat /\ is_assign_of p (nth (i - j) l dummy) = true /\
   forall st, In st (skipn (S (i - j)) l) -> is_assign_of p st = false).
Proof.
  induction l as [|st tl IH]; intros j acc i H; cbn [find_last_from] in H.
  - left. split; [exact H | intros ? []].
  - apply IH in H. destruct H as [[H Hn]|[H1 [H2 [H3 H4]]]].
    + destruct (is_assign_of p st) eqn:Ea.
      * injection H as <-. right. rewrite Nat.sub_diag. cbn [nth skipn length]. repeat split; try lia; auto.
      * left. split; [exact H|]. intros st' [<-|Hin]; auto.
    + right. replace (i - j)%nat with (S (i - S j)) by lia. cbn [length nth skipn]. repeat split; try lia; auto.
Qed.

Lemma find_index_split l p i :
  find_assignment_index l p = Some i ->
  exists e, l = firstn i l ++ Assign p e :: skipn (S i) l /\ nths l i = Assign p e /\
            (forall st, In st (skipn (S i) l) -> is_assign_of p st = false) /\ (i < length l)%nat.
Proof.
  intros H. unfold find_assignment_index in H. apply find_last_from_spec in H.
  destruct H as [[H _]|[_ [H2 [H3 H4]]]]; [discriminate|].
  rewrite Nat.sub_0_r in *.
  destruct (nth i l dummy) as [s e|] eqn:En; [|discriminate]. cbn in H3. apply Pos.eqb_eq in H3. subst s.
  exists e. repeat split; auto.
  clear H4. revert i H2 En. induction l as [|x tl IH]; intros i H2 En; [cbn in H2; lia|].
  destruct i; cbn [firstn skipn nth app length] in *; [subst; reflexivity|]. f_equal. apply IH; [lia | exact En].
Qed.

Lemma find_last_from_prefix p pre : forall l j acc,
  (forall st, In st pre -> is_assign_of p st = false) ->
  find_last_from (is_assign_of p) (pre ++ l) j acc = find_last_from (is_assign_of p) l (j + length pre) acc.
Proof.
  induction pre as [|st tl IH]; intros l j acc H; cbn [app length find_last_from].
  - rewrite Nat.add_0_r. reflexivity.
  - rewrite (H st (or_introl eq_refl)). rewrite IH by (intros; apply H; right; assumption).
    f_equal. lia.
Qed.

Lemma find_last_from_shift p : forall l j k acc,
  find_last_from (is_assign_of p) l (j + k) (option_map (fun i => i + k)%nat acc)
  = option_map (fun i => i + k)%nat (find_last_from (is_assign_of p) l j acc).
Proof.
  induction l as [|st tl IH]; intros j k acc; cbn [find_last_from]; [reflexivity|].
  replace (S (j + k)) with (S j + k)%nat by lia.
  destruct (is_assign_of p st); [apply (IH (S j) k (Some j)) | apply IH].
Qed.

Lemma find_index_prefix p pre l :
  (forall st, In st pre -> is_assign_of p st = false) ->
  find_assignment_index (pre ++ l) p = option_map (fun i => i + length pre)%nat (find_assignment_index l p).
Proof.
  intros H. unfold find_assignment_index. rewrite find_last_from_prefix by exact H.
  apply (find_last_from_shift p l 0 (length pre) None).
Qed.
Section Sim.
  Variable fi : finterp.
  Hypothesis Hp : fi_proper fi.
  Variable ode : id -> list (option Q) -> option Q.
  Hypothesis Hode : ode_proper ode.

  Definition agree_off (F : list id) (r r' : env) : Prop := forall x, ~ In x F -> oq_equiv (r x) (r' x).

  Lemma eval_equiv_on r r' e :
    (forall x, In x (free_syms e) -> oq_equiv (r x) (r' x)) -> oq_equiv (eval r fi e) (eval r' fi e).
  Proof.
    intros H. set (r'' := fun x => if memp x (free_syms e) then r' x else r x).
    assert (E1 : env_equiv r r'').
    { intros x. unfold r''. destruct (memp x (free_syms e)) eqn:E; [apply H, memp_In, E | apply oq_refl]. }
    assert (E2 : eval r'' fi e = eval r' fi e).
    { apply eval_coincidence. intros x Hx. unfold r''. apply memp_In in Hx. rewrite Hx. reflexivity. }
    rewrite <- E2. apply eval_env_equiv; assumption.
  Qed.

  Definition reads_none (F : list id) (st : stmt) : Prop := forall x, In x F -> ~ In x (rhs st).

  Lemma exec1_agree F r r' st :
    agree_off F r r' -> reads_none F st -> agree_off F (exec1 fi ode r st) (exec1 fi ode r' st).
  Proof.
    intros H Hr x Hx. destruct st as [s e | amts rh]; cbn [exec1].
    - unfold upd. destruct (Pos.eqb x s); [|apply H, Hx].
      apply eval_equiv_on. intros y Hy. apply H. intro Hin. apply (Hr y Hin). exact Hy.
    - unfold upd_list. destruct (memp x amts); [|apply H, Hx].
      apply Hode. cbn [rhs] in Hr. induction rh as [|y tl IH]; cbn [map]; constructor.
      + apply H. intro Hin. apply (Hr y Hin). left; reflexivity.
      + apply IH. intros z Hz Hin. apply (Hr z Hz). right; exact Hin.
  Qed.

  Lemma exec_agree F l : forall r r',
    agree_off F r r' -> Forall (reads_none F) l -> agree_off F (exec fi ode r l) (exec fi ode r' l).
  Proof.
    induction l as [|st tl IH]; intros r r' H Hl; cbn [exec]; [exact H|].
    inversion Hl; subst. apply IH; [apply exec1_agree; assumption | assumption].
  Qed.

  Lemma eval_apply_op o r1 r2 a1 a2 b1 b2 :
    oq_equiv (eval r1 fi a1) (eval r2 fi a2) -> oq_equiv (eval r1 fi b1) (eval r2 fi b2) ->
    oq_equiv (eval r1 fi (apply_op o a1 b1)) (eval r2 fi (apply_op o a2 b2)).
  Proof.
    intros Ha Hb. destruct o; cbn [apply_op eval]; (apply oq_bind; [exact Ha|]); intros x x' Hx;
      (apply oq_bind; [exact Hb|]); intros y y' Hy; cbn [oq_equiv]; rewrite !Qred_correct, Hx, Hy; reflexivity.
  Qed.

  Lemma agree_off_weaken F G r r' : (forall x, In x F -> In x G) -> agree_off F r r' -> agree_off G r r'.
  Proof. intros HS H x Hx. apply H. intro Hin. apply Hx, HS, Hin. Qed.

  (* the core step, effect statement placed right after the parameter's last assignment.  Fs: the statistic
     symbols (fresh); EFF: the effect symbol, which the statements before the insertion point may assign and read
     (nested effect of the same covariate) *)
  Lemma core_ungrouped Fs pre post P EFF o tmpl docc r1 r2 :
    agree_off Fs r1 r2 -> ~ In P (EFF :: Fs) ->
    Forall (reads_none Fs) pre -> Forall (reads_none (EFF :: Fs)) post ->
    (forall x, In x Fs -> ~ In x (flat_map defs pre)) ->
    (forall ra rb, agree_off Fs ra rb -> (forall x, In x Fs -> ra x = r1 x) ->
                   oq_equiv (eval ra fi tmpl) (eval rb fi docc)) ->
    agree_off (EFF :: Fs)
              (exec fi ode r1 (pre ++ [Assign EFF tmpl; Assign P (apply_op o (Sym P) (Sym EFF))] ++ post))
              (exec fi ode r2 (pre ++ [Assign P (apply_op o (Sym P) docc)] ++ post)).
  Proof.
    intros H HP Hpre Hpost Hdef Ht.
    rewrite !exec_app. apply exec_agree; [|exact Hpost].
    set (ra := exec fi ode r1 pre). set (rb := exec fi ode r2 pre).
    assert (Hab : agree_off Fs ra rb) by (apply exec_agree; assumption).
    assert (Hkeep : forall x, In x Fs -> ra x = r1 x) by (intros x Hx; apply exec_not_defined, Hdef, Hx).
    cbn [exec exec1].
    assert (NE : Pos.eqb P EFF = false) by (apply Pos.eqb_neq; intro E; subst; apply HP; left; reflexivity).
    assert (HPs : ~ In P Fs) by (intro Hin; apply HP; right; exact Hin).
    intros x Hx. unfold upd.
    destruct (Pos.eqb x P) eqn:Ex.
    - apply eval_apply_op.
      + cbn [eval]. rewrite NE. apply Hab, HPs.
      + cbn [eval]. rewrite Pos.eqb_refl. apply Ht; assumption.
    - destruct (Pos.eqb x EFF) eqn:Ee.
      + apply Pos.eqb_eq in Ee. subst. exfalso. apply Hx. left; reflexivity.
      + apply Hab. intro Hin. apply Hx. right; exact Hin.
  Qed.

  (* the grouped variant: the last assignment P = e is merged into P = e op EFFECT *)
  Lemma core_grouped Fs pre post P EFF o tmpl docc last_e r1 r2 :
    agree_off Fs r1 r2 -> ~ In P (EFF :: Fs) ->
    Forall (reads_none Fs) pre -> Forall (reads_none (EFF :: Fs)) post -> reads_none (EFF :: Fs) (Assign P last_e) ->
    (forall x, In x Fs -> ~ In x (flat_map defs pre)) ->
    ~ In P (free_syms docc) ->
    (forall ra rb, agree_off Fs ra rb -> (forall x, In x Fs -> ra x = r1 x) ->
                   oq_equiv (eval ra fi tmpl) (eval rb fi docc)) ->
    agree_off (EFF :: Fs)
              (exec fi ode r1 (pre ++ [Assign EFF tmpl; Assign P (apply_op o last_e (Sym EFF))] ++ post))
              (exec fi ode r2 (pre ++ [Assign P last_e; Assign P (apply_op o (Sym P) docc)] ++ post)).
  Proof.
    intros H HP Hpre Hpost Hlast Hdef HPd Ht.
    rewrite !exec_app. apply exec_agree; [|exact Hpost].
    set (ra := exec fi ode r1 pre). set (rb := exec fi ode r2 pre).
    assert (Hab : agree_off Fs ra rb) by (apply exec_agree; assumption).
    assert (Hkeep : forall x, In x Fs -> ra x = r1 x) by (intros x Hx; apply exec_not_defined, Hdef, Hx).
    cbn [exec exec1].
    intros x Hx. unfold upd.
    destruct (Pos.eqb x P) eqn:Ex.
    - apply eval_apply_op.
      + (* last_e under the model env (EFF updated) vs P in the spec env *)
        cbn [eval]. rewrite Pos.eqb_refl.
        apply eval_equiv_on. intros y Hy. destruct (Pos.eqb y EFF) eqn:Ey.
        * apply Pos.eqb_eq in Ey. subst. exfalso. apply (Hlast EFF (or_introl eq_refl)). exact Hy.
        * apply Hab. intro Hin. apply (Hlast y (or_intror Hin)). exact Hy.
      + cbn [eval]. rewrite Pos.eqb_refl.
        eapply oq_trans; [apply (Ht ra rb Hab Hkeep)|].
        apply eval_equiv_on. intros y Hy. destruct (Pos.eqb y P) eqn:Ey; [|apply oq_refl].
        apply Pos.eqb_eq in Ey. subst. contradiction.
    - destruct (Pos.eqb x EFF) eqn:Ee.
      + apply Pos.eqb_eq in Ee. subst. exfalso. apply Hx. left; reflexivity.
      + apply Hab. intro Hin. apply Hx. right; exact Hin.
  Qed.
End Sim.

(* ---- evaluation of the applied template (model side) and of the closed documented effect (spec side) -- *)
Fixpoint upd_syms (stats : list (id * id * Q)) (r : env) : env :=
  match stats with
  | [] => r
  | (ts, nm, _) :: tl => let r' := upd_syms tl r in upd r' ts (r' nm)
  end.

Lemma eval_cond_subs fi r ts t e :
  eval r fi (if memp ts (free_syms e) then subs ts t e else e) = eval r fi (subs ts t e).
Proof.
  destruct (memp ts (free_syms e)) eqn:E; [reflexivity|].
  rewrite subs_eval. apply eval_coincidence. intros x Hx. unfold upd.
  destruct (Pos.eqb x ts) eqn:Ex; [|reflexivity]. apply Pos.eqb_eq in Ex. subst.
  apply memp_In in Hx. congruence.
Qed.

Lemma eval_fold_syms fi stats : forall e r,
  eval r fi (fold_left (fun e (st : id * id * Q) => let '(ts, name, _) := st in
                          if memp ts (free_syms e) then subs ts (Sym name) e else e) stats e)
  = eval (upd_syms stats r) fi e.
Proof.
  induction stats as [|[[ts nm] v] tl IH]; intros e r; cbn [fold_left upd_syms]; [reflexivity|].
  rewrite IH, eval_cond_subs, subs_eval. reflexivity.
Qed.

Definition inst_env_model (fi : finterp) (a : cov_args) (r : env) : env :=
  let r1 := upd_syms (a_stats a) r in
  let r2 := upd r1 s_cov (r1 (a_cov a)) in
  upd_map r2 fi (map (fun p => (fst p, Sym (snd p))) (a_thetas a)).

Lemma eval_applied_template fi T a r :
  eval r fi (applied_template T a) =
  eval (inst_env_model fi a r) fi (effect_expr T (a_kind a) (a_cats a) (a_mc a)).
Proof.
  unfold applied_template, inst_env_model. rewrite eval_fold_syms, subs_eval.
  rewrite (proj1 (subs_map_lemma _ fi _)). reflexivity.
Qed.

Lemma upd_syms_notkey stats r x : ~ In x (stat_keys stats) -> upd_syms stats r x = r x.
Proof.
  induction stats as [|[[ts nm] v] tl IH]; intros H; cbn [upd_syms]; [reflexivity|].
  cbn [stat_keys map fst] in H. unfold upd. destruct (Pos.eqb x ts) eqn:E.
  - apply Pos.eqb_eq in E. subst. exfalso; apply H; left; reflexivity.
  - apply IH. intro Hin; apply H; right; exact Hin.
Qed.
Lemma upd_stats_notkey stats r x : ~ In x (stat_keys stats) -> upd_stats stats r x = r x.
Proof.
  induction stats as [|[[ts nm] v] tl IH]; intros H; cbn [upd_stats]; [reflexivity|].
  cbn [stat_keys map fst] in H. unfold upd. destruct (Pos.eqb x ts) eqn:E.
  - apply Pos.eqb_eq in E. subst. exfalso; apply H; left; reflexivity.
  - apply IH. intro Hin; apply H; right; exact Hin.
Qed.

Section Inst.
  Variable fi : finterp.
  Hypothesis Hp : fi_proper fi.

  (* the two instantiation environments agree, outside the fresh names, at every symbol that is not the key
     of a statistic whose statement was not emitted *)
  Lemma inst_envs_agree F a ra rb x :
    agree_off F ra rb ->
    (forall st, In st (a_stats a) -> fst (fst st) = x -> ra (snd (fst st)) = Some (snd st)) ->
    (forall nm, In nm (stat_names (a_stats a)) -> ~ In nm (stat_keys (a_stats a))) ->
    ~ In (a_cov a) F -> ~ In (a_cov a) (stat_keys (a_stats a)) ->
    (forall p, In p (a_thetas a) -> ~ In (snd p) F /\ ~ In (snd p) (stat_keys (a_stats a)) /\ snd p <> s_cov) ->
    (forall y, In y F -> ~ In y (stat_keys (a_stats a))) ->
    ~ In x F ->
    oq_equiv (inst_env_model fi a ra x) (inst_env fi a rb x).
  Proof.
    intros Hab Hval Hnk HcF Hck Hth HF Hx.
    assert (S1 : forall stats y, ~ In y F ->
                   (forall st, In st stats -> fst (fst st) = y -> ra (snd (fst st)) = Some (snd st)) ->
                   (forall nm, In nm (stat_names stats) -> ~ In nm (stat_keys stats)) ->
                   (forall z, In z F -> ~ In z (stat_keys stats)) ->
                   oq_equiv (upd_syms stats ra y) (upd_stats stats rb y)).
    { induction stats as [|[[ts nm] v] tl IH]; intros y Hy Hv Hn Hk; cbn [upd_syms upd_stats]; [apply Hab, Hy|].
      unfold upd. destruct (Pos.eqb y ts) eqn:E.
      - apply Pos.eqb_eq in E. subst y. rewrite upd_syms_notkey.
        + pose proof (Hv (ts, nm, v) (or_introl eq_refl) eq_refl) as Hv'. cbn [fst snd] in Hv'. rewrite Hv'.
          cbn [oq_equiv]. reflexivity.
        + intro Hin. apply (Hn nm (or_introl eq_refl)). right. exact Hin.
      - apply IH; auto.
        + intros st Hin. apply Hv. right; exact Hin.
        + intros n Hn' Hk'. apply (Hn n (or_intror Hn')). right. exact Hk'.
        + intros z Hz Hin. apply (Hk z Hz). right; exact Hin. }
    (* values of non-key symbols (covariate, new thetas) *)
    assert (S0 : forall y, ~ In y F -> ~ In y (stat_keys (a_stats a)) ->
                 oq_equiv (upd_syms (a_stats a) ra y) (upd_stats (a_stats a) rb y)).
    { intros y Hy Hk. rewrite upd_syms_notkey, upd_stats_notkey by exact Hk. apply Hab, Hy. }
    unfold inst_env_model, inst_env, upd_map.
    destruct (alookup (map (fun p => (fst p, Sym (snd p))) (a_thetas a)) x) as [t|] eqn:El.
    - (* a theta placeholder: looked up through the new population parameter *)
      assert (Ht : exists p, In p (a_thetas a) /\ t = Sym (snd p)).
      { clear -El. induction (a_thetas a) as [|[k v] tl IH]; cbn [map alookup fst snd] in El; [discriminate|].
        destruct (Pos.eqb k x); [injection El as <-; exists (k, v); split; [left; reflexivity | reflexivity]|].
        destruct (IH El) as [p [Hin E]]. exists p. split; [right; exact Hin | exact E]. }
      destruct Ht as [p [Hin ->]]. cbn [eval]. destruct (Hth p Hin) as [A [B C]].
      unfold upd. rewrite (proj2 (Pos.eqb_neq _ _) C). apply S0; assumption.
    - unfold upd. destruct (Pos.eqb x s_cov) eqn:Ec; [apply S0; assumption|].
      apply S1; auto.
  Qed.
End Inst.

(* ---- the effect expression built from an equivalent template record is equivalent -------------------- *)
Lemma cond_equiv_subsc s t c c' : cond_equiv c c' -> cond_equiv (subsc s t c) (subsc s t c').
Proof. intros H r fi Hp. rewrite !(proj2 (subs_lemma r fi s t)). apply H, Hp. Qed.
Lemma expr_equiv_subs s t e e' : expr_equiv e e' -> expr_equiv (subs s t e) (subs s t e').
Proof. intros H r fi Hp. rewrite !subs_eval. apply H, Hp. Qed.
Lemma expr_equiv_subs_map m e e' : expr_equiv e e' -> expr_equiv (subs_map m e) (subs_map m e').
Proof. intros H r fi Hp. rewrite !(proj1 (subs_map_lemma r fi m)). apply H, Hp. Qed.

Lemma piecewise_equiv l l' :
  Forall2 (fun p p' => expr_equiv (fst p) (fst p') /\ cond_equiv (snd p) (snd p')) l l' ->
  expr_equiv (piecewise_of l) (piecewise_of l').
Proof.
  induction 1 as [|[v c] [v' c'] tl tl' [Hv Hc] Hl IH]; [apply expr_equiv_refl|].
  intros r fi Hp. cbn [piecewise_of eval fst snd] in *. rewrite (Hc r fi Hp).
  destruct (evalc r fi c') as [[|]|]; cbn [obind]; [apply Hv, Hp | apply IH, Hp | exact I].
Qed.

Lemma cat_pieces_equiv T two alt mc cats : templates_equiv T doc_templates -> forall i,
  Forall2 (fun p p' => expr_equiv (fst p) (fst p') /\ cond_equiv (snd p) (snd p'))
          (cat_pieces T two alt mc i cats) (cat_pieces doc_templates two alt mc i cats).
Proof.
  intros HT. induction cats as [|c tl IH]; intros i; cbn [cat_pieces]; [constructor|].
  apply Forall2_app; [|apply IH].
  destruct (oq_is c mc); [constructor|]. destruct c as [v|].
  - constructor; [|constructor]. cbn [fst snd]. split.
    + apply (te_cat_other_value _ _ HT).
    + apply cond_equiv_subsc, (te_cat_other_cond _ _ HT).
  - constructor; [|constructor]. cbn [fst snd]. split.
    + apply (te_cat_nan_value _ _ HT).
    + apply (te_cat_nan_cond _ _ HT).
Qed.

Lemma effect_expr_equiv T k cats mc :
  templates_equiv T doc_templates ->
  expr_equiv (effect_expr T k cats mc) (effect_expr doc_templates k cats mc).
Proof.
  intros HT. destruct k; cbn [effect_expr]; try apply (te_effect _ _ HT).
  unfold categorical. rewrite (te_cat_start _ _ HT).
  apply piecewise_equiv. constructor.
  - cbn [fst snd]. split; [apply (te_cat_first_value _ _ HT) | apply cond_equiv_subsc, (te_cat_first_cond _ _ HT)].
  - apply cat_pieces_equiv, HT.
Qed.

(* ---- the statistic statements --------------------------------------------------------------------- *)
Lemma statistic_statements_defs T a :
  forall x, In x (flat_map defs (statistic_statements T a)) -> In x (stat_names (a_stats a)).
Proof.
  unfold statistic_statements. fold (template_e2 T a). generalize (a_stats a) as stats.
  induction stats as [|[[ts nm] v] tl IH]; intros x Hx; cbn [flat_map] in Hx; [contradiction|].
  rewrite flat_map_app in Hx. apply in_app_or in Hx. cbn [stat_names map fst snd].
  destruct Hx as [Hx|Hx]; [|right; apply IH; exact Hx].
  destruct (memp ts (free_syms (template_e2 T a))); cbn in Hx; [|contradiction].
  destruct Hx as [<-|[]]. left; reflexivity.
Qed.

Lemma statistic_statements_rhs T a : forall st, In st (statistic_statements T a) -> rhs st = [].
Proof.
  unfold statistic_statements. fold (template_e2 T a). generalize (a_stats a) as stats.
  induction stats as [|[[ts nm] v] tl IH]; intros st Hst; cbn [flat_map] in Hst; [contradiction|].
  apply in_app_or in Hst. destruct Hst as [H|H]; [|apply IH; exact H].
  destruct (memp ts (free_syms (template_e2 T a))); cbn in H; [|contradiction].
  destruct H as [<-|[]]. reflexivity.
Qed.

Section Stats.
  Variable fi : finterp.
  Variable ode : id -> list (option Q) -> option Q.

  Lemma exec_statistics T a r :
    NoDup (stat_names (a_stats a)) ->
    forall st, In st (a_stats a) -> emitted T a (fst (fst st)) = true ->
      exec fi ode r (statistic_statements T a) (snd (fst st)) = Some (snd st).
  Proof.
    unfold statistic_statements, emitted. fold (template_e2 T a).
    generalize (a_stats a) as stats. intros stats; revert r.
    induction stats as [|[[ts nm] v] tl IH]; intros r Hnd st Hin Hem; [contradiction|].
    cbn [stat_names map fst snd] in Hnd. inversion Hnd as [|? ? Hnotin Hnd']; subst.
    cbn [flat_map]. rewrite exec_app.
    destruct Hin as [<-|Hin].
    - cbn [fst snd] in *. rewrite Hem. cbn [exec exec1].
      rewrite exec_not_defined.
      + unfold upd. rewrite Pos.eqb_refl. reflexivity.
      + intro H. apply Hnotin.
        assert (G : forall l x, In x (flat_map defs (flat_map (fun st0 : id * id * Q =>
                       let '(ts0, name, v0) := st0 in
                       if memp ts0 (free_syms (template_e2 T a)) then [Assign name (Num v0)] else []) l)) ->
                     In x (map (fun st0 => snd (fst st0)) l)).
        { induction l as [|[[t n] w] l' IHl]; intros x Hx; cbn [flat_map] in Hx; [contradiction|].
          rewrite flat_map_app in Hx. apply in_app_or in Hx. cbn [map fst snd].
          destruct Hx as [Hx|Hx]; [|right; apply IHl; exact Hx].
          destruct (memp t (free_syms (template_e2 T a))); cbn in Hx; [|contradiction].
          destruct Hx as [<-|[]]. left; reflexivity. }
        apply G. exact H.
    - apply IH; assumption.
  Qed.
End Stats.

(* statements of the program are never syntactically equal to a statistic statement whose name is fresh *)
Lemma filter_fresh_stats (stats l : list stmt) :
  (forall st, In st stats -> exists nm e, st = Assign nm e /\ ~ In nm (flat_map defs l)) ->
  filter (fun s => negb (existsb (stmt_eqb s) l)) stats = stats.
Proof.
  induction stats as [|st tl IH]; intros H; cbn [filter]; [reflexivity|].
  destruct (H st (or_introl eq_refl)) as [nm [e [-> Hn]]].
  assert (E : existsb (stmt_eqb (Assign nm e)) l = false).
  { destruct (existsb (stmt_eqb (Assign nm e)) l) eqn:Ex; [|reflexivity].
    apply existsb_exists in Ex. destruct Ex as [s' [Hin Heq]]. destruct s' as [s2 e2|]; cbn in Heq; [|discriminate].
    apply andb_true_iff in Heq as [Hs _]. apply Pos.eqb_eq in Hs. subst s2. exfalso. apply Hn.
    apply in_flat_map. exists (Assign nm e2). split; [exact Hin | left; reflexivity]. }
  rewrite E. cbn [negb]. f_equal. apply IH. intros st' Hst'. apply H. right; exact Hst'.
Qed.

Lemma statistic_statements_form T a :
  forall st, In st (statistic_statements T a) ->
    exists nm v, st = Assign nm (Num v) /\ In nm (stat_names (a_stats a)).
Proof.
  unfold statistic_statements. fold (template_e2 T a). generalize (a_stats a) as stats.
  induction stats as [|[[ts nm] v] tl IH]; intros st Hst; cbn [flat_map] in Hst; [contradiction|].
  apply in_app_or in Hst. cbn [stat_names map fst snd]. destruct Hst as [H|H].
  - destruct (memp ts (free_syms (template_e2 T a))); cbn in H; [|contradiction].
    destruct H as [<-|[]]. exists nm, v. split; [reflexivity | left; reflexivity].
  - destruct (IH st H) as [n [w [E Hin]]]. exists n, w. split; [exact E | right; exact Hin].
Qed.

Lemma skipn_prefix {A} (s l : list A) n : skipn (n + length s) (s ++ l) = skipn n l.
Proof.
  rewrite skipn_app. rewrite skipn_all2 by lia. cbn [app]. f_equal. lia.
Qed.
Lemma firstn_prefix {A} (s l : list A) n : firstn (n + length s) (s ++ l) = s ++ firstn n l.
Proof. rewrite Nat.add_comm. apply firstn_app_2. Qed.
Lemma nth_prefix {A} (s l : list A) n d : nth (n + length s) (s ++ l) d = nth n l d.
Proof. rewrite Nat.add_comm. apply app_nth2_plus. Qed.

Section Surgery.
  Variable fi : finterp.
  Hypothesis Hp : fi_proper fi.
  Variable ode : id -> list (option Q) -> option Q.
  Hypothesis Hode : ode_proper ode.

  Lemma agree_off_env_l F a b c : env_equiv a b -> agree_off F b c -> agree_off F a c.
  Proof. intros H1 H2 x Hx. eapply oq_trans; [apply H1 | apply H2, Hx]. Qed.

  Lemma exec_replace_equiv pre post s e e' r :
    expr_equiv e e' ->
    env_equiv (exec fi ode r (pre ++ Assign s e :: post)) (exec fi ode r (pre ++ Assign s e' :: post)).
  Proof.
    intros H. apply exec_replace; auto. cbn [exec1]. apply env_equiv_upd; [apply env_equiv_refl | apply H, Hp].
  Qed.

  Lemma all_args_in_nil e : all_args_in e [] = false.
  Proof.
    unfold all_args_in. destruct (sym_args e) as [[|x tl]|]; try reflexivity.
    cbn [forallb]. destruct x; reflexivity.
  Qed.

  Theorem add_covariate_effect_sound_lemma T a l lm ls r :
    templates_equiv T doc_templates ->
    let F := fresh_names a in
    let Fs := stat_names (a_stats a) in
    let e0D := effect_expr doc_templates (a_kind a) (a_cats a) (a_mc a) in
    (forall x, In x Fs -> ~ In x (flat_map defs l) /\ ~ In x (flat_map rhs l)) ->
    ~ In (a_effect a) Fs ->
    (forall i, find_assignment_index l (a_param a) = Some i ->
       ~ In (a_effect a) (flat_map rhs (skipn (Datatypes.S i) l)) /\
       (existsb (is_assign_of (a_effect a)) l = true \/ ~ In (a_effect a) (rhs (nths l i)))) ->
    ~ In (a_param a) F ->
    NoDup (stat_names (a_stats a)) ->
    (forall nm, In nm (stat_names (a_stats a)) -> ~ In nm (stat_keys (a_stats a))) ->
    ~ In (a_cov a) F -> ~ In (a_cov a) (stat_keys (a_stats a)) ->
    (forall p, In p (a_thetas a) -> ~ In (snd p) F /\ ~ In (snd p) (stat_keys (a_stats a)) /\ snd p <> s_cov) ->
    (forall y, In y F -> ~ In y (stat_keys (a_stats a))) ->
    (forall x, In x F -> ~ In x (free_syms e0D)) ->
    (forall st, In st (a_stats a) -> In (fst (fst st)) (free_syms e0D) -> emitted T a (fst (fst st)) = true) ->
    ~ In (a_param a) (free_syms (doc_effect_closed a)) ->
    add_covariate_effect T a l = Some lm ->
    spec_covariate_effect a l = Some ls ->
    agree_off F (exec fi ode r lm) (exec fi ode r ls).
  Proof.
    intros HT F Fs e0D H1 HEs HE H2 H3 H4 H5 H5' H6 H7 H8 H9 H10 Hm Hs.
    set (P := a_param a) in *. set (EFF := a_effect a) in *.
    unfold spec_covariate_effect in Hs. fold P in Hs.
    destruct (find_assignment_index l P) as [i|] eqn:Ei; [|discriminate]. injection Hs as <-.
    destruct (HE i eq_refl) as [HEpost HElast]. clear HE.
    destruct (find_index_split l P i Ei) as [last_e [Hl [Hn [_ Hi]]]].
    unfold add_covariate_effect in Hm. fold P EFF in Hm.
    set (S := statistic_statements T a) in *.
    assert (HSform : forall st, In st S -> exists nm v, st = Assign nm (Num v) /\ In nm Fs)
      by apply statistic_statements_form.
    assert (HnamesF : forall nm, In nm Fs -> In nm F) by (intros nm Hn'; right; exact Hn').
    rewrite filter_fresh_stats in Hm.
    2:{ intros st Hst. destruct (HSform st Hst) as [nm [v [-> Hin]]]. exists nm, (Num v). split; [reflexivity|].
        apply (H1 nm Hin). }
    assert (HSP : forall st, In st S -> is_assign_of P st = false).
    { intros st Hst. destruct (HSform st Hst) as [nm [v [-> Hin]]]. cbn. apply Pos.eqb_neq. intro E. subst nm.
      apply H2, HnamesF, Hin. }
    assert (HSE : existsb (is_assign_of EFF) (S ++ l) = existsb (is_assign_of EFF) l).
    { rewrite existsb_app. replace (existsb (is_assign_of EFF) S) with false; [reflexivity|].
      symmetry. destruct (existsb (is_assign_of EFF) S) eqn:Ex; [|reflexivity].
      apply existsb_exists in Ex. destruct Ex as [st [Hst Heq]]. destruct (HSform st Hst) as [nm [v [-> Hin]]].
      cbn in Heq. apply Pos.eqb_eq in Heq. subst nm. contradiction. }
    rewrite (find_index_prefix P S l HSP), Ei in Hm. cbn [option_map] in Hm. rewrite HSE in Hm.
    unfold nths in Hm, Hn, HElast. rewrite nth_prefix, Hn in Hm. rewrite Hn in HElast. cbn [rhs] in HElast.
    (* the environment after the statistic statements *)
    set (r1 := exec fi ode r S).
    assert (Hr1 : agree_off Fs r1 r).
    { intros x Hx. unfold r1. rewrite exec_not_defined; [apply oq_refl|].
      intro Hin. apply Hx, (statistic_statements_defs T a x Hin). }
    assert (HreadsS : forall st, In st l -> reads_none Fs st).
    { intros st Hst x Hx Hin. apply (proj2 (H1 x Hx)). apply in_flat_map. exists st. split; assumption. }
    assert (Hsub1 : forall st, In st (firstn i l) -> In st l)
      by (intros st Hst; rewrite Hl; apply in_or_app; left; exact Hst).
    assert (Hsub2 : forall st, In st (skipn (Datatypes.S i) l) -> In st l)
      by (intros st Hst; rewrite Hl; apply in_or_app; right; right; exact Hst).
    assert (Hpost : Forall (reads_none (EFF :: Fs)) (skipn (Datatypes.S i) l)).
    { apply Forall_forall. intros st Hst x [<-|Hx] Hin.
      - apply HEpost. apply in_flat_map. exists st. split; assumption.
      - apply (HreadsS st (Hsub2 st Hst) x Hx Hin). }
    assert (Hpre : Forall (reads_none Fs) (firstn i l))
      by (apply Forall_forall; intros st Hst; apply HreadsS, Hsub1, Hst).
    assert (HlastIn : In (Assign P last_e) l) by (rewrite Hl; apply in_or_app; right; left; reflexivity).
    assert (Hdefs : forall st, In st l -> forall x, In x Fs -> ~ In x (defs st)).
    { intros st Hst x Hx Hin. apply (proj1 (H1 x Hx)). apply in_flat_map. exists st. split; assumption. }
    assert (HPF : ~ In P (EFF :: Fs)) by exact H2.
    (* the template/documented-effect relation at the insertion point *)
    assert (Ht : forall ra rb, agree_off Fs ra rb -> (forall x, In x Fs -> ra x = r1 x) ->
                   oq_equiv (eval ra fi (applied_template T a)) (eval rb fi (doc_effect_closed a))).
    { intros ra rb Hab Hkeep. rewrite eval_applied_template, eval_doc_effect_closed.
      eapply oq_trans; [apply (effect_expr_equiv T _ _ _ HT); exact Hp|]. fold e0D.
      apply (eval_equiv_on fi Hp). intros x Hx.
      apply (inst_envs_agree fi Fs a ra rb x); [exact Hab | | exact H4 | | exact H5' | | | ].
      - intros st Hst Ek. rewrite Hkeep by (apply in_map_iff; exists st; split; [reflexivity | exact Hst]).
        unfold r1. apply exec_statistics; auto. apply H9; [exact Hst | rewrite Ek; exact Hx].
      - intro Hin. apply H5, HnamesF, Hin.
      - intros p Hpn. destruct (H6 p Hpn) as [A [B C]].
        split; [intro Hin; apply A, HnamesF, Hin | split; [exact B | exact C]].
      - intros y Hy. apply H7, HnamesF, Hy.
      - intro Hin. apply (H8 x (HnamesF x Hin) Hx). }
    assert (Hrhs : expr_equiv (subs_map [(s_p, Sym P); (s_effect, Sym EFF)] (t_effect_rhs T (a_op a)))
                              (apply_op (a_op a) (Sym P) (Sym EFF))).
    { eapply expr_equiv_trans; [apply expr_equiv_subs_map, (te_effect_rhs _ _ HT)|].
      cbn [doc_templates t_effect_rhs doc_effect_rhs]. destruct (a_op a); cbn; apply expr_equiv_refl. }
    assert (Hfs : firstn (Datatypes.S i) l = firstn i l ++ [Assign P last_e]).
    { rewrite <- Hn. clear -Hi. revert i Hi. induction l as [|x tl IH]; intros i Hi; [cbn in Hi; lia|].
      destruct i; cbn [firstn nth app]; [reflexivity|]. f_equal. apply IH. cbn [length] in Hi. lia. }
    assert (NE : Pos.eqb EFF P = false).
    { apply Pos.eqb_neq. intro E. apply H2. rewrite <- E. left; reflexivity. }
    assert (Hdp : forall x, In x Fs -> ~ In x (flat_map defs (firstn i l))).
    { intros x Hx Hin. apply in_flat_map in Hin. destruct Hin as [st [Hst Hd]].
      apply (Hdefs st (Hsub1 st Hst) x Hx Hd). }
    destruct (all_args_in last_e (if existsb (is_assign_of EFF) l then [] else a_cov_possible a)) eqn:Eg;
      injection Hm as <-.
    - (* grouped: the last assignment is merged with the effect statement (the effect symbol is not assigned) *)
      destruct (existsb (is_assign_of EFF) l) eqn:Eas; [rewrite all_args_in_nil in Eg; discriminate|].
      assert (HElast' : ~ In EFF (free_syms last_e)) by (destruct HElast as [Hc|Hc]; [discriminate | exact Hc]).
      change (match l with [] => [] | a0 :: l0 => a0 :: firstn i l0 end) with (firstn (Datatypes.S i) l).
      change (match l with [] => [] | _ :: l0 => skipn i l0 end) with (skipn (Datatypes.S i) l).
      change (match S ++ l with [] => [] | _ :: l0 => skipn (i + length S) l0 end)
        with (skipn (Datatypes.S i + length S) (S ++ l)).
      rewrite firstn_prefix, skipn_prefix. rewrite <- app_assoc, exec_app. fold r1.
      rewrite Hfs, <- app_assoc. cbn [app].
      eapply agree_off_env_l.
      + replace (firstn i l ++ Assign EFF (applied_template T a)
                   :: Assign P (subs P last_e (subs_map [(s_p, Sym P); (s_effect, Sym EFF)] (t_effect_rhs T (a_op a))))
                   :: skipn (Datatypes.S i) l)
          with ((firstn i l ++ [Assign EFF (applied_template T a)])
                  ++ Assign P (subs P last_e (subs_map [(s_p, Sym P); (s_effect, Sym EFF)] (t_effect_rhs T (a_op a))))
                  :: skipn (Datatypes.S i) l) by (rewrite <- app_assoc; reflexivity).
        apply (exec_replace_equiv _ _ P _ (apply_op (a_op a) last_e (Sym EFF))).
        eapply expr_equiv_trans; [apply expr_equiv_subs, Hrhs|].
        destruct (a_op a); cbn [apply_op subs]; rewrite Pos.eqb_refl, NE; apply expr_equiv_refl.
      + rewrite <- app_assoc. cbn [app].
        assert (Hlr : reads_none (EFF :: Fs) (Assign P last_e)).
        { intros x [<-|Hx] Hin; [apply HElast'; exact Hin | apply (HreadsS _ HlastIn x Hx Hin)]. }
        exact (core_grouped fi Hp ode Hode Fs (firstn i l) (skipn (Datatypes.S i) l) P EFF (a_op a)
                 (applied_template T a) (doc_effect_closed a) last_e r1 r
                 Hr1 HPF Hpre Hpost Hlr Hdp H10 Ht).
    - (* not grouped: the effect statement follows the last assignment *)
      change (match l with [] => [] | a0 :: l0 => a0 :: firstn i l0 end) with (firstn (Datatypes.S i) l).
      change (match l with [] => [] | _ :: l0 => skipn i l0 end) with (skipn (Datatypes.S i) l).
      change (match S ++ l with [] => [] | _ :: l0 => skipn (i + length S) l0 end)
        with (skipn (Datatypes.S i + length S) (S ++ l)).
      change (match S ++ l with [] => [] | a0 :: l0 => a0 :: firstn (i + length S) l0 end)
        with (firstn (Datatypes.S i + length S) (S ++ l)).
      rewrite firstn_prefix, skipn_prefix. rewrite <- app_assoc, exec_app. fold r1.
      eapply agree_off_env_l.
      + cbn [app].
        replace (firstn (Datatypes.S i) l ++ Assign EFF (applied_template T a)
                   :: Assign P (subs_map [(s_p, Sym P); (s_effect, Sym EFF)] (t_effect_rhs T (a_op a))) :: skipn (Datatypes.S i) l)
          with ((firstn (Datatypes.S i) l ++ [Assign EFF (applied_template T a)])
                  ++ Assign P (subs_map [(s_p, Sym P); (s_effect, Sym EFF)] (t_effect_rhs T (a_op a)))
                  :: skipn (Datatypes.S i) l) by (rewrite <- app_assoc; reflexivity).
        apply (exec_replace_equiv _ _ P _ (apply_op (a_op a) (Sym P) (Sym EFF))). exact Hrhs.
      + rewrite <- app_assoc. cbn [app].
        assert (Hpre' : Forall (reads_none Fs) (firstn (Datatypes.S i) l)).
        { rewrite Hfs. apply Forall_app. split; [exact Hpre|]. constructor; [apply HreadsS, HlastIn | constructor]. }
        assert (Hdp' : forall x, In x Fs -> ~ In x (flat_map defs (firstn (Datatypes.S i) l))).
        { intros x Hx Hin. rewrite Hfs, flat_map_app in Hin. apply in_app_or in Hin. destruct Hin as [Hin|Hin].
          - apply (Hdp x Hx Hin).
          - cbn in Hin. destruct Hin as [E|[]]. subst x. apply H2, HnamesF, Hx. }
        exact (core_ungrouped fi Hp ode Hode Fs (firstn (Datatypes.S i) l) (skipn (Datatypes.S i) l) P EFF (a_op a)
                 (applied_template T a) (doc_effect_closed a) r1 r Hr1 HPF Hpre' Hpost Hdp' Ht).
  Qed.
End Surgery.

(* ---- executable guard ------------------------------------------------------------------------------- *)
Lemma nodupb_NoDup l : nodupb l = true -> NoDup l.
Proof.
  induction l as [|x tl IH]; intros H; [constructor|]. cbn [nodupb] in H. apply andb_true_iff in H as [H1 H2].
  constructor; [|apply IH, H2]. intro Hin. apply memp_In in Hin. rewrite Hin in H1. discriminate.
Qed.
Lemma negb_memp x l : negb (memp x l) = true -> ~ In x l.
Proof. intros H Hin. apply memp_In in Hin. rewrite Hin in H. discriminate. Qed.

Theorem add_covariate_effect_sound_guarded fi ode T a l lm ls r :
  fi_proper fi -> ode_proper ode -> templates_equiv T doc_templates ->
  g_surgery T a l = true ->
  add_covariate_effect T a l = Some lm ->
  spec_covariate_effect a l = Some ls ->
  forall x, ~ In x (fresh_names a) -> oq_equiv (exec fi ode r lm x) (exec fi ode r ls x).
Proof.
  intros Hp Hode HT G Hm Hs.
  unfold g_surgery in G.
  apply andb_true_iff in G as [G K13]. apply andb_true_iff in G as [G K12]. apply andb_true_iff in G as [G K11].
  apply andb_true_iff in G as [G K10]. apply andb_true_iff in G as [G K9]. apply andb_true_iff in G as [G K8].
  apply andb_true_iff in G as [G K7]. apply andb_true_iff in G as [G K6]. apply andb_true_iff in G as [G K5].
  apply andb_true_iff in G as [G K4]. apply andb_true_iff in G as [G K3]. apply andb_true_iff in G as [G K2].
  rewrite forallb_forall in G, K6, K9, K10, K11, K12.
  apply (add_covariate_effect_sound_lemma fi Hp ode Hode T a l lm ls r HT).
  - intros x Hx. specialize (G x Hx). apply andb_true_iff in G as [A B]. split; apply negb_memp; assumption.
  - apply negb_memp; assumption.
  - intros i Hi. rewrite Hi in K3. apply andb_true_iff in K3 as [A B]. split; [apply negb_memp; exact A|].
    apply orb_true_iff in B as [B|B]; [left; exact B | right; apply negb_memp; exact B].
  - apply negb_memp; assumption.
  - apply nodupb_NoDup; assumption.
  - intros nm Hn. apply negb_memp, K6, Hn.
  - apply negb_memp; assumption.
  - apply negb_memp; assumption.
  - intros p Hin. specialize (K9 p Hin).
    apply andb_true_iff in K9 as [K9 C]. apply andb_true_iff in K9 as [A B].
    repeat split; try (apply negb_memp; assumption).
    apply Pos.eqb_neq. apply negb_true_iff in C. exact C.
  - intros y Hy. apply negb_memp, K10, Hy.
  - intros x Hx. apply negb_memp, K11, Hx.
  - intros [[ts nm] v] Hst Hin. specialize (K12 _ Hst). cbv beta zeta in K12. cbn [fst snd] in *.
    apply memp_In in Hin. rewrite Hin in K12. exact K12.
  - apply negb_memp; assumption.
  - exact Hm.
  - exact Hs.
Qed.

(* ---- add_iiv: the hand model instantiated with an equivalent template record implements the SPEC ------ *)
Lemma add_iiv_sound_lemma fi ode T k o p eta phi l lm ls r :
  fi_proper fi -> ode_proper ode -> templates_equiv T doc_templates ->
  k <> IReLogit ->
  add_iiv T k o p eta phi l = Some lm -> spec_iiv k o p eta l = Some ls ->
  env_equiv (exec fi ode r lm) (exec fi ode r ls).
Proof.
  intros Hp Hode HT Hk Hm Hs. unfold add_iiv in Hm. unfold spec_iiv in Hs.
  destruct (find_assignment_index l p) as [i|]; [|discriminate].
  destruct (nths l i) as [s e|]; [|discriminate].
  assert (Em : lm = firstn i l ++ Assign p (subs_map [(s_original, e); (s_eta_new, Sym eta)] (t_iiv T k o)) :: skipn (S i) l)
    by (destruct k; try contradiction; injection Hm as <-; reflexivity).
  assert (Es : ls = firstn i l ++ Assign p (subs_map [(s_original, e); (s_eta_new, Sym eta)] (doc_iiv k o)) :: skipn (S i) l)
    by (destruct k; try contradiction; injection Hs as <-; reflexivity).
  subst lm ls. apply exec_replace_equiv; auto.
  apply expr_equiv_subs_map. apply (te_iiv _ _ HT).
Qed.
