(* PV.C09.Properties — the property theorems of C09 over the SPEC (documented formulas) and over every
   template record that is semantically equal to it.  The regenerated obligations
   (harness/props/c09_obligations.v, compiled at check time against build/gen/C09/Templates.v) prove
   [templates_equiv gen_templates doc_templates] and instantiate these theorems with the templates
   the code builds now.

   Conventions: [eval r fi e : option Q] — value of e in environment r under the interpretation fi of
   exp/log/pow; [oq_equiv] — both undefined or both defined with Qeq values; [fi_proper fi] — fi respects
   Qeq; [exp_zero_one fi] — exp 0 = 1; [pow_base_one fi] — 1 ^ y = 1 for every y. *)
From Coq Require Import Reals QArith List Bool PArith Arith.
From PV Require Import Base.PyData Base.Expr Base.Interp Base.Stmts C09.Model C09.Proofs C09.ProofsExec C09.ProofsSurgery C09.ProofsR.
Local Open Scope Q_scope.

(* effect_neutral — every documented covariate-effect function (linear, piecewise linear, exponential,
   power) evaluates to 1, the neutral element of the default operation '*', when the covariate equals
   the centring statistic: for every interpretation with exp 0 = 1 and 1^y = 1, every environment,
   every value of the thetas, every reference value m (m <> 0 for the power effect). *)
Theorem effect_neutral :
  forall (T : templates) (fi : finterp) (r : env) (k : ekind) (m : Q),
    templates_equiv T doc_templates ->
    fi_proper fi -> exp_zero_one fi -> pow_base_one fi ->
    r s_cov = Some m -> r s_median = Some m -> ref_ok k m -> thetas_defined k r ->
    oq_equiv (eval r fi (t_effect T k)) (Some (neutral OpMul)).
Proof. intros; eapply effect_neutral_of_equiv; eauto. reflexivity. Qed.

(* the same for the documented formulas themselves *)
Theorem doc_effect_neutral :
  forall (fi : finterp) (r : env) (k : ekind) (m : Q),
    fi_proper fi -> exp_zero_one fi -> pow_base_one fi ->
    r s_cov = Some m -> r s_median = Some m -> ref_ok k m -> thetas_defined k r ->
    oq_equiv (eval r fi (doc_effect k)) (Some 1).
Proof.
  intros. apply (effect_neutral doc_templates fi r k m); auto. apply doc_templates_equiv_refl.
Qed.

(* categorical_neutral — for every table of categories, the categorical effect (both variants) is 1 at
   the most common level. *)
Theorem categorical_neutral :
  forall (fi : finterp) (r : env) (cats : list (option Q)) (mc : Q) (alt : bool) (m : Q),
    fi_proper fi -> r s_cov = Some m -> m == mc ->
    oq_equiv (eval r fi (categorical doc_templates cats mc alt)) (Some 1).
Proof.
  intros fi r cats mc alt m Hp Hc Hm. eapply oq_trans; [apply eval_sem_e; exact Hp|].
  eapply categorical_neutral_sem; eauto.
Qed.

(* iiv_neutral — the additive, proportional and multiplicative-exponential eta forms give back the
   original parameter value at eta = 0. *)
Theorem iiv_neutral :
  forall (T : templates) (fi : finterp) (r : env) (k : ikind) (o : binop) (p z : Q),
    templates_equiv T doc_templates -> fi_proper fi -> exp_zero_one fi ->
    iiv_neutral_kind k o = true ->
    r s_original = Some p -> r s_eta_new = Some z -> z == 0 ->
    oq_equiv (eval r fi (t_iiv T k o)) (Some p).
Proof. exact iiv_neutral_of_equiv. Qed.

(* iiv_values_at_zero — the exact value of EVERY eta form at eta = 0 (the three non-neutral forms
   included: P + 1, P / 2 and 1/2). *)
Theorem iiv_values_at_zero :
  forall (T : templates) (fi : finterp) (r : env) (k : ikind) (o : binop) (p : Q),
    templates_equiv T doc_templates -> fi_proper fi -> exp_zero_one fi ->
    r s_original = Some p -> r s_eta_new = Some 0 ->
    oq_equiv (eval r fi (t_iiv T k o))
             (match k, o with
              | IExp, OpAdd => Some (p + 1)
              | ILogit, _ => Some (p / 2)
              | IReLogit, _ => Some (1 # 2)
              | _, _ => Some p end).
Proof. exact iiv_not_neutral_of_equiv. Qed.

(* error_model_shape — each error-model constructor is affine in its epsilon(s): for EVERY value v of
   the epsilon, Y = prediction + v * coefficient, with the documented prediction and coefficient
   (additive: f, 1; proportional: f, f (IPREDADJ with zero protection); log-proportional: log f, 1;
   combined: f, f, 1; log-combined: log f, 1, 1/f; IIV on RUV: f, f exp(eta), exp(eta)). *)
Theorem error_model_shape :
  forall T : templates, templates_equiv T doc_templates ->
    shape1 (t_add_error T) s_eps_a (Sym s_f) one /\
    (forall zp, shape1 (t_prop_error T DTId zp) s_eps_p (Sym s_x) (if zp then Sym s_ipredadj else Sym s_x)) /\
    (forall zp, shape1 (t_prop_error T DTLog zp) s_eps_p (Fn1 F_LOG (if zp then Sym s_ipredadj else Sym s_x)) one) /\
    shape2 (t_comb_error T CombPlain) s_eps_p s_eps_a (Sym s_x) (Sym s_x) one /\
    shape2 (t_comb_error T CombLog) s_eps_p s_eps_a (Fn1 F_LOG (Sym s_x)) one (Div one (Sym s_x)) /\
    shape2 (t_comb_error T CombIivRuv) s_eps_p s_eps_a (Sym s_x)
           (Mul (Sym s_x) (Fn1 F_EXP (Sym s_eta_ruv))) (Fn1 F_EXP (Sym s_eta_ruv)).
Proof.
  intros T HT. repeat split.
  - eapply shape1_equiv; [apply (te_add_error _ _ HT) | apply doc_add_shape].
  - intros zp. eapply shape1_equiv; [apply (te_prop_error _ _ HT) | apply doc_prop_shape_id].
  - intros zp. eapply shape1_equiv; [apply (te_prop_error _ _ HT) | apply doc_prop_shape_log].
  - eapply shape2_equiv; [apply (te_comb_error _ _ HT) | apply doc_comb_shape_plain].
  - eapply shape2_equiv; [apply (te_comb_error _ _ HT) | apply doc_comb_shape_log].
  - eapply shape2_equiv; [apply (te_comb_error _ _ HT) | apply doc_comb_shape_iivruv].
Qed.

(* zero_protection_identity — IPREDADJ is the prediction wherever the prediction is not 0 *)
Theorem zero_protection_identity :
  forall (T : templates) (fi : finterp) (r : env) (f : Q),
    templates_equiv T doc_templates -> fi_proper fi -> r s_f = Some f -> ~ f == 0 ->
    oq_equiv (eval r fi (t_prop_guard T)) (Some f).
Proof.
  intros T fi r f HT Hp Hf Hnz. eapply oq_trans; [apply (te_prop_guard _ _ HT r fi Hp)|].
  eapply oq_trans; [apply eval_sem_e; exact Hp|]. apply doc_guard_identity; assumption.
Qed.

(* transit_mdt, mat_fo, mat_zo — the arithmetic facts over Q ... *)
Theorem transit_mdt : forall n mdt : Q, 0 < n -> ~ mdt == 0 -> n * (1 / (n / mdt)) == mdt.
Proof. exact transit_mdt_q. Qed.
Theorem mat_fo : forall mat : Q, ~ mat == 0 -> 1 / (1 / mat) == mat.
Proof. exact mat_fo_q. Qed.
Theorem mat_zo : forall mat : Q, (2 * mat) / 2 == mat.
Proof. exact mat_zo_q. Qed.

(* ... and the same about the rate / duration expressions of a template record: n compartments in
   series, each with mean residence time 1 / rate, have total mean transit time MDT; the mean
   absorption time of a first-order process with rate KA is 1 / KA = MAT; of a zero-order input of
   duration D it is D / 2 = MAT. *)
Theorem transit_mean_transit_time :
  forall (T : templates) (fi : finterp) (r : env) (n mdt : Q),
    templates_equiv T doc_templates -> fi_proper fi ->
    r s_n = Some n -> r s_mdt = Some mdt -> 0 < n -> ~ mdt == 0 ->
    oq_equiv (eval r fi (Mul (Sym s_n) (Div one (t_transit_rate T)))) (Some mdt) /\
    oq_equiv (eval r fi (Mul (Sym s_n) (Div one (t_transit_rate_update T)))) (Some mdt).
Proof. exact transit_mean_time. Qed.

Theorem first_order_mean_absorption_time :
  forall (T : templates) (fi : finterp) (r : env) (mat : Q),
    templates_equiv T doc_templates -> fi_proper fi -> r s_mat = Some mat -> ~ mat == 0 ->
    oq_equiv (eval r fi (Div one (t_fo_rate T))) (Some mat).
Proof. exact fo_mean_time. Qed.

Theorem zero_order_mean_absorption_time :
  forall (T : templates) (fi : finterp) (r : env) (mat : Q),
    templates_equiv T doc_templates -> fi_proper fi -> r s_mat = Some mat ->
    oq_equiv (eval r fi (Div (t_zo_duration T) (Num 2))) (Some mat).
Proof. exact zo_mean_time. Qed.

(* ---- program level ------------------------------------------------------------------------------- *)
(* covariate_effect_program_neutral — for EVERY statement list l (assignments, piecewise, compartmental
   system with an arbitrary Qeq-respecting solver oracle), every parameter P assigned in it, every
   continuous effect kind: the documented transformation "after the last assignment of P insert
   P = P * documented_effect(cov; thetas, median)" leaves the value of EVERY symbol after executing the
   whole list unchanged when the covariate has the reference value (covariate and thetas are inputs of the
   program, i.e. never assigned by it).  [g_cov_args] is the executable shape guard on the arguments
   (theta placeholders of the kind, the three statistics mean/median/std, model symbols are not placeholders). *)
Theorem covariate_effect_program_neutral :
  forall (fi : finterp) (ode : id -> list (option Q) -> option Q) (a : cov_args) (k : ekind)
         (l l' : list stmt) (r : env) (m : Q),
    fi_proper fi -> exp_zero_one fi -> pow_base_one fi -> ode_proper ode ->
    g_cov_args a k = true -> a_op a = OpMul ->
    spec_covariate_effect a l = Some l' ->
    ~ In (a_cov a) (flat_map defs l) -> (forall p, In p (a_thetas a) -> ~ In (snd p) (flat_map defs l)) ->
    r (a_cov a) = Some m -> m == median_of (a_stats a) -> ref_ok k m ->
    (forall p, In p (a_thetas a) -> exists t, r (snd p) = Some t) ->
    env_equiv (exec fi ode r l') (exec fi ode r l).
Proof. intros; eapply spec_cov_effect_neutral; eauto. Qed.

(* iiv_program_neutral — for EVERY statement list and parameter: replacing the parameter's last assignment
   P = e by P = documented_form(e, eta) (additive, proportional, exponential with '*') leaves the value of
   EVERY symbol unchanged at eta = 0 (eta is an input of the program). *)
Theorem iiv_program_neutral :
  forall (fi : finterp) (ode : id -> list (option Q) -> option Q) (k : ikind) (o : binop) (p eta : id)
         (l l' : list stmt) (r : env) (z : Q),
    fi_proper fi -> exp_zero_one fi -> ode_proper ode ->
    iiv_neutral_kind k o = true -> not_placeholder eta = true ->
    spec_iiv k o p eta l = Some l' ->
    ~ In eta (flat_map defs l) -> r eta = Some z -> z == 0 ->
    env_equiv (exec fi ode r l') (exec fi ode r l).
Proof. intros; eapply spec_iiv_neutral; eauto. Qed.

(* exec_respects_equivalence — sequential execution maps Qeq-equivalent environments to Qeq-equivalent
   environments (what makes "the model function is unchanged" a statement about every later statement). *)
Theorem exec_respects_equivalence :
  forall (fi : finterp) (ode : id -> list (option Q) -> option Q) (l : list stmt) (r r' : env),
    fi_proper fi -> ode_proper ode -> env_equiv r r' -> env_equiv (exec fi ode r l) (exec fi ode r' l).
Proof. intros; apply exec_proper; assumption. Qed.

(* add_covariate_effect_sound — the statement surgery of add_covariate_effect, as modelled statement by
   statement ([add_covariate_effect T a l]: CovariateEffect.apply with the template substitutions, the hoisted
   statistic statements, create_effect_statement, insertion after the last assignment of the parameter and
   the grouping heuristic), computes P_after = P_before op documented_effect(cov): for EVERY program l, every
   template record T semantically equal to the documented one, every effect kind (categorical included),
   operation, interpretation, ODE oracle and initial environment, every symbol other than the freshly
   introduced ones (effect symbol, statistic symbols) has the same value after executing the model's statement
   list as after executing the SPEC "insert P = P op documented_effect(cov; thetas, statistic values) after the
   last assignment of P".  [g_surgery] is the executable freshness guard (Model.v). *)
Theorem add_covariate_effect_sound :
  forall (fi : finterp) (ode : id -> list (option Q) -> option Q) (T : templates) (a : cov_args)
         (l lm ls : list stmt) (r : env),
    fi_proper fi -> ode_proper ode -> templates_equiv T doc_templates ->
    g_surgery T a l = true ->
    add_covariate_effect T a l = Some lm ->
    spec_covariate_effect a l = Some ls ->
    forall x, ~ In x (fresh_names a) -> oq_equiv (exec fi ode r lm x) (exec fi ode r ls x).
Proof. intros; eapply add_covariate_effect_sound_guarded; eauto. Qed.

(* add_iiv_sound — the hand model of add_iiv (replace the last assignment P = e by P = template[original := e,
   eta_new := ETA]), instantiated with any template record equal to the documented one, yields for every
   program the same values of ALL symbols as the SPEC P = documented_form(e, eta)  (all forms except the
   rescaled logit, whose helper statement phi is compared by the oracle only). *)
Theorem add_iiv_sound :
  forall (fi : finterp) (ode : id -> list (option Q) -> option Q) (T : templates) (k : ikind) (o : binop)
         (p eta phi : id) (l lm ls : list stmt) (r : env),
    fi_proper fi -> ode_proper ode -> templates_equiv T doc_templates -> k <> IReLogit ->
    add_iiv T k o p eta phi l = Some lm -> spec_iiv k o p eta l = Some ls ->
    env_equiv (exec fi ode r lm) (exec fi ode r ls).
Proof. intros; eapply add_iiv_sound_lemma; eauto. Qed.

(* ---- over the real numbers (Coq.Reals: exp, ln, Rpower) -------------------------------------------- *)
(* effect_neutral_real / iiv_neutral_real — the same neutrality statements with the REAL exponential, logarithm
   and power: the hypotheses "exp 0 = 1, 1^y = 1" of the theorems above are facts of the intended
   interpretation.  [evalR] evaluates an expression over R (division by 0, log / power of a non-positive
   number undefined).  These two theorems (only) depend on the axioms of Coq.Reals. *)
Theorem effect_neutral_real :
  forall (r : envR) (k : ekind) (m : R),
    r s_cov = Some m -> r s_median = Some m -> ref_okR k m -> thetas_definedR k r ->
    evalR r (doc_effect k) = Some 1%R.
Proof. exact doc_effect_neutral_R. Qed.

Theorem iiv_neutral_real :
  forall (r : envR) (k : ikind) (o : binop) (p : R),
    iiv_neutral_kind k o = true ->
    r s_original = Some p -> r s_eta_new = Some 0%R ->
    evalR r (doc_iiv k o) = Some p.
Proof.
  intros r k o p Hk. apply doc_iiv_neutral_R. destruct k, o; cbn in Hk; try discriminate; exact I.
Qed.

(* remove_iiv_product_rule — for every product of factors (the args of the expanded expression), what
   remove_iiv leaves is, in every environment, the product of the factors that do not mention the eta:
   the extension is removed exactly when those are the factors of the expression the eta was added to. *)
Theorem remove_iiv_product_rule :
  forall (fi : finterp) (r : env) (eta : id) (args : list expr) (whole : expr),
    fi_proper fi ->
    oq_equiv (eval r fi (remove_iiv_expr eta TopMul args whole))
             (eval r fi (product_of (filter (fun f => negb (mentions eta f)) args))).
Proof. intros; apply remove_iiv_product; assumption. Qed.
