(* PV.C09.Properties — the property theorems of C09 over the SPEC (documented formulas) and over every
   template record that is semantically equal to it.  The regenerated obligations
   (harness/props/c09_obligations.v, compiled at check time against build/gen/C09/Templates.v) prove
   [templates_equiv gen_templates doc_templates] and instantiate these theorems with the templates
   the code builds now.

   Conventions: [eval r fi e : option Q] — value of e in environment r under the interpretation fi of
   exp/log/pow; [oq_equiv] — both undefined or both defined with Qeq values; [fi_proper fi] — fi respects
   Qeq; [exp_zero_one fi] — exp 0 = 1; [pow_base_one fi] — 1 ^ y = 1 for every y. *)
From Coq Require Import Reals QArith List Bool PArith Arith.
From PV Require Import Base.PyData Base.Expr Base.Interp Base.Stmts C09.Model C09.Proofs C09.ProofsExec C09.ProofsSurgery C09.ProofsExt C09.ProofsExt2 C09.ProofsExt3 C09.ProofsR.
Import ListNotations.
Local Open Scope Q_scope.

(* effect_neutral — every documented covariate-effect function (linear, piecewise linear, exponential,
   power) evaluates to 1, the neutral element of the default operation '*', when the covariate equals
   the centring statistic: for every interpretation with exp 0 = 1 and 1^y = 1, every environment,
   every value of the thetas, every reference value m (m <> 0 for the power effect). *)
Theorem effect_neutral :
  forall (T : templates) (fi : finterp) (r : env) (k : ekind) (m : Q),
    templates_equiv T doc_templates ->
    fi_proper fi -> exp_zero_one fi -> pow_base_one fi ->
    r s_cov = Some m -> r s_median = Some m -> ref_ok k m -> thetas_defined k r ->
    oq_equiv (eval r fi (t_effect T k)) (Some (neutral OpMul)).
Proof. intros; eapply effect_neutral_of_equiv; eauto. reflexivity. Qed.

(* the same for the documented formulas themselves *)
Theorem doc_effect_neutral :
  forall (fi : finterp) (r : env) (k : ekind) (m : Q),
    fi_proper fi -> exp_zero_one fi -> pow_base_one fi ->
    r s_cov = Some m -> r s_median = Some m -> ref_ok k m -> thetas_defined k r ->
    oq_equiv (eval r fi (doc_effect k)) (Some 1).
Proof.
  intros. apply (effect_neutral doc_templates fi r k m); auto. apply doc_templates_equiv_refl.
Qed.

(* categorical_neutral — for every table of categories, the categorical effect (both variants) is 1 at
   the most common level. *)
Theorem categorical_neutral :
  forall (fi : finterp) (r : env) (cats : list (option Q)) (mc : Q) (alt : bool) (m : Q),
    fi_proper fi -> r s_cov = Some m -> m == mc ->
    oq_equiv (eval r fi (categorical doc_templates cats mc alt)) (Some 1).
Proof.
  intros fi r cats mc alt m Hp Hc Hm. eapply oq_trans; [apply eval_sem_e; exact Hp|].
  eapply categorical_neutral_sem; eauto.
Qed.

(* iiv_neutral — the additive, proportional and multiplicative-exponential eta forms give back the
   original parameter value at eta = 0. *)
Theorem iiv_neutral :
  forall (T : templates) (fi : finterp) (r : env) (k : ikind) (o : binop) (p z : Q),
    templates_equiv T doc_templates -> fi_proper fi -> exp_zero_one fi ->
    iiv_neutral_kind k o = true ->
    r s_original = Some p -> r s_eta_new = Some z -> z == 0 ->
    oq_equiv (eval r fi (t_iiv T k o)) (Some p).
Proof. exact iiv_neutral_of_equiv. Qed.

(* iiv_values_at_zero — the exact value of EVERY eta form at eta = 0 (the three non-neutral forms
   included: P + 1, P / 2 and 1/2). *)
Theorem iiv_values_at_zero :
  forall (T : templates) (fi : finterp) (r : env) (k : ikind) (o : binop) (p : Q),
    templates_equiv T doc_templates -> fi_proper fi -> exp_zero_one fi ->
    r s_original = Some p -> r s_eta_new = Some 0 ->
    oq_equiv (eval r fi (t_iiv T k o))
             (match k, o with
              | IExp, OpAdd => Some (p + 1)
              | ILogit, _ => Some (p / 2)
              | IReLogit, _ => Some (1 # 2)
              | _, _ => Some p end).
Proof. exact iiv_not_neutral_of_equiv. Qed.

(* error_model_shape — each error-model constructor is affine in its epsilon(s): for EVERY value v of
   the epsilon, Y = prediction + v * coefficient, with the documented prediction and coefficient
   (additive: f, 1; proportional: f, f (IPREDADJ with zero protection); log-proportional: log f, 1;
   combined: f, f, 1; log-combined: log f, 1, 1/f; IIV on RUV: f, f exp(eta), exp(eta)). *)
Theorem error_model_shape :
  forall T : templates, templates_equiv T doc_templates ->
    shape1 (t_add_error T) s_eps_a (Sym s_f) one /\
    (forall zp, shape1 (t_prop_error T DTId zp) s_eps_p (Sym s_x) (if zp then Sym s_ipredadj else Sym s_x)) /\
    (forall zp, shape1 (t_prop_error T DTLog zp) s_eps_p (Fn1 F_LOG (if zp then Sym s_ipredadj else Sym s_x)) one) /\
    shape2 (t_comb_error T CombPlain) s_eps_p s_eps_a (Sym s_x) (Sym s_x) one /\
    shape2 (t_comb_error T CombLog) s_eps_p s_eps_a (Fn1 F_LOG (Sym s_x)) one (Div one (Sym s_x)) /\
    shape2 (t_comb_error T CombIivRuv) s_eps_p s_eps_a (Sym s_x)
           (Mul (Sym s_x) (Fn1 F_EXP (Sym s_eta_ruv))) (Fn1 F_EXP (Sym s_eta_ruv)).
Proof.
  intros T HT. repeat split.
  - eapply shape1_equiv; [apply (te_add_error _ _ HT) | apply doc_add_shape].
  - intros zp. eapply shape1_equiv; [apply (te_prop_error _ _ HT) | apply doc_prop_shape_id].
  - intros zp. eapply shape1_equiv; [apply (te_prop_error _ _ HT) | apply doc_prop_shape_log].
  - eapply shape2_equiv; [apply (te_comb_error _ _ HT) | apply doc_comb_shape_plain].
  - eapply shape2_equiv; [apply (te_comb_error _ _ HT) | apply doc_comb_shape_log].
  - eapply shape2_equiv; [apply (te_comb_error _ _ HT) | apply doc_comb_shape_iivruv].
Qed.

(* zero_protection_identity — IPREDADJ is the prediction wherever the prediction is not 0 *)
Theorem zero_protection_identity :
  forall (T : templates) (fi : finterp) (r : env) (f : Q),
    templates_equiv T doc_templates -> fi_proper fi -> r s_f = Some f -> ~ f == 0 ->
    oq_equiv (eval r fi (t_prop_guard T)) (Some f).
Proof.
  intros T fi r f HT Hp Hf Hnz. eapply oq_trans; [apply (te_prop_guard _ _ HT r fi Hp)|].
  eapply oq_trans; [apply eval_sem_e; exact Hp|]. apply doc_guard_identity; assumption.
Qed.

(* transit_mdt, mat_fo, mat_zo — the arithmetic facts over Q ... *)
Theorem transit_mdt : forall n mdt : Q, 0 < n -> ~ mdt == 0 -> n * (1 / (n / mdt)) == mdt.
Proof. exact transit_mdt_q. Qed.
Theorem mat_fo : forall mat : Q, ~ mat == 0 -> 1 / (1 / mat) == mat.
Proof. exact mat_fo_q. Qed.
Theorem mat_zo : forall mat : Q, (2 * mat) / 2 == mat.
Proof. exact mat_zo_q. Qed.

(* ... and the same about the rate / duration expressions of a template record: n compartments in
   series, each with mean residence time 1 / rate, have total mean transit time MDT; the mean
   absorption time of a first-order process with rate KA is 1 / KA = MAT; of a zero-order input of
   duration D it is D / 2 = MAT. *)
Theorem transit_mean_transit_time :
  forall (T : templates) (fi : finterp) (r : env) (n mdt : Q),
    templates_equiv T doc_templates -> fi_proper fi ->
    r s_n = Some n -> r s_mdt = Some mdt -> 0 < n -> ~ mdt == 0 ->
    oq_equiv (eval r fi (Mul (Sym s_n) (Div one (t_transit_rate T)))) (Some mdt) /\
    oq_equiv (eval r fi (Mul (Sym s_n) (Div one (t_transit_rate_update T)))) (Some mdt).
Proof. exact transit_mean_time. Qed.

Theorem first_order_mean_absorption_time :
  forall (T : templates) (fi : finterp) (r : env) (mat : Q),
    templates_equiv T doc_templates -> fi_proper fi -> r s_mat = Some mat -> ~ mat == 0 ->
    oq_equiv (eval r fi (Div one (t_fo_rate T))) (Some mat).
Proof. exact fo_mean_time. Qed.

Theorem zero_order_mean_absorption_time :
  forall (T : templates) (fi : finterp) (r : env) (mat : Q),
    templates_equiv T doc_templates -> fi_proper fi -> r s_mat = Some mat ->
    oq_equiv (eval r fi (Div (t_zo_duration T) (Num 2))) (Some mat).
Proof. exact zo_mean_time. Qed.

(* ---- program level ------------------------------------------------------------------------------- *)
(* covariate_effect_program_neutral — for EVERY statement list l (assignments, piecewise, compartmental
   system with an arbitrary Qeq-respecting solver oracle), every parameter P assigned in it, every
   continuous effect kind: the documented transformation "after the last assignment of P insert
   P = P * documented_effect(cov; thetas, median)" leaves the value of EVERY symbol after executing the
   whole list unchanged when the covariate has the reference value (covariate and thetas are inputs of the
   program, i.e. never assigned by it).  [g_cov_args] is the executable shape guard on the arguments
   (theta placeholders of the kind, the three statistics mean/median/std, model symbols are not placeholders). *)
Theorem covariate_effect_program_neutral :
  forall (fi : finterp) (ode : id -> list (option Q) -> option Q) (a : cov_args) (k : ekind)
         (l l' : list stmt) (r : env) (m : Q),
    fi_proper fi -> exp_zero_one fi -> pow_base_one fi -> ode_proper ode ->
    g_cov_args a k = true -> a_op a = OpMul ->
    spec_covariate_effect a l = Some l' ->
    ~ In (a_cov a) (flat_map defs l) -> (forall p, In p (a_thetas a) -> ~ In (snd p) (flat_map defs l)) ->
    r (a_cov a) = Some m -> m == median_of (a_stats a) -> ref_ok k m ->
    (forall p, In p (a_thetas a) -> exists t, r (snd p) = Some t) ->
    env_equiv (exec fi ode r l') (exec fi ode r l).
Proof. intros; eapply spec_cov_effect_neutral; eauto. Qed.

(* iiv_program_neutral — for EVERY statement list and parameter: replacing the parameter's last assignment
   P = e by P = documented_form(e, eta) (additive, proportional, exponential with '*') leaves the value of
   EVERY symbol unchanged at eta = 0 (eta is an input of the program). *)
Theorem iiv_program_neutral :
  forall (fi : finterp) (ode : id -> list (option Q) -> option Q) (k : ikind) (o : binop) (p eta : id)
         (l l' : list stmt) (r : env) (z : Q),
    fi_proper fi -> exp_zero_one fi -> ode_proper ode ->
    iiv_neutral_kind k o = true -> not_placeholder eta = true ->
    spec_iiv k o p eta l = Some l' ->
    ~ In eta (flat_map defs l) -> r eta = Some z -> z == 0 ->
    env_equiv (exec fi ode r l') (exec fi ode r l).
Proof. intros; eapply spec_iiv_neutral; eauto. Qed.

(* exec_respects_equivalence — sequential execution maps Qeq-equivalent environments to Qeq-equivalent
   environments (what makes "the model function is unchanged" a statement about every later statement). *)
Theorem exec_respects_equivalence :
  forall (fi : finterp) (ode : id -> list (option Q) -> option Q) (l : list stmt) (r r' : env),
    fi_proper fi -> ode_proper ode -> env_equiv r r' -> env_equiv (exec fi ode r l) (exec fi ode r' l).
Proof. intros; apply exec_proper; assumption. Qed.

(* add_covariate_effect_sound — the statement surgery of add_covariate_effect, as modelled statement by
   statement ([add_covariate_effect T a l]: CovariateEffect.apply with the template substitutions, the hoisted
   statistic statements, create_effect_statement, insertion after the last assignment of the parameter and
   the grouping heuristic), computes P_after = P_before op documented_effect(cov): for EVERY program l, every
   template record T semantically equal to the documented one, every effect kind (categorical included),
   operation, interpretation, ODE oracle and initial environment, every symbol other than the freshly
   introduced ones (effect symbol, statistic symbols) has the same value after executing the model's statement
   list as after executing the SPEC "insert P = P op documented_effect(cov; thetas, statistic values) after the
   last assignment of P".  [g_surgery] is the executable freshness guard (Model.v). *)
Theorem add_covariate_effect_sound :
  forall (fi : finterp) (ode : id -> list (option Q) -> option Q) (T : templates) (a : cov_args)
         (l lm ls : list stmt) (r : env),
    fi_proper fi -> ode_proper ode -> templates_equiv T doc_templates ->
    g_surgery T a l = true ->
    add_covariate_effect T a l = Some lm ->
    spec_covariate_effect a l = Some ls ->
    forall x, ~ In x (fresh_names a) -> oq_equiv (exec fi ode r lm x) (exec fi ode r ls x).
Proof. intros; eapply add_covariate_effect_sound_guarded; eauto. Qed.

(* add_iiv_sound — the hand model of add_iiv (replace the last assignment P = e by P = template[original := e,
   eta_new := ETA]), instantiated with any template record equal to the documented one, yields for every
   program the same values of ALL symbols as the SPEC P = documented_form(e, eta)  (all forms except the
   rescaled logit, whose helper statement phi is compared by the oracle only). *)
Theorem add_iiv_sound :
  forall (fi : finterp) (ode : id -> list (option Q) -> option Q) (T : templates) (k : ikind) (o : binop)
         (p eta phi : id) (l lm ls : list stmt) (r : env),
    fi_proper fi -> ode_proper ode -> templates_equiv T doc_templates -> k <> IReLogit ->
    add_iiv T k o p eta phi l = Some lm -> spec_iiv k o p eta l = Some ls ->
    env_equiv (exec fi ode r lm) (exec fi ode r ls).
Proof. intros; eapply add_iiv_sound_lemma; eauto. Qed.

(* ---- IOV ------------------------------------------------------------------------------------------------ *)
(* add_iov_sound — for EVERY program l, occasion column, list of requested etas with their IOV / ETAI symbols and
   per-level IOV etas: executing the hand model of add_iov (IOV_i = 0; IOV_i = Piecewise over the levels;
   ETAI_i = ETA_i + IOV_i; every statement: ETA_i := ETAI_i) in an environment r gives every symbol (other than the
   declared names and the requested etas themselves) the value the ORIGINAL program gives it in the environment where
   each requested eta is replaced by eta + (the IOV eta of the row's occasion level) — at every value of the etas. *)
Theorem add_iov_sound :
  forall (fi : finterp) (ode : id -> list (option Q) -> option Q) (occ : id) (items : list iov_item)
         (l : list stmt) (r : env),
    fi_proper fi -> ode_proper ode ->
    NoDup (item_fresh items) -> inputs_ok occ items (item_fresh items) ->
    (forall it, In it items -> ~ In (ie_eta it) (item_fresh items) /\ ~ In (ie_eta it) (flat_map defs l) /\
                               ~ In (ie_eta it) (ode_rhs l)) ->
    (forall x, In x (item_fresh items) -> ~ In x (flat_map defs l) /\ ~ In x (flat_map rhs l)) ->
    forall x, ~ In x (item_fresh items) -> ~ In x (item_etas items) ->
      oq_equiv (exec fi ode r (add_iov occ items l) x) (exec fi ode (shift occ items r r) l x).
Proof. intros; apply add_iov_sound_lemma; assumption. Qed.

(* remove_add_iov — remove_iov (every IOV eta := 0 in every statement) after add_iov gives back the values of the
   original program, for every program and every value of the etas, on rows whose occasion is one of the levels. *)
Theorem remove_add_iov :
  forall (fi : finterp) (ode : id -> list (option Q) -> option Q) (occ : id) (items : list iov_item)
         (l : list stmt) (r : env),
    fi_proper fi -> ode_proper ode ->
    let ies := flat_map (fun it => level_etas (ie_levels it)) items in
    NoDup (item_fresh items) -> inputs_ok occ items (item_fresh items) ->
    (forall it, In it items -> ~ In (ie_eta it) (item_fresh items) /\ ~ In (ie_eta it) (flat_map defs l) /\
                               ~ In (ie_eta it) (ode_rhs l)) ->
    (forall x, In x (item_fresh items) -> ~ In x (flat_map defs l) /\ ~ In x (flat_map rhs l)) ->
    ~ In occ ies ->
    (forall e, In e ies -> ~ In e (flat_map defs l) /\ ~ In e (flat_map rhs l) /\ ~ In e (ode_rhs l)) ->
    (forall it, In it items -> exists o lv, r occ = Some o /\ In lv (ie_levels it) /\ Qeq_bool (fst lv) o = true) ->
    forall x, ~ In x (item_fresh items) -> ~ In x (item_etas items) -> ~ In x ies ->
      oq_equiv (exec fi ode r (remove_iov ies (add_iov occ items l)) x) (exec fi ode r l x).
Proof. intros; apply remove_add_iov_lemma; assumption. Qed.

(* program_substitution — Statements.subs of a symbol the program does not assign: the substituted program in r
   computes what the program computes in r[s := value of t] (the lemma behind both IOV theorems). *)
Theorem program_substitution :
  forall (fi : finterp) (ode : id -> list (option Q) -> option Q) (s : id) (t : expr) (l : list stmt) (r : env) (x : id),
    ~ In s (flat_map defs l) -> (forall y, In y (free_syms t) -> ~ In y (flat_map defs l)) -> ~ In s (ode_rhs l) ->
    x <> s ->
    exec fi ode r (subs_stmts_sym s t l) x = exec fi ode (upd r s (eval r fi t)) l x.
Proof. intros; apply exec_subs_upd; assumption. Qed.

(* ---- allometry ------------------------------------------------------------------------------------------- *)
(* allometry_formula — one step of add_allometry is "insert P = P * (X / Z) ** T after the last assignment of P";
   allometry_program_neutral — the whole add_allometry (any list of parameters, every program) leaves every symbol
   unchanged when the allometric variable has the reference value (1^y = 1). *)
Theorem allometry_formula :
  forall (fi : finterp) (ode : id -> list (option Q) -> option Q) (T : templates) (var : id) (ref : Q)
         (l : list stmt) (p th : id) (i : nat) (r : env),
    fi_proper fi -> ode_proper ode -> templates_equiv T doc_templates -> find_assignment_index l p = Some i ->
    env_equiv (exec fi ode r (add_allometry1 T var ref l (p, th)))
              (exec fi ode r (firstn (S i) l ++ Assign p (doc_allometry_closed p th var ref) :: skipn (S i) l)).
Proof. intros; apply add_allometry1_formula; assumption. Qed.

Theorem allometry_program_neutral :
  forall (fi : finterp) (ode : id -> list (option Q) -> option Q) (T : templates) (var : id) (ref : Q)
         (params : list (id * id)) (l : list stmt) (r : env) (m : Q),
    fi_proper fi -> pow_base_one fi -> ode_proper ode -> templates_equiv T doc_templates ->
    ~ In var (flat_map defs l) -> ~ In var (map fst params) ->
    (forall pt, In pt params -> ~ In (snd pt) (flat_map defs l) /\ ~ In (snd pt) (map fst params) /\
                                exists t, r (snd pt) = Some t) ->
    r var = Some m -> m == ref -> ~ ref == 0 ->
    env_equiv (exec fi ode r (add_allometry T var ref params l)) (exec fi ode r l).
Proof. intros; eapply add_allometry_neutral_lemma; eauto. Qed.

(* ---- BLQ ------------------------------------------------------------------------------------------------- *)
(* blq_above_lloq_unchanged — the statement-level model of transform_blq M3/M4 (SD, LLOQ, F_FLAG, CUMD, CUMDZ, the
   Piecewise Y whose first branch is the original observation model and whose other branch is the likelihood of a
   censored observation): wherever the "above LLOQ" indicator holds at the point where Y is assigned, Y and every
   other symbol of the original program have the values of the original program. *)
Theorem blq_above_lloq_unchanged :
  forall (fi : finterp) (ode : id -> list (option Q) -> option Q) (a : blq_args) (l l' : list stmt) (r : env),
    fi_proper fi -> ode_proper ode ->
    transform_blq a l = Some l' ->
    (forall x, In x (blq_fresh a) -> ~ In x (flat_map defs l) /\ ~ In x (flat_map rhs l)) ->
    ~ In (b_y a) (blq_fresh a) ->
    (forall i yexpr, find_assignment_index l (b_y a) = Some i -> nths l i = Assign (b_y a) yexpr ->
       evalc (exec fi ode r (firstn i l ++ blq_prefix a yexpr)) fi (b_above a) = Some true) ->
    forall x, ~ In x (blq_fresh a) -> oq_equiv (exec fi ode r l' x) (exec fi ode r l x).
Proof. intros fi ode a l l' r Hp Ho Ht Hf Hy Ha. apply (transform_blq_above_lemma fi Hp ode Ho a l l' r Ht Hf Hy Ha). Qed.

(* ---- transit rates --------------------------------------------------------------------------------------- *)
(* transit_rates_after_update — model of _update_numerators (loop over the DETECTED transit compartments; integer
   numerators written directly or through a rate symbol are replaced by the number of detected compartments): when
   the chain does not consist of a single compartment (the guard of the open finding C09-TRANSIT-REDUCE-TO-ONE),
   every rate k/MDT becomes n/MDT with n the length of the chain — so the mean transit time is MDT (transit_mdt). *)
Theorem transit_rates_after_update :
  forall (rates : list trate) (d : rate_defs),
    length rates <> 1%nat ->
    (forall rt, In rt rates -> exists z, rate_value d rt = Some (NInt z, Sym s_mdt)) ->
    let '(rates', d') := rates_after_update rates d in
    forall rt', In rt' rates' -> rate_value d' rt' = Some (NInt (inject_Z (Z.of_nat (length rates))), Sym s_mdt).
Proof. exact rates_after_update_lemma. Qed.

(* ---- error-model setters at program level -------------------------------------------------------------- *)
(* error_model_program_sound — for EVERY statement list in which Y is assigned exactly once (Y = ye at position i),
   every template record equal to the documented one, every interpretation, ODE oracle and environment: after the hand
   model of the setter (the same functions the correspondence compares with the implementation, tag 3), the final
   value of Y is the DOCUMENTED error-model expression read in the environment [tenv]: x and f are the OLD PREDICTION
   F = (value of ye with every old epsilon := 0 at Y's position), each epsilon / eta placeholder is the model symbol
   it was instantiated with; with zero protection IPREDADJ is the documented guard of F ([tenv_zp]).  Together with
   error_model_shape: Y_after = pred(F) + eps * coeff(F). *)
Theorem error_model_program_sound :
  forall (fi : finterp) (ode : id -> list (option Q) -> option Q) (T : templates) (l : list stmt) (y : id) (i : nat)
         (ye : expr) (epsilons : list id) (r : env),
    fi_proper fi -> templates_equiv T doc_templates -> single_assignment l y i ye ->
    let ri := exec fi ode r (firstn i l) in
    let F := eval ri fi (zero_eps epsilons ye) in
    (forall l' eps_a, set_additive T y eps_a epsilons l = Some l' ->
       oq_equiv (exec fi ode r l' y) (eval (tenv F ri [(s_eps_a, eps_a)]) fi doc_add_error)) /\
    (forall l' dt eps_p ipredadj, eps_p <> s_x -> ipredadj <> s_x ->
       set_proportional T dt false y eps_p ipredadj epsilons l = Some l' ->
       oq_equiv (exec fi ode r l' y) (eval (tenv F ri [(s_eps_p, eps_p)]) fi (doc_prop_error dt false))) /\
    (forall l' k eps_p eps_a eta_ruv, eps_p <> s_x -> eps_a <> s_x -> eta_ruv <> s_x ->
       set_combined T k y eps_p eps_a eta_ruv epsilons l = Some l' ->
       oq_equiv (exec fi ode r l' y)
                (eval (tenv F ri [(s_eps_p, eps_p); (s_eps_a, eps_a); (s_eta_ruv, eta_ruv)]) fi (doc_comb_error k))).
Proof.
  intros fi ode T l y i ye epsilons r Hp HT HS ri F. repeat split.
  - intros l' eps_a H. apply (set_additive_program_sound_lemma fi Hp ode T l l' y i ye eps_a epsilons r HT HS H).
  - intros l' dt eps_p ipa H1 H2 H.
    apply (set_proportional_program_sound_lemma fi Hp ode T dt l l' y i ye eps_p ipa epsilons r HT HS H1 H2 H).
  - intros l' k e1 e2 e3 H1 H2 H3 H.
    apply (set_combined_program_sound_lemma fi Hp ode T k l l' y i ye e1 e2 e3 epsilons r HT HS H1 H2 H3 H).
Qed.

(* ... with zero protection: the guard statement IPREDADJ = {2.225e-16 for f = 0; f otherwise} is placed in front of
   the first statement mentioning IPREDADJ (hypothesis, executable: that is the new Y statement, as for a fresh IPREDADJ). *)
Theorem error_model_program_sound_zero_protection :
  forall (fi : finterp) (ode : id -> list (option Q) -> option Q) (T : templates) (dt : dtrans) (l l' : list stmt)
         (y : id) (i : nat) (ye : expr) (eps_p ipredadj : id) (epsilons : list id) (r : env),
    fi_proper fi -> templates_equiv T doc_templates -> single_assignment l y i ye ->
    eps_p <> s_x -> ipredadj <> s_x -> eps_p <> ipredadj -> ipredadj <> y ->
    ~ In ipredadj (free_syms (zero_eps epsilons ye)) ->
    find_first_from (mentions_stmt ipredadj)
      (firstn i l ++ Assign y (prop_y_expr T dt eps_p ipredadj (zero_eps epsilons ye)) :: skipn (S i) l) 0 = Some i ->
    set_proportional T dt true y eps_p ipredadj epsilons l = Some l' ->
    let ri := exec fi ode r (firstn i l) in
    let F := eval ri fi (zero_eps epsilons ye) in
    oq_equiv (exec fi ode r l' y) (eval (tenv_zp fi F ri eps_p) fi (doc_prop_error dt true)).
Proof. intros; eapply set_proportional_zp_program_sound_lemma; eauto. Qed.

(* set_iiv_on_ruv_program_sound — one epsilon: the new model in r IS the old model with eps := eps * exp(eta), for every
   program that does not assign eps (nor the symbols of the substituted expression), every symbol x <> eps. *)
Theorem set_iiv_on_ruv_program_sound :
  forall (fi : finterp) (ode : id -> list (option Q) -> option Q) (T : templates) (eps eta : id) (l : list stmt)
         (r : env) (x : id),
    fi_proper fi -> ode_proper ode -> templates_equiv T doc_templates ->
    ~ In eps (flat_map defs l) -> ~ In eps (ode_rhs l) ->
    (forall y, In y (free_syms (iiv_on_ruv_expr T eps eta)) -> ~ In y (flat_map defs l)) -> x <> eps ->
    oq_equiv (exec fi ode r (set_iiv_on_ruv T [(eps, eta)] l) x)
             (exec fi ode (upd r eps (eval r fi (Mul (Sym eps) (Fn1 F_EXP (Sym eta))))) l x).
Proof. intros; apply set_iiv_on_ruv_program_sound_lemma; assumption. Qed.

(* set_iiv_on_ruv_program_sound_all — ANY list of (epsilon, eta) pairs (one shared eta or one eta per epsilon), every
   program that does not assign the epsilons (nor the symbols of the substituted expressions), every template record
   equal to the documented one, interpretation, ODE oracle, environment: every symbol other than the listed epsilons
   has after the hand model of set_iiv_on_ruv (Statements.subs eps := eps*exp(eta), pair after pair) the value the
   ORIGINAL program gives it in [ruv_scale ... r]; for pairwise distinct epsilons that are not used as etas that
   environment is r with every listed epsilon replaced by eps * exp(its eta) and nothing else changed. *)
Theorem set_iiv_on_ruv_program_sound_all :
  forall (fi : finterp) (ode : id -> list (option Q) -> option Q) (T : templates) (pairs : list (id * id))
         (l : list stmt) (r : env),
    fi_proper fi -> ode_proper ode -> templates_equiv T doc_templates ->
    (forall p, In p pairs -> ~ In (fst p) (flat_map defs l) /\ ~ In (fst p) (ode_rhs l) /\
                             forall y, In y (free_syms (iiv_on_ruv_expr T (fst p) (snd p))) -> ~ In y (flat_map defs l)) ->
    (forall x, ~ In x (map fst pairs) ->
       oq_equiv (exec fi ode r (set_iiv_on_ruv T pairs l) x) (exec fi ode (ruv_scale fi doc_ruv_expr pairs r) l x)) /\
    (NoDup (map fst pairs) -> (forall p, In p pairs -> ~ In (snd p) (map fst pairs)) ->
       (forall e n, In (e, n) pairs -> ruv_scale fi doc_ruv_expr pairs r e = eval r fi (Mul (Sym e) (Fn1 F_EXP (Sym n)))) /\
       (forall z, ~ In z (map fst pairs) -> ruv_scale fi doc_ruv_expr pairs r z = r z)).
Proof.
  intros fi ode T pairs l r Hp Ho HT H. split.
  - intros x Hx. apply set_iiv_on_ruv_list_lemma; assumption.
  - intros Hnd Heta. split.
    + intros e n Hin. apply (ruv_scale_value_lemma fi pairs r e n Hnd Heta Hin).
    + intros z Hz. apply ruv_scale_other; exact Hz.
Qed.

(* ---- the distributions add_iov declares ------------------------------------------------------------------- *)
(* iov_distributions_exact — for every naming of etas and omegas, group of eta positions and number K of occasion
   levels: exactly K distributions are declared, the k-th declares exactly eta_name(i, k) for the i of the group, and
   all K have the SAME covariance symbols (same structure across occasions); the matrix is symmetric with
   omega_iov_name(i, i) on the diagonal. *)
Theorem iov_distributions_exact :
  forall (ename oname : nat -> nat -> id) (indices : list nat) (K : nat),
    length (iov_dists_group ename oname indices K) = K /\
    (forall k, (k < K)%nat ->
       rd_names (nth k (iov_dists_group ename oname indices K) {| rd_names := nil; rd_sigma := nil |})
       = map (fun i => ename i (S k)) indices) /\
    (forall d d', In d (iov_dists_group ename oname indices K) -> In d' (iov_dists_group ename oname indices K) ->
       rd_sigma d = rd_sigma d') /\
    (forall i j, oname (Nat.min i j) (Nat.max i j) = oname (Nat.min j i) (Nat.max j i)) /\
    (forall i, oname (Nat.min i i) (Nat.max i i) = oname i i).
Proof.
  intros. destruct (iov_dists_exact_lemma ename oname indices K) as [A B]. repeat split; auto.
  - apply iov_dists_same_structure_lemma.
  - apply iov_sigma_symmetric_lemma.
  - apply iov_sigma_diagonal_lemma.
Qed.

(* ---- over the real numbers (Coq.Reals: exp, ln, Rpower) -------------------------------------------- *)
(* effect_neutral_real / iiv_neutral_real — the same neutrality statements with the REAL exponential, logarithm
   and power: the hypotheses "exp 0 = 1, 1^y = 1" of the theorems above are facts of the intended
   interpretation.  [evalR] evaluates an expression over R (division by 0, log / power of a non-positive
   number undefined).  These two theorems (only) depend on the axioms of Coq.Reals. *)
Theorem effect_neutral_real :
  forall (r : envR) (k : ekind) (m : R),
    r s_cov = Some m -> r s_median = Some m -> ref_okR k m -> thetas_definedR k r ->
    evalR r (doc_effect k) = Some 1%R.
Proof. exact doc_effect_neutral_R. Qed.

Theorem iiv_neutral_real :
  forall (r : envR) (k : ikind) (o : binop) (p : R),
    iiv_neutral_kind k o = true ->
    r s_original = Some p -> r s_eta_new = Some 0%R ->
    evalR r (doc_iiv k o) = Some p.
Proof.
  intros r k o p Hk. apply doc_iiv_neutral_R. destruct k, o; cbn in Hk; try discriminate; exact I.
Qed.

(* remove_iiv_product_rule — for every product of factors (the args of the expanded expression), what
   remove_iiv leaves is, in every environment, the product of the factors that do not mention the eta:
   the extension is removed exactly when those are the factors of the expression the eta was added to. *)
Theorem remove_iiv_product_rule :
  forall (fi : finterp) (r : env) (eta : id) (args : list expr) (whole : expr),
    fi_proper fi ->
    oq_equiv (eval r fi (remove_iiv_expr eta TopMul args whole))
             (eval r fi (product_of (filter (fun f => negb (mentions eta f)) args))).
Proof. intros; apply remove_iiv_product; assumption. Qed.
