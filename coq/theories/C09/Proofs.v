(* PV.C09.Proofs — lemmas: evaluation up to Qeq, the un-normalised semantics [sem] used to reason about
   concrete templates with ring/field, tactics for the regenerated obligations, neutrality of the
   documented formulas, the Q identities of the transit/absorption constants. *)
From Coq Require Import QArith Qfield List Bool PArith Arith Lia Lqa Setoid.
From PV Require Import Base.PyData Base.Expr Base.Interp Base.Stmts C09.Model.
Import ListNotations.
Local Open Scope Q_scope.

(* ---- option Q up to Qeq ------------------------------------------------------------------------- *)
Definition oq_equiv (a b : option Q) : Prop :=
  match a, b with
  | Some x, Some y => x == y
  | None, None => True
  | _, _ => False
  end.

Lemma oq_refl a : oq_equiv a a.
Proof. destruct a; cbn; [reflexivity | exact I]. Qed.
Lemma oq_sym a b : oq_equiv a b -> oq_equiv b a.
Proof. destruct a, b; cbn; auto. intros H; symmetry; exact H. Qed.
Lemma oq_trans a b c : oq_equiv a b -> oq_equiv b c -> oq_equiv a c.
Proof. destruct a, b, c; cbn; try tauto. intros H1 H2; rewrite H1; exact H2. Qed.

Lemma oq_bind (a a' : option Q) (f f' : Q -> option Q) :
  oq_equiv a a' -> (forall x x', x == x' -> oq_equiv (f x) (f' x')) -> oq_equiv (obind a f) (obind a' f').
Proof. destruct a, a'; cbn; try tauto. intros H Hf; apply Hf; exact H. Qed.

(* an interpretation of the function symbols that respects Qeq *)
Definition fi_proper (fi : finterp) : Prop :=
  (forall f x x', x == x' -> oq_equiv (fi1 fi f x) (fi1 fi f x')) /\
  (forall f x x' y y', x == x' -> y == y' -> oq_equiv (fi2 fi f x y) (fi2 fi f x' y')).

Definition env_equiv (r r' : env) : Prop := forall s, oq_equiv (r s) (r' s).

Lemma relb_proper o x x' y y' : x == x' -> y == y' -> relb o x y = relb o x' y'.
Proof.
  intros Hx Hy.
  assert (L : forall a a' b b', a == a' -> b == b' -> Qle_bool a b = Qle_bool a' b').
  { intros a a' b b' Ha Hb. destruct (Qle_bool a b) eqn:E1, (Qle_bool a' b') eqn:E2; try reflexivity.
    - apply Qle_bool_iff in E1. rewrite Ha, Hb in E1. apply Qle_bool_iff in E1. congruence.
    - apply Qle_bool_iff in E2. rewrite <- Ha, <- Hb in E2. apply Qle_bool_iff in E2. congruence. }
  assert (Ee : Qeq_bool x y = Qeq_bool x' y').
  { destruct (Qeq_bool x y) eqn:E1, (Qeq_bool x' y') eqn:E2; try reflexivity.
    - apply Qeq_bool_iff in E1. rewrite Hx, Hy in E1. apply Qeq_bool_iff in E1. congruence.
    - apply Qeq_bool_iff in E2. rewrite <- Hx, <- Hy in E2. apply Qeq_bool_iff in E2. congruence. }
  destruct o; cbn [relb]; rewrite ?(L x x' y y'), ?(L y y' x x'), ?Ee; auto.
Qed.

Definition ob_equiv (a b : option bool) : Prop := a = b.

Lemma eval_proper fi r r' : fi_proper fi -> env_equiv r r' ->
  (forall e, oq_equiv (eval r fi e) (eval r' fi e)) /\ (forall c, evalc r fi c = evalc r' fi c).
Proof.
  intros [P1 P2] Hr. apply expr_cond_mut; intros; cbn [eval evalc].
  - apply oq_refl.
  - apply Hr.
  - apply oq_bind; [assumption|]. intros; apply P1; assumption.
  - apply oq_bind; [assumption|]. intros x x' Hx. apply oq_bind; [assumption|]. intros; apply P2; assumption.
  - apply oq_bind; [assumption|]. intros x x' Hx. apply oq_bind; [assumption|]. intros y y' Hy; cbn [oq_equiv].
    rewrite !Qred_correct, Hx, Hy. reflexivity.
  - apply oq_bind; [assumption|]. intros x x' Hx. apply oq_bind; [assumption|]. intros y y' Hy; cbn [oq_equiv].
    rewrite !Qred_correct, Hx, Hy. reflexivity.
  - apply oq_bind; [assumption|]. intros x x' Hx; cbn [oq_equiv]. rewrite Hx; reflexivity.
  - apply oq_bind; [assumption|]. intros x x' Hx. apply oq_bind; [assumption|]. intros y y' Hy.
    pose proof (relb_proper OEq y y' 0 0 Hy (Qeq_refl 0)) as Hz; cbn [relb] in Hz. rewrite Hz.
    destruct (Qeq_bool y' 0); cbn [oq_equiv]; [exact I|]. rewrite ?Qred_correct, Hx, Hy. reflexivity.
  - exact I.
  - rewrite H. destruct (evalc r' fi c) as [[|]|]; cbn [obind]; try assumption; exact I.
  - reflexivity.
  - reflexivity.
  - destruct (eval r fi a) as [x|], (eval r' fi a) as [x'|]; cbn [oq_equiv] in H; try contradiction; cbn [obind]; try reflexivity.
    destruct (eval r fi b) as [y|], (eval r' fi b) as [y'|]; cbn [oq_equiv] in H0; try contradiction; cbn [obind]; try reflexivity.
    rewrite (relb_proper o x x' y y' H H0). reflexivity.
  - rewrite H, H0. reflexivity.
  - rewrite H, H0. reflexivity.
  - rewrite H. reflexivity.
Qed.

(* ---- the same semantics without Qred: what ring/field can work with ------------------------------- *)
Fixpoint sem (r : env) (fi : finterp) (e : expr) : option Q :=
  match e with
  | Num q => Some q
  | Sym s => r s
  | Fn1 f a => obind (sem r fi a) (fi1 fi f)
  | Fn2 f a b => obind (sem r fi a) (fun x => obind (sem r fi b) (fun y => fi2 fi f x y))
  | Add a b => obind (sem r fi a) (fun x => obind (sem r fi b) (fun y => Some (x + y)))
  | Mul a b => obind (sem r fi a) (fun x => obind (sem r fi b) (fun y => Some (x * y)))
  | Neg a => obind (sem r fi a) (fun x => Some (- x))
  | Div a b => obind (sem r fi a) (fun x => obind (sem r fi b) (fun y =>
                 if Qeq_bool y 0 then None else Some (x / y)))
  | PwNil => None
  | PwCons c e rest => obind (semc r fi c) (fun b => if b then sem r fi e else sem r fi rest)
  end
with semc (r : env) (fi : finterp) (c : cond) : option bool :=
  match c with
  | CTrue => Some true
  | CFalse => Some false
  | CRel o a b => obind (sem r fi a) (fun x => obind (sem r fi b) (fun y => Some (relb o x y)))
  | CAnd a b => obind (semc r fi a) (fun x => obind (semc r fi b) (fun y => Some (andb x y)))
  | COr a b => obind (semc r fi a) (fun x => obind (semc r fi b) (fun y => Some (orb x y)))
  | CNot a => obind (semc r fi a) (fun x => Some (negb x))
  end.

Lemma eval_sem fi r : fi_proper fi ->
  (forall e, oq_equiv (eval r fi e) (sem r fi e)) /\ (forall c, evalc r fi c = semc r fi c).
Proof.
  intros [P1 P2]. apply expr_cond_mut; intros; cbn [eval evalc sem semc].
  - apply oq_refl.
  - apply oq_refl.
  - apply oq_bind; [assumption|]. intros; apply P1; assumption.
  - apply oq_bind; [assumption|]. intros x x' Hx. apply oq_bind; [assumption|]. intros; apply P2; assumption.
  - apply oq_bind; [assumption|]. intros x x' Hx. apply oq_bind; [assumption|]. intros y y' Hy; cbn [oq_equiv].
    rewrite !Qred_correct, Hx, Hy. reflexivity.
  - apply oq_bind; [assumption|]. intros x x' Hx. apply oq_bind; [assumption|]. intros y y' Hy; cbn [oq_equiv].
    rewrite !Qred_correct, Hx, Hy. reflexivity.
  - apply oq_bind; [assumption|]. intros x x' Hx; cbn [oq_equiv]. rewrite Hx; reflexivity.
  - apply oq_bind; [assumption|]. intros x x' Hx. apply oq_bind; [assumption|]. intros y y' Hy.
    pose proof (relb_proper OEq y y' 0 0 Hy (Qeq_refl 0)) as Hz; cbn [relb] in Hz. rewrite Hz.
    destruct (Qeq_bool y' 0); cbn [oq_equiv]; [exact I|]. rewrite ?Qred_correct, Hx, Hy. reflexivity.
  - exact I.
  - rewrite H. destruct (semc r fi c) as [[|]|]; cbn [obind]; try assumption; exact I.
  - reflexivity.
  - reflexivity.
  - destruct (eval r fi a) as [x|], (sem r fi a) as [x'|]; cbn [oq_equiv] in H; try contradiction; cbn [obind]; try reflexivity.
    destruct (eval r fi b) as [y|], (sem r fi b) as [y'|]; cbn [oq_equiv] in H0; try contradiction; cbn [obind]; try reflexivity.
    rewrite (relb_proper o x x' y y' H H0). reflexivity.
  - rewrite H, H0. reflexivity.
  - rewrite H, H0. reflexivity.
  - rewrite H. reflexivity.
Qed.

Lemma eval_sem_e fi r e : fi_proper fi -> oq_equiv (eval r fi e) (sem r fi e).
Proof. intros H; apply (eval_sem fi r H). Qed.

(* semantic equality of two expressions / conditions: in every environment, under every proper
   interpretation of the function symbols, both are undefined or both have Qeq values *)
Definition expr_equiv (a b : expr) : Prop :=
  forall r fi, fi_proper fi -> oq_equiv (eval r fi a) (eval r fi b).
Definition cond_equiv (a b : cond) : Prop :=
  forall r fi, fi_proper fi -> evalc r fi a = evalc r fi b.

Lemma expr_equiv_of_sem a b :
  (forall r fi, fi_proper fi -> oq_equiv (sem r fi a) (sem r fi b)) -> expr_equiv a b.
Proof.
  intros H r fi Hp. eapply oq_trans; [apply eval_sem_e; exact Hp|].
  eapply oq_trans; [apply H; exact Hp|]. apply oq_sym, eval_sem_e; exact Hp.
Qed.
Lemma cond_equiv_of_sem a b :
  (forall r fi, fi_proper fi -> semc r fi a = semc r fi b) -> cond_equiv a b.
Proof. intros H r fi Hp. rewrite !(proj2 (eval_sem fi r Hp)). apply H; exact Hp. Qed.

Lemma expr_equiv_refl a : expr_equiv a a.
Proof. intros r fi _; apply oq_refl. Qed.
Lemma expr_equiv_sym a b : expr_equiv a b -> expr_equiv b a.
Proof. intros H r fi Hp; apply oq_sym, H, Hp. Qed.
Lemma expr_equiv_trans a b c : expr_equiv a b -> expr_equiv b c -> expr_equiv a c.
Proof. intros H1 H2 r fi Hp; eapply oq_trans; [apply H1|apply H2]; exact Hp. Qed.

(* ---- tactics for goals  oq_equiv (sem r fi A) (sem r fi B)  on concrete A, B ------------------------ *)
Lemma Qeq_bool_false_neq x y : Qeq_bool x y = false -> ~ x == y.
Proof. intros H E. apply Qeq_bool_iff in E. congruence. Qed.

Ltac destruct_syms r :=
  repeat match goal with
         | |- context[r ?s] => let v := fresh "v" in destruct (r s) as [v|]; cbn [obind]
         end.

(* two applications of the same function symbol to Qeq (not identical) arguments *)
Ltac unify_fi P1 P2 :=
  repeat match goal with
         | |- context[fi1 ?fi ?f ?a] =>
             match goal with
             | |- context[fi1 fi f ?b] =>
                 tryif constr_eq a b then fail else
                   (let E := fresh "E" in
                    assert (E : a == b) by ring;
                    let H := fresh "H" in
                    pose proof (P1 f a b E) as H; clear E;
                    let w := fresh "w" in let w' := fresh "w" in
                    destruct (fi1 fi f a) as [w|], (fi1 fi f b) as [w'|]; cbn [oq_equiv] in H;
                    try contradiction; cbn [obind]; try exact I)
             end
         | |- context[fi2 ?fi ?f ?a ?c] =>
             match goal with
             | |- context[fi2 fi f ?b ?d] =>
                 tryif (constr_eq a b; constr_eq c d) then fail else
                   (let E := fresh "E" in let E' := fresh "E" in
                    assert (E : a == b) by ring; assert (E' : c == d) by ring;
                    let H := fresh "H" in
                    pose proof (P2 f a b c d E E') as H; clear E E';
                    let w := fresh "w" in let w' := fresh "w" in
                    destruct (fi2 fi f a c) as [w|], (fi2 fi f b d) as [w'|]; cbn [oq_equiv] in H;
                    try contradiction; cbn [obind]; try exact I)
             end
         end.

Ltac destruct_fi :=
  repeat match goal with
         | |- context[fi1 ?fi ?f ?a] => let w := fresh "w" in destruct (fi1 fi f a) as [w|]; cbn [obind]
         | |- context[fi2 ?fi ?f ?a ?b] => let w := fresh "w" in destruct (fi2 fi f a b) as [w|]; cbn [obind]
         end.

Ltac destruct_tests :=
  repeat match goal with
         | |- context[Qeq_bool ?a ?b] =>
             let E := fresh "E" in
             destruct (Qeq_bool a b) eqn:E;
             [apply Qeq_bool_iff in E | apply Qeq_bool_false_neq in E]; cbn [obind]
         | |- context[Qle_bool ?a ?b] =>
             let E := fresh "E" in destruct (Qle_bool a b) eqn:E; cbn [obind negb]
         end.

Ltac use_var_eqs :=
  repeat match goal with
         | H : ?a == ?b |- _ => is_var a; is_var b; rewrite H in *; clear H
         end.

Ltac finish_q :=
  try apply oq_refl;
  cbn [oq_equiv obind negb];
  try exact I; try reflexivity;
  use_var_eqs;
  try exact I; try reflexivity;
  try (exfalso; lra);
  try (exfalso; match goal with H : ~ _ == _, E : _ == _ |- _ => apply H; rewrite <- E; ring end);
  try ring;
  try (field; auto);
  try (field; repeat split; auto; lra).

Ltac sem_equiv :=
  match goal with
  | Hp : fi_proper ?fi |- oq_equiv (sem ?r ?fi _) (sem ?r ?fi _) =>
      let P1 := fresh "P1" in let P2 := fresh "P2" in
      pose proof (proj1 Hp) as P1; pose proof (proj2 Hp) as P2;
      cbn -[Qeq_bool Qle_bool Qplus Qmult Qopp Qdiv Qinv oq_equiv];
      destruct_syms r; try exact I;
      repeat (progress (unify_fi P1 P2; destruct_fi; try exact I; destruct_tests));
      finish_q
  end.

Ltac solve_expr_equiv :=
  apply expr_equiv_of_sem; let r := fresh "r" in let fi := fresh "fi" in let Hp := fresh "Hp" in
  intros r fi Hp; sem_equiv.

Ltac solve_cond_equiv :=
  apply cond_equiv_of_sem; let r := fresh "r" in let fi := fresh "fi" in let Hp := fresh "Hp" in
  intros r fi Hp; cbn -[Qeq_bool Qle_bool]; reflexivity.

(* ---- semantic equivalence of a regenerated template record with the documented one -------------- *)
Record templates_equiv (T D : templates) : Prop := {
  te_effect : forall k, expr_equiv (t_effect T k) (t_effect D k);
  te_effect_rhs : forall o, expr_equiv (t_effect_rhs T o) (t_effect_rhs D o);
  te_cat_start : t_cat_start T = t_cat_start D;
  te_cat_first_value : expr_equiv (t_cat_first_value T) (t_cat_first_value D);
  te_cat_first_cond : cond_equiv (t_cat_first_cond T) (t_cat_first_cond D);
  te_cat_nan_value : expr_equiv (t_cat_nan_value T) (t_cat_nan_value D);
  te_cat_nan_cond : cond_equiv (t_cat_nan_cond T) (t_cat_nan_cond D);
  te_cat_other_cond : cond_equiv (t_cat_other_cond T) (t_cat_other_cond D);
  te_cat_other_value : forall two alt i, expr_equiv (t_cat_other_value T two alt i) (t_cat_other_value D two alt i);
  te_iiv : forall k o, expr_equiv (t_iiv T k o) (t_iiv D k o);
  te_relogit_phi : expr_equiv (t_relogit_phi T) (t_relogit_phi D);
  te_add_error : expr_equiv (t_add_error T) (t_add_error D);
  te_prop_error : forall dt zp, expr_equiv (t_prop_error T dt zp) (t_prop_error D dt zp);
  te_prop_guard : expr_equiv (t_prop_guard T) (t_prop_guard D);
  te_comb_error : forall k, expr_equiv (t_comb_error T k) (t_comb_error D k);
  te_iiv_on_ruv : expr_equiv (t_iiv_on_ruv T) (t_iiv_on_ruv D);
  te_power_on_ruv : expr_equiv (t_power_on_ruv T) (t_power_on_ruv D);
  te_transit_rate : expr_equiv (t_transit_rate T) (t_transit_rate D);
  te_transit_rate_update : expr_equiv (t_transit_rate_update T) (t_transit_rate_update D);
  te_fo_rate : expr_equiv (t_fo_rate T) (t_fo_rate D);
  te_zo_duration : expr_equiv (t_zo_duration T) (t_zo_duration D);
  te_allometry : expr_equiv (t_allometry T) (t_allometry D);
  te_effect_dispatch : t_effect_dispatch T = t_effect_dispatch D;
  te_effect_ops : t_effect_ops T = t_effect_ops D;
  te_iiv_dispatch : t_iiv_dispatch T = t_iiv_dispatch D;
  te_iiv_ops : t_iiv_ops T = t_iiv_ops D
}.

Lemma doc_templates_equiv_refl : templates_equiv doc_templates doc_templates.
Proof. constructor; intros; try reflexivity; try apply expr_equiv_refl; intros r fi _; reflexivity. Qed.

(* ---- hypotheses about the interpretation ----------------------------------------------------------- *)
Definition exp_zero_one (fi : finterp) : Prop := oq_equiv (fi1 fi F_EXP 0) (Some 1).
Definition pow_base_one (fi : finterp) : Prop := forall y, oq_equiv (fi2 fi F_POW 1 y) (Some 1).

Lemma exp_at_zero fi x : fi_proper fi -> exp_zero_one fi -> x == 0 -> oq_equiv (fi1 fi F_EXP x) (Some 1).
Proof. intros [P1 _] H0 Hx. eapply oq_trans; [apply (P1 F_EXP x 0 Hx)| exact H0]. Qed.
Lemma pow_at_one fi x y : fi_proper fi -> pow_base_one fi -> x == 1 -> oq_equiv (fi2 fi F_POW x y) (Some 1).
Proof. intros [_ P2] H1 Hx. eapply oq_trans; [apply (P2 F_POW x 1 y y Hx (Qeq_refl y))| apply H1]. Qed.

(* ---- neutrality of the documented covariate effects at the reference value ------------------------ *)
Definition ref_ok (k : ekind) (m : Q) : Prop := match k with EPow => ~ m == 0 | _ => True end.
Definition thetas_defined (k : ekind) (r : env) : Prop :=
  match k with
  | EPiece => (exists t, r s_theta1 = Some t) /\ (exists t, r s_theta2 = Some t)
  | _ => exists t, r s_theta = Some t
  end.

Lemma doc_effect_neutral_sem fi r k m m' :
  fi_proper fi -> exp_zero_one fi -> pow_base_one fi ->
  r s_cov = Some m -> r s_median = Some m' -> m == m' -> ref_ok k m -> thetas_defined k r ->
  oq_equiv (sem r fi (doc_effect k)) (Some 1).
Proof.
  intros Hp He Hw Hc Hm Hmm Hk Ht.
  destruct k; cbn [doc_effect Sub one sem semc]; rewrite ?Hc, ?Hm; cbn [obind].
  - destruct Ht as [t Ht]; rewrite Ht; cbn. rewrite Hmm. ring.
  - destruct Ht as [[t1 Ht1] [t2 Ht2]]; rewrite Ht1, Ht2; cbn [obind relb].
    assert (L : Qle_bool m m' = true) by (apply Qle_bool_iff; rewrite Hmm; apply Qle_refl).
    rewrite L. cbn. rewrite Hmm. ring.
  - destruct Ht as [t Ht]; rewrite Ht; cbn [obind].
    apply exp_at_zero; auto. rewrite Hmm. ring.
  - destruct Ht as [t Ht]; rewrite Ht; cbn [obind]. cbn [ref_ok] in Hk.
    assert (N : Qeq_bool m' 0 = false).
    { destruct (Qeq_bool m' 0) eqn:E; [|reflexivity]. apply Qeq_bool_iff in E. exfalso; apply Hk. rewrite Hmm; exact E. }
    rewrite N. cbn [obind]. apply pow_at_one; auto. rewrite Hmm. field. intro E; apply Hk; rewrite Hmm; exact E.
Qed.

Lemma effect_neutral_of_equiv T fi r k m m' :
  templates_equiv T doc_templates ->
  fi_proper fi -> exp_zero_one fi -> pow_base_one fi ->
  r s_cov = Some m -> r s_median = Some m' -> m == m' -> ref_ok k m -> thetas_defined k r ->
  oq_equiv (eval r fi (t_effect T k)) (Some 1).
Proof.
  intros HT Hp He Hw Hc Hm Hmm Hk Ht.
  eapply oq_trans; [apply (te_effect _ _ HT k r fi Hp)|].
  eapply oq_trans; [apply eval_sem_e; exact Hp|].
  cbn [doc_templates t_effect]. eapply doc_effect_neutral_sem; eauto.
Qed.

(* with the operation '+', the neutral element would be 0, but every template evaluates to 1 *)
Lemma effect_additive_not_neutral T fi r k m :
  templates_equiv T doc_templates ->
  fi_proper fi -> exp_zero_one fi -> pow_base_one fi ->
  r s_cov = Some m -> r s_median = Some m -> ref_ok k m -> thetas_defined k r ->
  ~ oq_equiv (eval r fi (t_effect T k)) (Some (neutral OpAdd)).
Proof.
  intros HT Hp He Hw Hc Hm Hk Ht H.
  pose proof (effect_neutral_of_equiv T fi r k m m HT Hp He Hw Hc Hm (Qeq_refl m) Hk Ht) as H1.
  destruct (eval r fi (t_effect T k)) as [v|]; cbn in *; [|exact H].
  rewrite H1 in H. discriminate H.
Qed.

(* ---- categorical: the piece selected at the most common level is the first one, with value 1 ------- *)
Lemma categorical_neutral_sem fi r cats mc alt m :
  r s_cov = Some m -> m == mc ->
  oq_equiv (sem r fi (categorical doc_templates cats mc alt)) (Some 1).
Proof.
  intros Hc Hm. unfold categorical. cbn [piecewise_of doc_templates t_cat_first_value t_cat_first_cond subsc subs].
  cbn [Pos.eqb s_cov s_most_common]. cbn [sem semc]. rewrite Hc. cbn [obind relb].
  assert (E : Qeq_bool m mc = true) by (apply Qeq_bool_iff; exact Hm).
  rewrite E. cbn. reflexivity.
Qed.

(* ---- neutrality of the documented IIV forms at eta = 0 ---------------------------------------------- *)
Definition iiv_neutral_kind (k : ikind) (o : binop) : bool :=
  match k, o with
  | IAdd, _ | IProp, _ => true
  | IExp, OpMul => true
  | _, _ => false
  end.

Lemma doc_iiv_neutral_sem fi r k o p z :
  fi_proper fi -> exp_zero_one fi -> iiv_neutral_kind k o = true ->
  r s_original = Some p -> r s_eta_new = Some z -> z == 0 ->
  oq_equiv (sem r fi (doc_iiv k o)) (Some p).
Proof.
  intros Hp He Hk Ho Hz Hz0.
  destruct k, o; cbn in Hk; try discriminate; cbn [doc_iiv apply_op one sem]; rewrite ?Ho, ?Hz; cbn [obind].
  - cbn. rewrite Hz0. ring.
  - cbn. rewrite Hz0. ring.
  - cbn. rewrite Hz0. ring.
  - cbn. rewrite Hz0. ring.
  - pose proof (exp_at_zero fi z Hp He Hz0) as H. destruct (fi1 fi F_EXP z) as [w|]; cbn in H; [|contradiction].
    cbn. rewrite H. ring.
Qed.

(* the three documented forms that are NOT neutral: exact values at eta = 0 *)
Lemma doc_iiv_exp_add_at_zero fi r p :
  fi_proper fi -> exp_zero_one fi -> r s_original = Some p -> r s_eta_new = Some 0 ->
  oq_equiv (sem r fi (doc_iiv IExp OpAdd)) (Some (p + 1)).
Proof.
  intros Hp He Ho Hz. cbn [doc_iiv apply_op sem]. rewrite Ho, Hz. cbn [obind].
  pose proof He as H. unfold exp_zero_one in H. destruct (fi1 fi F_EXP 0) as [w|]; cbn in H; [|contradiction].
  cbn. rewrite H. reflexivity.
Qed.
Lemma doc_iiv_logit_at_zero fi r p o :
  fi_proper fi -> exp_zero_one fi -> r s_original = Some p -> r s_eta_new = Some 0 ->
  oq_equiv (sem r fi (doc_iiv ILogit o)) (Some (p / 2)).
Proof.
  intros Hp He Ho Hz. cbn [doc_iiv one sem]. rewrite Ho, Hz. cbn [obind].
  pose proof He as H. unfold exp_zero_one in H. destruct (fi1 fi F_EXP 0) as [w|]; cbn in H; [|contradiction].
  cbn [obind].
  assert (N : Qeq_bool (w + 1) 0 = false).
  { destruct (Qeq_bool (w + 1) 0) eqn:E; [|reflexivity]. apply Qeq_bool_iff in E. rewrite H in E. discriminate E. }
  rewrite N. cbn. rewrite H. field.
Qed.
Lemma doc_iiv_relogit_at_zero fi r p o :
  fi_proper fi -> exp_zero_one fi -> r s_original = Some p -> r s_eta_new = Some 0 ->
  oq_equiv (sem r fi (doc_iiv IReLogit o)) (Some (1 # 2)).
Proof.
  intros Hp He Ho Hz. cbn [doc_iiv one sem]. rewrite Ho, Hz. cbn [obind].
  pose proof (exp_at_zero fi (p * 0) Hp He) as H. specialize (H ltac:(ring)).
  destruct (fi1 fi F_EXP (p * 0)) as [w|]; cbn in H; [|contradiction]. cbn [obind].
  assert (N : Qeq_bool (1 + w) 0 = false).
  { destruct (Qeq_bool (1 + w) 0) eqn:E; [|reflexivity]. apply Qeq_bool_iff in E. rewrite H in E. discriminate E. }
  rewrite N. cbn. rewrite H. reflexivity.
Qed.

(* ---- transit / absorption constants over Q ------------------------------------------------------- *)
Lemma transit_mdt_q (n mdt : Q) : 0 < n -> ~ mdt == 0 -> n * (1 / (n / mdt)) == mdt.
Proof. intros Hn Hm. field. split; [exact Hm | intro E; rewrite E in Hn; discriminate Hn]. Qed.
Lemma mat_fo_q (mat : Q) : ~ mat == 0 -> 1 / (1 / mat) == mat.
Proof. intros Hm. field. exact Hm. Qed.
Lemma mat_zo_q (mat : Q) : (2 * mat) / 2 == mat.
Proof. field. Qed.

(* ---- the transit / absorption constants of a template record give the documented mean times ------- *)
Lemma transit_mean_time_sem fi r n mdt :
  r s_n = Some n -> r s_mdt = Some mdt -> 0 < n -> ~ mdt == 0 ->
  oq_equiv (sem r fi (Mul (Sym s_n) (Div one doc_transit_rate))) (Some mdt).
Proof.
  intros Hn Hm Hpos Hnz. cbn [sem doc_transit_rate one]. rewrite Hn, Hm. cbn [obind].
  assert (N0 : ~ n == 0) by (intro E; rewrite E in Hpos; discriminate Hpos).
  assert (E1 : Qeq_bool mdt 0 = false) by (destruct (Qeq_bool mdt 0) eqn:E; [apply Qeq_bool_iff in E; contradiction|reflexivity]).
  rewrite E1. cbn [obind].
  assert (E2 : Qeq_bool (n / mdt) 0 = false).
  { destruct (Qeq_bool (n / mdt) 0) eqn:E; [|reflexivity]. apply Qeq_bool_iff in E. exfalso.
    apply N0. setoid_replace n with ((n / mdt) * mdt) by (field; exact Hnz). rewrite E. ring. }
  rewrite E2. cbn [obind oq_equiv]. apply transit_mdt_q; assumption.
Qed.

Lemma fo_mean_time_sem fi r mat :
  r s_mat = Some mat -> ~ mat == 0 -> oq_equiv (sem r fi (Div one doc_fo_rate)) (Some mat).
Proof.
  intros Hm Hnz. cbn [sem doc_fo_rate one]. rewrite Hm. cbn [obind].
  assert (E1 : Qeq_bool mat 0 = false) by (destruct (Qeq_bool mat 0) eqn:E; [apply Qeq_bool_iff in E; contradiction|reflexivity]).
  rewrite E1. cbn [obind].
  assert (E2 : Qeq_bool (1 / mat) 0 = false).
  { destruct (Qeq_bool (1 / mat) 0) eqn:E; [|reflexivity]. apply Qeq_bool_iff in E. exfalso.
    assert (H : 1 == (1 / mat) * mat) by (field; exact Hnz). rewrite E in H. ring_simplify in H. discriminate H. }
  rewrite E2. cbn [obind oq_equiv]. apply mat_fo_q; exact Hnz.
Qed.

Lemma zo_mean_time_sem fi r mat :
  r s_mat = Some mat -> oq_equiv (sem r fi (Div doc_zo_duration (Num 2))) (Some mat).
Proof.
  intros Hm. cbn [sem doc_zo_duration]. rewrite Hm. cbn [obind].
  change (Qeq_bool 2 0) with false. cbn [obind oq_equiv]. apply mat_zo_q.
Qed.

(* congruence of expr_equiv for the constructors used in the statements about mean times *)
Lemma expr_equiv_mul a a' b b' : expr_equiv a a' -> expr_equiv b b' -> expr_equiv (Mul a b) (Mul a' b').
Proof.
  intros Ha Hb r fi Hp. cbn [eval]. apply oq_bind; [apply Ha; exact Hp|]. intros x x' Hx.
  apply oq_bind; [apply Hb; exact Hp|]. intros y y' Hy. cbn [oq_equiv]. rewrite !Qred_correct, Hx, Hy. reflexivity.
Qed.
Lemma expr_equiv_div a a' b b' : expr_equiv a a' -> expr_equiv b b' -> expr_equiv (Div a b) (Div a' b').
Proof.
  intros Ha Hb r fi Hp. cbn [eval]. apply oq_bind; [apply Ha; exact Hp|]. intros x x' Hx.
  apply oq_bind; [apply Hb; exact Hp|]. intros y y' Hy.
  pose proof (relb_proper OEq y y' 0 0 Hy (Qeq_refl 0)) as Hz; cbn [relb] in Hz. rewrite Hz.
  destruct (Qeq_bool y' 0); cbn [oq_equiv]; [exact I|]. rewrite !Qred_correct, Hx, Hy. reflexivity.
Qed.

Lemma transit_mean_time T fi r n mdt :
  templates_equiv T doc_templates -> fi_proper fi ->
  r s_n = Some n -> r s_mdt = Some mdt -> 0 < n -> ~ mdt == 0 ->
  oq_equiv (eval r fi (Mul (Sym s_n) (Div one (t_transit_rate T)))) (Some mdt) /\
  oq_equiv (eval r fi (Mul (Sym s_n) (Div one (t_transit_rate_update T)))) (Some mdt).
Proof.
  intros HT Hp Hn Hm Hpos Hnz. split.
  - eapply oq_trans; [apply (expr_equiv_mul _ _ _ _ (expr_equiv_refl _)
                               (expr_equiv_div _ _ _ _ (expr_equiv_refl _) (te_transit_rate _ _ HT))); exact Hp|].
    eapply oq_trans; [apply eval_sem_e; exact Hp|]. apply (transit_mean_time_sem fi r n mdt); assumption.
  - eapply oq_trans; [apply (expr_equiv_mul _ _ _ _ (expr_equiv_refl _)
                               (expr_equiv_div _ _ _ _ (expr_equiv_refl _) (te_transit_rate_update _ _ HT))); exact Hp|].
    eapply oq_trans; [apply eval_sem_e; exact Hp|]. apply (transit_mean_time_sem fi r n mdt); assumption.
Qed.

Lemma fo_mean_time T fi r mat :
  templates_equiv T doc_templates -> fi_proper fi -> r s_mat = Some mat -> ~ mat == 0 ->
  oq_equiv (eval r fi (Div one (t_fo_rate T))) (Some mat).
Proof.
  intros HT Hp Hm Hnz.
  eapply oq_trans; [apply (expr_equiv_div _ _ _ _ (expr_equiv_refl _) (te_fo_rate _ _ HT)); exact Hp|].
  eapply oq_trans; [apply eval_sem_e; exact Hp|]. apply fo_mean_time_sem; assumption.
Qed.

Lemma zo_mean_time T fi r mat :
  templates_equiv T doc_templates -> fi_proper fi -> r s_mat = Some mat ->
  oq_equiv (eval r fi (Div (t_zo_duration T) (Num 2))) (Some mat).
Proof.
  intros HT Hp Hm.
  eapply oq_trans; [apply (expr_equiv_div _ _ _ _ (te_zo_duration _ _ HT) (expr_equiv_refl _)); exact Hp|].
  eapply oq_trans; [apply eval_sem_e; exact Hp|]. apply zo_mean_time_sem; assumption.
Qed.

(* ---- IIV: neutrality for every template record equivalent to the documented one ------------------- *)
Lemma iiv_neutral_of_equiv T fi r k o p z :
  templates_equiv T doc_templates -> fi_proper fi -> exp_zero_one fi -> iiv_neutral_kind k o = true ->
  r s_original = Some p -> r s_eta_new = Some z -> z == 0 ->
  oq_equiv (eval r fi (t_iiv T k o)) (Some p).
Proof.
  intros HT Hp He Hk Ho Hz Hz0.
  eapply oq_trans; [apply (te_iiv _ _ HT k o r fi Hp)|].
  eapply oq_trans; [apply eval_sem_e; exact Hp|].
  cbn [doc_templates t_iiv]. eapply doc_iiv_neutral_sem; eauto.
Qed.

Lemma iiv_not_neutral_of_equiv T fi r k o p :
  templates_equiv T doc_templates -> fi_proper fi -> exp_zero_one fi ->
  r s_original = Some p -> r s_eta_new = Some 0 ->
  oq_equiv (eval r fi (t_iiv T k o))
           (match k, o with
            | IExp, OpAdd => Some (p + 1)
            | ILogit, _ => Some (p / 2)
            | IReLogit, _ => Some (1 # 2)
            | _, _ => Some p end).
Proof.
  intros HT Hp He Ho Hz.
  eapply oq_trans; [apply (te_iiv _ _ HT k o r fi Hp)|].
  eapply oq_trans; [apply eval_sem_e; exact Hp|]. cbn [doc_templates t_iiv].
  destruct k, o;
    try (apply (doc_iiv_neutral_sem fi r _ _ p 0); auto; reflexivity).
  - apply doc_iiv_exp_add_at_zero; auto.
  - apply doc_iiv_logit_at_zero; auto.
  - apply doc_iiv_logit_at_zero; auto.
  - apply (doc_iiv_relogit_at_zero fi r p); auto.
  - apply (doc_iiv_relogit_at_zero fi r p); auto.
Qed.

(* ---- error models: Y is affine in each epsilon, with the documented prediction and coefficients ---- *)
(* one epsilon: Y[eps := v] = pred + v * coeff, pred and coeff evaluated where eps is undefined *)
Definition shape1 (Y : expr) (eps : id) (pred coeff : expr) : Prop :=
  forall fi r v, fi_proper fi ->
    oq_equiv (eval (upd r eps (Some v)) fi Y)
             (obind (eval (upd r eps None) fi pred) (fun p =>
              obind (eval (upd r eps None) fi coeff) (fun c => Some (p + v * c)))).
Definition shape2 (Y : expr) (e1 e2 : id) (pred c1 c2 : expr) : Prop :=
  forall fi r v1 v2, fi_proper fi ->
    let r0 := upd (upd r e1 None) e2 None in
    oq_equiv (eval (upd (upd r e1 (Some v1)) e2 (Some v2)) fi Y)
             (obind (eval r0 fi pred) (fun p =>
              obind (eval r0 fi c1) (fun a =>
              obind (eval r0 fi c2) (fun b => Some (p + v1 * a + v2 * b))))).

Lemma shape1_equiv Y Y' eps pred coeff : expr_equiv Y Y' -> shape1 Y' eps pred coeff -> shape1 Y eps pred coeff.
Proof. intros HE H fi r v Hp. eapply oq_trans; [apply HE; exact Hp | apply H; exact Hp]. Qed.
Lemma shape2_equiv Y Y' e1 e2 pred c1 c2 : expr_equiv Y Y' -> shape2 Y' e1 e2 pred c1 c2 -> shape2 Y e1 e2 pred c1 c2.
Proof. intros HE H fi r v1 v2 Hp. eapply oq_trans; [apply HE; exact Hp | apply H; exact Hp]. Qed.

Ltac to_sem Hp :=
  repeat match goal with
         | |- context[eval ?r ?fi ?e] =>
             let H := fresh "S" in
             pose proof (eval_sem_e fi r e Hp) as H;
             destruct (eval r fi e); destruct (sem r fi e) eqn:?; cbn [oq_equiv] in H; try contradiction
         end.

Lemma shape1_of_sem Y eps pred coeff :
  (forall fi r v, fi_proper fi ->
     oq_equiv (sem (upd r eps (Some v)) fi Y)
              (obind (sem (upd r eps None) fi pred) (fun p =>
               obind (sem (upd r eps None) fi coeff) (fun c => Some (p + v * c))))) ->
  shape1 Y eps pred coeff.
Proof.
  intros H fi r v Hp.
  eapply oq_trans; [apply eval_sem_e; exact Hp|]. eapply oq_trans; [apply H; exact Hp|].
  apply oq_sym. apply oq_bind; [apply eval_sem_e; exact Hp|]. intros p p' Hpp.
  apply oq_bind; [apply eval_sem_e; exact Hp|]. intros c c' Hc. cbn [oq_equiv]. rewrite Hpp, Hc. reflexivity.
Qed.
Lemma shape2_of_sem Y e1 e2 pred c1 c2 :
  (forall fi r v1 v2, fi_proper fi ->
     let r0 := upd (upd r e1 None) e2 None in
     oq_equiv (sem (upd (upd r e1 (Some v1)) e2 (Some v2)) fi Y)
              (obind (sem r0 fi pred) (fun p => obind (sem r0 fi c1) (fun a =>
               obind (sem r0 fi c2) (fun b => Some (p + v1 * a + v2 * b)))))) ->
  shape2 Y e1 e2 pred c1 c2.
Proof.
  intros H fi r v1 v2 Hp r0.
  eapply oq_trans; [apply eval_sem_e; exact Hp|]. eapply oq_trans; [apply H; exact Hp|].
  apply oq_sym. apply oq_bind; [apply eval_sem_e; exact Hp|]. intros p p' Hpp.
  apply oq_bind; [apply eval_sem_e; exact Hp|]. intros a a' Ha.
  apply oq_bind; [apply eval_sem_e; exact Hp|]. intros b b' Hb. cbn [oq_equiv]. rewrite Hpp, Ha, Hb. reflexivity.
Qed.

Ltac shape_sem :=
  let fi := fresh "fi" in let r := fresh "r" in let Hp := fresh "Hp" in
  intros fi r; intros; 
  match goal with Hp : fi_proper fi |- _ =>
    let P1 := fresh "P1" in let P2 := fresh "P2" in
    pose proof (proj1 Hp) as P1; pose proof (proj2 Hp) as P2;
    cbn -[Qeq_bool Qle_bool Qplus Qmult Qopp Qdiv Qinv oq_equiv];
    destruct_syms r; try exact I;
    repeat (progress (unify_fi P1 P2; destruct_fi; try exact I; destruct_tests));
    finish_q
  end.

Lemma doc_add_shape : shape1 doc_add_error s_eps_a (Sym s_f) one.
Proof. apply shape1_of_sem. shape_sem. Qed.
Lemma doc_prop_shape_id zp :
  shape1 (doc_prop_error DTId zp) s_eps_p (Sym s_x) (if zp then Sym s_ipredadj else Sym s_x).
Proof. apply shape1_of_sem. destruct zp; shape_sem. Qed.
Lemma doc_prop_shape_log zp :
  shape1 (doc_prop_error DTLog zp) s_eps_p (Fn1 F_LOG (if zp then Sym s_ipredadj else Sym s_x)) one.
Proof. apply shape1_of_sem. destruct zp; shape_sem. Qed.
Lemma doc_comb_shape_plain :
  shape2 (doc_comb_error CombPlain) s_eps_p s_eps_a (Sym s_x) (Sym s_x) one.
Proof. apply shape2_of_sem. shape_sem. Qed.
Lemma doc_comb_shape_log :
  shape2 (doc_comb_error CombLog) s_eps_p s_eps_a (Fn1 F_LOG (Sym s_x)) one (Div one (Sym s_x)).
Proof. apply shape2_of_sem. shape_sem. Qed.
Lemma doc_comb_shape_iivruv :
  shape2 (doc_comb_error CombIivRuv) s_eps_p s_eps_a (Sym s_x)
         (Mul (Sym s_x) (Fn1 F_EXP (Sym s_eta_ruv))) (Fn1 F_EXP (Sym s_eta_ruv)).
Proof. apply shape2_of_sem. shape_sem. Qed.

(* the zero-protection guard is the prediction itself wherever the prediction is not 0 *)
Lemma doc_guard_identity fi r f : r s_f = Some f -> ~ f == 0 -> oq_equiv (sem r fi doc_prop_guard) (Some f).
Proof.
  intros Hf Hnz. cbn [doc_prop_guard sem semc]. rewrite Hf. cbn [obind relb].
  assert (E : Qeq_bool f 0 = false) by (destruct (Qeq_bool f 0) eqn:E; [apply Qeq_bool_iff in E; contradiction|reflexivity]).
  rewrite E. cbn. reflexivity.
Qed.
