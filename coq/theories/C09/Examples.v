(* PV.C09.Examples — non-vacuity: a concrete interpretation satisfying every hypothesis about the
   interpretation, concrete environments satisfying the hypotheses of each theorem, and concrete runs
   of the executable models. *)
From Coq Require Import QArith List Bool PArith Arith.
From PV Require Import Base.PyData Base.Expr Base.Interp Base.Stmts C09.Model C09.Proofs C09.ProofsExec C09.ProofsExt C09.ProofsExt2 C09.ProofsExt3.
Import ListNotations.
Local Open Scope Q_scope.

(* an interpretation over Q that respects Qeq, has exp 0 = 1 and 1 ^ y = 1 (it is NOT the real
   exponential: the theorems hold for every such interpretation) *)
Definition ex_fi : finterp :=
  {| fi1 := fun f x => if Pos.eqb f F_EXP then Some (1 + x + x * x) else Some (x - 1);
     fi2 := fun f x y => Some (1 + (x - 1) * (y + 3)) |}.

Example ex_fi_proper : fi_proper ex_fi.
Proof.
  split.
  - intros f x x' H. cbn [ex_fi fi1]. destruct (Pos.eqb f F_EXP); cbn [oq_equiv]; rewrite H; reflexivity.
  - intros f x x' y y' Hx Hy. cbn [ex_fi fi2 oq_equiv]. rewrite Hx, Hy. reflexivity.
Qed.
Example ex_fi_exp0 : exp_zero_one ex_fi.
Proof. unfold exp_zero_one. cbn [ex_fi fi1 Pos.eqb F_EXP oq_equiv]. reflexivity. Qed.
Example ex_fi_pow1 : pow_base_one ex_fi.
Proof. intros y. cbn [ex_fi fi2 oq_equiv]. ring. Qed.

(* the exact interpretation used by the correspondence also has exp 0 = 1 *)
Example std_fi_exp0 : exp_zero_one std_fi.
Proof. vm_compute. reflexivity. Qed.

(* hypotheses of effect_neutral, all four kinds, at a non-trivial reference value *)
Definition ex_env : env :=
  env_of [(s_cov, 13 # 10); (s_median, 13 # 10); (s_theta, 3 # 7); (s_theta1, -2 # 1); (s_theta2, 5 # 1)].

Example effect_neutral_hyps :
  forall k, ex_env s_cov = Some (13 # 10) /\ ex_env s_median = Some (13 # 10) /\ ref_ok k (13 # 10) /\ thetas_defined k ex_env.
Proof.
  intros k. repeat split; try reflexivity; destruct k; cbn; try exact I; try discriminate;
    try (eexists; reflexivity); try (split; eexists; reflexivity).
Qed.

(* away from the reference the effects are not trivially 1: the linear effect at cov = 23/10 *)
Example effect_nontrivial :
  eval (upd ex_env s_cov (Some (23 # 10))) ex_fi (doc_effect ELin) = Some (10 # 7).
Proof. vm_compute. reflexivity. Qed.
Example piecewise_uses_both_thetas :
  eval (upd ex_env s_cov (Some (3 # 10))) ex_fi (doc_effect EPiece) = Some (3 # 1) /\
  eval (upd ex_env s_cov (Some (23 # 10))) ex_fi (doc_effect EPiece) = Some (6 # 1).
Proof. split; vm_compute; reflexivity. Qed.

(* categorical: three levels, most common 7, alternative = false: 1 at 7, 1 + theta_n 1 at 3 *)
Definition ex_cats : list (option Q) := [Some 3; Some 7; Some 9].
Example categorical_example :
  categorical doc_templates ex_cats 7 false =
  PwCons (CRel OEq (Sym s_cov) (Num 7)) (Num 1)
 (PwCons (CRel OEq (Sym s_cov) (Num 3)) (Add (Num 1) (Sym (theta_n 1)))
 (PwCons (CRel OEq (Sym s_cov) (Num 9)) (Add (Num 1) (Sym (theta_n 3))) PwNil)).
Proof. vm_compute. reflexivity. Qed.

(* iiv_neutral hypotheses *)
Example iiv_neutral_kinds :
  iiv_neutral_kind IAdd OpAdd = true /\ iiv_neutral_kind IProp OpMul = true /\ iiv_neutral_kind IExp OpMul = true.
Proof. repeat split. Qed.
Example iiv_nontrivial :
  eval (env_of [(s_original, 5 # 1); (s_eta_new, 1 # 2)]) ex_fi (doc_iiv IProp OpMul) = Some (15 # 2).
Proof. vm_compute. reflexivity. Qed.

(* transit_mdt hypotheses: n = 3, MDT = 5/2 *)
Example transit_example : 0 < 3 /\ ~ (5 # 2) == 0 /\ 3 * (1 / (3 / (5 # 2))) == 5 # 2.
Proof. repeat split; try discriminate. Qed.

(* the statement surgery on a small model:  TVCL = t; CL = TVCL * exp(eta); V = CL  + lin effect of WGT on CL *)
Definition xT : id := 201%positive. Definition xTVCL : id := 202%positive. Definition xCL : id := 203%positive.
Definition xETA : id := 204%positive. Definition xV : id := 205%positive. Definition xWGT : id := 206%positive.
Definition xTH : id := 207%positive. Definition xCLWGT : id := 208%positive. Definition xWGTMED : id := 209%positive.
Definition ex_prog : list stmt :=
  [Assign xTVCL (Sym xT); Assign xCL (Mul (Sym xTVCL) (Fn1 F_EXP (Sym xETA))); Assign xV (Sym xCL)].
Definition ex_args : cov_args :=
  {| a_param := xCL; a_cov := xWGT; a_kind := DLin; a_cats := []; a_mc := 0; a_op := OpMul;
     a_thetas := [(s_theta, xTH)]; a_effect := xCLWGT; a_stats := [(s_median, xWGTMED, 13 # 10)];
     a_cov_possible := [xCL; xCLWGT] |}.
Example add_covariate_effect_example :
  add_covariate_effect doc_templates ex_args ex_prog =
  Some [Assign xWGTMED (Num (13 # 10));
        Assign xTVCL (Sym xT); Assign xCL (Mul (Sym xTVCL) (Fn1 F_EXP (Sym xETA)));
        Assign xCLWGT (Add (Num 1) (Mul (Sym xTH) (Add (Sym xWGT) (Neg (Sym xWGTMED)))));
        Assign xCL (Mul (Sym xCL) (Sym xCLWGT));
        Assign xV (Sym xCL)].
Proof. vm_compute. reflexivity. Qed.

Example add_iiv_example :
  add_iiv doc_templates IProp OpMul xTVCL xETA xV ex_prog =
  Some [Assign xTVCL (Mul (Sym xT) (Add (Num 1) (Sym xETA)));
        Assign xCL (Mul (Sym xTVCL) (Fn1 F_EXP (Sym xETA))); Assign xV (Sym xCL)].
Proof. vm_compute. reflexivity. Qed.

Example median_of_medians_example :
  median_of_medians [[14 # 10; 14 # 10]; [15 # 10]; [12 # 10; 13 # 10; 16 # 10]; [11 # 10]] = Some (27 # 20).
Proof. vm_compute. reflexivity. Qed.

(* hypotheses of covariate_effect_program_neutral on the small model above: the guard holds, the spec program
   exists and differs from the original, covariate and theta are not assigned *)
Definition ex_args3 : cov_args :=
  {| a_param := xCL; a_cov := xWGT; a_kind := DLin; a_cats := []; a_mc := 0; a_op := OpMul;
     a_thetas := [(s_theta, xTH)]; a_effect := xCLWGT;
     a_stats := [(s_mean, 210%positive, 3 # 2); (s_median, xWGTMED, 13 # 10); (s_std, 211%positive, 1 # 4)];
     a_cov_possible := [xCL; xCLWGT] |}.
Example program_neutral_hyps :
  (g_cov_args ex_args3 ELin = true) /\ (@eq binop (a_op ex_args3) OpMul) /\
  (exists l', spec_covariate_effect ex_args3 ex_prog = Some l' /\ length l' = 4%nat) /\
  ~ In xWGT (flat_map defs ex_prog) /\ ~ In xTH (flat_map defs ex_prog) /\
  (@eq Q (median_of (a_stats ex_args3)) (13 # 10)).
Proof.
  repeat split; try reflexivity.
  - eexists; split; vm_compute; reflexivity.
  - cbn. intuition discriminate.
  - cbn. intuition discriminate.
Qed.
(* ... and away from the reference value the spec program really changes CL (so neutrality is not vacuous) *)
Example program_effect_nontrivial :
  match spec_covariate_effect ex_args3 ex_prog with
  | Some l' => run [(xT, 2); (xETA, 0); (xWGT, 23 # 10); (xTH, 3)] l' xV
  | None => None end = Some (8 # 1).
Proof. vm_compute. reflexivity. Qed.

Example iiv_program_hyps :
  iiv_neutral_kind IProp OpMul = true /\ not_placeholder xETA = true /\
  (exists l', spec_iiv IProp OpMul xTVCL xETA ex_prog = Some l') /\ ~ In xETA (flat_map defs ex_prog).
Proof. repeat split; try reflexivity. - eexists; reflexivity. - cbn. intuition discriminate. Qed.

(* the oracle used by the correspondence respects Qeq (hypothesis ode_proper) *)
Example std_ode_proper : ode_proper std_ode.
Proof.
  intros a vs vs' H. unfold std_ode.
  assert (S : oq_equiv (osum vs) (osum vs')).
  { induction H as [|x y l l' Hxy Hl IH]; cbn [osum]; [reflexivity|].
    destruct x, y; cbn [oq_equiv] in Hxy; try contradiction; [|exact I].
    destruct (osum l), (osum l'); cbn [oq_equiv] in IH |- *; try contradiction; [|exact I].
    rewrite !Qred_correct, Hxy, IH. reflexivity. }
  destruct (osum vs), (osum vs'); cbn [oq_equiv] in S |- *; try contradiction; [|exact I].
  rewrite !Qred_correct, S. reflexivity.
Qed.

(* hypotheses of add_covariate_effect_sound on the small model: guard true, both programs exist; the grouping
   branch is reached on a program whose last assignment of CL is CL = CL * CLAPGR *)
Example surgery_guard_example :
  g_surgery doc_templates ex_args3 ex_prog = true /\
  (exists lm, add_covariate_effect doc_templates ex_args3 ex_prog = Some lm /\ length lm = 6%nat) /\
  (exists ls, spec_covariate_effect ex_args3 ex_prog = Some ls).
Proof. repeat split; try (vm_compute; reflexivity); eexists; try split; vm_compute; reflexivity. Qed.

Definition xCLAPGR : id := 212%positive.
Definition ex_prog_grouped : list stmt :=
  [Assign xTVCL (Sym xT); Assign xCL (Mul (Sym xTVCL) (Fn1 F_EXP (Sym xETA)));
   Assign xCLAPGR (Num 2); Assign xCL (Mul (Sym xCL) (Sym xCLAPGR)); Assign xV (Sym xCL)].
Definition ex_args4 : cov_args :=
  {| a_param := xCL; a_cov := xWGT; a_kind := DPow; a_cats := []; a_mc := 0; a_op := OpMul;
     a_thetas := [(s_theta, xTH)]; a_effect := xCLWGT;
     a_stats := [(s_mean, 210%positive, 3 # 2); (s_median, xWGTMED, 13 # 10); (s_std, 211%positive, 1 # 4)];
     a_cov_possible := [xCL; xCLWGT; xCLAPGR] |}.
Example surgery_grouped_example :
  g_surgery doc_templates ex_args4 ex_prog_grouped = true /\
  add_covariate_effect doc_templates ex_args4 ex_prog_grouped =
  Some [Assign xWGTMED (Num (13 # 10));
        Assign xTVCL (Sym xT); Assign xCL (Mul (Sym xTVCL) (Fn1 F_EXP (Sym xETA))); Assign xCLAPGR (Num 2);
        Assign xCLWGT (Fn2 F_POW (Div (Sym xWGT) (Sym xWGTMED)) (Sym xTH));
        Assign xCL (Mul (Mul (Sym xCL) (Sym xCLAPGR)) (Sym xCLWGT));
        Assign xV (Sym xCL)].
Proof. split; vm_compute; reflexivity. Qed.

(* ---- IOV: two levels, one requested eta; hypotheses of add_iov_sound / remove_add_iov and a non-trivial run ---- *)
Definition xOCC : id := 220%positive. Definition xIOV1 : id := 221%positive. Definition xETAI1 : id := 222%positive.
Definition xE11 : id := 223%positive. Definition xE12 : id := 224%positive.
Definition ex_items : list iov_item :=
  [{| ie_eta := xETA; ie_iov := xIOV1; ie_etai := xETAI1; ie_levels := [(0, xE11); (1, xE12)] |}].
Definition ex_prog_add : list stmt :=   (* additive eta so that values stay rational under std_fi *)
  [Assign xTVCL (Sym xT); Assign xCL (Add (Sym xTVCL) (Sym xETA)); Assign xV (Sym xCL)].
Example add_iov_example :
  add_iov xOCC ex_items ex_prog_add =
  [Assign xIOV1 (Num 0);
   Assign xIOV1 (PwCons (CRel OEq (Num 0) (Sym xOCC)) (Sym xE11) (PwCons (CRel OEq (Num 1) (Sym xOCC)) (Sym xE12) PwNil));
   Assign xETAI1 (Add (Sym xETA) (Sym xIOV1));
   Assign xTVCL (Sym xT); Assign xCL (Add (Sym xTVCL) (Sym xETAI1)); Assign xV (Sym xCL)].
Proof. vm_compute. reflexivity. Qed.
Example add_iov_hyps :
  NoDup (item_fresh ex_items) /\ inputs_ok xOCC ex_items (item_fresh ex_items) /\
  ~ In xETA (item_fresh ex_items) /\ ~ In xETA (flat_map defs ex_prog_add) /\
  (* eta = 5, occasion 1 with IOV eta 7: V = 2 + (5 + 7) = 14 on both sides *)
  run [(xT, 2); (xETA, 5); (xOCC, 1); (xE11, 3); (xE12, 7)] (add_iov xOCC ex_items ex_prog_add) xV = Some (14 # 1) /\
  exec std_fi std_ode (shift xOCC ex_items (env_of [(xT, 2); (xETA, 5); (xOCC, 1); (xE11, 3); (xE12, 7)])
                         (env_of [(xT, 2); (xETA, 5); (xOCC, 1); (xE11, 3); (xE12, 7)])) ex_prog_add xV = Some (14 # 1) /\
  run [(xT, 2); (xETA, 5); (xOCC, 1); (xE11, 3); (xE12, 7)] (remove_iov [xE11; xE12] (add_iov xOCC ex_items ex_prog_add)) xV = Some (7 # 1).
Proof.
  repeat split; try (vm_compute; reflexivity).
  - repeat constructor; cbn; intuition discriminate.
  - cbn. intuition discriminate.
  - cbn. intros it [<-|[]] e [<-|[<-|[]]]; cbn; intuition discriminate.
  - cbn. intuition discriminate.
  - cbn. intuition discriminate.
Qed.

(* ---- allometry: hypotheses of allometry_program_neutral; away from the reference the parameter changes ---- *)
Definition xALLO : id := 225%positive.
Example allometry_example :
  add_allometry doc_templates xWGT 70 [(xCL, xALLO)] ex_prog_add =
  [Assign xTVCL (Sym xT); Assign xCL (Add (Sym xTVCL) (Sym xETA));
   Assign xCL (Mul (Sym xCL) (Fn2 F_POW (Div (Sym xWGT) (Num 70)) (Sym xALLO))); Assign xV (Sym xCL)] /\
  ~ In xWGT (flat_map defs ex_prog_add) /\ ~ In xALLO (flat_map defs ex_prog_add) /\
  run [(xT, 2); (xETA, 1); (xWGT, 140); (xALLO, 2)] (add_allometry doc_templates xWGT 70 [(xCL, xALLO)] ex_prog_add) xV = Some (12 # 1) /\
  run [(xT, 2); (xETA, 1); (xWGT, 70); (xALLO, 2)] (add_allometry doc_templates xWGT 70 [(xCL, xALLO)] ex_prog_add) xV = Some (3 # 1).
Proof. repeat split; try (vm_compute; reflexivity); cbn; intuition discriminate. Qed.

(* ---- BLQ (M4): Y = F + F*EPS; above the LLOQ the model value of Y is the original one, F_FLAG = 0 ---- *)
Definition xY : id := 230%positive. Definition xF : id := 231%positive. Definition xEPS : id := 232%positive.
Definition xSD : id := 233%positive. Definition xLLOQ : id := 234%positive. Definition xFFLAG : id := 235%positive.
Definition xCUMD : id := 236%positive. Definition xCUMDZ : id := 237%positive. Definition xDV : id := 238%positive.
Definition ex_blq_prog : list stmt := [Assign xF (Sym xT); Assign xY (Add (Sym xF) (Mul (Sym xF) (Sym xEPS)))].
Definition ex_blq_args : blq_args :=
  {| b_y := xY; b_sd_stmt := Assign xSD (Sym xF); b_sd := xSD; b_lloq_stmt := Some (Assign xLLOQ (Num (1 # 10)));
     b_level := Sym xLLOQ; b_above := CRel OGe (Sym xDV) (Sym xLLOQ);
     b_fflag := xFFLAG; b_cumd := xCUMD; b_cumdz := xCUMDZ; b_epsilons := [xEPS]; b_m4 := true |}.
Example blq_example :
  match transform_blq ex_blq_args ex_blq_prog with
  | Some l' => length l' = 7%nat /\
      run [(xT, 4); (xEPS, 1); (xDV, 3)] l' xFFLAG = Some 0 /\
      run [(xT, 4); (xEPS, 1); (xDV, 3)] l' xY = run [(xT, 4); (xEPS, 1); (xDV, 3)] ex_blq_prog xY /\
      run [(xT, 4); (xEPS, 1); (xDV, 0)] l' xFFLAG = Some 1
  | None => False
  end /\ ~ In xY (blq_fresh ex_blq_args).
Proof. split; [vm_compute; repeat split; reflexivity | cbn; intuition discriminate]. Qed.

(* ---- transit rates: three detected compartments with rates 5/MDT (one through a rate symbol) become 3/MDT ---- *)
Definition xK12 : id := 240%positive.
Example update_numerators_example :
  rates_after_update [{| tr_numer := NInt 5; tr_denom := Sym s_mdt |}; {| tr_numer := NSym xK12; tr_denom := Num 1 |};
                      {| tr_numer := NInt 5; tr_denom := Sym s_mdt |}] [(xK12, (NInt 5, Sym s_mdt))]
  = ([{| tr_numer := NInt 3; tr_denom := Sym s_mdt |}; {| tr_numer := NSym xK12; tr_denom := Num 1 |};
      {| tr_numer := NInt 3; tr_denom := Sym s_mdt |}], [(xK12, (NInt 3, Sym s_mdt))]).
Proof. vm_compute. reflexivity. Qed.

(* ---- error-model setters at program level: hypotheses of error_model_program_sound(_zero_protection) ---- *)
Definition xEPSP : id := 241%positive. Definition xIPA : id := 242%positive.
Example error_program_hyps :
  single_assignment ex_blq_prog xY 1 (Add (Sym xF) (Mul (Sym xF) (Sym xEPS))) /\
  find_first_from (mentions_stmt xIPA)
    (firstn 1 ex_blq_prog ++ Assign xY (prop_y_expr doc_templates DTId xEPSP xIPA
                                         (zero_eps [xEPS] (Add (Sym xF) (Mul (Sym xF) (Sym xEPS))))) :: skipn 2 ex_blq_prog) 0
  = Some 1%nat /\
  (* F = T; Y = F + F*EPS; proportional with zero protection, T = 4, new epsilon = 3: Y = 4 + 4*3 *)
  match set_proportional doc_templates DTId true xY xEPSP xIPA [xEPS] ex_blq_prog with
  | Some l' => length l' = 3%nat /\ run [(xT, 4); (xEPS, 7); (xEPSP, 3)] l' xY = Some (16 # 1)
  | None => False end.
Proof.
  split; [|split; [vm_compute; reflexivity | vm_compute; split; reflexivity]].
  repeat split; cbn; intuition discriminate.
Qed.

(* the IOV distributions: two etas, two levels, joint: two distributions with the same symmetric matrix *)
Example iov_dists_example :
  iov_dists (fun i k => Pos.of_nat (300 + 10 * i + k)) (fun i j => Pos.of_nat (400 + 10 * i + j)) [[1; 2]%nat] 2 =
  [{| rd_names := [311; 321]%positive; rd_sigma := [[411; 412]; [412; 422]]%positive |};
   {| rd_names := [312; 322]%positive; rd_sigma := [[411; 412]; [412; 422]]%positive |}].
Proof. vm_compute. reflexivity. Qed.

(* ---- set_iiv_on_ruv with two epsilons sharing one eta: Y = F + F*E1 + E2, eta = 1 (exp 1 = 2 under std_fi) ---- *)
Definition xE1 : id := 251%positive. Definition xE2 : id := 252%positive. Definition xERV : id := 253%positive.
Definition ex_ruv_prog : list stmt :=
  [Assign xF (Sym xT); Assign xY (Add (Add (Sym xF) (Mul (Sym xF) (Sym xE1))) (Sym xE2))].
Example set_iiv_on_ruv_all_hyps :
  set_iiv_on_ruv doc_templates [(xE1, xERV); (xE2, xERV)] ex_ruv_prog =
  [Assign xF (Sym xT);
   Assign xY (Add (Add (Sym xF) (Mul (Sym xF) (Mul (Sym xE1) (Fn1 F_EXP (Sym xERV))))) (Mul (Sym xE2) (Fn1 F_EXP (Sym xERV))))] /\
  NoDup (map fst [(xE1, xERV); (xE2, xERV)]) /\ ~ In xERV (map fst [(xE1, xERV); (xE2, xERV)]) /\
  ~ In xE1 (flat_map defs ex_ruv_prog) /\ ~ In xE2 (flat_map defs ex_ruv_prog) /\
  (* T = 4, E1 = 3, E2 = 5, eta = 1: Y = 4 + 4*(3*2) + 5*2 = 38 on both sides *)
  run [(xT, 4); (xE1, 3); (xE2, 5); (xERV, 1)] (set_iiv_on_ruv doc_templates [(xE1, xERV); (xE2, xERV)] ex_ruv_prog) xY = Some (38 # 1) /\
  exec std_fi std_ode (ruv_scale std_fi doc_ruv_expr [(xE1, xERV); (xE2, xERV)] (env_of [(xT, 4); (xE1, 3); (xE2, 5); (xERV, 1)]))
       ex_ruv_prog xY = Some (38 # 1).
Proof.
  repeat split; try (vm_compute; reflexivity); try (cbn; intuition discriminate).
  repeat constructor; cbn; intuition discriminate.
Qed.
