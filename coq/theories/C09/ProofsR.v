(* PV.C09.ProofsR — the same neutrality statements over the REAL numbers with Coq's exp / ln / Rpower:
   the hypotheses "exp 0 = 1, 1^y = 1" of the Q-level theorems are facts of the intended interpretation.
   (These proofs depend on the axioms of Coq.Reals; they are reported by Print Assumptions.) *)
From Coq Require Import Reals Rpower QArith Qreals List Bool PArith Lra.
From PV Require Import Base.Expr Base.Interp C09.Model.
Local Open Scope R_scope.

Definition envR := id -> option R.

Definition relR (o : relop) (x y : R) : bool :=
  match o with
  | OLt => if Rlt_dec x y then true else false
  | OLe => if Rle_dec x y then true else false
  | OEq => if Req_EM_T x y then true else false
  | ONe => if Req_EM_T x y then false else true
  | OGt => if Rlt_dec y x then true else false
  | OGe => if Rle_dec y x then true else false
  end.

Definition fn1R (f : id) (x : R) : option R :=
  if Pos.eqb f F_EXP then Some (exp x)
  else if Pos.eqb f F_LOG then (if Rlt_dec 0 x then Some (ln x) else None)
  else None.
Definition fn2R (f : id) (x y : R) : option R :=
  if Pos.eqb f F_POW then (if Rlt_dec 0 x then Some (Rpower x y) else None) else None.

Fixpoint evalR (r : envR) (e : expr) : option R :=
  match e with
  | Num q => Some (Q2R q)
  | Sym s => r s
  | Fn1 f a => obind (evalR r a) (fn1R f)
  | Fn2 f a b => obind (evalR r a) (fun x => obind (evalR r b) (fun y => fn2R f x y))
  | Add a b => obind (evalR r a) (fun x => obind (evalR r b) (fun y => Some (x + y)))
  | Mul a b => obind (evalR r a) (fun x => obind (evalR r b) (fun y => Some (x * y)))
  | Neg a => obind (evalR r a) (fun x => Some (- x))
  | Div a b => obind (evalR r a) (fun x => obind (evalR r b) (fun y =>
                 if Req_EM_T y 0 then None else Some (x / y)))
  | PwNil => None
  | PwCons c e rest => obind (evalcR r c) (fun b => if b then evalR r e else evalR r rest)
  end
with evalcR (r : envR) (c : cond) : option bool :=
  match c with
  | CTrue => Some true
  | CFalse => Some false
  | CRel o a b => obind (evalR r a) (fun x => obind (evalR r b) (fun y => Some (relR o x y)))
  | CAnd a b => obind (evalcR r a) (fun x => obind (evalcR r b) (fun y => Some (andb x y)))
  | COr a b => obind (evalcR r a) (fun x => obind (evalcR r b) (fun y => Some (orb x y)))
  | CNot a => obind (evalcR r a) (fun x => Some (negb x))
  end.

Lemma Q2R_1 : Q2R 1 = 1.
Proof. unfold Q2R; cbn. field. Qed.

Lemma Rpower_base_1 y : Rpower 1 y = 1.
Proof. unfold Rpower. rewrite ln_1, Rmult_0_r. apply exp_0. Qed.

Definition ref_okR (k : ekind) (m : R) : Prop := match k with EPow => 0 < m | _ => True end.
Definition thetas_definedR (k : ekind) (r : envR) : Prop :=
  match k with
  | EPiece => (exists t, r s_theta1 = Some t) /\ (exists t, r s_theta2 = Some t)
  | _ => exists t, r s_theta = Some t
  end.

(* a tactic that evaluates a concrete template at the reference point *)
Ltac evalR_ref Hc Hm :=
  cbn [evalR evalcR doc_effect Sub one]; rewrite ?Hc, ?Hm; cbn [obind].

Lemma doc_effect_neutral_R r k m :
  r s_cov = Some m -> r s_median = Some m -> ref_okR k m -> thetas_definedR k r ->
  evalR r (doc_effect k) = Some 1.
Proof.
  intros Hc Hm Hk Ht. destruct k; evalR_ref Hc Hm.
  - destruct Ht as [t Ht]; rewrite Ht; cbn [obind]. rewrite Q2R_1. apply f_equal. ring.
  - destruct Ht as [[t1 H1] [t2 H2]]; rewrite H1, H2; cbn [obind relR].
    destruct (Rle_dec m m) as [_|N]; [|exfalso; apply N; apply Rle_refl].
    rewrite Q2R_1. apply f_equal. ring.
  - destruct Ht as [t Ht]; rewrite Ht; cbn [obind]. unfold fn1R. cbn [Pos.eqb F_EXP].
    apply f_equal. replace (t * (m + - m)) with 0 by ring. apply exp_0.
  - destruct Ht as [t Ht]; rewrite Ht; cbn [obind]. cbn [ref_okR] in Hk.
    destruct (Req_EM_T m 0) as [E|_]; [exfalso; lra|]. cbn [obind]. unfold fn2R. cbn [Pos.eqb F_POW].
    replace (m / m) with 1 by (field; lra).
    destruct (Rlt_dec 0 1) as [_|N]; [|exfalso; lra]. apply f_equal. apply Rpower_base_1.
Qed.

Ltac iivR Ho Hz :=
  cbn [evalR doc_iiv apply_op one]; rewrite ?Ho, ?Hz; cbn [obind];
  unfold fn1R; cbn [Pos.eqb F_EXP]; rewrite ?Rmult_0_r, ?exp_0; cbn [obind]; rewrite ?Q2R_1.

Lemma doc_iiv_neutral_R r k o p :
  match k, o with IAdd, _ | IProp, _ | IExp, OpMul => True | _, _ => False end ->
  r s_original = Some p -> r s_eta_new = Some 0 ->
  evalR r (doc_iiv k o) = Some p.
Proof.
  intros Hk Ho Hz. destruct k, o; try contradiction; iivR Ho Hz; apply f_equal; ring.
Qed.

(* the three non-neutral forms over the reals: P + 1, P / 2, 1 / 2 *)
Lemma doc_iiv_not_neutral_R r p :
  r s_original = Some p -> r s_eta_new = Some 0 ->
  evalR r (doc_iiv IExp OpAdd) = Some (p + 1) /\
  evalR r (doc_iiv ILogit OpMul) = Some (p / 2) /\
  evalR r (doc_iiv IReLogit OpMul) = Some (1 / 2).
Proof.
  intros Ho Hz. repeat split; iivR Ho Hz.
  - reflexivity.
  - destruct (Req_EM_T (1 + 1) 0) as [E|_]; [exfalso; lra|]. apply f_equal. field.
  - destruct (Req_EM_T (1 + 1) 0) as [E|_]; [exfalso; lra|]. reflexivity.
Qed.

(* mean transit / absorption times over R *)
Lemma transit_mdt_R (n mdt : R) : 0 < n -> mdt <> 0 -> n * (1 / (n / mdt)) = mdt.
Proof. intros. field. split; lra. Qed.
