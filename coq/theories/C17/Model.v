(* PV.C17.Model — executable model of pharmpy.workflows (workflow.py, task.py, execute.py,
   dispatchers/local_dask/run.py with the threaded scheduler) and of the two engines underneath:
   the insertion-ordered networkx DiGraph and dask's graph-spec evaluation.  No proofs here.

   1. ordered digraph: node list + per-node successor / predecessor lists, every one in dict
      insertion order (networkx 3.x: _node/_succ/_pred always share one key order)
   2. values, tasks, WorkflowBuilder operations, Workflow(builder), insert_context,
      execute_workflow's preparation, as_dask_dict
   3. a scheduler that runs any dependency system in a given order (each key once, only when its
      dependencies are done), its deterministic greedy instance
   4. dask: convert_legacy_task + Task.__call__ as one evaluator of a computation under a cache
   5. reference: sequential evaluation of the task graph in a topological order *)
From Coq Require Import List Bool PArith Arith.
From PV Require Import Base.PyData.
Import ListNotations.
Local Open Scope nat_scope.

(* ================================================================================ 1. digraph *)
Section Graph.
  Variable A : Type.
  Variable eqb : A -> A -> bool.

  Definition mem (x : A) (l : list A) : bool := existsb (eqb x) l.
  (* d[x] = ... on an insertion-ordered dict used as an ordered set: keeps the old position *)
  Definition snoc_new (l : list A) (x : A) : list A := if mem x l then l else l ++ [x].
  Definition del (x : A) (l : list A) : list A := filter (fun y => negb (eqb x y)) l.

  Record graph := mkG { nodes : list A; succ : A -> list A; pred : A -> list A }.

  Definition g_empty : graph := mkG [] (fun _ => []) (fun _ => []).
  Definition has_node (g : graph) (n : A) : bool := mem n (nodes g).
  Definition has_edge (g : graph) (u v : A) : bool := mem v (succ g u).

  (* DiGraph.add_node: new nodes go to the end of _node/_succ/_pred, existing ones stay *)
  Definition add_node (g : graph) (n : A) : graph :=
    if has_node g n then g
    else mkG (nodes g ++ [n]) (fun x => if eqb x n then [] else succ g x)
                              (fun x => if eqb x n then [] else pred g x).

  (* DiGraph.add_edge(u, v): adds u then v when missing; _succ[u][v] = dd; _pred[v][u] = dd *)
  Definition add_edge (g : graph) (u v : A) : graph :=
    let g1 := add_node (add_node g u) v in
    mkG (nodes g1)
        (fun x => if eqb x u then snoc_new (succ g1 u) v else succ g1 x)
        (fun x => if eqb x v then snoc_new (pred g1 v) u else pred g1 x).

  (* DiGraph.remove_node(n) *)
  Definition remove_node (g : graph) (n : A) : graph :=
    mkG (del n (nodes g))
        (fun x => if eqb x n then [] else del n (succ g x))
        (fun x => if eqb x n then [] else del n (pred g x)).

  Definition add_nodes (g : graph) (l : list A) : graph := fold_left add_node l g.
  Definition add_edges (g : graph) (l : list (A * A)) : graph :=
    fold_left (fun g e => add_edge g (fst e) (snd e)) l g.

  (* G.edges: for n, nbrs in _adj.items(): for nbr in nbrs *)
  Definition edges (g : graph) : list (A * A) :=
    flat_map (fun u => map (fun v => (u, v)) (succ g u)) (nodes g).

  (* Graph.copy(): add_nodes_from(self._node); add_edges_from(u, v for u, nbrs in _adj for v in nbrs) *)
  Definition copy (g : graph) : graph := add_edges (add_nodes g_empty (nodes g)) (edges g).

  (* nx.compose(G, H) = compose_all([G, H]) *)
  Definition compose (g h : graph) : graph :=
    add_edges (add_nodes (add_edges (add_nodes g_empty (nodes g)) (edges g)) (nodes h)) (edges h).

  (* nx.relabel_nodes(G, {old: new}, copy=False): used by replace_task before /repo 4400919; kept as the
     documented in-place variant (regression examples) *)
  Definition relabel1 (g : graph) (old new : A) : graph :=
    if negb (has_node g old) then g else
    let g1 := add_node g new in
    if eqb new old then g1 else
    let ne := map (fun t => (new, if eqb old t then new else t)) (succ g1 old)
              ++ map (fun s => (if eqb old s then new else s, new)) (pred g1 old) in
    add_edges (remove_node g1 old) ne.

  (* nx.relabel_nodes(G, {old: new}, copy=True) = _relabel_copy: H = G.__class__();
     H.add_nodes_from(mapping.get(n, n) for n in G); H.add_edges_from((m n1, m n2) for n1, n2 in G.edges).
     Node positions are kept; predecessor lists are rebuilt in G.edges order. *)
  Definition ren (old new x : A) : A := if eqb x old then new else x.
  Definition relabel_copy (g : graph) (old new : A) : graph :=
    add_edges (add_nodes g_empty (map (ren old new) (nodes g)))
              (map (fun e => (ren old new (fst e), ren old new (snd e))) (edges g)).

  (* nx.edge_dfs(G, source, orientation='reverse'), the sources of the yielded edges (WorkflowBase.
     get_upstream_tasks): a stack; every node gets an iterator over its in-edges when it is first on top;
     an edge is yielded when taken from the iterator of the top node, and its source is pushed.
     [its] = the iterators created so far (what is left of them). *)
  Fixpoint it_get (its : list (A * list A)) (n : A) : option (list A) :=
    match its with
    | [] => None
    | (m, l) :: tl => if eqb n m then Some l else it_get tl n
    end.
  Fixpoint it_set (its : list (A * list A)) (n : A) (l : list A) : list (A * list A) :=
    match its with
    | [] => [(n, l)]
    | (m, l') :: tl => if eqb n m then (m, l) :: tl else (m, l') :: it_set tl n l
    end.
  Fixpoint edge_dfs_rev (fuel : nat) (g : graph) (stack : list A) (its : list (A * list A)) : list A :=
    match fuel with
    | 0 => []
    | S f =>
        match stack with
        | [] => []
        | cur :: below =>
            let its1 := match it_get its cur with Some _ => its | None => it_set its cur (pred g cur) end in
            match it_get its1 cur with
            | Some (u :: rest) => u :: edge_dfs_rev f g (u :: stack) (it_set its1 cur rest)
            | _ => edge_dfs_rev f g below its1
            end
        end
    end.
  Definition upstream (g : graph) (n : A) : list A :=
    if has_node g n then edge_dfs_rev (2 * length (edges g) + 2) g [n] [] else [].

  (* strict ancestors by saturation: the specification of get_upstream_tasks as a set *)
  Fixpoint ancestors_from (fuel : nat) (g : graph) (frontier seen : list A) : list A :=
    match fuel with
    | 0 => seen
    | S f =>
        let new := filter (fun x => negb (mem x seen)) (flat_map (pred g) frontier) in
        match new with
        | [] => seen
        | _ => ancestors_from f g new (fold_left snoc_new new seen)
        end
    end.
  Definition ancestors (g : graph) (n : A) : list A := ancestors_from (length (nodes g)) g [n] [].

  Definition out_deg0 (g : graph) (n : A) : bool := match succ g n with [] => true | _ => false end.
  Definition in_deg0 (g : graph) (n : A) : bool := match pred g n with [] => true | _ => false end.
  Definition output_nodes (g : graph) : list A := filter (out_deg0 g) (nodes g).
  Definition input_nodes (g : graph) : list A := filter (in_deg0 g) (nodes g).
End Graph.

Arguments mkG {A}. Arguments nodes {A}. Arguments succ {A}. Arguments pred {A}.
Arguments g_empty {A}.

(* ================================================================== 3. scheduling (generic) *)
(* A dependency system: keys, deps k, comp k (values of the keys done so far).  [run] executes the
   keys of a schedule one after the other; a key may only run when it has not run yet and all its
   dependencies have (dask local scheduler: waiting -> ready -> running -> finished).  Any order in
   which a thread pool completes tasks is such a schedule. *)
Section Sched.
  Variables K V : Type.
  Variable keqb : K -> K -> bool.
  Variable dflt : V.
  Variable deps : K -> list K.
  Variable comp : K -> (K -> V) -> V.

  Definition cache := list (K * V).
  Fixpoint cget (c : cache) (k : K) : V :=
    match c with
    | [] => dflt
    | (k', v) :: tl => if keqb k k' then v else cget tl k
    end.
  Definition done (c : cache) : list K := map fst c.
  Definition ready (dn : list K) (k : K) : bool :=
    negb (mem K keqb k dn) && forallb (fun d => mem K keqb d dn) (deps k).

  Fixpoint run (sched : list K) (c : cache) : option cache :=
    match sched with
    | [] => Some c
    | k :: tl => if ready (done c) k then run tl (c ++ [(k, comp k (cget c))]) else None
    end.

  (* deterministic schedule: always the first ready key of [univ] *)
  Fixpoint greedy_sched (fuel : nat) (univ : list K) (dn : list K) : list K :=
    match fuel with
    | 0 => []
    | S f => match find (ready dn) univ with
             | Some k => k :: greedy_sched f univ (dn ++ [k])
             | None => []
             end
    end.
End Sched.

(* ============================================================================ 2. values, tasks *)
(* Python values that can be static task inputs / task results, as far as dask distinguishes them:
   strings (compared with graph keys), callables, tuples, lists, dicts (never interpreted by the threaded
   scheduler, but inspected by as_dask_dict), dask literal wrappers, everything else (ints, None, models,
   the context object) *)
Inductive sval : Type :=
| SStr (s : positive)
| SAtom (a : positive)
| SFun (f : positive)
| STuple (l : list sval)
| SList (l : list sval)
| SDict (ks vs : list sval)     (* a dict: keys and values in item order *)
| SLit (v : sval)               (* a dask.core.literal(v) object: callable, literal(v)() = v *)
| SFut (v : sval).              (* a distributed Future made by client.scatter(v): the scheduler hands v to the task *)

Fixpoint sval_eqb (a b : sval) : bool :=
  let fix go (l m : list sval) : bool :=
      match l, m with
      | [], [] => true
      | x :: l', y :: m' => sval_eqb x y && go l' m'
      | _, _ => false
      end in
  match a, b with
  | SStr x, SStr y => Pos.eqb x y
  | SAtom x, SAtom y => Pos.eqb x y
  | SFun x, SFun y => Pos.eqb x y
  | STuple l, STuple m => go l m
  | SList l, SList m => go l m
  | SDict k1 v1, SDict k2 v2 => go k1 k2 && go v1 v2
  | SLit x, SLit y => sval_eqb x y
  | SFut x, SFut y => sval_eqb x y
  | _, _ => false
  end.

(* callable(x) *)
Definition is_callable (a : sval) : bool := match a with SFun _ | SLit _ => true | _ => false end.

(* Task objects are hashed by identity.  [tid] names the object the user created (Task.replace keeps
   the name), [tuid] is the identity of the object itself: the user's tasks have tuid = tid, every
   Task.replace() makes an object with a fresh tuid taken from a counter. *)
Record task := mkTask {
  tid : positive; tuid : positive; tfun : positive; tinputs : list sval;
  tctx : bool   (* first parameter of the function is called 'context' *)
}.

Definition task_eqb (a b : task) : bool :=
  Pos.eqb (tid a) (tid b) && Pos.eqb (tuid a) (tuid b) && Pos.eqb (tfun a) (tfun b)
  && list_eqb sval_eqb (tinputs a) (tinputs b) && Bool.eqb (tctx a) (tctx b).

Definition tgraph := graph task.
Definition tmem := mem task task_eqb.

(* task.replace(task_input=inp): a new object *)
Definition task_replace (t : task) (inp : list sval) (u : positive) : task :=
  mkTask (tid t) u (tfun t) inp (tctx t).

(* ---- WorkflowBuilder ------------------------------------------------------------------------ *)
Definition add_task (g : tgraph) (t : task) (ps : list task) : tgraph :=
  fold_left (fun g p => add_edge task task_eqb g p t) ps (add_node task task_eqb g t).

(* replace_task: self._g = nx.relabel_nodes(self._g, {task: new_task}, copy=True)   (/repo 4400919) *)
Definition replace_task (g : tgraph) (t new : task) : tgraph := relabel_copy task task_eqb g t new.

Definition output_tasks (g : tgraph) : list task := output_nodes task g.
Definition input_tasks (g : tgraph) : list task := input_nodes task g.

(* insert_workflow(other, predecessors): second component false = ValueError (N:M); the builder's
   graph has already been replaced by the composition when the error is raised *)
Definition insert_workflow (g other : tgraph) (ps : option (list task)) : tgraph * bool :=
  let outs := match ps with None => output_tasks g | Some l => l end in
  let ins := input_tasks other in
  let g' := compose task task_eqb g other in
  if length ins =? length outs then
    (fold_left (fun g io => add_edge task task_eqb g (snd io) (fst io)) (combine ins outs) g', true)
  else match ins, outs with
       | [i], _ => (fold_left (fun g o => add_edge task task_eqb g o i) outs g', true)
       | _, [o] => (fold_left (fun g i => add_edge task task_eqb g o i) ins g', true)
       | _, _ => (g', false)
       end.

(* WorkflowBuilder.__add__ *)
Definition builder_plus (g other : tgraph) : tgraph := compose task task_eqb g other.

(* Workflow(builder) = freeze(builder._g.copy());  WorkflowBuilder(workflow) = workflow._g.copy() *)
Definition workflow_of (g : tgraph) : tgraph := copy task task_eqb g.

(* insert_context(wb, context); [next] = the next unused object identity; returns the new counter too *)
Definition insert_context_from (g : tgraph) (ctx : sval) (next : positive) : tgraph * positive :=
  fold_left (fun (st : tgraph * positive) t =>
               if tctx t
               then (replace_task (fst st) t (task_replace t (ctx :: tinputs t) (snd st)), Pos.succ (snd st))
               else st)
            (nodes g) (g, next).
Definition insert_context (g : tgraph) (ctx : sval) (next : positive) : tgraph :=
  fst (insert_context_from g ctx next).

(* execute_workflow: wb = WorkflowBuilder(workflow); every task replaced by task.replace(task_input=
   same inputs); insert_context(wb, context); workflow = Workflow(wb) *)
Definition exec_copies (g : tgraph) (next : positive) : tgraph * positive :=
  fold_left (fun (st : tgraph * positive) t =>
               (replace_task (fst st) t (task_replace t (tinputs t) (snd st)), Pos.succ (snd st)))
            (nodes g) (copy task task_eqb g, next).
Definition exec_prepare (g : tgraph) (ctx : sval) (next : positive) : tgraph :=
  let st := exec_copies g next in
  workflow_of (insert_context (fst st) ctx (snd st)).

(* dispatchers/local_dask/call.py call_workflow(wf, unique_name, ctx): wb = WorkflowBuilder(wf);
   insert_context(wb, ctx); wf = Workflow(wb); dsk = wf.as_dask_dict(); dsk[unique_name] = dsk.pop('results');
   optimize; client.get(dsk, unique_name) *)
Definition call_prepare (g : tgraph) (ctx : sval) (next : positive) : tgraph :=
  workflow_of (insert_context (workflow_of g) ctx next).

(* ---- Workflow.as_dask_dict ------------------------------------------------------------------ *)
Definition results : positive := 1%positive.     (* the string 'results' *)

Definition dsk := list (positive * sval).

Definition key_of (ids : task -> positive) (sink : task) (t : task) : positive :=
  if task_eqb t sink then results else ids t.

(* the local function `interpreted(value)` of as_dask_dict (/repo d3e6e19): "dask would not pass this static
   input literally": a str equal to a key, a tuple with a callable head, recursively inside tuples, lists and
   dict values *)
Fixpoint interpreted (keys : list positive) (a : sval) : bool :=
  let fix any (l : list sval) : bool :=
      match l with [] => false | x :: tl => interpreted keys x || any tl end in
  match a with
  | SStr s => memp s keys
  | SAtom _ | SFun _ | SLit _ | SFut _ => false
  | STuple l => (match l with x :: _ => is_callable x | [] => false end) || any l
  | SList l => any l
  | SDict _ vs => any vs
  end.

(* (literal(inp),) if interpreted(inp) else inp *)
Definition quote (keys : list positive) (a : sval) : sval :=
  if interpreted keys a then STuple [SLit a] else a.

(* [ids] stands for f'{task.name}-{uuid.uuid4()}'.  Entries in node order (nx.dfs_tree(G) without a
   source starts by add_nodes_from(G)).  None = ValueError("Workflow can only have one output task") *)
Definition as_dask_dict (g : tgraph) (ids : task -> positive) : option dsk :=
  match output_tasks g with
  | [o] =>
      let keys := map (key_of ids o) (nodes g) in
      Some (map (fun t => (key_of ids o t,
                           STuple (SFun (tfun t) :: map (quote keys) (tinputs t)
                                   ++ map (fun p => SStr (key_of ids o p)) (pred g t))))
                (nodes g))
  | _ => None
  end.

(* ==================================================================================== 4. dask *)
Definition event := (positive * list sval)%type.    (* a call: function, actual arguments *)

Section Dask.
  Variable apply : positive -> list sval -> sval.     (* the (pure) meaning of the callables *)
  Variable keys : list positive.                      (* all_keys = set(dsk) *)
  Variable c : positive -> sval.                      (* values of finished keys *)

  (* convert_legacy_task followed by GraphNode.__call__:
       (callable, args...)       -> callable(evaluated args...)        [Task]
       str in all_keys           -> the value of that key              [Alias]
       tuple / list              -> same container of evaluated items  [_identity_cast / rebuilt]
       anything else (also dict) -> itself                             [literal] *)
  Fixpoint eval_arg (a : sval) : sval * list event :=
    let fix eval_list (l : list sval) : list sval * list event :=
        match l with
        | [] => ([], [])
        | x :: tl => let (v, e1) := eval_arg x in
                     let (vs, e2) := eval_list tl in (v :: vs, e1 ++ e2)
        end in
    match a with
    | SStr s => if memp s keys then (c s, []) else (a, [])
    | SAtom _ | SFun _ | SLit _ | SDict _ _ | SFut _ => (a, [])
    | STuple l =>
        match l with
        | SFun f :: rest => let (vs, ev) := eval_list rest in (apply f vs, ev ++ [(f, vs)])
        | SLit v :: rest => let (vs, ev) := eval_list rest in (v, ev)       (* literal(v)(): as_dask_dict only makes (literal(v),) *)
        | _ => let (vs, ev) := eval_list l in (STuple vs, ev)
        end
    | SList l => let (vs, ev) := eval_list l in (SList vs, ev)
    end.

  (* GraphNode.dependencies *)
  Fixpoint arg_deps (a : sval) : list positive :=
    let fix deps_list (l : list sval) : list positive :=
        match l with
        | [] => []
        | x :: tl => arg_deps x ++ deps_list tl
        end in
    match a with
    | SStr s => if memp s keys then [s] else []
    | SAtom _ | SFun _ | SLit _ | SDict _ _ | SFut _ => []
    | STuple l => deps_list l
    | SList l => deps_list l
    end.
End Dask.

(* what makes the threaded scheduler read a value as something else than itself *)
Fixpoint has_key_string (keys : list positive) (a : sval) : bool :=
  let fix any (l : list sval) : bool :=
      match l with [] => false | x :: tl => has_key_string keys x || any tl end in
  match a with
  | SStr s => memp s keys
  | SAtom _ | SFun _ | SLit _ | SDict _ _ | SFut _ => false
  | STuple l => any l
  | SList l => any l
  end.

Fixpoint has_call_tuple (a : sval) : bool :=
  let fix any (l : list sval) : bool :=
      match l with [] => false | x :: tl => has_call_tuple x || any tl end in
  match a with
  | SStr _ | SAtom _ | SFun _ | SLit _ | SDict _ _ | SFut _ => false
  | STuple l => match l with SFun _ :: _ | SLit _ :: _ => true | _ => any l end
  | SList l => any l
  end.

(* ---- dispatchers/local_dask/optimize.py ------------------------------------------------------ *)
(* _scatter_value: dict, int, str, float, bool, range, Future and callables stay; every other object is
   replaced by client.scatter(value).  Atoms numbered from 2000 on stand for such objects (None, models,
   the context, ...), smaller ones for numbers. *)
Definition scatter_value (a : sval) : sval :=
  match a with
  | SAtom x => if Pos.leb 2000 x then SFut a else a
  | _ => a
  end.

(* _scatter_computation: tuple -> (head, scattered rest...) (the empty tuple stays), list -> list of
   scattered items, anything else -> _scatter_value *)
Fixpoint scatter (a : sval) : sval :=
  let fix go (l : list sval) : list sval :=
      match l with [] => [] | x :: tl => scatter x :: go tl end in
  match a with
  | STuple l => match l with [] => a | h :: rest => STuple (h :: go rest) end
  | SList l => SList (go l)
  | _ => scatter_value a
  end.

(* what the distributed scheduler does with the futures in a task before it runs it (unpack_remotedata):
   every future inside tuples, lists and dict values is replaced by its data *)
Fixpoint unfut (a : sval) : sval :=
  let fix go (l : list sval) : list sval :=
      match l with [] => [] | x :: tl => unfut x :: go tl end in
  match a with
  | SFut v => v
  | STuple l => STuple (go l)
  | SList l => SList (go l)
  | SDict ks vs => SDict ks (go vs)
  | _ => a
  end.

Fixpoint no_fut (a : sval) : bool :=
  let fix all (l : list sval) : bool :=
      match l with [] => true | x :: tl => no_fut x && all tl end in
  match a with
  | SFut _ => false
  | STuple l => all l
  | SList l => all l
  | SDict ks vs => all vs
  | SLit v => true
  | _ => true
  end.

Definition scatter_dsk (d : list (positive * sval)) : list (positive * sval) :=
  map (fun kv => (fst kv, scatter (snd kv))) d.

(* dask.core.subs(task, key, val): in a task, replace the arguments equal to [key], also inside nested
   tasks and lists; outside a task only the value itself / list items *)
Fixpoint subs (k : positive) (val : sval) (a : sval) : sval :=
  let fix go (l : list sval) : list sval :=
      match l with [] => [] | x :: tl => subs k val x :: go tl end in
  match a with
  | SStr s => if Pos.eqb s k then val else a
  | STuple l => match l with
                | h :: rest => if is_callable h then STuple (h :: go rest) else a
                | [] => a
                end
  | SList l => SList (go l)
  | _ => a
  end.

(* keys_in_tasks(keys, [task], as_list=True): the occurrences of keys that dask.optimization.fuse counts
   (arguments of tasks, list items, dict values) *)
Fixpoint key_occs (keys : list positive) (a : sval) : list positive :=
  let fix go (l : list sval) : list positive :=
      match l with [] => [] | x :: tl => key_occs keys x ++ go tl end in
  match a with
  | SStr s => if memp s keys then [s] else []
  | STuple l => match l with
                | h :: rest => if is_callable h then go rest else []
                | [] => []
                end
  | SList l => go l
  | SDict _ vs => go vs
  | _ => []
  end.

(* what dask.optimization.fuse did, as a list of steps (the heuristics that choose them are dask's):
   FInline c      the task of key c was substituted into its only dependent and removed
   FAlias r a     the fused task of key r was stored under the new key a, r became an alias of a *)
Inductive fstep := FInline (c : positive) | FAlias (r a : positive).

Fixpoint dlookup0 (d : list (positive * sval)) (k : positive) : option sval :=
  match d with
  | [] => None
  | (k', v) :: tl => if Pos.eqb k k' then Some v else dlookup0 tl k
  end.

Definition fuse_step (d : list (positive * sval)) (st : fstep) : list (positive * sval) :=
  match st with
  | FInline c =>
      match dlookup0 d c with
      | Some vc => map (fun kv => (fst kv, subs c vc (snd kv))) (filter (fun kv => negb (Pos.eqb (fst kv) c)) d)
      | None => d
      end
  | FAlias r a =>
      match dlookup0 d r with
      | Some vr => map (fun kv => if Pos.eqb (fst kv) r then (r, SStr a) else kv) d ++ [(a, vr)]
      | None => d
      end
  end.

(* values in which dask.core.subs and the scheduler see the same key references: no key string inside a
   tuple that is not a task (subs does not enter those, the scheduler does) *)
Fixpoint clean (keys : list positive) (a : sval) : bool :=
  let fix all (l : list sval) : bool :=
      match l with [] => true | x :: tl => clean keys x && all tl end in
  match a with
  | STuple l => match l with
                | h :: rest => if is_callable h then all rest else negb (has_key_string keys a)
                | [] => true
                end
  | SList l => all l
  | _ => true
  end.

Definition all_deps (keys : list positive) (d : list (positive * sval)) : list positive :=
  flat_map (fun kv => arg_deps keys (snd kv)) d.

(* a step fuse may take.  FInline c: every value is clean, c is a key, the scheduler sees exactly one
   reference to c in the whole graph, the value of c is a task and does not refer to c.
   FAlias r a: r is a key, a is a new key and no value contains the string a where the scheduler would
   read it as a reference. *)
Definition fuse_step_ok (d : list (positive * sval)) (st : fstep) : bool :=
  let keys := map fst d in
  match st with
  | FInline c =>
      memp c keys && forallb (fun kv => clean keys (snd kv)) d &&
      (length (filter (Pos.eqb c) (all_deps keys d)) =? 1) &&
      match dlookup0 d c with
      | Some (STuple (h :: rest)) => is_callable h && negb (memp c (arg_deps keys (STuple (h :: rest))))
      | _ => false
      end
  | FAlias r a => memp r keys && negb (memp a keys) && negb (memp a (all_deps (keys ++ [a]) d))
  end.

(* (informational since /repo c89db96: optimize.py calls fuse(rename_keys=False), no alias step is taken any more;
   former finding C17-FUSE-ALIAS-COLLISION) the condition under which an alias step is harmless: no value of the
   graph mentions the new key a where the scheduler reads strings.  dask.optimization.fuse only checks that a is
   not yet a KEY. *)
Definition g_alias_unmentioned (d : list (positive * sval)) (a : positive) : bool :=
  negb (memp a (all_deps (map fst d ++ [a]) d)).

(* the legality of a step without that conjunct (what fuse itself guarantees) *)
Definition fuse_step_ok_weak (d : list (positive * sval)) (st : fstep) : bool :=
  match st with
  | FAlias r a => memp r (map fst d) && negb (memp a (map fst d))
  | FInline _ => fuse_step_ok d st
  end.

(* (all steps weakly legal, some alias step whose name is mentioned by a value) *)
Fixpoint fuse_steps_weak (d : list (positive * sval)) (l : list fstep) : bool * bool :=
  match l with
  | [] => (true, false)
  | st :: tl =>
      let (ok, clash) := fuse_steps_weak (fuse_step d st) tl in
      (fuse_step_ok_weak d st && ok,
       match st with FAlias _ a => negb (g_alias_unmentioned d a) | FInline _ => false end || clash)
  end.

(* fuse(dsk, rename_keys=False), as optimize.py calls it since /repo c89db96, only inlines *)
Definition inline_only (l : list fstep) : bool :=
  forallb (fun st => match st with FInline _ => true | FAlias _ _ => false end) l.

(* no step removes the key r or introduces it as an alias *)
Definition avoids (r : positive) (l : list fstep) : bool :=
  forallb (fun st => match st with FInline c => negb (Pos.eqb c r) | FAlias _ a => negb (Pos.eqb a r) end) l.

Fixpoint fuse_steps (d : list (positive * sval)) (l : list fstep) : list (positive * sval) * bool :=
  match l with
  | [] => (d, true)
  | st :: tl => let (d', ok) := fuse_steps (fuse_step d st) tl in (d', fuse_step_ok d st && ok)
  end.

Fixpoint dlookup (d : dsk) (k : positive) : option sval :=
  match d with
  | [] => None
  | (k', v) :: tl => if Pos.eqb k k' then Some v else dlookup tl k
  end.
Definition dkeys (d : dsk) : list positive := map fst d.

Definition dval := (sval * list event)%type.
Definition dflt_sval : sval := SAtom 1%positive.
Definition dflt_dval : dval := (dflt_sval, []).

Inductive result := ROk (v : sval) | RCycle | RNoSingleSink | ROther.

Section Exec.
  Variable apply : positive -> list sval -> sval.

  Definition dask_deps (d : dsk) (k : positive) : list positive :=
    match dlookup d k with Some v => arg_deps (dkeys d) v | None => [] end.
  Definition dask_comp (d : dsk) (k : positive) (c : positive -> dval) : dval :=
    match dlookup d k with
    | Some v => eval_arg apply (dkeys d) (fun x => fst (c x)) v
    | None => dflt_dval
    end.

  (* the local scheduler on a graph: any schedule *)
  Definition dask_run (d : dsk) (sched : list positive) : option (cache positive dval) :=
    run positive dval Pos.eqb dflt_dval (dask_deps d) (dask_comp d) sched [].
  Definition dask_sched (d : dsk) : list positive :=
    greedy_sched positive Pos.eqb (dask_deps d) (length d) (dkeys d) [].
  Definition call_log (c : cache positive dval) : list event := flat_map (fun kv => snd (snd kv)) c.

  (* dask.threaded.get(dsk, k) with the deterministic schedule.  dask.order(dsk) raises "Cycle
     detected" when some key of the dict (requested or not) can never become ready.  (In a dict made
     by as_dask_dict every key is needed for 'results' once there is no cycle, so running all keys is
     what the scheduler does.) *)
  Definition dask_get_log (d : dsk) (k : positive) : result * list event :=
    let s := dask_sched d in
    if negb (length s =? length d) then (RCycle, []) else
    match dask_run d s with
    | Some c => if mem positive Pos.eqb k (done positive dval c)
                then (ROk (fst (cget positive dval Pos.eqb dflt_dval c k)), call_log c)
                else (ROther, [])
    | None => (ROther, [])
    end.
  Definition dask_get (d : dsk) (k : positive) : result := fst (dask_get_log d k).

  (* client.get(dsk, k) of the distributed scheduler: futures are replaced by their data first *)
  Definition dask_get_dist_log (d : dsk) (k : positive) : result * list event :=
    dask_get_log (map (fun kv => (fst kv, unfut (snd kv))) d) k.

  (* ============================================================================ 5. reference *)
  (* sequential evaluation: a task receives its static inputs followed by the results of its
     predecessors in the order of the workflow's predecessor list *)
  Definition ref_comp (g : tgraph) (t : task) (c : task -> sval) : sval :=
    apply (tfun t) (tinputs t ++ map c (pred g t)).
  Definition topo_eval (g : tgraph) (order : list task) : option (cache task sval) :=
    run task sval task_eqb dflt_sval (pred g) (ref_comp g) order [].
  Definition topo_order (g : tgraph) : list task :=
    greedy_sched task task_eqb (pred g) (length (nodes g)) (nodes g) [].
  Definition ref_get (g : tgraph) : result :=
    match output_tasks g with
    | [o] => if negb (length (topo_order g) =? length (nodes g)) then RCycle else
             match topo_eval g (topo_order g) with
             | Some c => if tmem o (done task sval c) then ROk (cget task sval task_eqb dflt_sval c o) else ROther
             | None => ROther
             end
    | _ => RNoSingleSink
    end.

  (* the DECLARED meaning of a workflow executed with a context: the tasks themselves, in their own
     order; a task whose function asks for the context receives it first, then its static inputs,
     then the results of its predecessors in the order of the predecessor list *)
  Definition decl_inputs (ctx : sval) (t : task) : list sval := if tctx t then ctx :: tinputs t else tinputs t.
  Definition decl_comp (ctx : sval) (g : tgraph) (t : task) (c : task -> sval) : sval :=
    apply (tfun t) (decl_inputs ctx t ++ map c (pred g t)).
  Definition declared_eval (ctx : sval) (g : tgraph) (order : list task) : option (cache task sval) :=
    run task sval task_eqb dflt_sval (pred g) (decl_comp ctx g) order [].

  (* execute_workflow(workflow, dispatcher=local_dask (threaded), context=ctx) *)
  Definition execute_log (g : tgraph) (ctx : sval) (next : positive) (ids : task -> positive) : result * list event :=
    match as_dask_dict (exec_prepare g ctx next) ids with
    | Some d => dask_get_log d results
    | None => (RNoSingleSink, [])
    end.
  Definition execute (g : tgraph) (ctx : sval) (next : positive) (ids : task -> positive) : result :=
    fst (execute_log g ctx next ids).
End Exec.

(* ================================================================================= guards *)
Definition nodupp (l : list positive) : bool :=
  (fix go (l : list positive) : bool :=
     match l with [] => true | x :: tl => negb (memp x tl) && go tl end) l.

Definition wf_keys (g : tgraph) (ids : task -> positive) : list positive :=
  match output_tasks g with
  | [o] => map (key_of ids o) (nodes g)
  | _ => []
  end.

(* uuid keys are pairwise different and none of them is the string 'results' *)
Definition g_keys_fresh (g : tgraph) (ids : task -> positive) : bool := nodupp (wf_keys g ids).

(* (informational since /repo d3e6e19: such input is quoted by as_dask_dict) no static input contains a string
   that is a key of the graph *)
Definition g_static_nokey (g : tgraph) (ids : task -> positive) : bool :=
  forallb (fun t => forallb (fun a => negb (has_key_string (wf_keys g ids) a)) (tinputs t)) (nodes g).
(* no static input contains a tuple whose first element is callable *)
Definition g_static_nocall (g : tgraph) : bool :=
  forallb (fun t => forallb (fun a => negb (has_call_tuple a)) (tinputs t)) (nodes g).

(* (informational, no guard since /repo 4400919) in no predecessor list does a context-taking task come
   before a task that takes no context *)
Fixpoint ctx_last (l : list task) : bool :=
  match l with
  | [] => true
  | t :: tl => (if tctx t then forallb tctx tl else true) && ctx_last tl
  end.
Definition g_ctx_order (g : tgraph) : bool := forallb (fun t => ctx_last (pred g t)) (nodes g).

Definition nodup_tids (l : list task) : bool := nodupp (map tid l).
(* every object identity in the graph is older than [next] *)
Definition uids_below (next : positive) (g : tgraph) : bool := forallb (fun t => Pos.ltb (tuid t) next) (nodes g).
