(* PV.C17.ProofsPrepare — what execute_workflow's preparation (copies of all tasks, insert_context,
   Workflow(wb)) does to the node order, the edges and the predecessor order. *)
From Coq Require Import List Bool PArith Arith Lia.
From PV Require Import Base.PyData C17.Model C17.ProofsDask C17.ProofsGraph C17.ProofsBuilder.
Import ListNotations.
Local Open Scope nat_scope.

Notation T_del := (del task task_eqb).
Notation T_ren := (ren task task_eqb).

Lemma task_eqb_refl t : task_eqb t t = true.
Proof. apply task_eqb_spec. reflexivity. Qed.

Lemma tmem_In x l : tmem x l = true <-> In x l.
Proof. apply (mem_In task task_eqb task_eqb_spec). Qed.

Lemma del_unique (a b : list task) t : NoDup (a ++ t :: b) -> T_del t (a ++ t :: b) = a ++ b.
Proof.
  intros H. unfold Model.del. rewrite filter_app. cbn [filter]. rewrite task_eqb_refl. cbn [negb].
  pose proof (NoDup_remove_2 _ _ _ H) as Hn.
  assert (Ha : filter (fun y => negb (task_eqb t y)) a = a).
  { apply (del_notin task task_eqb task_eqb_spec). intro Hi. apply Hn. apply in_or_app. left. exact Hi. }
  assert (Hb : filter (fun y => negb (task_eqb t y)) b = b).
  { apply (del_notin task task_eqb task_eqb_spec). intro Hi. apply Hn. apply in_or_app. right. exact Hi. }
  rewrite Ha, Hb. reflexivity.
Qed.

Lemma filter_map_swap {X Y} (p : Y -> bool) (f : X -> Y) l : filter p (map f l) = map f (filter (fun x => p (f x)) l).
Proof.
  induction l as [|x tl IH]; [reflexivity|]. cbn [map filter]. destruct (p (f x)); cbn [map]; rewrite IH; reflexivity.
Qed.

Lemma filter_comm {X} (p q : X -> bool) l : filter p (filter q l) = filter q (filter p l).
Proof.
  induction l as [|x tl IH]; [reflexivity|]. cbn [filter].
  destruct (q x) eqn:Q, (p x) eqn:Pp; cbn [filter]; rewrite ?Q, ?Pp, IH; reflexivity.
Qed.

Lemma ctx_last_partition l : ctx_last l = true ->
  filter (fun t => negb (tctx t)) l ++ filter tctx l = l.
Proof.
  induction l as [|t tl IH]; intros H; [reflexivity|].
  cbn [ctx_last] in H. apply andb_true_iff in H. destruct H as [H1 H2]. cbn [filter].
  destruct (tctx t) eqn:C; cbn [negb].
  - (* everything after a context-taking task takes a context *)
    assert (E1 : filter (fun t => negb (tctx t)) tl = []).
    { clear IH H2. induction tl as [|x tl' IH']; [reflexivity|]. cbn [forallb] in H1. apply andb_true_iff in H1.
      destruct H1 as [Hx Ht]. cbn [filter]. rewrite Hx. cbn [negb]. apply IH'. exact Ht. }
    assert (E2 : filter tctx tl = tl).
    { clear IH H2 E1. induction tl as [|x tl' IH']; [reflexivity|]. cbn [forallb] in H1. apply andb_true_iff in H1.
      destruct H1 as [Hx Ht]. cbn [filter]. rewrite Hx. f_equal. apply IH'. exact Ht. }
    rewrite E1, E2. reflexivity.
  - cbn [app]. f_equal. apply IH. exact H2.
Qed.

(* ---- a loop of conditional replacements with fresh identities ------------------------------------- *)
Section CondRelabel.
  Variable P : task -> bool.
  Variable newinp : task -> list sval.

  Definition stepf (st : tgraph * positive) (t : task) : tgraph * positive :=
    if P t then (replace_task (fst st) t (task_replace t (newinp t) (snd st)), Pos.succ (snd st)) else st.

  (* the replacement of x when the tasks [keys] are replaced one after the other starting at identity n *)
  Fixpoint rn (n : positive) (keys : list task) (x : task) : task :=
    match keys with
    | [] => x
    | k :: tl => if task_eqb x k then task_replace k (newinp k) n else rn (Pos.succ n) tl x
    end.

  Lemma rn_notin keys : forall n x, ~ In x keys -> rn n keys x = x.
  Proof.
    induction keys as [|k tl IH]; intros n x H; [reflexivity|]. cbn [rn].
    destruct (task_eqb x k) eqn:E.
    - apply task_eqb_spec in E. subst. exfalso. apply H. left. reflexivity.
    - apply IH. intro Hi. apply H. right. exact Hi.
  Qed.

  Lemma rn_fields keys : forall n x,
    tid (rn n keys x) = tid x /\ tfun (rn n keys x) = tfun x /\ tctx (rn n keys x) = tctx x /\
    tinputs (rn n keys x) = if tmem x keys then newinp x else tinputs x.
  Proof.
    induction keys as [|k tl IH]; intros n x; cbn [rn].
    - repeat split.
    - unfold tmem, Model.mem. cbn [existsb]. destruct (task_eqb x k) eqn:E.
      + apply task_eqb_spec in E. subst. repeat split.
      + cbn [orb]. apply IH.
  Qed.

  (* images of replaced tasks have identities >= n; the others keep theirs *)
  Lemma rn_uid keys : forall n x, In x keys -> (n <= tuid (rn n keys x))%positive.
  Proof.
    induction keys as [|k tl IH]; intros n x H; [contradiction|]. cbn [rn].
    destruct (task_eqb x k) eqn:E.
    - cbn [task_replace tuid]. lia.
    - destruct H as [H|H]; [subst; rewrite task_eqb_refl in E; discriminate|].
      specialize (IH (Pos.succ n) x H). lia.
  Qed.

  Lemma rn_inj keys : forall n x y, NoDup keys ->
    (tuid x < n)%positive -> (tuid y < n)%positive -> rn n keys x = rn n keys y -> x = y.
  Proof.
    induction keys as [|k tl IH]; intros n x y Hn Hx Hy E; [exact E|].
    inversion Hn as [|? ? Hk Htl]; subst. cbn [rn] in E.
    assert (Aux : forall z, (tuid z < n)%positive -> task_eqb z k = false ->
                            tuid (rn (Pos.succ n) tl z) <> n).
    { intros z Hz Ez. destruct (in_dec (fun a b => Bool.reflect_dec _ _ (Bool.iff_reflect _ _ (iff_sym (task_eqb_spec a b)))) z tl) as [Hi|Hi].
      - pose proof (rn_uid tl (Pos.succ n) z Hi). lia.
      - rewrite rn_notin by exact Hi. lia. }
    destruct (task_eqb x k) eqn:Ex, (task_eqb y k) eqn:Ey.
    - apply task_eqb_spec in Ex. apply task_eqb_spec in Ey. congruence.
    - exfalso. apply (Aux y Hy Ey). rewrite <- E. reflexivity.
    - exfalso. apply (Aux x Hx Ex). rewrite E. reflexivity.
    - apply (IH (Pos.succ n)); [exact Htl | lia | lia | exact E].
  Qed.

  Lemma fold_stepf l : forall (st : tgraph * positive),
    twf (fst st) -> NoDup l -> incl l (nodes (fst st)) ->
    (forall x, In x (nodes (fst st)) -> (tuid x < snd st)%positive) ->
    let st' := fold_left stepf l st in
    twf (fst st')
    /\ nodes (fst st') = map (rn (snd st) (filter P l)) (nodes (fst st))
    /\ (forall x, In x (nodes (fst st')) -> (tuid x < snd st')%positive)
    /\ (forall u v, In v (succ (fst st') u) <->
                    exists u0 v0, In v0 (succ (fst st) u0) /\ u = rn (snd st) (filter P l) u0
                                  /\ v = rn (snd st) (filter P l) v0).
  Proof.
    induction l as [|t tl IH]; intros st W Nl Il U; cbn [fold_left filter].
    - cbn [rn]. rewrite map_id. split; [exact W|]. split; [reflexivity|]. split; [exact U|].
      intros u v. split.
      + intros H. exists u, v. tauto.
      + intros [u0 [v0 [H [E1 E2]]]]. subst. exact H.
    - inversion Nl as [|? ? Ht_tl Ntl]; subst.
      destruct (P t) eqn:Pt.
      + (* t is replaced by t1, in place *)
        assert (Es : stepf st t = (replace_task (fst st) t (task_replace t (newinp t) (snd st)), Pos.succ (snd st)))
          by (unfold stepf; rewrite Pt; reflexivity).
        rewrite Es. clear Es.
        set (t1 := task_replace t (newinp t) (snd st)).
        assert (Ht1 : ~ In t1 (nodes (fst st))).
        { intro Hi. apply U in Hi. unfold t1 in Hi. cbn [task_replace tuid] in Hi. lia. }
        destruct (replace_task_spec (fst st) t t1 W Ht1) as [W1 [N1 [S1 _]]].
        assert (Q : forall x, rn (Pos.succ (snd st)) (filter P tl) (T_ren t t1 x)
                              = if task_eqb x t then t1 else rn (Pos.succ (snd st)) (filter P tl) x).
        { intros x. unfold Model.ren. destruct (task_eqb x t); [|reflexivity]. apply rn_notin. intro Hi.
          apply filter_In in Hi. destruct Hi as [Hi _]. apply Ht1. apply Il. right. exact Hi. }
        specialize (IH (replace_task (fst st) t t1, Pos.succ (snd st))).
        cbn [fst snd] in IH. destruct IH as [W' [N' [U' S']]].
        * exact W1.
        * exact Ntl.
        * intros x Hx. rewrite N1. apply in_map_iff. exists x. split.
          -- unfold Model.ren. destruct (task_eqb x t) eqn:E; [|reflexivity].
             apply task_eqb_spec in E. subst. contradiction.
          -- apply Il. right. exact Hx.
        * intros x Hx. rewrite N1 in Hx. apply in_map_iff in Hx. destruct Hx as [y [E Hy]]. subst x.
          unfold Model.ren. destruct (task_eqb y t).
          -- unfold t1. cbn [task_replace tuid]. lia.
          -- specialize (U y Hy). lia.
        * split; [exact W'|]. split; [|split; [exact U'|]].
          -- rewrite N', N1, map_map. apply map_ext. intros x. rewrite Q. reflexivity.
          -- intros u v. rewrite S'. cbn [rn]. fold t1. split.
             ++ intros [u1 [v1 [H [E1 E2]]]]. apply S1 in H. destruct H as [u0 [v0 [H [F1 F2]]]].
                exists u0, v0. split; [exact H|]. subst u1 v1 u v. rewrite !Q. split; reflexivity.
             ++ intros [u0 [v0 [H [E1 E2]]]].
                exists (T_ren t t1 u0), (T_ren t t1 v0). split.
                ** apply S1. exists u0, v0. tauto.
                ** subst u v. rewrite !Q. split; reflexivity.
      + (* t stays *)
        assert (Es : stepf st t = st) by (unfold stepf; rewrite Pt; reflexivity).
        rewrite Es. clear Es.
        apply IH; [exact W | exact Ntl | intros x Hx; apply Il; right; exact Hx | exact U].
  Qed.
End CondRelabel.

(* ---- the two loops of execute_workflow ---------------------------------------------------------------- *)
Definition all_tasks (t : task) : bool := true.

Lemma exec_copies_eq g next :
  exec_copies g next = fold_left (stepf all_tasks tinputs) (nodes g) (copy task task_eqb g, next).
Proof. reflexivity. Qed.

Lemma insert_context_from_eq g ctx next :
  insert_context_from g ctx next = fold_left (stepf tctx (fun t => ctx :: tinputs t)) (nodes g) (g, next).
Proof. reflexivity. Qed.

Lemma filter_all_tasks (l : list task) : filter all_tasks l = l.
Proof. induction l as [|x tl IH]; [reflexivity|]. cbn [filter all_tasks]. rewrite IH. reflexivity. Qed.
Lemma filter_none_tasks (l : list task) : filter (fun t => negb (all_tasks t)) l = [].
Proof. induction l as [|x tl IH]; [reflexivity|]. cbn [filter all_tasks negb]. exact IH. Qed.

Section Prepare.
  Variable g : tgraph.
  Variable ctx : sval.
  Variable next : positive.
  Hypothesis W : twf g.
  Hypothesis U : uids_below next g = true.

  Notation N := (nodes g).
  Definition rn1 : task -> task := rn tinputs next N.
  Definition wb1 : tgraph := fst (exec_copies g next).
  Definition n1 : positive := snd (exec_copies g next).
  Definition keys2 : list task := filter tctx (nodes wb1).
  Definition rn2 : task -> task := rn (fun t => ctx :: tinputs t) n1 keys2.
  Definition wb2 : tgraph := insert_context wb1 ctx n1.
  (* the task that stands for t in the workflow handed to the dispatcher *)
  Definition prep_image (t : task) : task := rn2 (rn1 t).

  Lemma U_prop : forall x, In x N -> (tuid x < next)%positive.
  Proof.
    intros x Hx. unfold uids_below in U. rewrite forallb_forall in U. apply Pos.ltb_lt. apply U. exact Hx.
  Qed.

  Lemma loop1 :
    twf wb1 /\ nodes wb1 = map rn1 N /\ (forall x, In x (nodes wb1) -> (tuid x < n1)%positive)
    /\ (forall u v, In v (succ wb1 u) <-> exists u0 v0, In v0 (succ g u0) /\ u = rn1 u0 /\ v = rn1 v0).
  Proof.
    unfold wb1, n1. rewrite exec_copies_eq.
    pose proof (nodes_copy task task_eqb task_eqb_spec g W) as NC.
    destruct (fold_stepf all_tasks tinputs N (copy task task_eqb g, next)) as [W' [N' [U' S']]].
    - apply (wfg_copy task task_eqb task_eqb_spec).
    - apply (wf_nodup task g W).
    - cbn [fst]. rewrite NC. intros x Hx. exact Hx.
    - cbn [fst snd]. intros x Hx. rewrite NC in Hx. apply U_prop. exact Hx.
    - cbn [fst snd] in *. rewrite filter_all_tasks in *. rewrite NC in N'.
      split; [exact W'|]. split; [exact N'|]. split; [exact U'|].
      intros u v. rewrite S'. unfold rn1. split; intros [u0 [v0 [H E]]]; exists u0, v0;
        rewrite (succ_copy task task_eqb task_eqb_spec) in * by exact W; tauto.
  Qed.

  Lemma loop2 :
    twf wb2 /\ nodes wb2 = map rn2 (nodes wb1)
    /\ (forall u v, In v (succ wb2 u) <-> exists u0 v0, In v0 (succ wb1 u0) /\ u = rn2 u0 /\ v = rn2 v0).
  Proof.
    destruct loop1 as [W1 [N1 [U1 S1]]].
    unfold wb2, insert_context. rewrite insert_context_from_eq.
    destruct (fold_stepf tctx (fun t => ctx :: tinputs t) (nodes wb1) (wb1, n1)) as [W' [N' [U' S']]].
    - exact W1.
    - apply (wf_nodup task wb1 W1).
    - intros x Hx. exact Hx.
    - exact U1.
    - cbn [fst snd] in *. split; [exact W'|]. split; [exact N'|]. exact S'.
  Qed.

  Lemma rn1_fields x : tid (rn1 x) = tid x /\ tfun (rn1 x) = tfun x /\ tctx (rn1 x) = tctx x /\ tinputs (rn1 x) = tinputs x.
  Proof.
    destruct (rn_fields tinputs N next x) as [A [B [C D]]]. repeat split; try assumption.
    unfold rn1. rewrite D. destruct (tmem x N); reflexivity.
  Qed.

  Lemma keys2_eq : keys2 = map rn1 (filter tctx N).
  Proof.
    destruct loop1 as [_ [N1 _]]. unfold keys2. rewrite N1, filter_map_swap. f_equal.
    apply filter_ext. intros x. apply rn1_fields.
  Qed.

  (* node order of the prepared workflow: every task stays where it was *)
  Lemma nodes_wb2 : nodes wb2 = map prep_image N.
  Proof.
    destruct loop1 as [_ [N1 _]]. destruct loop2 as [_ [N2 _]]. rewrite N2, N1, map_map. reflexivity.
  Qed.

  Lemma prep_image_inj x y : In x N -> In y N -> prep_image x = prep_image y -> x = y.
  Proof.
    intros Hx Hy E. destruct loop1 as [W1 [N1 [U1 _]]].
    assert (E1 : rn1 x = rn1 y).
    { apply (rn_inj (fun t => ctx :: tinputs t) keys2 n1).
      - unfold keys2. apply NoDup_filter. apply (wf_nodup task wb1 W1).
      - apply U1. rewrite N1. apply in_map. exact Hx.
      - apply U1. rewrite N1. apply in_map. exact Hy.
      - exact E. }
    apply (rn_inj tinputs N next); [apply (wf_nodup task g W) | apply U_prop; exact Hx | apply U_prop; exact Hy | exact E1].
  Qed.

  Lemma prep_image_fields x : In x N ->
    tid (prep_image x) = tid x /\ tfun (prep_image x) = tfun x /\ tctx (prep_image x) = tctx x /\
    tinputs (prep_image x) = if tctx x then ctx :: tinputs x else tinputs x.
  Proof.
    intros Hx. destruct (rn1_fields x) as [A1 [B1 [C1 D1]]].
    destruct (rn_fields (fun t => ctx :: tinputs t) keys2 n1 (rn1 x)) as [A2 [B2 [C2 D2]]].
    unfold prep_image, rn2. rewrite A2, B2, C2, D2, A1, B1, C1, D1. repeat split.
    destruct (tctx x) eqn:Cx.
    - assert (M : tmem (rn1 x) keys2 = true).
      { apply tmem_In. rewrite keys2_eq. apply in_map. apply filter_In. tauto. }
      rewrite M. reflexivity.
    - assert (M : tmem (rn1 x) keys2 = false).
      { destruct (tmem (rn1 x) keys2) eqn:M; [|reflexivity]. apply tmem_In in M. unfold keys2 in M.
        apply filter_In in M. destruct M as [_ M]. rewrite C1 in M. discriminate. }
      rewrite M. reflexivity.
  Qed.

  (* edges: exactly the declared ones, between the images *)
  Lemma edges_wb2 u v : In u N -> In v N -> (In (prep_image v) (succ wb2 (prep_image u)) <-> In v (succ g u)).
  Proof.
    intros Hu Hv. destruct loop1 as [_ [_ [_ S1]]]. destruct loop2 as [_ [_ S2]]. rewrite S2. split.
    - intros [u1 [v1 [H [E1 E2]]]]. apply S1 in H. destruct H as [u0 [v0 [H [F1 F2]]]]. subst u1 v1.
      destruct (wf_succ_in task g W u0 v0 H) as [Hu0 Hv0].
      apply (prep_image_inj u u0 Hu Hu0) in E1. apply (prep_image_inj v v0 Hv Hv0) in E2. subst. exact H.
    - intros H. exists (rn1 u), (rn1 v). split; [|split; reflexivity]. apply S1. exists u, v. tauto.
  Qed.

  Lemma exec_prepare_eq : exec_prepare g ctx next = workflow_of wb2.
  Proof. reflexivity. Qed.

  Lemma nodes_prepare : nodes (exec_prepare g ctx next) = map prep_image N.
  Proof.
    destruct loop2 as [W2 _]. rewrite exec_prepare_eq. destruct (workflow_of_spec wb2 W2) as [_ [Nw _]].
    rewrite Nw. apply nodes_wb2.
  Qed.

  Lemma succ_prepare u v : In u N -> In v N ->
    (In (prep_image v) (succ (exec_prepare g ctx next) (prep_image u)) <-> In v (succ g u)).
  Proof.
    intros Hu Hv. destruct loop2 as [W2 _]. rewrite exec_prepare_eq. destruct (workflow_of_spec wb2 W2) as [_ [_ [Sw _]]].
    rewrite Sw. apply edges_wb2; assumption.
  Qed.

  (* predecessor lists of the prepared workflow: the images of the declared predecessors, in the
     declared order *)
  Lemma pred_prepare t : In t N ->
    pred (exec_prepare g ctx next) (prep_image t) = map prep_image (pred (workflow_of g) t).
  Proof.
    intros Ht. destruct loop2 as [W2 _]. rewrite exec_prepare_eq.
    destruct (workflow_of_spec wb2 W2) as [_ [_ [_ Pw]]]. destruct (workflow_of_spec g W) as [_ [_ [_ Pg]]].
    rewrite Pw, Pg, nodes_wb2, filter_map_swap. f_equal.
    apply filter_ext_in. intros u Hu.
    destruct (tmem t (succ g u)) eqn:E.
    - apply tmem_In. apply edges_wb2; [exact Hu | exact Ht | apply tmem_In; exact E].
    - destruct (tmem (prep_image t) (succ wb2 (prep_image u))) eqn:E2; [|reflexivity].
      apply tmem_In in E2. apply edges_wb2 in E2; [|exact Hu|exact Ht]. apply tmem_In in E2. congruence.
  Qed.
End Prepare.
