(* PV.C17.Check — the comparison run inside Coq by the correspondence check.
   A case = a task table, a sequence of WorkflowBuilder operations (the spec) and what the real
   pharmpy objects looked like / returned.  [verdict] re-runs the model on the spec and compares
   (tags 1..9), evaluates the property statement on the implementation's own outputs (tags 11..15)
   and reports guard facts (tags 201..205). *)
From Coq Require Import List Bool PArith Arith.
From PV Require Import Base.PyData C17.Model.
Import ListNotations.
Local Open Scope nat_scope.

(* ---- the builder-operation language of the specs ------------------------------------------- *)
Inductive op :=
| OpAdd (b t : nat) (ps : list nat)                        (* builders[b].add_task(T[t], predecessors=[T[p]..]) *)
| OpReplace (b t n : nat)                                  (* builders[b].replace_task(T[t], T[n]) *)
| OpInsert (b o : nat) (ps : option (list nat)) (aswf : bool)  (* builders[b].insert_workflow(builders[o] or Workflow(builders[o]), predecessors) *)
| OpPlus (b o : nat)                                       (* builders[b] = builders[b] + builders[o] *)
| OpSink (b t : nat)                                       (* builders[b].add_task(T[t], predecessors=builders[b].output_tasks) *)
| OpCopy (b : nat)                                         (* builders[b] = WorkflowBuilder(Workflow(builders[b])) *)
| OpCtx (b : nat)                                          (* insert_context(builders[b], ctx) *)
| OpWPlus (b o : nat)
| OpSinkTo (b t : nat).                                    (* builders[b].add_task(T[t], predecessors=[x for x in builders[b].output_tasks if x is not T[t]]) *)                                     (* builders[b] = WorkflowBuilder(Workflow(builders[b]) + Workflow(builders[o])) *)

Definition dummy_task : task := mkTask 1%positive 1%positive 1%positive [] false.

Fixpoint setb {X} (n : nat) (x : X) (l : list X) : list X :=
  match n, l with
  | 0, _ :: tl => x :: tl
  | S k, y :: tl => y :: setb k x tl
  | _, [] => []
  end.

Section Ops.
  Variable tasks : list task.
  Variable ctx : sval.
  Definition tk (i : nat) : task := nth i tasks dummy_task.
  Definition getb (st : list tgraph) (b : nat) : tgraph := nth b st g_empty.

  (* state: the builders and the next unused object identity *)
  Definition step (st : list tgraph * positive) (o : op) : list tgraph * positive * bool :=
    let (bs, next) := st in
    match o with
    | OpAdd b t ps => (setb b (add_task (getb bs b) (tk t) (map tk ps)) bs, next, true)
    | OpReplace b t n => (setb b (replace_task (getb bs b) (tk t) (tk n)) bs, next, true)
    | OpInsert b o ps aswf =>
        let other := if aswf then workflow_of (getb bs o) else getb bs o in
        let (g', ok) := insert_workflow (getb bs b) other (option_map (map tk) ps) in
        (setb b g' bs, next, ok)
    | OpPlus b o => (setb b (builder_plus (getb bs b) (getb bs o)) bs, next, true)
    | OpSink b t => let g := getb bs b in (setb b (add_task g (tk t) (output_tasks g)) bs, next, true)
    | OpCopy b => (setb b (workflow_of (workflow_of (getb bs b))) bs, next, true)
    | OpCtx b => let (g', next') := insert_context_from (getb bs b) ctx next in (setb b g' bs, next', true)
    | OpWPlus b o => (setb b (workflow_of (builder_plus (workflow_of (getb bs b)) (workflow_of (getb bs o)))) bs, next, true)
    | OpSinkTo b t => let g := getb bs b in
                      (setb b (add_task g (tk t) (filter (fun x => negb (task_eqb x (tk t))) (output_tasks g))) bs, next, true)
    end.

  (* returns the final builders, the counter and the indices of the operations that raised *)
  Fixpoint run_ops (i : nat) (ops : list op) (st : list tgraph * positive) : list tgraph * positive * list nat :=
    match ops with
    | [] => (st, [])
    | o :: tl => let '(st', ok) := step st o in
                 let (stf, errs) := run_ops (S i) tl st' in
                 (stf, if ok then errs else i :: errs)
    end.
End Ops.

(* ---- observations --------------------------------------------------------------------------- *)
(* a node as seen from Python: identity of the original object (tid), "is a replaced copy",
   static inputs, successors and predecessors as positions in the node list *)
Definition onode := (positive * bool * list sval * list nat * list nat)%type.
Definition o_tid (n : onode) : positive := match n with (t, _, _, _, _) => t end.
Definition o_succ (n : onode) : list nat := match n with (_, _, _, s, _) => s end.
Definition o_pred (n : onode) : list nat := match n with (_, _, _, _, p) => p end.
Definition o_inputs (n : onode) : list sval := match n with (_, _, i, _, _) => i end.

Fixpoint index_of (t : task) (l : list task) : nat :=
  match l with [] => 0 | x :: tl => if task_eqb t x then 0 else S (index_of t tl) end.

Definition obs_of (g : tgraph) : list onode :=
  map (fun t => (tid t, negb (Pos.eqb (tuid t) (tid t)), tinputs t,
                 map (fun s => index_of s (nodes g)) (succ g t),
                 map (fun p => index_of p (nodes g)) (pred g t))) (nodes g).

Definition lpos_eqb := list_eqb Pos.eqb.
Definition lnat_eqb := list_eqb Nat.eqb.
Definition onode_eqb (a b : onode) : bool :=
  match a, b with
  | (t1, r1, i1, s1, p1), (t2, r2, i2, s2, p2) =>
      Pos.eqb t1 t2 && Bool.eqb r1 r2 && list_eqb sval_eqb i1 i2 && lnat_eqb s1 s2 && lnat_eqb p1 p2
  end.
Definition obs_eqb := list_eqb onode_eqb.

Definition result_eqb (a b : result) : bool :=
  match a, b with
  | ROk x, ROk y => sval_eqb x y
  | RCycle, RCycle | RNoSingleSink, RNoSingleSink => true
  | _, _ => false          (* ROther never agrees with anything *)
  end.

Definition event_eqb (a b : event) : bool := Pos.eqb (fst a) (fst b) && list_eqb sval_eqb (snd a) (snd b).
Fixpoint remove1 (e : event) (l : list event) : option (list event) :=
  match l with
  | [] => None
  | x :: tl => if event_eqb e x then Some tl else option_map (cons x) (remove1 e tl)
  end.
Fixpoint perm_eqb (a b : list event) : bool :=
  match a with
  | [] => match b with [] => true | _ => false end
  | e :: tl => match remove1 e b with Some b' => perm_eqb tl b' | None => false end
  end.

Definition dsk_eqb (a b : dsk) : bool :=
  list_eqb (fun x y => Pos.eqb (fst x) (fst y) && sval_eqb (snd x) (snd y)) a b.
Definition odsk_eqb (a b : option dsk) : bool :=
  match a, b with Some x, Some y => dsk_eqb x y | None, None => true | _, _ => false end.

Record case := mkCase {
  c_tasks : list task;          (* the task table T; tid = tuid = position + 1 *)
  c_nb : nat;                   (* number of builders *)
  c_ops : list op;
  c_ctx : sval;
  c_errs : list nat;            (* operations that raised ValueError *)
  c_builder : list onode;       (* builders[0] after the operations *)
  c_wf : list onode;            (* wf = Workflow(builders[0]) *)
  c_ins : list positive;        (* wf.input_tasks *)
  c_outs : list positive;       (* wf.output_tasks *)
  c_ups : list (list nat);      (* wf.get_upstream_tasks(t) for every task t of wf, as node positions *)
  c_prep : list onode;          (* the workflow execute_workflow hands to the dispatcher *)
  c_keys : list positive;       (* its as_dask_dict(): keys in dict order ('results' = 1) *)
  c_dict : option dsk;          (*                    : the dict, None = ValueError *)
  c_result : result;            (* execute_workflow(wf, dispatcher=local_dask threaded, context=ctx) *)
  c_log : list event;           (* calls of the task functions during that execution *)
  c_alt : list (result * nat);  (* the same workflow's as_dask_dict() run by other schedulers (synchronous dask.get,
                                   threaded with 1 worker, threaded with 8 workers, and the OPTIMIZED dict with the
                                   futures unpacked): result, number of calls *)
  c_scat : option dsk;          (* {k: _scatter_computation(Future, client, v)} of c_dict with a recording client *)
  c_opt : option dsk;           (* optimize_task_graph_for_dask_distributed(client, c_dict) *)
  c_fsteps : list fstep         (* what fuse did, read off c_opt: inlined keys, aliases *)
}.

(* the pure test family: f(args...) returns (marker of f, args...) *)
Definition fam_apply (f : positive) (args : list sval) : sval := STuple (SAtom f :: args).

Definition ids_of (g : tgraph) (keys : list positive) (t : task) : positive :=
  nth (index_of t (nodes g)) keys 1%positive.

Definition tag (b : bool) (t : nat) : list nat := if b then [] else [t].

(* ---- the declared workflow, rebuilt from the implementation's own Workflow object ------------ *)
(* nodes in the order of wf.tasks, predecessor lists in that same order ("the order in which those
   predecessor tasks entered the workflow"), the context prepended where the function asks for it.
   The i-th node gets identity i + 1 so that all nodes are different. *)
Fixpoint enum_from {X} (i : nat) (l : list X) : list (nat * X) :=
  match l with [] => [] | x :: tl => (i, x) :: enum_from (S i) tl end.

Definition declared (tasks : list task) (ctx : sval) (obs : list onode) : tgraph :=
  let mk (p : nat * onode) : task :=
      let t := nth (Pos.to_nat (o_tid (snd p)) - 1) tasks dummy_task in
      mkTask (tid t) (Pos.of_succ_nat (fst p)) (tfun t) (if tctx t then ctx :: o_inputs (snd p) else o_inputs (snd p)) (tctx t) in
  let ns := map mk (enum_from 0 obs) in
  let posn (t : task) : nat := Pos.to_nat (tuid t) - 1 in
  let osucc (t : task) : list nat := o_succ (nth (posn t) obs (1%positive, false, [], [], [])) in
  mkG ns (fun t => map (fun i => nth i ns dummy_task) (osucc t))
         (fun t => filter (fun u => memn (posn t) (osucc u)) ns).

Definition edge_tids (obs : list onode) : list (positive * positive) :=
  let tid_at (i : nat) := o_tid (nth i obs (1%positive, false, [], [], [])) in
  flat_map (fun n => map (fun s => (o_tid n, tid_at s)) (o_succ n)) obs.
Definition pp_eqb (a b : positive * positive) : bool := Pos.eqb (fst a) (fst b) && Pos.eqb (snd a) (snd b).
Definition subset_pp (a b : list (positive * positive)) : bool := forallb (fun x => existsb (pp_eqb x) b) a.
Definition same_edges (a b : list onode) : bool :=
  subset_pp (edge_tids a) (edge_tids b) && subset_pp (edge_tids b) (edge_tids a).
Definition same_tids (a b : list onode) : bool := setp_eqb (map o_tid a) (map o_tid b) && (length a =? length b).

Fixpoint increasing (l : list nat) : bool :=
  match l with
  | a :: ((b :: _) as tl) => (a <? b) && increasing tl
  | _ => true
  end.
Fixpoint pos_index (k : positive) (l : list positive) : nat :=
  match l with [] => 0 | x :: tl => if Pos.eqb k x then 0 else S (pos_index k tl) end.

(* the last n arguments of a dict entry (the predecessor keys) as positions in the dict *)
Definition pred_key_positions (d : dsk) (n : nat) (v : sval) : list nat :=
  match v with
  | STuple (_ :: args) =>
      flat_map (fun a => match a with SStr s => [pos_index s (dkeys d)] | _ => [length d] end)
               (skipn (length args - n) args)
  | _ => []
  end.

(* two dicts as maps: same number of entries, every entry of a is an entry of b *)
Definition dsk_same (a b : dsk) : bool :=
  (length a =? length b) &&
  forallb (fun kv => match dlookup b (fst kv) with Some v => sval_eqb v (snd kv) | None => false end) a.
Definition odsk_same (a b : option dsk) : bool :=
  match a, b with Some x, Some y => dsk_same x y | None, None => true | _, _ => false end.

Definition verdict (c : case) : list nat :=
  let '(st, next, errs) := run_ops (c_tasks c) (c_ctx c) 0 (c_ops c)
                                   (repeat g_empty (c_nb c), Pos.of_succ_nat (length (c_tasks c))) in
  let gb := getb st 0 in
  let wf := workflow_of gb in
  let prep := exec_prepare wf (c_ctx c) next in
  let ids := ids_of prep (c_keys c) in
  let md := as_dask_dict prep ids in
  let (mres, mlog) := execute_log fam_apply wf (c_ctx c) next ids in
  let decl := declared (c_tasks c) (c_ctx c) (c_wf c) in
  (* correspondence *)
  tag (list_eqb Nat.eqb errs (c_errs c)) 1 ++
  tag (obs_eqb (obs_of gb) (c_builder c)) 2 ++
  tag (obs_eqb (obs_of wf) (c_wf c)) 3 ++
  tag (lpos_eqb (map tid (input_tasks wf)) (c_ins c) && lpos_eqb (map tid (output_tasks wf)) (c_outs c)
       && list_eqb lnat_eqb (map (fun t => map (fun u => index_of u (nodes wf)) (upstream task task_eqb wf t)) (nodes wf))
                            (c_ups c)) 4 ++
  tag (obs_eqb (obs_of prep) (c_prep c)) 5 ++
  tag (odsk_eqb md (c_dict c)) 6 ++
  tag (result_eqb mres (c_result c)) 7 ++
  tag (perm_eqb mlog (c_log c)) 8 ++
  (* optimize.py (only exported for acyclic single-sink workflows: dask.optimization.fuse does not terminate on a cycle) *)
  tag (match c_scat c with Some sc => odsk_eqb (option_map scatter_dsk md) (Some sc) | None => true end) 9 ++
  tag (match c_opt c with
       | Some o => match md with
                   | Some d => let (d', _) := fuse_steps (scatter_dsk d) (c_fsteps c) in
                               fst (fuse_steps_weak (scatter_dsk d) (c_fsteps c)) && dsk_same d' o
                               && inline_only (c_fsteps c)      (* rename_keys=False: no alias steps *)
                               && snd (fuse_steps d (c_fsteps c))   (* legal on the unscattered dict too: hypothesis of optimize_preserves *)
                               && avoids results (c_fsteps c) && nodupp (dkeys (scatter_dsk d))
                   | None => false
                   end
       | None => true
       end) 10 ++
  (* the property on the implementation's own outputs *)
  tag (result_eqb (ref_get fam_apply decl) (c_result c)) 11 ++
  tag (match c_result c with
       | ROk _ => (length (c_log c) =? length (c_wf c)) &&
                  forallb (fun t => count_occ Pos.eq_dec (map fst (c_log c)) (tfun t)
                                    =? count_occ Pos.eq_dec (map tfun (nodes decl)) (tfun t)) (nodes decl)
       | _ => match c_log c with [] => true | _ => false end
       end) 12 ++
  tag (same_tids (c_wf c) (c_prep c) && same_edges (c_wf c) (c_prep c)) 13 ++
  tag (same_tids (c_builder c) (c_wf c) && same_edges (c_builder c) (c_wf c)
       && lpos_eqb (map o_tid (c_builder c)) (map o_tid (c_wf c))) 14 ++
  tag (match c_dict c with
       | Some d => forallb (fun kn => increasing (pred_key_positions d (length (o_pred (snd kn))) (snd (fst kn))))
                           (combine d (c_prep c))
                   && (length d =? length (c_prep c))
       | None => true
       end) 15 ++
  tag (forallb (fun rn => result_eqb (fst rn) (c_result c) && (snd rn =? length (c_log c))) (c_alt c)) 16 ++
  (* get_upstream_tasks(t) lists exactly the strict ancestors of t (as a set; a task appears once per edge) *)
  tag (forallb (fun tu => setn_eqb (snd tu)
                            (map (fun u => index_of u (nodes wf)) (ancestors task task_eqb wf (fst tu))))
               (combine (nodes wf) (c_ups c))) 20 ++
  (* the graph optimisation for dask.distributed keeps the result and the calls: evaluated with the model's
     scheduler (futures unpacked) on the implementation's own optimized dict *)
  tag (match c_opt c with
       | Some o => let (r, lg) := dask_get_dist_log fam_apply o results in
                   result_eqb r (c_result c) && perm_eqb lg (c_log c)
       | None => true
       end) 19 ++
  (* the hypothesis g_keys_fresh, checked on the real dict: one entry per task of the prepared workflow, all keys
     different, 'results' is the key of the output task and of nothing else *)
  tag (match c_dict c with
       | Some d => (length d =? length (c_prep c)) && nodupp (dkeys d) &&
                   forallb (fun kn => Bool.eqb (Pos.eqb (fst (fst kn)) results)
                                               (match o_succ (snd kn) with [] => true | _ => false end))
                           (combine d (c_prep c))
       | None => true
       end) 17 ++
  (* guards *)
  tag (g_static_nokey prep ids) 201 ++     (* 201, 202 informational since /repo d3e6e19: such input is quoted *)
  tag (g_static_nocall prep) 202 ++
  tag (g_ctx_order wf) 203 ++          (* informational since /repo 4400919: not a guard any more *)
  tag (match output_tasks wf with [_] => true | _ => false end) 204 ++
  tag (length (topo_order wf) =? length (nodes wf)) 205 ++
  tag (g_keys_fresh prep ids) 206.
