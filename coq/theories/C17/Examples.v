(* PV.C17.Examples — non-vacuity: concrete NON-TRIVIAL instances of every hypothesis / guard of the
   theorems in Properties.v. *)
From Coq Require Import List Bool PArith Arith.
From PV Require Import Base.PyData C17.Model C17.Check C17.ProofsBuilder C17.ProofsOptimize C17.ProofsOptimizeAll C17.Refuted.
Import ListNotations.
Local Open Scope nat_scope.

(* a diamond with static inputs, a context-taking task,
   predecessors listed "backwards" in add_task:   a -> b, a -> c(context), d <- [c, b] *)
Definition e_a : task := mkTask 1 1 1 [SStr 7; STuple [SAtom 1001; SAtom 1002]] false.
Definition e_b : task := mkTask 2 2 2 [] false.
Definition e_c : task := mkTask 3 3 3 [SList [SStr 8; SFun 1]] true.
Definition e_d : task := mkTask 4 4 4 [SFun 2] false.
Definition e_builder : tgraph :=
  add_task (add_task (add_task (add_task g_empty e_a []) e_b [e_a]) e_c [e_a]) e_d [e_c; e_b].
Definition e_wf : tgraph := workflow_of e_builder.
Definition e_ctx : sval := SAtom 1000.
Definition e_prep : tgraph := exec_prepare e_wf e_ctx 100.

Example builder_is_built : built e_builder /\ built e_wf /\ built (insert_context e_builder e_ctx 100).
Proof. repeat split; repeat constructor. Qed.

(* all hypotheses of dask_dict_sound / dask_get_sound / execute_sound / exactly_once hold *)
Example guards_hold :
  map tid (output_tasks e_prep) = [4%positive] /\ length (nodes e_prep) = 4 /\
  g_keys_fresh e_prep r_ids = true /\
  length (topo_order e_prep) = length (nodes e_prep) /\ nodup_tids (nodes e_wf) = true /\ uids_below 100 e_wf = true.
Proof. crunch. Qed.

(* predecessors of d are listed in node order (b, c) although add_task was given [c, b] *)
Example pred_order_example : map tid (pred e_wf e_d) = [2; 3]%positive /\ map tid (pred e_builder e_d) = [3; 2]%positive.
Proof. crunch. Qed.

Example execute_example :
  execute fam_apply e_wf e_ctx 100 r_ids =
  ROk (STuple [SAtom 4; SFun 2;
               STuple [SAtom 2; STuple [SAtom 1; SStr 7; STuple [SAtom 1001; SAtom 1002]]];
               STuple [SAtom 3; SAtom 1000; SList [SStr 8; SFun 1]; STuple [SAtom 1; SStr 7; STuple [SAtom 1001; SAtom 1002]]]])
  /\ ref_get fam_apply e_prep = execute fam_apply e_wf e_ctx 100 r_ids.
Proof. crunch. Qed.

(* two different schedules of the generated dict, two different topological orders *)
Definition e_dict : dsk := the_dict e_prep r_ids.
Example two_schedules :
  dkeys e_dict = [11; 12; 13; 1]%positive /\
  (exists c, dask_run fam_apply e_dict [11; 12; 13; 1]%positive = Some c) /\
  (exists c, dask_run fam_apply e_dict [11; 13; 12; 1]%positive = Some c) /\
  dask_run fam_apply e_dict [12; 11; 13; 1]%positive = None /\           (* b before a: not a run *)
  dask_run fam_apply e_dict [11; 12; 12; 13; 1]%positive = None.         (* b twice: not a run *)
Proof.
  split; [vm_compute; reflexivity|]. split; [eexists; vm_compute; reflexivity|].
  split; [eexists; vm_compute; reflexivity|]. crunch.
Qed.

Example two_orders :
  let n := nodes e_prep in
  (exists c, topo_eval fam_apply e_prep [nth 0 n e_a; nth 1 n e_a; nth 2 n e_a; nth 3 n e_a] = Some c) /\
  (exists c, topo_eval fam_apply e_prep [nth 0 n e_a; nth 2 n e_a; nth 1 n e_a; nth 3 n e_a] = Some c) /\
  topo_order e_prep = n.
Proof.
  cbv zeta. split; [eexists; vm_compute; reflexivity|]. split; [eexists; vm_compute; reflexivity|]. crunch.
Qed.

Example call_log_example :
  map fst (snd (dask_get_log fam_apply e_dict results)) = [1; 2; 3; 4]%positive.
Proof. crunch. Qed.

(* insert_workflow: n:n, n:1, 1:n and the refused n:m *)
Definition x1 : task := mkTask 11 11 1 [] false.  Definition x2 : task := mkTask 12 12 1 [] false.
Definition x3 : task := mkTask 13 13 1 [] false.
Definition y1 : task := mkTask 21 21 1 [] false.  Definition y2 : task := mkTask 22 22 1 [] false.
Definition y3 : task := mkTask 23 23 1 [] false.
Definition two_x : tgraph := add_task (add_task g_empty x1 []) x2 [].
Definition three_x : tgraph := add_task two_x x3 [].
Definition two_y : tgraph := add_task (add_task g_empty y1 []) y2 [].
Definition three_y : tgraph := add_task two_y y3 [].
Definition one_y : tgraph := add_task g_empty y1 [].

Example insert_workflow_examples :
  iw_links two_x two_y None = Some [(x1, y1); (x2, y2)] /\
  iw_links two_x one_y None = Some [(x1, y1); (x2, y1)] /\
  iw_links (add_task g_empty x1 []) two_y None = Some [(x1, y1); (x1, y2)] /\
  iw_links two_x two_y (Some [x2; x1]) = Some [(x2, y1); (x1, y2)] /\
  iw_links two_x three_y None = None /\ snd (insert_workflow two_x three_y None) = false /\
  iw_links three_x two_y None = None /\
  built two_x /\ built three_y.
Proof.
  repeat (split; [vm_compute; reflexivity|]). split; repeat constructor.
Qed.

(* replace_task: the new task takes the position of the old one; predecessor lists come out in node order *)
Example replace_task_example :
  ~ In x3 (nodes two_x) /\
  pred (add_task two_x y1 [x2; x1]) y1 = [x2; x1] /\
  nodes (replace_task (add_task two_x y1 [x2; x1]) x1 x3) = [x3; x2; y1] /\
  pred (replace_task (add_task two_x y1 [x2; x1]) x1 x3) y1 = [x3; x2] /\
  ~ In y3 (nodes two_x) /\ nodes (replace_task two_x y3 x3) = nodes two_x.
Proof.
  split; [vm_compute; intros [H|[H|[]]]; discriminate|].
  repeat (split; [vm_compute; reflexivity|]).
  split; [vm_compute; intros [H|[H|[]]]; discriminate|]. vm_compute. reflexivity.
Qed.

Example add_task_new_example :
  ~ In y1 (nodes two_x) /\ incl [x2; x1] (nodes two_x) /\ nodes (add_task two_x y1 [x2; x1]) = [x1; x2; y1].
Proof.
  split; [vm_compute; intros [H|[H|[]]]; discriminate|]. split.
  - intros t [H|[H|[]]]; subst; vm_compute; tauto.
  - vm_compute. reflexivity.
Qed.

(* every hypothesis of execute_is_declared_evaluation holds on the diamond (declared order a, b, c, d) *)
Example declared_example :
  output_tasks (workflow_of e_wf) = [e_d] /\
  uids_below 100 e_wf = true /\ nodes e_wf = [e_a; e_b; e_c; e_d] /\
  (exists c, declared_eval fam_apply e_ctx (workflow_of e_wf) [e_a; e_b; e_c; e_d] = Some c /\
             execute fam_apply e_wf e_ctx 100 r_ids = ROk (cget task sval task_eqb dflt_sval c e_d)) /\
  (exists c, declared_eval fam_apply e_ctx (workflow_of e_wf) [e_a; e_c; e_b; e_d] = Some c).
Proof.
  repeat (split; [vm_compute; reflexivity|]). split.
  - eexists. split; vm_compute; reflexivity.
  - eexists. vm_compute. reflexivity.
Qed.

(* optimize.py: objects scattered, numbers / strings / dicts / callables / quoted input not; the hypotheses of
   scatter_preserves hold on the diamond's dict; a legal fuse step *)
Definition e_dict2 : dsk := the_dict (exec_prepare e_wf (SAtom 2000) 100) r_ids.    (* the context is an object *)
Example scatter_example :
  scatter (STuple [SFun 1; SAtom 2001; SAtom 1001; SList [SAtom 2002; SStr 7]; STuple [SAtom 2003; SAtom 2004];
                   SDict [SStr 8] [SAtom 2005]; STuple [SLit (SStr results)]; STuple []])
  = STuple [SFun 1; SFut (SAtom 2001); SAtom 1001; SList [SFut (SAtom 2002); SStr 7]; STuple [SAtom 2003; SFut (SAtom 2004)];
            SDict [SStr 8] [SAtom 2005]; STuple [SLit (SStr results)]; STuple []] /\
  dsk_no_fut e_dict2 = true /\ dlookup (scatter_dsk e_dict2) 13 <> dlookup e_dict2 13 /\
  dask_get_dist_log fam_apply (scatter_dsk e_dict2) results = dask_get_log fam_apply e_dict2 results.
Proof.
  split; [vm_compute; reflexivity|]. split; [vm_compute; reflexivity|]. split; [|vm_compute; reflexivity].
  vm_compute. discriminate.
Qed.

Definition chain_dict : dsk := the_dict (workflow_of (add_task (add_task (add_task g_empty x1 []) x2 [x1]) x3 [x2])) r_ids.
Example fuse_steps_example :
  snd (fuse_steps chain_dict [FInline 21; FInline 22; FAlias results 99]) = true /\
  fst (fuse_steps chain_dict [FInline 21; FInline 22; FAlias results 99]) =
    [(results, SStr 99); (99%positive, STuple [SFun 1; STuple [SFun 1; STuple [SFun 1]]])] /\
  dask_get_log fam_apply (fst (fuse_steps chain_dict [FInline 21; FInline 22; FAlias results 99])) results
    = dask_get_log fam_apply chain_dict results /\
  snd (fuse_steps e_dict [FInline 11]) = false /\     (* a has two dependents: not a legal step *)
  (* the hypotheses of fuse_steps_preserve *)
  nodupp (dkeys chain_dict) = true /\ length (dask_sched chain_dict) = length chain_dict /\
  avoids results [FInline 21; FInline 22; FAlias results 99] = true /\
  inline_only [FInline 21; FInline 22] = true /\ snd (fuse_steps chain_dict [FInline 21; FInline 22]) = true.
Proof. crunch. Qed.

(* queries; get_upstream_tasks lists a task once per edge *)
Example queries_example :
  map tid (output_tasks e_wf) = [4%positive] /\ map tid (input_tasks e_wf) = [1%positive] /\
  map tid (upstream task task_eqb e_wf e_d) = [2; 1; 3; 1]%positive /\
  map tid (ancestors task task_eqb e_wf e_d) = [2; 3; 1]%positive /\
  upstream task task_eqb e_wf e_a = [] /\
  nodes (builder_plus two_x (add_task two_y x1 [])) = [x1; x2; y1; y2].
Proof. crunch. Qed.

(* call_workflow: hypotheses of call_workflow_context_exact, and the context goes to c only, once *)
Example call_workflow_example :
  uids_below 100 e_wf = true /\
  map tinputs (nodes (call_prepare e_wf e_ctx 100)) =
    [tinputs e_a; tinputs e_b; e_ctx :: tinputs e_c; tinputs e_d] /\
  dask_get fam_apply (the_dict (call_prepare e_wf e_ctx 100) r_ids) results = execute fam_apply e_wf e_ctx 100 r_ids.
Proof. crunch. Qed.

(* optimize_preserves: all hypotheses hold on a chain with an object (scattered) and a number as static input *)
Definition oc_a : task := mkTask 11 11 1 [SAtom 2001; SAtom 1001; SList [SAtom 2002]] false.
Definition oc_dict : dsk := the_dict (workflow_of (add_task (add_task (add_task g_empty oc_a []) x2 [oc_a]) x3 [x2])) r_ids.
Example optimize_preserves_example :
  nodupp (dkeys oc_dict) = true /\ length (dask_sched oc_dict) = length oc_dict /\ dsk_no_fut oc_dict = true /\
  inline_only [FInline 21; FInline 22] = true /\ avoids results [FInline 21; FInline 22] = true /\
  snd (fuse_steps oc_dict [FInline 21; FInline 22]) = true /\
  fst (fuse_steps (scatter_dsk oc_dict) [FInline 21; FInline 22]) =
    [(results, STuple [SFun 1; STuple [SFun 1; STuple [SFun 1; SFut (SAtom 2001); SAtom 1001; SList [SFut (SAtom 2002)]]]])] /\
  dask_get_dist fam_apply (fst (fuse_steps (scatter_dsk oc_dict) [FInline 21; FInline 22])) results
    = dask_get fam_apply oc_dict results /\
  dsk_atomic (scatter_dsk oc_dict) = true.
Proof. crunch. Qed.

(* optimize_preserves_calls on the same chain: results is a key; three calls before and after, in this case even in
   the same order *)
Example optimize_preserves_calls_example :
  In results (dkeys oc_dict) /\
  map fst (snd (dask_get_log fam_apply oc_dict results)) = [1; 1; 1]%positive /\
  snd (dask_get_dist_log fam_apply (fst (fuse_steps (scatter_dsk oc_dict) [FInline 21; FInline 22])) results)
    = snd (dask_get_log fam_apply oc_dict results).
Proof. split; [vm_compute; right; right; left; reflexivity|]. crunch. Qed.
