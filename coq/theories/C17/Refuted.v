(* PV.C17.Refuted — counter-models: one per guard conjunct that exists because the CODE fails: none left
   (C17-FUSE-ALIAS-COLLISION repaired in /repo c89db96).
   Regression examples of the repaired findings C17-STATIC-KEY, C17-STATIC-CALLABLE-TUPLE (/repo d3e6e19) and
   C17-CONTEXT-REORDERS-PREDECESSORS (/repo 4400919). *)
From Coq Require Import List Bool PArith Arith.
From PV Require Import Base.PyData C17.Model C17.Check.
Import ListNotations.
Local Open Scope nat_scope.

Definition r_ids (t : task) : positive := (tid t + 10)%positive.     (* fresh keys, none is 'results' *)
Definition the_dict (g : tgraph) (ids : task -> positive) : dsk :=
  match as_dask_dict g ids with Some d => d | None => [] end.
Definition the_val (r : result) : sval := match r with ROk v => v | _ => SAtom 1 end.
Ltac crunch := repeat (split; [vm_compute; reflexivity|]); vm_compute; reflexivity.
Definition s_xyz : sval := SStr 7%positive.

(* ---- 1. (repaired in /repo d3e6e19, finding C17-STATIC-KEY) a static input equal to 'results' ----------- *)
(* Task('a', f1, 'results') -> Task('b', f2): formerly "Cycle detected" *)
Definition k_a : task := mkTask 1 1 1 [SStr results] false.
Definition k_b : task := mkTask 2 2 2 [] false.
Definition k_wf : tgraph := workflow_of (add_task (add_task g_empty k_a []) k_b [k_a]).

Example static_key_fixed :
  g_static_nokey k_wf r_ids = false /\
  as_dask_dict k_wf r_ids = Some [(11%positive, STuple [SFun 1; STuple [SLit (SStr results)]]);
                                  (results, STuple [SFun 2; SStr 11])] /\
  dask_get fam_apply (the_dict k_wf r_ids) results = ROk (STuple [SAtom 2; STuple [SAtom 1; SStr results]]) /\
  ref_get fam_apply k_wf = dask_get fam_apply (the_dict k_wf r_ids) results /\
  execute fam_apply k_wf (SAtom 1000) 100 r_ids = ROk (STuple [SAtom 2; STuple [SAtom 1; SStr results]]).
Proof. crunch. Qed.

(* the same string inside a tuple, a list and a dict value: quoted as a whole *)
Definition k_a2 : task :=
  mkTask 1 1 1 [STuple [SAtom 1001; SList [SStr results]]; SDict [SStr 8] [SStr results]; SStr 7] false.
Definition k_wf2 : tgraph := workflow_of (add_task (add_task g_empty k_a2 []) k_b [k_a2]).
Example static_key_nested_fixed :
  map (quote [11; results]%positive) (tinputs k_a2) =
    [STuple [SLit (STuple [SAtom 1001; SList [SStr results]])]; STuple [SLit (SDict [SStr 8] [SStr results])]; SStr 7] /\
  dask_get fam_apply (the_dict k_wf2 r_ids) results = ref_get fam_apply k_wf2 /\
  (exists v, ref_get fam_apply k_wf2 = ROk v).
Proof. split; [vm_compute; reflexivity|]. split; [vm_compute; reflexivity|]. eexists. vm_compute. reflexivity. Qed.

(* ---- 2. (repaired in /repo d3e6e19, finding C17-STATIC-CALLABLE-TUPLE) a callable-headed static tuple ---- *)
(* Task('a', f1, (f2, 'xyz')) -> Task('b', f3): formerly f1 received f2('xyz') and f2 was called *)
Definition c_a : task := mkTask 1 1 1 [STuple [SFun 2; s_xyz]] false.
Definition c_b : task := mkTask 2 2 3 [] false.
Definition c_wf : tgraph := workflow_of (add_task (add_task g_empty c_a []) c_b [c_a]).

Example static_callable_tuple_fixed :
  g_static_nocall c_wf = false /\
  ref_get fam_apply c_wf = ROk (STuple [SAtom 3; STuple [SAtom 1; STuple [SFun 2; s_xyz]]]) /\
  dask_get_log fam_apply (the_dict c_wf r_ids) results =
    (ROk (STuple [SAtom 3; STuple [SAtom 1; STuple [SFun 2; s_xyz]]]),
     [(1%positive, [STuple [SFun 2; s_xyz]]); (3%positive, [STuple [SAtom 1; STuple [SFun 2; s_xyz]]])]).
Proof. crunch. Qed.

(* what the unquoted entry would do (the evaluator on the former dict): f2 is called, f1 gets its result *)
Example unquoted_callable_tuple_is_evaluated :
  eval_arg fam_apply [11; results]%positive (fun _ => dflt_sval) (STuple [SFun 1; STuple [SFun 2; s_xyz]]) =
    (STuple [SAtom 1; STuple [SAtom 2; s_xyz]], [(2%positive, [s_xyz]); (1%positive, [STuple [SAtom 2; s_xyz]])]).
Proof. vm_compute. reflexivity. Qed.

(* ---- 3. (repaired in /repo 4400919, finding C17-CONTEXT-REORDERS-PREDECESSORS) ---------------------- *)
(* a(context), b(), c with predecessors a, b entered in that order: formerly c received (B, A) because the
   in-place relabel moved the context-taking task behind all the others *)
Definition o_a : task := mkTask 1 1 1 [] true.
Definition o_b : task := mkTask 2 2 2 [] false.
Definition o_c : task := mkTask 3 3 3 [] false.
Definition o_wf : tgraph :=
  workflow_of (add_task (add_task (add_task g_empty o_a []) o_b []) o_c [o_a; o_b]).
Definition o_ctx : sval := SAtom 1000.
Definition o_c' : task := task_replace o_c [] 102.    (* the copy execute_workflow makes of c *)

Example context_order_fixed :
  g_ctx_order o_wf = false /\
  map tid (nodes (exec_prepare o_wf o_ctx 100)) = [1; 2; 3]%positive /\
  map tid (pred o_wf o_c) = [1; 2]%positive /\
  map tid (pred (exec_prepare o_wf o_ctx 100) o_c') = [1; 2]%positive /\
  execute fam_apply o_wf o_ctx 100 r_ids = ROk (STuple [SAtom 3; STuple [SAtom 1; o_ctx]; STuple [SAtom 2]]).
Proof. crunch. Qed.

(* the in-place relabel (networkx copy=False, the code before the repair) moves the node to the end *)
Example inplace_relabel_moved_to_end :
  map tid (nodes (relabel1 task task_eqb o_wf o_a (task_replace o_a [o_ctx] 100))) = [2; 3; 1]%positive /\
  map tid (nodes (replace_task o_wf o_a (task_replace o_a [o_ctx] 100))) = [1; 2; 3]%positive.
Proof. crunch. Qed.

(* ---- 4. (repaired in /repo c89db96, finding C17-FUSE-ALIAS-COLLISION) ------------------------------------------- *)
(* Task('a', f1, 'a-results') -> Task('r', f2): formerly fuse stored the fused chain under the made-up key
   'a-results' (= 99) and the static string became a reference of the task to itself ("Cycle detected" with the
   distributed dispatcher).  optimize.py now calls fuse(rename_keys=False): inline steps only. *)
Definition al_a : task := mkTask 1 1 1 [SStr 99] false.
Definition al_r : task := mkTask 2 2 2 [] false.
Definition al_wf : tgraph := workflow_of (add_task (add_task g_empty al_a []) al_r [al_a]).

Example alias_collision_fixed :
  inline_only [FInline 11] = true /\
  fuse_steps (scatter_dsk (the_dict al_wf r_ids)) [FInline 11] =
    ([(results, STuple [SFun 2; STuple [SFun 1; SStr 99]])], true) /\
  dask_get fam_apply (the_dict al_wf r_ids) results = ROk (STuple [SAtom 2; STuple [SAtom 1; SStr 99]]) /\
  dask_get_dist_log fam_apply (fst (fuse_steps (scatter_dsk (the_dict al_wf r_ids)) [FInline 11])) results =
    dask_get_log fam_apply (the_dict al_wf r_ids) results.
Proof. crunch. Qed.

(* what the renaming step did (the code before the repair): legal for fuse, but the made-up name is mentioned *)
Definition al_d : dsk := [(results, STuple [SFun 2; STuple [SFun 1; SStr 99]])].
Example renaming_step_made_a_cycle :
  g_alias_unmentioned al_d 99 = false /\ fuse_step_ok_weak al_d (FAlias results 99) = true /\
  dask_get fam_apply al_d results = ROk (STuple [SAtom 2; STuple [SAtom 1; SStr 99]]) /\
  dask_get fam_apply (fuse_step al_d (FAlias results 99)) results = RCycle.
Proof. crunch. Qed.
