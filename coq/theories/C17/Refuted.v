(* PV.C17.Refuted — counter-models: one per guard conjunct that exists because the CODE fails
   (open findings C17-STATIC-KEY, C17-STATIC-CALLABLE-TUPLE); regression examples of the repaired
   C17-CONTEXT-REORDERS-PREDECESSORS (/repo 4400919). *)
From Coq Require Import List Bool PArith Arith.
From PV Require Import Base.PyData C17.Model C17.Check.
Import ListNotations.
Local Open Scope nat_scope.

Definition r_ids (t : task) : positive := (tid t + 10)%positive.     (* fresh keys, none is 'results' *)
Definition the_dict (g : tgraph) (ids : task -> positive) : dsk :=
  match as_dask_dict g ids with Some d => d | None => [] end.
Definition the_val (r : result) : sval := match r with ROk v => v | _ => SAtom 1 end.
Ltac crunch := repeat (split; [vm_compute; reflexivity|]); vm_compute; reflexivity.
Definition s_xyz : sval := SStr 7%positive.

(* ---- 1. a static input equal to the string 'results' ------------------------------------------- *)
(* Task('a', f1, 'results') -> Task('b', f2) *)
Definition k_a : task := mkTask 1 1 1 [SStr results] false.
Definition k_b : task := mkTask 2 2 2 [] false.
Definition k_wf : tgraph := workflow_of (add_task (add_task g_empty k_a []) k_b [k_a]).

Theorem static_key_collision_refuted :
  exists (g : tgraph) (ids : task -> positive) (d : dsk) (v : sval),
    g_static_nokey g ids = false /\
    g_keys_fresh g ids = true /\ g_static_nocall g = true /\ output_tasks g = [k_b] /\
    length (topo_order g) = length (nodes g) /\ as_dask_dict g ids = Some d /\
    ref_get fam_apply g = ROk v /\ dask_get fam_apply d results = RCycle.
Proof.
  exists k_wf, r_ids, (the_dict k_wf r_ids), (the_val (ref_get fam_apply k_wf)). crunch.
Qed.

(* the same through execute_workflow *)
Theorem static_key_execute_refuted :
  exists (g : tgraph) (ctx : sval) (ids : task -> positive),
    g_static_nokey (exec_prepare g ctx 100) ids = false /\ execute fam_apply g ctx 100 ids = RCycle.
Proof. exists k_wf, (SAtom 1000), r_ids. crunch. Qed.

(* ---- 2. a static tuple whose first element is callable -------------------------------------------- *)
(* Task('a', f1, (f2, 'xyz')) -> Task('b', f3): f1 receives f2('xyz'), and f2 is called *)
Definition c_a : task := mkTask 1 1 1 [STuple [SFun 2; s_xyz]] false.
Definition c_b : task := mkTask 2 2 3 [] false.
Definition c_wf : tgraph := workflow_of (add_task (add_task g_empty c_a []) c_b [c_a]).

Theorem static_callable_tuple_refuted :
  exists (g : tgraph) (ids : task -> positive) (d : dsk),
    g_static_nocall g = false /\
    g_keys_fresh g ids = true /\ g_static_nokey g ids = true /\ output_tasks g = [c_b] /\
    length (topo_order g) = length (nodes g) /\ as_dask_dict g ids = Some d /\
    ref_get fam_apply g = ROk (STuple [SAtom 3; STuple [SAtom 1; STuple [SFun 2; s_xyz]]]) /\
    dask_get_log fam_apply d results =
      (ROk (STuple [SAtom 3; STuple [SAtom 1; STuple [SAtom 2; s_xyz]]]),
       [(2%positive, [s_xyz]); (1%positive, [STuple [SAtom 2; s_xyz]]);
        (3%positive, [STuple [SAtom 1; STuple [SAtom 2; s_xyz]]])]).
Proof.
  exists c_wf, r_ids, (the_dict c_wf r_ids). crunch.
Qed.

(* ---- 3. (repaired in /repo 4400919, finding C17-CONTEXT-REORDERS-PREDECESSORS) ---------------------- *)
(* a(context), b(), c with predecessors a, b entered in that order: formerly c received (B, A) because the
   in-place relabel moved the context-taking task behind all the others *)
Definition o_a : task := mkTask 1 1 1 [] true.
Definition o_b : task := mkTask 2 2 2 [] false.
Definition o_c : task := mkTask 3 3 3 [] false.
Definition o_wf : tgraph :=
  workflow_of (add_task (add_task (add_task g_empty o_a []) o_b []) o_c [o_a; o_b]).
Definition o_ctx : sval := SAtom 1000.
Definition o_c' : task := task_replace o_c [] 102.    (* the copy execute_workflow makes of c *)

Example context_order_fixed :
  g_ctx_order o_wf = false /\
  map tid (nodes (exec_prepare o_wf o_ctx 100)) = [1; 2; 3]%positive /\
  map tid (pred o_wf o_c) = [1; 2]%positive /\
  map tid (pred (exec_prepare o_wf o_ctx 100) o_c') = [1; 2]%positive /\
  execute fam_apply o_wf o_ctx 100 r_ids = ROk (STuple [SAtom 3; STuple [SAtom 1; o_ctx]; STuple [SAtom 2]]).
Proof. crunch. Qed.

(* the in-place relabel (networkx copy=False, the code before the repair) moves the node to the end *)
Example inplace_relabel_moved_to_end :
  map tid (nodes (relabel1 task task_eqb o_wf o_a (task_replace o_a [o_ctx] 100))) = [2; 3; 1]%positive /\
  map tid (nodes (replace_task o_wf o_a (task_replace o_a [o_ctx] 100))) = [1; 2; 3]%positive.
Proof. crunch. Qed.
