(* PV.C17.ProofsSched — facts about the generic scheduler of Model.v (Section Sched):
   every run is a valid trace; a valid trace satisfies the local equation of every key it ran;
   two valid traces agree on every key both ran (schedule independence); every key runs at most
   once; the greedy schedule is a run and is complete whenever a complete valid trace exists. *)
From Coq Require Import List Bool PArith Arith Lia Permutation.
From PV Require Import Base.PyData C17.Model.
Import ListNotations.
Local Open Scope nat_scope.

Lemma snoc_cases {A} (l : list A) : l = [] \/ exists l' x, l = l' ++ [x].
Proof. induction l using rev_ind; [left; reflexivity | right; eauto]. Qed.

Lemma NoDup_app_snoc {A} (l : list A) x : NoDup l -> ~ In x l -> NoDup (l ++ [x]).
Proof.
  induction l as [|y tl IH]; cbn [app]; intros Hn Hx.
  - constructor; [intros []|constructor].
  - inversion Hn as [|? ? Hy Htl]; subst. constructor.
    + intro Hi. apply in_app_or in Hi. destruct Hi as [Hi|[Hi|[]]]; [contradiction|].
      subst. apply Hx. left. reflexivity.
    + apply IH; [exact Htl|]. intro Hi. apply Hx. right. exact Hi.
Qed.

Section SchedProofs.
  Variables K V : Type.
  Variable keqb : K -> K -> bool.
  Variable dflt : V.
  Variable deps : K -> list K.
  Variable comp : K -> (K -> V) -> V.
  Hypothesis keqb_spec : forall a b, keqb a b = true <-> a = b.
  (* the computation of a key only looks at the values of its dependencies *)
  Hypothesis comp_local : forall k c1 c2, (forall d, In d (deps k) -> c1 d = c2 d) -> comp k c1 = comp k c2.

  Notation cache := (cache K V).
  Notation cget := (cget K V keqb dflt).
  Notation done := (done K V).
  Notation ready := (ready K keqb deps).
  Notation run := (run K V keqb dflt deps comp).
  Notation greedy_sched := (greedy_sched K keqb deps).
  Notation kmem := (mem K keqb).

  Lemma keqb_refl a : keqb a a = true.
  Proof. apply keqb_spec. reflexivity. Qed.

  Lemma keqb_false a b : keqb a b = false <-> a <> b.
  Proof.
    split.
    - intros H E. apply keqb_spec in E. congruence.
    - intros H. destruct (keqb a b) eqn:E; [apply keqb_spec in E; contradiction | reflexivity].
  Qed.

  Lemma kmem_In k l : kmem k l = true <-> In k l.
  Proof.
    unfold mem. rewrite existsb_exists. split.
    - intros [y [Hy E]]. apply keqb_spec in E. subst. exact Hy.
    - intros H. exists k. split; [exact H | apply keqb_refl].
  Qed.

  Lemma kmem_false k l : kmem k l = false <-> ~ In k l.
  Proof.
    split.
    - intros H HI. apply kmem_In in HI. congruence.
    - intros H. destruct (kmem k l) eqn:E; [apply kmem_In in E; contradiction | reflexivity].
  Qed.

  Lemma ready_spec dn k : ready dn k = true <-> ~ In k dn /\ incl (deps k) dn.
  Proof.
    unfold ready. rewrite andb_true_iff, negb_true_iff, kmem_false, forallb_forall. split.
    - intros [H1 H2]. split; [exact H1|]. intros d Hd. apply kmem_In. apply H2. exact Hd.
    - intros [H1 H2]. split; [exact H1|]. intros d Hd. apply kmem_In. apply H2. exact Hd.
  Qed.

  Lemma done_app (c e : cache) : done (c ++ e) = done c ++ done e.
  Proof. unfold Model.done. apply map_app. Qed.

  Lemma cget_app_in (c e : cache) k : In k (done c) -> cget (c ++ e) k = cget c k.
  Proof.
    induction c as [|[k' v] tl IH]; cbn [Model.cget Model.done map app In]; intros H.
    - contradiction.
    - destruct (keqb k k') eqn:E; [reflexivity|].
      apply IH. destruct H as [H|H]; [|exact H]. subst. rewrite keqb_refl in E. discriminate.
  Qed.

  Lemma cget_app_notin (c e : cache) k : ~ In k (done c) -> cget (c ++ e) k = cget e k.
  Proof.
    induction c as [|[k' v] tl IH]; cbn [Model.cget Model.done map app In]; intros H.
    - reflexivity.
    - destruct (keqb k k') eqn:E.
      + apply keqb_spec in E. subst. exfalso. apply H. left. reflexivity.
      + apply IH. intro HI. apply H. right. exact HI.
  Qed.

  (* ---- valid traces ----------------------------------------------------------------------- *)
  Inductive valid : cache -> Prop :=
  | valid_nil : valid []
  | valid_snoc c k : valid c -> ~ In k (done c) -> incl (deps k) (done c) ->
                     valid (c ++ [(k, comp k (cget c))]).

  Lemma run_valid sched : forall c c', valid c -> run sched c = Some c' -> valid c'.
  Proof.
    induction sched as [|k tl IH]; cbn [Model.run]; intros c c' Hv H.
    - inversion H. subst. exact Hv.
    - destruct (ready (done c) k) eqn:R; [|discriminate].
      apply ready_spec in R. destruct R as [R1 R2].
      eapply IH; [|exact H]. apply valid_snoc; assumption.
  Qed.

  Lemma run_done sched : forall c c', run sched c = Some c' -> done c' = done c ++ sched.
  Proof.
    induction sched as [|k tl IH]; cbn [Model.run]; intros c c' H.
    - inversion H. subst. rewrite app_nil_r. reflexivity.
    - destruct (ready (done c) k) eqn:R; [|discriminate].
      apply IH in H. rewrite H, done_app. cbn [Model.done map fst]. rewrite <- app_assoc. reflexivity.
  Qed.

  Lemma valid_nodup c : valid c -> NoDup (done c).
  Proof.
    induction 1 as [|c k Hv IH Hn Hd].
    - constructor.
    - rewrite done_app. cbn [Model.done map fst]. apply NoDup_app_snoc; assumption.
  Qed.

  (* the local equation: what a key got is what its computation yields on the final values *)
  Lemma valid_equation c : valid c ->
    forall k, In k (done c) -> cget c k = comp k (cget c) /\ incl (deps k) (done c).
  Proof.
    induction 1 as [|c k0 Hv IH Hn Hd]; intros k Hk.
    - contradiction.
    - rewrite done_app in *. cbn [Model.done map fst] in *.
      assert (Hagree : forall k', incl (deps k') (done c) ->
                comp k' (cget (c ++ [(k0, comp k0 (cget c))])) = comp k' (cget c)).
      { intros k' Hi. apply comp_local. intros d Hdd. apply cget_app_in. apply Hi. exact Hdd. }
      apply in_app_or in Hk. destruct Hk as [Hk|Hk].
      + destruct (IH k Hk) as [E I]. split.
        * rewrite cget_app_in by exact Hk. rewrite Hagree by exact I. exact E.
        * intros d Hdd. apply in_or_app. left. apply I. exact Hdd.
      + destruct Hk as [Hk|[]]. subst k0. split.
        * rewrite cget_app_notin by exact Hn. cbn [Model.cget]. rewrite keqb_refl.
          rewrite Hagree by exact Hd. reflexivity.
        * intros d Hdd. apply in_or_app. left. apply Hd. exact Hdd.
  Qed.

  (* an entry of a valid trace is what cget finds *)
  Lemma valid_entry c : valid c -> forall k v, In (k, v) c -> cget c k = v.
  Proof.
    induction 1 as [|c k0 Hv IH Hn Hd]; intros k v Hin.
    - contradiction.
    - apply in_app_or in Hin. destruct Hin as [Hin|Hin].
      + rewrite cget_app_in.
        * apply IH. exact Hin.
        * unfold Model.done. apply in_map_iff. exists (k, v). split; [reflexivity | exact Hin].
      + destruct Hin as [Hin|[]]. inversion Hin. subst.
        rewrite cget_app_notin by exact Hn. cbn [Model.cget]. rewrite keqb_refl. reflexivity.
  Qed.

  (* the dependencies of a key ran strictly before it *)
  Lemma valid_split c : valid c ->
    forall pre k post, done c = pre ++ k :: post -> incl (deps k) pre.
  Proof.
    induction 1 as [|c k0 Hv IH Hn Hd]; intros pre k post E.
    - destruct pre; discriminate.
    - rewrite done_app in E. cbn [Model.done map fst] in E.
      destruct (snoc_cases post) as [Hp|[post' [x Hp]]]; subst post.
      + apply app_inj_tail in E. destruct E as [E1 E2]. subst. exact Hd.
      + assert (E' : done c ++ [k0] = (pre ++ k :: post') ++ [x]) by (rewrite E, <- app_assoc; reflexivity).
        apply app_inj_tail in E'. destruct E' as [E1 E2]. eapply IH. exact E1.
  Qed.

  (* ---- schedule independence -------------------------------------------------------------- *)
  Lemma valid_agree c1 : valid c1 -> forall c2, valid c2 ->
    forall k, In k (done c1) -> In k (done c2) -> cget c1 k = cget c2 k.
  Proof.
    induction 1 as [|c k0 Hv IH Hn Hd]; intros c2 Hv2 k H1 H2.
    - contradiction.
    - rewrite done_app in H1. cbn [Model.done map fst] in H1.
      apply in_app_or in H1. destruct H1 as [H1|H1].
      + rewrite cget_app_in by exact H1. apply IH; assumption.
      + destruct H1 as [H1|[]]. subst k0.
        rewrite cget_app_notin by exact Hn. cbn [Model.cget]. rewrite keqb_refl.
        destruct (valid_equation c2 Hv2 k H2) as [E I]. rewrite E.
        apply comp_local. intros d Hdd. apply IH; [exact Hv2 | apply Hd; exact Hdd | apply I; exact Hdd].
  Qed.

  (* ---- the greedy schedule ------------------------------------------------------------------ *)
  Lemma greedy_runs fuel univ : forall c, exists c', run (greedy_sched fuel univ (done c)) c = Some c'.
  Proof.
    induction fuel as [|f IH]; intros c; cbn [Model.greedy_sched].
    - exists c. reflexivity.
    - destruct (find (ready (done c)) univ) as [k|] eqn:F.
      + apply find_some in F. destruct F as [_ R]. cbn [Model.run]. rewrite R.
        specialize (IH (c ++ [(k, comp k (cget c))])). rewrite done_app in IH. exact IH.
      + exists c. reflexivity.
  Qed.

  Lemma first_missing (dn : list K) : forall l, ~ incl l dn ->
    exists pre k post, l = pre ++ k :: post /\ incl pre dn /\ ~ In k dn.
  Proof.
    induction l as [|x tl IH]; intros H.
    - exfalso. apply H. intros y [].
    - destruct (kmem x dn) eqn:E.
      + apply kmem_In in E.
        destruct IH as [pre [k [post [E1 [E2 E3]]]]].
        { intro Hi. apply H. intros y [Hy|Hy]; [subst; exact E | apply Hi; exact Hy]. }
        exists (x :: pre), k, post. subst tl. split; [reflexivity|]. split; [|exact E3].
        intros y [Hy|Hy]; [subst; exact E | apply E2; exact Hy].
      + apply kmem_false in E. exists [], x, tl. split; [reflexivity|]. split; [intros y []|exact E].
  Qed.

  Lemma incl_dec_b (l dn : list K) : {incl l dn} + {~ incl l dn}.
  Proof.
    destruct (forallb (fun k => kmem k dn) l) eqn:E.
    - left. intros k Hk. rewrite forallb_forall in E. apply kmem_In. apply E. exact Hk.
    - right. intro Hi. assert (forallb (fun k => kmem k dn) l = true).
      { apply forallb_forall. intros k Hk. apply kmem_In. apply Hi. exact Hk. } congruence.
  Qed.

  (* if some complete valid trace exists, the greedy schedule covers the whole universe *)
  Lemma greedy_complete (full : cache) (univ : list K) :
    valid full -> (forall k, In k univ <-> In k (done full)) -> NoDup univ ->
    forall fuel dn, NoDup dn -> incl dn univ -> length univ <= fuel + length dn ->
      length (greedy_sched fuel univ dn) + length dn = length univ.
  Proof.
    intros Hv Hfull Hnd. induction fuel as [|f IH]; intros dn Hn Hi Hl; cbn [Model.greedy_sched].
    - pose proof (NoDup_incl_length Hn Hi). cbn. lia.
    - destruct (incl_dec_b univ dn) as [Hall|Hmiss].
      + pose proof (NoDup_incl_length Hn Hi). pose proof (NoDup_incl_length Hnd Hall).
        destruct (find (ready dn) univ) as [k|] eqn:F.
        * apply find_some in F. destruct F as [Hk R]. apply ready_spec in R. destruct R as [R _].
          exfalso. apply R. apply Hall. exact Hk.
        * cbn. lia.
      + (* some key is missing: the first missing key of the full trace is ready *)
        assert (Hm2 : ~ incl (done full) dn).
        { intro Hc. apply Hmiss. intros k Hk. apply Hc. apply Hfull. exact Hk. }
        destruct (first_missing dn (done full) Hm2) as [pre [k [post [E [Hpre Hk]]]]].
        pose proof (valid_split full Hv pre k post E) as Hdeps.
        destruct (find (ready dn) univ) as [k'|] eqn:F.
        * apply find_some in F. destruct F as [Hk' R]. apply ready_spec in R. destruct R as [R1 R2].
          cbn [length]. rewrite <- (IH (dn ++ [k'])).
          -- rewrite app_length. cbn. lia.
          -- apply NoDup_app_snoc; assumption.
          -- intros y Hy. apply in_app_or in Hy. destruct Hy as [Hy|[Hy|[]]]; [apply Hi; exact Hy | subst; exact Hk'].
          -- rewrite app_length. cbn. lia.
        * exfalso. assert (Hku : In k univ).
          { apply Hfull. rewrite E. apply in_or_app. right. left. reflexivity. }
          pose proof (find_none _ _ F k Hku) as R.
          assert (R' : ready dn k = true).
          { apply ready_spec. split; [exact Hk|]. intros d Hd. apply Hpre. apply Hdeps. exact Hd. }
          congruence.
  Qed.

  Lemma greedy_nodup_incl fuel univ : forall dn,
    NoDup dn -> NoDup (dn ++ greedy_sched fuel univ dn) /\ incl (greedy_sched fuel univ dn) univ.
  Proof.
    induction fuel as [|f IH]; intros dn Hn; cbn [Model.greedy_sched].
    - rewrite app_nil_r. split; [exact Hn | intros y []].
    - destruct (find (ready dn) univ) as [k|] eqn:F.
      + apply find_some in F. destruct F as [Hk R]. apply ready_spec in R. destruct R as [R1 _].
        destruct (IH (dn ++ [k]) (NoDup_app_snoc dn k Hn R1)) as [I1 I2]. split.
        * rewrite <- app_assoc in I1. exact I1.
        * intros y [Hy|Hy]; [subst; exact Hk | apply I2; exact Hy].
      + rewrite app_nil_r. split; [exact Hn | intros y []].
  Qed.
End SchedProofs.
