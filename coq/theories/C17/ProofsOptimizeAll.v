(* PV.C17.ProofsOptimizeAll — optimize_task_graph_for_dask_distributed as a whole (scatter, then the inline steps of
   fuse(rename_keys=False)): unpacking the futures commutes with the inline steps, so the distributed scheduler
   computes on the optimized dict what the local scheduler computes on the original one. *)
From Coq Require Import List Bool PArith Arith Lia.
From PV Require Import Base.PyData C17.Model C17.ProofsDask C17.Proofs C17.ProofsOptimize C17.ProofsFuse.
Import ListNotations.
Local Open Scope nat_scope.

(* futures only wrap atoms (what client.scatter is given by _scatter_value) *)
Fixpoint fut_atomic (a : sval) : bool :=
  let fix all (l : list sval) : bool :=
      match l with [] => true | x :: tl => fut_atomic x && all tl end in
  match a with
  | SFut v => match v with SAtom _ => true | _ => false end
  | STuple l => all l
  | SList l => all l
  | _ => true
  end.
Definition fut_atomic_all : list sval -> bool :=
  fix all (l : list sval) : bool := match l with [] => true | x :: tl => fut_atomic x && all tl end.

Lemma fut_atomic_all_forall l : fut_atomic_all l = true <-> forall x, In x l -> fut_atomic x = true.
Proof.
  induction l as [|x tl IH]; cbn [fut_atomic_all]; fold fut_atomic_all.
  - split; [intros _ y [] | reflexivity].
  - rewrite andb_true_iff, IH. split.
    + intros [H1 H2] y [Hy|Hy]; [subst; exact H1 | apply H2; exact Hy].
    + intros H. split; [apply H; left; reflexivity | intros y Hy; apply H; right; exact Hy].
Qed.

Lemma no_fut_atomic : forall a, no_fut a = true -> fut_atomic a = true.
Proof.
  induction a using sval_ind'; intros Hn; try reflexivity.
  - change (no_fut_all l = true) in Hn. rewrite no_fut_all_forall in Hn. rewrite Forall_forall in H.
    change (fut_atomic_all l = true). apply fut_atomic_all_forall. intros x Hx. apply H; [exact Hx | apply Hn; exact Hx].
  - change (no_fut_all l = true) in Hn. rewrite no_fut_all_forall in Hn. rewrite Forall_forall in H.
    change (fut_atomic_all l = true). apply fut_atomic_all_forall. intros x Hx. apply H; [exact Hx | apply Hn; exact Hx].
  - cbn [no_fut] in Hn. discriminate.
Qed.

Lemma scatter_atomic : forall a, no_fut a = true -> fut_atomic (scatter a) = true.
Proof.
  induction a using sval_ind'; intros Hn; try reflexivity.
  - cbn [scatter scatter_value]. destruct (Pos.leb 2000 a); reflexivity.
  - change (no_fut_all l = true) in Hn. rewrite no_fut_all_forall in Hn. rewrite Forall_forall in H.
    destruct l as [|h rest]; [reflexivity|].
    change (fut_atomic_all (h :: scatter_list rest) = true). apply fut_atomic_all_forall.
    intros x [Hx|Hx].
    + subst x. apply no_fut_atomic. apply Hn. left. reflexivity.
    + rewrite scatter_list_map in Hx. apply in_map_iff in Hx. destruct Hx as [y [E Hy]]. subst x.
      apply H; [right; exact Hy | apply Hn; right; exact Hy].
  - change (no_fut_all l = true) in Hn. rewrite no_fut_all_forall in Hn. rewrite Forall_forall in H.
    change (fut_atomic_all (scatter_list l) = true). apply fut_atomic_all_forall. intros x Hx.
    rewrite scatter_list_map in Hx. apply in_map_iff in Hx. destruct Hx as [y [E Hy]]. subst x.
    apply H; [exact Hy | apply Hn; exact Hy].
  - cbn [no_fut] in Hn. discriminate.
Qed.

Lemma unfut_callable h : fut_atomic h = true -> is_callable (unfut h) = is_callable h.
Proof. destruct h; try reflexivity. cbn [fut_atomic]. destruct h; try discriminate. reflexivity. Qed.

Lemma subs_list_map k val l : subs_list k val l = map (subs k val) l.
Proof. induction l as [|x tl IH]; [reflexivity|]. cbn [subs_list map]. fold (subs_list k val). rewrite IH. reflexivity. Qed.

(* unpacking futures commutes with dask.core.subs *)
Lemma unfut_subs c vc : forall a, fut_atomic a = true -> unfut (subs c vc a) = subs c (unfut vc) (unfut a).
Proof.
  induction a using sval_ind'; intros Ha; try reflexivity.
  - cbn [subs unfut]. destruct (Pos.eqb s c); reflexivity.
  - change (fut_atomic_all l = true) in Ha. rewrite fut_atomic_all_forall in Ha. rewrite Forall_forall in H.
    rewrite subs_tuple. destruct l as [|h rest]; [reflexivity|].
    assert (Hh : fut_atomic h = true) by (apply Ha; left; reflexivity).
    change (unfut (STuple (h :: rest))) with (STuple (unfut h :: unfut_list rest)).
    rewrite subs_tuple, (unfut_callable h Hh).
    destruct (is_callable h) eqn:Ch.
    + change (unfut (STuple (h :: subs_list c vc rest))) with (STuple (unfut h :: unfut_list (subs_list c vc rest))).
      f_equal. f_equal. rewrite (unfut_list_map rest), (unfut_list_map (subs_list c vc rest)), !subs_list_map, !map_map.
      apply map_ext_in. intros x Hx. apply H; [right; exact Hx | apply Ha; right; exact Hx].
    + reflexivity.
  - change (fut_atomic_all l = true) in Ha. rewrite fut_atomic_all_forall in Ha. rewrite Forall_forall in H.
    rewrite subs_slist. change (unfut (SList l)) with (SList (unfut_list l)). rewrite subs_slist.
    change (unfut (SList (subs_list c vc l))) with (SList (unfut_list (subs_list c vc l))).
    f_equal. rewrite (unfut_list_map l), (unfut_list_map (subs_list c vc l)), !subs_list_map, !map_map. apply map_ext_in.
    intros x Hx. apply H; [exact Hx | apply Ha; exact Hx].
  - (* a future of an atom *)
    cbn [fut_atomic] in Ha. destruct a; try discriminate. reflexivity.
Qed.

Lemma subs_atomic c vc : fut_atomic vc = true -> forall a, fut_atomic a = true -> fut_atomic (subs c vc a) = true.
Proof.
  intros Hv. induction a using sval_ind'; intros Ha; try exact Ha.
  - cbn [subs]. destruct (Pos.eqb s c); [exact Hv | reflexivity].
  - change (fut_atomic_all l = true) in Ha. rewrite fut_atomic_all_forall in Ha. rewrite Forall_forall in H.
    rewrite subs_tuple. destruct l as [|h rest]; [reflexivity|]. destruct (is_callable h).
    + change (fut_atomic_all (h :: subs_list c vc rest) = true). apply fut_atomic_all_forall. intros x [Hx|Hx].
      * subst. apply Ha. left. reflexivity.
      * rewrite subs_list_map in Hx. apply in_map_iff in Hx. destruct Hx as [y [E Hy]]. subst x.
        apply H; [right; exact Hy | apply Ha; right; exact Hy].
    + change (fut_atomic_all (h :: rest) = true). apply fut_atomic_all_forall. exact Ha.
  - change (fut_atomic_all l = true) in Ha. rewrite fut_atomic_all_forall in Ha. rewrite Forall_forall in H.
    rewrite subs_slist. change (fut_atomic_all (subs_list c vc l) = true). apply fut_atomic_all_forall. intros x Hx.
    rewrite subs_list_map in Hx. apply in_map_iff in Hx. destruct Hx as [y [E Hy]]. subst x.
    apply H; [exact Hy | apply Ha; exact Hy].
Qed.

(* ---- dicts -------------------------------------------------------------------------------------------- *)
Definition unfut_dsk (d : dsk) : dsk := map (fun kv => (fst kv, unfut (snd kv))) d.
Definition dsk_atomic (d : dsk) : bool := forallb (fun kv => fut_atomic (snd kv)) d.

Lemma lookup0_unfut d k : dlookup0 (unfut_dsk d) k = option_map unfut (dlookup0 d k).
Proof.
  induction d as [|[k' v] tl IH]; [reflexivity|]. cbn [unfut_dsk map dlookup0 fst snd].
  destruct (Pos.eqb k k'); [reflexivity | exact IH].
Qed.

Lemma lookup0_atomic d k v : dsk_atomic d = true -> dlookup0 d k = Some v -> fut_atomic v = true.
Proof.
  intros Ha Hl. rewrite dlookup0_eq in Hl. apply dlookup_In in Hl. unfold dsk_atomic in Ha. rewrite forallb_forall in Ha.
  apply (Ha (k, v) Hl).
Qed.

Lemma inline_commutes d c : dsk_atomic d = true ->
  unfut_dsk (fuse_step d (FInline c)) = fuse_step (unfut_dsk d) (FInline c) /\
  dsk_atomic (fuse_step d (FInline c)) = true.
Proof.
  intros Ha. unfold fuse_step. rewrite lookup0_unfut. destruct (dlookup0 d c) as [vc|] eqn:L; cbn [option_map].
  - pose proof (lookup0_atomic d c vc Ha L) as Hv. unfold dsk_atomic in Ha. rewrite forallb_forall in Ha. split.
    + unfold unfut_dsk. rewrite !map_map. cbn [fst snd].
      assert (F : filter (fun kv : positive * sval => negb (Pos.eqb (fst kv) c)) (map (fun kv => (fst kv, unfut (snd kv))) d)
                  = map (fun kv => (fst kv, unfut (snd kv))) (filter (fun kv => negb (Pos.eqb (fst kv) c)) d)).
      { clear. induction d as [|[k v] tl IH]; [reflexivity|]. cbn [map filter fst snd].
        destruct (Pos.eqb k c); cbn [negb map fst snd]; rewrite IH; reflexivity. }
      rewrite F, map_map. cbn [fst snd]. apply map_ext_in. intros [k v] Hkv. cbn [fst snd]. f_equal.
      apply unfut_subs. apply filter_In in Hkv. apply (Ha (k, v)). tauto.
    + unfold dsk_atomic. apply forallb_forall. intros kv Hkv. apply in_map_iff in Hkv. destruct Hkv as [[k v] [E Hk]].
      subst kv. cbn [snd]. apply subs_atomic; [exact Hv|]. apply filter_In in Hk. apply (Ha (k, v)). tauto.
  - split; [reflexivity | exact Ha].
Qed.

Lemma inline_steps_commute steps : forall d, dsk_atomic d = true -> inline_only steps = true ->
  unfut_dsk (fst (fuse_steps d steps)) = fst (fuse_steps (unfut_dsk d) steps).
Proof.
  induction steps as [|st tl IH]; intros d Ha Hio; [reflexivity|].
  cbn [inline_only forallb] in Hio. apply andb_true_iff in Hio. destruct Hio as [Hst Hio].
  destruct st as [c|r a]; [|discriminate].
  destruct (inline_commutes d c Ha) as [E A].
  cbn [fuse_steps]. rewrite <- E.
  destruct (fuse_steps (fuse_step d (FInline c)) tl) as [d1 ok1] eqn:E1.
  destruct (fuse_steps (unfut_dsk (fuse_step d (FInline c))) tl) as [d2 ok2] eqn:E2.
  cbn [fst]. specialize (IH (fuse_step d (FInline c)) A Hio). rewrite E1, E2 in IH. exact IH.
Qed.

Lemma scatter_dsk_atomic d : dsk_no_fut d = true -> dsk_atomic (scatter_dsk d) = true.
Proof.
  unfold dsk_no_fut, dsk_atomic, scatter_dsk. rewrite !forallb_forall. intros H kv Hkv.
  apply in_map_iff in Hkv. destruct Hkv as [[k v] [E Hk]]. subst kv. cbn [snd]. apply scatter_atomic. apply (H (k, v) Hk).
Qed.

Section OptimizeAll.
  Variable apply : positive -> list sval -> sval.

  Definition dask_get_dist (d : dsk) (k : positive) : result := fst (dask_get_dist_log apply d k).

  Lemma dask_get_dist_eq d k : dask_get_dist d k = dask_get apply (unfut_dsk d) k.
  Proof. reflexivity. Qed.

  (* optimize_preserves: scatter, then any legal sequence of inline steps *)
  Theorem optimize_preserves_lemma d steps r :
    NoDup (dkeys d) -> length (dask_sched d) = length d -> dsk_no_fut d = true ->
    inline_only steps = true -> avoids r steps = true -> snd (fuse_steps d steps) = true ->
    dask_get_dist (fst (fuse_steps (scatter_dsk d) steps)) r = dask_get apply d r.
  Proof.
    intros Nd Hl Hn Hio Hav Hok.
    rewrite dask_get_dist_eq, (inline_steps_commute steps (scatter_dsk d) (scatter_dsk_atomic d Hn) Hio).
    change (unfut_dsk (scatter_dsk d)) with (map (fun kv => (fst kv, unfut (snd kv))) (scatter_dsk d)).
    rewrite (unfut_scatter_dsk d Hn).
    destruct (fuse_steps d steps) as [dn ok] eqn:E. cbn [fst snd] in *. subst ok.
    destruct (inline_steps_preserve apply r steps d dn Nd Hl Hio Hav E) as [_ [_ G]]. exact G.
  Qed.

  (* ... for the dict of a workflow: the sequential reference evaluation *)
  Theorem optimized_workflow_sound_lemma g ids d o steps :
    output_tasks g = [o] -> as_dask_dict g ids = Some d -> g_keys_fresh g ids = true ->
    length (topo_order g) = length (nodes g) ->
    (forall t a, In t (nodes g) -> In a (tinputs t) -> no_fut a = true) ->
    inline_only steps = true -> avoids results steps = true -> snd (fuse_steps d steps) = true ->
    exists v, ref_get apply g = ROk v /\ dask_get_dist (fst (fuse_steps (scatter_dsk d) steps)) results = ROk v.
  Proof.
    intros Hout Hd Hf Hl Hnf Hio Hav Hok.
    destruct (dask_get_sound_lemma apply g ids d o Hout Hd Hf Hl) as [v [Hr Hg]].
    exists v. split; [exact Hr|].
    assert (Nd : NoDup (dkeys d)).
    { rewrite (as_dask_dict_eq g ids o Hout) in Hd. inversion Hd. rewrite dkeys_the_dsk. apply (bridge_fresh g ids o Hout Hf). }
    assert (Hl2 : length (dask_sched d) = length d).
    { unfold dask_get, dask_get_log in Hg. destruct (length (dask_sched d) =? length d) eqn:E; [apply Nat.eqb_eq; exact E|].
      cbn [negb fst] in Hg. discriminate. }
    rewrite (optimize_preserves_lemma d steps results Nd Hl2 (as_dask_dict_no_fut g ids d Hd Hnf) Hio Hav Hok). exact Hg.
  Qed.
End OptimizeAll.
