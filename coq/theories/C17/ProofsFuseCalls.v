(* PV.C17.ProofsFuseCalls — the inline steps of fuse keep the multiset of ALL calls of a run. *)
From Coq Require Import List Bool PArith Arith Lia Permutation.
From PV Require Import Base.PyData C17.Model C17.ProofsSched C17.ProofsDask C17.Proofs C17.ProofsOptimize C17.ProofsFuse
  C17.ProofsOptimizeAll.
Import ListNotations.
Local Open Scope nat_scope.

Lemma perm_flat_map_pointwise {X Y} (f g : X -> list Y) l :
  (forall x, In x l -> Permutation (f x) (g x)) -> Permutation (flat_map f l) (flat_map g l).
Proof.
  induction l as [|x tl IH]; intros H; [apply Permutation_refl|]. cbn [flat_map].
  apply Permutation_app; [apply H; left; reflexivity | apply IH; intros y Hy; apply H; right; exact Hy].
Qed.

Lemma perm_flat_map_app {X Y} (f g : X -> list Y) l :
  Permutation (flat_map (fun x => f x ++ g x) l) (flat_map f l ++ flat_map g l).
Proof.
  induction l as [|x tl IH]; [apply Permutation_refl|]. cbn [flat_map].
  apply (Permutation_trans (Permutation_app_head _ IH)).
  rewrite <- !app_assoc. apply Permutation_app_head.
  rewrite !app_assoc. apply Permutation_app_tail. apply Permutation_app_comm.
Qed.

Lemma flat_map_rep {Y} (n : positive -> nat) (lc : list Y) l :
  flat_map (fun k => rep (n k) lc) l = rep (fold_right (fun k acc => n k + acc) 0 l) lc.
Proof.
  induction l as [|x tl IH]; [reflexivity|]. cbn [flat_map fold_right]. rewrite IH, rep_add. reflexivity.
Qed.

Lemma cnt_flat_map c (f : positive -> list positive) l :
  cnt c (flat_map f l) = fold_right (fun k acc => cnt c (f k) + acc) 0 l.
Proof. induction l as [|x tl IH]; [reflexivity|]. cbn [flat_map fold_right]. rewrite cnt_app, IH. reflexivity. Qed.

Lemma cnt_perm c l l' : Permutation l l' -> cnt c l = cnt c l'.
Proof.
  unfold cnt. induction 1 as [| x l l' H IH | x y l | l l' l'' H1 IH1 H2 IH2].
  - reflexivity.
  - cbn [filter]. destruct (Pos.eqb c x); cbn [length]; rewrite IH; reflexivity.
  - cbn [filter]. destruct (Pos.eqb c y), (Pos.eqb c x); reflexivity.
  - rewrite IH1. exact IH2.
Qed.

Lemma perm_remc c K : NoDup K -> In c K -> Permutation K (c :: remc c K).
Proof.
  induction K as [|x tl IH]; intros Hn Hi; [contradiction|].
  inversion Hn as [|? ? Hx Htl]; subst. unfold remc. cbn [filter].
  destruct (Pos.eqb x c) eqn:E.
  - apply Pos.eqb_eq in E. subst x. cbn [negb]. apply perm_skip.
    assert (F : filter (fun y => negb (Pos.eqb y c)) tl = tl).
    { clear - Hx. induction tl as [|y tl IH]; [reflexivity|]. cbn [filter].
      destruct (Pos.eqb y c) eqn:E; [apply Pos.eqb_eq in E; subst; exfalso; apply Hx; left; reflexivity|].
      cbn [negb]. f_equal. apply IH. intro Hi. apply Hx. right. exact Hi. }
    rewrite F. apply Permutation_refl.
  - cbn [negb]. destruct Hi as [Hi|Hi]; [subst; rewrite Pos.eqb_refl in E; discriminate|].
    apply (Permutation_trans (perm_skip x (IH Htl Hi))). apply perm_swap.
Qed.

Section Calls.
  Variable apply : positive -> list sval -> sval.
  Notation dget := (cget positive dval Pos.eqb dflt_dval).
  Notation ddone := (done positive dval).

  Lemma deps_of_entries d : NoDup (dkeys d) ->
    all_deps (dkeys d) d = flat_map (dask_deps d) (dkeys d).
  Proof.
    intros Nd. unfold all_deps. fold (dkeys d). unfold dkeys at 2. rewrite Proofs.flat_map_map. apply Proofs.flat_map_ext_in.
    intros [k v] Hkv. cbn [fst snd]. unfold dask_deps.
    assert (L : dlookup d k = Some v).
    { clear - Nd Hkv. unfold dkeys in Nd. induction d as [|[k' v'] tl IH]; [contradiction|].
      cbn [map fst] in Nd. inversion Nd as [|? ? Hk Htl]; subst. cbn [dlookup].
      destruct Hkv as [Hkv|Hkv].
      - inversion Hkv. subst. rewrite Pos.eqb_refl. reflexivity.
      - destruct (Pos.eqb k k') eqn:E.
        + apply Pos.eqb_eq in E. subst. exfalso. apply Hk. apply in_map_iff. exists (k', v). split; [reflexivity | exact Hkv].
        + apply IH; assumption. }
    rewrite L. reflexivity.
  Qed.

  (* a complete valid trace lists its calls key by key *)
  Lemma log_by_key d T : dvalid apply d T -> call_log T = flat_map (fun k => snd (dget T k)) (ddone T).
  Proof. apply call_log_by_key. Qed.

  Theorem inline_preserves_calls d c :
    NoDup (dkeys d) -> length (dask_sched d) = length d -> fuse_step_ok d (FInline c) = true ->
    forall r, r <> c -> In r (dkeys d) ->
      Permutation (snd (dask_get_log apply (fuse_step d (FInline c)) r)) (snd (dask_get_log apply d r)).
  Proof.
    intros Nd Hl Hok r Hr HrK.
    destruct (inline_ok_facts d c Hok) as [vc [Lc [Hcl [Hself Hone]]]].
    assert (E1 : fuse_step d (FInline c) = d' d c vc) by (apply fuse_step_inline; exact Lc). rewrite E1.
    destruct (acyclic_trace apply d Nd Hl) as [T [RT [V [DT Cov]]]].
    destruct (inline_trace apply d c vc Lc Hcl Hself T V) as [T' [V' [D' A']]].
    assert (K1 : dkeys (d' d c vc) = remc c (dkeys d)) by apply dkeys_d'.
    assert (Nd1 : NoDup (dkeys (d' d c vc))) by (rewrite K1; apply NoDup_filter; exact Nd).
    assert (Cov' : forall k, In k (ddone T') <-> In k (dkeys (d' d c vc))).
    { intros k. rewrite D', K1. unfold remc. rewrite !filter_In, Cov. tauto. }
    destruct (get_of_trace apply (d' d c vc) T' Nd1 V' Cov') as [Hl1 [_ [T1 [R1 [V1 [C1 Ag1]]]]]].
    (* the two logs *)
    assert (L0 : snd (dask_get_log apply d r) = call_log T).
    { unfold dask_get_log. rewrite Hl, Nat.eqb_refl. cbn [negb]. rewrite RT.
      assert (M : mem positive Pos.eqb r (ddone T) = true) by (apply (kmem_In positive Pos.eqb pos_eqb_spec); apply Cov; exact HrK).
      rewrite M. reflexivity. }
    assert (L1 : snd (dask_get_log apply (d' d c vc) r) = call_log T1).
    { unfold dask_get_log. rewrite Hl1, Nat.eqb_refl. cbn [negb]. rewrite R1.
      assert (M : mem positive Pos.eqb r (ddone T1) = true).
      { apply (kmem_In positive Pos.eqb pos_eqb_spec). apply C1. rewrite K1. apply filter_In. split; [exact HrK|].
        apply negb_true_iff. apply Pos.eqb_neq. exact Hr. }
      rewrite M. reflexivity. }
    rewrite L0, L1, (log_by_key d T V), (log_by_key _ T1 V1).
    pose proof (valid_nodup positive dval Pos.eqb dflt_dval _ _ T V) as NT.
    pose proof (valid_nodup positive dval Pos.eqb dflt_dval _ _ T' V') as NT'.
    pose proof (valid_nodup positive dval Pos.eqb dflt_dval _ _ T1 V1) as NT1.
    assert (HcT : In c (ddone T)) by (apply Cov; apply (HcK d c vc Lc)).
    set (lc := snd (dget T c)).
    (* left: the greedy trace of the rewritten dict, key by key, is T' *)
    assert (P1 : Permutation (flat_map (fun k => snd (dget T1 k)) (ddone T1))
                             (flat_map (fun k => snd (dget T' k)) (ddone T'))).
    { rewrite (flat_map_ext_in (fun k => snd (dget T1 k)) (fun k => snd (dget T' k)) (ddone T1)).
      - apply Permutation_flat_map. apply NoDup_Permutation; [exact NT1 | exact NT'|]. intros k. rewrite C1, Cov'. tauto.
      - intros k Hk. rewrite (Ag1 k); [reflexivity | apply C1; exact Hk]. }
    apply (Permutation_trans P1).
    (* per key: old calls plus the calls of c per reference *)
    apply (Permutation_trans (perm_flat_map_pointwise _ (fun k => snd (dget T k) ++ rep (cnt c (dask_deps d k)) lc) _
                                (fun k Hk => proj2 (A' k Hk)))).
    apply (Permutation_trans (perm_flat_map_app _ _ _)).
    rewrite flat_map_rep, <- (cnt_flat_map c (dask_deps d) (ddone T')).
    (* exactly one reference to c outside c *)
    assert (One : cnt c (flat_map (dask_deps d) (ddone T')) = 1).
    { assert (PK : Permutation (dkeys d) (c :: ddone T')).
      { apply (Permutation_trans (perm_remc c (dkeys d) Nd (HcK d c vc Lc))). apply perm_skip.
        apply NoDup_Permutation; [apply NoDup_filter; exact Nd | exact NT'|]. intros k. rewrite Cov', K1. tauto. }
      pose proof (cnt_perm c _ _ (Permutation_flat_map (dask_deps d) PK)) as E.
      rewrite <- (deps_of_entries d Nd), Hone in E. cbn [flat_map] in E. rewrite cnt_app in E.
      assert (Z : cnt c (dask_deps d c) = 0).
      { apply cnt_zero. unfold dask_deps. rewrite Lc. exact Hself. }
      lia. }
    rewrite One. unfold rep. cbn [repeat concat]. rewrite app_nil_r.
    (* right: T lists c once *)
    assert (PT : Permutation (ddone T) (c :: ddone T')).
    { rewrite D'. apply perm_remc; assumption. }
    apply Permutation_sym. apply (Permutation_trans (Permutation_flat_map (fun k => snd (dget T k)) PT)).
    cbn [flat_map]. fold lc. apply Permutation_app_comm.
  Qed.

  Theorem inline_steps_preserve_calls (r : positive) :
    forall steps d dn,
      NoDup (dkeys d) -> length (dask_sched d) = length d -> In r (dkeys d) ->
      inline_only steps = true -> avoids r steps = true -> fuse_steps d steps = (dn, true) ->
      Permutation (snd (dask_get_log apply dn r)) (snd (dask_get_log apply d r)).
  Proof.
    induction steps as [|st tl IH]; intros d dn Nd Hl HrK Hio Hav Hf.
    - cbn [fuse_steps] in Hf. inversion Hf. subst. apply Permutation_refl.
    - cbn [fuse_steps] in Hf. destruct (fuse_steps (fuse_step d st) tl) as [d1 ok1] eqn:E1.
      inversion Hf as [[Ed Eok]]. subst d1. apply andb_true_iff in Eok. destruct Eok as [Hok Hok1]. subst ok1.
      cbn [inline_only forallb] in Hio. apply andb_true_iff in Hio. destruct Hio as [Hst Hio].
      cbn [avoids forallb] in Hav. apply andb_true_iff in Hav. destruct Hav as [Hr Hav].
      destruct st as [c|r0 a0]; [|discriminate].
      assert (Hrc : r <> c) by (apply negb_true_iff in Hr; apply Pos.eqb_neq in Hr; intro E; apply Hr; symmetry; exact E).
      destruct (inline_preserves_value apply d c Nd Hl Hok) as [Nd1 [Hl1 _]].
      assert (HrK1 : In r (dkeys (fuse_step d (FInline c)))).
      { destruct (inline_ok_facts d c Hok) as [vc [Lc _]]. rewrite (fuse_step_inline d c vc Lc), dkeys_d'.
        apply filter_In. split; [exact HrK|]. apply negb_true_iff. apply Pos.eqb_neq. exact Hrc. }
      apply (Permutation_trans (IH (fuse_step d (FInline c)) dn Nd1 Hl1 HrK1 Hio Hav E1)).
      apply inline_preserves_calls; assumption.
  Qed.

  (* the whole graph optimisation: scatter, then inline steps; the distributed scheduler makes the same calls *)
  Theorem optimize_preserves_calls_lemma d steps r :
    NoDup (dkeys d) -> length (dask_sched d) = length d -> dsk_no_fut d = true -> In r (dkeys d) ->
    inline_only steps = true -> avoids r steps = true -> snd (fuse_steps d steps) = true ->
    Permutation (snd (dask_get_dist_log apply (fst (fuse_steps (scatter_dsk d) steps)) r)) (snd (dask_get_log apply d r)).
  Proof.
    intros Nd Hl Hn HrK Hio Hav Hok.
    change (dask_get_dist_log apply (fst (fuse_steps (scatter_dsk d) steps)) r)
      with (dask_get_log apply (unfut_dsk (fst (fuse_steps (scatter_dsk d) steps))) r).
    rewrite (inline_steps_commute steps (scatter_dsk d) (scatter_dsk_atomic d Hn) Hio).
    change (unfut_dsk (scatter_dsk d)) with (map (fun kv => (fst kv, unfut (snd kv))) (scatter_dsk d)).
    rewrite (unfut_scatter_dsk d Hn).
    destruct (fuse_steps d steps) as [dn ok] eqn:E. cbn [fst snd] in *. subst ok.
    apply (inline_steps_preserve_calls r steps d dn); assumption.
  Qed.
End Calls.
