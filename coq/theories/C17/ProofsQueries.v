(* PV.C17.ProofsQueries — queries (input_tasks, output_tasks, get_upstream_tasks), + on builders and
   workflows, and the context threading of call_workflow. *)
From Coq Require Import List Bool PArith Arith Lia.
From PV Require Import Base.PyData C17.Model C17.ProofsDask C17.ProofsGraph C17.ProofsBuilder C17.ProofsPrepare.
Import ListNotations.
Local Open Scope nat_scope.

(* ---- input_tasks / output_tasks ----------------------------------------------------------------- *)
Lemma output_tasks_exact_lemma (g : tgraph) :
  output_tasks g = filter (fun t => match succ g t with [] => true | _ => false end) (nodes g) /\
  forall t, In t (output_tasks g) <-> In t (nodes g) /\ succ g t = [].
Proof.
  split; [reflexivity|]. intros t. unfold output_tasks, output_nodes. rewrite filter_In. unfold out_deg0.
  destruct (succ g t); split; intros [H1 H2]; split; try assumption; try reflexivity; discriminate.
Qed.

Lemma input_tasks_exact_lemma (g : tgraph) :
  input_tasks g = filter (fun t => match pred g t with [] => true | _ => false end) (nodes g) /\
  forall t, In t (input_tasks g) <-> In t (nodes g) /\ pred g t = [].
Proof.
  split; [reflexivity|]. intros t. unfold input_tasks, input_nodes. rewrite filter_In. unfold in_deg0.
  destruct (pred g t); split; intros [H1 H2]; split; try assumption; try reflexivity; discriminate.
Qed.

(* ---- + ------------------------------------------------------------------------------------------- *)
Lemma builder_plus_exact_lemma (g h : tgraph) : twf g -> twf h ->
  twf (builder_plus g h) /\
  nodes (builder_plus g h) = nodes g ++ filter (fun x => negb (tmem x (nodes g))) (nodes h) /\
  (forall u v, In v (succ (builder_plus g h) u) <-> In v (succ g u) \/ In v (succ h u)).
Proof.
  intros Wg Wh. unfold builder_plus. split; [apply (wfg_compose task task_eqb task_eqb_spec)|]. split.
  - apply (nodes_compose task task_eqb task_eqb_spec); assumption.
  - intros u v. apply (In_succ_compose task task_eqb task_eqb_spec); assumption.
Qed.

(* ---- get_upstream_tasks: everything it lists is a strict ancestor ---------------------------------- *)
Inductive reach (g : tgraph) : task -> task -> Prop :=
| reach_edge u v : In u (pred g v) -> reach g u v
| reach_step u v w : In u (pred g v) -> reach g v w -> reach g u w.

Lemma it_get_set its n l m : it_get task task_eqb (it_set task task_eqb its n l) m =
  if task_eqb m n then Some l else it_get task task_eqb its m.
Proof.
  induction its as [|[k l'] tl IH]; cbn [it_set it_get].
  - destruct (task_eqb m n); reflexivity.
  - destruct (task_eqb n k) eqn:E.
    + apply task_eqb_spec in E. subst. cbn [it_get]. destruct (task_eqb m k); reflexivity.
    + cbn [it_get]. destruct (task_eqb m k) eqn:E2.
      * apply task_eqb_spec in E2. subst.
        destruct (task_eqb k n) eqn:E3; [apply task_eqb_spec in E3; subst; rewrite task_eqb_refl in E; discriminate | reflexivity].
      * exact IH.
Qed.

Lemma edge_dfs_rev_sound (g : tgraph) (n : task) : forall fuel stack its,
  (forall s, In s stack -> s = n \/ reach g s n) ->
  (forall m l, it_get task task_eqb its m = Some l -> incl l (pred g m) /\ (m = n \/ reach g m n)) ->
  forall x, In x (edge_dfs_rev task task_eqb fuel g stack its) -> reach g x n.
Proof.
  induction fuel as [|f IH]; intros stack its Hs Hi x Hx; cbn [edge_dfs_rev] in Hx; [contradiction|].
  destruct stack as [|cur below]; [contradiction|].
  assert (Hcur : cur = n \/ reach g cur n) by (apply Hs; left; reflexivity).
  set (its1 := match it_get task task_eqb its cur with
               | Some _ => its | None => it_set task task_eqb its cur (pred g cur) end) in *.
  assert (Hi1 : forall m l, it_get task task_eqb its1 m = Some l -> incl l (pred g m) /\ (m = n \/ reach g m n)).
  { intros m l Hm. unfold its1 in Hm. destruct (it_get task task_eqb its cur) eqn:E; [apply Hi; exact Hm|].
    rewrite it_get_set in Hm. destruct (task_eqb m cur) eqn:E2.
    - apply task_eqb_spec in E2. subst m. inversion Hm. subst l. split; [intros y Hy; exact Hy | exact Hcur].
    - apply Hi. exact Hm. }
  destruct (it_get task task_eqb its1 cur) as [[|u rest]|] eqn:E.
  - eapply IH; [| exact Hi1 | exact Hx]. intros s Hin. apply Hs. right. exact Hin.
  - destruct (Hi1 cur (u :: rest) E) as [Hincl _].
    assert (Hu : reach g u n).
    { assert (Hp : In u (pred g cur)) by (apply Hincl; left; reflexivity).
      destruct Hcur as [Hc|Hc]; [subst; apply reach_edge; exact Hp | eapply reach_step; eassumption]. }
    destruct Hx as [Hx|Hx]; [subst; exact Hu|].
    eapply IH; [| | exact Hx].
    + intros s [Hin|Hin]; [subst; right; exact Hu | apply Hs; exact Hin].
    + intros m l Hm. rewrite it_get_set in Hm. destruct (task_eqb m cur) eqn:E2.
      * apply task_eqb_spec in E2. subst m. inversion Hm. subst l. split; [|exact Hcur].
        intros y Hy. apply Hincl. right. exact Hy.
      * apply Hi1. exact Hm.
  - eapply IH; [| exact Hi1 | exact Hx]. intros s Hin. apply Hs. right. exact Hin.
Qed.

Lemma upstream_sound_lemma (g : tgraph) (n x : task) : In x (upstream task task_eqb g n) -> reach g x n.
Proof.
  unfold upstream. destruct (has_node task task_eqb g n); [|intros []].
  apply edge_dfs_rev_sound.
  - intros s [Hs|[]]. left. symmetry. exact Hs.
  - intros m l Hm. cbn in Hm. discriminate.
Qed.

(* ---- call_workflow: wb = WorkflowBuilder(wf); insert_context(wb, ctx); wf = Workflow(wb) --------------- *)
Section Call.
  Variable g : tgraph.
  Variable ctx : sval.
  Variable next : positive.
  Hypothesis W : twf g.
  Hypothesis U : uids_below next g = true.

  Notation N := (nodes g).
  Definition call_image : task -> task := rn (fun t => ctx :: tinputs t) next (filter tctx N).

  Lemma call_loop :
    let w := insert_context (workflow_of g) ctx next in
    twf w /\ nodes w = map call_image N
    /\ (forall u v, In v (succ w u) <-> exists u0 v0, In v0 (succ g u0) /\ u = call_image u0 /\ v = call_image v0).
  Proof.
    destruct (workflow_of_spec g W) as [Ww [Nw [Sw _]]].
    unfold insert_context. rewrite insert_context_from_eq.
    destruct (fold_stepf tctx (fun t => ctx :: tinputs t) (nodes (workflow_of g)) (workflow_of g, next)) as [W' [N' [U' S']]].
    - exact Ww.
    - apply (wf_nodup task _ Ww).
    - intros x Hx. exact Hx.
    - cbn [fst snd]. intros x Hx. rewrite Nw in Hx. unfold uids_below in U. rewrite forallb_forall in U.
      apply Pos.ltb_lt. apply U. exact Hx.
    - cbn [fst snd] in *. rewrite Nw in *. split; [exact W'|]. split; [exact N'|].
      intros u v. rewrite S'. unfold call_image. split; intros [u0 [v0 [H E]]]; exists u0, v0; rewrite Sw in *; tauto.
  Qed.

  (* every task keeps its name and function; exactly the context-taking ones get the context prepended, once *)
  Lemma call_image_fields t : In t N ->
    tid (call_image t) = tid t /\ tfun (call_image t) = tfun t /\ tctx (call_image t) = tctx t /\
    tinputs (call_image t) = if tctx t then ctx :: tinputs t else tinputs t.
  Proof.
    intros Ht. destruct (rn_fields (fun t => ctx :: tinputs t) (filter tctx N) next t) as [A [B [C D]]].
    unfold call_image. rewrite A, B, C, D. repeat split.
    destruct (tctx t) eqn:Ct.
    - assert (M : tmem t (filter tctx N) = true) by (apply tmem_In; apply filter_In; tauto). rewrite M. reflexivity.
    - assert (M : tmem t (filter tctx N) = false).
      { destruct (tmem t (filter tctx N)) eqn:M; [|reflexivity]. apply tmem_In in M. apply filter_In in M.
        destruct M as [_ M]. congruence. }
      rewrite M. reflexivity.
  Qed.

  Lemma call_image_inj x y : In x N -> In y N -> call_image x = call_image y -> x = y.
  Proof.
    intros Hx Hy. unfold uids_below in U. rewrite forallb_forall in U.
    apply (rn_inj (fun t => ctx :: tinputs t) (filter tctx N) next).
    - apply NoDup_filter. apply (wf_nodup task g W).
    - apply Pos.ltb_lt. apply U. exact Hx.
    - apply Pos.ltb_lt. apply U. exact Hy.
  Qed.

  Lemma call_prepare_spec :
    nodes (call_prepare g ctx next) = map call_image N /\
    (forall u v, In u N -> In v N ->
       (In (call_image v) (succ (call_prepare g ctx next) (call_image u)) <-> In v (succ g u))) /\
    (forall t, In t N -> pred (call_prepare g ctx next) (call_image t) = map call_image (pred (workflow_of g) t)).
  Proof.
    destruct call_loop as [Ww [Nw Sw]]. unfold call_prepare.
    destruct (workflow_of_spec _ Ww) as [_ [Nc [Sc Pc]]].
    assert (Edge : forall u v, In u N -> In v N ->
              (In (call_image v) (succ (insert_context (workflow_of g) ctx next) (call_image u)) <-> In v (succ g u))).
    { intros u v Hu Hv. rewrite Sw. split.
      - intros [u0 [v0 [H [E1 E2]]]]. destruct (wf_succ_in task g W u0 v0 H) as [Hu0 Hv0].
        apply (call_image_inj u u0 Hu Hu0) in E1. apply (call_image_inj v v0 Hv Hv0) in E2. subst. exact H.
      - intros H. exists u, v. tauto. }
    split; [rewrite Nc; exact Nw|]. split.
    - intros u v Hu Hv. rewrite Sc. apply Edge; assumption.
    - intros t Ht. destruct (workflow_of_spec g W) as [_ [_ [_ Pg]]].
      rewrite Pc, Pg, Nw, filter_map_swap. f_equal. apply filter_ext_in. intros u Hu.
      destruct (tmem t (succ g u)) eqn:E.
      + apply tmem_In. apply Edge; [exact Hu | exact Ht | apply tmem_In; exact E].
      + destruct (tmem (call_image t) (succ (insert_context (workflow_of g) ctx next) (call_image u))) eqn:E2; [|reflexivity].
        apply tmem_In in E2. apply Edge in E2; [|exact Hu|exact Ht]. apply tmem_In in E2. congruence.
  Qed.
End Call.
