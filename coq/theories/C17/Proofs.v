(* PV.C17.Proofs — the execution theorems in terms of the model's executable guards. *)
From Coq Require Import List Bool PArith Arith Lia Permutation.
From PV Require Import Base.PyData C17.Model C17.ProofsSched C17.ProofsDask.
Import ListNotations.
Local Open Scope nat_scope.

Notation dget := (cget positive dval Pos.eqb dflt_dval).
Notation rget := (cget task sval task_eqb dflt_sval).

(* what the task [t] must be called with, given the results [c] of the other tasks *)
Definition ref_args (g : tgraph) (c : task -> sval) (t : task) : list sval := tinputs t ++ map c (pred g t).

(* ---- bridging the boolean guards -------------------------------------------------------------- *)
Section Bridge.
  Variable g : tgraph.
  Variable ids : task -> positive.
  Variable o : task.
  Hypothesis Hout : output_tasks g = [o].
  Hypothesis Hfresh : g_keys_fresh g ids = true.

  Lemma wf_keys_eq : wf_keys g ids = map (key_of ids o) (nodes g).
  Proof. unfold wf_keys. rewrite Hout. reflexivity. Qed.

  Lemma bridge_fresh : NoDup (map (key_of ids o) (nodes g)).
  Proof. rewrite <- wf_keys_eq. apply nodupp_spec. exact Hfresh. Qed.

  Lemma key_sink : key_of ids o o = results.
  Proof. unfold key_of. assert (E : task_eqb o o = true) by (apply task_eqb_spec; reflexivity). rewrite E. reflexivity. Qed.

  Lemma sink_in_nodes : In o (nodes g).
  Proof.
    assert (H : In o (output_tasks g)) by (rewrite Hout; left; reflexivity).
    unfold output_tasks, output_nodes in H. apply filter_In in H. tauto.
  Qed.
End Bridge.

Lemma flat_map_ext_in {A B} (f h : A -> list B) l : (forall a, In a l -> f a = h a) -> flat_map f l = flat_map h l.
Proof.
  induction l as [|x tl IH]; intros H; [reflexivity|]. cbn [flat_map].
  rewrite (H x (or_introl eq_refl)), IH by (intros a Ha; apply H; right; exact Ha). reflexivity.
Qed.

Lemma flat_map_map {A B C} (f : A -> B) (h : B -> list C) l : flat_map h (map f l) = flat_map (fun a => h (f a)) l.
Proof. induction l as [|x tl IH]; [reflexivity|]. cbn [map flat_map]. rewrite IH. reflexivity. Qed.

Lemma flat_map_single {A B} (f : A -> B) l : flat_map (fun a => [f a]) l = map f l.
Proof. induction l as [|x tl IH]; [reflexivity|]. cbn [map flat_map app]. rewrite IH. reflexivity. Qed.

Section Exec.
  Variable apply : positive -> list sval -> sval.

  (* ---- the reference evaluation is what the statement says -------------------------------- *)
  Lemma topo_eval_equation g order rc t :
    topo_eval apply g order = Some rc -> In t order ->
    rget rc t = apply (tfun t) (ref_args g (rget rc) t) /\ incl (pred g t) order.
  Proof.
    intros Hr Ht. pose proof (topo_eval_valid apply _ _ _ Hr) as V. pose proof (topo_eval_done apply _ _ _ Hr) as D.
    rewrite <- D in Ht.
    destruct (valid_equation task sval task_eqb dflt_sval _ _ task_eqb_spec (ref_comp_local apply g) rc V t Ht) as [E I].
    rewrite D in I. split; [exact E | exact I].
  Qed.

  Lemma topo_eval_before g order rc pre t post :
    topo_eval apply g order = Some rc -> order = pre ++ t :: post -> incl (pred g t) pre /\ ~ In t pre.
  Proof.
    intros Hr E. pose proof (topo_eval_valid apply _ _ _ Hr) as V. pose proof (topo_eval_done apply _ _ _ Hr) as D.
    split.
    - eapply (valid_split task sval task_eqb dflt_sval _ _ rc V). rewrite D. exact E.
    - pose proof (valid_nodup task sval task_eqb dflt_sval _ _ rc V) as N. rewrite D, E in N.
      apply NoDup_remove_2 in N. intro Hi. apply N. apply in_or_app. left. exact Hi.
  Qed.

  (* ---- schedule independence ------------------------------------------------------------------- *)
  Lemma dask_schedule_independent d s1 s2 c1 c2 k :
    dask_run apply d s1 = Some c1 -> dask_run apply d s2 = Some c2 -> In k s1 -> In k s2 ->
    dget c1 k = dget c2 k.
  Proof.
    intros H1 H2 K1 K2.
    apply (valid_agree positive dval Pos.eqb dflt_dval _ _ pos_eqb_spec (dask_comp_local apply d)).
    - eapply dask_run_valid. exact H1.
    - eapply dask_run_valid. exact H2.
    - rewrite (dask_run_done apply _ _ _ H1). exact K1.
    - rewrite (dask_run_done apply _ _ _ H2). exact K2.
  Qed.

  Lemma topo_schedule_independent g o1 o2 c1 c2 t :
    topo_eval apply g o1 = Some c1 -> topo_eval apply g o2 = Some c2 -> In t o1 -> In t o2 ->
    rget c1 t = rget c2 t.
  Proof.
    intros H1 H2 K1 K2.
    apply (valid_agree task sval task_eqb dflt_sval _ _ task_eqb_spec (ref_comp_local apply g)).
    - eapply topo_eval_valid. exact H1.
    - eapply topo_eval_valid. exact H2.
    - rewrite (topo_eval_done apply _ _ _ H1). exact K1.
    - rewrite (topo_eval_done apply _ _ _ H2). exact K2.
  Qed.

  (* a schedule is a run only if every key appears once and after its dependencies *)
  Lemma dask_run_once d sched c :
    dask_run apply d sched = Some c ->
    NoDup sched /\ forall pre k post, sched = pre ++ k :: post -> incl (dask_deps d k) pre.
  Proof.
    intros H. pose proof (dask_run_valid apply _ _ _ H) as V. pose proof (dask_run_done apply _ _ _ H) as D. split.
    - rewrite <- D. eapply valid_nodup; exact V.
    - intros pre k post E. eapply (valid_split positive dval Pos.eqb dflt_dval _ _ c V).
      rewrite D. exact E.
  Qed.

  (* ---- soundness of the generated dict -------------------------------------------------------- *)
  Lemma dask_dict_sound_lemma g ids d o order rc sched dc t :
    output_tasks g = [o] -> as_dask_dict g ids = Some d ->
    g_keys_fresh g ids = true ->
    topo_eval apply g order = Some rc -> incl order (nodes g) -> In t order ->
    dask_run apply d sched = Some dc -> In (key_of ids o t) sched ->
    dget dc (key_of ids o t) = (rget rc t, [(tfun t, ref_args g (rget rc) t)]).
  Proof.
    intros Hout Hd Hf Hr Hi Ht Hrun Hs.
    rewrite (as_dask_dict_eq g ids o Hout) in Hd. inversion Hd. subst d.
    exact (sound_any_schedule apply g ids o (bridge_fresh g ids o Hout Hf)
             order rc sched dc t Hr Hi Ht Hrun Hs).
  Qed.

  Lemma dask_results_sound_lemma g ids d o order rc sched dc :
    output_tasks g = [o] -> as_dask_dict g ids = Some d ->
    g_keys_fresh g ids = true ->
    topo_eval apply g order = Some rc -> incl order (nodes g) -> In o order ->
    dask_run apply d sched = Some dc -> In results sched ->
    fst (dget dc results) = rget rc o.
  Proof.
    intros Hout Hd Hf Hr Hi Ho Hrun Hs.
    rewrite <- (key_sink ids o) in *.
    rewrite (dask_dict_sound_lemma g ids d o order rc sched dc o); try assumption. reflexivity.
  Qed.

  (* ---- exactly once ------------------------------------------------------------------------------ *)
  Lemma call_log_by_key d c : dvalid apply d c ->
    call_log c = flat_map (fun k => snd (dget c k)) (done positive dval c).
  Proof.
    intros V. unfold call_log, Model.done. rewrite flat_map_map. apply flat_map_ext_in.
    intros [k v] Hin. cbn [fst snd].
    rewrite (valid_entry positive dval Pos.eqb dflt_dval _ _ pos_eqb_spec c V k v Hin). reflexivity.
  Qed.

  Lemma exactly_once_lemma g ids d o order rc sched dc :
    output_tasks g = [o] -> as_dask_dict g ids = Some d ->
    g_keys_fresh g ids = true ->
    topo_eval apply g order = Some rc -> (forall t, In t order <-> In t (nodes g)) ->
    dask_run apply d sched = Some dc -> (forall k, In k sched <-> In k (dkeys d)) ->
    NoDup sched /\
    Permutation (call_log dc) (map (fun t => (tfun t, ref_args g (rget rc) t)) (nodes g)).
  Proof.
    intros Hout Hd Hf Hr Hcov Hrun Hs.
    pose proof (dask_run_valid apply _ _ _ Hrun) as V. pose proof (dask_run_done apply _ _ _ Hrun) as D.
    assert (Nd : NoDup sched) by (rewrite <- D; eapply valid_nodup; exact V).
    split; [exact Nd|].
    rewrite (call_log_by_key d dc V), D.
    assert (Ed : d = the_dsk g ids o).
    { rewrite (as_dask_dict_eq g ids o Hout) in Hd. inversion Hd. reflexivity. }
    assert (EK : dkeys d = map (key_of ids o) (nodes g)) by (rewrite Ed; apply dkeys_the_dsk).
    assert (P : Permutation sched (map (key_of ids o) (nodes g))).
    { apply NoDup_Permutation; [exact Nd | apply (bridge_fresh g ids o Hout Hf) |]. intros k. rewrite Hs, EK. tauto. }
    rewrite (Permutation_flat_map (fun k => snd (dget dc k)) P), flat_map_map, <- flat_map_single.
    rewrite (flat_map_ext_in (fun a => snd (dget dc (key_of ids o a))) (fun a => [(tfun a, ref_args g (rget rc) a)])).
    - apply Permutation_refl.
    - intros t Ht.
      rewrite (dask_dict_sound_lemma g ids d o order rc sched dc t); try assumption.
      + reflexivity.
      + intros x Hx. apply Hcov. exact Hx.
      + apply Hcov. exact Ht.
      + apply Hs. rewrite EK. apply in_map. exact Ht.
  Qed.

  (* ---- the deterministic executable scheduler --------------------------------------------------- *)
  Lemma NoDup_map_inv' {A B} (f : A -> B) l : NoDup (map f l) -> NoDup l.
  Proof.
    induction l as [|x tl IH]; cbn [map]; intros H; [constructor|].
    inversion H as [|? ? Hx Htl]; subst. constructor; [|apply IH; exact Htl].
    intro Hi. apply Hx. apply in_map. exact Hi.
  Qed.

  Lemma dask_get_sound_lemma g ids d o :
    output_tasks g = [o] -> as_dask_dict g ids = Some d ->
    g_keys_fresh g ids = true ->
    length (topo_order g) = length (nodes g) ->
    exists v, ref_get apply g = ROk v /\ dask_get apply d results = ROk v.
  Proof.
    intros Hout Hd Hf Hlen.
    pose proof (bridge_fresh g ids o Hout Hf) as NK.
    pose proof (NoDup_map_inv' _ _ NK) as NN.
    assert (Ed : d = the_dsk g ids o).
    { rewrite (as_dask_dict_eq g ids o Hout) in Hd. inversion Hd. reflexivity. }
    assert (EK : dkeys d = map (key_of ids o) (nodes g)) by (rewrite Ed; apply dkeys_the_dsk).
    (* the reference greedy order is a run covering all nodes *)
    destruct (greedy_runs task sval task_eqb dflt_sval (pred g) (ref_comp apply g)
                (length (nodes g)) (nodes g) []) as [rc Hrc].
    change (topo_eval apply g (topo_order g) = Some rc) in Hrc.
    destruct (greedy_nodup_incl task task_eqb (pred g) task_eqb_spec (length (nodes g)) (nodes g) [] (NoDup_nil _)) as [No Io].
    cbn [app] in No. fold (topo_order g) in No, Io.
    assert (Cov : forall t, In t (topo_order g) <-> In t (nodes g)).
    { intros t. split; [apply Io|]. apply NoDup_length_incl; [exact No | lia | exact Io]. }
    (* mirrored dask trace *)
    destruct (sim_topo apply g ids o NK (topo_order g) rc Hrc Io) as [dc0 [Hd0 [S1 _]]].
    rewrite <- Ed in Hd0.
    pose proof (dask_run_valid apply _ _ _ Hd0) as V0.
    pose proof (topo_eval_done apply _ _ _ Hrc) as DR.
    assert (Full : forall k, In k (dkeys d) <-> In k (done positive dval dc0)).
    { intros k. rewrite S1, DR, EK. split; intros H; apply in_map_iff in H; destruct H as [t [E Ht]]; subst;
        apply in_map; apply Cov; exact Ht. }
    assert (NKd : NoDup (dkeys d)) by (rewrite EK; exact NK).
    (* the greedy dask schedule covers the dict *)
    pose proof (greedy_complete positive dval Pos.eqb dflt_dval (dask_deps d) (dask_comp apply d) pos_eqb_spec
                  dc0 (dkeys d) V0 Full NKd (length d) [] (NoDup_nil _) (fun x (H : In x []) => match H with end)) as GL.
    assert (Ld : length (dkeys d) = length d) by (unfold dkeys; apply map_length).
    specialize (GL ltac:(cbn; lia)). cbn [length] in GL. fold (dask_sched d) in GL.
    destruct (greedy_runs positive dval Pos.eqb dflt_dval (dask_deps d) (dask_comp apply d)
                (length d) (dkeys d) []) as [dc1 Hdc1].
    change (dask_run apply d (dask_sched d) = Some dc1) in Hdc1.
    destruct (greedy_nodup_incl positive Pos.eqb (dask_deps d) pos_eqb_spec (length d) (dkeys d) [] (NoDup_nil _)) as [Ns Is].
    cbn [app] in Ns. fold (dask_sched d) in Ns, Is.
    assert (CovD : forall k, In k (dkeys d) -> In k (dask_sched d)).
    { apply NoDup_length_incl; [exact Ns | lia | exact Is]. }
    assert (Hres : In results (dask_sched d)).
    { apply CovD. rewrite EK, <- (key_sink ids o). apply in_map. apply (sink_in_nodes g o Hout). }
    exists (rget rc o). split.
    - unfold ref_get. rewrite Hout, Hlen, Nat.eqb_refl. cbn [negb]. rewrite Hrc.
      assert (M : tmem o (done task sval rc) = true).
      { apply (kmem_In task task_eqb task_eqb_spec). rewrite DR. apply Cov. apply (sink_in_nodes g o Hout). }
      rewrite M. reflexivity.
    - unfold dask_get, dask_get_log. replace (length (dask_sched d)) with (length d) by lia.
      rewrite Nat.eqb_refl. cbn [negb]. rewrite Hdc1.
      assert (M : mem positive Pos.eqb results (done positive dval dc1) = true).
      { apply (kmem_In positive Pos.eqb pos_eqb_spec). rewrite (dask_run_done apply _ _ _ Hdc1). exact Hres. }
      rewrite M. cbn [fst]. f_equal.
      apply (dask_results_sound_lemma g ids d o (topo_order g) rc (dask_sched d) dc1); try assumption.
      apply Cov. apply (sink_in_nodes g o Hout).
  Qed.

  Lemma execute_sound_lemma g ctx next ids o :
    let p := exec_prepare g ctx next in
    output_tasks p = [o] ->
    g_keys_fresh p ids = true ->
    length (topo_order p) = length (nodes p) ->
    exists v, ref_get apply p = ROk v /\ execute apply g ctx next ids = ROk v.
  Proof.
    intros p Hout Hf Hl.
    destruct (as_dask_dict p ids) as [d|] eqn:Ed.
    - destruct (dask_get_sound_lemma p ids d o Hout Ed Hf Hl) as [v [H1 H2]].
      exists v. split; [exact H1|]. unfold execute, execute_log. fold p. rewrite Ed. exact H2.
    - unfold as_dask_dict in Ed. rewrite Hout in Ed. discriminate.
  Qed.
End Exec.
