(* PV.C17.ProofsOptimize — dispatchers/local_dask/optimize.py: scattering static input into futures does not
   change what the distributed scheduler evaluates. *)
From Coq Require Import List Bool PArith Arith Lia.
From PV Require Import Base.PyData C17.Model C17.ProofsDask.
Import ListNotations.
Local Open Scope nat_scope.

Definition unfut_list : list sval -> list sval :=
  fix go (l : list sval) : list sval := match l with [] => [] | x :: tl => unfut x :: go tl end.
Definition scatter_list : list sval -> list sval :=
  fix go (l : list sval) : list sval := match l with [] => [] | x :: tl => scatter x :: go tl end.
Definition no_fut_all : list sval -> bool :=
  fix all (l : list sval) : bool := match l with [] => true | x :: tl => no_fut x && all tl end.

Lemma unfut_list_map l : unfut_list l = map unfut l.
Proof. induction l as [|x tl IH]; [reflexivity|]. cbn [unfut_list map]. fold unfut_list. rewrite IH. reflexivity. Qed.
Lemma scatter_list_map l : scatter_list l = map scatter l.
Proof. induction l as [|x tl IH]; [reflexivity|]. cbn [scatter_list map]. fold scatter_list. rewrite IH. reflexivity. Qed.
Lemma no_fut_all_forall l : no_fut_all l = true <-> forall x, In x l -> no_fut x = true.
Proof.
  induction l as [|x tl IH]; cbn [no_fut_all]; fold no_fut_all.
  - split; [intros _ y [] | reflexivity].
  - rewrite andb_true_iff, IH. split.
    + intros [H1 H2] y [Hy|Hy]; [subst; exact H1 | apply H2; exact Hy].
    + intros H. split; [apply H; left; reflexivity | intros y Hy; apply H; right; exact Hy].
Qed.

Lemma map_id_in {X} (f : X -> X) l : (forall x, In x l -> f x = x) -> map f l = l.
Proof.
  induction l as [|x tl IH]; intros H; [reflexivity|]. cbn [map].
  rewrite (H x (or_introl eq_refl)), IH by (intros y Hy; apply H; right; exact Hy). reflexivity.
Qed.

(* a value without futures is its own unpacking *)
Lemma unfut_no_fut : forall a, no_fut a = true -> unfut a = a.
Proof.
  induction a using sval_ind'; intros Hn; try reflexivity.
  - change (STuple (unfut_list l) = STuple l). rewrite unfut_list_map. f_equal.
    change (no_fut_all l = true) in Hn. rewrite no_fut_all_forall in Hn. rewrite Forall_forall in H.
    apply map_id_in. intros x Hx. apply H; [exact Hx | apply Hn; exact Hx].
  - change (SList (unfut_list l) = SList l). rewrite unfut_list_map. f_equal.
    change (no_fut_all l = true) in Hn. rewrite no_fut_all_forall in Hn. rewrite Forall_forall in H.
    apply map_id_in. intros x Hx. apply H; [exact Hx | apply Hn; exact Hx].
  - change (SDict ks (unfut_list vs) = SDict ks vs). rewrite unfut_list_map. f_equal.
    change (no_fut_all vs = true) in Hn. rewrite no_fut_all_forall in Hn. rewrite Forall_forall in H0.
    apply map_id_in. intros x Hx. apply H0; [exact Hx | apply Hn; exact Hx].
  - cbn [no_fut] in Hn. discriminate.
Qed.

(* unpacking the futures that _scatter_computation put in gives the computation back *)
Lemma unfut_scatter : forall a, no_fut a = true -> unfut (scatter a) = a.
Proof.
  induction a using sval_ind'; intros Hn; try reflexivity.
  - (* an atom: number or object *)
    cbn [scatter scatter_value]. destruct (Pos.leb 2000 a); reflexivity.
  - change (no_fut_all l = true) in Hn. rewrite no_fut_all_forall in Hn. rewrite Forall_forall in H.
    destruct l as [|h rest]; [reflexivity|].
    change (unfut (STuple (h :: scatter_list rest)) = STuple (h :: rest)).
    change (STuple (unfut h :: unfut_list (scatter_list rest)) = STuple (h :: rest)).
    rewrite unfut_list_map, scatter_list_map, map_map, (unfut_no_fut h) by (apply Hn; left; reflexivity).
    f_equal. f_equal. apply map_id_in. intros x Hx. apply H; [right; exact Hx | apply Hn; right; exact Hx].
  - change (no_fut_all l = true) in Hn. rewrite no_fut_all_forall in Hn. rewrite Forall_forall in H.
    change (SList (unfut_list (scatter_list l)) = SList l).
    rewrite unfut_list_map, scatter_list_map, map_map. f_equal.
    apply map_id_in. intros x Hx. apply H; [exact Hx | apply Hn; exact Hx].
  - (* dicts are not scattered into *)
    change (unfut (SDict ks vs) = SDict ks vs). apply unfut_no_fut. exact Hn.
  - cbn [no_fut] in Hn. discriminate.
Qed.

Definition dsk_no_fut (d : dsk) : bool := forallb (fun kv => no_fut (snd kv)) d.

Lemma unfut_scatter_dsk d : dsk_no_fut d = true ->
  map (fun kv => (fst kv, unfut (snd kv))) (scatter_dsk d) = d.
Proof.
  unfold dsk_no_fut, scatter_dsk. rewrite forallb_forall, map_map. intros H.
  apply map_id_in. intros [k v] Hkv. cbn [fst snd]. rewrite unfut_scatter; [reflexivity|]. apply (H (k, v) Hkv).
Qed.

Section Scatter.
  Variable apply : positive -> list sval -> sval.

  Lemma scatter_preserves_lemma d k : dsk_no_fut d = true ->
    dask_get_dist_log apply (scatter_dsk d) k = dask_get_log apply d k.
  Proof. intros H. unfold dask_get_dist_log. rewrite (unfut_scatter_dsk d H). reflexivity. Qed.
End Scatter.

(* the quoting of as_dask_dict creates no futures: a dict made from future-free static input is future-free *)
Lemma no_fut_quote keys a : no_fut a = true -> no_fut (quote keys a) = true.
Proof. intros H. unfold quote. destruct (interpreted keys a); [reflexivity | exact H]. Qed.

Lemma as_dask_dict_no_fut g ids d :
  as_dask_dict g ids = Some d ->
  (forall t a, In t (nodes g) -> In a (tinputs t) -> no_fut a = true) -> dsk_no_fut d = true.
Proof.
  unfold as_dask_dict. destruct (output_tasks g) as [|o [|? ?]]; try discriminate.
  intros E H. inversion E. subst d. unfold dsk_no_fut. apply forallb_forall. intros kv Hkv.
  apply in_map_iff in Hkv. destruct Hkv as [t [Et Ht]]. subst kv. cbn [snd].
  change (no_fut_all (SFun (tfun t) :: map (quote (map (key_of ids o) (nodes g))) (tinputs t)
                      ++ map (fun p => SStr (key_of ids o p)) (pred g t)) = true).
  apply no_fut_all_forall. intros x [Hx|Hx]; [subst; reflexivity|].
  apply in_app_or in Hx. destruct Hx as [Hx|Hx]; apply in_map_iff in Hx; destruct Hx as [y [Ey Hy]]; subst x.
  - apply no_fut_quote. apply (H t y Ht Hy).
  - reflexivity.
Qed.
