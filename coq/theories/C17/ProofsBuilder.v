(* PV.C17.ProofsBuilder — WorkflowBuilder operations keep exactly the declared tasks and edges;
   Workflow(builder) lists predecessors in node order. *)
From Coq Require Import List Bool PArith Arith Lia.
From PV Require Import Base.PyData C17.Model C17.ProofsDask C17.ProofsGraph.
Import ListNotations.
Local Open Scope nat_scope.

Notation twf := (wfg task).
Notation T_add_node := (add_node task task_eqb).
Notation T_add_edge := (add_edge task task_eqb).

(* ---- add_task ------------------------------------------------------------------------------------ *)
Lemma add_task_fold ps : forall g t, twf g ->
  twf (fold_left (fun g p => T_add_edge g p t) ps g)
  /\ (forall x, In x (nodes (fold_left (fun g p => T_add_edge g p t) ps g)) <->
                In x (nodes g) \/ (ps <> [] /\ x = t) \/ In x ps)
  /\ (forall u v, In v (succ (fold_left (fun g p => T_add_edge g p t) ps g) u) <->
                  In v (succ g u) \/ (In u ps /\ v = t))
  /\ (exists ext, nodes (fold_left (fun g p => T_add_edge g p t) ps g) = nodes g ++ ext).
Proof.
  induction ps as [|p tl IH]; intros g t W; cbn [fold_left].
  - split; [exact W|]. split; [|split].
    + intros x. cbn. split; [tauto|]. intros [H|[[H _]|[]]]; [exact H | contradiction].
    + intros u v. cbn. tauto.
    + exists []. rewrite app_nil_r. reflexivity.
  - destruct (IH (T_add_edge g p t) t (wfg_add_edge task task_eqb task_eqb_spec g p t W)) as [W' [N' [S' [ext E']]]].
    split; [exact W'|]. split; [|split].
    + intros x. rewrite N', (In_nodes_add_edge task task_eqb task_eqb_spec). cbn [In]. split.
      * intros [[H|[H|H]]|[[H1 H2]|H]]; auto.
        -- right. left. split; [discriminate | exact H].
        -- right. left. split; [discriminate | exact H2].
      * intros [H|[[_ H]|[H|H]]]; auto.
    + intros u v. rewrite S', (In_succ_add_edge task task_eqb task_eqb_spec) by exact W. cbn [In]. split.
      * intros [[H|[H1 H2]]|[H1 H2]]; auto.
      * intros [H|[[H|H] H2]]; auto.
    + destruct (nodes_add_edge_prefix task task_eqb g p t) as [e1 E1].
      exists (e1 ++ ext). rewrite E', E1, app_assoc. reflexivity.
Qed.

Lemma add_task_exact_lemma g t ps : twf g ->
  twf (add_task g t ps)
  /\ (forall x, In x (nodes (add_task g t ps)) <-> In x (nodes g) \/ x = t \/ In x ps)
  /\ (forall u v, In v (succ (add_task g t ps) u) <-> In v (succ g u) \/ (In u ps /\ v = t))
  /\ (exists ext, nodes (add_task g t ps) = nodes g ++ ext).
Proof.
  intros W. unfold add_task.
  pose proof (wfg_add_node task task_eqb task_eqb_spec g t W) as W1.
  destruct (add_task_fold ps (T_add_node g t) t W1) as [W' [N' [S' [ext E']]]].
  split; [exact W'|]. split; [|split].
  - intros x. rewrite N', (In_nodes_add_node task task_eqb task_eqb_spec). tauto.
  - intros u v. rewrite S', (succ_add_node task task_eqb task_eqb_spec) by exact W. tauto.
  - destruct (nodes_add_node_prefix task task_eqb g t) as [e1 E1].
    exists (e1 ++ ext). rewrite E', E1, app_assoc. reflexivity.
Qed.

(* a new task with predecessors that are already there goes to the end of the node list *)
Lemma add_task_new_last g t ps : twf g -> ~ In t (nodes g) -> incl ps (nodes g) ->
  nodes (add_task g t ps) = nodes g ++ [t].
Proof.
  intros W Hn Hi. unfold add_task.
  assert (N1 : nodes (T_add_node g t) = nodes g ++ [t]).
  { rewrite (nodes_add_node task task_eqb). destruct (has_node task task_eqb g t) eqn:E; [|reflexivity].
    apply (has_node_In task task_eqb task_eqb_spec) in E. contradiction. }
  pose proof (wfg_add_node task task_eqb task_eqb_spec g t W) as W1.
  revert W1 N1. generalize (T_add_node g t). induction ps as [|p tl IH]; intros g1 W1 N1; cbn [fold_left].
  - exact N1.
  - apply IH.
    + intros x Hx. apply Hi. right. exact Hx.
    + apply (wfg_add_edge task task_eqb task_eqb_spec). exact W1.
    + rewrite (nodes_add_edge_in task task_eqb task_eqb_spec); [exact N1 | |].
      * rewrite N1. apply in_or_app. left. apply Hi. left. reflexivity.
      * rewrite N1. apply in_or_app. right. left. reflexivity.
Qed.

(* ---- Workflow(builder) --------------------------------------------------------------------------- *)
Lemma workflow_of_spec g : twf g ->
  twf (workflow_of g) /\ nodes (workflow_of g) = nodes g
  /\ (forall u, succ (workflow_of g) u = succ g u)
  /\ (forall t, pred (workflow_of g) t = filter (fun u => tmem t (succ g u)) (nodes g)).
Proof.
  intros W. unfold workflow_of. split; [apply (wfg_copy task task_eqb task_eqb_spec)|].
  split; [apply (nodes_copy task task_eqb task_eqb_spec); exact W|]. split.
  - intros u. apply (succ_copy task task_eqb task_eqb_spec). exact W.
  - intros t. apply (pred_copy task task_eqb task_eqb_spec). exact W.
Qed.

(* ---- insert_workflow ------------------------------------------------------------------------------ *)
Lemma fold_edges_spec (l : list (task * task)) : forall g, twf g ->
  let r := fold_left (fun g io => T_add_edge g (snd io) (fst io)) l g in
  twf r /\ (forall u v, In v (succ r u) <-> In v (succ g u) \/ In (v, u) l)
  /\ (forall x, In x (nodes r) <-> In x (nodes g) \/ exists e, In e l /\ (x = fst e \/ x = snd e)).
Proof.
  induction l as [|[i o] tl IH]; intros g W; cbn [fold_left fst snd].
  - split; [exact W|]. split.
    + intros u v. cbn. tauto.
    + intros x. split; [auto|]. intros [H|[e [[] _]]]. exact H.
  - destruct (IH (T_add_edge g o i) (wfg_add_edge task task_eqb task_eqb_spec g o i W)) as [W' [S' N']].
    split; [exact W'|]. split.
    + intros u v. rewrite S', (In_succ_add_edge task task_eqb task_eqb_spec) by exact W. cbn [In]. split.
      * intros [[H|[H1 H2]]|H]; auto. subst. auto.
      * intros [H|[H|H]]; auto. inversion H. subst. auto.
    + intros x. rewrite N', (In_nodes_add_edge task task_eqb task_eqb_spec). split.
      * intros [[H|[H|H]]|[e [He Hx]]]; auto.
        -- right. exists (i, o). split; [left; reflexivity | right; exact H].
        -- right. exists (i, o). split; [left; reflexivity | left; exact H].
        -- right. exists e. split; [right; exact He | exact Hx].
      * intros [H|[e [[He|He] Hx]]]; auto.
        -- subst e. cbn [fst snd] in Hx. tauto.
        -- right. exists e. tauto.
Qed.

Definition iw_outs (g : tgraph) (ps : option (list task)) : list task :=
  match ps with None => output_tasks g | Some l => l end.

(* which connecting edges insert_workflow declares *)
Definition iw_links (g other : tgraph) (ps : option (list task)) : option (list (task * task)) :=
  let outs := iw_outs g ps in
  let ins := input_tasks other in
  if length ins =? length outs then Some (combine outs ins)                 (* n : n, pairwise *)
  else match ins, outs with
       | [i], _ => Some (map (fun o => (o, i)) outs)                          (* n : 1 *)
       | _, [o] => Some (map (fun i => (o, i)) ins)                           (* 1 : n *)
       | _, _ => None                                                         (* n : m refused *)
       end.

Lemma In_combine_swap {X Y} (a : list X) (b : list Y) x y : In (x, y) (combine a b) <-> In (y, x) (combine b a).
Proof.
  revert b. induction a as [|a0 a' IH]; intros [|b0 b']; cbn; try tauto.
  rewrite IH. split; intros [H|H]; auto; inversion H; subst; auto.
Qed.

Lemma insert_workflow_exact_lemma g other ps : twf g -> twf other ->
  let r := insert_workflow g other ps in
  twf (fst r) /\
  match iw_links g other ps with
  | Some links =>
      snd r = true /\
      (forall u v, In v (succ (fst r) u) <-> In v (succ g u) \/ In v (succ other u) \/ In (u, v) links) /\
      (forall x, In x (nodes (fst r)) <-> In x (nodes g) \/ In x (nodes other) \/ exists e, In e links /\ (x = fst e \/ x = snd e))
  | None =>
      snd r = false /\
      (forall u v, In v (succ (fst r) u) <-> In v (succ g u) \/ In v (succ other u)) /\
      (forall x, In x (nodes (fst r)) <-> In x (nodes g) \/ In x (nodes other))
  end.
Proof.
  intros Wg Wo. unfold insert_workflow, iw_links. fold (iw_outs g ps).
  set (outs := iw_outs g ps). set (ins := input_tasks other).
  pose proof (wfg_compose task task_eqb task_eqb_spec g other) as Wc.
  pose proof (In_succ_compose task task_eqb task_eqb_spec g other) as Sc.
  pose proof (In_nodes_compose task task_eqb task_eqb_spec g other) as Nc.
  destruct (length ins =? length outs) eqn:EL.
  - (* n : n *)
    destruct (fold_edges_spec (combine ins outs) _ Wc) as [W' [S' N']]. cbn [fst snd].
    split; [exact W'|]. split; [reflexivity|]. split.
    + intros u v. rewrite S', Sc by assumption. rewrite (In_combine_swap ins outs v u). tauto.
    + intros x. rewrite N', Nc by assumption. split.
      * intros [[H|H]|[[i o] [He Hx]]]; auto. right. right. exists (o, i). cbn [fst snd] in *.
        split; [apply In_combine_swap; exact He | tauto].
      * intros [H|[H|[[o i] [He Hx]]]]; auto. right. exists (i, o). cbn [fst snd] in *.
        split; [apply In_combine_swap; exact He | tauto].
  - destruct ins as [|i [|i2 ins']].
    + (* no inputs *)
      destruct outs as [|o [|o2 outs']].
      * cbn in EL. discriminate.
      * (* 1 : 0 *) cbn [fold_left fst snd map]. split; [exact Wc|]. split; [reflexivity|]. split.
        -- intros u v. rewrite Sc by assumption. cbn. tauto.
        -- intros x. rewrite Nc by assumption. split; [tauto|]. intros [H|[H|[e [[] _]]]]; auto.
      * cbn [fst snd]. split; [exact Wc|]. split; [reflexivity|]. split.
        -- intros u v. apply Sc; assumption.
        -- intros x. apply Nc; assumption.
    + (* n : 1 *)
      assert (F : forall l g0, twf g0 ->
                let r := fold_left (fun g o => T_add_edge g o i) l g0 in
                twf r /\ (forall u v, In v (succ r u) <-> In v (succ g0 u) \/ In (u, v) (map (fun o => (o, i)) l))
                /\ (forall x, In x (nodes r) <-> In x (nodes g0) \/ exists e, In e (map (fun o => (o, i)) l) /\ (x = fst e \/ x = snd e))).
      { induction l as [|o tl IH]; intros g0 W0; cbn [fold_left map].
        - split; [exact W0|]. split; [intros; cbn; tauto|]. intros x. split; [auto|]. intros [H|[e [[] _]]]. exact H.
        - destruct (IH (T_add_edge g0 o i) (wfg_add_edge task task_eqb task_eqb_spec g0 o i W0)) as [W' [S' N']].
          split; [exact W'|]. split.
          + intros u v. rewrite S', (In_succ_add_edge task task_eqb task_eqb_spec) by exact W0. cbn [In]. split.
            * intros [[H|[H1 H2]]|H]; auto. subst. auto.
            * intros [H|[H|H]]; auto. inversion H. subst. auto.
          + intros x. rewrite N', (In_nodes_add_edge task task_eqb task_eqb_spec). split.
            * intros [[H|[H|H]]|[e [He Hx]]]; auto.
              -- right. exists (o, i). split; [left; reflexivity | left; exact H].
              -- right. exists (o, i). split; [left; reflexivity | right; exact H].
              -- right. exists e. split; [right; exact He | exact Hx].
            * intros [H|[e [[He|He] Hx]]]; auto.
              -- subst e. cbn [fst snd] in Hx. tauto.
              -- right. exists e. tauto. }
      destruct (F outs _ Wc) as [W' [S' N']]. cbn [fst snd].
      split; [exact W'|]. split; [reflexivity|]. split.
      * intros u v. rewrite S', Sc by assumption. tauto.
      * intros x. rewrite N', Nc by assumption. tauto.
    + (* several inputs *)
      destruct outs as [|o [|o2 outs']].
      * cbn [fst snd]. split; [exact Wc|]. split; [reflexivity|]. split.
        -- intros u v. apply Sc; assumption.
        -- intros x. apply Nc; assumption.
      * (* 1 : n *)
        assert (F : forall l g0, twf g0 ->
                  let r := fold_left (fun g i => T_add_edge g o i) l g0 in
                  twf r /\ (forall u v, In v (succ r u) <-> In v (succ g0 u) \/ In (u, v) (map (fun i => (o, i)) l))
                  /\ (forall x, In x (nodes r) <-> In x (nodes g0) \/ exists e, In e (map (fun i => (o, i)) l) /\ (x = fst e \/ x = snd e))).
        { induction l as [|i0 tl IH]; intros g0 W0; cbn [fold_left map].
          - split; [exact W0|]. split; [intros; cbn; tauto|]. intros x. split; [auto|]. intros [H|[e [[] _]]]. exact H.
          - destruct (IH (T_add_edge g0 o i0) (wfg_add_edge task task_eqb task_eqb_spec g0 o i0 W0)) as [W' [S' N']].
            split; [exact W'|]. split.
            + intros u v. rewrite S', (In_succ_add_edge task task_eqb task_eqb_spec) by exact W0. cbn [In]. split.
              * intros [[H|[H1 H2]]|H]; auto. subst. auto.
              * intros [H|[H|H]]; auto. inversion H. subst. auto.
            + intros x. rewrite N', (In_nodes_add_edge task task_eqb task_eqb_spec). split.
              * intros [[H|[H|H]]|[e [He Hx]]]; auto.
                -- right. exists (o, i0). split; [left; reflexivity | left; exact H].
                -- right. exists (o, i0). split; [left; reflexivity | right; exact H].
                -- right. exists e. split; [right; exact He | exact Hx].
              * intros [H|[e [[He|He] Hx]]]; auto.
                -- subst e. cbn [fst snd] in Hx. tauto.
                -- right. exists e. tauto. }
        destruct (F (i :: i2 :: ins') _ Wc) as [W' [S' N']]. cbn [fst snd].
        split; [exact W'|]. split; [reflexivity|]. split.
        -- intros u v. rewrite S', Sc by assumption. tauto.
        -- intros x. rewrite N', Nc by assumption. tauto.
      * (* n : m *)
        cbn [fst snd]. split; [exact Wc|]. split; [reflexivity|]. split.
        -- intros u v. apply Sc; assumption.
        -- intros x. apply Nc; assumption.
Qed.

(* ---- replace_task ---------------------------------------------------------------------------------- *)
Lemma replace_task_spec g t n : twf g -> ~ In n (nodes g) ->
  twf (replace_task g t n)
  /\ nodes (replace_task g t n) = map (ren task task_eqb t n) (nodes g)
  /\ (forall u v, In v (succ (replace_task g t n) u) <->
                  exists u0 v0, In v0 (succ g u0) /\ u = ren task task_eqb t n u0 /\ v = ren task task_eqb t n v0)
  /\ (forall x, In x (nodes g) ->
        pred (replace_task g t n) (ren task task_eqb t n x) =
        map (ren task task_eqb t n) (filter (fun u => tmem x (succ g u)) (nodes g))).
Proof.
  intros W Hn. unfold replace_task. split; [apply (wfg_relabel_copy task task_eqb task_eqb_spec)|].
  split; [|split].
  - apply (nodes_relabel_copy task task_eqb task_eqb_spec); assumption.
  - intros u v. apply (In_succ_relabel_copy task task_eqb task_eqb_spec); assumption.
  - intros x Hx. apply (pred_relabel_copy task task_eqb task_eqb_spec); assumption.
Qed.

(* ---- everything a builder can reach is well formed --------------------------------------------------- *)
Inductive built : tgraph -> Prop :=
| built_empty : built g_empty
| built_add g t ps : built g -> built (add_task g t ps)
| built_replace g t n : built g -> built (replace_task g t n)
| built_insert g h ps : built g -> built h -> built (fst (insert_workflow g h ps))
| built_plus g h : built g -> built h -> built (builder_plus g h)
| built_workflow g : built g -> built (workflow_of g)
| built_context g c n : built g -> built (insert_context g c n).

Lemma insert_context_wf l c : forall (st : tgraph * positive), twf (fst st) ->
  twf (fst (fold_left (fun (st : tgraph * positive) t =>
               if tctx t
               then (replace_task (fst st) t (task_replace t (c :: tinputs t) (snd st)), Pos.succ (snd st))
               else st) l st)).
Proof.
  induction l as [|t tl IH]; intros st W; cbn [fold_left]; [exact W|].
  apply IH. destruct (tctx t); [|exact W]. cbn [fst]. apply (wfg_relabel_copy task task_eqb task_eqb_spec).
Qed.

Lemma built_wf g : built g -> twf g.
Proof.
  induction 1.
  - apply wfg_empty.
  - apply add_task_exact_lemma. assumption.
  - apply (wfg_relabel_copy task task_eqb task_eqb_spec).
  - apply (insert_workflow_exact_lemma g h ps); assumption.
  - apply (wfg_compose task task_eqb task_eqb_spec).
  - apply (wfg_copy task task_eqb task_eqb_spec).
  - unfold insert_context, insert_context_from. apply insert_context_wf. assumption.
Qed.

Lemma exec_prepare_wf g c n : twf (exec_prepare g c n).
Proof. unfold exec_prepare, workflow_of. apply (wfg_copy task task_eqb task_eqb_spec). Qed.
