(* PV.C17.ProofsDeclared — execute_workflow returns the DECLARED evaluation of the workflow (context
   where asked, static inputs, predecessor results in declared order) when all guards hold. *)
From Coq Require Import List Bool PArith Arith Lia.
From PV Require Import Base.PyData C17.Model C17.ProofsSched C17.ProofsDask C17.ProofsGraph C17.ProofsBuilder
  C17.Proofs C17.ProofsPrepare.
Import ListNotations.
Local Open Scope nat_scope.

Notation rdone := (done task sval).

Section Iso.
  Variable apply : positive -> list sval -> sval.
  Variable ctx : sval.
  Variables g1 g2 : tgraph.
  Variable phi : task -> task.
  Hypothesis phi_inj : forall x y, In x (nodes g1) -> In y (nodes g1) -> phi x = phi y -> x = y.
  Hypothesis phi_fun : forall t, In t (nodes g1) -> tfun (phi t) = tfun t.
  Hypothesis phi_inp : forall t, In t (nodes g1) -> tinputs (phi t) = decl_inputs ctx t.
  Hypothesis phi_pred : forall t, In t (nodes g1) -> pred g2 (phi t) = map phi (pred g1 t).

  Definition mapc (c : cache task sval) : cache task sval := map (fun kv => (phi (fst kv), snd kv)) c.

  Lemma done_mapc c : rdone (mapc c) = map phi (rdone c).
  Proof. unfold mapc, Model.done. rewrite !map_map. reflexivity. Qed.

  Lemma cget_mapc c : incl (rdone c) (nodes g1) -> forall p, In p (nodes g1) -> In p (rdone c) ->
    rget (mapc c) (phi p) = rget c p.
  Proof.
    induction c as [|[k v] tl IH]; intros Hi p Hp Hd; [contradiction|].
    cbn [mapc map Model.cget fst snd]. fold (mapc tl).
    assert (Hk : In k (nodes g1)) by (apply Hi; left; reflexivity).
    destruct (task_eqb p k) eqn:E.
    - apply task_eqb_spec in E. subst. rewrite task_eqb_refl. reflexivity.
    - assert (E' : task_eqb (phi p) (phi k) = false).
      { destruct (task_eqb (phi p) (phi k)) eqn:E2; [|reflexivity]. apply task_eqb_spec in E2.
        apply phi_inj in E2; [|exact Hp|exact Hk]. subst. rewrite task_eqb_refl in E. discriminate. }
      rewrite E'. apply IH.
      + intros x Hx. apply Hi. right. exact Hx.
      + exact Hp.
      + destruct Hd as [Hd|Hd]; [|exact Hd]. cbn [fst] in Hd. subst. rewrite task_eqb_refl in E. discriminate.
  Qed.

  Lemma iso_run order : forall c c', incl (rdone c) (nodes g1) -> incl order (nodes g1) ->
    run task sval task_eqb dflt_sval (pred g1) (decl_comp apply ctx g1) order c = Some c' ->
    run task sval task_eqb dflt_sval (pred g2) (ref_comp apply g2) (map phi order) (mapc c) = Some (mapc c')
    /\ incl (rdone c') (nodes g1).
  Proof.
    induction order as [|t tl IH]; intros c c' Hc Ho Hr; cbn [map Model.run] in *.
    - inversion Hr. subst. split; [reflexivity | exact Hc].
    - destruct (ready task task_eqb (pred g1) (rdone c) t) eqn:R; [|discriminate].
      apply (ready_spec task task_eqb (pred g1) task_eqb_spec) in R. destruct R as [R1 R2].
      assert (Ht : In t (nodes g1)) by (apply Ho; left; reflexivity).
      assert (R' : ready task task_eqb (pred g2) (rdone (mapc c)) (phi t) = true).
      { apply (ready_spec task task_eqb (pred g2) task_eqb_spec). rewrite done_mapc, (phi_pred t Ht). split.
        - intro Hi. apply in_map_iff in Hi. destruct Hi as [x [E Hx]].
          apply phi_inj in E; [subst; contradiction | apply Hc; exact Hx | exact Ht].
        - intros x Hx. apply in_map_iff in Hx. destruct Hx as [p [E Hp]]. subst. apply in_map. apply R2. exact Hp. }
      rewrite R'.
      assert (Ev : ref_comp apply g2 (phi t) (rget (mapc c)) = decl_comp apply ctx g1 t (rget c)).
      { unfold ref_comp, decl_comp. rewrite (phi_fun t Ht), (phi_inp t Ht), (phi_pred t Ht), map_map. f_equal. f_equal.
        apply map_ext_in. intros p Hp. apply cget_mapc; [exact Hc | apply Hc; apply R2; exact Hp | apply R2; exact Hp]. }
      rewrite Ev.
      specialize (IH (c ++ [(t, decl_comp apply ctx g1 t (rget c))]) c').
      unfold mapc in IH at 1. rewrite map_app in IH. cbn [map fst snd] in IH. apply IH.
      + rewrite (done_app task sval). intros x Hx. apply in_app_or in Hx.
        destruct Hx as [Hx|[Hx|[]]]; [apply Hc; exact Hx | cbn [fst] in Hx; subst; exact Ht].
      + intros x Hx. apply Ho. right. exact Hx.
      + exact Hr.
  Qed.
End Iso.

Lemma decl_comp_local apply ctx g t (c1 c2 : task -> sval) :
  (forall x, In x (pred g t) -> c1 x = c2 x) -> decl_comp apply ctx g t c1 = decl_comp apply ctx g t c2.
Proof. unfold decl_comp. intros H. f_equal. f_equal. apply map_ext_in. exact H. Qed.

(* the declared evaluation is the sequential evaluation the property describes *)
Lemma declared_eval_equation apply ctx g order rc pre t post :
  declared_eval apply ctx g order = Some rc -> order = pre ++ t :: post ->
  rget rc t = apply (tfun t) (decl_inputs ctx t ++ map (rget rc) (pred g t)) /\ incl (pred g t) pre /\ ~ In t pre.
Proof.
  intros Hr E. unfold declared_eval in Hr.
  assert (V : valid task sval task_eqb dflt_sval (pred g) (decl_comp apply ctx g) rc).
  { eapply run_valid; [exact task_eqb_spec | constructor | exact Hr]. }
  pose proof (run_done _ _ _ _ _ _ _ _ _ Hr) as D. cbn [app Model.done map] in D.
  split; [|split].
  - assert (Ht : In t (rdone rc)) by (rewrite D, E; apply in_or_app; right; left; reflexivity).
    destruct (valid_equation task sval task_eqb dflt_sval _ _ task_eqb_spec (decl_comp_local apply ctx g) rc V t Ht) as [Eq _].
    exact Eq.
  - eapply (valid_split task sval task_eqb dflt_sval _ _ rc V). rewrite D. exact E.
  - pose proof (valid_nodup task sval task_eqb dflt_sval _ _ rc V) as Nd. rewrite D, E in Nd.
    apply NoDup_remove_2 in Nd. intro Hi. apply Nd. apply in_or_app. left. exact Hi.
Qed.

Lemma declared_eval_done apply ctx g order c : declared_eval apply ctx g order = Some c -> rdone c = order.
Proof. intros H. apply run_done in H. exact H. Qed.

Lemma out_deg0_nil (g : tgraph) t : out_deg0 task g t = true <-> succ g t = [].
Proof. unfold out_deg0. destruct (succ g t) as [|x tl]. - split; reflexivity. - split; discriminate. Qed.

Section Declared.
  Variable apply : positive -> list sval -> sval.
  Variable g : tgraph.
  Variable ctx : sval.
  Variable next : positive.
  Hypothesis B : built g.
  Hypothesis U : uids_below next g = true.

  Notation N := (nodes g).
  Notation w := (workflow_of g).
  Notation p := (exec_prepare g ctx next).
  Notation phi := (prep_image g ctx next).
  Let W : twf g := built_wf g B.

  Lemma nodes_w : nodes w = N.
  Proof. apply (workflow_of_spec g W). Qed.
  Lemma succ_w u : succ w u = succ g u.
  Proof. apply (workflow_of_spec g W). Qed.

  (* a single sink stays the single sink *)
  Lemma output_prepare o : output_tasks w = [o] -> output_tasks p = [phi o] /\ In o N.
  Proof.
    intros Ho.
    assert (Hg : filter (out_deg0 task g) N = [o]).
    { unfold output_tasks, output_nodes in Ho. rewrite nodes_w in Ho. rewrite <- Ho. apply filter_ext.
      intros x. unfold out_deg0. rewrite succ_w. reflexivity. }
    assert (HoN : In o N).
    { assert (H : In o (filter (out_deg0 task g) N)) by (rewrite Hg; left; reflexivity). apply filter_In in H. tauto. }
    split; [|exact HoN].
    unfold output_tasks, output_nodes. rewrite (nodes_prepare g ctx next W U), filter_map_swap.
    assert (E : filter (fun x => out_deg0 task p (phi x)) N = filter (out_deg0 task g) N).
    { apply filter_ext_in. intros u Hu.
      destruct (out_deg0 task g u) eqn:D.
      - apply out_deg0_nil in D. apply out_deg0_nil.
        destruct (succ p (phi u)) as [|x tl] eqn:S; [reflexivity|]. exfalso.
        assert (Hx : In x (succ p (phi u))) by (rewrite S; left; reflexivity).
        destruct (wf_succ_in task p (exec_prepare_wf g ctx next) _ _ Hx) as [_ Hxn].
        rewrite (nodes_prepare g ctx next W U) in Hxn. apply in_map_iff in Hxn. destruct Hxn as [v [Ev Hv]]. subst x.
        apply (succ_prepare g ctx next W U u v Hu Hv) in Hx. rewrite D in Hx. contradiction.
      - destruct (out_deg0 task p (phi u)) eqn:D2; [|reflexivity]. apply out_deg0_nil in D2.
        unfold out_deg0 in D. destruct (succ g u) as [|v tl] eqn:S; [discriminate|].
        assert (Hv : In v (succ g u)) by (rewrite S; left; reflexivity).
        destruct (wf_succ_in task g W u v Hv) as [_ HvN].
        apply (succ_prepare g ctx next W U u v Hu HvN) in Hv. rewrite D2 in Hv. contradiction. }
    rewrite E, Hg. reflexivity.
  Qed.

  (* the declared evaluation, transported to the prepared workflow *)
  Lemma declared_to_prepared order rc :
    declared_eval apply ctx w order = Some rc -> incl order N ->
    topo_eval apply p (map phi order) = Some (mapc phi rc).
  Proof.
    intros Hr Hi. unfold declared_eval in Hr. unfold topo_eval.
    destruct (iso_run apply ctx w p phi) with (order := order) (c := @nil (task * sval)) (c' := rc) as [H _].
    - intros x y Hx Hy. rewrite nodes_w in Hx, Hy. apply (prep_image_inj g ctx next W U); assumption.
    - intros t Ht. rewrite nodes_w in Ht. apply (prep_image_fields g ctx next W U t Ht).
    - intros t Ht. rewrite nodes_w in Ht. unfold decl_inputs. apply (prep_image_fields g ctx next W U t Ht).
    - intros t Ht. rewrite nodes_w in Ht. apply (pred_prepare g ctx next W U t Ht).
    - intros x [].
    - rewrite nodes_w. exact Hi.
    - exact Hr.
    - exact H.
  Qed.

  Lemma execute_declared_lemma ids o order rc :
    output_tasks w = [o] ->
    g_keys_fresh p ids = true ->
    declared_eval apply ctx w order = Some rc -> (forall t, In t order <-> In t N) ->
    execute apply g ctx next ids = ROk (rget rc o).
  Proof.
    intros Ho Hf Hr Hcov.
    destruct (output_prepare o Ho) as [Hop HoN].
    assert (Hi : incl order N) by (intros x Hx; apply Hcov; exact Hx).
    pose proof (declared_to_prepared order rc Hr Hi) as Ht.
    pose proof (topo_eval_valid apply _ _ _ Ht) as Vt.
    pose proof (topo_eval_done apply _ _ _ Ht) as Dt.
    (* the prepared graph is acyclic: the greedy order covers it *)
    assert (NP : NoDup (nodes p)) by apply (wf_nodup task p (exec_prepare_wf g ctx next)).
    assert (Full : forall k, In k (nodes p) <-> In k (rdone (mapc phi rc))).
    { intros k. rewrite Dt, (nodes_prepare g ctx next W U). split; intros H; apply in_map_iff in H;
        destruct H as [x [E Hx]]; subst; apply in_map; apply Hcov; exact Hx. }
    pose proof (greedy_complete task sval task_eqb dflt_sval (pred p) (ref_comp apply p) task_eqb_spec
                  (mapc phi rc) (nodes p) Vt Full NP (length (nodes p)) [] (NoDup_nil _)
                  (fun x (H : In x []) => match H with end)) as GL.
    specialize (GL ltac:(cbn; lia)). cbn [length] in GL. fold (topo_order p) in GL.
    assert (Hlen : length (topo_order p) = length (nodes p)) by lia.
    destruct (execute_sound_lemma apply g ctx next ids (phi o) Hop Hf Hlen) as [v [Hv He]].
    rewrite He. f_equal.
    (* the value of the sink does not depend on the order *)
    unfold ref_get in Hv. rewrite Hop, Hlen, Nat.eqb_refl in Hv. cbn [negb] in Hv.
    destruct (topo_eval apply p (topo_order p)) as [rcg|] eqn:Eg; [|discriminate].
    destruct (tmem (phi o) (done task sval rcg)) eqn:M; [|discriminate]. inversion Hv. subst v.
    apply tmem_In in M.
    rewrite (topo_schedule_independent apply p (topo_order p) (map phi order) rcg (mapc phi rc) (phi o) Eg Ht).
    - apply (cget_mapc w phi).
      + intros x y Hx Hy. rewrite nodes_w in Hx, Hy. apply (prep_image_inj g ctx next W U); assumption.
      + rewrite (declared_eval_done apply ctx w order rc Hr), nodes_w. exact Hi.
      + rewrite nodes_w. exact HoN.
      + rewrite (declared_eval_done apply ctx w order rc Hr). apply Hcov. exact HoN.
    - rewrite <- (topo_eval_done apply _ _ _ Eg). exact M.
    - apply in_map. apply Hcov. exact HoN.
  Qed.
End Declared.
