(* PV.C17.ProofsFinal — the statements of Properties.v, proved from the lemma files. *)
From Coq Require Import List Bool PArith Arith Permutation.
From PV Require Import Base.PyData C17.Model C17.ProofsSched C17.ProofsDask C17.ProofsGraph C17.ProofsBuilder C17.Proofs C17.ProofsPrepare C17.ProofsDeclared C17.ProofsOptimize C17.ProofsQueries C17.ProofsFuse C17.ProofsOptimizeAll C17.ProofsFuseCalls.
Import ListNotations.

Lemma topo_eval_is_sequential_evaluation_stmt :
  forall (apply : positive -> list sval -> sval) (g : tgraph) (order : list task) (rc : cache task sval)
         (pre post : list task) (t : task),
    topo_eval apply g order = Some rc -> order = pre ++ t :: post ->
    rget rc t = apply (tfun t) (ref_args g (rget rc) t) /\ incl (pred g t) pre /\ ~ In t pre.
Proof.
  intros apply g order rc pre post t Hr E. split.
  - apply (topo_eval_equation apply g order rc t Hr). rewrite E. apply in_or_app. right. left. reflexivity.
  - exact (topo_eval_before apply g order rc pre t post Hr E).
Qed.

Lemma dask_dict_sound_stmt :
  forall (apply : positive -> list sval -> sval) (g : tgraph) (ids : task -> positive) (d : dsk) (o : task)
         (order : list task) (rc : cache task sval) (sched : list positive) (dc : cache positive dval) (t : task),
    output_tasks g = [o] -> as_dask_dict g ids = Some d ->
    g_keys_fresh g ids = true ->
    topo_eval apply g order = Some rc -> incl order (nodes g) -> In t order ->
    dask_run apply d sched = Some dc -> In (key_of ids o t) sched ->
    dget dc (key_of ids o t) = (rget rc t, [(tfun t, ref_args g (rget rc) t)]).
Proof. exact dask_dict_sound_lemma. Qed.

Lemma dask_results_sound_stmt :
  forall (apply : positive -> list sval -> sval) (g : tgraph) (ids : task -> positive) (d : dsk) (o : task)
         (order : list task) (rc : cache task sval) (sched : list positive) (dc : cache positive dval),
    output_tasks g = [o] -> as_dask_dict g ids = Some d ->
    g_keys_fresh g ids = true ->
    topo_eval apply g order = Some rc -> incl order (nodes g) -> In o order ->
    dask_run apply d sched = Some dc -> In results sched ->
    fst (dget dc results) = rget rc o.
Proof. exact dask_results_sound_lemma. Qed.

Lemma dask_get_sound_stmt :
  forall (apply : positive -> list sval -> sval) (g : tgraph) (ids : task -> positive) (d : dsk) (o : task),
    output_tasks g = [o] -> as_dask_dict g ids = Some d ->
    g_keys_fresh g ids = true ->
    length (topo_order g) = length (nodes g) ->
    exists v, ref_get apply g = ROk v /\ dask_get apply d results = ROk v.
Proof. exact dask_get_sound_lemma. Qed.

Lemma execute_sound_stmt :
  forall (apply : positive -> list sval -> sval) (g : tgraph) (ctx : sval) (next : positive) (ids : task -> positive) (o : task),
    let p := exec_prepare g ctx next in
    output_tasks p = [o] ->
    g_keys_fresh p ids = true ->
    length (topo_order p) = length (nodes p) ->
    exists v, ref_get apply p = ROk v /\ execute apply g ctx next ids = ROk v.
Proof.
  intros apply g ctx next ids o p Hout Hf Hl.
  destruct (as_dask_dict p ids) as [d|] eqn:Ed.
  - destruct (dask_get_sound_lemma apply p ids d o Hout Ed Hf Hl) as [v [H1 H2]].
    exists v. split; [exact H1|]. unfold execute, execute_log. fold p. rewrite Ed. exact H2.
  - unfold as_dask_dict in Ed. rewrite Hout in Ed. discriminate.
Qed.

Lemma exactly_once_stmt :
  forall (apply : positive -> list sval -> sval) (g : tgraph) (ids : task -> positive) (d : dsk) (o : task)
         (order : list task) (rc : cache task sval) (sched : list positive) (dc : cache positive dval),
    output_tasks g = [o] -> as_dask_dict g ids = Some d ->
    g_keys_fresh g ids = true ->
    topo_eval apply g order = Some rc -> (forall t, In t order <-> In t (nodes g)) ->
    dask_run apply d sched = Some dc -> (forall k, In k sched <-> In k (dkeys d)) ->
    NoDup sched /\
    Permutation (call_log dc) (map (fun t => (tfun t, ref_args g (rget rc) t)) (nodes g)).
Proof. exact exactly_once_lemma. Qed.

Lemma schedule_runs_each_key_once_after_its_dependencies_stmt :
  forall (apply : positive -> list sval -> sval) (d : dsk) (sched : list positive) (c : cache positive dval),
    dask_run apply d sched = Some c ->
    NoDup sched /\ forall pre k post, sched = pre ++ k :: post -> incl (dask_deps d k) pre.
Proof. exact dask_run_once. Qed.

Lemma schedule_independent_stmt :
  forall (apply : positive -> list sval -> sval) (d : dsk) (s1 s2 : list positive) (c1 c2 : cache positive dval) (k : positive),
    dask_run apply d s1 = Some c1 -> dask_run apply d s2 = Some c2 -> In k s1 -> In k s2 ->
    dget c1 k = dget c2 k.
Proof. exact dask_schedule_independent. Qed.

Lemma reference_order_independent_stmt :
  forall (apply : positive -> list sval -> sval) (g : tgraph) (o1 o2 : list task) (c1 c2 : cache task sval) (t : task),
    topo_eval apply g o1 = Some c1 -> topo_eval apply g o2 = Some c2 -> In t o1 -> In t o2 ->
    rget c1 t = rget c2 t.
Proof. exact topo_schedule_independent. Qed.

Lemma pred_order_is_node_order_stmt :
  forall (b : tgraph), built b ->
    nodes (workflow_of b) = nodes b /\
    (forall u, succ (workflow_of b) u = succ b u) /\
    (forall t, pred (workflow_of b) t = filter (fun u => tmem t (succ b u)) (nodes b)).
Proof. intros b H. apply workflow_of_spec. apply built_wf. exact H. Qed.

Lemma executed_pred_order_is_node_order_stmt :
  forall (g : tgraph) (ctx : sval) (next : positive) (t : task),
    let p := exec_prepare g ctx next in
    pred (workflow_of p) t = filter (fun u => tmem t (succ p u)) (nodes p) /\ nodes (workflow_of p) = nodes p.
Proof.
  intros g ctx next t p. destruct (workflow_of_spec p (exec_prepare_wf g ctx next)) as [_ [N [_ P]]]. split; [apply P | exact N].
Qed.

Lemma builder_graphs_well_formed_stmt : forall g, built g -> wfg task g.
Proof. exact built_wf. Qed.

Lemma add_task_exact_stmt :
  forall (g : tgraph) (t : task) (ps : list task), built g ->
    (forall x, In x (nodes (add_task g t ps)) <-> In x (nodes g) \/ x = t \/ In x ps) /\
    (forall u v, In v (succ (add_task g t ps) u) <-> In v (succ g u) \/ (In u ps /\ v = t)) /\
    (exists ext, nodes (add_task g t ps) = nodes g ++ ext).
Proof. intros g t ps H. apply add_task_exact_lemma. apply built_wf. exact H. Qed.

Lemma add_task_new_goes_last_stmt :
  forall (g : tgraph) (t : task) (ps : list task), built g -> ~ In t (nodes g) -> incl ps (nodes g) ->
    nodes (add_task g t ps) = nodes g ++ [t].
Proof. intros g t ps H. apply add_task_new_last. apply built_wf. exact H. Qed.

Lemma insert_workflow_exact_stmt :
  forall (g other : tgraph) (ps : option (list task)), built g -> built other ->
    let r := insert_workflow g other ps in
    match iw_links g other ps with
    | Some links =>
        snd r = true /\
        (forall u v, In v (succ (fst r) u) <-> In v (succ g u) \/ In v (succ other u) \/ In (u, v) links) /\
        (forall x, In x (nodes (fst r)) <-> In x (nodes g) \/ In x (nodes other) \/ exists e, In e links /\ (x = fst e \/ x = snd e))
    | None =>
        snd r = false /\
        (forall u v, In v (succ (fst r) u) <-> In v (succ g u) \/ In v (succ other u)) /\
        (forall x, In x (nodes (fst r)) <-> In x (nodes g) \/ In x (nodes other))
    end.
Proof.
  intros g other ps Hg Ho. apply (insert_workflow_exact_lemma g other ps (built_wf g Hg) (built_wf other Ho)).
Qed.

Lemma insert_nm_refuses_stmt :
  forall (g other : tgraph) (ps : option (list task)),
    length (input_tasks other) <> length (iw_outs g ps) ->
    length (input_tasks other) <> 1 -> length (iw_outs g ps) <> 1 ->
    snd (insert_workflow g other ps) = false.
Proof.
  intros g other ps H1 H2 H3. unfold insert_workflow. fold (iw_outs g ps).
  apply Nat.eqb_neq in H1. rewrite H1.
  destruct (input_tasks other) as [|i [|i2 il]]; destruct (iw_outs g ps) as [|o [|o2 ol]]; cbn in *; try reflexivity; congruence.
Qed.

Lemma replace_task_keeps_edges_stmt :
  forall (g : tgraph) (t n : task), built g -> ~ In n (nodes g) ->
    nodes (replace_task g t n) = map (ren task task_eqb t n) (nodes g) /\
    (forall u v, In v (succ (replace_task g t n) u) <->
                 exists u0 v0, In v0 (succ g u0) /\ u = ren task task_eqb t n u0 /\ v = ren task task_eqb t n v0) /\
    (forall x, In x (nodes g) ->
       pred (replace_task g t n) (ren task task_eqb t n x) =
       map (ren task task_eqb t n) (filter (fun u => tmem x (succ g u)) (nodes g))).
Proof. intros g t n H Hn. apply (replace_task_spec g t n (built_wf g H) Hn). Qed.

Lemma replace_task_absent_stmt : forall (g : tgraph) (t n : task), built g -> ~ In t (nodes g) -> replace_task g t n = workflow_of g.
Proof. intros g t n B H. apply (relabel_copy_absent task task_eqb task_eqb_spec); [exact H | apply built_wf; exact B]. Qed.


(* ---- execute_workflow's preparation --------------------------------------------------------------- *)
Lemma exec_prepare_node_order_stmt :
  forall (g : tgraph) (ctx : sval) (next : positive), built g -> uids_below next g = true ->
    nodes (exec_prepare g ctx next) = map (prep_image g ctx next) (nodes g).
Proof. intros g ctx next B U. apply nodes_prepare; [apply built_wf; exact B | exact U]. Qed.

Lemma exec_prepare_keeps_tasks_and_edges_stmt :
  forall (g : tgraph) (ctx : sval) (next : positive), built g -> uids_below next g = true ->
    (forall t, In t (nodes g) ->
       tid (prep_image g ctx next t) = tid t /\ tfun (prep_image g ctx next t) = tfun t /\
       tctx (prep_image g ctx next t) = tctx t /\
       tinputs (prep_image g ctx next t) = if tctx t then ctx :: tinputs t else tinputs t) /\
    (forall t t', In t (nodes g) -> In t' (nodes g) -> prep_image g ctx next t = prep_image g ctx next t' -> t = t') /\
    (forall u v, In u (nodes g) -> In v (nodes g) ->
       (In (prep_image g ctx next v) (succ (exec_prepare g ctx next) (prep_image g ctx next u)) <-> In v (succ g u))).
Proof.
  intros g ctx next B U. pose proof (built_wf g B) as W. split; [|split].
  - intros t Ht. apply prep_image_fields; assumption.
  - intros t t' Ht Ht'. apply prep_image_inj; assumption.
  - intros u v Hu Hv. apply succ_prepare; assumption.
Qed.

Lemma insert_context_keeps_pred_order_stmt :
  forall (g : tgraph) (ctx : sval) (next : positive) (t : task), built g -> uids_below next g = true -> In t (nodes g) ->
    pred (exec_prepare g ctx next) (prep_image g ctx next t) = map (prep_image g ctx next) (pred (workflow_of g) t).
Proof. intros g ctx next t B U Ht. apply pred_prepare; [apply built_wf; exact B | exact U | exact Ht]. Qed.

(* ---- the declared meaning --------------------------------------------------------------------------- *)
Lemma declared_eval_is_sequential_evaluation_stmt :
  forall (apply : positive -> list sval -> sval) (ctx : sval) (g : tgraph) (order : list task) (rc : cache task sval)
         (pre post : list task) (t : task),
    declared_eval apply ctx g order = Some rc -> order = pre ++ t :: post ->
    rget rc t = apply (tfun t) (decl_inputs ctx t ++ map (rget rc) (pred g t)) /\ incl (pred g t) pre /\ ~ In t pre.
Proof. intros apply ctx g order rc pre post t. apply declared_eval_equation. Qed.

Lemma execute_is_declared_evaluation_stmt :
  forall (apply : positive -> list sval -> sval) (g : tgraph) (ctx : sval) (next : positive) (ids : task -> positive)
         (o : task) (order : list task) (rc : cache task sval),
    built g -> uids_below next g = true ->
    output_tasks (workflow_of g) = [o] ->
    g_keys_fresh (exec_prepare g ctx next) ids = true ->
    declared_eval apply ctx (workflow_of g) order = Some rc -> (forall t, In t order <-> In t (nodes g)) ->
    execute apply g ctx next ids = ROk (rget rc o).
Proof.
  intros apply g ctx next ids o order rc B U Ho Hf Hr Hcov.
  exact (execute_declared_lemma apply g ctx next B U ids o order rc Ho Hf Hr Hcov).
Qed.

(* ---- optimize.py, queries, +, call_workflow ---------------------------------------------------------- *)
Lemma scatter_preserves_stmt :
  forall (apply : positive -> list sval -> sval) (d : dsk) (k : positive),
    dsk_no_fut d = true -> dask_get_dist_log apply (scatter_dsk d) k = dask_get_log apply d k.
Proof. exact scatter_preserves_lemma. Qed.

Lemma scatter_unpacks_to_original_stmt : forall a, no_fut a = true -> unfut (scatter a) = a.
Proof. exact unfut_scatter. Qed.

Lemma as_dask_dict_has_no_futures_stmt :
  forall (g : tgraph) (ids : task -> positive) (d : dsk),
    as_dask_dict g ids = Some d ->
    (forall t a, In t (nodes g) -> In a (tinputs t) -> no_fut a = true) -> dsk_no_fut d = true.
Proof. exact as_dask_dict_no_fut. Qed.

Lemma output_tasks_exact_stmt :
  forall (g : tgraph),
    output_tasks g = filter (fun t => match succ g t with [] => true | _ => false end) (nodes g) /\
    forall t, In t (output_tasks g) <-> In t (nodes g) /\ succ g t = [].
Proof. exact output_tasks_exact_lemma. Qed.

Lemma input_tasks_exact_stmt :
  forall (g : tgraph),
    input_tasks g = filter (fun t => match pred g t with [] => true | _ => false end) (nodes g) /\
    forall t, In t (input_tasks g) <-> In t (nodes g) /\ pred g t = [].
Proof. exact input_tasks_exact_lemma. Qed.

Lemma plus_exact_stmt :
  forall (g h : tgraph), built g -> built h ->
    nodes (builder_plus g h) = nodes g ++ filter (fun x => negb (tmem x (nodes g))) (nodes h) /\
    (forall u v, In v (succ (builder_plus g h) u) <-> In v (succ g u) \/ In v (succ h u)).
Proof. intros g h Bg Bh. apply (builder_plus_exact_lemma g h (built_wf g Bg) (built_wf h Bh)). Qed.

Lemma get_upstream_tasks_sound_partial_stmt :
  forall (g : tgraph) (t x : task), In x (upstream task task_eqb g t) -> reach g x t.
Proof. exact upstream_sound_lemma. Qed.

Lemma call_workflow_context_exact_stmt :
  forall (g : tgraph) (ctx : sval) (next : positive), built g -> uids_below next g = true ->
    nodes (call_prepare g ctx next) = map (call_image g ctx next) (nodes g) /\
    (forall t, In t (nodes g) ->
       tid (call_image g ctx next t) = tid t /\ tfun (call_image g ctx next t) = tfun t /\
       tctx (call_image g ctx next t) = tctx t /\
       tinputs (call_image g ctx next t) = if tctx t then ctx :: tinputs t else tinputs t) /\
    (forall u v, In u (nodes g) -> In v (nodes g) ->
       (In (call_image g ctx next v) (succ (call_prepare g ctx next) (call_image g ctx next u)) <-> In v (succ g u))) /\
    (forall t, In t (nodes g) ->
       pred (call_prepare g ctx next) (call_image g ctx next t) = map (call_image g ctx next) (pred (workflow_of g) t)).
Proof.
  intros g ctx next B U. pose proof (built_wf g B) as W.
  destruct (call_prepare_spec g ctx next W U) as [N [S P]].
  split; [exact N|]. split; [intros t Ht; apply call_image_fields; exact Ht|]. split; [exact S | exact P].
Qed.

(* ---- dask.optimization.fuse: the rewrites it performs ---------------------------------------------------- *)
Lemma inline_preserves_stmt :
  forall (apply : positive -> list sval -> sval) (d : dsk) (c : positive),
    NoDup (dkeys d) -> length (dask_sched d) = length d -> fuse_step_ok d (FInline c) = true ->
    NoDup (dkeys (fuse_step d (FInline c))) /\
    length (dask_sched (fuse_step d (FInline c))) = length (fuse_step d (FInline c)) /\
    forall r, r <> c -> dask_get apply (fuse_step d (FInline c)) r = dask_get apply d r.
Proof. intros apply d c. apply inline_preserves_value. Qed.

Lemma alias_preserves_stmt :
  forall (apply : positive -> list sval -> sval) (d : dsk) (r a : positive),
    NoDup (dkeys d) -> length (dask_sched d) = length d -> fuse_step_ok d (FAlias r a) = true ->
    NoDup (dkeys (fuse_step d (FAlias r a))) /\
    length (dask_sched (fuse_step d (FAlias r a))) = length (fuse_step d (FAlias r a)) /\
    forall q, q <> a -> dask_get apply (fuse_step d (FAlias r a)) q = dask_get apply d q.
Proof. intros apply d r a. apply alias_preserves_value. Qed.

Lemma fuse_steps_with_renaming_preserve_stmt :
  forall (apply : positive -> list sval -> sval) (r : positive) (steps : list fstep) (d dn : dsk),
    NoDup (dkeys d) -> length (dask_sched d) = length d ->
    avoids r steps = true -> fuse_steps d steps = (dn, true) ->
    NoDup (dkeys dn) /\ length (dask_sched dn) = length dn /\ dask_get apply dn r = dask_get apply d r.
Proof. exact fuse_steps_preserve_value. Qed.

Lemma inline_calls_per_key_stmt :
  forall (apply : positive -> list sval -> sval) (d : dsk) (c : positive) (vc : sval),
    dlookup d c = Some vc -> (forall k v, dlookup d k = Some v -> clean (dkeys d) v = true) ->
    ~ In c (arg_deps (dkeys d) vc) ->
    forall T, dvalid apply d T ->
    exists T', dvalid apply (fuse_step d (FInline c)) T' /\ done positive dval T' = remc c (done positive dval T) /\
      forall k, In k (done positive dval T') ->
        fst (dget T' k) = fst (dget T k) /\
        Permutation (snd (dget T' k)) (snd (dget T k) ++ rep (cnt c (dask_deps d k)) (snd (dget T c))).
Proof.
  intros apply d c vc L Hc Hs T V. rewrite (fuse_step_inline d c vc L). apply inline_trace; assumption.
Qed.

Lemma fuse_steps_preserve_stmt :
  forall (apply : positive -> list sval -> sval) (r : positive) (steps : list fstep) (d dn : dsk),
    NoDup (dkeys d) -> length (dask_sched d) = length d ->
    inline_only steps = true -> avoids r steps = true -> fuse_steps d steps = (dn, true) ->
    NoDup (dkeys dn) /\ length (dask_sched dn) = length dn /\ dask_get apply dn r = dask_get apply d r.
Proof. exact inline_steps_preserve. Qed.

(* ---- optimize.py as a whole ---------------------------------------------------------------------------- *)
Lemma optimize_preserves_stmt :
  forall (apply : positive -> list sval -> sval) (d : dsk) (steps : list fstep) (r : positive),
    NoDup (dkeys d) -> length (dask_sched d) = length d -> dsk_no_fut d = true ->
    inline_only steps = true -> avoids r steps = true -> snd (fuse_steps d steps) = true ->
    dask_get_dist apply (fst (fuse_steps (scatter_dsk d) steps)) r = dask_get apply d r.
Proof. exact optimize_preserves_lemma. Qed.

Lemma optimized_workflow_sound_stmt :
  forall (apply : positive -> list sval -> sval) (g : tgraph) (ids : task -> positive) (d : dsk) (o : task) (steps : list fstep),
    output_tasks g = [o] -> as_dask_dict g ids = Some d -> g_keys_fresh g ids = true ->
    length (topo_order g) = length (nodes g) ->
    (forall t a, In t (nodes g) -> In a (tinputs t) -> no_fut a = true) ->
    inline_only steps = true -> avoids results steps = true -> snd (fuse_steps d steps) = true ->
    exists v, ref_get apply g = ROk v /\ dask_get_dist apply (fst (fuse_steps (scatter_dsk d) steps)) results = ROk v.
Proof. exact optimized_workflow_sound_lemma. Qed.

Lemma unpacking_commutes_with_inlining_stmt :
  forall (steps : list fstep) (d : dsk), dsk_atomic d = true -> inline_only steps = true ->
    unfut_dsk (fst (fuse_steps d steps)) = fst (fuse_steps (unfut_dsk d) steps).
Proof. exact inline_steps_commute. Qed.

(* ---- the calls of a whole run after fusion ----------------------------------------------------------------- *)
Lemma inline_preserves_calls_stmt :
  forall (apply : positive -> list sval -> sval) (d : dsk) (c : positive),
    NoDup (dkeys d) -> length (dask_sched d) = length d -> fuse_step_ok d (FInline c) = true ->
    forall r, r <> c -> In r (dkeys d) ->
      Permutation (snd (dask_get_log apply (fuse_step d (FInline c)) r)) (snd (dask_get_log apply d r)).
Proof. exact inline_preserves_calls. Qed.

Lemma optimize_preserves_calls_stmt :
  forall (apply : positive -> list sval -> sval) (d : dsk) (steps : list fstep) (r : positive),
    NoDup (dkeys d) -> length (dask_sched d) = length d -> dsk_no_fut d = true -> In r (dkeys d) ->
    inline_only steps = true -> avoids r steps = true -> snd (fuse_steps d steps) = true ->
    Permutation (snd (dask_get_dist_log apply (fst (fuse_steps (scatter_dsk d) steps)) r)) (snd (dask_get_log apply d r)).
Proof. exact optimize_preserves_calls_lemma. Qed.
