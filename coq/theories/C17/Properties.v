(* PV.C17.Properties — the property theorems of C17 and nothing else.
   Notation: [dget c k] = (value, calls made) of key k in a scheduler trace c of a dask dict;
   [rget c t] = value of task t in a trace of the sequential reference evaluation;
   [ref_args g c t] = tinputs t ++ map c (pred g t): static inputs, then predecessor results in the
   order of the workflow's predecessor list;  [built g]: g is reachable by WorkflowBuilder operations. *)
From Coq Require Import List Bool PArith Arith Permutation.
From PV Require Import Base.PyData C17.Model C17.ProofsSched C17.ProofsDask C17.ProofsGraph C17.ProofsBuilder C17.Proofs C17.ProofsPrepare C17.ProofsDeclared C17.ProofsOptimize C17.ProofsQueries C17.ProofsFuse C17.ProofsOptimizeAll C17.ProofsFuseCalls C17.ProofsFinal.
Import ListNotations.

(* The sequential reference evaluation IS what the property describes: in any order in which it
   succeeds, every task it ran got apply f (static inputs ++ results of its predecessors, in the
   order of the predecessor list), and all predecessors ran strictly earlier, each task once. *)
Theorem topo_eval_is_sequential_evaluation :
  forall (apply : positive -> list sval -> sval) (g : tgraph) (order : list task) (rc : cache task sval)
         (pre post : list task) (t : task),
    topo_eval apply g order = Some rc -> order = pre ++ t :: post ->
    rget rc t = apply (tfun t) (ref_args g (rget rc) t) /\ incl (pred g t) pre /\ ~ In t pre.
Proof. exact topo_eval_is_sequential_evaluation_stmt. Qed.

(* dask_dict_sound (no static-input guard since /repo d3e6e19).  For every workflow graph with a single
   output task and fresh keys, ANY static inputs (strings equal to keys, callable-headed tuples, nested in
   tuples / lists / dicts: as_dask_dict quotes exactly those with dask.core.literal); for every pure
   meaning of the callables; for EVERY schedule the scheduler can follow on as_dask_dict(g) and every
   order in which the sequential reference evaluation succeeds: every task the two both ran has
   the reference value, and its function was called exactly once, with exactly the reference
   arguments (nothing else was called for that key). *)
Theorem dask_dict_sound :
  forall (apply : positive -> list sval -> sval) (g : tgraph) (ids : task -> positive) (d : dsk) (o : task)
         (order : list task) (rc : cache task sval) (sched : list positive) (dc : cache positive dval) (t : task),
    output_tasks g = [o] -> as_dask_dict g ids = Some d ->
    g_keys_fresh g ids = true ->
    topo_eval apply g order = Some rc -> incl order (nodes g) -> In t order ->
    dask_run apply d sched = Some dc -> In (key_of ids o t) sched ->
    dget dc (key_of ids o t) = (rget rc t, [(tfun t, ref_args g (rget rc) t)]).
Proof. exact dask_dict_sound_stmt. Qed.

(* ... in particular the value at 'results' is the reference value of the output task *)
Theorem dask_results_sound :
  forall (apply : positive -> list sval -> sval) (g : tgraph) (ids : task -> positive) (d : dsk) (o : task)
         (order : list task) (rc : cache task sval) (sched : list positive) (dc : cache positive dval),
    output_tasks g = [o] -> as_dask_dict g ids = Some d ->
    g_keys_fresh g ids = true ->
    topo_eval apply g order = Some rc -> incl order (nodes g) -> In o order ->
    dask_run apply d sched = Some dc -> In results sched ->
    fst (dget dc results) = rget rc o.
Proof. exact dask_results_sound_stmt. Qed.

(* The executable pipeline: on an acyclic graph (the greedy topological order covers all nodes) the
   reference evaluation yields a value, dask.get on the generated dict does not report a cycle and
   returns that same value. *)
Theorem dask_get_sound :
  forall (apply : positive -> list sval -> sval) (g : tgraph) (ids : task -> positive) (d : dsk) (o : task),
    output_tasks g = [o] -> as_dask_dict g ids = Some d ->
    g_keys_fresh g ids = true ->
    length (topo_order g) = length (nodes g) ->
    exists v, ref_get apply g = ROk v /\ dask_get apply d results = ROk v.
Proof. exact dask_get_sound_stmt. Qed.

(* execute_workflow end to end: preparation (task copies, insert_context, Workflow(wb)), as_dask_dict,
   threaded get: the value is the sequential evaluation of the PREPARED workflow. *)
Theorem execute_sound :
  forall (apply : positive -> list sval -> sval) (g : tgraph) (ctx : sval) (next : positive) (ids : task -> positive) (o : task),
    let p := exec_prepare g ctx next in
    output_tasks p = [o] ->
    g_keys_fresh p ids = true ->
    length (topo_order p) = length (nodes p) ->
    exists v, ref_get apply p = ROk v /\ execute apply g ctx next ids = ROk v.
Proof. exact execute_sound_stmt. Qed.

(* exactly_once.  Under the same hypotheses (one output task, fresh keys), any run of the scheduler that covers the dict executes
   every key once (no key twice), and the multiset of ALL calls made is exactly one call per task
   with its reference arguments. *)
Theorem exactly_once :
  forall (apply : positive -> list sval -> sval) (g : tgraph) (ids : task -> positive) (d : dsk) (o : task)
         (order : list task) (rc : cache task sval) (sched : list positive) (dc : cache positive dval),
    output_tasks g = [o] -> as_dask_dict g ids = Some d ->
    g_keys_fresh g ids = true ->
    topo_eval apply g order = Some rc -> (forall t, In t order <-> In t (nodes g)) ->
    dask_run apply d sched = Some dc -> (forall k, In k sched <-> In k (dkeys d)) ->
    NoDup sched /\
    Permutation (call_log dc) (map (fun t => (tfun t, ref_args g (rget rc) t)) (nodes g)).
Proof. exact exactly_once_stmt. Qed.

(* A sequence of keys is a run of the scheduler only if no key occurs twice and every key comes
   after all the keys its computation refers to — for any dict at all. *)
Theorem schedule_runs_each_key_once_after_its_dependencies :
  forall (apply : positive -> list sval -> sval) (d : dsk) (sched : list positive) (c : cache positive dval),
    dask_run apply d sched = Some c ->
    NoDup sched /\ forall pre k post, sched = pre ++ k :: post -> incl (dask_deps d k) pre.
Proof. exact schedule_runs_each_key_once_after_its_dependencies_stmt. Qed.

(* schedule_independent.  Any two schedules of ANY dask dict (no guard) give every key they both
   ran the same value and the same calls: the result does not depend on the thread interleaving. *)
Theorem schedule_independent :
  forall (apply : positive -> list sval -> sval) (d : dsk) (s1 s2 : list positive) (c1 c2 : cache positive dval) (k : positive),
    dask_run apply d s1 = Some c1 -> dask_run apply d s2 = Some c2 -> In k s1 -> In k s2 ->
    dget c1 k = dget c2 k.
Proof. exact schedule_independent_stmt. Qed.

(* ... and any two linear extensions of the task graph give the same reference values *)
Theorem reference_order_independent :
  forall (apply : positive -> list sval -> sval) (g : tgraph) (o1 o2 : list task) (c1 c2 : cache task sval) (t : task),
    topo_eval apply g o1 = Some c1 -> topo_eval apply g o2 = Some c2 -> In t o1 -> In t o2 ->
    rget c1 t = rget c2 t.
Proof. exact reference_order_independent_stmt. Qed.

(* pred_order_is_node_order.  Workflow(builder) has the builder's tasks in the builder's order, the
   same edges, and lists the predecessors of every task in NODE order (whatever order add_task /
   insert_workflow / replace_task put them into the builder's adjacency). *)
Theorem pred_order_is_node_order :
  forall (b : tgraph), built b ->
    nodes (workflow_of b) = nodes b /\
    (forall u, succ (workflow_of b) u = succ b u) /\
    (forall t, pred (workflow_of b) t = filter (fun u => tmem t (succ b u)) (nodes b)).
Proof. exact pred_order_is_node_order_stmt. Qed.

(* the workflow that execute_workflow hands to the dispatcher is of that form too *)
Theorem executed_pred_order_is_node_order :
  forall (g : tgraph) (ctx : sval) (next : positive) (t : task),
    let p := exec_prepare g ctx next in
    pred (workflow_of p) t = filter (fun u => tmem t (succ p u)) (nodes p) /\ nodes (workflow_of p) = nodes p.
Proof. exact executed_pred_order_is_node_order_stmt. Qed.

(* Every graph a WorkflowBuilder can hold is well formed: no duplicate nodes, successor and
   predecessor lists without duplicates, consistent with each other, inside the node list. *)
Theorem builder_graphs_well_formed : forall g, built g -> wfg task g.
Proof. exact builder_graphs_well_formed_stmt. Qed.

(* add_task_exact: exactly the task, its listed predecessors (when missing) and the listed edges are
   added; tasks already present keep their positions. *)
Theorem add_task_exact :
  forall (g : tgraph) (t : task) (ps : list task), built g ->
    (forall x, In x (nodes (add_task g t ps)) <-> In x (nodes g) \/ x = t \/ In x ps) /\
    (forall u v, In v (succ (add_task g t ps) u) <-> In v (succ g u) \/ (In u ps /\ v = t)) /\
    (exists ext, nodes (add_task g t ps) = nodes g ++ ext).
Proof. exact add_task_exact_stmt. Qed.

Theorem add_task_new_goes_last :
  forall (g : tgraph) (t : task) (ps : list task), built g -> ~ In t (nodes g) -> incl ps (nodes g) ->
    nodes (add_task g t ps) = nodes g ++ [t].
Proof. exact add_task_new_goes_last_stmt. Qed.

(* insert_workflow_exact: the result has the tasks and edges of both workflows plus the connecting
   edges [iw_links]: pairwise (n:n), every output to the single input (n:1), the single output to
   every input (1:n); anything else (n:m) is refused with ValueError and adds no connecting edge. *)
Theorem insert_workflow_exact :
  forall (g other : tgraph) (ps : option (list task)), built g -> built other ->
    let r := insert_workflow g other ps in
    match iw_links g other ps with
    | Some links =>
        snd r = true /\
        (forall u v, In v (succ (fst r) u) <-> In v (succ g u) \/ In v (succ other u) \/ In (u, v) links) /\
        (forall x, In x (nodes (fst r)) <-> In x (nodes g) \/ In x (nodes other) \/ exists e, In e links /\ (x = fst e \/ x = snd e))
    | None =>
        snd r = false /\
        (forall u v, In v (succ (fst r) u) <-> In v (succ g u) \/ In v (succ other u)) /\
        (forall x, In x (nodes (fst r)) <-> In x (nodes g) \/ In x (nodes other))
    end.
Proof. exact insert_workflow_exact_stmt. Qed.

Theorem insert_nm_refuses :
  forall (g other : tgraph) (ps : option (list task)),
    length (input_tasks other) <> length (iw_outs g ps) ->
    length (input_tasks other) <> 1 -> length (iw_outs g ps) <> 1 ->
    snd (insert_workflow g other ps) = false.
Proof. exact insert_nm_refuses_stmt. Qed.

(* replace_task_keeps_edges (repaired in /repo 4400919): replacing a task by a new one renames the endpoints
   of its edges and nothing else; the new task takes the POSITION of the old one in the node list, and
   predecessor lists come out in node order. *)
Theorem replace_task_keeps_edges :
  forall (g : tgraph) (t n : task), built g -> ~ In n (nodes g) ->
    nodes (replace_task g t n) = map (ren task task_eqb t n) (nodes g) /\
    (forall u v, In v (succ (replace_task g t n) u) <->
                 exists u0 v0, In v0 (succ g u0) /\ u = ren task task_eqb t n u0 /\ v = ren task task_eqb t n v0) /\
    (forall x, In x (nodes g) ->
       pred (replace_task g t n) (ren task task_eqb t n x) =
       map (ren task task_eqb t n) (filter (fun u => tmem x (succ g u)) (nodes g))).
Proof. exact replace_task_keeps_edges_stmt. Qed.

(* replacing a task that is not there only rebuilds the graph (as Workflow(builder) does) *)
Theorem replace_task_absent : forall (g : tgraph) (t n : task), built g -> ~ In t (nodes g) -> replace_task g t n = workflow_of g.
Proof. exact replace_task_absent_stmt. Qed.


(* exec_prepare_node_order.  The workflow execute_workflow hands to the dispatcher lists the (copies of
   the) tasks in their declared order ([prep_image] = the task standing for t after the copy and the
   context insertion). *)
Theorem exec_prepare_node_order :
  forall (g : tgraph) (ctx : sval) (next : positive), built g -> uids_below next g = true ->
    nodes (exec_prepare g ctx next) = map (prep_image g ctx next) (nodes g).
Proof. exact exec_prepare_node_order_stmt. Qed.

(* insert_context_exact: the prepared workflow has exactly the declared tasks (same name, function;
   the context prepended to the static inputs exactly of the context-taking tasks; different tasks
   stay different) and exactly the declared edges. *)
Theorem exec_prepare_keeps_tasks_and_edges :
  forall (g : tgraph) (ctx : sval) (next : positive), built g -> uids_below next g = true ->
    (forall t, In t (nodes g) ->
       tid (prep_image g ctx next t) = tid t /\ tfun (prep_image g ctx next t) = tfun t /\
       tctx (prep_image g ctx next t) = tctx t /\
       tinputs (prep_image g ctx next t) = if tctx t then ctx :: tinputs t else tinputs t) /\
    (forall t t', In t (nodes g) -> In t' (nodes g) -> prep_image g ctx next t = prep_image g ctx next t' -> t = t') /\
    (forall u v, In u (nodes g) -> In v (nodes g) ->
       (In (prep_image g ctx next v) (succ (exec_prepare g ctx next) (prep_image g ctx next u)) <-> In v (succ g u))).
Proof. exact exec_prepare_keeps_tasks_and_edges_stmt. Qed.

(* insert_context_keeps_pred_order (no guard since /repo 4400919).  The task standing for t gets the
   images of its declared predecessors in exactly the declared order. *)
Theorem insert_context_keeps_pred_order :
  forall (g : tgraph) (ctx : sval) (next : positive) (t : task), built g -> uids_below next g = true -> In t (nodes g) ->
    pred (exec_prepare g ctx next) (prep_image g ctx next t) = map (prep_image g ctx next) (pred (workflow_of g) t).
Proof. exact insert_context_keeps_pred_order_stmt. Qed.

(* The DECLARED meaning of executing a workflow with a context (Model.declared_eval): the workflow's own
   tasks in any order in which it succeeds; every task gets apply f ((the context when its function
   asks for it) ++ static inputs ++ results of its predecessors in the order of its predecessor list),
   after all its predecessors, once. *)
Theorem declared_eval_is_sequential_evaluation :
  forall (apply : positive -> list sval -> sval) (ctx : sval) (g : tgraph) (order : list task) (rc : cache task sval)
         (pre post : list task) (t : task),
    declared_eval apply ctx g order = Some rc -> order = pre ++ t :: post ->
    rget rc t = apply (tfun t) (decl_inputs ctx t ++ map (rget rc) (pred g t)) /\ incl (pred g t) pre /\ ~ In t pre.
Proof. exact declared_eval_is_sequential_evaluation_stmt. Qed.

(* THE PROPERTY, end to end.  For every workflow a builder can make, every context, every pure meaning
   of the callables, every static input: if the workflow has one output task and the uuid keys are fresh,
   then execute_workflow (copies, insert_context, Workflow, as_dask_dict with its quoting, threaded get
   with the deterministic schedule - and by schedule_independent with any schedule) returns the value
   the DECLARED evaluation gives the output task, for any complete order in which the declared
   evaluation succeeds.  (Former guards: g_ctx_order - repaired in 4400919; g_static_nokey and
   g_static_nocall - repaired in d3e6e19.) *)
Theorem execute_is_declared_evaluation :
  forall (apply : positive -> list sval -> sval) (g : tgraph) (ctx : sval) (next : positive) (ids : task -> positive)
         (o : task) (order : list task) (rc : cache task sval),
    built g -> uids_below next g = true ->
    output_tasks (workflow_of g) = [o] ->
    g_keys_fresh (exec_prepare g ctx next) ids = true ->
    declared_eval apply ctx (workflow_of g) order = Some rc -> (forall t, In t order <-> In t (nodes g)) ->
    execute apply g ctx next ids = ROk (rget rc o).
Proof. exact execute_is_declared_evaluation_stmt. Qed.

(* ---- dispatchers/local_dask/optimize.py ------------------------------------------------------------- *)
(* scatter_preserves.  _scatter_computation replaces objects (not numbers, strings, dicts, callables) inside
   task arguments, tuples and lists by futures; for EVERY dict without futures and every key, the distributed
   scheduler (which hands the tasks the data of the futures) computes on the scattered dict exactly what the
   local scheduler computes on the original: same value or cycle error, same calls. *)
Theorem scatter_preserves :
  forall (apply : positive -> list sval -> sval) (d : dsk) (k : positive),
    dsk_no_fut d = true -> dask_get_dist_log apply (scatter_dsk d) k = dask_get_log apply d k.
Proof. exact scatter_preserves_stmt. Qed.

Theorem scatter_unpacks_to_original : forall a, no_fut a = true -> unfut (scatter a) = a.
Proof. exact scatter_unpacks_to_original_stmt. Qed.

(* ... and as_dask_dict (with its quoting) makes such a dict from any static input without futures *)
Theorem as_dask_dict_has_no_futures :
  forall (g : tgraph) (ids : task -> positive) (d : dsk),
    as_dask_dict g ids = Some d ->
    (forall t a, In t (nodes g) -> In a (tinputs t) -> no_fut a = true) -> dsk_no_fut d = true.
Proof. exact as_dask_dict_has_no_futures_stmt. Qed.
(* (dask.optimization.fuse is an engine: WHICH steps it takes is read off every real optimized dict and re-applied
   inside Coq by the check - tag 10; THAT such steps preserve the result is proved below: inline_preserves,
   alias_preserves, fuse_steps_preserve.) *)

(* ---- queries and + ------------------------------------------------------------------------------------ *)
(* output_tasks / input_tasks: exactly the tasks without successors / predecessors, in node order *)
Theorem output_tasks_exact :
  forall (g : tgraph),
    output_tasks g = filter (fun t => match succ g t with [] => true | _ => false end) (nodes g) /\
    forall t, In t (output_tasks g) <-> In t (nodes g) /\ succ g t = [].
Proof. exact output_tasks_exact_stmt. Qed.

Theorem input_tasks_exact :
  forall (g : tgraph),
    input_tasks g = filter (fun t => match pred g t with [] => true | _ => false end) (nodes g) /\
    forall t, In t (input_tasks g) <-> In t (nodes g) /\ pred g t = [].
Proof. exact input_tasks_exact_stmt. Qed.

(* WorkflowBuilder.__add__ / Workflow.__add__ (nx.compose): the tasks of the left operand in their order, then
   the new tasks of the right one in theirs; exactly the union of the edges *)
Theorem plus_exact :
  forall (g h : tgraph), built g -> built h ->
    nodes (builder_plus g h) = nodes g ++ filter (fun x => negb (tmem x (nodes g))) (nodes h) /\
    (forall u v, In v (succ (builder_plus g h) u) <-> In v (succ g u) \/ In v (succ h u)).
Proof. exact plus_exact_stmt. Qed.

(* get_upstream_tasks (nx.edge_dfs, orientation='reverse'), PARTIAL: everything it lists is a strict ancestor
   (a predecessor of a predecessor ... of t).  Missing: that every strict ancestor is listed - checked per case
   against the saturation [ancestors] by oracle tag 20, not proved. *)
Theorem get_upstream_tasks_sound_partial :
  forall (g : tgraph) (t x : task), In x (upstream task task_eqb g t) -> reach g x t.
Proof. exact get_upstream_tasks_sound_partial_stmt. Qed.

(* ---- call_workflow (a task that runs a workflow of its own) --------------------------------------------- *)
(* call_workflow_context_exact.  The workflow call_workflow(wf, name, ctx) hands to the scheduler has the
   tasks of wf in their order (as [call_image]s: same name and function), every task whose function asks for a
   context gets THIS ctx prepended to its static input exactly once, no other task gets it; exactly the
   declared edges; predecessors in the declared order.  With dask_dict_sound / exactly_once (any workflow
   graph): each of those functions is called once, with ctx first. *)
Theorem call_workflow_context_exact :
  forall (g : tgraph) (ctx : sval) (next : positive), built g -> uids_below next g = true ->
    nodes (call_prepare g ctx next) = map (call_image g ctx next) (nodes g) /\
    (forall t, In t (nodes g) ->
       tid (call_image g ctx next t) = tid t /\ tfun (call_image g ctx next t) = tfun t /\
       tctx (call_image g ctx next t) = tctx t /\
       tinputs (call_image g ctx next t) = if tctx t then ctx :: tinputs t else tinputs t) /\
    (forall u v, In u (nodes g) -> In v (nodes g) ->
       (In (call_image g ctx next v) (succ (call_prepare g ctx next) (call_image g ctx next u)) <-> In v (succ g u))) /\
    (forall t, In t (nodes g) ->
       pred (call_prepare g ctx next) (call_image g ctx next t) = map (call_image g ctx next) (pred (workflow_of g) t)).
Proof. exact call_workflow_context_exact_stmt. Qed.

(* ---- the rewrites of dask.optimization.fuse ------------------------------------------------------------- *)
(* inline_preserves.  For EVERY duplicate-free acyclic dict (any values), every key c whose task is referred to
   exactly once in the whole graph (all values clean: no key string hidden in a non-task tuple, where
   dask.core.subs would not look), substituting the task of c into its dependent and deleting c gives again a
   duplicate-free acyclic dict in which dask.get returns for EVERY other key what it returned before. *)
Theorem inline_preserves :
  forall (apply : positive -> list sval -> sval) (d : dsk) (c : positive),
    NoDup (dkeys d) -> length (dask_sched d) = length d -> fuse_step_ok d (FInline c) = true ->
    NoDup (dkeys (fuse_step d (FInline c))) /\
    length (dask_sched (fuse_step d (FInline c))) = length (fuse_step d (FInline c)) /\
    forall r, r <> c -> dask_get apply (fuse_step d (FInline c)) r = dask_get apply d r.
Proof. exact inline_preserves_stmt. Qed.

(* ... and the calls: every valid trace of d, with c left out, is a valid trace of the rewritten dict with the
   same values, where a key makes its old calls plus the calls of c once per reference it had to c (exactly one
   reference exists in the graph when the step is legal).  The statement about the multiset of ALL calls of a
   whole run is not derived from this here; the check evaluates it per case (tag 19). *)
Theorem inline_calls_per_key :
  forall (apply : positive -> list sval -> sval) (d : dsk) (c : positive) (vc : sval),
    dlookup d c = Some vc -> (forall k v, dlookup d k = Some v -> clean (dkeys d) v = true) ->
    ~ In c (arg_deps (dkeys d) vc) ->
    forall T, dvalid apply d T ->
    exists T', dvalid apply (fuse_step d (FInline c)) T' /\ done positive dval T' = remc c (done positive dval T) /\
      forall k, In k (done positive dval T') ->
        fst (dget T' k) = fst (dget T k) /\
        Permutation (snd (dget T' k)) (snd (dget T k) ++ rep (cnt c (dask_deps d k)) (snd (dget T c))).
Proof. exact inline_calls_per_key_stmt. Qed.

(* alias_preserves.  Storing the task of r under a new key a that no value mentions where the scheduler reads
   strings, and making r the alias of a, changes no value of any key other than a. *)
Theorem alias_preserves :
  forall (apply : positive -> list sval -> sval) (d : dsk) (r a : positive),
    NoDup (dkeys d) -> length (dask_sched d) = length d -> fuse_step_ok d (FAlias r a) = true ->
    NoDup (dkeys (fuse_step d (FAlias r a))) /\
    length (dask_sched (fuse_step d (FAlias r a))) = length (fuse_step d (FAlias r a)) /\
    forall q, q <> a -> dask_get apply (fuse_step d (FAlias r a)) q = dask_get apply d q.
Proof. exact alias_preserves_stmt. Qed.

(* fuse_steps_with_renaming_preserve (the engine in general; pharmpy no longer lets fuse rename, /repo c89db96).
   ANY sequence of legal inline / alias steps on ANY duplicate-free acyclic dict: the key
   r (e.g. 'results'), provided no step removes it or introduces it as an alias, keeps its dask.get value; the
   final dict is duplicate free and acyclic.  This is what the tie re-applies step by step (tag 10). *)
Theorem fuse_steps_with_renaming_preserve :
  forall (apply : positive -> list sval -> sval) (r : positive) (steps : list fstep) (d dn : dsk),
    NoDup (dkeys d) -> length (dask_sched d) = length d ->
    avoids r steps = true -> fuse_steps d steps = (dn, true) ->
    NoDup (dkeys dn) /\ length (dask_sched dn) = length dn /\ dask_get apply dn r = dask_get apply d r.
Proof. exact fuse_steps_with_renaming_preserve_stmt. Qed.

(* fuse_steps_preserve (no alias guard since /repo c89db96: optimize.py calls fuse(rename_keys=False)).  ANY sequence
   of legal inline steps on ANY duplicate-free acyclic dict: the key r (e.g. 'results'), provided no step removes
   it, keeps its dask.get value; the final dict is duplicate free and acyclic.  This is what the tie re-applies step
   by step on every real optimized dict (tag 10, which also checks that no alias step occurs). *)
Theorem fuse_steps_preserve :
  forall (apply : positive -> list sval -> sval) (r : positive) (steps : list fstep) (d dn : dsk),
    NoDup (dkeys d) -> length (dask_sched d) = length d ->
    inline_only steps = true -> avoids r steps = true -> fuse_steps d steps = (dn, true) ->
    NoDup (dkeys dn) /\ length (dask_sched dn) = length dn /\ dask_get apply dn r = dask_get apply d r.
Proof. exact fuse_steps_preserve_stmt. Qed.

(* ---- optimize_task_graph_for_dask_distributed as a whole ------------------------------------------------ *)
(* unpacking the futures (what the distributed scheduler does before it runs a task) commutes with any sequence of
   inline steps, on every dict whose futures wrap atoms only (what _scatter_value makes) *)
Theorem unpacking_commutes_with_inlining :
  forall (steps : list fstep) (d : dsk), dsk_atomic d = true -> inline_only steps = true ->
    unfut_dsk (fst (fuse_steps d steps)) = fst (fuse_steps (unfut_dsk d) steps).
Proof. exact unpacking_commutes_with_inlining_stmt. Qed.

(* optimize_preserves.  For EVERY duplicate-free acyclic dict without futures, every sequence of inline steps that is
   legal on it (what fuse(rename_keys=False) does) and every key r no step removes: what the distributed scheduler
   returns for r on the dict that was first scattered and then inlined = what the local scheduler returns for r on
   the original dict (value or error). *)
Theorem optimize_preserves :
  forall (apply : positive -> list sval -> sval) (d : dsk) (steps : list fstep) (r : positive),
    NoDup (dkeys d) -> length (dask_sched d) = length d -> dsk_no_fut d = true ->
    inline_only steps = true -> avoids r steps = true -> snd (fuse_steps d steps) = true ->
    dask_get_dist apply (fst (fuse_steps (scatter_dsk d) steps)) r = dask_get apply d r.
Proof. exact optimize_preserves_stmt. Qed.

(* ... composed with dask_get_sound: for every acyclic single-output workflow graph with fresh keys and ANY
   future-free static input, the optimized dict evaluates at 'results' to the sequential reference evaluation. *)
Theorem optimized_workflow_sound :
  forall (apply : positive -> list sval -> sval) (g : tgraph) (ids : task -> positive) (d : dsk) (o : task) (steps : list fstep),
    output_tasks g = [o] -> as_dask_dict g ids = Some d -> g_keys_fresh g ids = true ->
    length (topo_order g) = length (nodes g) ->
    (forall t a, In t (nodes g) -> In a (tinputs t) -> no_fut a = true) ->
    inline_only steps = true -> avoids results steps = true -> snd (fuse_steps d steps) = true ->
    exists v, ref_get apply g = ROk v /\ dask_get_dist apply (fst (fuse_steps (scatter_dsk d) steps)) results = ROk v.
Proof. exact optimized_workflow_sound_stmt. Qed.

(* ---- exactly-once through the graph optimisation ------------------------------------------------------------ *)
(* inline_preserves_calls.  For every duplicate-free acyclic dict and every legal inline step: the run that answers
   a surviving key r makes, as a multiset, exactly the calls the run on the original dict makes (the inlined task
   is evaluated once, inside its only dependent). *)
Theorem inline_preserves_calls :
  forall (apply : positive -> list sval -> sval) (d : dsk) (c : positive),
    NoDup (dkeys d) -> length (dask_sched d) = length d -> fuse_step_ok d (FInline c) = true ->
    forall r, r <> c -> In r (dkeys d) ->
      Permutation (snd (dask_get_log apply (fuse_step d (FInline c)) r)) (snd (dask_get_log apply d r)).
Proof. exact inline_preserves_calls_stmt. Qed.

(* optimize_preserves_calls.  The whole of optimize_task_graph_for_dask_distributed (scatter, then any legal
   sequence of inline steps): the distributed scheduler makes on the optimized dict exactly the multiset of calls
   the local scheduler makes on the original dict - with exactly_once: every task function once, with its
   reference arguments, nothing else. *)
Theorem optimize_preserves_calls :
  forall (apply : positive -> list sval -> sval) (d : dsk) (steps : list fstep) (r : positive),
    NoDup (dkeys d) -> length (dask_sched d) = length d -> dsk_no_fut d = true -> In r (dkeys d) ->
    inline_only steps = true -> avoids r steps = true -> snd (fuse_steps d steps) = true ->
    Permutation (snd (dask_get_dist_log apply (fst (fuse_steps (scatter_dsk d) steps)) r)) (snd (dask_get_log apply d r)).
Proof. exact optimize_preserves_calls_stmt. Qed.
