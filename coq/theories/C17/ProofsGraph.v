(* PV.C17.ProofsGraph — the ordered digraph of Model.v: well-formedness is preserved by every
   primitive, node list / edge relation / adjacency order of add_node, add_edge, remove_node,
   add_nodes, add_edges, copy, compose, relabel1. *)
From Coq Require Import List Bool PArith Arith Lia.
From PV Require Import Base.PyData C17.Model.
Import ListNotations.
Local Open Scope nat_scope.

Section GraphProofs.
  Variable A : Type.
  Variable eqb : A -> A -> bool.
  Hypothesis eqb_spec : forall a b, eqb a b = true <-> a = b.

  Notation graph := (graph A).
  Notation mem := (mem A eqb).
  Notation snoc_new := (snoc_new A eqb).
  Notation del := (del A eqb).
  Notation add_node := (add_node A eqb).
  Notation add_edge := (add_edge A eqb).
  Notation remove_node := (remove_node A eqb).
  Notation add_nodes := (add_nodes A eqb).
  Notation add_edges := (add_edges A eqb).
  Notation has_node := (has_node A eqb).
  Notation edges := (edges A).
  Notation copy := (copy A eqb).
  Notation compose := (compose A eqb).
  Notation relabel1 := (relabel1 A eqb).

  Lemma eqb_refl a : eqb a a = true.
  Proof. apply eqb_spec. reflexivity. Qed.
  Lemma eqb_neq a b : eqb a b = false <-> a <> b.
  Proof.
    split.
    - intros H E. apply eqb_spec in E. congruence.
    - intros H. destruct (eqb a b) eqn:E; [apply eqb_spec in E; contradiction | reflexivity].
  Qed.
  Lemma eqb_sym a b : eqb a b = eqb b a.
  Proof.
    destruct (eqb a b) eqn:E1, (eqb b a) eqn:E2; try reflexivity.
    - apply eqb_spec in E1. subst. rewrite eqb_refl in E2. discriminate.
    - apply eqb_spec in E2. subst. rewrite eqb_refl in E1. discriminate.
  Qed.

  Lemma mem_In x l : mem x l = true <-> In x l.
  Proof.
    unfold Model.mem. rewrite existsb_exists. split.
    - intros [y [Hy E]]. apply eqb_spec in E. subst. exact Hy.
    - intros H. exists x. split; [exact H | apply eqb_refl].
  Qed.
  Lemma mem_false x l : mem x l = false <-> ~ In x l.
  Proof.
    split.
    - intros H HI. apply mem_In in HI. congruence.
    - intros H. destruct (mem x l) eqn:E; [apply mem_In in E; contradiction | reflexivity].
  Qed.

  Lemma In_snoc_new x l y : In x (snoc_new l y) <-> In x l \/ x = y.
  Proof.
    unfold Model.snoc_new. destruct (mem y l) eqn:E.
    - apply mem_In in E. split; [tauto|]. intros [H|H]; [exact H | subst; exact E].
    - rewrite in_app_iff. cbn. split; intros [H|H]; auto. destruct H as [H|[]]. auto.
  Qed.
  Lemma NoDup_snoc (l : list A) x : NoDup l -> ~ In x l -> NoDup (l ++ [x]).
  Proof.
    induction l as [|y tl IH]; cbn [app]; intros Hn Hx.
    - constructor; [intros []|constructor].
    - inversion Hn as [|? ? Hy Htl]; subst. constructor.
      + intro Hi. apply in_app_or in Hi. destruct Hi as [Hi|[Hi|[]]]; [contradiction|].
        subst. apply Hx. left. reflexivity.
      + apply IH; [exact Htl|]. intro Hi. apply Hx. right. exact Hi.
  Qed.
  Lemma NoDup_snoc_new l y : NoDup l -> NoDup (snoc_new l y).
  Proof.
    intros H. unfold Model.snoc_new. destruct (mem y l) eqn:E; [exact H|].
    apply NoDup_snoc; [exact H | apply mem_false; exact E].
  Qed.
  Lemma In_del x y l : In x (del y l) <-> In x l /\ x <> y.
  Proof.
    unfold Model.del. rewrite filter_In, negb_true_iff, eqb_neq. split; intros [H1 H2]; split; auto.
  Qed.
  Lemma NoDup_del y l : NoDup l -> NoDup (del y l).
  Proof. apply NoDup_filter. Qed.
  Lemma del_notin y l : ~ In y l -> del y l = l.
  Proof.
    induction l as [|x tl IH]; intros H; [reflexivity|]. cbn [Model.del filter].
    destruct (eqb y x) eqn:E.
    - apply eqb_spec in E. subst. exfalso. apply H. left. reflexivity.
    - cbn [negb]. f_equal. apply IH. intro Hi. apply H. right. exact Hi.
  Qed.

  (* ---- well-formed graphs ---------------------------------------------------------------------- *)
  Record wfg (g : graph) : Prop := mkWf {
    wf_nodup : NoDup (nodes g);
    wf_succ_in : forall u v, In v (succ g u) -> In u (nodes g) /\ In v (nodes g);
    wf_pred_iff : forall u v, In u (pred g v) <-> In v (succ g u);
    wf_succ_nodup : forall u, NoDup (succ g u);
    wf_pred_nodup : forall v, NoDup (pred g v)
  }.

  Lemma wfg_empty : wfg g_empty.
  Proof. constructor; cbn; try tauto; intros; constructor. Qed.

  Lemma succ_outside g u : wfg g -> ~ In u (nodes g) -> succ g u = [].
  Proof.
    intros W H. destruct (succ g u) as [|v tl] eqn:E; [reflexivity|].
    exfalso. apply H. apply (wf_succ_in g W u v). rewrite E. left. reflexivity.
  Qed.
  Lemma pred_outside g v : wfg g -> ~ In v (nodes g) -> pred g v = [].
  Proof.
    intros W H. destruct (pred g v) as [|u tl] eqn:E; [reflexivity|].
    exfalso. apply H. assert (Hu : In u (pred g v)) by (rewrite E; left; reflexivity).
    apply (wf_pred_iff g W) in Hu. apply (wf_succ_in g W u v). exact Hu.
  Qed.
  Lemma pred_in g u v : wfg g -> In u (pred g v) -> In u (nodes g) /\ In v (nodes g).
  Proof. intros W H. apply (wf_pred_iff g W) in H. apply (wf_succ_in g W). exact H. Qed.

  (* ---- add_node ---------------------------------------------------------------------------------- *)
  Lemma has_node_In g n : has_node g n = true <-> In n (nodes g).
  Proof. apply mem_In. Qed.

  Lemma nodes_add_node g n : nodes (add_node g n) = if has_node g n then nodes g else nodes g ++ [n].
  Proof. unfold Model.add_node. destruct (has_node g n); reflexivity. Qed.

  Lemma In_nodes_add_node g n x : In x (nodes (add_node g n)) <-> In x (nodes g) \/ x = n.
  Proof.
    rewrite nodes_add_node. destruct (has_node g n) eqn:E.
    - apply has_node_In in E. split; [tauto|]. intros [H|H]; [exact H|subst; exact E].
    - rewrite in_app_iff. cbn. split; intros [H|H]; auto. destruct H as [H|[]]; auto.
  Qed.

  Lemma succ_add_node g n x : wfg g -> succ (add_node g n) x = succ g x.
  Proof.
    intros W. unfold Model.add_node. destruct (has_node g n) eqn:E; [reflexivity|]. cbn [succ].
    destruct (eqb x n) eqn:E2; [|reflexivity]. apply eqb_spec in E2. subst.
    symmetry. apply succ_outside; [exact W|]. intro H. apply has_node_In in H. congruence.
  Qed.
  Lemma pred_add_node g n x : wfg g -> pred (add_node g n) x = pred g x.
  Proof.
    intros W. unfold Model.add_node. destruct (has_node g n) eqn:E; [reflexivity|]. cbn [pred].
    destruct (eqb x n) eqn:E2; [|reflexivity]. apply eqb_spec in E2. subst.
    symmetry. apply pred_outside; [exact W|]. intro H. apply has_node_In in H. congruence.
  Qed.

  Lemma wfg_add_node g n : wfg g -> wfg (add_node g n).
  Proof.
    intros W. constructor.
    - rewrite nodes_add_node. destruct (has_node g n) eqn:E; [apply (wf_nodup g W)|].
      apply NoDup_snoc; [apply (wf_nodup g W)|]. intro H. apply has_node_In in H. congruence.
    - intros u v. rewrite succ_add_node by exact W. intros H. rewrite !In_nodes_add_node.
      destruct (wf_succ_in g W u v H). tauto.
    - intros u v. rewrite succ_add_node, pred_add_node by exact W. apply (wf_pred_iff g W).
    - intros u. rewrite succ_add_node by exact W. apply (wf_succ_nodup g W).
    - intros v. rewrite pred_add_node by exact W. apply (wf_pred_nodup g W).
  Qed.

  (* ---- add_edge ---------------------------------------------------------------------------------- *)
  Lemma nodes_add_edge g u v : nodes (add_edge g u v) = nodes (add_node (add_node g u) v).
  Proof. reflexivity. Qed.

  Lemma In_nodes_add_edge g u v x : In x (nodes (add_edge g u v)) <-> In x (nodes g) \/ x = u \/ x = v.
  Proof. rewrite nodes_add_edge, !In_nodes_add_node. tauto. Qed.

  Lemma succ_add_edge g u v x : wfg g ->
    succ (add_edge g u v) x = if eqb x u then snoc_new (succ g u) v else succ g x.
  Proof.
    intros W. unfold Model.add_edge. cbn [succ].
    rewrite !succ_add_node by (try apply wfg_add_node; exact W). reflexivity.
  Qed.
  Lemma pred_add_edge g u v x : wfg g ->
    pred (add_edge g u v) x = if eqb x v then snoc_new (pred g v) u else pred g x.
  Proof.
    intros W. unfold Model.add_edge. cbn [pred].
    rewrite !pred_add_node by (try apply wfg_add_node; exact W). reflexivity.
  Qed.

  Lemma In_succ_add_edge g u v x y : wfg g ->
    In y (succ (add_edge g u v) x) <-> In y (succ g x) \/ (x = u /\ y = v).
  Proof.
    intros W. rewrite succ_add_edge by exact W. destruct (eqb x u) eqn:E.
    - apply eqb_spec in E. subst. rewrite In_snoc_new. tauto.
    - apply eqb_neq in E. tauto.
  Qed.
  Lemma In_pred_add_edge g u v x y : wfg g ->
    In y (pred (add_edge g u v) x) <-> In y (pred g x) \/ (x = v /\ y = u).
  Proof.
    intros W. rewrite pred_add_edge by exact W. destruct (eqb x v) eqn:E.
    - apply eqb_spec in E. subst. rewrite In_snoc_new. tauto.
    - apply eqb_neq in E. tauto.
  Qed.

  Lemma wfg_add_edge g u v : wfg g -> wfg (add_edge g u v).
  Proof.
    intros W. constructor.
    - rewrite nodes_add_edge. apply (wf_nodup _ (wfg_add_node _ v (wfg_add_node _ u W))).
    - intros x y H. apply In_succ_add_edge in H; [|exact W]. rewrite !In_nodes_add_edge.
      destruct H as [H|[H1 H2]]; [destruct (wf_succ_in g W x y H); tauto | subst; tauto].
    - intros x y. rewrite In_succ_add_edge, In_pred_add_edge by exact W.
      rewrite (wf_pred_iff g W). tauto.
    - intros x. rewrite succ_add_edge by exact W. destruct (eqb x u);
        [apply NoDup_snoc_new|]; apply (wf_succ_nodup g W).
    - intros x. rewrite pred_add_edge by exact W. destruct (eqb x v);
        [apply NoDup_snoc_new|]; apply (wf_pred_nodup g W).
  Qed.

  (* both endpoints present: the node list does not change *)
  Lemma nodes_add_edge_in g u v : In u (nodes g) -> In v (nodes g) -> nodes (add_edge g u v) = nodes g.
  Proof.
    intros Hu Hv. rewrite nodes_add_edge.
    assert (E1 : add_node g u = g).
    { unfold Model.add_node. rewrite (proj2 (has_node_In g u) Hu). reflexivity. }
    rewrite E1. unfold Model.add_node. rewrite (proj2 (has_node_In g v) Hv). reflexivity.
  Qed.

  (* the old nodes keep their positions *)
  Lemma nodes_add_node_prefix g n : exists ext, nodes (add_node g n) = nodes g ++ ext.
  Proof. rewrite nodes_add_node. destruct (has_node g n); [exists []; rewrite app_nil_r|exists [n]]; reflexivity. Qed.
  Lemma nodes_add_edge_prefix g u v : exists ext, nodes (add_edge g u v) = nodes g ++ ext.
  Proof.
    rewrite nodes_add_edge. destruct (nodes_add_node_prefix (add_node g u) v) as [e2 E2].
    destruct (nodes_add_node_prefix g u) as [e1 E1]. exists (e1 ++ e2). rewrite E2, E1, app_assoc. reflexivity.
  Qed.

  (* ---- remove_node ------------------------------------------------------------------------------- *)
  Lemma In_succ_remove g n x y : In y (succ (remove_node g n) x) <-> In y (succ g x) /\ x <> n /\ y <> n.
  Proof.
    unfold Model.remove_node. cbn [succ]. destruct (eqb x n) eqn:E.
    - apply eqb_spec in E. subst. cbn. tauto.
    - apply eqb_neq in E. rewrite In_del. tauto.
  Qed.
  Lemma In_pred_remove g n x y : In y (pred (remove_node g n) x) <-> In y (pred g x) /\ x <> n /\ y <> n.
  Proof.
    unfold Model.remove_node. cbn [pred]. destruct (eqb x n) eqn:E.
    - apply eqb_spec in E. subst. cbn. tauto.
    - apply eqb_neq in E. rewrite In_del. tauto.
  Qed.
  Lemma nodes_remove g n : nodes (remove_node g n) = del n (nodes g).
  Proof. reflexivity. Qed.

  Lemma wfg_remove_node g n : wfg g -> wfg (remove_node g n).
  Proof.
    intros W. constructor.
    - rewrite nodes_remove. apply NoDup_del. apply (wf_nodup g W).
    - intros x y H. apply In_succ_remove in H. destruct H as [H [H1 H2]]. rewrite nodes_remove, !In_del.
      destruct (wf_succ_in g W x y H). tauto.
    - intros x y. rewrite In_succ_remove, In_pred_remove, (wf_pred_iff g W). tauto.
    - intros x. unfold Model.remove_node. cbn [succ]. destruct (eqb x n); [constructor|].
      apply NoDup_del. apply (wf_succ_nodup g W).
    - intros x. unfold Model.remove_node. cbn [pred]. destruct (eqb x n); [constructor|].
      apply NoDup_del. apply (wf_pred_nodup g W).
  Qed.

  (* ---- add_nodes / add_edges --------------------------------------------------------------------- *)
  Lemma wfg_add_nodes l : forall g, wfg g -> wfg (add_nodes g l).
  Proof.
    induction l as [|x tl IH]; intros g W; [exact W|]. cbn [Model.add_nodes fold_left].
    apply IH. apply wfg_add_node. exact W.
  Qed.
  Lemma wfg_add_edges l : forall g, wfg g -> wfg (add_edges g l).
  Proof.
    induction l as [|x tl IH]; intros g W; [exact W|]. cbn [Model.add_edges fold_left].
    apply IH. apply wfg_add_edge. exact W.
  Qed.

  Lemma succ_add_nodes l : forall g x, wfg g -> succ (add_nodes g l) x = succ g x.
  Proof.
    induction l as [|y tl IH]; intros g x W; [reflexivity|]. cbn [Model.add_nodes fold_left].
    fold (add_nodes (add_node g y) tl). rewrite IH by (apply wfg_add_node; exact W). apply succ_add_node. exact W.
  Qed.
  Lemma pred_add_nodes l : forall g x, wfg g -> pred (add_nodes g l) x = pred g x.
  Proof.
    induction l as [|y tl IH]; intros g x W; [reflexivity|]. cbn [Model.add_nodes fold_left].
    fold (add_nodes (add_node g y) tl). rewrite IH by (apply wfg_add_node; exact W). apply pred_add_node. exact W.
  Qed.

  Definition fresh_of (g : graph) (l : list A) : list A := filter (fun x => negb (has_node g x)) l.

  Lemma nodes_add_nodes l : forall g, NoDup l -> nodes (add_nodes g l) = nodes g ++ fresh_of g l.
  Proof.
    induction l as [|x tl IH]; intros g Hn; cbn [Model.add_nodes fold_left fresh_of filter].
    - rewrite app_nil_r. reflexivity.
    - inversion Hn as [|? ? Hx Htl]; subst. fold (add_nodes (add_node g x) tl). rewrite IH by exact Htl.
      rewrite nodes_add_node. destruct (has_node g x) eqn:E; cbn [negb].
      + f_equal. unfold fresh_of. apply filter_ext_in. intros y Hy. unfold Model.add_node. rewrite E. reflexivity.
      + rewrite <- app_assoc. cbn [app]. f_equal. f_equal. unfold fresh_of. apply filter_ext_in. intros y Hy.
        unfold Model.has_node. rewrite nodes_add_node, E.
        assert (Eq : mem y (nodes g ++ [x]) = mem y (nodes g)).
        { destruct (mem y (nodes g)) eqn:M.
          - apply mem_In. apply in_or_app. left. apply mem_In. exact M.
          - apply mem_false. intro Hi. apply in_app_or in Hi. destruct Hi as [Hi|[Hi|[]]].
            + apply mem_In in Hi. congruence.
            + subst. contradiction. }
        unfold Model.has_node in Eq. rewrite Eq. reflexivity.
  Qed.

  Lemma In_nodes_add_nodes l : forall g x, In x (nodes (add_nodes g l)) <-> In x (nodes g) \/ In x l.
  Proof.
    induction l as [|y tl IH]; intros g x; cbn [Model.add_nodes fold_left].
    - cbn. tauto.
    - fold (add_nodes (add_node g y) tl). rewrite IH, In_nodes_add_node. cbn [In]. split.
      + intros [[H|H]|H]; [left; exact H | right; left; symmetry; exact H | right; right; exact H].
      + intros [H|[H|H]]; [left; left; exact H | left; right; symmetry; exact H | right; exact H].
  Qed.

  Lemma In_succ_add_edges l : forall g x y, wfg g ->
    In y (succ (add_edges g l) x) <-> In y (succ g x) \/ In (x, y) l.
  Proof.
    induction l as [|[u v] tl IH]; intros g x y W; cbn [Model.add_edges fold_left fst snd].
    - cbn. tauto.
    - fold (add_edges (add_edge g u v) tl). rewrite IH by (apply wfg_add_edge; exact W).
      rewrite In_succ_add_edge by exact W. cbn [In]. split.
      + intros [[H|[H1 H2]]|H]; auto. subst. auto.
      + intros [H|[H|H]]; auto. inversion H. subst. auto.
  Qed.

  Lemma In_nodes_add_edges l : forall g x,
    In x (nodes (add_edges g l)) <-> In x (nodes g) \/ exists e, In e l /\ (x = fst e \/ x = snd e).
  Proof.
    induction l as [|[u v] tl IH]; intros g x; cbn [Model.add_edges fold_left fst snd].
    - split; [auto|]. intros [H|[e [[] _]]]. exact H.
    - fold (add_edges (add_edge g u v) tl). rewrite IH, In_nodes_add_edge. split.
      + intros [[H|[H|H]]|[e [He Hx]]]; auto.
        * right. exists (u, v). split; [left; reflexivity | left; exact H].
        * right. exists (u, v). split; [left; reflexivity | right; exact H].
        * right. exists e. split; [right; exact He | exact Hx].
      + intros [H|[e [[He|He] Hx]]]; auto.
        * subst e. cbn [fst snd] in Hx. tauto.
        * right. exists e. tauto.
  Qed.

  (* edges between present nodes do not change the node list *)
  Lemma nodes_add_edges_in l : forall g,
    (forall e, In e l -> In (fst e) (nodes g) /\ In (snd e) (nodes g)) -> nodes (add_edges g l) = nodes g.
  Proof.
    induction l as [|[u v] tl IH]; intros g H; [reflexivity|]. cbn [Model.add_edges fold_left fst snd].
    fold (add_edges (add_edge g u v) tl).
    destruct (H (u, v) (or_introl eq_refl)) as [Hu Hv]. cbn [fst snd] in Hu, Hv.
    rewrite IH; [apply nodes_add_edge_in; assumption|].
    intros e He. rewrite nodes_add_edge_in by assumption. apply H. right. exact He.
  Qed.

  Lemma nodes_add_edges_prefix l : forall g, exists ext, nodes (add_edges g l) = nodes g ++ ext.
  Proof.
    induction l as [|[u v] tl IH]; intros g; cbn [Model.add_edges fold_left fst snd].
    - exists []. rewrite app_nil_r. reflexivity.
    - fold (add_edges (add_edge g u v) tl). destruct (IH (add_edge g u v)) as [e2 E2].
      destruct (nodes_add_edge_prefix g u v) as [e1 E1]. exists (e1 ++ e2). rewrite E2, E1, app_assoc. reflexivity.
  Qed.

  (* adjacency ORDER after a batch of edges between present nodes *)
  Lemma pred_add_edges l : forall g v, wfg g ->
    pred (add_edges g l) v = fold_left snoc_new (map fst (filter (fun e => eqb (snd e) v) l)) (pred g v).
  Proof.
    induction l as [|[u w] tl IH]; intros g v W; [reflexivity|]. cbn [Model.add_edges fold_left fst snd filter].
    fold (add_edges (add_edge g u w) tl). rewrite IH by (apply wfg_add_edge; exact W).
    rewrite pred_add_edge by exact W. rewrite (eqb_sym v w).
    destruct (eqb w v) eqn:E; [|reflexivity]. apply eqb_spec in E. subst. reflexivity.
  Qed.
  Lemma succ_add_edges l : forall g u, wfg g ->
    succ (add_edges g l) u = fold_left snoc_new (map snd (filter (fun e => eqb (fst e) u) l)) (succ g u).
  Proof.
    induction l as [|[w v] tl IH]; intros g u W; [reflexivity|]. cbn [Model.add_edges fold_left fst snd filter].
    fold (add_edges (add_edge g w v) tl). rewrite IH by (apply wfg_add_edge; exact W).
    rewrite succ_add_edge by exact W. rewrite (eqb_sym u w).
    destruct (eqb w u) eqn:E; [|reflexivity]. apply eqb_spec in E. subst. reflexivity.
  Qed.

  Lemma fold_snoc_new_nodup l : forall acc, NoDup (acc ++ l) -> fold_left snoc_new l acc = acc ++ l.
  Proof.
    induction l as [|x tl IH]; intros acc H; cbn [fold_left].
    - rewrite app_nil_r. reflexivity.
    - assert (Hx : ~ In x acc).
      { intro Hi. apply NoDup_remove_2 in H. apply H. apply in_or_app. left. exact Hi. }
      unfold Model.snoc_new at 2. apply mem_false in Hx. rewrite Hx.
      rewrite IH; rewrite <- app_assoc; [reflexivity | exact H].
  Qed.

  (* ---- edges of a graph, per source and per target ----------------------------------------------- *)
  Lemma In_edges g u v : In (u, v) (edges g) <-> In u (nodes g) /\ In v (succ g u).
  Proof.
    unfold Model.edges. rewrite in_flat_map. split.
    - intros [x [Hx H]]. apply in_map_iff in H. destruct H as [y [E Hy]]. inversion E. subst. tauto.
    - intros [H1 H2]. exists u. split; [exact H1|]. apply in_map. exact H2.
  Qed.

  Lemma targets_of_block u t S : NoDup S ->
    map fst (filter (fun e : A * A => eqb (snd e) t) (map (fun v => (u, v)) S)) = if mem t S then [u] else [].
  Proof.
    induction S as [|y tl IH]; intros Hn; [reflexivity|].
    inversion Hn as [|? ? Hy Htl]; subst. cbn [map filter snd]. unfold Model.mem. cbn [existsb].
    fold (mem t tl). rewrite (eqb_sym t y). destruct (eqb y t) eqn:E.
    - apply eqb_spec in E. subst. cbn [map fst orb]. rewrite IH by exact Htl.
      apply mem_false in Hy. rewrite Hy. reflexivity.
    - cbn [orb]. apply IH. exact Htl.
  Qed.

  Lemma preds_from_edges g t : (forall u, NoDup (succ g u)) ->
    map fst (filter (fun e => eqb (snd e) t) (edges g)) = filter (fun u => mem t (succ g u)) (nodes g).
  Proof.
    intros Hs. unfold Model.edges. induction (nodes g) as [|u tl IH]; [reflexivity|].
    cbn [flat_map filter]. rewrite filter_app, map_app, IH, targets_of_block by apply Hs.
    destruct (mem t (succ g u)); reflexivity.
  Qed.

  Lemma sources_of_block u x S :
    map snd (filter (fun e : A * A => eqb (fst e) x) (map (fun v => (u, v)) S)) = if eqb u x then S else [].
  Proof.
    induction S as [|y tl IH]; cbn [map filter fst].
    - destruct (eqb u x); reflexivity.
    - destruct (eqb u x) eqn:E; cbn [map snd]; rewrite IH; reflexivity.
  Qed.

  Lemma succs_from_edges g x : NoDup (nodes g) ->
    map snd (filter (fun e => eqb (fst e) x) (edges g)) = if mem x (nodes g) then succ g x else [].
  Proof.
    intros Hn. unfold Model.edges. induction (nodes g) as [|u tl IH]; [reflexivity|].
    inversion Hn as [|? ? Hu Htl]; subst.
    cbn [flat_map]. rewrite filter_app, map_app, IH, sources_of_block by exact Htl.
    unfold Model.mem. cbn [existsb]. fold (mem x tl). rewrite (eqb_sym x u).
    destruct (eqb u x) eqn:E.
    - apply eqb_spec in E. subst. apply mem_false in Hu. rewrite Hu, app_nil_r. reflexivity.
    - cbn [orb app]. reflexivity.
  Qed.

  (* ---- copy -------------------------------------------------------------------------------------- *)
  Lemma fresh_of_empty l : fresh_of g_empty l = l.
  Proof.
    unfold fresh_of. induction l as [|x tl IH]; [reflexivity|]. cbn [filter].
    change (has_node g_empty x) with false. cbn [negb]. f_equal. exact IH.
  Qed.

  Lemma edges_endpoints g : wfg g -> forall e, In e (edges g) -> In (fst e) (nodes g) /\ In (snd e) (nodes g).
  Proof.
    intros W [u v] H. apply In_edges in H. destruct H as [H1 H2]. cbn [fst snd]. split; [exact H1|].
    apply (wf_succ_in g W u v H2).
  Qed.

  Lemma nodes_copy g : wfg g -> nodes (copy g) = nodes g.
  Proof.
    intros W. unfold Model.copy.
    assert (N0 : nodes (add_nodes g_empty (nodes g)) = nodes g).
    { rewrite nodes_add_nodes by apply (wf_nodup g W). rewrite fresh_of_empty. reflexivity. }
    rewrite nodes_add_edges_in; [exact N0|]. intros e He. rewrite N0. apply edges_endpoints; assumption.
  Qed.

  Lemma wfg_copy g : wfg (copy g).
  Proof. unfold Model.copy. apply wfg_add_edges. apply wfg_add_nodes. apply wfg_empty. Qed.

  (* the predecessor lists of a copy are in NODE order *)
  Lemma pred_copy g t : wfg g -> pred (copy g) t = filter (fun u => mem t (succ g u)) (nodes g).
  Proof.
    intros W. unfold Model.copy. rewrite pred_add_edges by (apply wfg_add_nodes; apply wfg_empty).
    rewrite pred_add_nodes by apply wfg_empty. cbn [pred g_empty].
    rewrite preds_from_edges by apply (wf_succ_nodup g W).
    rewrite fold_snoc_new_nodup; [reflexivity|]. cbn [app]. apply NoDup_filter. apply (wf_nodup g W).
  Qed.

  (* ... the successor lists keep their order *)
  Lemma succ_copy g u : wfg g -> succ (copy g) u = succ g u.
  Proof.
    intros W. unfold Model.copy. rewrite succ_add_edges by (apply wfg_add_nodes; apply wfg_empty).
    rewrite succ_add_nodes by apply wfg_empty. cbn [succ g_empty].
    rewrite succs_from_edges by apply (wf_nodup g W).
    destruct (mem u (nodes g)) eqn:E.
    - rewrite fold_snoc_new_nodup; [reflexivity|]. cbn [app]. apply (wf_succ_nodup g W).
    - cbn. symmetry. apply succ_outside; [exact W | apply mem_false; exact E].
  Qed.

  Lemma In_pred_copy g u t : wfg g -> In u (pred (copy g) t) <-> In u (pred g t).
  Proof.
    intros W. rewrite pred_copy, filter_In, mem_In, (wf_pred_iff g W) by exact W. split; [tauto|].
    intros H. split; [|exact H]. apply (wf_succ_in g W u t H).
  Qed.

  (* ---- compose ----------------------------------------------------------------------------------- *)
  Lemma wfg_compose g h : wfg (compose g h).
  Proof. unfold Model.compose. repeat (first [apply wfg_add_edges | apply wfg_add_nodes]). apply wfg_empty. Qed.

  Lemma compose_eq g h : compose g h = add_edges (add_nodes (copy g) (nodes h)) (edges h).
  Proof. reflexivity. Qed.

  Lemma nodes_compose g h : wfg g -> wfg h -> nodes (compose g h) = nodes g ++ fresh_of g (nodes h).
  Proof.
    intros Wg Wh. rewrite compose_eq.
    assert (N1 : nodes (add_nodes (copy g) (nodes h)) = nodes g ++ fresh_of g (nodes h)).
    { rewrite nodes_add_nodes by apply (wf_nodup h Wh). rewrite nodes_copy by exact Wg. f_equal.
      unfold fresh_of. apply filter_ext. intros x. unfold Model.has_node. rewrite nodes_copy by exact Wg. reflexivity. }
    rewrite nodes_add_edges_in; [exact N1|].
    intros e He. destruct (edges_endpoints h Wh e He) as [H1 H2].
    rewrite !In_nodes_add_nodes. tauto.
  Qed.

  Lemma In_nodes_compose g h x : wfg g -> wfg h -> In x (nodes (compose g h)) <-> In x (nodes g) \/ In x (nodes h).
  Proof.
    intros Wg Wh. rewrite nodes_compose, in_app_iff by assumption. unfold fresh_of.
    rewrite filter_In, negb_true_iff. split.
    - tauto.
    - intros [H|H]; [tauto|]. destruct (has_node g x) eqn:E; [left; apply has_node_In; exact E | tauto].
  Qed.

  Lemma In_succ_compose g h u v : wfg g -> wfg h ->
    In v (succ (compose g h) u) <-> In v (succ g u) \/ In v (succ h u).
  Proof.
    intros Wg Wh. rewrite compose_eq. rewrite In_succ_add_edges by (apply wfg_add_nodes; apply wfg_copy).
    rewrite succ_add_nodes by apply wfg_copy. rewrite succ_copy by exact Wg. rewrite In_edges.
    split; [tauto|]. intros [H|H]; [tauto|]. right. split; [|exact H]. apply (wf_succ_in h Wh u v H).
  Qed.

  (* ---- relabel1 ---------------------------------------------------------------------------------- *)
  Lemma wfg_relabel1 g old new : wfg g -> wfg (relabel1 g old new).
  Proof.
    intros W. unfold Model.relabel1. destruct (negb (has_node g old)); [exact W|].
    destruct (eqb new old); [apply wfg_add_node; exact W|].
    apply wfg_add_edges. apply wfg_remove_node. apply wfg_add_node. exact W.
  Qed.

  (* renaming a present node to a new one: the node goes to the END of the node list *)
  Lemma nodes_relabel1 g old new : wfg g -> In old (nodes g) -> ~ In new (nodes g) ->
    nodes (relabel1 g old new) = del old (nodes g) ++ [new].
  Proof.
    intros W Ho Hn. unfold Model.relabel1.
    assert (E1 : has_node g old = true) by (apply has_node_In; exact Ho). rewrite E1. cbn [negb].
    assert (E2 : eqb new old = false) by (apply eqb_neq; intro; subst; contradiction). rewrite E2.
    assert (E3 : has_node g new = false).
    { destruct (has_node g new) eqn:E; [apply has_node_In in E; contradiction | reflexivity]. }
    assert (Nn : new <> old) by (intro; subst; contradiction).
    rewrite nodes_add_edges_in.
    - rewrite nodes_remove, nodes_add_node, E3. unfold Model.del. rewrite filter_app. cbn [filter].
      rewrite (eqb_sym old new), E2. reflexivity.
    - intros e He. rewrite nodes_remove, !In_del, !In_nodes_add_node.
      rewrite !succ_add_node, !pred_add_node in He by exact W.
      apply in_app_or in He. destruct He as [He|He]; apply in_map_iff in He; destruct He as [x [E Hx]]; subst e; cbn [fst snd].
      + split; [tauto|]. destruct (eqb old x) eqn:Ex; [tauto|]. apply eqb_neq in Ex.
        destruct (wf_succ_in g W old x Hx). split; [tauto|congruence].
      + split; [|tauto]. destruct (eqb old x) eqn:Ex; [tauto|]. apply eqb_neq in Ex.
        destruct (pred_in g x old W Hx). split; [tauto|congruence].
  Qed.

  Notation ren := (ren A eqb).

  Lemma In_succ_relabel1 g old new u v : wfg g -> In old (nodes g) -> ~ In new (nodes g) ->
    In v (succ (relabel1 g old new) u) <->
    exists u0 v0, In v0 (succ g u0) /\ u = ren old new u0 /\ v = ren old new v0.
  Proof.
    intros W Ho Hn. unfold Model.relabel1.
    assert (E1 : has_node g old = true) by (apply has_node_In; exact Ho). rewrite E1. cbn [negb].
    assert (Nn : new <> old) by (intro; subst; contradiction).
    assert (E2 : eqb new old = false) by (apply eqb_neq; exact Nn). rewrite E2.
    rewrite In_succ_add_edges by (apply wfg_remove_node; apply wfg_add_node; exact W).
    rewrite In_succ_remove, !succ_add_node, !pred_add_node by exact W.
    rewrite in_app_iff, !in_map_iff. unfold Model.ren. split.
    - intros [[H [H1 H2]]|[[x [E Hx]]|[x [E Hx]]]].
      + exists u, v. apply eqb_neq in H1. apply eqb_neq in H2. rewrite H1, H2. tauto.
      + inversion E. subst. exists old, x. rewrite eqb_refl, (eqb_sym x old). tauto.
      + inversion E. subst. exists x, old. apply (wf_pred_iff g W) in Hx. rewrite eqb_refl, (eqb_sym x old). tauto.
    - intros [u0 [v0 [H [Eu Ev]]]]. destruct (eqb u0 old) eqn:Eu0.
      + apply eqb_spec in Eu0. subst u0 u. right. left. exists v0. rewrite (eqb_sym old v0). subst v.
        split; [reflexivity | exact H].
      + destruct (eqb v0 old) eqn:Ev0.
        * apply eqb_spec in Ev0. subst v0 u v. right. right. exists u0. rewrite (eqb_sym old u0), Eu0.
          split; [reflexivity|]. apply (wf_pred_iff g W). exact H.
        * subst u v. left. apply eqb_neq in Eu0. apply eqb_neq in Ev0. tauto.
  Qed.

  Lemma relabel1_same g x : wfg g -> nodes (relabel1 g x x) = nodes g /\ (forall u, succ (relabel1 g x x) u = succ g u)
                                     /\ (forall u, pred (relabel1 g x x) u = pred g u).
  Proof.
    intros W. unfold Model.relabel1. destruct (has_node g x) eqn:E; cbn [negb]; [|tauto].
    rewrite eqb_refl. unfold Model.add_node. rewrite E. tauto.
  Qed.

  Lemma relabel1_absent g old new : ~ In old (nodes g) -> relabel1 g old new = g.
  Proof.
    intros H. unfold Model.relabel1.
    destruct (has_node g old) eqn:E; [apply has_node_In in E; contradiction | reflexivity].
  Qed.

  Lemma filter_map_swap_g {X Y} (p : Y -> bool) (f : X -> Y) l : filter p (map f l) = map f (filter (fun x => p (f x)) l).
  Proof.
    induction l as [|x tl IH]; [reflexivity|]. cbn [map filter]. destruct (p (f x)); cbn [map]; rewrite IH; reflexivity.
  Qed.

  (* ---- relabel_copy (nx.relabel_nodes(copy=True)) ------------------------------------------------- *)
  Notation relabel_copy := (relabel_copy A eqb).

  Lemma wfg_relabel_copy g old new : wfg (relabel_copy g old new).
  Proof. unfold Model.relabel_copy. apply wfg_add_edges. apply wfg_add_nodes. apply wfg_empty. Qed.

  Lemma ren_inj g old new x y : ~ In new (nodes g) -> In x (nodes g) -> In y (nodes g) ->
    ren old new x = ren old new y -> x = y.
  Proof.
    intros Hn Hx Hy. unfold Model.ren. destruct (eqb x old) eqn:Ex, (eqb y old) eqn:Ey; intros E.
    - apply eqb_spec in Ex. apply eqb_spec in Ey. congruence.
    - subst. contradiction.
    - subst. contradiction.
    - exact E.
  Qed.

  Lemma NoDup_map_on {B} (f : A -> B) (l : list A) :
    NoDup l -> (forall x y, In x l -> In y l -> f x = f y -> x = y) -> NoDup (map f l).
  Proof.
    induction l as [|a tl IH]; intros Hn Hi; cbn [map]; [constructor|].
    inversion Hn as [|? ? Ha Htl]; subst. constructor.
    - intro H. apply in_map_iff in H. destruct H as [y [E Hy]].
      apply Hi in E; [subst; contradiction | right; exact Hy | left; reflexivity].
    - apply IH; [exact Htl|]. intros x y Hx Hy. apply Hi; right; assumption.
  Qed.

  Lemma In_succ_relabel_copy g old new u v : wfg g ->
    In v (succ (relabel_copy g old new) u) <->
    exists u0 v0, In v0 (succ g u0) /\ u = ren old new u0 /\ v = ren old new v0.
  Proof.
    intros W. unfold Model.relabel_copy.
    rewrite In_succ_add_edges by (apply wfg_add_nodes; apply wfg_empty).
    rewrite succ_add_nodes by apply wfg_empty. cbn [succ g_empty]. rewrite in_map_iff. split.
    - intros [[]|[[u0 v0] [E H]]]. apply In_edges in H. destruct H as [_ H]. cbn [fst snd] in E.
      inversion E. exists u0, v0. tauto.
    - intros [u0 [v0 [H [E1 E2]]]]. right. exists (u0, v0). cbn [fst snd]. subst. split; [reflexivity|].
      apply In_edges. split; [|exact H]. apply (wf_succ_in g W u0 v0 H).
  Qed.

  (* the replaced node keeps its POSITION *)
  Lemma nodes_relabel_copy g old new : wfg g -> ~ In new (nodes g) ->
    nodes (relabel_copy g old new) = map (ren old new) (nodes g).
  Proof.
    intros W Hn. unfold Model.relabel_copy.
    assert (Nd : NoDup (map (ren old new) (nodes g))).
    { apply NoDup_map_on; [apply (wf_nodup g W)|]. intros x y. apply ren_inj. exact Hn. }
    assert (N0 : nodes (add_nodes g_empty (map (ren old new) (nodes g))) = map (ren old new) (nodes g)).
    { rewrite nodes_add_nodes by exact Nd. rewrite fresh_of_empty. reflexivity. }
    rewrite nodes_add_edges_in; [exact N0|].
    intros e He. rewrite N0. apply in_map_iff in He. destruct He as [[u0 v0] [E H]]. subst e. cbn [fst snd].
    apply In_edges in H. destruct H as [H1 H2]. split; apply in_map; [exact H1 | apply (wf_succ_in g W u0 v0 H2)].
  Qed.

  (* ... and the predecessor lists come out in node order, as after a copy *)
  Lemma pred_relabel_copy g old new t : wfg g -> ~ In new (nodes g) -> In t (nodes g) ->
    pred (relabel_copy g old new) (ren old new t) =
    map (ren old new) (filter (fun u => mem t (succ g u)) (nodes g)).
  Proof.
    intros W Hn Ht. unfold Model.relabel_copy.
    rewrite pred_add_edges by (apply wfg_add_nodes; apply wfg_empty).
    rewrite pred_add_nodes by apply wfg_empty. cbn [pred g_empty].
    rewrite filter_map_swap_g. cbn [snd].
    rewrite (filter_ext_in (fun e : A * A => eqb (ren old new (snd e)) (ren old new t)) (fun e => eqb (snd e) t)).
    2:{ intros [u0 v0] He. cbn [snd]. apply In_edges in He. destruct He as [_ H].
        destruct (wf_succ_in g W u0 v0 H) as [_ Hv].
        destruct (eqb v0 t) eqn:E.
        - apply eqb_spec in E. subst. apply eqb_refl.
        - apply eqb_neq. intro E2. apply (ren_inj g old new v0 t Hn Hv Ht) in E2. subst. rewrite eqb_refl in E. discriminate. }
    rewrite map_map. cbn [fst]. rewrite <- (map_map fst (ren old new)).
    rewrite preds_from_edges by apply (wf_succ_nodup g W).
    rewrite fold_snoc_new_nodup; [reflexivity|]. cbn [app].
    apply NoDup_map_on; [apply NoDup_filter; apply (wf_nodup g W)|].
    intros x y Hx Hy. apply filter_In in Hx. apply filter_In in Hy. apply (ren_inj g old new x y Hn); tauto.
  Qed.

  (* a task that is not there: the graph is rebuilt as by copy() *)
  Lemma relabel_copy_absent g old new : ~ In old (nodes g) -> wfg g -> relabel_copy g old new = copy g.
  Proof.
    intros Ho W. unfold Model.relabel_copy, Model.copy.
    assert (R : forall x, In x (nodes g) -> ren old new x = x).
    { intros x Hx. unfold Model.ren. destruct (eqb x old) eqn:E; [|reflexivity]. apply eqb_spec in E. subst. contradiction. }
    assert (E1 : map (ren old new) (nodes g) = nodes g).
    { rewrite <- (map_id (nodes g)) at 2. apply map_ext_in. exact R. }
    assert (E2 : map (fun e : A * A => (ren old new (fst e), ren old new (snd e))) (edges g) = edges g).
    { rewrite <- (map_id (edges g)) at 2. apply map_ext_in. intros [u0 v0] He. cbn [fst snd].
      destruct (edges_endpoints g W _ He) as [H1 H2]. cbn [fst snd] in H1, H2. rewrite (R u0 H1), (R v0 H2). reflexivity. }
    rewrite E1, E2. reflexivity.
  Qed.
End GraphProofs.
