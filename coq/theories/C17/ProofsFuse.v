(* PV.C17.ProofsFuse — the rewrites dask.optimization.fuse performs (inline a task into its only dependent,
   store a fused task under an alias) do not change what the scheduler computes. *)
From Coq Require Import List Bool PArith Arith Lia Permutation.
From PV Require Import Base.PyData C17.Model C17.ProofsSched C17.ProofsDask C17.Proofs.
Import ListNotations.
Local Open Scope nat_scope.

Definition remc (c : positive) (K : list positive) : list positive := filter (fun x => negb (Pos.eqb x c)) K.
Definition cnt (c : positive) (l : list positive) : nat := length (filter (Pos.eqb c) l).
Definition rep {X} (n : nat) (l : list X) : list X := concat (repeat l n).

Lemma memp_remc s c K : memp s (remc c K) = memp s K && negb (Pos.eqb s c).
Proof.
  destruct (memp s (remc c K)) eqn:E.
  - apply memp_In in E. unfold remc in E. apply filter_In in E. destruct E as [E1 E2].
    apply memp_In in E1. rewrite E1, E2. reflexivity.
  - destruct (memp s K) eqn:E1; [|reflexivity]. destruct (Pos.eqb s c) eqn:E2; [reflexivity|]. exfalso.
    assert (In s (remc c K)) by (apply filter_In; split; [apply memp_In; exact E1 | rewrite E2; reflexivity]).
    apply memp_In in H. congruence.
Qed.

Lemma cnt_app c a b : cnt c (a ++ b) = cnt c a + cnt c b.
Proof. unfold cnt. rewrite filter_app, app_length. reflexivity. Qed.
Lemma cnt_zero c l : ~ In c l -> cnt c l = 0.
Proof.
  unfold cnt. induction l as [|x tl IH]; intros H; [reflexivity|]. cbn [filter].
  destruct (Pos.eqb c x) eqn:E.
  - apply Pos.eqb_eq in E. subst. exfalso. apply H. left. reflexivity.
  - apply IH. intro Hi. apply H. right. exact Hi.
Qed.
Lemma cnt_pos c l : In c l -> 0 < cnt c l.
Proof.
  unfold cnt. induction l as [|x tl IH]; intros H; [contradiction|]. cbn [filter].
  destruct (Pos.eqb c x) eqn:E; [cbn; lia|]. apply IH. destruct H as [H|H]; [|exact H].
  subst. rewrite Pos.eqb_refl in E. discriminate.
Qed.
Lemma rep_add {X} n m (l : list X) : rep (n + m) l = rep n l ++ rep m l.
Proof. unfold rep. rewrite repeat_app, concat_app. reflexivity. Qed.

(* named inner loops of subs and clean *)
Definition subs_list (k : positive) (val : sval) : list sval -> list sval :=
  fix go (l : list sval) : list sval := match l with [] => [] | x :: tl => subs k val x :: go tl end.
Definition clean_all (keys : list positive) : list sval -> bool :=
  fix all (l : list sval) : bool := match l with [] => true | x :: tl => clean keys x && all tl end.

Lemma subs_tuple k val l : subs k val (STuple l) =
  match l with h :: rest => if is_callable h then STuple (h :: subs_list k val rest) else STuple l | [] => STuple l end.
Proof. destruct l as [|h rest]; [reflexivity|]. cbn [subs]. destruct (is_callable h); reflexivity. Qed.
Lemma subs_slist k val l : subs k val (SList l) = SList (subs_list k val l).
Proof. reflexivity. Qed.
Lemma clean_tuple keys l : clean keys (STuple l) =
  match l with h :: rest => if is_callable h then clean_all keys rest else negb (has_key_string keys (STuple l)) | [] => true end.
Proof. destruct l as [|h rest]; [reflexivity|]. cbn [clean]. destruct (is_callable h); reflexivity. Qed.
Lemma clean_slist keys l : clean keys (SList l) = clean_all keys l.
Proof. reflexivity. Qed.
Lemma clean_all_forall keys l : clean_all keys l = true <-> forall x, In x l -> clean keys x = true.
Proof.
  induction l as [|x tl IH]; cbn [clean_all]; fold (clean_all keys).
  - split; [intros _ y [] | reflexivity].
  - rewrite andb_true_iff, IH. split.
    + intros [H1 H2] y [Hy|Hy]; [subst; exact H1 | apply H2; exact Hy].
    + intros H. split; [apply H; left; reflexivity | intros y Hy; apply H; right; exact Hy].
Qed.

Section Subst.
  Variable apply : positive -> list sval -> sval.
  Variable K : list positive.
  Variable c : positive.
  Notation K' := (remc c K).

  (* a value that does not refer to c is evaluated the same with and without the key c *)
  Lemma shrink_list cc l :
    Forall (fun a => ~ In c (arg_deps K a) ->
                     eval_arg apply K' cc a = eval_arg apply K cc a /\ arg_deps K' a = arg_deps K a) l ->
    ~ In c (deps_list K l) ->
    eval_list apply K' cc l = eval_list apply K cc l /\ deps_list K' l = deps_list K l.
  Proof.
    induction 1 as [|x tl Hx Htl IH]; intros Hn; [split; reflexivity|].
    cbn [deps_list] in Hn. fold (deps_list K) in Hn.
    destruct Hx as [E1 D1]; [intro Hi; apply Hn; apply in_or_app; left; exact Hi|].
    destruct IH as [E2 D2]; [intro Hi; apply Hn; apply in_or_app; right; exact Hi|].
    split.
    - rewrite !eval_list_cons, E1, E2. reflexivity.
    - cbn [deps_list]. fold (deps_list K') (deps_list K). rewrite D1, D2. reflexivity.
  Qed.

  Lemma shrink cc : forall a, ~ In c (arg_deps K a) ->
    eval_arg apply K' cc a = eval_arg apply K cc a /\ arg_deps K' a = arg_deps K a.
  Proof.
    induction a using sval_ind'; intros Hn; try (split; reflexivity).
    - cbn [eval_arg arg_deps] in *. rewrite memp_remc. destruct (memp s K) eqn:M; [|split; reflexivity].
      destruct (Pos.eqb s c) eqn:E; [|split; reflexivity].
      apply Pos.eqb_eq in E. subst. exfalso. apply Hn. left. reflexivity.
    - rewrite deps_tuple in Hn. rewrite !eval_tuple, !deps_tuple.
      destruct (shrink_list cc l H Hn) as [E D]. split; [|exact D].
      destruct l as [|x tl]; [reflexivity|].
      inversion H as [|? ? Hx Htl]; subst.
      assert (Hn' : ~ In c (deps_list K tl)).
      { intro Hi. apply Hn. cbn [deps_list]. fold (deps_list K). apply in_or_app. right. exact Hi. }
      destruct (shrink_list cc tl Htl Hn') as [E' _].
      destruct x; try (rewrite E; reflexivity); rewrite E'; reflexivity.
    - rewrite deps_slist in Hn. rewrite !eval_slist, !deps_slist.
      destruct (shrink_list cc l H Hn) as [E D]. rewrite E, D. split; reflexivity.
  Qed.

  Lemma nokey_deps_nil_list l :
    Forall (fun a => has_key_string K a = false -> arg_deps K a = []) l -> any_key K l = false -> deps_list K l = [].
  Proof.
    induction 1 as [|x tl Hx Htl IH]; intros Hk; [reflexivity|].
    cbn [any_key] in Hk. fold (any_key K) in Hk. apply orb_false_iff in Hk. destruct Hk as [H1 H2].
    cbn [deps_list]. fold (deps_list K). rewrite (Hx H1), (IH H2). reflexivity.
  Qed.
  Lemma nokey_deps_nil : forall a, has_key_string K a = false -> arg_deps K a = [].
  Proof.
    induction a using sval_ind'; intros Hk; try reflexivity.
    - cbn [has_key_string] in Hk. cbn [arg_deps]. rewrite Hk. reflexivity.
    - rewrite key_tuple in Hk. rewrite deps_tuple. apply nokey_deps_nil_list; assumption.
    - rewrite key_slist in Hk. rewrite deps_slist. apply nokey_deps_nil_list; assumption.
  Qed.

  (* ---- the substitution lemma --------------------------------------------------------------------- *)
  Variable vc : sval.
  Variable cc : positive -> sval.
  Variable xc : sval.
  Variable lc : list event.
  Hypothesis HcK : In c K.
  Hypothesis Hvc : eval_arg apply K cc vc = (xc, lc).
  Hypothesis Hself : ~ In c (arg_deps K vc).

  Lemma eval_vc' : eval_arg apply K' cc vc = (xc, lc).
  Proof. destruct (shrink cc vc Hself) as [E _]. rewrite E. exact Hvc. Qed.

  Definition subst_ok (a : sval) : Prop :=
    clean K a = true -> (In c (arg_deps K a) -> cc c = xc) ->
    fst (eval_arg apply K' cc (subs c vc a)) = fst (eval_arg apply K cc a) /\
    Permutation (snd (eval_arg apply K' cc (subs c vc a))) (snd (eval_arg apply K cc a) ++ rep (cnt c (arg_deps K a)) lc) /\
    (forall x, In x (arg_deps K' (subs c vc a)) ->
               (In x (arg_deps K a) /\ x <> c) \/ (In c (arg_deps K a) /\ In x (arg_deps K vc))).

  Lemma subst_list l : Forall subst_ok l -> clean_all K l = true -> (In c (deps_list K l) -> cc c = xc) ->
    fst (eval_list apply K' cc (subs_list c vc l)) = fst (eval_list apply K cc l) /\
    Permutation (snd (eval_list apply K' cc (subs_list c vc l))) (snd (eval_list apply K cc l) ++ rep (cnt c (deps_list K l)) lc) /\
    (forall x, In x (deps_list K' (subs_list c vc l)) ->
               (In x (deps_list K l) /\ x <> c) \/ (In c (deps_list K l) /\ In x (arg_deps K vc))).
  Proof.
    induction 1 as [|a tl Ha Htl IH]; intros Hcl Hcc.
    - split; [reflexivity|]. split; [apply Permutation_refl | intros x []].
    - cbn [clean_all] in Hcl. fold (clean_all K) in Hcl. apply andb_true_iff in Hcl. destruct Hcl as [C1 C2].
      cbn [deps_list] in Hcc. fold (deps_list K) in Hcc.
      destruct (Ha C1) as [V1 [P1 D1]]; [intro Hi; apply Hcc; apply in_or_app; left; exact Hi|].
      destruct (IH C2) as [V2 [P2 D2]]; [intro Hi; apply Hcc; apply in_or_app; right; exact Hi|].
      cbn [subs_list]. fold (subs_list c vc). rewrite !eval_list_cons.
      destruct (eval_arg apply K' cc (subs c vc a)) as [v1 e1].
      destruct (eval_list apply K' cc (subs_list c vc tl)) as [vs1 es1].
      destruct (eval_arg apply K cc a) as [v2 e2]. destruct (eval_list apply K cc tl) as [vs2 es2].
      cbn [fst snd] in *. subst v1 vs1. split; [reflexivity|]. split.
      + cbn [deps_list]. fold (deps_list K). rewrite cnt_app, rep_add.
        apply (Permutation_trans (Permutation_app P1 P2)).
        rewrite <- !app_assoc. apply Permutation_app_head.
        rewrite !app_assoc. apply Permutation_app_tail. apply Permutation_app_comm.
      + intros x Hx. cbn [deps_list] in Hx. fold (deps_list K') in Hx. cbn [deps_list]. fold (deps_list K).
        apply in_app_or in Hx. destruct Hx as [Hx|Hx].
        * destruct (D1 x Hx) as [[A B]|[A B]]; [left|right]; (split; [apply in_or_app; left; exact A | exact B]).
        * destruct (D2 x Hx) as [[A B]|[A B]]; [left|right]; (split; [apply in_or_app; right; exact A | exact B]).
  Qed.

  Lemma subst_all : forall a, subst_ok a.
  Proof.
    induction a using sval_ind'; unfold subst_ok; intros Hcl Hcc;
      try (cbn [subs arg_deps cnt filter length rep repeat concat]; rewrite app_nil_r;
           split; [reflexivity|]; split; [apply Permutation_refl | intros x []]).
    - (* a string *)
      cbn [subs]. destruct (Pos.eqb s c) eqn:E.
      + apply Pos.eqb_eq in E. subst s. rewrite eval_vc'. cbn [eval_arg arg_deps].
        assert (M : memp c K = true) by (apply memp_In; exact HcK). rewrite M. cbn [fst snd].
        assert (Ec : cc c = xc) by (apply Hcc; cbn [arg_deps]; rewrite M; left; reflexivity).
        unfold cnt. cbn [filter]. rewrite Pos.eqb_refl. cbn [length rep repeat concat app]. rewrite app_nil_r.
        split; [symmetry; exact Ec|]. split; [apply Permutation_refl|].
        intros x Hx. right. split; [left; reflexivity|]. destruct (shrink cc vc Hself) as [_ D]. rewrite <- D. exact Hx.
      + destruct (shrink cc (SStr s)) as [Ev Dp].
        { cbn [arg_deps]. destruct (memp s K); [|intros []]. intros [Hi|[]]. subst. rewrite Pos.eqb_refl in E. discriminate. }
        rewrite Ev, Dp.
        assert (Z : cnt c (arg_deps K (SStr s)) = 0).
        { apply cnt_zero. cbn [arg_deps]. destruct (memp s K); [|intros []]. intros [Hi|[]]. subst. rewrite Pos.eqb_refl in E. discriminate. }
        rewrite Z. cbn [rep repeat concat]. rewrite app_nil_r. split; [reflexivity|]. split; [apply Permutation_refl|].
        intros x Hx. left. split; [exact Hx|]. intro Ex. subst x.
        cbn [arg_deps] in Hx. destruct (memp s K); [|contradiction]. destruct Hx as [Hx|[]]. subst. rewrite Pos.eqb_refl in E. discriminate.
    - (* a tuple *)
      rewrite clean_tuple in Hcl. rewrite subs_tuple.
      destruct l as [|h rest].
      + cbn [arg_deps cnt filter length rep repeat concat]. rewrite app_nil_r.
        split; [reflexivity|]. split; [apply Permutation_refl | intros x []].
      + destruct (is_callable h) eqn:Ch.
        * (* a task: the arguments are substituted *)
          inversion H as [|? ? Hh Hrest]; subst.
          assert (Dh : arg_deps K (STuple (h :: rest)) = deps_list K rest).
          { rewrite deps_tuple. cbn [deps_list]. fold (deps_list K). destruct h; try discriminate; reflexivity. }
          assert (Dh' : arg_deps K' (STuple (h :: subs_list c vc rest)) = deps_list K' (subs_list c vc rest)).
          { rewrite deps_tuple. cbn [deps_list]. fold (deps_list K'). destruct h; try discriminate; reflexivity. }
          rewrite Dh in *. rewrite Dh'.
          destruct (subst_list rest Hrest Hcl Hcc) as [V [P D]].
          rewrite !eval_tuple.
          destruct (eval_list apply K' cc (subs_list c vc rest)) as [vs1 es1].
          destruct (eval_list apply K cc rest) as [vs2 es2]. cbn [fst snd] in V, P. subst vs1.
          destruct h; try discriminate; cbn [fst snd].
          -- split; [reflexivity|]. split; [|exact D].
             rewrite <- app_assoc. apply (Permutation_trans (Permutation_app_tail _ P)).
             rewrite <- !app_assoc. apply Permutation_app_head. apply Permutation_app_comm.
          -- split; [reflexivity|]. split; [exact P | exact D].
        * (* not a task: no key string inside, nothing substituted, nothing referenced *)
          apply negb_true_iff in Hcl. pose proof (nokey_deps_nil _ Hcl) as Dn.
          destruct (shrink cc (STuple (h :: rest))) as [Ev Dp]; [rewrite Dn; intros []|].
          rewrite Ev, Dp, Dn. cbn [cnt filter length rep repeat concat]. rewrite app_nil_r.
          split; [reflexivity|]. split; [apply Permutation_refl | intros x []].
    - (* a list *)
      rewrite clean_slist in Hcl. rewrite subs_slist, deps_slist in *. rewrite !eval_slist, deps_slist.
      destruct (subst_list l H Hcl Hcc) as [V [P D]].
      destruct (eval_list apply K' cc (subs_list c vc l)) as [vs1 es1].
      destruct (eval_list apply K cc l) as [vs2 es2]. cbn [fst snd] in *. subst vs1.
      split; [reflexivity|]. split; [exact P | exact D].
  Qed.
End Subst.

Lemma rep_nil {X} n : rep n (@nil X) = [].
Proof. unfold rep. induction n as [|n IH]; [reflexivity|]. cbn [repeat concat app]. exact IH. Qed.

Lemma dlookup0_eq d k : dlookup0 d k = dlookup d k.
Proof. induction d as [|[k' v] tl IH]; [reflexivity|]. cbn [dlookup0 dlookup]. rewrite IH. reflexivity. Qed.

Lemma cget_notin (T : cache positive dval) k : ~ In k (done positive dval T) -> cget positive dval Pos.eqb dflt_dval T k = dflt_dval.
Proof.
  induction T as [|[k' v] tl IH]; intros H; [reflexivity|]. cbn [Model.cget].
  destruct (Pos.eqb k k') eqn:E.
  - apply Pos.eqb_eq in E. subst. exfalso. apply H. left. reflexivity.
  - apply IH. intro Hi. apply H. right. exact Hi.
Qed.

Section Inline.
  Variable apply : positive -> list sval -> sval.
  Variable d : dsk.
  Variable c : positive.
  Variable vc : sval.
  Notation K := (dkeys d).
  Notation K' := (remc c K).
  Hypothesis Hlook : dlookup d c = Some vc.
  Hypothesis Hclean : forall k v, dlookup d k = Some v -> clean K v = true.
  Hypothesis Hself : ~ In c (arg_deps K vc).

  Definition d' : dsk := map (fun kv => (fst kv, subs c vc (snd kv))) (filter (fun kv => negb (Pos.eqb (fst kv) c)) d).

  Lemma fuse_step_inline : fuse_step d (FInline c) = d'.
  Proof. unfold fuse_step. rewrite dlookup0_eq, Hlook. reflexivity. Qed.

  Lemma HcK : In c K.
  Proof.
    clear Hclean Hself. revert Hlook. unfold dkeys. induction d as [|[k v] tl IH]; cbn [dlookup map fst]; [discriminate|].
    destruct (Pos.eqb c k) eqn:E; [apply Pos.eqb_eq in E; subst; left; reflexivity | intros H; right; apply IH; exact H].
  Qed.

  Lemma dkeys_d' : dkeys d' = K'.
  Proof.
    unfold d', dkeys, remc. rewrite map_map. cbn [fst]. clear. induction d as [|[k v] tl IH]; [reflexivity|].
    cbn [filter map fst]. destruct (Pos.eqb k c); cbn [negb map fst]; rewrite IH; reflexivity.
  Qed.

  Lemma lookup_d' k : k <> c -> dlookup d' k = option_map (subs c vc) (dlookup d k).
  Proof.
    intros Hk. unfold d'. clear Hlook Hclean Hself. induction d as [|[k' v] tl IH]; [reflexivity|].
    cbn [filter fst dlookup]. destruct (Pos.eqb k' c) eqn:E; cbn [negb].
    - apply Pos.eqb_eq in E. subst k'. destruct (Pos.eqb k c) eqn:E2; [apply Pos.eqb_eq in E2; contradiction | exact IH].
    - cbn [map dlookup fst snd]. destruct (Pos.eqb k k'); [reflexivity | exact IH].
  Qed.

  Notation dget := (cget positive dval Pos.eqb dflt_dval).
  Notation ddone := (done positive dval).
  Notation valid1 := (dvalid apply d).
  Notation valid2 := (dvalid apply d').

  (* the heart: every valid trace of d, with c left out, is a valid trace of d' with the same values; the calls of
     a key are its old calls plus, for every reference to c it had, the calls of c *)
  Lemma inline_trace T : valid1 T ->
    exists T', valid2 T' /\ ddone T' = remc c (ddone T) /\
      (forall k, In k (ddone T') -> fst (dget T' k) = fst (dget T k) /\
         Permutation (snd (dget T' k)) (snd (dget T k) ++ rep (cnt c (dask_deps d k)) (snd (dget T c)))).
  Proof.
    induction 1 as [|T k0 Hv IH Hn Hd].
    - exists []. split; [constructor|]. split; [reflexivity | intros k []].
    - destruct IH as [T' [V' [D' A']]].
      pose proof (valid_equation positive dval Pos.eqb dflt_dval _ _ pos_eqb_spec (dask_comp_local apply d) T Hv) as EqT.
      destruct (Pos.eqb k0 c) eqn:Ek.
      + (* c itself runs: nothing happens on the other side *)
        apply Pos.eqb_eq in Ek. subst k0. exists T'. split; [exact V'|]. split.
        * rewrite (done_app positive dval). cbn [Model.done map fst]. unfold remc. rewrite filter_app. cbn [filter].
          rewrite Pos.eqb_refl. cbn [negb]. rewrite app_nil_r. exact D'.
        * intros k Hk. assert (HkT : In k (ddone T)) by (rewrite D' in Hk; apply filter_In in Hk; tauto).
          destruct (A' k Hk) as [A1 A2].
          rewrite (cget_app_in positive dval Pos.eqb dflt_dval pos_eqb_spec) by exact HkT. split; [exact A1|].
          assert (Z : cnt c (dask_deps d k) = 0).
          { apply cnt_zero. intro Hi. apply Hn. destruct (EqT k HkT) as [_ I]. apply I. exact Hi. }
          rewrite Z in *. cbn [rep repeat concat] in *. exact A2.
      + (* another key *)
        apply Pos.eqb_neq in Ek.
        set (cc := fun x => fst (dget T x)).
        assert (Hk0' : ~ In k0 (ddone T')) by (rewrite D'; intro Hi; apply filter_In in Hi; tauto).
        destruct (eval_arg apply K cc vc) as [xc lc] eqn:Evc.
        assert (Hcc : In c (ddone T) -> cc c = xc /\ snd (dget T c) = lc).
        { intros Hc. destruct (EqT c Hc) as [E _]. unfold cc. rewrite E. unfold dask_comp. rewrite Hlook.
          fold cc. rewrite Evc. split; reflexivity. }
        destruct (dlookup d k0) as [v|] eqn:Lk.
        * pose proof (subst_all apply K c vc cc xc lc HcK Evc Hself v (Hclean k0 v Lk)) as S.
          assert (Dk0 : dask_deps d k0 = arg_deps K v) by (unfold dask_deps; rewrite Lk; reflexivity).
          rewrite Dk0 in Hd.
          destruct S as [SV [SP SD]]; [intros Hi; apply Hcc; apply Hd; exact Hi|].
          assert (L' : dlookup d' k0 = Some (subs c vc v)) by (rewrite (lookup_d' k0 Ek), Lk; reflexivity).
          assert (Dk0' : dask_deps d' k0 = arg_deps K' (subs c vc v)) by (unfold dask_deps; rewrite L', dkeys_d'; reflexivity).
          assert (Hd' : incl (dask_deps d' k0) (ddone T')).
          { rewrite Dk0', D'. intros x Hx. apply filter_In. destruct (SD x Hx) as [[A B]|[A B]].
            - split; [apply Hd; exact A|]. apply negb_true_iff. apply Pos.eqb_neq. exact B.
            - assert (Hc : In c (ddone T)) by (apply Hd; exact A).
              destruct (EqT c Hc) as [_ I]. unfold dask_deps in I. rewrite Hlook in I. split; [apply I; exact B|].
              apply negb_true_iff. apply Pos.eqb_neq. intro Ex. subst x. contradiction. }
          (* evaluation on the other side *)
          assert (Ecomp : dask_comp apply d' k0 (dget T') = eval_arg apply K' cc (subs c vc v)).
          { unfold dask_comp. rewrite L', dkeys_d'. apply eval_local. intros x Hx. unfold cc.
            rewrite <- Dk0' in Hx. apply (A' x). apply Hd'. exact Hx. }
          exists (T' ++ [(k0, dask_comp apply d' k0 (dget T'))]). split; [apply valid_snoc; assumption|]. split.
          -- rewrite !(done_app positive dval). cbn [Model.done map fst]. unfold remc. rewrite filter_app. cbn [filter].
             assert (E2 : Pos.eqb k0 c = false) by (apply Pos.eqb_neq; exact Ek). rewrite E2. cbn [negb]. rewrite D'. reflexivity.
          -- intros k Hk. rewrite (done_app positive dval) in Hk. cbn [Model.done map fst] in Hk.
             assert (Ec : dget (T ++ [(k0, dask_comp apply d k0 (dget T))]) c = dget T c).
             { destruct (in_dec Pos.eq_dec c (ddone T)) as [Hc|Hc].
               - apply (cget_app_in positive dval Pos.eqb dflt_dval pos_eqb_spec). exact Hc.
               - rewrite (cget_app_notin positive dval Pos.eqb dflt_dval pos_eqb_spec) by exact Hc.
                 cbn [Model.cget]. assert (E3 : Pos.eqb c k0 = false) by (apply Pos.eqb_neq; intro; subst; contradiction).
                 rewrite E3. symmetry. apply cget_notin. exact Hc. }
             rewrite Ec. apply in_app_or in Hk. destruct Hk as [Hk|[Hk|[]]].
             ++ assert (HkT : In k (ddone T)) by (rewrite D' in Hk; apply filter_In in Hk; tauto).
                rewrite (cget_app_in positive dval Pos.eqb dflt_dval pos_eqb_spec) by exact Hk.
                rewrite (cget_app_in positive dval Pos.eqb dflt_dval pos_eqb_spec) by exact HkT. apply A'. exact Hk.
             ++ subst k. rewrite (cget_app_notin positive dval Pos.eqb dflt_dval pos_eqb_spec) by exact Hk0'.
                rewrite (cget_app_notin positive dval Pos.eqb dflt_dval pos_eqb_spec) by exact Hn.
                cbn [Model.cget]. rewrite Pos.eqb_refl. rewrite Ecomp. unfold dask_comp at 1 2. rewrite Lk. fold cc.
                split; [exact SV|]. rewrite Dk0.
                destruct (in_dec Pos.eq_dec c (arg_deps K v)) as [Hc|Hc].
                ** destruct (Hcc (Hd c Hc)) as [_ El]. rewrite El. exact SP.
                ** rewrite (cnt_zero c _ Hc) in *. cbn [rep repeat concat] in *. exact SP.
        * (* a key that is not in the dict: same on both sides *)
          assert (L' : dlookup d' k0 = None) by (rewrite (lookup_d' k0 Ek), Lk; reflexivity).
          exists (T' ++ [(k0, dask_comp apply d' k0 (dget T'))]). split.
          { apply valid_snoc; [exact V' | exact Hk0' |]. unfold dask_deps. rewrite L'. intros x []. }
          split.
          -- rewrite !(done_app positive dval). cbn [Model.done map fst]. unfold remc. rewrite filter_app. cbn [filter].
             assert (E2 : Pos.eqb k0 c = false) by (apply Pos.eqb_neq; exact Ek). rewrite E2. cbn [negb]. rewrite D'. reflexivity.
          -- intros k Hk. rewrite (done_app positive dval) in Hk. cbn [Model.done map fst] in Hk.
             assert (Ec : dget (T ++ [(k0, dask_comp apply d k0 (dget T))]) c = dget T c).
             { destruct (in_dec Pos.eq_dec c (ddone T)) as [Hc|Hc].
               - apply (cget_app_in positive dval Pos.eqb dflt_dval pos_eqb_spec). exact Hc.
               - rewrite (cget_app_notin positive dval Pos.eqb dflt_dval pos_eqb_spec) by exact Hc.
                 cbn [Model.cget]. assert (E3 : Pos.eqb c k0 = false) by (apply Pos.eqb_neq; intro; subst; contradiction).
                 rewrite E3. symmetry. apply cget_notin. exact Hc. }
             rewrite Ec. apply in_app_or in Hk. destruct Hk as [Hk|[Hk|[]]].
             ++ assert (HkT : In k (ddone T)) by (rewrite D' in Hk; apply filter_In in Hk; tauto).
                rewrite (cget_app_in positive dval Pos.eqb dflt_dval pos_eqb_spec) by exact Hk.
                rewrite (cget_app_in positive dval Pos.eqb dflt_dval pos_eqb_spec) by exact HkT. apply A'. exact Hk.
             ++ subst k. rewrite (cget_app_notin positive dval Pos.eqb dflt_dval pos_eqb_spec) by exact Hk0'.
                rewrite (cget_app_notin positive dval Pos.eqb dflt_dval pos_eqb_spec) by exact Hn.
                cbn [Model.cget]. rewrite Pos.eqb_refl. unfold dask_comp, dask_deps. rewrite L', Lk.
                cbn [fst snd cnt filter length rep repeat concat app]. split; [reflexivity | apply Permutation_refl].
  Qed.
End Inline.

Lemma dlookup_In d k v : dlookup d k = Some v -> In (k, v) d.
Proof.
  induction d as [|[k' v'] tl IH]; cbn [dlookup]; [discriminate|].
  destruct (Pos.eqb k k') eqn:E.
  - apply Pos.eqb_eq in E. intros H. inversion H. subst. left. reflexivity.
  - intros H. right. apply IH. exact H.
Qed.

Lemma NoDup_filter_pos (f : positive -> bool) l : NoDup l -> NoDup (filter f l).
Proof. apply NoDup_filter. Qed.

Section InlineGet.
  Variable apply : positive -> list sval -> sval.

  Notation dget := (cget positive dval Pos.eqb dflt_dval).
  Notation ddone := (done positive dval).

  (* an acyclic dict: the greedy schedule is a complete valid trace *)
  Lemma acyclic_trace d : NoDup (dkeys d) -> length (dask_sched d) = length d ->
    exists T, dask_run apply d (dask_sched d) = Some T /\ dvalid apply d T /\ ddone T = dask_sched d /\
              (forall k, In k (ddone T) <-> In k (dkeys d)).
  Proof.
    intros Nd Hl.
    destruct (greedy_runs positive dval Pos.eqb dflt_dval (dask_deps d) (dask_comp apply d) (length d) (dkeys d) []) as [T HT].
    change (dask_run apply d (dask_sched d) = Some T) in HT.
    exists T. split; [exact HT|]. split; [eapply dask_run_valid; exact HT|].
    pose proof (dask_run_done apply _ _ _ HT) as D. split; [exact D|].
    destruct (greedy_nodup_incl positive Pos.eqb (dask_deps d) pos_eqb_spec (length d) (dkeys d) [] (NoDup_nil _)) as [Ns Is].
    cbn [app] in Ns. fold (dask_sched d) in Ns, Is. rewrite D. intros k. split; [apply Is|].
    apply NoDup_length_incl; [exact Ns | | exact Is]. unfold dkeys. rewrite map_length. lia.
  Qed.

  (* a dict with a complete valid trace: dask_get returns what the trace holds *)
  Lemma get_of_trace d T : NoDup (dkeys d) -> dvalid apply d T -> (forall k, In k (ddone T) <-> In k (dkeys d)) ->
    length (dask_sched d) = length d /\
    (forall r, dask_get apply d r = if memp r (dkeys d) then ROk (fst (dget T r)) else ROther) /\
    (exists T2, dask_run apply d (dask_sched d) = Some T2 /\ dvalid apply d T2 /\
                (forall k, In k (ddone T2) <-> In k (dkeys d)) /\ forall k, In k (dkeys d) -> dget T2 k = dget T k).
  Proof.
    intros Nd V Cov.
    assert (Ld : length (dkeys d) = length d) by (unfold dkeys; apply map_length).
    pose proof (greedy_complete positive dval Pos.eqb dflt_dval (dask_deps d) (dask_comp apply d) pos_eqb_spec
                  T (dkeys d) V (fun k => iff_sym (Cov k)) Nd (length d) [] (NoDup_nil _)
                  (fun x (H : In x []) => match H with end)) as GL.
    specialize (GL ltac:(cbn; lia)). cbn [length] in GL. fold (dask_sched d) in GL.
    assert (Hl : length (dask_sched d) = length d) by lia. split; [exact Hl|].
    destruct (acyclic_trace d Nd Hl) as [T2 [R2 [V2 [D2 C2]]]].
    assert (Ag : forall k, In k (dkeys d) -> dget T2 k = dget T k).
    { intros k Hk. apply (valid_agree positive dval Pos.eqb dflt_dval _ _ pos_eqb_spec (dask_comp_local apply d) T2 V2 T V);
        [apply C2; exact Hk | apply Cov; exact Hk]. }
    split.
    - intros r. unfold dask_get, dask_get_log. rewrite Hl, Nat.eqb_refl. cbn [negb]. rewrite R2.
      destruct (memp r (dkeys d)) eqn:M.
      + apply memp_In in M. assert (M2 : mem positive Pos.eqb r (ddone T2) = true).
        { apply (kmem_In positive Pos.eqb pos_eqb_spec). apply C2. exact M. }
        rewrite M2. cbn [fst]. rewrite (Ag r M). reflexivity.
      + assert (M2 : mem positive Pos.eqb r (ddone T2) = false).
        { destruct (mem positive Pos.eqb r (ddone T2)) eqn:M2; [|reflexivity].
          apply (kmem_In positive Pos.eqb pos_eqb_spec) in M2. apply C2 in M2. apply memp_In in M2. congruence. }
        rewrite M2. reflexivity.
    - exists T2. repeat split; try assumption; apply C2.
  Qed.

  Lemma inline_ok_facts d c : fuse_step_ok d (FInline c) = true ->
    exists vc, dlookup d c = Some vc /\ (forall k v, dlookup d k = Some v -> clean (dkeys d) v = true) /\
               ~ In c (arg_deps (dkeys d) vc) /\ cnt c (all_deps (dkeys d) d) = 1.
  Proof.
    unfold fuse_step_ok. fold (dkeys d). rewrite !andb_true_iff. intros [[[_ Hcl] Hone] Hv].
    rewrite dlookup0_eq in Hv. destruct (dlookup d c) as [[| | |[|h rest]| | | |]|] eqn:L; try discriminate.
    apply andb_true_iff in Hv. destruct Hv as [_ Hs]. exists (STuple (h :: rest)). split; [reflexivity|]. split; [|split].
    - intros k v Hk. rewrite forallb_forall in Hcl. apply (Hcl (k, v)). apply dlookup_In. exact Hk.
    - intro Hi. apply negb_true_iff in Hs. apply memp_In in Hi. congruence.
    - apply Nat.eqb_eq in Hone. exact Hone.
  Qed.

  Theorem inline_preserves_value d c :
    NoDup (dkeys d) -> length (dask_sched d) = length d -> fuse_step_ok d (FInline c) = true ->
    let d1 := fuse_step d (FInline c) in
    NoDup (dkeys d1) /\ length (dask_sched d1) = length d1 /\
    forall r, r <> c -> dask_get apply d1 r = dask_get apply d r.
  Proof.
    intros Nd Hl Hok d1.
    destruct (inline_ok_facts d c Hok) as [vc [Lc [Hcl [Hself _]]]].
    assert (E1 : d1 = d' d c vc) by (apply fuse_step_inline; exact Lc). rewrite E1.
    destruct (acyclic_trace d Nd Hl) as [T [_ [V [_ Cov]]]].
    destruct (inline_trace apply d c vc Lc Hcl Hself T V) as [T' [V' [D' A']]].
    assert (K1 : dkeys (d' d c vc) = remc c (dkeys d)) by apply dkeys_d'.
    assert (Nd1 : NoDup (dkeys (d' d c vc))) by (rewrite K1; apply NoDup_filter; exact Nd).
    assert (Cov' : forall k, In k (ddone T') <-> In k (dkeys (d' d c vc))).
    { intros k. rewrite D', K1. unfold remc. rewrite !filter_In, Cov. tauto. }
    destruct (get_of_trace (d' d c vc) T' Nd1 V' Cov') as [Hl1 [G1 _]].
    destruct (get_of_trace d T Nd V Cov) as [_ [G _]].
    split; [exact Nd1|]. split; [exact Hl1|].
    intros r Hr. rewrite G1, G, K1, memp_remc.
    assert (Er : Pos.eqb r c = false) by (apply Pos.eqb_neq; exact Hr). rewrite Er, andb_true_r.
    destruct (memp r (dkeys d)) eqn:M; [|reflexivity]. f_equal. apply A'.
    rewrite D'. apply filter_In. split; [apply Cov; apply memp_In; exact M | rewrite Er; reflexivity].
  Qed.
End InlineGet.

(* ---- the alias step ---------------------------------------------------------------------------------- *)
Section Alias.
  Variable apply : positive -> list sval -> sval.
  Variable d : dsk.
  Variables r a : positive.
  Variable vr : sval.
  Notation K := (dkeys d).
  Notation K2 := (K ++ [a]).
  Hypothesis Hlook : dlookup d r = Some vr.
  Hypothesis Hfresh : ~ In a K.
  Hypothesis Hnoa : forall k v, dlookup d k = Some v -> ~ In a (arg_deps K2 v).

  Definition d2 : dsk := map (fun kv => if Pos.eqb (fst kv) r then (r, SStr a) else kv) d ++ [(a, vr)].

  Lemma fuse_step_alias : fuse_step d (FAlias r a) = d2.
  Proof. unfold fuse_step. rewrite dlookup0_eq, Hlook. reflexivity. Qed.

  Lemma dkeys_d2 : dkeys d2 = K2.
  Proof.
    unfold d2, dkeys. rewrite map_app, map_map. cbn [map fst]. f_equal. apply map_ext. intros [k v]. cbn [fst].
    destruct (Pos.eqb k r) eqn:E; [apply Pos.eqb_eq in E; subst; reflexivity | reflexivity].
  Qed.

  Lemma remc_K2 : remc a K2 = K.
  Proof.
    unfold remc. rewrite filter_app. cbn [filter]. rewrite Pos.eqb_refl. cbn [negb]. rewrite app_nil_r.
    clear Hnoa Hlook. induction K as [|x tl IH]; [reflexivity|]. cbn [filter].
    destruct (Pos.eqb x a) eqn:E.
    - apply Pos.eqb_eq in E. subst. exfalso. apply Hfresh. left. reflexivity.
    - cbn [negb]. f_equal. apply IH. intro Hi. apply Hfresh. right. exact Hi.
  Qed.

  (* values of d read the same with the extra key a *)
  Lemma grow cc v : ~ In a (arg_deps K2 v) ->
    eval_arg apply K2 cc v = eval_arg apply K cc v /\ arg_deps K2 v = arg_deps K v.
  Proof.
    intros H. destruct (shrink apply K2 a cc v H) as [E D]. rewrite remc_K2 in E, D. split; symmetry; assumption.
  Qed.

  Lemma rK : In r K.
  Proof.
    clear Hnoa Hfresh. revert Hlook. unfold dkeys. induction d as [|[k v] tl IH]; cbn [dlookup map fst]; [discriminate|].
    destruct (Pos.eqb r k) eqn:E; [apply Pos.eqb_eq in E; subst; left; reflexivity | intros H; right; apply IH; exact H].
  Qed.

  Lemma ra : r <> a.
  Proof. intro E. apply Hfresh. rewrite <- E. exact rK. Qed.

  Lemma lookup_d2_other k : k <> r -> k <> a -> dlookup d2 k = dlookup d k.
  Proof.
    intros H1 H2. unfold d2. clear Hnoa Hlook Hfresh.
    induction d as [|[k' v] tl IH]; cbn [map app dlookup fst].
    - destruct (Pos.eqb k a) eqn:E; [apply Pos.eqb_eq in E; contradiction | reflexivity].
    - destruct (Pos.eqb k' r) eqn:E'; cbn [dlookup fst].
      + apply Pos.eqb_eq in E'. subst k'. destruct (Pos.eqb k r) eqn:E1; [apply Pos.eqb_eq in E1; contradiction | exact IH].
      + destruct (Pos.eqb k k'); [reflexivity | exact IH].
  Qed.

  Lemma lookup_d2_a : dlookup d2 a = Some vr.
  Proof.
    unfold d2. assert (Hfr : ~ In a K) by exact Hfresh. pose proof ra as Hra. clear Hnoa Hlook Hfresh.
    induction d as [|[k' v] tl IH]; cbn [map app dlookup fst].
    - rewrite Pos.eqb_refl. reflexivity.
    - assert (Hk'a : k' <> a) by (intro; subst; apply Hfr; left; reflexivity).
      assert (Hfr' : ~ In a (dkeys tl)) by (intro Hi; apply Hfr; right; exact Hi).
      destruct (Pos.eqb k' r) eqn:E'; cbn [dlookup fst].
      + assert (E3 : Pos.eqb a r = false) by (apply Pos.eqb_neq; intro; subst; apply Hra; reflexivity).
        rewrite E3. apply IH. exact Hfr'.
      + assert (E3 : Pos.eqb a k' = false) by (apply Pos.eqb_neq; intro; subst; apply Hk'a; reflexivity).
        rewrite E3. apply IH. exact Hfr'.
  Qed.

  Lemma lookup_d2_r : dlookup d2 r = Some (SStr a).
  Proof.
    unfold d2. revert Hlook. clear Hnoa Hfresh.
    induction d as [|[k' v] tl IH]; cbn [map app dlookup fst]; [discriminate|].
    destruct (Pos.eqb r k') eqn:E.
    - apply Pos.eqb_eq in E. subst k'. rewrite Pos.eqb_refl. cbn [dlookup fst]. rewrite Pos.eqb_refl. reflexivity.
    - intros H. assert (E' : Pos.eqb k' r = false) by (apply Pos.eqb_neq; intro; subst; rewrite Pos.eqb_refl in E; discriminate).
      rewrite E'. cbn [dlookup fst]. rewrite E. apply IH. exact H.
  Qed.
  Notation dget := (cget positive dval Pos.eqb dflt_dval).
  Notation ddone := (done positive dval).

  Lemma lookup_some k : In k K -> exists v, dlookup d k = Some v.
  Proof.
    clear Hnoa Hfresh Hlook. unfold dkeys. induction d as [|[k' v] tl IH]; cbn [map fst dlookup]; [intros []|].
    destruct (Pos.eqb k k') eqn:E; [intros _; exists v; reflexivity|].
    intros [H|H]; [subst; rewrite Pos.eqb_refl in E; discriminate | apply IH; exact H].
  Qed.

  (* every trace of d over keys of d extends to a trace of the aliased dict with the same values *)
  Lemma alias_trace T : dvalid apply d T -> incl (ddone T) K ->
    exists T2, dvalid apply d2 T2 /\
      (forall k, In k (ddone T2) <-> In k (ddone T) \/ (k = a /\ In r (ddone T))) /\
      (forall k, In k (ddone T) -> fst (dget T2 k) = fst (dget T k)).
  Proof.
    induction 1 as [|T k0 Hv IH Hn Hd]; intros Hin.
    - exists []. split; [constructor|]. split; [intros k; cbn; tauto | intros k []].
    - rewrite (done_app positive dval) in Hin. cbn [Model.done map fst] in Hin.
      destruct IH as [T2 [V2 [D2 A2]]]; [intros x Hx; apply Hin; apply in_or_app; left; exact Hx|].
      assert (Hk0K : In k0 K) by (apply Hin; apply in_or_app; right; left; reflexivity).
      assert (Hk0a : k0 <> a) by (intro; subst; contradiction).
      destruct (lookup_some k0 Hk0K) as [v Lk].
      assert (Dk : dask_deps d k0 = arg_deps K v) by (unfold dask_deps; rewrite Lk; reflexivity).
      rewrite Dk in Hd.
      destruct (grow (fun x => fst (dget T2 x)) v (Hnoa k0 v Lk)) as [Gv Gd].
      assert (Ev : eval_arg apply K (fun x => fst (dget T2 x)) v = eval_arg apply K (fun x => fst (dget T x)) v).
      { apply eval_local. intros x Hx. apply A2. apply Hd. exact Hx. }
      assert (Hn2 : ~ In k0 (ddone T2)).
      { intro Hi. apply D2 in Hi. destruct Hi as [Hi|[Hi _]]; [contradiction | subst; apply Hk0a; reflexivity]. }
      assert (Hsub : incl (arg_deps K v) (ddone T2)) by (intros x Hx; apply D2; left; apply Hd; exact Hx).
      destruct (Pos.eqb k0 r) eqn:Er.
      + (* the aliased key: first the alias computes its task, then r reads it *)
        apply Pos.eqb_eq in Er. subst k0. rewrite Hlook in Lk. inversion Lk. subst v.
        assert (Hna : ~ In a (ddone T2)).
        { intro Hi. apply D2 in Hi. destruct Hi as [Hi|[_ Hi]]; [apply Hfresh; apply Hin; apply in_or_app; left; exact Hi | contradiction]. }
        set (Ta := T2 ++ [(a, dask_comp apply d2 a (dget T2))]).
        assert (Va : dvalid apply d2 Ta).
        { apply valid_snoc; [exact V2 | exact Hna|]. unfold dask_deps. rewrite lookup_d2_a, dkeys_d2, Gd. exact Hsub. }
        assert (Ca : dask_comp apply d2 a (dget T2) = eval_arg apply K (fun x => fst (dget T x)) vr).
        { unfold dask_comp. rewrite lookup_d2_a, dkeys_d2, Gv. exact Ev. }
        assert (Hnr : ~ In r (ddone Ta)).
        { unfold Ta. rewrite (done_app positive dval). cbn [Model.done map fst]. intro Hi. apply in_app_or in Hi.
          destruct Hi as [Hi|[Hi|[]]]; [contradiction | apply ra; symmetry; exact Hi]. }
        exists (Ta ++ [(r, dask_comp apply d2 r (dget Ta))]). split; [|split].
        * apply valid_snoc; [exact Va | exact Hnr|]. unfold dask_deps. rewrite lookup_d2_r, dkeys_d2. cbn [arg_deps].
          assert (M : memp a K2 = true) by (apply memp_In; apply in_or_app; right; left; reflexivity). rewrite M.
          intros x [Hx|[]]. subst x. unfold Ta. rewrite (done_app positive dval). apply in_or_app. right. left. reflexivity.
        * intros k. unfold Ta. rewrite !(done_app positive dval). cbn [Model.done map fst]. rewrite !in_app_iff. cbn [In].
          rewrite D2. split.
          -- intros [[[H|[H1 H2]]|[H|[]]]|[H|[]]]; try tauto. subst k. right. split; [reflexivity | right; left; reflexivity].
          -- intros [[H|[H|[]]]|[H1 [H2|[H2|[]]]]]; try tauto. subst k. left. right. left. reflexivity.
        * intros k Hk. rewrite (done_app positive dval) in Hk. cbn [Model.done map fst] in Hk.
          apply in_app_or in Hk. destruct Hk as [Hk|[Hk|[]]].
          -- assert (Hk2 : In k (ddone T2)) by (apply D2; left; exact Hk).
             rewrite (cget_app_in positive dval Pos.eqb dflt_dval pos_eqb_spec) by (unfold Ta; rewrite (done_app positive dval); apply in_or_app; left; exact Hk2).
             unfold Ta. rewrite (cget_app_in positive dval Pos.eqb dflt_dval pos_eqb_spec) by exact Hk2.
             rewrite (cget_app_in positive dval Pos.eqb dflt_dval pos_eqb_spec) by exact Hk. apply A2. exact Hk.
          -- subst k. rewrite (cget_app_notin positive dval Pos.eqb dflt_dval pos_eqb_spec) by exact Hnr.
             rewrite (cget_app_notin positive dval Pos.eqb dflt_dval pos_eqb_spec) by exact Hn.
             cbn [Model.cget]. rewrite Pos.eqb_refl. unfold dask_comp at 1. rewrite lookup_d2_r, dkeys_d2. cbn [eval_arg].
             assert (M : memp a K2 = true) by (apply memp_In; apply in_or_app; right; left; reflexivity). rewrite M. cbn [fst].
             unfold Ta. rewrite (cget_app_notin positive dval Pos.eqb dflt_dval pos_eqb_spec) by exact Hna.
             cbn [Model.cget]. rewrite Pos.eqb_refl, Ca. unfold dask_comp. rewrite Hlook. reflexivity.
      + (* any other key: the same task, read the same *)
        apply Pos.eqb_neq in Er.
        assert (L2 : dlookup d2 k0 = Some v) by (rewrite (lookup_d2_other k0 Er Hk0a); exact Lk).
        assert (C2 : dask_comp apply d2 k0 (dget T2) = dask_comp apply d k0 (dget T)).
        { unfold dask_comp. rewrite L2, Lk, dkeys_d2, Gv. exact Ev. }
        exists (T2 ++ [(k0, dask_comp apply d2 k0 (dget T2))]). split; [|split].
        * apply valid_snoc; [exact V2 | exact Hn2|]. unfold dask_deps. rewrite L2, dkeys_d2, Gd. exact Hsub.
        * intros k. rewrite !(done_app positive dval). cbn [Model.done map fst]. rewrite !in_app_iff. cbn [In]. rewrite D2.
          split.
          -- intros [[H|[H1 H2]]|[H|[]]]; tauto.
          -- intros [[H|[H|[]]]|[H1 [H2|[H2|[]]]]]; try tauto; subst k0; exfalso; apply Er; reflexivity.
        * intros k Hk. rewrite (done_app positive dval) in Hk. cbn [Model.done map fst] in Hk.
          apply in_app_or in Hk. destruct Hk as [Hk|[Hk|[]]].
          -- rewrite (cget_app_in positive dval Pos.eqb dflt_dval pos_eqb_spec) by (apply D2; left; exact Hk).
             rewrite (cget_app_in positive dval Pos.eqb dflt_dval pos_eqb_spec) by exact Hk. apply A2. exact Hk.
          -- subst k. rewrite (cget_app_notin positive dval Pos.eqb dflt_dval pos_eqb_spec) by exact Hn2.
             rewrite (cget_app_notin positive dval Pos.eqb dflt_dval pos_eqb_spec) by exact Hn.
             cbn [Model.cget]. rewrite Pos.eqb_refl, C2. reflexivity.
  Qed.
End Alias.

(* ---- sequences of inline steps ------------------------------------------------------------------------- *)

Theorem inline_steps_preserve (apply : positive -> list sval -> sval) (r : positive) :
  forall steps d dn,
    NoDup (dkeys d) -> length (dask_sched d) = length d ->
    inline_only steps = true -> avoids r steps = true -> fuse_steps d steps = (dn, true) ->
    NoDup (dkeys dn) /\ length (dask_sched dn) = length dn /\ dask_get apply dn r = dask_get apply d r.
Proof.
  induction steps as [|st tl IH]; intros d dn Nd Hl Hio Hav Hf.
  - cbn [fuse_steps] in Hf. inversion Hf. subst. repeat split; assumption.
  - cbn [fuse_steps] in Hf. destruct (fuse_steps (fuse_step d st) tl) as [d1 ok1] eqn:E1.
    inversion Hf as [[Ed Eok]]. subst d1. apply andb_true_iff in Eok. destruct Eok as [Hok Hok1]. subst ok1.
    cbn [inline_only forallb] in Hio. apply andb_true_iff in Hio. destruct Hio as [Hst Hio].
    cbn [avoids forallb] in Hav. apply andb_true_iff in Hav. destruct Hav as [Hr Hav].
    destruct st as [c|r0 a0]; [|discriminate].
    destruct (inline_preserves_value apply d c Nd Hl Hok) as [Nd1 [Hl1 G1]].
    destruct (IH (fuse_step d (FInline c)) dn Nd1 Hl1 Hio Hav E1) as [Ndn [Hln Gn]].
    split; [exact Ndn|]. split; [exact Hln|]. rewrite Gn. apply G1.
    apply negb_true_iff in Hr. apply Pos.eqb_neq in Hr. intro E. apply Hr. symmetry. exact E.
Qed.

Lemma dkeys_lookup d k : In k (dkeys d) -> exists v, dlookup d k = Some v.
Proof.
  unfold dkeys. induction d as [|[k' v] tl IH]; cbn [map fst dlookup]; [intros []|].
  destruct (Pos.eqb k k') eqn:E; [intros _; exists v; reflexivity|].
  intros [H|H]; [subst; rewrite Pos.eqb_refl in E; discriminate | apply IH; exact H].
Qed.

Section AliasGet.
  Variable apply : positive -> list sval -> sval.
  Notation dget := (cget positive dval Pos.eqb dflt_dval).
  Notation ddone := (done positive dval).

  Theorem alias_preserves_value d r a :
    NoDup (dkeys d) -> length (dask_sched d) = length d -> fuse_step_ok d (FAlias r a) = true ->
    let d1 := fuse_step d (FAlias r a) in
    NoDup (dkeys d1) /\ length (dask_sched d1) = length d1 /\
    forall q, q <> a -> dask_get apply d1 q = dask_get apply d q.
  Proof.
    intros Nd Hl Hok d1. unfold fuse_step_ok in Hok. fold (dkeys d) in Hok.
    rewrite !andb_true_iff, !negb_true_iff in Hok. destruct Hok as [[Hr Ha] Hna].
    apply memp_In in Hr. destruct (dkeys_lookup d r Hr) as [vr Lr].
    assert (Hfresh : ~ In a (dkeys d)) by (intro Hi; apply memp_In in Hi; congruence).
    assert (Hnoa : forall k v, dlookup d k = Some v -> ~ In a (arg_deps (dkeys d ++ [a]) v)).
    { intros k v Lk Hi. assert (In a (all_deps (dkeys d ++ [a]) d)).
      { unfold all_deps. apply in_flat_map. exists (k, v). split; [apply dlookup_In; exact Lk | exact Hi]. }
      apply memp_In in H. congruence. }
    assert (E1 : d1 = d2 d r a vr) by (apply fuse_step_alias; exact Lr). rewrite E1.
    destruct (acyclic_trace apply d Nd Hl) as [T [_ [V [_ Cov]]]].
    destruct (alias_trace apply d r a vr Lr Hfresh Hnoa T V) as [T2 [V2 [D2 A2]]]; [intros x Hx; apply Cov; exact Hx|].
    assert (K1 : dkeys (d2 d r a vr) = dkeys d ++ [a]) by apply dkeys_d2.
    assert (Nd1 : NoDup (dkeys (d2 d r a vr))) by (rewrite K1; apply NoDup_app_snoc; assumption).
    assert (Cov2 : forall k, In k (ddone T2) <-> In k (dkeys (d2 d r a vr))).
    { intros k. rewrite D2, K1, in_app_iff, Cov. cbn [In]. split.
      - intros [H|[H _]]; [left; exact H | right; left; symmetry; exact H].
      - intros [H|[H|[]]]; [left; exact H | right; split; [symmetry; exact H | apply Cov; exact Hr]]. }
    destruct (get_of_trace apply (d2 d r a vr) T2 Nd1 V2 Cov2) as [Hl1 [G1 _]].
    destruct (get_of_trace apply d T Nd V Cov) as [_ [G _]].
    split; [exact Nd1|]. split; [exact Hl1|].
    intros q Hq. rewrite G1, G, K1.
    assert (M : memp q (dkeys d ++ [a]) = memp q (dkeys d)).
    { destruct (memp q (dkeys d)) eqn:M1.
      - apply memp_In. apply in_or_app. left. apply memp_In. exact M1.
      - destruct (memp q (dkeys d ++ [a])) eqn:M2; [|reflexivity]. apply memp_In in M2. apply in_app_or in M2.
        destruct M2 as [M2|[M2|[]]]; [apply memp_In in M2; congruence | subst; contradiction]. }
    rewrite M. destruct (memp q (dkeys d)) eqn:M1; [|reflexivity]. f_equal. apply A2. apply Cov. apply memp_In. exact M1.
  Qed.

  (* any sequence of legal fuse steps: the value of every key that no step removes or introduces is unchanged,
     and the rewritten dict is again duplicate free and acyclic *)
  Theorem fuse_steps_preserve_value (r : positive) :
    forall steps d dn,
      NoDup (dkeys d) -> length (dask_sched d) = length d ->
      avoids r steps = true -> fuse_steps d steps = (dn, true) ->
      NoDup (dkeys dn) /\ length (dask_sched dn) = length dn /\ dask_get apply dn r = dask_get apply d r.
  Proof.
    induction steps as [|st tl IH]; intros d dn Nd Hl Hav Hf.
    - cbn [fuse_steps] in Hf. inversion Hf. subst. repeat split; assumption.
    - cbn [fuse_steps] in Hf. destruct (fuse_steps (fuse_step d st) tl) as [dm ok1] eqn:E1.
      inversion Hf as [[Ed Eok]]. subst dm. apply andb_true_iff in Eok. destruct Eok as [Hok Hok1]. subst ok1.
      cbn [avoids forallb] in Hav. apply andb_true_iff in Hav. destruct Hav as [Hr Hav].
      destruct st as [c|r0 a0].
      + destruct (inline_preserves_value apply d c Nd Hl Hok) as [Nd1 [Hl1 G1]].
        destruct (IH (fuse_step d (FInline c)) dn Nd1 Hl1 Hav E1) as [Ndn [Hln Gn]].
        split; [exact Ndn|]. split; [exact Hln|]. rewrite Gn. apply G1.
        apply negb_true_iff in Hr. apply Pos.eqb_neq in Hr. intro E. apply Hr. symmetry. exact E.
      + destruct (alias_preserves_value d r0 a0 Nd Hl Hok) as [Nd1 [Hl1 G1]].
        destruct (IH (fuse_step d (FAlias r0 a0)) dn Nd1 Hl1 Hav E1) as [Ndn [Hln Gn]].
        split; [exact Ndn|]. split; [exact Hln|]. rewrite Gn. apply G1.
        apply negb_true_iff in Hr. apply Pos.eqb_neq in Hr. intro E. apply Hr. symmetry. exact E.
  Qed.
End AliasGet.
