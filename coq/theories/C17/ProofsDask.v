(* PV.C17.ProofsDask — dask graph-spec evaluation of the dict made by as_dask_dict against the
   sequential reference evaluation of the task graph. *)
From Coq Require Import List Bool PArith Arith Lia Permutation.
From PV Require Import Base.PyData C17.Model C17.ProofsSched.
Import ListNotations.
Local Open Scope nat_scope.

(* ---- induction on values (nested lists) ---------------------------------------------------- *)
Section SvalInd.
  Variable P : sval -> Prop.
  Hypothesis Hstr : forall s, P (SStr s).
  Hypothesis Hatom : forall a, P (SAtom a).
  Hypothesis Hfun : forall f, P (SFun f).
  Hypothesis Htup : forall l, Forall P l -> P (STuple l).
  Hypothesis Hlist : forall l, Forall P l -> P (SList l).
  Hypothesis Hdict : forall ks vs, Forall P ks -> Forall P vs -> P (SDict ks vs).
  Hypothesis Hlit : forall v, P v -> P (SLit v).
  Hypothesis Hfut : forall v, P v -> P (SFut v).
  Fixpoint sval_ind' (a : sval) : P a :=
    let fix go (l : list sval) : Forall P l :=
        match l with
        | [] => Forall_nil P
        | x :: tl => Forall_cons x (sval_ind' x) (go tl)
        end in
    match a with
    | SStr s => Hstr s
    | SAtom x => Hatom x
    | SFun f => Hfun f
    | STuple l => Htup l (go l)
    | SList l => Hlist l (go l)
    | SDict ks vs => Hdict ks vs (go ks) (go vs)
    | SLit v => Hlit v (sval_ind' v)
    | SFut v => Hfut v (sval_ind' v)
    end.
End SvalInd.

(* ---- decidable equalities ------------------------------------------------------------------- *)
Definition svals_eqb : list sval -> list sval -> bool :=
  fix go (l m : list sval) : bool :=
    match l, m with
    | [], [] => true
    | x :: l', y :: m' => sval_eqb x y && go l' m'
    | _, _ => false
    end.

Lemma svals_eqb_spec l : Forall (fun a => forall b, sval_eqb a b = true <-> a = b) l ->
  forall m, svals_eqb l m = true <-> l = m.
Proof.
  induction 1 as [|x tl Hx Htl IH]; intros m; destruct m as [|y m']; cbn [svals_eqb].
  - tauto.
  - split; discriminate.
  - split; discriminate.
  - rewrite andb_true_iff, Hx, IH. split.
    + intros [E1 E2]. subst. reflexivity.
    + intros E. inversion E. tauto.
Qed.

Lemma sval_eqb_spec : forall a b, sval_eqb a b = true <-> a = b.
Proof.
  induction a using sval_ind'; intros b; destruct b; cbn [sval_eqb];
    try (split; discriminate);
    try (rewrite Pos.eqb_eq; split; [intros E; subst; reflexivity | intros E; inversion E; reflexivity]).
  - change (svals_eqb l l0 = true <-> STuple l = STuple l0).
    rewrite (svals_eqb_spec l H). split; [intros E; subst; reflexivity | intros E; inversion E; reflexivity].
  - change (svals_eqb l l0 = true <-> SList l = SList l0).
    rewrite (svals_eqb_spec l H). split; [intros E; subst; reflexivity | intros E; inversion E; reflexivity].
  - change (svals_eqb ks ks0 && svals_eqb vs vs0 = true <-> SDict ks vs = SDict ks0 vs0).
    rewrite andb_true_iff, (svals_eqb_spec ks H), (svals_eqb_spec vs H0).
    split; [intros [E1 E2]; subst; reflexivity | intros E; inversion E; tauto].
  - rewrite IHa. split; [intros E; subst; reflexivity | intros E; inversion E; reflexivity].
  - rewrite IHa. split; [intros E; subst; reflexivity | intros E; inversion E; reflexivity].
Qed.

Lemma list_eqb_spec {A} (eqb : A -> A -> bool) :
  (forall a b, eqb a b = true <-> a = b) -> forall l m, list_eqb eqb l m = true <-> l = m.
Proof.
  intros H. induction l as [|x tl IH]; intros m; destruct m as [|y m']; cbn [list_eqb].
  - tauto.
  - split; discriminate.
  - split; discriminate.
  - rewrite andb_true_iff, H, IH. split.
    + intros [E1 E2]. subst. reflexivity.
    + intros E. inversion E. tauto.
Qed.

Lemma task_eqb_spec : forall a b, task_eqb a b = true <-> a = b.
Proof.
  intros [i1 g1 f1 in1 c1] [i2 g2 f2 in2 c2]. unfold task_eqb. cbn [tid tuid tfun tinputs tctx].
  rewrite !andb_true_iff, !Pos.eqb_eq, (list_eqb_spec sval_eqb sval_eqb_spec), Bool.eqb_true_iff.
  split.
  - intros [[[[E1 E2] E3] E4] E5]. subst. reflexivity.
  - intros E. inversion E. tauto.
Qed.

Lemma pos_eqb_spec : forall a b : positive, Pos.eqb a b = true <-> a = b.
Proof. exact Pos.eqb_eq. Qed.

Lemma nodupp_spec l : nodupp l = true <-> NoDup l.
Proof.
  unfold nodupp. induction l as [|x tl IH].
  - split; [constructor | reflexivity].
  - rewrite andb_true_iff, negb_true_iff, IH. split.
    + intros [H1 H2]. constructor; [|exact H2]. intro Hi. apply memp_In in Hi. congruence.
    + intros H. inversion H as [|? ? Hx Htl]; subst. split; [|exact Htl].
      destruct (memp x tl) eqn:E; [apply memp_In in E; contradiction | reflexivity].
Qed.

(* ---- the evaluator, with the inner loops named ---------------------------------------------- *)
Section Eval.
  Variable apply : positive -> list sval -> sval.
  Variable keys : list positive.

  Definition eval_list (c : positive -> sval) : list sval -> list sval * list event :=
    fix eval_list (l : list sval) : list sval * list event :=
      match l with
      | [] => ([], [])
      | x :: tl => let (v, e1) := eval_arg apply keys c x in
                   let (vs, e2) := eval_list tl in (v :: vs, e1 ++ e2)
      end.

  Definition deps_list : list sval -> list positive :=
    fix deps_list (l : list sval) : list positive :=
      match l with
      | [] => []
      | x :: tl => arg_deps keys x ++ deps_list tl
      end.

  Definition any_key : list sval -> bool :=
    fix any (l : list sval) : bool :=
      match l with [] => false | x :: tl => has_key_string keys x || any tl end.
  Definition any_call : list sval -> bool :=
    fix any (l : list sval) : bool :=
      match l with [] => false | x :: tl => has_call_tuple x || any tl end.

  Lemma eval_tuple c l : eval_arg apply keys c (STuple l) =
    match l with
    | SFun f :: rest => let (vs, ev) := eval_list c rest in (apply f vs, ev ++ [(f, vs)])
    | SLit v :: rest => let (vs, ev) := eval_list c rest in (v, ev)
    | _ => let (vs, ev) := eval_list c l in (STuple vs, ev)
    end.
  Proof. destruct l as [|[] tl]; reflexivity. Qed.

  Lemma eval_slist c l : eval_arg apply keys c (SList l) = let (vs, ev) := eval_list c l in (SList vs, ev).
  Proof. reflexivity. Qed.

  Lemma deps_tuple l : arg_deps keys (STuple l) = deps_list l.
  Proof. reflexivity. Qed.
  Lemma deps_slist l : arg_deps keys (SList l) = deps_list l.
  Proof. reflexivity. Qed.

  Lemma key_tuple l : has_key_string keys (STuple l) = any_key l.
  Proof. reflexivity. Qed.
  Lemma key_slist l : has_key_string keys (SList l) = any_key l.
  Proof. reflexivity. Qed.
  Lemma call_tuple l : has_call_tuple (STuple l) = match l with SFun _ :: _ | SLit _ :: _ => true | _ => any_call l end.
  Proof. destruct l as [|[] tl]; reflexivity. Qed.
  Lemma call_slist l : has_call_tuple (SList l) = any_call l.
  Proof. reflexivity. Qed.

  Lemma eval_list_cons c x tl : eval_list c (x :: tl) =
    let (v, e1) := eval_arg apply keys c x in let (vs, e2) := eval_list c tl in (v :: vs, e1 ++ e2).
  Proof. reflexivity. Qed.

  Lemma deps_list_app l1 l2 : deps_list (l1 ++ l2) = deps_list l1 ++ deps_list l2.
  Proof.
    induction l1 as [|x tl IH]; cbn [app deps_list]; [reflexivity|].
    fold deps_list. rewrite IH, app_assoc. reflexivity.
  Qed.

  Lemma eval_list_app c l1 l2 : eval_list c (l1 ++ l2) =
    (fst (eval_list c l1) ++ fst (eval_list c l2), snd (eval_list c l1) ++ snd (eval_list c l2)).
  Proof.
    induction l1 as [|x tl IH]; cbn [app].
    - cbn. destruct (eval_list c l2). reflexivity.
    - rewrite !eval_list_cons, IH. destruct (eval_arg apply keys c x) as [v e1].
      destruct (eval_list c tl) as [vs e2]. cbn [fst snd app]. rewrite app_assoc. reflexivity.
  Qed.

  (* strings that are keys: the values of those keys *)
  Lemma eval_list_keys c ks : (forall k, In k ks -> memp k keys = true) ->
    eval_list c (map SStr ks) = (map c ks, []).
  Proof.
    induction ks as [|k tl IH]; intros H; cbn [map]; [reflexivity|].
    rewrite eval_list_cons. cbn [eval_arg]. rewrite (H k (or_introl eq_refl)).
    rewrite IH by (intros k' Hk'; apply H; right; exact Hk'). reflexivity.
  Qed.

  Lemma deps_list_keys ks : (forall k, In k ks -> memp k keys = true) -> deps_list (map SStr ks) = ks.
  Proof.
    induction ks as [|k tl IH]; intros H; cbn [map deps_list]; [reflexivity|].
    fold deps_list. cbn [arg_deps]. rewrite (H k (or_introl eq_refl)).
    rewrite IH by (intros k' Hk'; apply H; right; exact Hk'). reflexivity.
  Qed.

  Lemma any_key_false l : any_key l = false -> forall x, In x l -> has_key_string keys x = false.
  Proof.
    induction l as [|y tl IH]; intros H x Hx; [contradiction|].
    cbn [any_key] in H. fold any_key in H. apply orb_false_iff in H. destruct H as [H1 H2].
    destruct Hx as [Hx|Hx]; [subst; exact H1 | apply IH; assumption].
  Qed.
  Lemma any_call_false l : any_call l = false -> forall x, In x l -> has_call_tuple x = false.
  Proof.
    induction l as [|y tl IH]; intros H x Hx; [contradiction|].
    cbn [any_call] in H. fold any_call in H. apply orb_false_iff in H. destruct H as [H1 H2].
    destruct Hx as [Hx|Hx]; [subst; exact H1 | apply IH; assumption].
  Qed.

  (* a value without key-strings and without callable-headed tuples is passed as it is *)
  Lemma eval_list_id c l : (forall x, In x l -> eval_arg apply keys c x = (x, [])) -> eval_list c l = (l, []).
  Proof.
    induction l as [|x tl IH]; intros H; [reflexivity|].
    rewrite eval_list_cons, (H x (or_introl eq_refl)), IH by (intros y Hy; apply H; right; exact Hy).
    reflexivity.
  Qed.
  Lemma deps_list_nil l : (forall x, In x l -> arg_deps keys x = []) -> deps_list l = [].
  Proof.
    induction l as [|x tl IH]; intros H; [reflexivity|].
    cbn [deps_list]. fold deps_list. rewrite (H x (or_introl eq_refl)), IH by (intros y Hy; apply H; right; exact Hy).
    reflexivity.
  Qed.

  Lemma eval_safe c : forall a, has_key_string keys a = false -> has_call_tuple a = false ->
    eval_arg apply keys c a = (a, []) /\ arg_deps keys a = [].
  Proof.
    induction a using sval_ind'; intros Hk Hc.
    - cbn [has_key_string] in Hk. cbn [eval_arg arg_deps]. rewrite Hk. split; reflexivity.
    - split; reflexivity.
    - split; reflexivity.
    - rewrite key_tuple in Hk. rewrite call_tuple in Hc.
      assert (Hc' : any_call l = false /\ match l with SFun _ :: _ | SLit _ :: _ => False | _ => True end).
      { destruct l as [|[] tl]; try (split; [exact Hc | exact I]); discriminate. }
      destruct Hc' as [Hc1 Hc2].
      assert (Hall : forall x, In x l -> eval_arg apply keys c x = (x, []) /\ arg_deps keys x = []).
      { intros x Hx. rewrite Forall_forall in H. apply H; [exact Hx | eapply any_key_false; eassumption | eapply any_call_false; eassumption]. }
      split.
      + rewrite eval_tuple.
        assert (E : eval_list c l = (l, [])) by (apply eval_list_id; intros x Hx; apply Hall; exact Hx).
        destruct l as [|[] tl]; try (rewrite E; reflexivity); contradiction.
      + rewrite deps_tuple. apply deps_list_nil. intros x Hx. apply Hall. exact Hx.
    - rewrite key_slist in Hk. rewrite call_slist in Hc.
      assert (Hall : forall x, In x l -> eval_arg apply keys c x = (x, []) /\ arg_deps keys x = []).
      { intros x Hx. rewrite Forall_forall in H. apply H; [exact Hx | eapply any_key_false; eassumption | eapply any_call_false; eassumption]. }
      split.
      + rewrite eval_slist, (eval_list_id c l) by (intros x Hx; apply Hall; exact Hx). reflexivity.
      + rewrite deps_slist. apply deps_list_nil. intros x Hx. apply Hall. exact Hx.
    - split; reflexivity.
    - split; reflexivity.
    - split; reflexivity.
  Qed.

  (* ---- the quoting of as_dask_dict ---------------------------------------------------------- *)
  Definition any_interp : list sval -> bool :=
    fix any (l : list sval) : bool :=
      match l with [] => false | x :: tl => interpreted keys x || any tl end.

  Lemma interp_tuple l : interpreted keys (STuple l) =
    (match l with x :: _ => is_callable x | [] => false end) || any_interp l.
  Proof. reflexivity. Qed.
  Lemma interp_slist l : interpreted keys (SList l) = any_interp l.
  Proof. reflexivity. Qed.

  Lemma any_interp_false l : any_interp l = false -> forall x, In x l -> interpreted keys x = false.
  Proof.
    induction l as [|y tl IH]; intros H x Hx; [contradiction|].
    cbn [any_interp] in H. fold any_interp in H. apply orb_false_iff in H. destruct H as [H1 H2].
    destruct Hx as [Hx|Hx]; [subst; exact H1 | apply IH; assumption].
  Qed.

  Lemma any_key_of l : (forall x, In x l -> has_key_string keys x = false) -> any_key l = false.
  Proof.
    induction l as [|y tl IH]; intros H; [reflexivity|]. cbn [any_key]. fold any_key.
    rewrite (H y (or_introl eq_refl)), IH by (intros x Hx; apply H; right; exact Hx). reflexivity.
  Qed.
  Lemma any_call_of l : (forall x, In x l -> has_call_tuple x = false) -> any_call l = false.
  Proof.
    induction l as [|y tl IH]; intros H; [reflexivity|]. cbn [any_call]. fold any_call.
    rewrite (H y (or_introl eq_refl)), IH by (intros x Hx; apply H; right; exact Hx). reflexivity.
  Qed.

  (* what as_dask_dict leaves unquoted is read literally by the scheduler *)
  Lemma not_interpreted_safe : forall a, interpreted keys a = false ->
    has_key_string keys a = false /\ has_call_tuple a = false.
  Proof.
    induction a using sval_ind'; intros Hi; try (split; reflexivity).
    - cbn [interpreted] in Hi. cbn [has_key_string]. split; [exact Hi | reflexivity].
    - rewrite interp_tuple in Hi. apply orb_false_iff in Hi. destruct Hi as [Hh Ha].
      assert (Hall : forall x, In x l -> has_key_string keys x = false /\ has_call_tuple x = false).
      { intros x Hx. rewrite Forall_forall in H. apply H; [exact Hx | eapply any_interp_false; eassumption]. }
      split.
      + rewrite key_tuple. apply any_key_of. intros x Hx. apply Hall. exact Hx.
      + rewrite call_tuple.
        assert (E : any_call l = false) by (apply any_call_of; intros x Hx; apply Hall; exact Hx).
        destruct l as [|[] tl]; try exact E; cbn [is_callable] in Hh; discriminate.
    - rewrite interp_slist in Hi.
      assert (Hall : forall x, In x l -> has_key_string keys x = false /\ has_call_tuple x = false).
      { intros x Hx. rewrite Forall_forall in H. apply H; [exact Hx | eapply any_interp_false; eassumption]. }
      split.
      + rewrite key_slist. apply any_key_of. intros x Hx. apply Hall. exact Hx.
      + rewrite call_slist. apply any_call_of. intros x Hx. apply Hall. exact Hx.
  Qed.

  (* every static input, quoted or not, reaches the task function as it is, without any call *)
  Lemma eval_quote c a : eval_arg apply keys c (quote keys a) = (a, []) /\ arg_deps keys (quote keys a) = [].
  Proof.
    unfold quote. destruct (interpreted keys a) eqn:E.
    - split; reflexivity.
    - destruct (not_interpreted_safe a E) as [S1 S2]. apply eval_safe; assumption.
  Qed.

  (* the evaluator only reads the cache at the dependencies *)
  Lemma eval_list_local c1 c2 l :
    Forall (fun a => (forall k, In k (arg_deps keys a) -> c1 k = c2 k) ->
                     eval_arg apply keys c1 a = eval_arg apply keys c2 a) l ->
    (forall k, In k (deps_list l) -> c1 k = c2 k) -> eval_list c1 l = eval_list c2 l.
  Proof.
    induction 1 as [|x tl Hx Htl IH]; intros H; [reflexivity|].
    rewrite !eval_list_cons. cbn [deps_list] in H. fold deps_list in H.
    rewrite Hx by (intros k Hk; apply H; apply in_or_app; left; exact Hk).
    rewrite IH by (intros k Hk; apply H; apply in_or_app; right; exact Hk). reflexivity.
  Qed.

  Lemma eval_local c1 c2 : forall a, (forall k, In k (arg_deps keys a) -> c1 k = c2 k) ->
    eval_arg apply keys c1 a = eval_arg apply keys c2 a.
  Proof.
    induction a using sval_ind'; intros Hd.
    - cbn [eval_arg arg_deps] in *. destruct (memp s keys); [|reflexivity].
      rewrite (Hd s (or_introl eq_refl)). reflexivity.
    - reflexivity.
    - reflexivity.
    - rewrite deps_tuple in Hd. rewrite !eval_tuple.
      destruct l as [|x tl].
      + reflexivity.
      + assert (E : eval_list c1 (x :: tl) = eval_list c2 (x :: tl)) by (apply eval_list_local; assumption).
        inversion H as [|? ? Hx Htl]; subst.
        assert (E' : eval_list c1 tl = eval_list c2 tl).
        { apply eval_list_local; [exact Htl|]. intros k Hk. apply Hd. cbn [deps_list]. fold deps_list.
          apply in_or_app. right. exact Hk. }
        destruct x; try (rewrite E; reflexivity); rewrite E'; reflexivity.
    - rewrite deps_slist in Hd. rewrite !eval_slist.
      rewrite (eval_list_local c1 c2 l H Hd). reflexivity.
    - reflexivity.
    - reflexivity.
    - reflexivity.
  Qed.
End Eval.

(* ---- the two instances of the scheduler ------------------------------------------------------ *)
Section Instances.
  Variable apply : positive -> list sval -> sval.

  Lemma dask_comp_local d k (c1 c2 : positive -> dval) :
    (forall x, In x (dask_deps d k) -> c1 x = c2 x) -> dask_comp apply d k c1 = dask_comp apply d k c2.
  Proof.
    unfold dask_comp, dask_deps. destruct (dlookup d k) as [v|]; [|reflexivity].
    intros H. apply eval_local. intros x Hx. rewrite (H x Hx). reflexivity.
  Qed.

  Lemma ref_comp_local g t (c1 c2 : task -> sval) :
    (forall x, In x (pred g t) -> c1 x = c2 x) -> ref_comp apply g t c1 = ref_comp apply g t c2.
  Proof.
    unfold ref_comp. intros H. f_equal. f_equal. apply map_ext_in. exact H.
  Qed.

  Definition dvalid (d : dsk) := valid positive dval Pos.eqb dflt_dval (dask_deps d) (dask_comp apply d).
  Definition rvalid (g : tgraph) := valid task sval task_eqb dflt_sval (pred g) (ref_comp apply g).

  Lemma dask_run_valid d sched c : dask_run apply d sched = Some c -> dvalid d c.
  Proof. intros H. eapply run_valid; [exact pos_eqb_spec | constructor | exact H]. Qed.
  Lemma topo_eval_valid g order c : topo_eval apply g order = Some c -> rvalid g c.
  Proof. intros H. eapply run_valid; [exact task_eqb_spec | constructor | exact H]. Qed.
  Lemma dask_run_done d sched c : dask_run apply d sched = Some c -> done positive dval c = sched.
  Proof. intros H. apply run_done in H. exact H. Qed.
  Lemma topo_eval_done g order c : topo_eval apply g order = Some c -> done task sval c = order.
  Proof. intros H. apply run_done in H. exact H. Qed.
End Instances.

(* ---- dict lookups ------------------------------------------------------------------------------ *)
Lemma dlookup_map {A} (key : A -> positive) (val : A -> sval) (l : list A) t :
  NoDup (map key l) -> In t l -> dlookup (map (fun t => (key t, val t)) l) (key t) = Some (val t).
Proof.
  induction l as [|x tl IH]; cbn [map dlookup]; intros Hn Hi; [contradiction|].
  inversion Hn as [|? ? Hx Htl]; subst.
  destruct Hi as [Hi|Hi].
  - subst. rewrite Pos.eqb_refl. reflexivity.
  - destruct (Pos.eqb (key t) (key x)) eqn:E.
    + apply Pos.eqb_eq in E. exfalso. apply Hx. rewrite <- E. apply in_map. exact Hi.
    + apply IH; assumption.
Qed.

Lemma NoDup_map_inj {A B} (f : A -> B) (l : list A) x y :
  NoDup (map f l) -> In x l -> In y l -> f x = f y -> x = y.
Proof.
  induction l as [|z tl IH]; cbn [map]; intros Hn Hx Hy E; [contradiction|].
  inversion Hn as [|? ? Hz Htl]; subst.
  destruct Hx as [Hx|Hx]; destruct Hy as [Hy|Hy]; subst.
  - reflexivity.
  - exfalso. apply Hz. rewrite E. apply in_map. exact Hy.
  - exfalso. apply Hz. rewrite <- E. apply in_map. exact Hx.
  - apply IH; assumption.
Qed.

(* ================================================================================ simulation *)
Section Sound.
  Variable apply : positive -> list sval -> sval.
  Variable g : tgraph.
  Variable ids : task -> positive.
  Variable o : task.
  Hypothesis Hout : output_tasks g = [o].

  Notation key := (key_of ids o).
  Definition entry (t : task) : sval :=
    STuple (SFun (tfun t) :: map (quote (map key (nodes g))) (tinputs t) ++ map (fun p => SStr (key p)) (pred g t)).
  Definition the_dsk : dsk := map (fun t => (key t, entry t)) (nodes g).
  Notation K := (map key (nodes g)).

  Hypothesis Hfresh : NoDup K.

  Lemma as_dask_dict_eq : as_dask_dict g ids = Some the_dsk.
  Proof. unfold as_dask_dict. rewrite Hout. reflexivity. Qed.

  Lemma dkeys_the_dsk : dkeys the_dsk = K.
  Proof. unfold dkeys, the_dsk. rewrite map_map. reflexivity. Qed.

  Lemma lookup_entry t : In t (nodes g) -> dlookup the_dsk (key t) = Some (entry t).
  Proof. intros H. unfold the_dsk. apply (dlookup_map key entry); assumption. Qed.

  Lemma key_inj x y : In x (nodes g) -> In y (nodes g) -> key x = key y -> x = y.
  Proof. apply NoDup_map_inj. exact Hfresh. Qed.

  Lemma pred_keys_in t : incl (pred g t) (nodes g) -> forall k, In k (map key (pred g t)) -> memp k K = true.
  Proof.
    intros Hi k Hk. apply memp_In. apply in_map_iff in Hk. destruct Hk as [p [E Hp]]. subst.
    apply in_map. apply Hi. exact Hp.
  Qed.

  Lemma eval_list_quoted c l : eval_list apply K c (map (quote K) l) = (l, []).
  Proof.
    induction l as [|a tl IH]; [reflexivity|]. cbn [map]. rewrite eval_list_cons.
    destruct (eval_quote apply K c a) as [E _]. rewrite E, IH. reflexivity.
  Qed.
  Lemma deps_list_quoted l : deps_list K (map (quote K) l) = [].
  Proof.
    induction l as [|a tl IH]; [reflexivity|]. cbn [map deps_list]. fold (deps_list K).
    destruct (eval_quote apply K (fun _ => dflt_sval) a) as [_ E]. rewrite E, IH. reflexivity.
  Qed.

  Definition args_of (t : task) (c : task -> sval) : list sval := tinputs t ++ map c (pred g t).

  Lemma comp_entry t (c : positive -> dval) : In t (nodes g) -> incl (pred g t) (nodes g) ->
    dask_comp apply the_dsk (key t) c =
    (apply (tfun t) (args_of t (fun p => fst (c (key p)))), [(tfun t, args_of t (fun p => fst (c (key p))))]).
  Proof.
    intros Ht Hp. unfold dask_comp. rewrite (lookup_entry t Ht), dkeys_the_dsk. unfold entry.
    rewrite eval_tuple, eval_list_app.
    rewrite (eval_list_quoted _ (tinputs t)).
    rewrite <- (map_map key SStr), (eval_list_keys apply K) by (apply pred_keys_in; exact Hp).
    cbn [fst snd app]. unfold args_of. rewrite map_map. reflexivity.
  Qed.

  Lemma deps_entry t : In t (nodes g) -> incl (pred g t) (nodes g) ->
    dask_deps the_dsk (key t) = map key (pred g t).
  Proof.
    intros Ht Hp. unfold dask_deps. rewrite (lookup_entry t Ht), dkeys_the_dsk. unfold entry.
    rewrite deps_tuple. change (deps_list K (SFun (tfun t) :: ?l)) with (deps_list K l).
    rewrite deps_list_app, (deps_list_quoted (tinputs t)).
    rewrite <- (map_map key SStr), deps_list_keys by (apply pred_keys_in; exact Hp). reflexivity.
  Qed.

  Notation dget := (cget positive dval Pos.eqb dflt_dval).
  Notation rget := (cget task sval task_eqb dflt_sval).
  Notation ddone := (done positive dval).
  Notation rdone := (done task sval).

  Definition sim (rc : cache task sval) (dc : cache positive dval) : Prop :=
    ddone dc = map key (rdone rc) /\ incl (rdone rc) (nodes g) /\
    forall t, In t (rdone rc) -> fst (dget dc (key t)) = rget rc t.

  Lemma sim_run order : forall rc rc' dc, sim rc dc ->
    run task sval task_eqb dflt_sval (pred g) (ref_comp apply g) order rc = Some rc' ->
    incl order (nodes g) ->
    exists dc', run positive dval Pos.eqb dflt_dval (dask_deps the_dsk) (dask_comp apply the_dsk) (map key order) dc = Some dc'
                /\ sim rc' dc'.
  Proof.
    induction order as [|t tl IH]; intros rc rc' dc Hs Hr Hi; cbn [map Model.run] in *.
    - inversion Hr. subst. exists dc. split; [reflexivity | exact Hs].
    - destruct (ready task task_eqb (pred g) (rdone rc) t) eqn:R; [|discriminate].
      apply (ready_spec task task_eqb (pred g) task_eqb_spec) in R. destruct R as [R1 R2].
      destruct Hs as [S1 [S2 S3]].
      assert (Ht : In t (nodes g)) by (apply Hi; left; reflexivity).
      assert (Hp : incl (pred g t) (nodes g)) by (intros p Hpp; apply S2; apply R2; exact Hpp).
      assert (Rd : ready positive Pos.eqb (dask_deps the_dsk) (ddone dc) (key t) = true).
      { apply (ready_spec positive Pos.eqb _ pos_eqb_spec). rewrite S1, (deps_entry t Ht Hp). split.
        - intro Hk. apply in_map_iff in Hk. destruct Hk as [t' [E Ht']].
          apply key_inj in E; [subst; contradiction | apply S2; exact Ht' | exact Ht].
        - intros k Hk. apply in_map_iff in Hk. destruct Hk as [p [E Hpp]]. subst. apply in_map. apply R2. exact Hpp. }
      rewrite Rd. eapply IH; [|exact Hr|intros x Hx; apply Hi; right; exact Hx].
      (* the simulation relation after the step *)
      assert (Hknew : ~ In (key t) (ddone dc)).
      { rewrite S1. intro Hk. apply in_map_iff in Hk. destruct Hk as [t' [E Ht']].
        apply key_inj in E; [subst; contradiction | apply S2; exact Ht' | exact Ht]. }
      split; [|split].
      + rewrite (done_app positive dval), (done_app task sval), S1, map_app. reflexivity.
      + rewrite (done_app task sval). intros x Hx. apply in_app_or in Hx.
        destruct Hx as [Hx|[Hx|[]]]; [apply S2; exact Hx | subst; exact Ht].
      + intros t' Ht'. rewrite (done_app task sval) in Ht'. apply in_app_or in Ht'.
        destruct Ht' as [Ht'|[Ht'|[]]].
        * rewrite (cget_app_in positive dval Pos.eqb dflt_dval pos_eqb_spec) by (rewrite S1; apply in_map; exact Ht').
          rewrite (cget_app_in task sval task_eqb dflt_sval task_eqb_spec) by exact Ht'. apply S3. exact Ht'.
        * subst t'.
          rewrite (cget_app_notin positive dval Pos.eqb dflt_dval pos_eqb_spec) by exact Hknew.
          rewrite (cget_app_notin task sval task_eqb dflt_sval task_eqb_spec) by exact R1.
          cbn [Model.cget fst snd]. rewrite Pos.eqb_refl.
          assert (Et : task_eqb t t = true) by (apply task_eqb_spec; reflexivity). rewrite Et.
          rewrite (comp_entry t _ Ht Hp). cbn [fst]. unfold ref_comp, args_of. f_equal. f_equal.
          apply map_ext_in. intros p Hpp. apply S3. apply R2. exact Hpp.
  Qed.

  (* a sequential reference run in [order] is mirrored by the scheduler on the generated dict *)
  Lemma sim_topo order rc : topo_eval apply g order = Some rc -> incl order (nodes g) ->
    exists dc, dask_run apply the_dsk (map key order) = Some dc /\ sim rc dc.
  Proof.
    intros Hr Hi. unfold topo_eval in Hr. unfold dask_run.
    eapply sim_run; [|exact Hr|exact Hi]. split; [reflexivity|]. split; [intros x []|intros t []].
  Qed.

  (* ---- soundness for any schedule ---------------------------------------------------------- *)
  Theorem sound_any_schedule order rc sched dc t :
    topo_eval apply g order = Some rc -> incl order (nodes g) -> In t order ->
    dask_run apply the_dsk sched = Some dc -> In (key t) sched ->
    dget dc (key t) = (rget rc t, [(tfun t, args_of t (rget rc))]).
  Proof.
    intros Hr Hi Ht Hd Hk.
    destruct (sim_topo order rc Hr Hi) as [dc0 [Hd0 [S1 [S2 S3]]]].
    pose proof (dask_run_valid apply _ _ _ Hd0) as V0.
    pose proof (dask_run_valid apply _ _ _ Hd) as V.
    pose proof (topo_eval_valid apply _ _ _ Hr) as VR.
    pose proof (topo_eval_done apply _ _ _ Hr) as DR.
    assert (Ht0 : In (key t) (ddone dc0)) by (rewrite S1, DR; apply in_map; exact Ht).
    assert (Htd : In (key t) (ddone dc)) by (rewrite (dask_run_done apply _ _ _ Hd); exact Hk).
    rewrite (valid_agree positive dval Pos.eqb dflt_dval _ _ pos_eqb_spec (dask_comp_local apply the_dsk)
               dc V dc0 V0 (key t) Htd Ht0).
    (* on the mirrored trace: the local equation of key t *)
    destruct (valid_equation positive dval Pos.eqb dflt_dval _ _ pos_eqb_spec (dask_comp_local apply the_dsk)
                dc0 V0 (key t) Ht0) as [E _].
    assert (Htr : In t (rdone rc)) by (rewrite DR; exact Ht).
    destruct (valid_equation task sval task_eqb dflt_sval _ _ task_eqb_spec (ref_comp_local apply g)
                rc VR t Htr) as [ER IR].
    assert (Hn : In t (nodes g)) by (apply Hi; exact Ht).
    assert (Hp : incl (pred g t) (nodes g)) by (intros p Hpp; apply S2; apply IR; exact Hpp).
    rewrite E, (comp_entry t _ Hn Hp).
    assert (EA : args_of t (fun p => fst (dget dc0 (key p))) = args_of t (rget rc)).
    { unfold args_of. f_equal. apply map_ext_in. intros p Hpp. apply S3. apply IR. exact Hpp. }
    rewrite EA. f_equal. rewrite ER. reflexivity.
  Qed.
End Sound.
