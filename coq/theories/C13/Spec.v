(* PV.C13.Spec — the reference reader: the rules of /repo/docs/NONMEM.rst ("Dataset" section)
   written down independently of the implementation.  It is part of what a reader must audit.

   Rules used (quoted from the documentation):
     R1  "Lines starting with the comment regex will be removed": default ^#, IGNORE=c gives ^c,
         IGNORE=@ gives optional blanks followed by a letter or # (NONMEM's own help adds @, which
         the code also does; the reference follows that).
     R2  "Delimeter between items is comma, space or TAB"; "Spaces before or after a comma are
         ignored"; "Spaces after a TAB are ignored"; "Spaces before a TAB gives ERROR"; "Spaces in the
         beginning or [end] of a row are ignored"; "Comma in the end or beginning of a row will insert
         NULL after or before the comma"; a NULL item is "a ., [or an item] surrounded by two TABS or
         two commas".
     R3  "Empty lines in a dataset will give an error if not BLANKOK is set"; "As empty lines are
         counted empty lines and lines only containing spaces and TABs."
     R4  number forms: "2-1 means 2e-1 and 2+1 means 2e1"; "A D or d instead of E or e are allowed";
         "A lone + or - in an item means 0"; "A . (dot) in an item means NULL"; "An item can be at most
         24 characters long"; only the characters Ee+-0123456789 (and . dD) are allowed.
     R5  "If any line has more columns than $INPUT all extra columns are considered to be DROPed";
         "If the number of columns in $INPUT is larger than the length of some row, NM-TRAN will warn
         and pad with NULLs" (row by row); "Columns that are DROPed in $INPUT can contain any
         characters and there is no limit to length of items in such a column".
     R6  "IGNOREs are performed one at a time in the order given"; "It is possible to IGNORE on a
         dropped column"; text comparison for .EQ. / .NE., numeric for the others; "NULL items are
         inserted after the IGNORE filtering" (so a text filter sees the raw item, an absent item
         matches no text).
   What the documentation leaves open and the reference takes from pharmpy (shared definitions
   imported from Model.v): the operator spelling table, the NULL option (NULL=c gives the value c),
   pharmpy's own missing-data token, renumbering of re-used IDs, TIME kept as text when it does
   not convert, the int32 typing of ID/L1/DVID, and the value a numeric filter sees for a NULL item
   (the NULL value).  Dropped columns are not part of the reference result. *)
From Coq Require Import QArith ZArith NArith List Bool PArith Arith Lia.
From PV Require Import Base.PyData C13.Model.
Import ListNotations.
Local Open Scope nat_scope.

(* ---- R4: the number grammar -----------------------------------------------------------------------
     number   ::= sign | [sign] real [exponent]
     real     ::= digits | digits '.' [digits] | '.' digits
     exponent ::= (E|e|D|d) [sign] digits | sign digits                                               *)
Inductive numform :=
| NLone                                                   (* lone sign: 0 *)
| NDec (neg : bool) (ip fp : str) (eneg : bool) (ep : str). (* ep = [] when there is no exponent *)

Definition all_digits (l : str) : bool := forallb is_digit l.

Definition parse_exponent (s : str) : option (bool * str) :=
  match s with
  | [] => Some (false, [])
  | c :: t =>
      if is_expmark_e c || is_expmark_d c then
        let (eneg, t1) := take_sign t in
        if negb (is_nil t1) && all_digits t1 then Some (eneg, t1) else None
      else if is_sign c then
        if negb (is_nil t) && all_digits t then Some (N.eqb c c_minus, t) else None
      else None
  end.

Definition parse_number (s : str) : option numform :=
  if str_eqb s [c_plus] || str_eqb s [c_minus] then Some NLone else
  let (neg, s0) := take_sign s in
  let (ip, s1) := span is_digit s0 in
  let '(fp, s2, dot) := match s1 with
                        | c :: t => if N.eqb c c_dot then let (f, r) := span is_digit t in (f, r, true)
                                    else ([], s1, false)
                        | [] => ([], s1, false)
                        end in
  if is_nil ip && is_nil fp then None else
  match parse_exponent s2 with
  | Some (eneg, ep) => Some (NDec neg ip fp eneg ep)
  | None => None
  end.

Definition fortran_number (s : str) : bool :=
  match parse_number s with Some _ => true | None => false end.

Definition numform_value (f : numform) : Q :=
  match f with
  | NLone => 0 # 1
  | NDec neg ip fp eneg ep => dec_value neg ip fp eneg ep
  end.

(* the value a string of the grammar denotes (0 outside the grammar; only used under fortran_number) *)
Definition value (s : str) : Q :=
  match parse_number s with Some f => numform_value f | None => 0 # 1 end.

Definition spec_convert (s : str) : option Q :=
  match parse_number s with Some f => Some (numform_value f) | None => None end.

(* the documented alphabet of an item *)
Definition doc_char (c : N) : bool :=
  is_digit c || is_sign c || is_expmark_e c || is_expmark_d c || N.eqb c c_dot.
Definition g_charset (s : str) : bool := forallb doc_char s.

(* item -> value: NULL, 24 characters, missing token, number *)
Definition spec_item (nullstr mdt : str) (x : option str) : res cell :=
  let x1 := match x with
            | None => nullstr
            | Some s => if is_nil s || str_eqb s [c_dot] then nullstr else s
            end in
  if 24 <? length x1 then Err DatasetError
  else if str_eqb x1 mdt then Ok CNaN
  else match spec_convert x1 with Some q => Ok (CNum q) | None => Err DatasetError end.

(* ---- R2: splitting a row into items, as a state machine over the characters ---------------------- *)
Inductive sstate := SStart | SItem | SSoft | SHard.

Definition is_hard (c : N) : bool := N.eqb c c_comma || N.eqb c c_tab.

Fixpoint spec_go (st : sstate) (cur : str) (s : str) : list str :=
  match s with
  | [] => match st with
          | SStart => []
          | SItem => [rev cur]
          | SSoft => []
          | SHard => [[]]
          end
  | c :: tl =>
      if N.eqb c c_sp then
        match st with
        | SStart => spec_go SStart [] tl
        | SItem => rev cur :: spec_go SSoft [] tl
        | SSoft => spec_go SSoft [] tl
        | SHard => spec_go SHard [] tl
        end
      else if is_hard c then
        match st with
        | SStart => [] :: spec_go SHard [] tl            (* NULL before a leading delimiter *)
        | SItem => rev cur :: spec_go SHard [] tl
        | SSoft => spec_go SHard [] tl                   (* spaces before a comma are ignored *)
        | SHard => [] :: spec_go SHard [] tl             (* NULL between two delimiters *)
        end
      else
        match st with
        | SItem => spec_go SItem (c :: cur) tl
        | _ => spec_go SItem [c] tl
        end
  end.
Definition spec_items (row : str) : list str := spec_go SStart [] row.

(* ---- R1, R3: lines ---------------------------------------------------------------------------------- *)
Definition all_lines (s : str) : list str := file_lines (lines_tail s).

Definition spec_comment (ic : N) (l : str) : bool :=
  if N.eqb ic c_at then
    match dropwhile is_blankc l with
    | c :: _ => is_alpha c || N.eqb c c_hash || N.eqb c c_at
    | [] => false
    end
  else match l with c :: _ => N.eqb c ic | [] => false end.

Definition spec_lines (ic : N) (s : str) : res (list str) :=
  let ls := filter (fun l => negb (spec_comment ic l)) (all_lines s) in
  if existsb has_space_tab ls then Err DatasetError
  else if existsb (forallb is_blankc) ls then Err DatasetError
  else Ok ls.

(* ---- R5: a row against $INPUT ----------------------------------------------------------------------- *)
Definition spec_shape (n : nat) (r : list str) : list (option str) :=
  firstn n (map Some r ++ repeat None n).

(* ---- R6: filters, row by row, one at a time in the order given -------------------------------------- *)
(* Ok true = the row stays, Ok false = it is removed; Err = an item needed for a numeric comparison
   does not convert.  `get j` is the raw item of the row in column j (None: the row has no such
   item); `conv` is the item conversion. *)
Definition filter_get (conv : option str -> res cell) (names : list str) (syn : list (str * str)) (ignore : bool)
           (f : filt) (get : nat -> option str) : res bool :=
  let '(op, kind) := match f_op f with
                     | None => (CEq, KStr)
                     | Some t => match op_of_text t with Some tok => op_table tok | None => (CEq, KStr) end
                     end in
  let e := unquote (f_expr f) in
  match index_of (filter_column syn f) names with
  | None => match kind with KStr => Err OtherErr | KFloat => Err KeyErr end
  | Some j =>
      match kind with
      | KStr => Ok (keep_of ignore (cmp_str op (get j) e))
      | KFloat =>
          match conv (get j) with
          | Err e' => Err e'
          | Ok v => match pyfloat e with
                    | None => Err OtherErr
                    | Some x => Ok (keep_of ignore (cmp_cell op v x))
                    end
          end
      end
  end.

(* the filters one at a time, in the order given; a removed row is not looked at again *)
Fixpoint filters_get (conv : option str -> res cell) (names : list str) (syn : list (str * str)) (ignore : bool)
         (fs : list filt) (get : nat -> option str) : res bool :=
  match fs with
  | [] => Ok true
  | f :: tl =>
      match filter_get conv names syn ignore f get with
      | Err e => Err e
      | Ok false => Ok false
      | Ok true => filters_get conv names syn ignore tl get
      end
  end.

Definition spec_filters_row (names : list str) (syn : list (str * str)) (nullstr mdt : str) (ignore : bool)
           (fs : list filt) (r : list str) : res bool :=
  filters_get (spec_item nullstr mdt) names syn ignore fs (nth_error r).

Fixpoint filterM {A} (p : A -> res bool) (l : list A) : res (list A) :=
  match l with
  | [] => Ok []
  | x :: tl => match p x with
               | Err e => Err e
               | Ok b => match filterM p tl with
                         | Err e => Err e
                         | Ok r => Ok (if b then x :: r else r)
                         end
               end
  end.

(* ---- the reference reader ---------------------------------------------------------------------------- *)
Definition kept_of {A} (drops : list bool) (l : list A) : list A :=
  map fst (filter (fun xd => negb (snd xd)) (combine l drops)).

Definition spec_convert_row (nullstr mdt : str) (names : list str) (drops : list bool)
           (r : list (option str)) : res (list icell) :=
  mapM (fun nx => if mems (fst nx) (s_TIME :: date_names) then Ok (IRaw (snd nx))
                  else bind (spec_item nullstr mdt (snd nx)) (fun c => Ok (IVal c)))
       (kept_of drops (combine names r)).

Definition spec_read (i : input) : res (list (str * list cell)) :=
  bind (column_info (i_options i)) (fun ci =>
  let names := ci_names ci in
  let drops := ci_drop ci in
  bind (null_string (i_null i)) (fun nullstr =>
  let knames := kept_of drops names in
  if negb (nodup_s knames) then Err KeyErr else
  bind (spec_lines (ign_char (i_ignchar i)) (i_text i)) (fun ls =>
  let rows := map spec_items ls in
  match rows with [] => Err EmptyData | _ =>
  match i_ignore i, i_accept i with
  | _ :: _, _ :: _ => Err ValueErr
  | ign, acc =>
      let fs := if is_nil ign then acc else ign in
      bind (filterM (spec_filters_row names (ci_syn ci) nullstr (i_mdt i) (negb (is_nil ign)) fs) rows) (fun rows' =>
      bind (mapM (fun r => spec_convert_row nullstr (i_mdt i) names drops (spec_shape (length names) r)) rows')
           (fun crows =>
      postprocess (id_label knames) (has_date names) nullstr (i_mdt i)
                  (columns_of knames (map (fun _ => false) knames) crows)))
  end end))).

(* =====================================================================================================
   Guards of reader_refines.  Conjuncts marked [finding] are there because the CODE departs from the
   documented rule (each has a _refuted theorem in Refuted.v and an entry in known_findings);
   conjuncts marked [class] delimit the input class (documentation silent / outside the model).
   ===================================================================================================== *)
Definition doc_text_char (c : N) : bool := N.eqb c c_tab || N.eqb c c_nl || (N.leb 32 c && N.leb c 126)%N.
(* [class] printable ASCII, TAB and newline only *)
Definition g_alphabet (i : input) : bool := forallb doc_text_char (i_text i).

Definition data_lines (i : input) : list str :=
  filter (fun l => negb (spec_comment (ign_char (i_ignchar i)) l)) (all_lines (i_text i)).
Definition data_rows (i : input) : list (list str) := map spec_items (data_lines i).

Definition edge_tab (l : str) : bool :=
  let m := dropwhile (fun c => N.eqb c_sp c) l in
  match m with c :: _ => N.eqb c c_tab | [] => false end ||
  match dropwhile (fun c => N.eqb c_sp c) (rev m) with c :: _ => N.eqb c c_tab | [] => false end.
(* the rows split_spec speaks about: no whitespace other than space and TAB, not blank, no TAB at
   either end *)
Definition row_char (c : N) : bool := negb (is_pyspace c) || N.eqb c c_sp || N.eqb c c_tab.
Definition g_row (row : str) : bool :=
  forallb row_char row && negb (forallb is_blankc row) && negb (edge_tab row).
(* [class] no row starts or ends with a TAB (the documentation does not say what that means) *)
Definition g_edge_tab (i : input) : bool := forallb (fun l => negb (edge_tab l)) (data_lines i).

Definition first_width (i : input) : nat := match data_rows i with r0 :: _ => length r0 | [] => 0 end.

(* [finding] rows are cut to the width of the first row before they are padded *)
Definition g_rows_within (names : list str) (i : input) : bool :=
  forallb (fun r => Nat.min (length r) (length names) <=? first_width i) (data_rows i).

Definition filter_kind (f : filt) : okind :=
  match f_op f with
  | None => KStr
  | Some t => match op_of_text t with Some tok => snd (op_table tok) | None => KStr end
  end.
Definition is_kstr (k : okind) : bool := match k with KStr => true | KFloat => false end.

(* columns whose items are converted to numbers: parsed columns and numerically filtered columns *)
Fixpoint parse_flags (names : list str) (drops : list bool) : list bool :=
  match names, drops with
  | nm :: ns, d :: ds => parse_col nm d :: parse_flags ns ds
  | _, _ => []
  end.
Definition numeric_filter_col (names : list str) (syn : list (str * str)) (i : input) (j : nat) : bool :=
  existsb (fun f => negb (is_kstr (filter_kind f)) &&
                    match index_of (filter_column syn f) names with Some k => Nat.eqb k j | None => false end)
          (i_ignore i ++ i_accept i).
Definition conv_flags (names : list str) (drops : list bool) (syn : list (str * str)) (i : input) : list bool :=
  map (fun jp => snd jp || numeric_filter_col names syn i (fst jp))
      (combine (seq 0 (length names)) (parse_flags names drops)).

Fixpoint items_ok (p : str -> bool) (flags : list bool) (r : list str) : bool :=
  match flags, r with
  | f :: fs, x :: xs => (negb f || p x) && items_ok p fs xs
  | _, _ => true
  end.
Definition g_items (p : str -> bool) (names : list str) (drops : list bool) (syn : list (str * str)) (i : input) : bool :=
  forallb (items_ok p (conv_flags names drops syn i)) (data_rows i).

(* [finding] a dropped ID / L1 column must hold Python int literals *)
Definition g_id_drop (names : list str) (drops : list bool) (i : input) : bool :=
  match id_label names with
  | None => true
  | Some l =>
      match index_of l names with
      | None => true
      | Some j => negb (nth j drops false) ||
                  forallb (fun r => match nth_error r j with Some x => pyint_small x | None => false end) (data_rows i)
      end
  end.
(* [class] when the id column is dropped no other id column takes over *)
Definition g_id_choice (names : list str) (drops : list bool) : bool :=
  match id_label names with
  | None => true
  | Some l => match index_of l names with
              | Some j => negb (nth j drops false) || is_nil (match id_label (kept_names names drops) with Some x => [x] | None => [] end)
              | None => true
              end
  end.
(* (round 4) the former class conjunct g_no_date is gone: DATE/DAT1/DAT2/DAT3 columns stay text and, dropped or not, keep
   TIME as text (docs/NONMEM.rst: "Even if DATE is DROP it will still affect TIME") — spec_read says so with has_date names *)
(* [class] column names (dropped ones included) are unique *)
Definition g_names_unique (names : list str) : bool := nodup_s names.

(* [class] every filter names an existing column and a numeric filter compares with a plain number *)
Definition filters_valid (names : list str) (syn : list (str * str)) (fs : list filt) : bool :=
  forallb (fun f => match index_of (filter_column syn f) names with Some _ => true | None => false end &&
                    (is_kstr (filter_kind f) || match pyfloat (unquote (f_expr f)) with Some _ => true | None => false end))
          fs.
Definition g_filters_valid (names : list str) (syn : list (str * str)) (i : input) : bool :=
  filters_valid names syn (i_ignore i ++ i_accept i).

Definition item_charset_ok (x : str) : bool := g_charset x.

(* the conjuncts, in the order of the guard tags 201..208 of Check.verdict.  Since the fix commits 8a96a4a,
   f9c38b4, 0a78c77, 6a54a3e, c9e4304 the conjuncts g_ignchar, g_last_comment, g_blank, g_first_width,
   g_filter_cols, the signed-D and anchoring item conjuncts (and with the None padding also g_time_col) are gone *)
Definition guard_conjuncts (i : input) : list bool :=
  match column_info (i_options i) with
  | Err _ => []
  | Ok ci =>
      let names := ci_names ci in
      let drops := ci_drop ci in
      let syn := ci_syn ci in
      [ g_alphabet i; g_edge_tab i; g_rows_within names i;
        g_items item_charset_ok names drops syn i;
        g_id_drop names drops i; g_id_choice names drops; g_names_unique names;
        g_filters_valid names syn i ]
  end.
Definition guard (i : input) : bool := forallb (fun b => b) (guard_conjuncts i).

(* the part of a result NM-TRAN keeps: the columns that are not dropped *)
Definition project_kept (i : input) (r : res (list (str * list cell))) : res (list (str * list cell)) :=
  match r, column_info (i_options i) with
  | Ok t, Ok ci => Ok (kept_of (ci_drop ci) t)
  | _, _ => r
  end.

(* =====================================================================================================
   The write/read cycle.  write_csv: DataFrame.to_csv(path, na_rep=missing_data_token, index=False) —
   a header line with the column names and one comma separated line per row; update_source then
   generates $INPUT with the column names and $DATA with IGNORE=@ (IGNORE=c when the first name
   does not start with a letter) and without IGNORE/ACCEPT lists.  How to_csv prints a double is an
   engine: `pr`.  The guard below says what the theorem needs from it.
   ===================================================================================================== *)
Fixpoint join_comma (l : list str) : str :=
  match l with
  | [] => []
  | [x] => x
  | x :: tl => x ++ c_comma :: join_comma tl
  end.

Definition tok_char (c : N) : bool := negb (is_pyspace c) && negb (N.eqb c c_comma).

Definition okq (o : option Q) (q : Q) : bool := match o with Some x => Qeq_bool x q | None => false end.

Section Writer.
  Variable pr : Q -> str.

  Definition pr_cell (mdt : str) (c : cell) : str :=
    match c with CNum q => pr q | CNaN => mdt | CStr s => s end.
  Definition csv_lines (mdt : str) (hdr : list str) (rows : list (list cell)) : list str :=
    join_comma hdr :: map (fun r => join_comma (map (pr_cell mdt) r)) rows.
  Definition csv_text (mdt : str) (hdr : list str) (rows : list (list cell)) : str :=
    flat_map (fun l => l ++ [c_nl]) (csv_lines mdt hdr rows).
  (* set_ignore_character_from_header *)
  Definition hdr_ignchar (hdr : list str) : N :=
    match hdr with (c :: _) :: _ => if is_alpha c then c_at else c | _ => c_at end.
  (* the written file read through a $INPUT record `opts` and the generated $DATA record *)
  (* ... and a $DATA record with the IGNORE=c token `ignc`, the NULL option `nullc` and no filter lists *)
  Definition cycle_input_full (opts : list (str * option str)) (ignc : option str) (nullc : option N)
             (mdt : str) (hdr : list str) (rows : list (list cell)) : input :=
    mkInput (csv_text mdt hdr rows) opts ignc nullc [] [] mdt.
  Definition cycle_input_opts (opts : list (str * option str)) (mdt : str) (hdr : list str) (rows : list (list cell)) : input :=
    cycle_input_full opts (Some [hdr_ignchar hdr]) None mdt hdr rows.
  Definition cycle_input (mdt : str) (hdr : list str) (rows : list (list cell)) : input :=
    cycle_input_opts (map (fun nm => (nm, None)) hdr) mdt hdr rows.

  (* what reading the printed cell gives *)
  Definition reparse (mdt : str) (c : cell) : cell :=
    match convert_item [c_0] mdt (Some (pr_cell mdt c)) with Ok v => v | Err _ => CNaN end.

  Definition name_ok (nm : str) : bool := negb (is_nil nm) && forallb tok_char nm && negb (is_dropword nm).
  (* the printed cell is a clean token that reads back as the value *)
  Definition cell_ok (mdt : str) (c : cell) : bool :=
    let s := pr_cell mdt c in
    negb (is_nil s) && forallb tok_char s && (length s <=? 24) && negb (str_eqb s [c_dot]) &&
    match c with
    | CNum q => negb (str_eqb s mdt) && okq (convert s) q
    | CNaN => true
    | CStr _ => false
    end.
  Definition is_num (c : cell) : bool := match c with CNum _ => true | _ => false end.
  Definition int_ok (c : cell) : bool :=
    match c with CNum q => Qeq_bool (inject_Z (Z.quot (Qnum q) (Zpos (Qden q)))) q | _ => false end.
  (* the id column has NM-TRAN-valid blocks (no id is re-used later) and no missing value; the int32
     columns hold integers *)
  Definition col_ok (lbl : option str) (nm : str) (cells : list cell) : bool :=
    (negb (is_label lbl nm) ||
     (forallb is_num cells && Nat.eqb (count_true (id_changes None cells)) (nunique_from [] cells))) &&
    (negb (mems nm int32_names) || forallb int_ok cells).
  Fixpoint cols_ok (lbl : option str) (mdt : str) (hdr : list str) (rows : list (list cell)) : bool :=
    match hdr with
    | [] => true
    | nm :: ns => col_ok lbl nm (map (fun r => reparse mdt (hd CNaN r)) rows) && cols_ok lbl mdt ns (map (@tl cell) rows)
    end.

  Definition cycle_guard (mdt : str) (hdr : list str) (rows : list (list cell)) : bool :=
    let ic := hdr_ignchar hdr in
    let n := length hdr in
    (1 <=? n) && nodup_s hdr && forallb name_ok hdr && negb (has_date hdr) &&
    comment_line ic (join_comma hdr) && negb (is_nil rows) &&
    forallb (fun r => Nat.eqb (length r) n && forallb (cell_ok mdt) r &&
                      negb (comment_line ic (join_comma (map (pr_cell mdt) r)))) rows &&
    cols_ok (id_label hdr) mdt hdr rows.

  Definition cells_same (a b : list cell) : bool :=
    Nat.eqb (length a) (length b) && forallb (fun xy => cell_eqb (fst xy) (snd xy)) (combine a b).
  (* the columns of a row-major table *)
  Fixpoint transpose (n : nat) (rows : list (list cell)) : list (list cell) :=
    match n with
    | 0 => []
    | S k => map (hd CNaN) rows :: transpose k (map (@tl cell) rows)
    end.
  (* the table read back has the columns of the table written, value by value *)
  Definition table_same (t : list (str * list cell)) (hdr : list str) (rows : list (list cell)) : bool :=
    list_eqb str_eqb (map fst t) hdr && list_eqb cells_same (map snd t) (transpose (length hdr) rows).
End Writer.

(* ---- the $INPUT record update_input generates from the old one -------------------------------------- *)
Definition opt_drop (o : str * option str) : bool :=
  match o with
  | (key, Some value) => is_dropword key || is_dropword value
  | (key, None) => is_dropword key
  end.
(* [finding] an anonymous DROP/SKIP among the first n options of the old $INPUT is never replaced *)
Definition g_no_anon (old : list (str * option str)) (n : nat) : bool :=
  forallb (fun g => match g with Some _ => true | None => false end) (firstn n (given_names old)).
(* [class] no old option that drops a column carries the name of the new column at its position
   (set_dataset keeps the drop flag of such a column) *)
Definition g_no_same_dropped (old : list (str * option str)) (new : list str) : bool :=
  forallb (fun on => negb (opt_drop (fst on) &&
                           match given_names [fst on] with [Some x] => str_eqb x (snd on) | _ => false end))
          (combine old new).

(* =====================================================================================================
   update_source / write_files: what the written model's $DATA record says.
   RULE (what the cycle needs): filters of the written model o written data = identity on the in-memory
   dataset — the in-memory dataset is already filtered, so a $DATA record that names a file written from it
   must not carry an IGNORE/ACCEPT list any more (text filters would be re-applied to values that print
   differently: 1 is written as 1.0), and a $DATA record that keeps its lists must keep naming the file they
   were written for.
   ===================================================================================================== *)
Record data_opts := mkData {
  d_ignchar : option str; d_null : option N; d_ignore : list filt; d_accept : list filt }.
Definition data_of (i : input) : data_opts := mkData (i_ignchar i) (i_null i) (i_ignore i) (i_accept i).

(* DataRecord.set_ignore_character(c): an existing token that already denotes c is kept *)
Definition set_ignchar (c : N) (tok : option str) : option str :=
  match tok with
  | Some (x :: tl) => if N.eqb (ign_char tok) c then tok else Some [c]
  | _ => Some [c]
  end.

(* update_source: when the dataset content, the datainfo or the path changed, the record gets the IGNORE
   character of the new header and LOSES its IGNORE/ACCEPT lists; otherwise it is left alone *)
Definition update_data (changed : bool) (hdr : list str) (d : data_opts) : data_opts :=
  if changed then mkData (set_ignchar (hdr_ignchar hdr) (d_ignchar d)) (d_null d) [] [] else d.

(* write_files: the file name of $DATA is set to datainfo.path only when the dataset content was replaced
   (or had no path) or force=True; with force=False after write_csv the OLD file stays named (defect) *)
Definition name_follows (updated force : bool) : bool := updated || force.
(* [finding] a regenerated $DATA record must name the file written from the in-memory dataset *)
Definition g_renamed (changed updated force : bool) : bool := negb changed || name_follows updated force.

Definition written_input (pr : Q -> str) (changed renamed : bool) (old : input) (ci : colinfo)
           (mdt : str) (hdr : list str) (rows : list (list cell)) : input :=
  if changed then
    let d := update_data true hdr (data_of old) in
    mkInput (if renamed then csv_text pr mdt hdr rows else i_text old)
            (update_input_model (i_options old) (ci_drop ci) (map (fun nm => (nm, false)) hdr))
            (d_ignchar d) (d_null d) (d_ignore d) (d_accept d) mdt
  else old.

(* the rule, executable: the lists of an input remove none of its data rows *)
Definition filters_identity (i : input) : bool :=
  match column_info (i_options i), null_string (i_null i) with
  | Ok ci, Ok ns =>
      let fs := if is_nil (i_ignore i) then i_accept i else i_ignore i in
      match filterM (spec_filters_row (ci_names ci) (ci_syn ci) ns (i_mdt i) (negb (is_nil (i_ignore i))) fs) (data_rows i) with
      | Ok rows' => Nat.eqb (length rows') (length (data_rows i))
      | Err _ => false
      end
  | _, _ => false
  end.
