(* PV.C13.Refuted — counter-models.  One theorem per guard conjunct that is there because the CODE departs
   from the documented rule (= one open known finding each): the witness makes the conjunct false
   and the faithful model of the code disagrees with the reference reader on it.  The harness replays
   the same witnesses against the real pharmpy on every run. *)
From Coq Require Import QArith ZArith NArith List Bool PArith Arith.
From PV Require Import Base.PyData C13.Model C13.Spec C13.Time.
Import ListNotations.
Local Open Scope nat_scope.

(* ---- number forms -------------------------------------------------------------------------------- *)
(* FIXED by 0a78c77 (re.fullmatch): "-5d1" (signed mantissa, D exponent) is now converted to -50 ... *)
Example signed_d_fixed :
  let s := s_of [45;53;100;49] in
  fortran_number s = true /\ match convert s with Some q => Qeq_bool q (-50 # 1) | None => false end = true.
Proof. split; vm_compute; reflexivity. Qed.
(* ... and "2-1-1" (formerly 0.2, trailing characters ignored) is rejected *)
Example anchored_fixed :
  let s := s_of [50;45;49;45;49] in
  g_charset s = true /\ fortran_number s = false /\ convert s = None.
Proof. repeat split; vm_compute; reflexivity. Qed.

(* STILL OPEN (C13-NUM-UNDERSCORE): "1_0" is outside the documented alphabet and converted to 10 *)
Theorem charset_refuted :
  exists s : str, g_charset s = false /\ fortran_number s = false /\
                  exists q, convert s = Some q /\ Qeq q (10 # 1).
Proof. exists (s_of [49;95;48]). repeat split; try (vm_compute; reflexivity). eexists. split; vm_compute; reflexivity. Qed.

(* ---- the reader: witnesses (the same inputs as known_findings.d/C13.json) -------------------------- *)
(* C13-LAST-COMMENT: {"text": "1,2,3\n4,5,6\n#end", "input": "ID TIME DV", "dataopts": ""} *)
Definition w_last_comment : input :=
  (mkInput [49%N; 44%N; 50%N; 44%N; 51%N; 10%N; 52%N; 44%N; 53%N; 44%N; 54%N; 10%N; 35%N; 101%N; 110%N; 100%N]
  [([73%N; 68%N], None); ([84%N; 73%N; 77%N; 69%N], None); ([68%N; 86%N], None)]
  None None
  [] [] [45%N; 57%N; 57%N]).

(* C13-BLANK-MIDDLE: {"text": "1,2,3\n\n4,5,6\n", "input": "ID TIME DV", "dataopts": ""} *)
Definition w_blank : input :=
  (mkInput [49%N; 44%N; 50%N; 44%N; 51%N; 10%N; 10%N; 52%N; 44%N; 53%N; 44%N; 54%N; 10%N]
  [([73%N; 68%N], None); ([84%N; 73%N; 77%N; 69%N], None); ([68%N; 86%N], None)]
  None None
  [] [] [45%N; 57%N; 57%N]).

(* C13-SURPLUS-FIRST-ROW: {"text": "1,2,3,9\n4,5,6,9\n", "input": "ID TIME DV", "dataopts": ""} *)
Definition w_first_width : input :=
  (mkInput [49%N; 44%N; 50%N; 44%N; 51%N; 44%N; 57%N; 10%N; 52%N; 44%N; 53%N; 44%N; 54%N; 44%N; 57%N; 10%N]
  [([73%N; 68%N], None); ([84%N; 73%N; 77%N; 69%N], None); ([68%N; 86%N], None)]
  None None
  [] [] [45%N; 57%N; 57%N]).

(* C13-SHORT-FIRST-ROW: {"text": "1,2\n4,5,6\n", "input": "ID TIME DV", "dataopts": ""} *)
Definition w_rows_within : input :=
  (mkInput [49%N; 44%N; 50%N; 10%N; 52%N; 44%N; 53%N; 44%N; 54%N; 10%N]
  [([73%N; 68%N], None); ([84%N; 73%N; 77%N; 69%N], None); ([68%N; 86%N], None)]
  None None
  [] [] [45%N; 57%N; 57%N]).

(* C13-FILTER-SEES-PADDING: {"text": "1,2\n4,5\n", "input": "ID TIME DV", "dataopts": "IGNORE=(DV.EQ.0)"} *)
Definition w_filter_cols : input :=
  (mkInput [49%N; 44%N; 50%N; 10%N; 52%N; 44%N; 53%N; 10%N]
  [([73%N; 68%N], None); ([84%N; 73%N; 77%N; 69%N], None); ([68%N; 86%N], None)]
  None None
  [(mkFilt [68%N; 86%N] (Some [46%N; 69%N; 81%N; 46%N]) [48%N])] [] [45%N; 57%N; 57%N]).

(* C13-NUM-SIGNED-D: {"text": "1,2,-5d1\n", "input": "ID TIME DV", "dataopts": ""} *)
Definition w_items_signed_d : input :=
  (mkInput [49%N; 44%N; 50%N; 44%N; 45%N; 53%N; 100%N; 49%N; 10%N]
  [([73%N; 68%N], None); ([84%N; 73%N; 77%N; 69%N], None); ([68%N; 86%N], None)]
  None None
  [] [] [45%N; 57%N; 57%N]).

(* C13-NUM-TRAILING: {"text": "1,2,2-1-1\n", "input": "ID TIME DV", "dataopts": ""} *)
Definition w_items_anchored : input :=
  (mkInput [49%N; 44%N; 50%N; 44%N; 50%N; 45%N; 49%N; 45%N; 49%N; 10%N]
  [([73%N; 68%N], None); ([84%N; 73%N; 77%N; 69%N], None); ([68%N; 86%N], None)]
  None None
  [] [] [45%N; 57%N; 57%N]).

(* C13-NUM-UNDERSCORE: {"text": "1,2,1_0\n", "input": "ID TIME DV", "dataopts": ""} *)
Definition w_items_charset : input :=
  (mkInput [49%N; 44%N; 50%N; 44%N; 49%N; 95%N; 48%N; 10%N]
  [([73%N; 68%N], None); ([84%N; 73%N; 77%N; 69%N], None); ([68%N; 86%N], None)]
  None None
  [] [] [45%N; 57%N; 57%N]).

(* C13-ID-DROP-TEXT: {"text": "A1,2,3\n", "input": "ID=DROP TIME DV", "dataopts": ""} *)
Definition w_id_drop : input :=
  (mkInput [65%N; 49%N; 44%N; 50%N; 44%N; 51%N; 10%N]
  [([73%N; 68%N], (Some [68%N; 82%N; 79%N; 80%N])); ([84%N; 73%N; 77%N; 69%N], None); ([68%N; 86%N], None)]
  None None
  [] [] [45%N; 57%N; 57%N]).

(* C13-IGNCHAR-REGEX: {"text": "1,2,3\n", "input": "ID TIME DV", "dataopts": "IGNORE=^"} *)
Definition w_ignchar : input :=
  (mkInput [49%N; 44%N; 50%N; 44%N; 51%N; 10%N]
  [([73%N; 68%N], None); ([84%N; 73%N; 77%N; 69%N], None); ([68%N; 86%N], None)]
  (Some [94%N]) None
  [] [] [45%N; 57%N; 57%N]).


(* index of a conjunct in Spec.guard_conjuncts *)
Definition conjunct (k : nat) (i : input) : bool := nth k (guard_conjuncts i) true.
Definition refutes (k : nat) (i : input) : Prop :=
  conjunct k i = false /\ project_kept i (read_model i) <> spec_read i.

Ltac refute := split; [vm_compute; reflexivity | vm_compute; let H := fresh in (intro H; discriminate H)].

(* ---- STILL OPEN ------------------------------------------------------------------------------------------ *)
(* g_rows_within (C13-SHORT-FIRST-ROW): rows are cut to the width of the first row *)
Theorem rows_within_refuted : exists i, refutes 2 i.
Proof. exists w_rows_within. split; [vm_compute; reflexivity | vm_compute; intro H; inversion H]. Qed.
(* g_items charset (C13-NUM-UNDERSCORE) at the level of the reader *)
Theorem items_charset_refuted : exists i, refutes 3 i.
Proof. exists w_items_charset. refute. Qed.
(* g_id_drop (C13-ID-DROP-TEXT): a dropped ID column with text -> ValueError *)
Theorem id_drop_refuted : exists i, refutes 4 i.
Proof. exists w_id_drop. refute. Qed.

(* ---- FIXED: the former witnesses now satisfy the whole guard and the code reads them like the reference ---- *)
Definition repaired (i : input) : Prop :=
  guard i = true /\ project_kept i (read_model i) = spec_read i.
Ltac repaired_tac := split; vm_compute; reflexivity.
(* 8a96a4a: IGNORE=^ no longer raises re.error; a comment on the last line without newline is removed *)
Example ignchar_fixed : repaired w_ignchar.
Proof. repaired_tac. Qed.
Example last_comment_fixed : repaired w_last_comment /\ exists t, read_model w_last_comment = Ok t /\ map (fun c => length (snd c)) t = [2; 2; 2].
Proof. split; [repaired_tac | eexists; split; vm_compute; reflexivity]. Qed.
(* f9c38b4: a blank line in the middle is reported *)
Example blank_fixed : repaired w_blank /\ read_model w_blank = Err DatasetError.
Proof. split; [repaired_tac | vm_compute; reflexivity]. Qed.
(* c9e4304: a first row wider than $INPUT is cut *)
Example first_width_fixed : repaired w_first_width /\ exists t, read_model w_first_width = Ok t /\ map (fun c => length (snd c)) t = [2; 2; 2].
Proof. split; [repaired_tac | eexists; split; vm_compute; reflexivity]. Qed.
(* 6a54a3e: IGNORE=(DV.EQ.0) on a missing column removes nothing *)
Example filter_cols_fixed : repaired w_filter_cols /\ exists t, read_model w_filter_cols = Ok t /\ map (fun c => length (snd c)) t = [2; 2; 2].
Proof. split; [repaired_tac | eexists; split; vm_compute; reflexivity]. Qed.
(* 0a78c77 at the level of the reader: -5d1 is read, 2-1-1 is an error in both *)
Example items_signed_d_fixed : repaired w_items_signed_d /\ exists t, read_model w_items_signed_d = Ok t.
Proof. split; [repaired_tac | eexists; vm_compute; reflexivity]. Qed.
Example items_anchored_fixed : repaired w_items_anchored /\ read_model w_items_anchored = Err DatasetError.
Proof. split; [repaired_tac | vm_compute; reflexivity]. Qed.

(* ---- write/read cycle: the generated $INPUT keeps an anonymous DROP ------------------------------------ *)
(* a toy printer for the witness: integers and halves, "x.0" / "x.5" *)
Definition pr_toy (q : Q) : str :=
  let n := Z.quot (Qnum q) (Zpos (Qden q)) in
  let frac := negb (Qeq_bool (inject_Z n) q) in
  (if Z.ltb (Qnum q) 0 then [c_minus] else []) ++ nat_digits (Z.to_nat (Z.abs n)) ++ (if frac then [c_dot; 53%N] else [c_dot; c_0]).

(* old record  $INPUT ID DROP DV ; new dataset with columns ID TIME DV : update_input generates
   $INPUT ID DROP DV again, and the TIME column is read back as the dropped text column _DROP1 *)
Theorem anon_drop_refuted :
  exists (old : list (str * option str)) (ci : colinfo) (hdr : list str) (rows : list (list cell)) (mdt : str),
    column_info old = Ok ci /\ g_no_anon old (length hdr) = false /\ g_no_same_dropped old hdr = true /\
    cycle_guard pr_toy mdt hdr rows = true /\
    update_input_model old (ci_drop ci) (map (fun nm => (nm, false)) hdr) = old /\
    match read_model (cycle_input_opts pr_toy (update_input_model old (ci_drop ci) (map (fun nm => (nm, false)) hdr)) mdt hdr rows) with
    | Ok t => table_same t hdr rows
    | Err _ => false
    end = false.
Proof.
  exists [(s_ID, None); (s_DROP, None); (s_DV, None)].
  eexists. exists [s_ID; s_TIME; s_DV], [[CNum (1#1); CNum (0#1); CNum (3#2)]; [CNum (1#1); CNum (1#1); CNum (5#2)]], (s_of [45;57;57]).
  split; [vm_compute; reflexivity|]. repeat split; vm_compute; reflexivity.
Qed.

(* ---- write_csv(model, new_path) + write_model(force=False): the regenerated $DATA record has lost its
   ACCEPT list but still names the OLD, unfiltered file.  old: $INPUT ID TIME DV FLAG, ACCEPT=(FLAG.EQ.1),
   data 1,0,1,1 / 1,1,2,0 ; in memory: the first row only; read back: both rows *)
Definition stale_old : input :=
  mkInput (s_of [49;44;48;44;49;44;49;10; 49;44;49;44;50;44;48;10])
          [(s_ID, None); (s_TIME, None); (s_DV, None); (s_of [70;76;65;71], None)] None None
          [] [mkFilt (s_of [70;76;65;71]) (Some (s_of [46;69;81;46])) (s_of [49])] (s_of [45;57;57]).
Theorem stale_path_refuted :
  exists (old : input) (ci : colinfo) (hdr : list str) (rows : list (list cell)),
    column_info (i_options old) = Ok ci /\ g_renamed true false false = false /\
    cycle_guard pr_toy (i_mdt old) hdr rows = true /\
    match read_model old with Ok t => table_same t hdr rows | Err _ => false end = true /\
    match read_model (written_input pr_toy true false old ci (i_mdt old) hdr rows) with
    | Ok t => table_same t hdr rows
    | Err _ => false
    end = false.
Proof.
  exists stale_old. eexists. exists [s_ID; s_TIME; s_DV; s_of [70;76;65;71]], [[CNum (1#1); CNum (0#1); CNum (1#1); CNum (1#1)]].
  split; [vm_compute; reflexivity|]. repeat split; vm_compute; reflexivity.
Qed.

(* ---- TIME / DATE translation: three open defects --------------------------------------------------------------- *)
Definition tw (dc : option str) (rows : list (Q * str * str)) : tcase :=
  mkT dc (map (fun r => fst (fst r)) rows) (map (fun r => snd (fst r)) rows) (map snd rows) (Err OtherErr).
Definition model_vs_spec (c : tcase) : bool :=
  tres_agree (translate_model (t_datecol c) (t_ids c) (t_times c) (t_dates c))
             (spec_translate (t_datecol c) (t_ids c) (t_times c) (t_dates c)).
(* DATE without year: the two-part branch returns None *)
Definition w_two_part : tcase := tw (Some s_DATE) [(1#1, s_of [49;50;58;48;48], s_of [49;48;47;51]); (1#1, s_of [49;50;58;51;48], s_of [49;48;47;52])].
Theorem two_part_refuted : exists c, g_three_parts c = false /\ g_has_date c = true /\ g_no_daynum c = true /\ model_vs_spec c = false /\
  translate_model (t_datecol c) (t_ids c) (t_times c) (t_dates c) = Err OtherErr.
Proof. exists w_two_part. repeat split; vm_compute; reflexivity. Qed.
(* clock times without a DATE column stay text *)
Definition w_clock : tcase := tw None [(1#1, s_of [49;50;58;49;48], []); (1#1, s_of [49;51;58;52;48], [])].
Theorem clock_no_date_refuted : exists c, g_has_date c = false /\ g_three_parts c = true /\ model_vs_spec c = false /\
  translate_model (t_datecol c) (t_ids c) (t_times c) (t_dates c) = Ok [CStr (s_of [49;50;58;49;48]); CStr (s_of [49;51;58;52;48])].
Proof. exists w_clock. repeat split; vm_compute; reflexivity. Qed.
(* day-number dates: absolute hours 12.5, 48.5, 84.5 instead of 0, 36, 0 *)
Definition w_daynum : tcase := tw (Some s_DATE) [(1#1, s_of [49;50;46;53], s_of [48]); (1#1, s_of [48;58;51;48], s_of [50]); (2#1, s_of [49;50;46;53], s_of [51])].
Theorem daynum_refuted : exists c, g_no_daynum c = false /\ g_three_parts c = true /\ g_has_date c = true /\ model_vs_spec c = false /\
  tres_agree (translate_model (t_datecol c) (t_ids c) (t_times c) (t_dates c)) (Ok [CNum (25#2); CNum (97#2); CNum (169#2)]) = true /\
  tres_agree (spec_translate (t_datecol c) (t_ids c) (t_times c) (t_dates c)) (Ok [CNum 0; CNum (36#1); CNum 0]) = true.
Proof. exists w_daynum. repeat split; vm_compute; reflexivity. Qed.



(* the truncating split: 12:10 = 12.166666666666666 h is stored as 12:09:59.999999999, and 12:00 -> 12:10 on the same
   day is translated to 0.16666666666638888 h, which is not the double nearest to 1/6 (it is 1250 ulp away) *)
Definition w_split : tcase :=
  tw (Some s_DATE) [(1#1, s_of [49;50;58;48;48], s_of [49;47;49;47;50;48;50;48]); (1#1, s_of [49;50;58;49;48], s_of [49;47;49;47;50;48;50;48])].
(* FIXED by a9224f5: 12:00 -> 12:10 on the same day is now the double nearest to 1/6 *)
Example split_truncation_fixed :
  g_three_parts w_split = true /\ g_has_date w_split = true /\ g_no_daynum w_split = true /\
  exists h, translate_model (t_datecol w_split) (t_ids w_split) (t_times w_split) (t_dates w_split) = Ok [CNum 0; CNum h] /\
            Qeq_bool h (round_double (1 # 6)) = true /\ model_vs_spec w_split = true.
Proof.
  repeat split; try (vm_compute; reflexivity).
  exists (6004799503160661 # 36028797018963968). repeat split; vm_compute; reflexivity.
Qed.
