From Coq Require Import QArith ZArith NArith List Bool PArith Arith Lia ZifyBool.
From PV Require Import Base.PyData C13.Model.
From PV Require Import C13.Time.
Import ListNotations.
Local Open Scope Z_scope.
Ltac Zify.zify_post_hook ::= Z.div_mod_to_equations.

Lemma leap_step y : 1 <= y -> leaps_before (y + 1) - leaps_before y = if leap y then 1 else 0.
Proof. intro H. unfold leaps_before, leap. replace (y + 1 - 1) with y by lia. destruct ((y mod 4 =? 0) && negb (y mod 100 =? 0) || (y mod 400 =? 0)) eqn:E; lia. Qed.

Lemma month_cases m : 1 <= m <= 12 -> m = 1 \/ m = 2 \/ m = 3 \/ m = 4 \/ m = 5 \/ m = 6 \/ m = 7 \/ m = 8 \/ m = 9 \/ m = 10 \/ m = 11 \/ m = 12.
Proof. lia. Qed.

Lemma civil_succ y m d :
  valid_date y m d = true ->
  dn3 (next_day (y, m, d)) = day_number y m d + 1 /\ valid3 (next_day (y, m, d)) = true.
Proof.
  unfold valid_date. intro H.
  repeat (apply andb_true_iff in H; destruct H as [H ?]).
  repeat match goal with Hx : (_ <=? _) = true |- _ => apply Z.leb_le in Hx end.
  assert (1 <= y /\ 1 <= m <= 12 /\ 1 <= d <= month_len y m) as [Hy [Hm Hd]] by (repeat split; assumption).
  unfold next_day. destruct (d <? month_len y m) eqn:Ed.
  - cbn [dn3 valid3]. unfold day_number, valid_date. split; lia.
  - assert (d = month_len y m) as -> by lia.
    destruct (m <? 12) eqn:Em.
    + cbn [dn3 valid3]. unfold day_number, valid_date.
      destruct (month_cases m Hm) as [->|[->|[->|[->|[->|[->|[->|[->|[->|[->|[->| ->]]]]]]]]]]]; try discriminate;
        unfold month_len, cum_days; destruct (leap y) eqn:El; cbn -[Z.mul leaps_before Z.leb]; rewrite ?El; cbn -[Z.mul leaps_before Z.leb]; split; lia.
    + assert (m = 12) as -> by lia. cbn [dn3 valid3]. unfold day_number, valid_date, month_len.
      pose proof (leap_step y Hy) as Hl. unfold cum_days. destruct (leap y) eqn:El; destruct (leap (y + 1)) eqn:El1; cbn -[Z.mul leaps_before Z.leb]; rewrite ?El, ?El1; cbn -[Z.mul leaps_before Z.leb]; split; lia.
Qed.

(* the day number counts calendar days: walking k days forward from a valid date raises it by k *)
Lemma day_number_counts d e k : valid3 d = true -> days_apart d e k -> dn3 e = dn3 d + k /\ valid3 e = true.
Proof.
  intros Hv H. induction H as [d|d e k H IH].
  - split; [lia | exact Hv].
  - destruct (IH Hv) as [I1 I2]. destruct e as [[y m] dd]. destruct (civil_succ y m dd I2) as [S1 S2].
    split; [rewrite S1; cbn [dn3] in I1; lia | exact S2].
Qed.

(* hours between two timestamps = 24 * (calendar days walked) + difference of the clock times *)
Lemma relative_time_calendar_lemma d1 d2 k h1 h2 :
  valid3 d1 = true -> days_apart d1 d2 k ->
  Qeq (hours_between (TStamp (dn3 d1) h1) (TStamp (dn3 d2) h2)) (inject_Z k * 24 + (h2 - h1)).
Proof.
  intros Hv Hd. destruct (day_number_counts d1 d2 k Hv Hd) as [E _]. cbn [hours_between]. rewrite E.
  replace (dn3 d1 + k - dn3 d1) with k by lia. reflexivity.
Qed.

Lemma nth_error_combine {A B} (l : list A) (m : list B) j a b :
  nth_error l j = Some a -> nth_error m j = Some b -> nth_error (combine l m) j = Some (a, b).
Proof.
  revert m j. induction l as [|x l IH]; intros m j Ha Hb; [destruct j; discriminate|].
  destruct m as [|y m]; [destruct j; discriminate|]. destruct j as [|j]; cbn in *.
  - inversion Ha. inversion Hb. reflexivity.
  - apply IH; assumption.
Qed.

(* the translated TIME of a record = calendar difference to the first record of its individual *)
Lemma translated_time_calendar_lemma dc ids times dates vals id j d1 d2 k h1 h2 :
  mapM (fun td => date_time_value dc (fst td) (snd td)) (combine times dates) = Ok vals ->
  all_stamp vals = true ->
  nth_error ids j = Some id -> nth_error vals j = Some (TStamp (dn3 d2) h2) ->
  first_of id ids vals = Some (TStamp (dn3 d1) h1) ->
  valid3 d1 = true -> days_apart d1 d2 k ->
  exists out q, translate_columns dc ids times dates = Ok out /\ nth_error out j = Some q /\
                Qeq q (inject_Z k * 24 + (h2 - h1)).
Proof.
  intros Hm Hs Hid Hv Hf Hval Hd. unfold translate_columns. rewrite Hm, Hs.
  eexists. exists (Qred (hours_between (TStamp (dn3 d1) h1) (TStamp (dn3 d2) h2))). split; [reflexivity|]. split.
  - rewrite nth_error_map. rewrite (nth_error_combine ids vals j id _ Hid Hv). cbn [option_map fst snd]. rewrite Hf. reflexivity.
  - rewrite Qred_correct. apply relative_time_calendar_lemma; assumption.
Qed.

(* the first record of an individual gets 0 *)
Lemma first_record_zero_lemma v : Qeq (hours_between v v) 0.
Proof. destruct v as [h|d h|]; cbn [hours_between]; [ring | rewrite Z.sub_diag; ring | reflexivity]. Qed.

(* ---- binary64 model after fix a9224f5: every clock time h:m is held as exactly (h*60+m)*60e9 nanoseconds --------- *)
Definition clock_ok (h m : nat) : bool :=
  Z.eqb (ns_of_hours (clock_hours h m)) (Z.of_nat ((h * 60 + m) * 60) * 1000000000).

Lemma clock_split_all : forallb (fun h => forallb (fun m => clock_ok h m) (seq 0 60)) (seq 0 24) = true.
Proof. vm_cast_no_check (eq_refl true). Qed.

Lemma clock_split_exact_lemma (h m : nat) :
  (h < 24)%nat -> (m < 60)%nat ->
  ns_of_hours (clock_hours h m) = Z.of_nat ((h * 60 + m) * 60) * 1000000000.
Proof.
  intros Hh Hm. pose proof clock_split_all as H. rewrite forallb_forall in H.
  assert (In h (seq 0 24)) as Hin by (apply in_seq; lia). specialize (H h Hin). rewrite forallb_forall in H.
  assert (In m (seq 0 60)) as Hin2 by (apply in_seq; lia). specialize (H m Hin2).
  revert H. unfold clock_ok. generalize (ns_of_hours (clock_hours h m)). generalize (Z.of_nat ((h * 60 + m) * 60) * 1000000000).
  intros a b H. apply Z.eqb_eq in H. exact H.
Qed.

(* ... so the integer nanosecond difference of two Timestamps with clock times is the calendar difference *)
Lemma stamp_difference_clock_lemma (dn1 dn2 : Z) (h1 m1 h2 m2 : nat) :
  (h1 < 24)%nat -> (m1 < 60)%nat -> (h2 < 24)%nat -> (m2 < 60)%nat ->
  (dn2 * 86400000000000 + ns_of_hours (clock_hours h2 m2)) - (dn1 * 86400000000000 + ns_of_hours (clock_hours h1 m1)) =
  ((dn2 - dn1) * 1440 + (Z.of_nat (h2 * 60 + m2) - Z.of_nat (h1 * 60 + m1))) * 60000000000.
Proof.
  intros A B C D. rewrite (clock_split_exact_lemma h1 m1 A B), (clock_split_exact_lemma h2 m2 C D).
  rewrite !Nat2Z.inj_mul. lia.
Qed.
