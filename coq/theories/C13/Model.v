(* PV.C13.Model — executable model of pharmpy's NONMEM dataset reader
   (src/pharmpy/model/external/nonmem/dataset.py: NMTRANDataIO, convert_fortran_number,
   _convert_data_item, _filter_ignore_accept, _make_ids_unique, read_nonmem_dataset;
   parsing.py: parse_column_info, _synonym, replace_synonym_in_filters, the dtype cast of
   create_nonmem_datainfo/get_dtype_dict; records/data_record.py: null_value, ignore_character)
   mirroring the Python statement by statement, INCLUDING its defects.  The pandas / re / float()
   engines are modelled by their contracts on the documented alphabet (validated by the
   correspondence): re.sub/re.search of the three fixed patterns, re.split of the separator
   pattern, re.match of the short-form pattern (with backtracking), float() of a decimal literal
   (exact rational value; the rounding to a double is checked in Check.v), read_table's python
   engine (strip, blank-row removal, width = width of the first row), DataFrame.query comparisons.
   Strings are lists of code points.  No proofs in this file. *)
From Coq Require Import QArith ZArith NArith List Bool PArith Arith Lia.
From PV Require Import Base.PyData.
Import ListNotations.
Local Open Scope nat_scope.

Definition str := list N.

(* ---- code points ------------------------------------------------------------------------------ *)
Definition c_tab : N := 9%N.      Definition c_nl : N := 10%N.     Definition c_sp : N := 32%N.
Definition c_dq : N := 34%N.      Definition c_hash : N := 35%N.   Definition c_sq : N := 39%N.
Definition c_plus : N := 43%N.    Definition c_comma : N := 44%N.  Definition c_minus : N := 45%N.
Definition c_dot : N := 46%N.     Definition c_0 : N := 48%N.      Definition c_at : N := 64%N.
Definition c_D : N := 68%N.       Definition c_E : N := 69%N.      Definition c_bslash : N := 92%N.
Definition c_caret : N := 94%N.   Definition c_us : N := 95%N.     Definition c_d : N := 100%N.
Definition c_e : N := 101%N.

Definition str_eqb (a b : str) : bool := list_eqb N.eqb a b.
Definition is_digit (c : N) : bool := (N.leb 48 c && N.leb c 57)%N.
Definition is_alpha (c : N) : bool := ((N.leb 65 c && N.leb c 90) || (N.leb 97 c && N.leb c 122))%N.
Definition is_sign (c : N) : bool := N.eqb c c_plus || N.eqb c c_minus.
Definition is_blankc (c : N) : bool := N.eqb c c_sp || N.eqb c c_tab.          (* [ \t] *)
Definition is_expmark_e (c : N) : bool := N.eqb c c_e || N.eqb c c_E.
Definition is_expmark_d (c : N) : bool := N.eqb c c_d || N.eqb c c_D.
(* str.isspace() on latin-1 text *)
Definition is_pyspace (c : N) : bool :=
  (N.leb 9 c && N.leb c 13)%N || (N.leb 28 c && N.leb c 32)%N || N.eqb c 133 || N.eqb c 160.

Fixpoint span {A} (p : A -> bool) (l : list A) : list A * list A :=
  match l with
  | [] => ([], [])
  | x :: tl => if p x then let (a, b) := span p tl in (x :: a, b) else ([], l)
  end.
Fixpoint dropwhile {A} (p : A -> bool) (l : list A) : list A :=
  match l with
  | [] => []
  | x :: tl => if p x then dropwhile p tl else l
  end.
Definition is_nil {A} (l : list A) : bool := match l with [] => true | _ => false end.

(* ---- errors and results ------------------------------------------------------------------------ *)
Inductive err := DatasetError | KeyErr | EmptyData | ValueErr | OtherErr.
Inductive res (A : Type) := Ok (a : A) | Err (e : err).
Arguments Ok {A} a.
Arguments Err {A} e.
Definition bind {A B} (r : res A) (f : A -> res B) : res B :=
  match r with Ok a => f a | Err e => Err e end.
Fixpoint mapM {A B} (f : A -> res B) (l : list A) : res (list B) :=
  match l with
  | [] => Ok []
  | x :: tl => match f x with
               | Err e => Err e
               | Ok y => match mapM f tl with Err e => Err e | Ok ys => Ok (y :: ys) end
               end
  end.

(* a cell of the resulting DataFrame: float64 value, NaN, or a string *)
Inductive cell := CNum (q : Q) | CNaN | CStr (s : str).

(* =================================================================================================
   float(): Python's decimal float literal on the alphabet  0-9 _ . + - e E   (exact value).
   Digit groups may contain single underscores between digits (PEP 515).  'nan', 'inf',
   'infinity', non-ASCII digits and surrounding whitespace are OUTSIDE the modelled alphabet.
   ================================================================================================= *)
Definition is_dig_us (c : N) : bool := is_digit c || N.eqb c c_us.

(* d(_?d)* *)
Fixpoint group_ok_from (prev_us : bool) (l : str) : bool :=
  match l with
  | [] => negb prev_us
  | c :: tl => if N.eqb c c_us then negb prev_us && group_ok_from true tl
               else group_ok_from false tl
  end.
Definition group_ok (l : str) : bool :=
  match l with
  | [] => false
  | c :: _ => is_digit c && group_ok_from false l
  end.
Definition group_digits (l : str) : str := filter is_digit l.

Fixpoint digits_val_from (acc : N) (l : str) : N :=
  match l with
  | [] => acc
  | c :: tl => digits_val_from (acc * 10 + (c - 48))%N tl
  end.
Definition digits_val (l : str) : N := digits_val_from 0%N l.

(* (-1)^neg * (ip.fp) * 10^(±ep) as an exact rational; digit lists hold code points 48..57 *)
Definition dec_value (neg : bool) (ip fp : str) (eneg : bool) (ep : str) : Q :=
  let m := Z.of_N (digits_val (ip ++ fp)) in
  let m := if neg then Z.opp m else m in
  let e := ((if eneg then Z.opp (Z.of_N (digits_val ep)) else Z.of_N (digits_val ep))
            - Z.of_nat (length fp))%Z in
  match e with
  | Z0 => Qmake m 1
  | Zpos p => Qmake (m * Z.pow 10 (Zpos p)) 1
  | Zneg p => Qmake m (Pos.pow 10 p)
  end.

Definition take_sign (s : str) : bool * str :=        (* (is '-', rest) *)
  match s with
  | c :: tl => if N.eqb c c_minus then (true, tl) else if N.eqb c c_plus then (false, tl) else (false, s)
  | [] => (false, s)
  end.

Definition pyfloat_exp (neg : bool) (ip fp : str) (s : str) : option Q :=
  match s with
  | [] => Some (dec_value neg ip fp false [])
  | c :: t =>
      if is_expmark_e c then
        let (eneg, t1) := take_sign t in
        let (r3, s4) := span is_dig_us t1 in
        if group_ok r3 && is_nil s4 then Some (dec_value neg ip fp eneg (group_digits r3)) else None
      else None
  end.

Definition pyfloat (s : str) : option Q :=
  let (neg, s0) := take_sign s in
  let (r1, s1) := span is_dig_us s0 in
  match s1 with
  | c :: s2 =>
      if N.eqb c c_dot then
        let (r2, s3) := span is_dig_us s2 in
        if (group_ok r1 || is_nil r1) && (group_ok r2 || is_nil r2) && negb (is_nil r1 && is_nil r2)
        then pyfloat_exp neg (group_digits r1) (group_digits r2) s3 else None
      else if group_ok r1 then pyfloat_exp neg (group_digits r1) [] s1 else None
  | [] => if group_ok r1 then pyfloat_exp neg (group_digits r1) [] [] else None
  end.

(* =================================================================================================
   convert_fortran_number
   ================================================================================================= *)
Definition non_sd (c : N) : bool := negb (is_sign c || is_expmark_d c).     (* [^+\-dD] *)

(* re.match of the short-form pattern  (sign?)(non-sign-non-dD run)(sign)(non-sign-non-dD run)
   at the start of s (not anchored at the end): groups and the number of characters
   consumed.  Greedy with backtracking: when the string starts with a sign and the run after it is
   not followed by a sign, group 1 backtracks to empty and the leading sign becomes group 3. *)
Definition short_match (s : str) : option (str * str * N * str * nat) :=
  match s with
  | [] => None
  | c :: rest =>
      if is_sign c then
        let (run1, after) := span non_sd rest in
        match after with
        | c2 :: after' =>
            if is_sign c2
            then let g4 := fst (span non_sd after') in
                 Some ([c], run1, c2, g4, 2 + length run1 + length g4)
            else Some ([], [], c, run1, 1 + length run1)
        | [] => Some ([], [], c, run1, 1 + length run1)
        end
      else
        let (run, after) := span non_sd s in
        match after with
        | c2 :: after' =>
            if is_sign c2
            then let g4 := fst (span non_sd after') in Some ([], run, c2, g4, 1 + length run + length g4)
            else None
        | [] => None
        end
  end.

(* re.fullmatch of the same pattern (fix 0a78c77): the groups of the match at the start of s, provided
   it consumes the whole string — no other decomposition can (the runs contain no sign) *)
Definition short_fullmatch (s : str) : option (str * str * N * str) :=
  match short_match s with
  | Some (g1, g2, g3, g4, k) => if Nat.eqb k (length s) then Some (g1, g2, g3, g4) else None
  | None => None
  end.

Definition replace_d (s : str) : str := map (fun c => if is_expmark_d c then c_e else c) s.

(* None = ValueError *)
Definition convert (s : str) : option Q :=
  match pyfloat s with
  | Some q => Some q
  | None =>
      if str_eqb s [c_plus] || str_eqb s [c_minus] then Some (0 # 1)
      else match short_fullmatch s with
           | Some (g1, g2, g3, g4) =>
               let msign := if str_eqb g1 [c_minus] then [c_minus] else [] in
               pyfloat (msign ++ g2 ++ [c_E] ++ [g3] ++ g4)      (* a failure here is final *)
           | None =>
               if existsb is_expmark_d s then pyfloat (replace_d s) else None
           end
  end.

(* _convert_data_item(x, null_value, missing_data_token); x = None is a cell pandas padded *)
Definition null_subst (nullstr : str) (x : option str) : str :=
  match x with
  | None => nullstr
  | Some s => if str_eqb s [c_dot] || is_nil s then nullstr else s
  end.
Definition convert_item (nullstr mdt : str) (x : option str) : res cell :=
  let x1 := null_subst nullstr x in
  if 24 <? length x1 then Err DatasetError
  else if str_eqb x1 mdt then Ok CNaN
  else match convert x1 with Some q => Ok (CNum q) | None => Err DatasetError end.

(* =================================================================================================
   NMTRANDataIO: comment lines, space before TAB, blank lines
   ================================================================================================= *)
(* (newline-terminated lines, unterminated tail) of a text *)
Fixpoint lines_tail (s : str) : list str * str :=
  match s with
  | [] => ([], [])
  | x :: tl =>
      let (ls, t) := lines_tail tl in
      if N.eqb x c_nl then ([] :: ls, t)
      else match ls with
           | [] => ([], x :: t)
           | l :: ls' => ((x :: l) :: ls', t)
           end
  end.

(* '^[ \t]*[A-Za-z#@].*\n'  resp.  '^[c].*\n'  matched at the start of a newline-terminated line *)
Definition comment_line (ic : N) (l : str) : bool :=
  if N.eqb ic c_at then
    match dropwhile is_blankc l with
    | c :: _ => is_alpha c || N.eqb c c_hash || N.eqb c c_at
    | [] => false
    end
  else match l with c :: _ => N.eqb c ic | [] => false end.

Fixpoint has_space_tab (s : str) : bool :=
  match s with
  | a :: ((b :: _) as tl) => (N.eqb a c_sp && N.eqb b c_tab) || has_space_tab tl
  | _ => false
  end.

(* re.search(r'^[ \t]*\n|^[ \t]+\Z', contents, re.MULTILINE) (fix f9c38b4): a blank terminated line, or a
   non-empty blank unterminated last line *)
Definition blank_error (ls : list str) (t : str) : bool :=
  existsb (forallb is_blankc) ls || (negb (is_nil t) && forallb is_blankc t).

(* the prefiltered text, kept as (terminated lines, tail).  The comment patterns end in (?:\n|\Z) and the
   IGNORE character is escaped (fix 8a96a4a): a comment on the unterminated last line is removed too *)
Definition prefilter (ic : N) (s : str) : res (list str * str) :=
  let (ls, t0) := lines_tail s in
  let kept := filter (fun l => negb (comment_line ic l)) ls in
  let t := if comment_line ic t0 then [] else t0 in
  if existsb has_space_tab (kept ++ [t]) then Err DatasetError
  else if blank_error kept t then Err DatasetError
  else Ok (kept, t).

(* =================================================================================================
   pandas.read_table(engine='python', sep=r' *, *| *[\t] *| +', header=None, index_col=False)
   ================================================================================================= *)
Definition count_sp (s : str) : nat := length (fst (span (N.eqb c_sp) s)).

(* length of the separator matched at the head of s, alternatives tried in order *)
Definition sep_len (s : str) : option nat :=
  let k := count_sp s in
  match skipn k s with
  | c :: r =>
      if N.eqb c c_comma || N.eqb c c_tab then Some (k + 1 + count_sp r)
      else match k with 0 => None | _ => Some k end
  | [] => match k with 0 => None | _ => Some k end
  end.

(* re.split: leftmost separator, skip it, continue *)
Fixpoint resplit_aux (skip : nat) (cur : str) (s : str) : list str :=
  match s with
  | [] => [rev cur]
  | c :: tl =>
      match skip with
      | S k => resplit_aux k cur tl
      | 0 => match sep_len s with
             | Some (S l) => rev cur :: resplit_aux l [] tl
             | _ => resplit_aux 0 (c :: cur) tl
             end
      end
  end.
Definition resplit (s : str) : list str := resplit_aux 0 [] s.

Definition pystrip (s : str) : str := rev (dropwhile is_pyspace (rev (dropwhile is_pyspace s))).

(* _remove_empty_lines *)
Definition blank_row (r : list str) : bool :=
  match r with
  | [] => true
  | [x] => forallb is_pyspace x
  | _ => false
  end.

Definition file_lines (p : list str * str) : list str :=
  fst p ++ (if is_nil (snd p) then [] else [snd p]).

Definition raw_rows (p : list str * str) : list (list str) :=
  filter (fun r => negb (blank_row r)) (map (fun l => resplit (pystrip l)) (file_lines p)).

(* every row cut / padded (with None) to the width of the FIRST row *)
Definition shape (w : nat) (r : list str) : list (option str) :=
  firstn w (map Some r ++ repeat None w).

(* column naming in read_nonmem_dataset (raw=False): surplus columns are cut by position (fix c9e4304),
   missing columns are padded with None — NULL is inserted after the filters (fix 6a54a3e) *)
Definition frame (n : nat) (rows : list (list str)) : res (list (list (option str))) :=
  match rows with
  | [] => Err EmptyData
  | r0 :: _ =>
      let w := length r0 in
      Ok (map (fun r => firstn n (shape w r) ++ repeat None (n - w)) rows)
  end.

(* =================================================================================================
   $INPUT: parse_column_info / _synonym
   ================================================================================================= *)
Definition s_of (l : list nat) : str := map N.of_nat l.
Definition s_DROP := s_of [68;82;79;80].     Definition s_SKIP := s_of [83;75;73;80].
Definition s_ID := s_of [73;68].             Definition s_L1 := s_of [76;49].
Definition s_L2 := s_of [76;50].             Definition s_DV := s_of [68;86].
Definition s_MDV := s_of [77;68;86].         Definition s_RAW_ := s_of [82;65;87;95].
Definition s_MRG_ := s_of [77;82;71;95].     Definition s_RPT_ := s_of [82;80;84;95].
Definition s_TIME := s_of [84;73;77;69].     Definition s_DATE := s_of [68;65;84;69].
Definition s_DAT1 := s_of [68;65;84;49].     Definition s_DAT2 := s_of [68;65;84;50].
Definition s_DAT3 := s_of [68;65;84;51].     Definition s_EVID := s_of [69;86;73;68].
Definition s_AMT := s_of [65;77;84].         Definition s_RATE := s_of [82;65;84;69].
Definition s_SS := s_of [83;83].             Definition s_II := s_of [73;73].
Definition s_ADDL := s_of [65;68;68;76].     Definition s_CMT := s_of [67;77;84].
Definition s_PCMT := s_of [80;67;77;84].     Definition s_CALL := s_of [67;65;76;76].
Definition s_CONT := s_of [67;79;78;84].     Definition s_DVID := s_of [68;86;73;68].
Definition s__DROP := s_of [95;68;82;79;80].

Definition reserved_names : list str :=
  [s_ID; s_L1; s_L2; s_DV; s_MDV; s_RAW_; s_MRG_; s_RPT_; s_TIME; s_DATE; s_DAT1; s_DAT2; s_DAT3;
   s_EVID; s_AMT; s_RATE; s_SS; s_II; s_ADDL; s_CMT; s_PCMT; s_CALL; s_CONT].
Definition mems (x : str) (l : list str) : bool := existsb (str_eqb x) l.

(* decimal text of a natural number (for _DROP1, _DROP2, ...) *)
Fixpoint nat_digits_fuel (fuel n : nat) (acc : str) : str :=
  match fuel with
  | 0 => acc
  | S f => let d := N.of_nat (48 + n mod 10) in
           match n / 10 with 0 => d :: acc | m => nat_digits_fuel f m (d :: acc) end
  end.
Definition nat_digits (n : nat) : str := nat_digits_fuel (S n) n [].

Record colinfo := mkCols {
  ci_names : list str;
  ci_drop : list bool;
  ci_syn : list (str * str)            (* reserved name -> synonym, later entries win *)
}.

Definition is_dropword (s : str) : bool := str_eqb s s_DROP || str_eqb s s_SKIP.

Fixpoint column_info_from (opts : list (str * option str)) (next_anon : nat)
         (names : list str) (drops : list bool) (syn : list (str * str)) : res colinfo :=
  match opts with
  | [] => Ok (mkCols (rev names) (rev drops) syn)
  | (key, Some value) :: tl =>
      if is_dropword key then column_info_from tl next_anon (value :: names) (true :: drops) syn
      else if is_dropword value then column_info_from tl next_anon (key :: names) (true :: drops) syn
      else if mems key reserved_names
           then column_info_from tl next_anon (value :: names) (false :: drops) ((key, value) :: syn)
      else if mems value reserved_names
           then column_info_from tl next_anon (key :: names) (false :: drops) ((value, key) :: syn)
      else Err DatasetError
  | (key, None) :: tl =>
      if is_dropword key
      then column_info_from tl (S next_anon) ((s__DROP ++ nat_digits next_anon) :: names) (true :: drops) syn
      else column_info_from tl next_anon (key :: names) (false :: drops) syn
  end.
Definition column_info (opts : list (str * option str)) : res colinfo :=
  column_info_from opts 1 [] [] [].

(* the fourth result of parse_column_info: the names as given (None for an anonymous DROP/SKIP) *)
Fixpoint given_names (opts : list (str * option str)) : list (option str) :=
  match opts with
  | [] => []
  | (key, Some value) :: tl =>
      (if is_dropword key then Some value
       else if is_dropword value then Some key
       else if mems key reserved_names then Some value
       else Some key) :: given_names tl
  | (key, None) :: tl => (if is_dropword key then None else Some key) :: given_names tl
  end.

(* update.py update_input: the $INPUT record for a changed dataset.  `new` = (name, drop) of the
   columns of the new datainfo.  An old option is replaced when its given name differs from the new
   name — but an ANONYMOUS old option has no given name and is never replaced (defect) — or when the
   column becomes dropped; surplus old options are discarded, surplus new columns appended. *)
Fixpoint update_input_from (old : list (str * option str)) (given : list (option str)) (drops : list bool)
         (new : list (str * bool)) {struct new} : list (str * option str) :=
  match new with
  | [] => []
  | (nm, nd) :: new' =>
      match old, given, drops with
      | o :: old', g :: given', d :: drops' =>
          let changed := match g with Some x => negb (str_eqb x nm) | None => false end || (negb d && nd) in
          let anonymous := match g with None => true | Some _ => false end in
          (if changed
           then (if anonymous && nd then s_DROP else nm, if negb anonymous && nd then Some s_DROP else None)
           else o) :: update_input_from old' given' drops' new'
      | _, _, _ => map (fun x : str * bool => (fst x, if snd x then Some s_DROP else @None str)) new
      end
  end.
Definition update_input_model (old : list (str * option str)) (drops : list bool) (new : list (str * bool))
  : list (str * option str) := update_input_from old (given_names old) drops new.

Fixpoint alookup_s {A} (l : list (str * A)) (k : str) : option A :=
  match l with
  | [] => None
  | (k', v) :: tl => if str_eqb k k' then Some v else alookup_s tl k
  end.

Fixpoint nodup_s (l : list str) : bool :=
  match l with [] => true | x :: tl => negb (mems x tl) && nodup_s tl end.

Fixpoint index_of (x : str) (l : list str) : option nat :=
  match l with
  | [] => None
  | y :: tl => if str_eqb x y then Some 0 else option_map S (index_of x tl)
  end.

(* =================================================================================================
   IGNORE / ACCEPT
   ================================================================================================= *)
Inductive optok := OP_EQ | OP_STR_EQ | OP_NE | OP_STR_NE | OP_LT | OP_GT | OP_LT_EQ | OP_GT_EQ.
Inductive cmpop := CEq | CNe | CLt | CGt | CLe | CGe.
Inductive okind := KStr | KFloat.

(* the terminals of the filter grammar *)
Definition op_texts : list (str * optok) :=
  [ (s_of [46;69;81;78;46], OP_EQ);                                   (* .EQN. *)
    (s_of [46;69;81;46], OP_STR_EQ); (s_of [61;61], OP_STR_EQ); (s_of [61], OP_STR_EQ);
    (s_of [46;78;69;78;46], OP_NE);                                   (* .NEN. *)
    (s_of [46;78;69;46], OP_STR_NE); (s_of [47;61], OP_STR_NE);       (* .NE.  /= *)
    (s_of [46;76;84;46], OP_LT); (s_of [60], OP_LT);
    (s_of [46;71;84;46], OP_GT); (s_of [62], OP_GT);
    (s_of [46;76;69;46], OP_LT_EQ); (s_of [60;61], OP_LT_EQ);
    (s_of [46;71;69;46], OP_GT_EQ); (s_of [62;61], OP_GT_EQ) ].
Definition op_of_text (s : str) : option optok := alookup_s op_texts s.

(* the if-chain of _filter_ignore_accept *)
Definition op_table (t : optok) : cmpop * okind :=
  match t with
  | OP_EQ => (CEq, KFloat)
  | OP_NE => (CNe, KFloat)
  | OP_LT => (CLt, KFloat)
  | OP_GT => (CGt, KFloat)
  | OP_LT_EQ => (CLe, KFloat)
  | OP_GT_EQ => (CGe, KFloat)
  | OP_STR_EQ => (CEq, KStr)
  | OP_STR_NE => (CNe, KStr)
  end.

Record filt := mkFilt {
  f_col : str;
  f_op : option str;          (* operator text as written; None = no operator (default: string ==) *)
  f_expr : str                (* EXPR / QEXPR token text *)
}.

Definition unquote (e : str) : str :=
  if 3 <=? length e then
    match e, rev e with
    | a :: tl, b :: _ =>
        if (N.eqb a c_sq && N.eqb b c_sq) || (N.eqb a c_dq && N.eqb b c_dq) then removelast tl else e
    | _, _ => e
    end
  else e.

(* replace_synonym_in_filters: the column of a filter is replaced when it is a key of the
   reserved-name -> synonym dictionary *)
Definition filter_column (syn : list (str * str)) (f : filt) : str :=
  match alookup_s syn (f_col f) with Some v => v | None => f_col f end.

Definition cmp_q (op : cmpop) (a b : Q) : bool :=
  match op with
  | CEq => Qeq_bool a b
  | CNe => negb (Qeq_bool a b)
  | CLt => negb (Qle_bool b a)
  | CGt => negb (Qle_bool a b)
  | CLe => Qle_bool a b
  | CGe => Qle_bool b a
  end.
(* DataFrame.query compares binary64 values: round-to-nearest-even of the exact decimal (normal range; the
   exponent is unbounded here, so overflow to inf and subnormals are outside the model) *)
Definition round_half_even (n : Z) (d : positive) : Z :=
  let q := Z.div n (Zpos d) in
  let r := Z.modulo n (Zpos d) in
  match Z.compare (2 * r) (Zpos d) with
  | Lt => q
  | Gt => (q + 1)%Z
  | Eq => if Z.even q then q else (q + 1)%Z
  end.
Definition round_double (x : Q) : Q :=
  match Qnum x with
  | Z0 => 0 # 1
  | _ =>
      let n := Z.abs (Qnum x) in
      let d := Qden x in
      (* e = floor(log2 (n/d)) *)
      let e0 := (Z.log2 n - Z.log2 (Zpos d))%Z in
      let ge := match e0 with
                | Zneg p => Z.leb (Zpos d) (n * Z.pow 2 (Zpos p))
                | _ => Z.leb (Zpos d * Z.pow 2 e0) n
                end in
      let e := if ge then e0 else (e0 - 1)%Z in
      (* mantissa m = round(n/d * 2^(52-e)), value m * 2^(e-52) *)
      let sh := (52 - e)%Z in
      let m := match sh with
               | Zneg p => round_half_even n (d * Pos.pow 2 p)
               | _ => round_half_even (n * Z.pow 2 sh) d
               end in
      let v := match sh with
               | Zneg p => Qmake (m * Z.pow 2 (Zpos p)) 1
               | Z0 => Qmake m 1
               | Zpos p => Qmake m (Pos.pow 2 p)
               end in
      if Z.ltb (Qnum x) 0 then Qopp v else v
  end.
(* float comparison with NaN: everything False except != *)
Definition cmp_cell (op : cmpop) (a : cell) (b : Q) : bool :=
  match a with
  | CNum q => cmp_q op (round_double q) (round_double b)
  | _ => match op with CNe => true | _ => false end
  end.
(* object column == "text": a padded cell (None) is different from every string *)
Definition cmp_str (op : cmpop) (a : option str) (b : str) : bool :=
  let eq := match a with Some s => str_eqb s b | None => false end in
  match op with CEq => eq | _ => negb eq end.

Definition keep_of (ignore : bool) (cond : bool) : bool := if ignore then negb cond else cond.

Definition nth_cell (r : list (option str)) (j : nat) : option str := nth j r None.

(* one statement of the list applied to the whole frame *)
Definition apply_filter (names : list str) (syn : list (str * str)) (nullstr mdt : str) (ignore : bool)
           (f : filt) (rows : list (list (option str))) : res (list (list (option str))) :=
  let '(op, kind) := match f_op f with
                     | None => (CEq, KStr)
                     | Some t => match op_of_text t with Some tok => op_table tok | None => (CEq, KStr) end
                     end in
  let e := unquote (f_expr f) in
  match index_of (filter_column syn f) names with
  | None => match kind with KStr => Err OtherErr | KFloat => Err KeyErr end   (* UndefinedVariableError / df[column] *)
  | Some j =>
      match kind with
      | KStr => Ok (filter (fun r => keep_of ignore (cmp_str op (nth_cell r j) e)) rows)
      | KFloat =>
          (* the column is converted first (every remaining row), then the query runs *)
          bind (mapM (fun r => convert_item nullstr mdt (nth_cell r j)) rows) (fun vals =>
          match pyfloat e with
          | None => Err OtherErr
          | Some x =>
              Ok (map fst (filter (fun rv => keep_of ignore (cmp_cell op (snd rv) x)) (combine rows vals)))
          end)
      end
  end.

Fixpoint apply_filters (names : list str) (syn : list (str * str)) (nullstr mdt : str) (ignore : bool)
         (fs : list filt) (rows : list (list (option str))) : res (list (list (option str))) :=
  match fs with
  | [] => Ok rows
  | f :: tl => bind (apply_filter names syn nullstr mdt ignore f rows)
                    (apply_filters names syn nullstr mdt ignore tl)
  end.

Definition filter_ignore_accept (names : list str) (syn : list (str * str)) (nullstr mdt : str)
           (ign acc : list filt) (rows : list (list (option str))) : res (list (list (option str))) :=
  match ign, acc with
  | _ :: _, _ :: _ => Err ValueErr                   (* "Cannot have both IGNORE and ACCEPT" *)
  | [], [] => Ok rows
  | _ :: _, [] => apply_filters names syn nullstr mdt true ign rows
  | [], _ :: _ => apply_filters names syn nullstr mdt false acc rows
  end.

(* =================================================================================================
   column conversion, _make_ids_unique, ID check, TIME, dtype cast
   ================================================================================================= *)
Inductive icell := IRaw (x : option str) | IVal (c : cell).

Definition date_names : list str := [s_DATE; s_DAT1; s_DAT2; s_DAT3].
Definition parse_col (name : str) (dropped : bool) : bool :=
  negb dropped && negb (mems name (s_TIME :: date_names)).

(* the df[column].apply(_convert_data_item) loop over parse_columns, seen from one row *)
Fixpoint convert_row (nullstr mdt : str) (parse : list bool) (r : list (option str)) : res (list icell) :=
  match parse, r with
  | p :: ps, x :: xs =>
      bind (if p then bind (convert_item nullstr mdt x) (fun c => Ok (IVal c)) else Ok (IRaw x)) (fun c =>
      bind (convert_row nullstr mdt ps xs) (fun cs => Ok (c :: cs)))
  | _, _ => Ok []
  end.

(* the frame column by column *)
Record column := mkCol { col_name : str; col_drop : bool; col_cells : list icell }.

Definition hd_cell (r : list icell) : icell := match r with c :: _ => c | [] => IRaw None end.
Fixpoint columns_of (names : list str) (drops : list bool) (rows : list (list icell)) : list column :=
  match names, drops with
  | nm :: ns, d :: ds => mkCol nm d (map hd_cell rows) :: columns_of ns ds (map (@tl icell) rows)
  | _, _ => []
  end.

Definition cell_eqb (a b : cell) : bool :=
  match a, b with
  | CNum x, CNum y => Qeq_bool x y
  | CNaN, CNaN => true
  | CStr x, CStr y => str_eqb x y
  | _, _ => false
  end.
(* Series.diff(1) != 0 : first row True; NaN differences are != 0 *)
Definition id_change (prev : option cell) (cur : cell) : bool :=
  match prev, cur with
  | Some (CNum a), CNum b => negb (Qeq_bool a b)
  | _, _ => true
  end.
Fixpoint id_changes (prev : option cell) (ids : list cell) : list bool :=
  match ids with
  | [] => []
  | c :: tl => id_change prev c :: id_changes (Some c) tl
  end.
Fixpoint nunique_from (seen : list cell) (ids : list cell) : nat :=
  match ids with
  | [] => length seen
  | c :: tl => if existsb (cell_eqb c) seen then nunique_from seen tl else nunique_from (c :: seen) tl
  end.
Fixpoint cumsum_from (acc : nat) (l : list bool) : list nat :=
  match l with
  | [] => []
  | b :: tl => let a := if b then S acc else acc in a :: cumsum_from a tl
  end.
Definition count_true (l : list bool) : nat := length (filter (fun b => b) l).

Definition make_ids_unique (ids : list cell) : list cell :=
  let ch := id_changes None ids in
  if Nat.eqb (count_true ch) (nunique_from [] ids) then ids
  else map (fun k => CNum (inject_Z (Z.of_nat k))) (cumsum_from 0 ch).

Definition icell_val (c : icell) : cell := match c with IVal v => v | IRaw _ => CNaN end.

(* which column is the id column: 'ID' if there is such a column (dropped or not), else 'L1' *)
Definition id_label (names : list str) : option str :=
  if mems s_ID names then Some s_ID else if mems s_L1 names then Some s_L1 else None.
Definition is_label (l : option str) (nm : str) : bool :=
  match l with Some x => str_eqb x nm | None => false end.

(* int('...') of a Python str: optional sign, digit group *)
Definition pyint_ok (s : str) : bool :=
  let (_, r) := take_sign s in group_ok r && forallb is_dig_us r.
(* fits an int32 for sure (at most nine digits) *)
Definition pyint_small (s : str) : bool := pyint_ok s && (length (filter is_digit s) <=? 9).

(* float64 -> int32 cast (truncation toward zero); NaN cannot be cast *)
Definition to_int32 (c : cell) : res cell :=
  match c with
  | CNum q => Ok (CNum (inject_Z (Z.quot (Qnum q) (Zpos (Qden q)))))
  | _ => Err ValueErr
  end.

Definition int32_names : list str := [s_ID; s_L1; s_DVID].

(* the final astype(dtype[column]): dropped -> str, ID/L1/DVID -> int32, else float64 / text *)
Definition finish_cell (name : str) (dropped : bool) (c : icell) : res cell :=
  match c with
  | IRaw (Some s) => Ok (CStr s)
  | IRaw None => Ok CNaN
  | IVal v => if negb dropped && mems name int32_names then to_int32 v else Ok v
  end.
Definition finish_col (c : column) : res (str * list cell) :=
  bind (mapM (finish_cell (col_name c) (col_drop c)) (col_cells c)) (fun cells => Ok (col_name c, cells)).

Definition has_date (names : list str) : bool := existsb (fun d => mems d names) date_names.

(* _make_ids_unique(df, parse_columns) *)
Definition ids_step (lbl : option str) (c : column) : column :=
  if is_label lbl (col_name c) && parse_col (col_name c) (col_drop c)
  then mkCol (col_name c) (col_drop c) (map IVal (make_ids_unique (map icell_val (col_cells c))))
  else c.

(* all(df[idcol].astype('int32') == df[idcol]) : only its error behaviour matters *)
Definition id_check_cell (c : icell) : res unit :=
  match c with
  | IVal (CNum _) => Ok tt
  | IVal _ => Err ValueErr
  | IRaw (Some s) => if pyint_ok s then (if pyint_small s then Ok tt else Err OtherErr)   (* OverflowError *)
                     else Err ValueErr
  | IRaw None => Err OtherErr
  end.
Definition id_check (lbl : option str) (c : column) : res unit :=
  if is_label lbl (col_name c) then bind (mapM id_check_cell (col_cells c)) (fun _ => Ok tt) else Ok tt.

(* TIME is converted when every item converts, else left as text (a dropped TIME column is outside
   the model: the code converts it and prints the floats back to text) *)
Definition time_step (nullstr mdt : str) (dates : bool) (c : column) : column :=
  if str_eqb (col_name c) s_TIME && negb dates && negb (col_drop c) then
    match mapM (fun x => match x with
                         | IRaw y => convert_item nullstr mdt y
                         | IVal v => Ok v end) (col_cells c) with
    | Ok vals => mkCol (col_name c) (col_drop c) (map IVal vals)
    | Err _ => c
    end
  else c.

Definition postprocess (lbl : option str) (dates : bool) (nullstr mdt : str) (cols : list column)
  : res (list (str * list cell)) :=
  let cols1 := map (ids_step lbl) cols in
  bind (mapM (id_check lbl) cols1) (fun _ =>
  mapM finish_col (map (time_step nullstr mdt dates) cols1)).

(* =================================================================================================
   the whole reader: Model.dataset of a $PRED model
   ================================================================================================= *)
Record input := mkInput {
  i_text : str;                                (* contents of the data file *)
  i_options : list (str * option str);         (* $INPUT record.all_options *)
  i_ignchar : option str;                      (* $DATA IGNORE=c : the CHAR token as written (c, 'c' or "c") *)
  i_null : option N;                           (* $DATA NULL=c *)
  i_ignore : list filt;                        (* $DATA IGNORE=(list), in order *)
  i_accept : list filt;                        (* $DATA ACCEPT=(list), in order *)
  i_mdt : str                                  (* conf.missing_data_token *)
}.

(* DataRecord.null_value, then str(): 0 -> '0', float(c) -> 'c.0' *)
Definition null_string (c : option N) : res str :=
  match c with
  | None => Ok [c_0]
  | Some ch => if is_sign ch then Ok [c_0]
               else if is_digit ch then Ok [ch; c_dot; c_0] else Err ValueErr
  end.

(* DataRecord.ignore_character: a three character token is a quoted character; NMTRANDataIO: no
   character means '#' *)
Definition ign_char (c : option str) : N :=
  match c with
  | Some [_; x; _] => x
  | Some (x :: _) => x
  | _ => c_hash
  end.

Definition kept_names (names : list str) (drops : list bool) : list str :=
  map fst (filter (fun nd => negb (snd nd)) (combine names drops)).

(* the result: columns in order, each with its name and its cells *)
Definition read_model (i : input) : res (list (str * list cell)) :=
  bind (column_info (i_options i)) (fun ci =>
  let names := ci_names ci in
  let drops := ci_drop ci in
  bind (null_string (i_null i)) (fun nullstr =>
  if negb (nodup_s (kept_names names drops)) then Err KeyErr else
  bind (prefilter (ign_char (i_ignchar i)) (i_text i)) (fun p =>
  bind (frame (length names) (raw_rows p)) (fun fr =>
  bind (filter_ignore_accept names (ci_syn ci) nullstr (i_mdt i) (i_ignore i) (i_accept i) fr) (fun fr' =>
  bind (mapM (convert_row nullstr (i_mdt i) (map (fun nd => parse_col (fst nd) (snd nd)) (combine names drops))) fr')
       (fun rows =>
  postprocess (id_label names) (has_date names) nullstr (i_mdt i) (columns_of names drops rows))))))).
