From Coq Require Import QArith ZArith NArith List Bool PArith Arith Lia.
From PV Require Import Base.PyData C13.Model C13.Spec C13.Proofs C13.Pk.
Import ListNotations.
Local Open Scope nat_scope.

(* ---- names of the columns read_model returns ----------------------------------------------------------- *)
Lemma mapM_finish_names cols t : mapM finish_col cols = Ok t -> map fst t = map col_name cols.
Proof.
  revert t. induction cols as [|c cols IH]; intros t H; [inversion H; reflexivity|]. cbn [mapM] in H.
  destruct (finish_col c) as [y|e] eqn:E; [|discriminate]. destruct (mapM finish_col cols) as [ys|e]; [|discriminate].
  inversion H. subst. cbn [map]. f_equal; [|apply IH; reflexivity].
  unfold finish_col in E. destruct (mapM _ (col_cells c)); [|discriminate]. inversion E. reflexivity.
Qed.

Lemma postprocess_names lbl dates ns mdt cols t :
  postprocess lbl dates ns mdt cols = Ok t -> map fst t = map col_name cols.
Proof.
  unfold postprocess. destruct (mapM (id_check lbl) _); [|discriminate]. cbn [bind]. intro H.
  rewrite (mapM_finish_names _ _ H). rewrite !map_map. apply map_ext. intro c.
  rewrite (proj1 (time_step_shape ns mdt dates (ids_step lbl c))). apply (proj1 (ids_step_shape lbl c)).
Qed.

Lemma read_model_names i ci t :
  column_info (i_options i) = Ok ci -> read_model i = Ok t -> map fst t = ci_names ci.
Proof.
  intros Hci H. unfold read_model in H. rewrite Hci in H. cbn [bind] in H. cbv zeta in H.
  assert (length (ci_drop ci) = length (ci_names ci)) as Hdl.
  { unfold column_info in Hci. apply (length_column_info (i_options i) 1 [] [] [] ci); [reflexivity | exact Hci]. }
  destruct (null_string (i_null i)); [|discriminate]. cbn [bind] in H.
  destruct (negb (nodup_s _)); [discriminate|].
  destruct (prefilter _ _); [|discriminate]. cbn [bind] in H.
  destruct (frame _ _); [|discriminate]. cbn [bind] in H.
  destruct (filter_ignore_accept _ _ _ _ _ _ _); [|discriminate]. cbn [bind] in H.
  destruct (mapM _ _) as [rows|]; [|discriminate]. cbn [bind] in H.
  rewrite (postprocess_names _ _ _ _ _ _ H). apply (proj2 (columns_drops (ci_names ci) (ci_drop ci) rows Hdl)).
Qed.

(* ---- projection on the kept columns commutes with the observation filter ------------------------------------ *)
Lemma kept_of_map {A B} (f : A -> B) drops (l : list A) : kept_of drops (map f l) = map f (kept_of drops l).
Proof.
  revert drops. induction l as [|x l IH]; intro drops; [reflexivity|]. destruct drops as [|d drops]; [reflexivity|].
  cbn [map]. rewrite !kept_of_cons. destruct d; [apply IH | cbn [map]; f_equal; apply IH].
Qed.

Lemma alookup_kept {A} (t : list (str * A)) : forall drops l,
  nodup_s (map fst t) = true -> length drops = length t ->
  In (l, false) (combine (map fst t) drops) ->
  alookup_s (kept_of drops t) l = alookup_s t l.
Proof.
  induction t as [|[nm v] t IH]; intros drops l Hn Hl Hin; [destruct Hin|].
  destruct drops as [|d drops]; [discriminate|]. cbn [map fst] in Hn, Hin. cbn [nodup_s] in Hn.
  apply andb_true_iff in Hn. destruct Hn as [Hnm Hn]. apply negb_true_iff in Hnm.
  rewrite kept_of_cons. cbn [alookup_s]. cbn [combine] in Hin.
  destruct (str_eqb l nm) eqn:E.
  - apply str_eqb_eq in E. subst nm. destruct Hin as [Hin|Hin].
    + inversion Hin. subst d. cbn [alookup_s]. rewrite str_eqb_refl. reflexivity.
    + exfalso. apply in_combine_l in Hin. apply mems_In in Hin. cbn [fst] in Hnm. rewrite Hin in Hnm. discriminate.
  - destruct Hin as [Hin|Hin]; [inversion Hin; subst; rewrite str_eqb_refl in E; discriminate|].
    destruct d; [|cbn [alookup_s]; rewrite E]; apply IH; auto; cbn in Hl; lia.
Qed.

Lemma filter_obs_kept (t : list (str * list cell)) drops l :
  nodup_s (map fst t) = true -> length drops = length t ->
  In (l, false) (combine (map fst t) drops) -> In (s_ID, false) (combine (map fst t) drops) ->
  match filter_obs l t with
  | Ok t' => filter_obs l (kept_of drops t) = Ok (kept_of drops t')
  | Err e => filter_obs l (kept_of drops t) = Err e
  end.
Proof.
  intros Hn Hl Hlab Hid. unfold filter_obs. rewrite (alookup_kept t drops l Hn Hl Hlab), (alookup_kept t drops s_ID Hn Hl Hid).
  destruct (alookup_s t l) as [labs|]; [|reflexivity]. destruct (alookup_s t s_ID) as [ids|]; [|reflexivity].
  rewrite kept_of_map. reflexivity.
Qed.

Lemma kept_names_pairs names drops l : mems l (kept_names names drops) = true -> In (l, false) (combine names drops).
Proof. intro H. apply mems_In in H. change (kept_names names drops) with (kept_of drops names) in H. apply kept_of_spec. exact H. Qed.

Lemma obs_label_kept knames syn l : obs_label knames syn = Some l -> mems l knames = true.
Proof.
  unfold obs_label. destruct (mems s_MDV knames) eqn:E1; [intro H; inversion H; subst; exact E1|].
  destruct (mems s_EVID knames) eqn:E2; [intro H; inversion H; subst; exact E2|].
  destruct (mems s_AMT knames) eqn:E3; [intro H; inversion H; subst; exact E3|].
  destruct (alookup_s syn s_AMT) as [x|]; [|discriminate]. destruct (mems x knames) eqn:E4; [|discriminate].
  intro H. inversion H. subst. exact E4.
Qed.

(* the composition: the dataset of a $PK model, restricted to the kept columns, is the reference reader followed
   by the observation filter *)
Lemma reader_refines_pk_lemma i :
  guard i = true ->
  match column_info (i_options i) with
  | Ok ci => mems s_ID (kept_names (ci_names ci) (ci_drop ci)) = true
  | Err _ => True
  end ->
  project_kept i (read_model_pk i) = spec_read_pk i.
Proof.
  intros Hg Hid. pose proof (reader_refines_match i Hg) as Hm. unfold project_kept, read_model_pk, spec_read_pk.
  destruct (column_info (i_options i)) as [ci|e] eqn:Hci; [|reflexivity].
  destruct (read_model i) as [t|e] eqn:Hr; [|rewrite Hm; reflexivity]. rewrite Hm.
  destruct (obs_label (kept_names (ci_names ci) (ci_drop ci)) (ci_syn ci)) as [l|] eqn:El; [|reflexivity].
  pose proof (read_model_names i ci t Hci Hr) as Hnames.
  assert (length (ci_drop ci) = length (ci_names ci)) as Hdl.
  { unfold column_info in Hci. apply (length_column_info (i_options i) 1 [] [] [] ci); [reflexivity | exact Hci]. }
  assert (nodup_s (ci_names ci) = true) as Hnd.
  { unfold guard, guard_conjuncts in Hg. rewrite Hci in Hg. cbn [forallb] in Hg. repeat (apply andb_true_iff in Hg; destruct Hg as [? Hg]).
    assumption. }
  pose proof (filter_obs_kept t (ci_drop ci) l) as Hf. rewrite Hnames in Hf.
  specialize (Hf Hnd ltac:(rewrite <- (map_length fst t), Hnames; exact Hdl)
                 (kept_names_pairs _ _ _ (obs_label_kept _ _ _ El)) (kept_names_pairs _ _ _ Hid)).
  destruct (filter_obs l t) as [t'|e]; rewrite Hf; reflexivity.
Qed.
