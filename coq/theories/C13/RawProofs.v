From Coq Require Import QArith ZArith NArith List Bool PArith Arith Lia.
From PV Require Import Base.PyData C13.Model C13.Spec C13.Proofs C13.Check C13.Raw.
Import ListNotations.
Local Open Scope nat_scope.

Lemma raw_refines_lemma i : g_alphabet i = true -> g_edge_tab i = true -> read_raw i = spec_raw i.
Proof.
  intros G1 G5. unfold read_raw, spec_raw.
  destruct (column_info (i_options i)) as [ci|e]; [|reflexivity]. cbn [bind].
  destruct (null_string (i_null i)) as [ns|e]; [|reflexivity]. cbn [bind].
  destruct (negb (nodup_s _)); [reflexivity|].
  set (ic := ign_char (i_ignchar i)) in *.
  pose proof (lines_agree ic (i_text i)) as Hlines.
  destruct (prefilter ic (i_text i)) as [p|e] eqn:Ep; [|rewrite Hlines; reflexivity]. rewrite Hlines. cbn [bind].
  destruct (spec_lines_ok _ _ _ Hlines) as [Hdl_eq Hnoblank].
  assert (data_lines i = file_lines p) as Hdata by (unfold data_lines; fold ic; symmetry; exact Hdl_eq).
  assert (raw_rows p = map spec_items (file_lines p)) as ->; [|reflexivity].
  unfold raw_rows. apply rows_agree. intros l Hl. unfold g_row. apply andb_true_iff. split; [apply andb_true_iff; split|].
  - apply (all_lines_row_char (i_text i)); [exact G1|]. rewrite Hdl_eq in Hl. apply filter_In in Hl. tauto.
  - apply negb_true_iff. apply not_true_is_false. intro F. assert (existsb (forallb is_blankc) (file_lines p) = true) as T; [|congruence].
    apply existsb_exists. exists l. split; assumption.
  - unfold g_edge_tab in G5. rewrite Hdata in G5. rewrite forallb_forall in G5. apply G5. exact Hl.
Qed.
