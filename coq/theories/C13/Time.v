(* PV.C13.Time — TIME/DATE translation (pharmpy.modeling.data.translate_nmtran_time and its helpers
   _translate_nonmem_time_value, _translate_nonmem_time_and_date_value, _translate_time_and_date_columns):
   executable model on the strings of the TIME and DATE/DAT1/DAT2/DAT3 columns, and the calendar
   specification (day by day) it is proved against.  Numbers are exact rationals: the code's float
   arithmetic (h + m/60, the split of the hours into h/min/s/us/ns by truncation, total_seconds()/3600) is
   NOT modelled — the tie compares with a tolerance of 1e-9 h and reports the measured deviation. *)
From Coq Require Import QArith Qabs ZArith NArith List Bool PArith Arith Lia.
From PV Require Import Base.PyData C13.Model.
Import ListNotations.
Local Open Scope Z_scope.

(* ---- the proleptic Gregorian calendar ------------------------------------------------------------------- *)
Definition leap (y : Z) : bool :=
  ((y mod 4 =? 0) && negb (y mod 100 =? 0)) || (y mod 400 =? 0).
Definition month_len (y m : Z) : Z :=
  if m =? 2 then (if leap y then 29 else 28)
  else if (m =? 4) || (m =? 6) || (m =? 9) || (m =? 11) then 30 else 31.
Definition valid_date (y m d : Z) : bool :=
  (1 <=? y) && (1 <=? m) && (m <=? 12) && (1 <=? d) && (d <=? month_len y m).

(* days before the first of month m in a non-leap year *)
Definition cum_days (m : Z) : Z :=
  match m with
  | 1 => 0 | 2 => 31 | 3 => 59 | 4 => 90 | 5 => 120 | 6 => 151
  | 7 => 181 | 8 => 212 | 9 => 243 | 10 => 273 | 11 => 304 | _ => 334
  end.
Definition leaps_before (y : Z) : Z := (y - 1) / 4 - (y - 1) / 100 + (y - 1) / 400.
(* the day number of a date (what the difference of two pandas Timestamps counts) *)
Definition day_number (y m d : Z) : Z :=
  365 * y + leaps_before y + cum_days m + (if (2 <? m) && leap y then 1 else 0) + d.

(* SPECIFICATION: the calendar walked one day at a time *)
Definition next_day (ymd : Z * Z * Z) : Z * Z * Z :=
  let '(y, m, d) := ymd in
  if d <? month_len y m then (y, m, d + 1)
  else if m <? 12 then (y, m + 1, 1) else (y + 1, 1, 1).
Inductive days_apart : Z * Z * Z -> Z * Z * Z -> Z -> Prop :=
| DA_same d : days_apart d d 0
| DA_next d e k : days_apart d e k -> days_apart d (next_day e) (k + 1).
Definition valid3 (ymd : Z * Z * Z) : bool := let '(y, m, d) := ymd in valid_date y m d.
Definition dn3 (ymd : Z * Z * Z) : Z := let '(y, m, d) := ymd in day_number y m d.

(* ---- _translate_nonmem_time_value ------------------------------------------------------------------------ *)
Local Open Scope nat_scope.
Definition c_colon : N := 58%N.
Fixpoint split_by (p : N -> bool) (s : str) : list str :=       (* str.split(c) / re.split('[^0-9]', s) *)
  match s with
  | [] => [[]]
  | x :: tl => if p x then [] :: split_by p tl
               else match split_by p tl with h :: t => (x :: h) :: t | [] => [[x]] end
  end.

(* hours as an exact rational; the code adds float(h) + float(m)/60 *)
Definition time_value (t : str) : res Q :=
  if existsb (N.eqb c_colon) t then
    match split_by (N.eqb c_colon) t with
    | [h; m] => match pyfloat h, pyfloat m with
                | Some a, Some b => Ok (a + b / 60)%Q
                | _, _ => Err ValueErr
                end
    | _ => Err DatasetError                                  (* "Bad TIME format" (also hh:mm:ss) *)
    end
  else match pyfloat t with Some a => Ok a | None => Err ValueErr end.

(* ---- _translate_nonmem_time_and_date_value ----------------------------------------------------------------- *)
Inductive tval :=
| TNum (hours : Q)                    (* DATE is a day number: timeval + float(date) * 24 *)
| TStamp (day : Z) (hours : Q)        (* a pandas Timestamp: calendar day number and the time of day *)
| TNone.                              (* two-part dates: the function returns None (defect) *)

Definition pyint_digits (s : str) : option Z :=
  if negb (is_nil s) && forallb is_digit s then Some (Z.of_N (digits_val s)) else None.

Definition year_of (s : str) : option Z :=
  match pyint_digits s with
  | Some y => if length s <? 3 then Some (if (50 <? y)%Z then y + 1900 else y + 2000)%Z else Some y
  | None => None
  end.

Definition last_char (s : str) : option N := match rev s with c :: _ => Some c | [] => None end.

(* order of the three parts by the last character of the column name: ...E month day year, ...1 day month
   year, ...3 year day month, anything else year month day *)
Definition ymd_parts (datecol : str) (a b c : str) : str * str * str :=
  match last_char datecol with
  | Some 69%N => (c, a, b)
  | Some 49%N => (c, b, a)
  | Some 51%N => (a, c, b)
  | _ => (a, b, c)
  end.

Definition date_time_value (datecol : str) (time date : str) : res tval :=
  match time_value time with
  | Err e => Err e
  | Ok tv =>
      let parts := split_by (fun c => negb (is_digit c)) date in
      if (match date with c :: _ => N.eqb c c_minus | [] => false end) || Nat.eqb (length parts) 1 then
        match pyfloat date with Some dnum => Ok (TNum (tv + dnum * 24)%Q) | None => Err ValueErr end
      else match parts with
           | [_; _] => Ok TNone
           | [a; b; c] =>
               let '(ys, ms, ds) := ymd_parts datecol a b c in
               match year_of ys, pyint_digits ms, pyint_digits ds with
               | Some y, Some m, Some d =>
                   (* pd.Timestamp(year, month, day, hour, ...) validates the fields *)
                   if valid_date y m d && Qle_bool 0 tv && negb (Qle_bool 24 tv)
                   then Ok (TStamp (day_number y m d) tv) else Err ValueErr
               | _, _, _ => Err ValueErr
               end
           | _ => Err DatasetError                           (* "Bad DATE value" *)
           end
  end.

(* ---- _translate_time_and_date_columns: relative to the FIRST record of the individual ---------------------- *)
Fixpoint first_of (id : Q) (ids : list Q) (vals : list tval) : option tval :=
  match ids, vals with
  | i :: ids', v :: vals' => if Qeq_bool i id then Some v else first_of id ids' vals'
  | _, _ => None
  end.

Definition all_num (l : list tval) : bool := forallb (fun v => match v with TNum _ => true | _ => false end) l.
Definition all_stamp (l : list tval) : bool := forallb (fun v => match v with TStamp _ _ => true | _ => false end) l.

Definition hours_between (a b : tval) : Q :=             (* b - a in hours *)
  match a, b with
  | TNum x, TNum y => (y - x)%Q
  | TStamp d1 h1, TStamp d2 h2 => (inject_Z (d2 - d1) * 24 + (h2 - h1))%Q
  | _, _ => (0 # 1)%Q
  end.

Definition translate_columns (datecol : str) (ids : list Q) (times dates : list str) : res (list Q) :=
  match mapM (fun td => date_time_value datecol (fst td) (snd td)) (combine times dates) with
  | Err e => Err e
  | Ok vals =>
      if all_stamp vals then
        Ok (map (fun iv => match first_of (fst iv) ids vals with
                           | Some f => Qred (hours_between f (snd iv))
                           | None => (0 # 1)%Q end) (combine ids vals))
      else if all_num vals then
        (* day numbers: the column is float64 already, `timediff` is computed but NOT assigned (defect,
           C13-DATE-DAYNUM-ABSOLUTE): the absolute hours stay *)
        Ok (map (fun v => match v with TNum h => Qred h | _ => (0 # 1)%Q end) vals)
      else Err OtherErr                                   (* None / mixed column: '.dt' AttributeError, TypeError *)
  end.

(* ---- the same computation in binary64 (what the code really does) --------------------------------------------
   fl = round to nearest even.  float(h) + float(m)/60; the hours of the day rounded once to whole nanoseconds;
   Timestamps as integer nanoseconds; the difference converted to float, divided by 1e9 and by 3600. *)
Definition fl (x : Q) : Q := round_double x.
Definition qtrunc (x : Q) : Z := Z.quot (Qnum x) (Zpos (Qden x)).

Definition time_value_f (t : str) : res Q :=
  if existsb (N.eqb c_colon) t then
    match split_by (N.eqb c_colon) t with
    | [h; m] => match pyfloat h, pyfloat m with
                | Some a, Some b => Ok (fl (fl a + fl (fl b / 60)))%Q
                | _, _ => Err ValueErr
                end
    | _ => Err DatasetError
    end
  else match pyfloat t with Some a => Ok (fl a) | None => Err ValueErr end.

(* nanoseconds since midnight of a time of day given in (float) hours (fix a9224f5): ONE rounding,
   round(timeval * 3600e9) — Python's round of a float is round-half-even — and integer divmod afterwards *)
Definition ns_of_hours (tv : Q) : Z :=
  let x := fl (tv * 3600000000000)%Q in round_half_even (Qnum x) (Qden x).

Inductive fval :=
| FNum (hours : Q)                 (* day-number date: fl (tv + fl (fl date * 24)) *)
| FStamp (ns : Z)                  (* Timestamp: nanoseconds since day 0 *)
| FNone.

Definition date_time_value_f (datecol : str) (time date : str) : res fval :=
  match time_value_f time with
  | Err e => Err e
  | Ok tv =>
      let parts := split_by (fun c => negb (is_digit c)) date in
      if (match date with c :: _ => N.eqb c c_minus | [] => false end) || Nat.eqb (length parts) 1 then
        match pyfloat date with Some dnum => Ok (FNum (fl (tv + fl (fl dnum * 24)))%Q) | None => Err ValueErr end
      else match parts with
           | [_; _] => Ok FNone
           | [a; b; c] =>
               let '(ys, ms, ds) := ymd_parts datecol a b c in
               match year_of ys, pyint_digits ms, pyint_digits ds with
               | Some y, Some m, Some d =>
                   if valid_date y m d && Qle_bool 0 tv && negb (Qle_bool 24 tv)
                   then Ok (FStamp (day_number y m d * 86400000000000 + ns_of_hours tv)%Z) else Err ValueErr
               | _, _, _ => Err ValueErr
               end
           | _ => Err DatasetError
           end
  end.

Fixpoint first_of_f (id : Q) (ids : list Q) (vals : list fval) : option fval :=
  match ids, vals with
  | i :: ids', v :: vals' => if Qeq_bool i id then Some v else first_of_f id ids' vals'
  | _, _ => None
  end.
Definition all_fnum (l : list fval) : bool := forallb (fun v => match v with FNum _ => true | _ => false end) l.
Definition all_fstamp (l : list fval) : bool := forallb (fun v => match v with FStamp _ => true | _ => false end) l.
(* (b - a).total_seconds() / 3600 : int64 nanoseconds -> float, / 1e9, / 3600 *)
Definition hours_f (a b : fval) : Q :=
  match a, b with
  | FStamp x, FStamp y => Qred (fl (fl (fl (inject_Z (y - x)) / 1000000000) / 3600))%Q
  | _, _ => (0 # 1)%Q
  end.
Definition translate_columns_f (datecol : str) (ids : list Q) (times dates : list str) : res (list Q) :=
  match mapM (fun td => date_time_value_f datecol (fst td) (snd td)) (combine times dates) with
  | Err e => Err e
  | Ok vals =>
      if all_fstamp vals then
        Ok (map (fun iv => match first_of_f (fst iv) ids vals with
                           | Some f => hours_f f (snd iv)
                           | None => (0 # 1)%Q end) (combine ids vals))
      else if all_fnum vals then Ok (map (fun v => match v with FNum h => Qred h | _ => (0 # 1)%Q end) vals)
      else Err OtherErr
  end.

(* float(h) + float(m)/60 for a clock time h:m *)
Definition clock_hours (h m : nat) : Q := fl (fl (inject_Z (Z.of_nat h)) + fl (fl (inject_Z (Z.of_nat m)) / 60))%Q.

(* ---- translate_nmtran_time: the TIME column of the resulting dataset ----------------------------------------
   datecol = None: no DATE/DAT1/DAT2/DAT3 column.  The TIME column then has datatype float64 in the datainfo (it
   is 'nmtran-time' only next to a date column), _find_time_and_date_columns finds nothing and the function
   returns the model unchanged: clock times stay text (defect, C13-TIME-CLOCK-NO-DATE). *)
Definition translate_model (datecol : option str) (ids : list Q) (times dates : list str) : res (list cell) :=
  match datecol with
  | None => Ok (map CStr times)
  | Some dc => match translate_columns_f dc ids times dates with
               | Ok hs => Ok (map CNum hs)
               | Err e => Err e
               end
  end.
(* the exact-rational reading of the same code (no float arithmetic): what Time theorems of round 1 speak about *)
Definition translate_model_exact (datecol : option str) (ids : list Q) (times dates : list str) : res (list cell) :=
  match datecol with
  | None => Ok (map CStr times)
  | Some dc => match translate_columns dc ids times dates with
               | Ok hs => Ok (map CNum hs)
               | Err e => Err e
               end
  end.

(* SPECIFICATION of the translation: hours since the first record of the individual, dates by the calendar.
   A date without year (two parts) is month/day for DATE and DAT2, day/month for DAT1 and DAT3 (NM-TRAN), in a
   non-leap reference year. *)
Definition spec_date_value (datecol : str) (time date : str) : res tval :=
  match time_value time with
  | Err e => Err e
  | Ok tv =>
      let parts := split_by (fun c => negb (is_digit c)) date in
      match parts with
      | [a; b] =>
          let '(ms, ds) := match last_char datecol with
                           | Some 49%N | Some 51%N => (b, a)
                           | _ => (a, b)
                           end in
          match pyint_digits ms, pyint_digits ds with
          | Some m, Some d => if valid_date 2001 m d && Qle_bool 0 tv && negb (Qle_bool 24 tv)
                              then Ok (TStamp (day_number 2001 m d) tv) else Err ValueErr
          | _, _ => Err ValueErr
          end
      | _ => date_time_value datecol time date
      end
  end.

Definition spec_translate (datecol : option str) (ids : list Q) (times dates : list str) : res (list cell) :=
  let vals := match datecol with
              | None => mapM (fun t => match time_value t with Ok h => Ok (TNum h) | Err e => Err e end) times
              | Some dc => mapM (fun td => spec_date_value dc (fst td) (snd td)) (combine times dates)
              end in
  match vals with
  | Err e => Err e
  | Ok vs => if all_num vs || all_stamp vs then
               Ok (map (fun iv => match first_of (fst iv) ids vs with
                                  | Some f => CNum (Qred (hours_between f (snd iv)))
                                  | None => CNaN end) (combine ids vs))
             else Err OtherErr
  end.

(* ---- the comparison run inside Coq (tags 31, 34, guards 221-223) ---------------------------------------------- *)
Record tcase := mkT {
  t_datecol : option str; t_ids : list Q; t_times : list str; t_dates : list str;
  t_obs : res (list cell) }.

(* tag 31: the binary64 model against the code, EXACT equality of the doubles; tag 36: the exact-rational model
   within 1e-9 h; tag 34: the calendar specification within 1e-9 h (gross errors); tag 35: the result is not within
   4 ulp of the calendar difference (was the truncating split, C13-TIME-SPLIT-TRUNCATION, fixed by a9224f5: no guard) *)
Definition near (q d : Q) : bool := Qle_bool (Qabs (q - d)) (1 # 1000000000).
Definition near_ulp (q d : Q) : bool :=
  Qeq_bool q d || Qle_bool (Qabs (q - d)) (Qabs (fl q) * (4 # 4503599627370496)).
Definition tcell_agree_by (f : Q -> Q -> bool) (m o : cell) : bool :=
  match m, o with
  | CNum q, CNum d => f q d
  | CStr a, CStr b => str_eqb a b
  | CNaN, CNaN => true
  | _, _ => false
  end.
Definition terr_eqb (a b : err) : bool :=
  match a, b with
  | DatasetError, DatasetError | KeyErr, KeyErr | EmptyData, EmptyData | ValueErr, ValueErr | OtherErr, OtherErr => true
  | _, _ => false
  end.
Definition tres_agree_by (f : Q -> Q -> bool) (m o : res (list cell)) : bool :=
  match m, o with
  | Ok a, Ok b => Nat.eqb (length a) (length b) && forallb (fun xy => tcell_agree_by f (fst xy) (snd xy)) (combine a b)
  | Err a, Err b => terr_eqb a b
  | _, _ => false
  end.
Definition tres_agree := tres_agree_by near.
Definition g_three_parts (c : tcase) : bool :=
  forallb (fun d => negb (Nat.eqb (length (split_by (fun x => negb (is_digit x)) d)) 2)) (t_dates c).
Definition g_has_date (c : tcase) : bool := match t_datecol c with Some _ => true | None => false end.
(* no date is a day number *)
Definition g_no_daynum (c : tcase) : bool :=
  match t_datecol c with
  | None => true
  | Some _ => forallb (fun d => negb ((match d with x :: _ => N.eqb x c_minus | [] => false end) ||
                                      Nat.eqb (length (split_by (fun x => negb (is_digit x)) d)) 1)) (t_dates c)
  end.
Definition time_verdict (c : tcase) : list nat :=
  let o := t_obs c in
  (if tres_agree_by Qeq_bool (translate_model (t_datecol c) (t_ids c) (t_times c) (t_dates c)) o then [] else [31]) ++
  (if tres_agree (translate_model_exact (t_datecol c) (t_ids c) (t_times c) (t_dates c)) o then [] else [36]) ++
  (if tres_agree (spec_translate (t_datecol c) (t_ids c) (t_times c) (t_dates c)) o then [] else [34]) ++
  (if tres_agree_by near_ulp (spec_translate (t_datecol c) (t_ids c) (t_times c) (t_dates c)) o ||
      negb (tres_agree (spec_translate (t_datecol c) (t_ids c) (t_times c) (t_dates c)) o) then [] else [35]) ++
  (if g_three_parts c then [] else [221]) ++ (if g_has_date c then [] else [222]) ++ (if g_no_daynum c then [] else [223]).
