(* PV.C13.Pk — the dataset of a model with a $PK record: parse_dataset applies filter_observations
   (parsing.py) after read_nonmem_dataset: individuals without any observation record are removed.
   The label column is the first column typed mdv, else event, else dose by create_nonmem_datainfo:
   MDV if it is a kept column, else EVID, else AMT (or its synonym); an observation is a record with label = 0. *)
From Coq Require Import QArith ZArith NArith List Bool PArith Arith Lia.
From PV Require Import Base.PyData C13.Model C13.Spec.
Import ListNotations.
Local Open Scope nat_scope.

Definition obs_label (knames : list str) (syn : list (str * str)) : option str :=
  if mems s_MDV knames then Some s_MDV
  else if mems s_EVID knames then Some s_EVID
  else if mems s_AMT knames then Some s_AMT
  else match alookup_s syn s_AMT with
       | Some x => if mems x knames then Some x else None
       | None => None
       end.

Definition select {A} (mask : list bool) (l : list A) : list A := map fst (filter (fun xb => snd xb) (combine l mask)).
Definition is_zero (c : cell) : bool := match c with CNum q => Qeq_bool q 0 | _ => false end.
(* ids that have an observation; a row is kept when its id is one of them *)
Definition have_obs (ids labs : list cell) : list cell := map fst (filter (fun il => is_zero (snd il)) (combine ids labs)).
Definition obs_mask (ids labs : list cell) : list bool := map (fun i => existsb (cell_eqb i) (have_obs ids labs)) ids.

Definition filter_obs (label : str) (t : list (str * list cell)) : res (list (str * list cell)) :=
  match alookup_s t label, alookup_s t s_ID with
  | Some labs, Some ids => Ok (map (fun c => (fst c, select (obs_mask ids labs) (snd c))) t)
  | _, _ => Err KeyErr
  end.

Definition read_model_pk (i : input) : res (list (str * list cell)) :=
  match column_info (i_options i) with
  | Err e => Err e
  | Ok ci =>
      match read_model i with
      | Err e => Err e
      | Ok t => match obs_label (kept_names (ci_names ci) (ci_drop ci)) (ci_syn ci) with
                | None => Err ValueErr                   (* "Unable to find dosing records in the dataset" *)
                | Some l => filter_obs l t
                end
      end
  end.
(* the reference: the same rule applied to what NM-TRAN keeps *)
Definition spec_read_pk (i : input) : res (list (str * list cell)) :=
  match column_info (i_options i) with
  | Err e => Err e
  | Ok ci =>
      match spec_read i with
      | Err e => Err e
      | Ok t => match obs_label (kept_names (ci_names ci) (ci_drop ci)) (ci_syn ci) with
                | None => Err ValueErr
                | Some l => filter_obs l t
                end
      end
  end.

(* ---- what the mask means ------------------------------------------------------------------------------ *)
Lemma have_obs_spec ids labs c :
  In c (have_obs ids labs) <-> exists k lab, nth_error ids k = Some c /\ nth_error labs k = Some lab /\ is_zero lab = true.
Proof.
  unfold have_obs. rewrite in_map_iff. split.
  - intros [[i l] [E H]]. cbn in E. subst i. apply filter_In in H. destruct H as [Hin Hz]. cbn in Hz.
    apply In_nth_error in Hin. destruct Hin as [k Hk]. exists k, l.
    revert labs k Hk. induction ids as [|x ids IH]; intros labs k Hk; [destruct k; discriminate|].
    destruct labs as [|y labs]; [destruct k; discriminate|]. destruct k as [|k]; cbn in *.
    + inversion Hk. subst. auto.
    + apply IH. exact Hk.
  - intros [k [lab [Hi [Hl Hz]]]]. exists (c, lab). split; [reflexivity|]. apply filter_In. split; [|exact Hz].
    revert labs k Hi Hl. induction ids as [|x ids IH]; intros labs k Hi Hl; [destruct k; discriminate|].
    destruct labs as [|y labs]; [destruct k; discriminate|]. destruct k as [|k]; cbn in *.
    + inversion Hi. inversion Hl. left. reflexivity.
    + right. apply (IH labs k); assumption.
Qed.

Lemma nth_map_some {A B} (f : A -> B) l j x d : nth_error l j = Some x -> nth j (map f l) d = f x.
Proof.
  revert j. induction l as [|y l IH]; intros j H; [destruct j; discriminate|]. destruct j as [|j]; cbn in *; [inversion H; reflexivity | apply IH; exact H].
Qed.

(* a record is kept iff some record with an equal ID is an observation (label = 0) *)
Theorem obs_mask_spec ids labs j i :
  nth_error ids j = Some i ->
  (nth j (obs_mask ids labs) false = true <->
   exists k i' lab, nth_error ids k = Some i' /\ nth_error labs k = Some lab /\ is_zero lab = true /\ cell_eqb i i' = true).
Proof.
  intro Hj. unfold obs_mask. rewrite (nth_map_some _ ids j i false Hj). rewrite existsb_exists. split.
  - intros [i' [Hin He]]. apply have_obs_spec in Hin. destruct Hin as [k [lab [H1 [H2 H3]]]]. exists k, i', lab. auto.
  - intros [k [i' [lab [H1 [H2 [H3 He]]]]]]. exists i'. split; [|exact He]. apply have_obs_spec. exists k, lab. auto.
Qed.

(* ---- the comparison for $PK control streams (same tags as Check.verdict) ------------------------------------ *)
From PV Require Import C13.Check.
Definition pk_verdict (c : case) : list nat :=
  compare_res 1 2 3 4 (read_model_pk (c_in c)) (c_obs c) ++
  match compare_res 11 11 11 11 (spec_read_pk (c_in c)) (obs_kept (c_in c) (c_obs c)) with
  | [] => []
  | _ => [11]
  end ++
  guard_tags_from 201 (guard_conjuncts (c_in c)) ++
  (* [class] the ID column is a kept column (the reference result has no dropped columns) *)
  match column_info (i_options (c_in c)) with
  | Ok ci => tag (mems s_ID (kept_names (ci_names ci) (ci_drop ci))) 224
  | Err _ => []
  end.
