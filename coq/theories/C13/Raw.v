(* PV.C13.Raw — raw mode: Model.read_raw_dataset = parse_dataset(raw=True) = read_nonmem_dataset(raw=True) for a $PRED
   model.  What raw mode does: comment / blank / space-TAB prefilter and the splitting into items, every row cut or
   padded (None) to the width of the FIRST row.  What it skips: IGNORE/ACCEPT lists, NULL substitution, the
   24-character limit, number conversion, ID renumbering, TIME, dtype casts, padding to / cutting at $INPUT — surplus
   columns stay (unnamed), missing columns are simply absent. *)
From Coq Require Import QArith ZArith NArith List Bool PArith Arith Lia.
From PV Require Import Base.PyData C13.Model C13.Spec C13.Check.
Import ListNotations.
Local Open Scope nat_scope.

Definition raw_cell (x : option str) : cell := match x with Some s => CStr s | None => CNaN end.
Fixpoint raw_cols (names : list str) (rows : list (list (option str))) : list (str * list cell) :=
  match names with
  | [] => []
  | nm :: ns => (nm, map (fun r => raw_cell (hd None r)) rows) :: raw_cols ns (map (@tl (option str)) rows)
  end.
(* column labels: the first w names of $INPUT; surplus columns have no name (exported as the empty name) *)
Definition raw_names (names : list str) (w : nat) : list str := firstn w names ++ repeat [] (w - length names).

Definition raw_table (names : list str) (rows : list (list str)) : res (list (str * list cell)) :=
  match rows with
  | [] => Err EmptyData
  | r0 :: _ => let w := length r0 in Ok (raw_cols (raw_names names w) (map (shape w) rows))
  end.

Definition read_raw (i : input) : res (list (str * list cell)) :=
  bind (column_info (i_options i)) (fun ci =>
  bind (null_string (i_null i)) (fun _ =>
  if negb (nodup_s (kept_names (ci_names ci) (ci_drop ci))) then Err KeyErr else
  bind (prefilter (ign_char (i_ignchar i)) (i_text i)) (fun p => raw_table (ci_names ci) (raw_rows p)))).

(* reference: the documented lines and items, nothing else *)
Definition spec_raw (i : input) : res (list (str * list cell)) :=
  bind (column_info (i_options i)) (fun ci =>
  bind (null_string (i_null i)) (fun _ =>
  if negb (nodup_s (kept_names (ci_names ci) (ci_drop ci))) then Err KeyErr else
  bind (spec_lines (ign_char (i_ignchar i)) (i_text i)) (fun ls => raw_table (ci_names ci) (map spec_items ls)))).

Definition raw_verdict (c : case) : list nat :=
  compare_res 1 2 3 4 (read_raw (c_in c)) (c_obs c) ++
  match compare_res 11 11 11 11 (spec_raw (c_in c)) (c_obs c) with [] => [] | _ => [11] end ++
  tag (g_alphabet (c_in c)) 201 ++ tag (g_edge_tab (c_in c)) 202.
