(* PV.C13.Examples — non-vacuity: concrete non-trivial inputs meeting the hypotheses of the theorems. *)
From Coq Require Import QArith ZArith NArith List Bool PArith Arith.
From PV Require Import Base.PyData C13.Model C13.Spec C13.Refuted C13.Time C13.Pk C13.Raw.
Import ListNotations.
Local Open Scope nat_scope.

Definition okq (o : option Q) (q : Q) : bool := match o with Some x => Qeq_bool x q | None => false end.

(* number_forms: every documented form, hypotheses true, and the value is the expected one *)
Definition nf_ok (s : str) (q : Q) : bool :=
  fortran_number s && okq (convert s) q && Qeq_bool (value s) q.
Example number_forms_examples :
  forallb (fun sq => nf_ok (fst sq) (snd sq))
    [ (s_of [49;46;53;68;45;50], 15 # 1000);         (* 1.5D-2 *)
      (s_of [45;50;45;49], -2 # 10);                 (* -2-1   *)
      (s_of [50;43;49], 20 # 1);                     (* 2+1    *)
      (s_of [43], 0 # 1);                            (* +      *)
      (s_of [45], 0 # 1);                            (* -      *)
      (s_of [46;53;101;51], 500 # 1);                (* .5e3   *)
      (s_of [45;49;46;53;69;43;50], -150 # 1);       (* -1.5E+2 *)
      (s_of [53;46;45;49], 5 # 10);                  (* 5.-1   *)
      (s_of [49;100;49], 10 # 1);                    (* 1d1    *)
      (s_of [45;53;100;49], -50 # 1);                (* -5d1   *)
      (s_of [43;49;46;53;68;50], 150 # 1);           (* +1.5D2 *)
      (s_of [48;48;55], 7 # 1) ] = true.             (* 007    *)
Proof. vm_compute. reflexivity. Qed.

(* convert_rejects: strings over the documented alphabet, pattern anchored, outside the grammar *)
Example convert_rejects_examples :
  forallb (fun s => g_charset s && negb (fortran_number s) &&
                    match convert s with None => true | Some _ => false end)
    [ s_of [49;101];            (* 1e    *)
      s_of [49;46;46;50];       (* 1..2  *)
      s_of [45;45;49];          (* --1   *)
      s_of [49;45];             (* 1-    *)
      s_of [49;101;53;45;50];   (* 1e5-2 *)
      s_of [46];                (* .     *)
      s_of [100;49];            (* d1    *)
      s_of [50;45;49;45;49];    (* 2-1-1 *)
      s_of [50;45;49;100;53];   (* 2-1d5 *)
      s_of [49;46;53;45;50;46;53] ] = true.  (* 1.5-2.5 *)
Proof. vm_compute. reflexivity. Qed.

(* split_spec: " 1 , 2<TAB> 3,,4 ,"  ->  1 2 3 NULL 4 NULL *)
Example split_spec_example :
  let row := s_of [32;49;32;44;32;50;9;32;51;44;44;52;32;44] in
  g_row row = true /\
  spec_items row = [s_of [49]; s_of [50]; s_of [51]; []; s_of [52]; []] /\
  resplit (pystrip row) = spec_items row.
Proof. repeat split; vm_compute; reflexivity. Qed.

(* pad_strip: $INPUT has 3 columns; rows with 2, 1 and 2 items: padded with None; a wide first row is cut *)
Example pad_strip_example :
  let rows := [[s_of [49]; s_of [50]]; [s_of [51]]; [s_of [52]; s_of [53]]] in
  forallb (fun r => Nat.min (length r) 3 <=? length (hd [] rows)) rows = true /\
  frame 3 rows = Ok [[Some (s_of [49]); Some (s_of [50]); None]; [Some (s_of [51]); None; None];
                     [Some (s_of [52]); Some (s_of [53]); None]] /\
  frame 1 [[s_of [49]; s_of [50]]; [s_of [51]]] = Ok [[Some (s_of [49])]; [Some (s_of [51])]].
Proof. repeat split; vm_compute; reflexivity. Qed.

(* filters_in_order: IGNORE=(A.EQ.x, B.GT.1): the first statement removes the row whose B does not
   convert, so the second never fails; in the other order the read fails *)
Definition ex_names : list str := [s_of [65]; s_of [66]].
Definition ex_f1 : filt := mkFilt (s_of [65]) (Some (s_of [46;69;81;46])) (s_of [120]).      (* A.EQ.x *)
Definition ex_f2 : filt := mkFilt (s_of [66]) (Some (s_of [46;71;84;46])) (s_of [49]).       (* B.GT.1 *)
Definition ex_rows : list (list (option str)) :=
  [[Some (s_of [120]); Some (s_of [98;97;100])]; [Some (s_of [121]); Some (s_of [50])]; [Some (s_of [122]); Some (s_of [49])]].
Example filters_in_order_example :
  filters_valid ex_names [] [ex_f1; ex_f2] = true /\
  apply_filters ex_names [] [c_0] (s_of [45;57;57]) true [ex_f1; ex_f2] ex_rows = Ok [[Some (s_of [122]); Some (s_of [49])]] /\
  apply_filters ex_names [] [c_0] (s_of [45;57;57]) true [ex_f2; ex_f1] ex_rows = Err DatasetError.
Proof. repeat split; vm_compute; reflexivity. Qed.

(* reader_refines: a non-trivial input satisfying the whole guard.
   $INPUT ID TIME DV=CONC WGT SEX=DROP ; $DATA IGNORE=@ NULL=7 IGNORE=(SEX.EQ.y,DV.GT.50)
     ID TIME DV WGT SEX        <- header removed by IGNORE=@
      1 , 0<TAB>2-1, 70.5 ,male
     1,1.5,.,+,f               <- NULL and a lone sign
     # note                    <- comment
     2 2.5 1d1 -99 x           <- D exponent, missing-data token
     2,3,4,5,y,surplus         <- removed by the first filter; surplus item
     3,4                       <- short row, padded with NULL=7 *)
Definition ex_input : input :=
  (mkInput [73%N; 68%N; 32%N; 84%N; 73%N; 77%N; 69%N; 32%N; 68%N; 86%N; 32%N; 87%N; 71%N; 84%N; 32%N; 83%N; 69%N; 88%N; 10%N; 32%N; 49%N; 32%N; 44%N; 32%N; 48%N; 9%N; 50%N; 45%N; 49%N; 44%N; 32%N; 55%N; 48%N; 46%N; 53%N; 32%N; 44%N; 109%N; 97%N; 108%N; 101%N; 10%N; 49%N; 44%N; 49%N; 46%N; 53%N; 44%N; 46%N; 44%N; 43%N; 44%N; 102%N; 10%N; 35%N; 32%N; 110%N; 111%N; 116%N; 101%N; 10%N; 50%N; 32%N; 50%N; 46%N; 53%N; 32%N; 49%N; 100%N; 49%N; 32%N; 45%N; 57%N; 57%N; 32%N; 120%N; 10%N; 50%N; 44%N; 51%N; 44%N; 52%N; 44%N; 53%N; 44%N; 121%N; 44%N; 115%N; 117%N; 114%N; 112%N; 108%N; 117%N; 115%N; 10%N; 51%N; 44%N; 52%N; 10%N]
  [([73%N; 68%N], None); ([84%N; 73%N; 77%N; 69%N], None); ([68%N; 86%N], (Some [67%N; 79%N; 78%N; 67%N])); ([87%N; 71%N; 84%N], None); ([83%N; 69%N; 88%N], (Some [68%N; 82%N; 79%N; 80%N]))]
  (Some [64%N]) (Some 55%N)
  [(mkFilt [83%N; 69%N; 88%N] (Some [46%N; 69%N; 81%N; 46%N]) [121%N]); (mkFilt [68%N; 86%N] (Some [46%N; 71%N; 84%N; 46%N]) [53%N; 48%N])] [] [45%N; 57%N; 57%N]).

Definition q_eq_cell (c : cell) (q : Q) : bool := match c with CNum x => Qeq_bool x q | _ => false end.
Example reader_refines_example :
  guard ex_input = true /\
  (exists t, spec_read ex_input = Ok t /\
     map fst t = [s_ID; s_TIME; s_of [67;79;78;67]; s_of [87;71;84]] /\
     map (fun c => length (snd c)) t = [4; 4; 4; 4] /\
     forallb (fun cq => q_eq_cell (fst cq) (snd cq))
             (combine (nth 2 (map snd t) []) [2 # 10; 7 # 1; 10 # 1; 7 # 1]) = true /\
     nth 2 (nth 3 (map snd t) []) CNaN = CNaN) /\
  project_kept ex_input (read_model ex_input) = spec_read ex_input.
Proof.
  split; [vm_compute; reflexivity|]. split; [|vm_compute; reflexivity].
  eexists. split; [vm_compute; reflexivity|]. repeat split; vm_compute; reflexivity.
Qed.

(* reader_refines with a DATE column (round 4):  $INPUT ID TIME DATE=DROP DV,  file "1,2.5,1/1/2020,5 / 1,3,1/2/2020,6":
   the guard holds, TIME stays the text 2.5 / 3 although both items are numbers; with the third column called
   WGT=DROP instead the same file gives the numbers 5/2 and 3 *)
Definition date_text : str :=
  [49%N; 44%N; 50%N; 46%N; 53%N; 44%N; 49%N; 47%N; 49%N; 47%N; 50%N; 48%N; 50%N; 48%N; 44%N; 53%N; 10%N; 49%N; 44%N; 51%N; 44%N; 49%N; 47%N; 50%N; 47%N; 50%N; 48%N; 50%N; 48%N; 44%N; 54%N; 10%N].
Definition date_input (third : str) : input :=
  mkInput date_text [(s_ID, None); (s_TIME, None); (third, Some s_DROP); (s_DV, None)] None None [] [] (s_of [45;57;57]).
Example date_column_example :
  guard (date_input s_DATE) = true /\
  spec_read (date_input s_DATE) =
    Ok [(s_ID, [CNum 1; CNum 1]); (s_TIME, [CStr (s_of [50;46;53]); CStr (s_of [51])]); (s_DV, [CNum 5; CNum 6])] /\
  project_kept (date_input s_DATE) (read_model (date_input s_DATE)) = spec_read (date_input s_DATE) /\
  guard (date_input (s_of [87;71;84])) = true /\
  (exists t, spec_read (date_input (s_of [87;71;84])) = Ok t /\
     forallb (fun cq => q_eq_cell (fst cq) (snd cq)) (combine (nth 1 (map snd t) []) [5 # 2; 3 # 1]) = true).
Proof.
  split; [vm_compute; reflexivity|]. split; [vm_compute; reflexivity|]. split; [vm_compute; reflexivity|].
  split; [vm_compute; reflexivity|]. eexists. split; vm_compute; reflexivity.
Qed.

(* write_read_cycle: a toy printer (integers and halves, "x.0" / "x.5"), a table with a missing
   value, a negative value and an int32 id column; the guard holds and the cycle returns the table *)
Definition cy_hdr : list str := [s_ID; s_TIME; s_DV; s_of [87;71;84]].
Definition cy_rows : list (list cell) :=
  [[CNum (1#1); CNum (0#1); CNum (5#2); CNum (70#1)]; [CNum (1#1); CNum (3#2); CNaN; CNum (70#1)];
   [CNum (2#1); CNum (0#1); CNum (-7#2); CNaN]].
Definition cy_mdt : str := s_of [45;57;57].
Example write_read_cycle_example :
  cycle_guard pr_toy cy_mdt cy_hdr cy_rows = true /\
  csv_text pr_toy cy_mdt cy_hdr cy_rows =
    s_of [73;68;44;84;73;77;69;44;68;86;44;87;71;84;10; 49;46;48;44;48;46;48;44;50;46;53;44;55;48;46;48;10;
          49;46;48;44;49;46;53;44;45;57;57;44;55;48;46;48;10; 50;46;48;44;48;46;48;44;45;51;46;53;44;45;57;57;10] /\
  match read_model (cycle_input pr_toy cy_mdt cy_hdr cy_rows) with Ok t => table_same t cy_hdr cy_rows | Err _ => false end = true.
Proof. repeat split; vm_compute; reflexivity. Qed.

(* why the guard asks for contiguous id blocks: ids 1,2,1 are renumbered 1,2,3 on reading (pharmpy's
   _make_ids_unique, by design: NM-TRAN starts a new individual whenever the ID changes) *)
Example cycle_reused_ids_example :
  let rows := [[CNum (1#1); CNum (0#1)]; [CNum (2#1); CNum (0#1)]; [CNum (1#1); CNum (1#1)]] in
  cycle_guard pr_toy cy_mdt [s_ID; s_DV] rows = false /\
  match read_model (cycle_input pr_toy cy_mdt [s_ID; s_DV] rows) with
  | Ok t => table_same t [s_ID; s_DV] rows
  | Err _ => true end = false.
Proof. split; vm_compute; reflexivity. Qed.

(* update_input_plain / write_read_cycle_updated: old record  ID SEX=DROP DV=CONC WGT X1 , new columns
   ID TIME CONC WGT : SEX=DROP is replaced by TIME, the synonym pair DV=CONC and WGT are kept, X1 is discarded *)
Example update_input_example :
  let old := [(s_ID, None); (s_of [83;69;88], Some s_DROP); (s_DV, Some (s_of [67;79;78;67])); (s_of [87;71;84], None); (s_of [88;49], None)] in
  let new := [s_ID; s_TIME; s_of [67;79;78;67]; s_of [87;71;84]] in
  (exists ci, column_info old = Ok ci /\
     update_input_model old (ci_drop ci) (map (fun nm => (nm, false)) new) =
     [(s_ID, None); (s_TIME, None); (s_DV, Some (s_of [67;79;78;67])); (s_of [87;71;84], None)]) /\
  g_no_anon old (length new) = true /\ g_no_same_dropped old new = true.
Proof. cbv zeta. split; [eexists; split; vm_compute; reflexivity|]. split; vm_compute; reflexivity. Qed.

(* write_read_cycle_filtered: the old model of stale_path_refuted written through the route that names the new file *)
Example write_read_cycle_filtered_example :
  let hdr := [s_ID; s_TIME; s_DV; s_of [70;76;65;71]] in
  let rows := [[CNum (1#1); CNum (0#1); CNum (1#1); CNum (1#1)]] in
  (exists ci, column_info (i_options stale_old) = Ok ci /\
     match read_model (written_input pr_toy true true stale_old ci (i_mdt stale_old) hdr rows) with
     | Ok t => table_same t hdr rows | Err _ => false end = true /\
     filters_identity (written_input pr_toy true true stale_old ci (i_mdt stale_old) hdr rows) = true) /\
  g_no_anon (i_options stale_old) (length hdr) = true /\ g_no_same_dropped (i_options stale_old) hdr = true /\
  cycle_guard pr_toy (i_mdt stale_old) hdr rows = true /\
  (* the text filter re-applied to the written data would remove the row: FLAG is written as 1.0 *)
  filters_identity (mkInput (csv_text pr_toy (i_mdt stale_old) hdr rows) (i_options stale_old) (Some [c_at]) None
                            [] (i_accept stale_old) (i_mdt stale_old)) = false.
Proof. cbv zeta. split; [eexists; split; [vm_compute; reflexivity|split; vm_compute; reflexivity]|]. repeat split; vm_compute; reflexivity. Qed.

(* ---- TIME / DATE translation --------------------------------------------------------------------------------- *)
(* DAT1 = day-month-year with two-digit years across the leap day 2000-02-29 and a year end *)
Example translated_time_example :
  let c := tw (Some s_DAT1) [(1#1, s_of [49;50;58;49;48], s_of [50;56;45;50;45;48;48]);        (* 12:10  28-2-00 *)
                             (1#1, s_of [49;51;58;52;48], s_of [49;45;51;45;48;48]);           (* 13:40  1-3-00  *)
                             (2#1, s_of [50;51;58;51;48], s_of [51;49;45;49;50;45;57;57]);     (* 23:30  31-12-99 *)
                             (2#1, s_of [48;46;53], s_of [49;45;49;45;48;48])] in              (* 0.5    1-1-00  *)
  g_three_parts c = true /\ g_has_date c = true /\ g_no_daynum c = true /\ model_vs_spec c = true /\
  tres_agree (translate_model (t_datecol c) (t_ids c) (t_times c) (t_dates c)) (Ok [CNum 0; CNum (99#2); CNum 0; CNum (1#1)]) = true.
Proof. cbv zeta. repeat split; vm_compute; reflexivity. Qed.
Example days_apart_example : days_apart (2000, 2, 28)%Z (2000, 3, 1)%Z 2 /\ valid3 (2000, 2, 28)%Z = true.
Proof. split; [|reflexivity]. change (2000, 3, 1)%Z with (next_day (next_day (2000, 2, 28)%Z)). change 2%Z with (0 + 1 + 1)%Z. repeat constructor. Qed.

(* ---- $PK: individual 2 has no observation (MDV = 1 only) and is removed; individual 1 keeps its dose record *)
Example filter_observations_example :
  let t := [(s_ID, [CNum 1; CNum 1; CNum (2#1); CNum (3#1)]); (s_MDV, [CNum 1; CNum 0; CNum 1; CNum 0]); (s_DV, [CNum 0; CNum (5#1); CNum 0; CNum (7#1)])] in
  obs_label [s_ID; s_MDV; s_DV] [] = Some s_MDV /\
  filter_obs s_MDV t = Ok [(s_ID, [CNum 1; CNum 1; CNum (3#1)]); (s_MDV, [CNum 1; CNum 0; CNum 0]); (s_DV, [CNum 0; CNum (5#1); CNum (7#1)])].
Proof. split; vm_compute; reflexivity. Qed.

(* clock_split_exact: the string 12:10 has the time value clock_hours 12 10 and is held as 43 800 000 000 000 ns *)
Example clock_split_example :
  time_value_f (s_of [49;50;58;49;48]) = Ok (clock_hours 12 10) /\ ns_of_hours (clock_hours 12 10) = 43800000000000%Z /\
  Qeq_bool (clock_hours 12 10) (73 # 6) = false.
Proof. repeat split; vm_compute; reflexivity. Qed.

(* raw_refines: the reader_refines example file in raw mode: strings, the filtered and the surplus data still there *)
Example raw_refines_example :
  g_alphabet ex_input = true /\ g_edge_tab ex_input = true /\
  exists t, read_raw ex_input = Ok t /\ map fst t = [s_ID; s_TIME; s_of [67;79;78;67]; s_of [87;71;84]; s_of [83;69;88]] /\
            map (fun c => length (snd c)) t = [5; 5; 5; 5; 5] /\
            nth 2 (nth 2 (map snd t) []) CNaN = CStr (s_of [49;100;49]) /\ nth 4 (nth 2 (map snd t) []) (CStr []) = CNaN.
Proof. split; [vm_compute; reflexivity|]. split; [vm_compute; reflexivity|]. eexists. split; [vm_compute; reflexivity|]. repeat split; vm_compute; reflexivity. Qed.
