(* PV.C13.Check — the comparison run inside Coq by the correspondence check.
   verdict : re-runs the model on the exported input and compares it with the DataFrame the
   implementation produced (tags 1..4), evaluates the property itself — the implementation's result
   on the columns NM-TRAN keeps equals the reference reader's — (tag 11), and reports which guard
   conjuncts are false (tags 201..208).
   cycle_verdict : the write/read oracle (tags 21..23).
   Numbers: the model and the reference compute the EXACT rational value of a decimal item; the
   implementation's cell is a double exported as an exact rational.  They are related by
   `double_ok q d` : d is within half a unit in the last place of q (correct rounding). *)
From Coq Require Import QArith Qabs ZArith NArith List Bool PArith Arith.
From PV Require Import Base.PyData C13.Model C13.Spec.
Import ListNotations.
Local Open Scope nat_scope.

(* floor(log2 |d|) for d <> 0 *)
Definition ilog2_q (d : Q) : Z :=
  let n := Z.abs (Qnum d) in
  let m := Zpos (Qden d) in
  let e := (Z.log2 n - Z.log2 m)%Z in
  let ge := match e with
            | Zneg p => Z.leb m (n * Z.pow 2 (Zpos p))
            | _ => Z.leb (m * Z.pow 2 e) n
            end in
  if ge then e else (e - 1)%Z.
Definition pow2_q (e : Z) : Q :=
  match e with
  | Zneg p => Qmake 1 (Pos.pow 2 p)
  | _ => Qmake (Z.pow 2 e) 1
  end.
(* d is a correctly rounded binary64 of q (ties not distinguished; subnormals have ulp 2^-1074; no overflow) *)
Definition double_ok (q d : Q) : bool :=
  if Qeq_bool q 0 then Qeq_bool d 0
  else if Qeq_bool d 0 then false
  else Qle_bool (Qabs (q - d) * 2) (pow2_q (Z.max (ilog2_q d - 52) (-1074))).

Definition cell_agree (m o : cell) : bool :=
  match m, o with
  | CNum q, CNum d => double_ok q d
  | CNaN, CNaN => true
  | CStr a, CStr b => str_eqb a b
  | _, _ => false
  end.

Definition err_eqb (a b : err) : bool :=
  match a, b with
  | DatasetError, DatasetError | KeyErr, KeyErr | EmptyData, EmptyData
  | ValueErr, ValueErr | OtherErr, OtherErr => true
  | _, _ => false
  end.

Definition table := list (str * list cell).

Definition tag (b : bool) (t : nat) : list nat := if b then [] else [t].

(* model-or-reference table against the observed one *)
Definition compare_tables (t_names t_shape t_cell : nat) (m o : table) : list nat :=
  if negb (list_eqb str_eqb (map fst m) (map fst o)) then [t_names]
  else if negb (list_eqb Nat.eqb (map (fun c => length (snd c)) m) (map (fun c => length (snd c)) o)) then [t_shape]
  else tag (forallb (fun mo => forallb (fun xy => cell_agree (fst xy) (snd xy)) (combine (snd (fst mo)) (snd (snd mo))))
                    (combine m o)) t_cell.

Definition compare_res (t_kind t_names t_shape t_cell : nat) (m o : res table) : list nat :=
  match m, o with
  | Ok a, Ok b => compare_tables t_names t_shape t_cell a b
  | Err a, Err b => tag (err_eqb a b) t_kind
  | _, _ => [t_kind]
  end.

Record case := mkCase {
  c_in : input;
  c_obs : res table                 (* Model.dataset as produced by pharmpy, or the error class *)
}.

(* the observed table restricted to the columns that are not dropped *)
Definition obs_kept (i : input) (o : res table) : res table := project_kept i o.

Fixpoint guard_tags_from (k : nat) (l : list bool) : list nat :=
  match l with
  | [] => []
  | b :: tl => tag b k ++ guard_tags_from (S k) tl
  end.

Definition verdict (c : case) : list nat :=
  compare_res 1 2 3 4 (read_model (c_in c)) (c_obs c) ++
  (* the property: what the implementation read is what the documented rules say *)
  match compare_res 11 11 11 11 (spec_read (c_in c)) (obs_kept (c_in c) (c_obs c)) with
  | [] => []
  | _ => [11]
  end ++
  guard_tags_from 201 (guard_conjuncts (c_in c)).

(* ---- write/read cycle: the table handed to pharmpy and the table read back through the written
   control stream and csv file; values are compared exactly (both are doubles) *)
Record cycle_case := mkCycle {
  y_before : res table;                       (* the in-memory dataset *)
  y_after : res table;                        (* the dataset read from the written files *)
  y_old_opts : list (str * option str);       (* $INPUT of the model before *)
  y_new_cols : list (str * bool);             (* the datainfo that was written: name, drop *)
  y_new_opts : list (str * option str);       (* $INPUT of the written model *)
  y_changed : bool;                           (* dataset content, datainfo or path changed before writing *)
  y_updated : bool;                           (* the dataset content was replaced (or had no path) *)
  y_force : bool;                             (* write_model(force=...) *)
  y_renamed_obs : bool;                       (* the written $DATA names another file than the old one *)
  y_old_data : data_opts;                     (* $DATA of the model before: IGNORE=c token, NULL, lists *)
  y_new_data : data_opts                      (* $DATA of the written model *)
}.
Definition exact_cell (a b : cell) : bool := cell_eqb a b.
Definition ostr_eqb (a b : option str) : bool :=
  match a, b with Some x, Some y => str_eqb x y | None, None => true | _, _ => false end.
Definition opts_eqb (a b : list (str * option str)) : bool :=
  list_eqb (fun x y => str_eqb (fst x) (fst y) && ostr_eqb (snd x) (snd y)) a b.
Definition filt_eqb (a b : filt) : bool :=
  str_eqb (f_col a) (f_col b) && ostr_eqb (f_op a) (f_op b) && str_eqb (f_expr a) (f_expr b).
Definition on_eqb (a b : option N) : bool :=
  match a, b with Some x, Some y => N.eqb x y | None, None => true | _, _ => false end.
Definition data_eqb (a b : data_opts) : bool :=
  ostr_eqb (d_ignchar a) (d_ignchar b) && on_eqb (d_null a) (d_null b) &&
  list_eqb filt_eqb (d_ignore a) (d_ignore b) && list_eqb filt_eqb (d_accept a) (d_accept b).
(* tags 21-24: the property (re-read = in-memory); 25: update_input differs from the model; 26: the RULE — a $DATA
   record naming a file written from the (already filtered) in-memory dataset still carries an IGNORE/ACCEPT
   list; 27: the written $DATA record differs from the model of update_source; 28: the file named by $DATA
   differs from the model of write_files; 218-220: guard conjuncts *)
Definition cycle_verdict (c : cycle_case) : list nat :=
  match y_before c, y_after c with
  | Ok a, Ok b =>
      if negb (list_eqb str_eqb (map fst a) (map fst b)) then [21]
      else if negb (list_eqb Nat.eqb (map (fun x => length (snd x)) a) (map (fun x => length (snd x)) b)) then [22]
      else tag (forallb (fun ab => forallb (fun xy => exact_cell (fst xy) (snd xy)) (combine (snd (fst ab)) (snd (snd ab))))
                        (combine a b)) 23
  | _, _ => [24]
  end ++
  (if y_changed c then
     match column_info (y_old_opts c) with
     | Ok ci => tag (opts_eqb (update_input_model (y_old_opts c) (ci_drop ci) (y_new_cols c)) (y_new_opts c)) 25
     | Err _ => []
     end
   else tag (opts_eqb (y_old_opts c) (y_new_opts c)) 25) ++
  tag (negb (y_renamed_obs c && negb (is_nil (d_ignore (y_new_data c) ++ d_accept (y_new_data c))))) 26 ++
  tag (data_eqb (update_data (y_changed c) (map fst (y_new_cols c)) (y_old_data c)) (y_new_data c)) 27 ++
  tag (Bool.eqb (y_renamed_obs c) (y_changed c && name_follows (y_updated c) (y_force c))) 28 ++
  (if y_changed c then
     tag (g_no_anon (y_old_opts c) (length (y_new_cols c))) 218 ++
     tag (g_no_same_dropped (y_old_opts c) (map fst (y_new_cols c))) 219
   else []) ++
  tag (g_renamed (y_changed c) (y_updated c) (y_force c)) 220.

(* ---- exhaustive small-scope ties of the two engine contracts the number and splitter theorems rest on:
   convert against the real convert_fortran_number, resplit o pystrip against the real re.split o str.strip
   (tags 5, 6), and the documented splitter on the rows split_spec speaks about (tag 12) *)
Definition conv_verdict (c : str * option Q) : list nat :=
  match convert (fst c), snd c with
  | None, None => []
  | Some q, Some d => tag (double_ok q d) 5
  | _, _ => [5]
  end.
Definition split_verdict (c : str * list str) : list nat :=
  tag (list_eqb str_eqb (resplit (pystrip (fst c))) (snd c)) 6 ++
  (if g_row (fst c) then tag (list_eqb str_eqb (spec_items (fst c)) (snd c)) 12 else []).
