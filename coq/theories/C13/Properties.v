(* PV.C13.Properties — the property theorems of C13 and nothing else.
   Model.v is the reader as implemented (validated against pharmpy by the correspondence check),
   Spec.v is the reference reader written from docs/NONMEM.rst. *)
From Coq Require Import QArith ZArith NArith List Bool PArith Arith.
From PV Require Import Base.PyData C13.Model C13.Spec C13.Proofs C13.Time C13.TimeProofs C13.Pk C13.PkProofs C13.Raw C13.RawProofs.
Import ListNotations.
Local Open Scope nat_scope.

(* Every string of the documented Fortran number grammar (sign, digits with optional point, exponent
   written E e D d or as a bare sign: 2-1, 2+1; a lone sign) is converted to the value it denotes —
   for strings of any length, signed mantissas with a D exponent included (full strength since fix 0a78c77;
   the former counter-model "-5d1" is Refuted.signed_d_fixed). *)
Theorem number_forms :
  forall s : str, fortran_number s = true -> convert s = Some (value s).
Proof. exact number_forms_lemma. Qed.

(* Conversely: over the documented alphabet (digits . + - E e D d) nothing outside the grammar is
   converted (full strength since fix 0a78c77: the short-form pattern is matched with fullmatch; outside the
   alphabet Python's float() still accepts more, see charset_refuted). *)
Theorem convert_rejects :
  forall s : str, g_charset s = true -> fortran_number s = false -> convert s = None.
Proof. exact convert_rejects_lemma. Qed.

(* The regular-expression splitter applied to the stripped line yields exactly the items of the
   documented delimiter rules (state machine spec_items): comma / TAB / spaces, spaces around a
   comma and after a TAB ignored, leading and trailing spaces ignored, NULL before a leading,
   after a trailing and between two hard delimiters — for every non-blank row of any length without
   a TAB at either end. *)
Theorem split_spec :
  forall row : str, g_row row = true -> resplit (pystrip row) = spec_items row.
Proof. exact split_spec_lemma. Qed.

(* Padding of short rows and discarding of surplus items: when no row has more usable items than
   the first one (the code still cuts every row to the width of the first, see rows_within_refuted), every
   row of the frame IS the row the documentation describes — the first n items, padded with NULL markers —
   whatever the width of the first row (a wider first row is cut since fix c9e4304, missing columns are
   padded with None since fix 6a54a3e, so filters see no NULL value). *)
Theorem pad_strip :
  forall (n : nat) (rows : list (list str)) (fr : list (list (option str))),
    frame n rows = Ok fr ->
    forallb (fun r => Nat.min (length r) n <=? length (hd [] rows)) rows = true ->
    fr = map (spec_shape n) rows /\ Forall (fun r => length r = n) fr.
Proof. exact pad_strip_lemma. Qed.

(* the frame exists for every non-empty list of rows (no KeyError for a wide first row any more) *)
Theorem frame_total :
  forall (n : nat) (r0 : list str) (rest : list (list str)),
    exists fr, frame n (r0 :: rest) = Ok fr /\ length fr = S (length rest).
Proof. exact frame_total_lemma. Qed.

(* IGNORE/ACCEPT lists: applying the statements one after the other to the whole frame (what the
   code does, converting a numerically compared column for all remaining rows first) equals
   deciding every row on its own by running through the list in order and stopping at the first
   statement that removes it — including WHICH inputs fail: a row removed by an earlier statement
   is never converted by a later one.  For every list of well-formed statements and every frame. *)
Theorem filters_in_order :
  forall (nullstr mdt : str) (names : list str) (syn : list (str * str)) (ign : bool) (fs : list filt)
         (rows : list (list (option str))),
    filters_valid names syn fs = true ->
    apply_filters names syn nullstr mdt ign fs rows =
    filterM (fun r => filters_get (convert_item nullstr mdt) names syn ign fs (nth_cell r)) rows.
Proof. exact filters_in_order_lemma. Qed.

(* The composition.  For every input (data-file text of any length, $INPUT option list, IGNORE=c,
   NULL=c, IGNORE/ACCEPT lists, missing-data token) that satisfies the guard, the dataset the code
   computes, restricted to the columns that are not dropped, is exactly the dataset of the
   reference reader written from docs/NONMEM.rst — same error class when the input is rejected, same
   columns, same rows, same exact values.  After the fix commits 8a96a4a, f9c38b4, 0a78c77, 6a54a3e, c9e4304 the
   guard has lost the conjuncts g_ignchar, g_last_comment, g_blank, g_first_width, g_filter_cols, g_time_col and
   the signed-D / anchoring item conjuncts; the remaining [finding] conjuncts (g_rows_within, g_items charset,
   g_id_drop) are necessary (Refuted.v); the [class] conjuncts delimit the inputs the documentation speaks about.
   Round 4: the [class] conjunct g_no_date is gone — files with DATE/DAT1/DAT2/DAT3 columns (dropped or kept) are inside
   the theorem: such a column stays text, and while one is named in $INPUT, DROPped or not, TIME stays text as well
   (docs/NONMEM.rst: "Even if DATE is DROP it will still affect TIME"); Examples.date_column_example. *)
Theorem reader_refines :
  forall i : input, guard i = true -> project_kept i (read_model i) = spec_read i.
Proof. exact reader_refines_lemma. Qed.
(* what the reader does to a TIME column while a DATE column is named: nothing, for every column and every content *)
Theorem date_keeps_time_text :
  forall (nullstr mdt : str) (c : column), time_step nullstr mdt true c = c.
Proof. intros nullstr mdt c. unfold time_step. rewrite andb_false_r. reflexivity. Qed.

(* The write/read cycle.  For every printer `pr` of doubles (DataFrame.to_csv is an engine), every
   missing-data token, every list of column names and every numeric table (any number of rows
   and columns) satisfying cycle_guard — the printed cells are clean tokens of at most 24
   characters that convert_fortran_number reads back as the value, names are plain and unique, the
   id column has contiguous blocks and the int32 columns hold integers — reading the text
   write_csv produces through the $INPUT/$DATA records pharmpy generates (IGNORE=@, all
   columns, no filters) succeeds and returns the columns of the table that was written, value by value. *)
Theorem write_read_cycle :
  forall (pr : Q -> str) (mdt : str) (hdr : list str) (rows : list (list cell)),
    cycle_guard pr mdt hdr rows = true ->
    exists t, read_model (cycle_input pr mdt hdr rows) = Ok t /\ table_same t hdr rows = true.
Proof. exact write_read_cycle_lemma. Qed.

(* update_input, the generator of the $INPUT record for a changed dataset: when the old record has no
   anonymous DROP/SKIP among the positions of the new columns (see anon_drop_refuted) and no option
   that drops a column of the same name, the generated record names exactly the new columns, none
   dropped — for every old record that parses and every list of plain new names. *)
Theorem update_input_plain :
  forall (old : list (str * option str)) (ci : colinfo) (new : list str),
    column_info old = Ok ci ->
    g_no_anon old (length new) = true -> g_no_same_dropped old new = true ->
    forallb (fun nm => negb (is_dropword nm)) new = true ->
    exists syn, column_info (update_input_model old (ci_drop ci) (map (fun nm => (nm, false)) new)) =
                Ok (mkCols new (map (fun _ => false) new) syn).
Proof. exact update_input_plain_lemma. Qed.

(* ... and so the cycle holds through the $INPUT record pharmpy actually generates from the model's
   old record, not only through a freshly written one. *)
Theorem write_read_cycle_updated :
  forall (pr : Q -> str) (mdt : str) (old : list (str * option str)) (ci : colinfo) (hdr : list str)
         (rows : list (list cell)),
    column_info old = Ok ci ->
    g_no_anon old (length hdr) = true -> g_no_same_dropped old hdr = true ->
    cycle_guard pr mdt hdr rows = true ->
    exists t, read_model (cycle_input_opts pr (update_input_model old (ci_drop ci) (map (fun nm => (nm, false)) hdr)) mdt hdr rows) = Ok t /\
              table_same t hdr rows = true.
Proof. exact write_read_cycle_updated_lemma. Qed.

(* The cycle for a model that HAS IGNORE/ACCEPT lists (Spec.v: "filters of the written model o written data =
   identity on the in-memory dataset").  `old` is the model's input (any IGNORE=c, NULL=c, any lists), (hdr, rows)
   its in-memory, already filtered dataset.  When update_source regenerates the $DATA record (dataset, datainfo
   or path changed) and the record names the newly written file, reading the written files returns the
   in-memory dataset whatever the old lists were, and the written record carries no list any more; when nothing
   changed the written input is the old one, so re-reading is the same computation as the original read.
   The remaining case — record regenerated but still naming the OLD file — is stale_path_refuted. *)
Theorem write_read_cycle_filtered :
  forall (pr : Q -> str) (old : input) (ci : colinfo) (ns mdt : str) (hdr : list str) (rows : list (list cell)),
    column_info (i_options old) = Ok ci -> null_string (i_null old) = Ok ns ->
    g_no_anon (i_options old) (length hdr) = true -> g_no_same_dropped (i_options old) hdr = true ->
    cycle_guard pr mdt hdr rows = true ->
    (exists t, read_model (written_input pr true true old ci mdt hdr rows) = Ok t /\ table_same t hdr rows = true) /\
    i_ignore (written_input pr true true old ci mdt hdr rows) = [] /\
    i_accept (written_input pr true true old ci mdt hdr rows) = [] /\
    (forall renamed, written_input pr false renamed old ci mdt hdr rows = old).
Proof. exact write_read_cycle_filtered_lemma. Qed.

(* ---- TIME / DATE translation (translate_nmtran_time; model and calendar specification in Time.v) --------------
   day_number_counts_days: the day number the model gives a date counts calendar days — walking k days forward,
   one day at a time through month ends, leap days and year ends, from ANY valid date raises it by exactly k.
   relative_time_calendar / translated_time_calendar: for every file (any number of records and individuals) whose
   dates are calendar dates, the translated TIME of a record is 24 * (days walked from the date of the individual's
   first record) + difference of the clock times; first_record_zero: the first record gets 0. *)

Theorem day_number_counts_days :
  forall (d e : Z * Z * Z) (k : Z), valid3 d = true -> days_apart d e k -> dn3 e = (dn3 d + k)%Z /\ valid3 e = true.
Proof. exact day_number_counts. Qed.
Theorem relative_time_calendar :
  forall (d1 d2 : Z * Z * Z) (k : Z) (h1 h2 : Q), valid3 d1 = true -> days_apart d1 d2 k ->
    Qeq (hours_between (TStamp (dn3 d1) h1) (TStamp (dn3 d2) h2)) (inject_Z k * 24 + (h2 - h1)).
Proof. exact relative_time_calendar_lemma. Qed.
Theorem translated_time_calendar :
  forall (dc : str) (ids : list Q) (times dates : list str) (vals : list tval) (id : Q) (j : nat)
         (d1 d2 : Z * Z * Z) (k : Z) (h1 h2 : Q),
    mapM (fun td => date_time_value dc (fst td) (snd td)) (combine times dates) = Ok vals ->
    all_stamp vals = true ->
    nth_error ids j = Some id -> nth_error vals j = Some (TStamp (dn3 d2) h2) ->
    first_of id ids vals = Some (TStamp (dn3 d1) h1) ->
    valid3 d1 = true -> days_apart d1 d2 k ->
    exists out q, translate_columns dc ids times dates = Ok out /\ nth_error out j = Some q /\
                  Qeq q (inject_Z k * 24 + (h2 - h1)).
Proof. exact translated_time_calendar_lemma. Qed.
Theorem first_record_zero : forall v : tval, Qeq (hours_between v v) 0.
Proof. exact first_record_zero_lemma. Qed.


(* ---- $PK models: filter_observations (model in Pk.v: read_model_pk = read_model followed by filter_obs) -------
   For ID and label columns of any length: a record is kept iff SOME record with an equal ID is an observation
   (label value 0: MDV, else EVID, else AMT) — individuals without observations are removed as a whole. *)
Theorem filter_observations_spec :
  forall (ids labs : list cell) (j : nat) (i : cell),
    nth_error ids j = Some i ->
    (nth j (obs_mask ids labs) false = true <->
     exists k i' lab, nth_error ids k = Some i' /\ nth_error labs k = Some lab /\ is_zero lab = true /\ cell_eqb i i' = true).
Proof. exact obs_mask_spec. Qed.

(* The composition for $PK models: for every input satisfying the guard whose ID column is a kept column, the
   dataset pharmpy computes for a model with a $PK record (read_nonmem_dataset followed by filter_observations),
   restricted to the kept columns, is the reference reader followed by the observation filter — same error class,
   same columns, same rows, same exact values. *)
Theorem reader_refines_pk :
  forall i : input,
    guard i = true ->
    match column_info (i_options i) with
    | Ok ci => mems s_ID (kept_names (ci_names ci) (ci_drop ci)) = true
    | Err _ => True
    end ->
    project_kept i (read_model_pk i) = spec_read_pk i.
Proof. exact reader_refines_pk_lemma. Qed.

(* binary64 model of translate_nmtran_time (tied to the code by EXACT equality of the resulting doubles), after fix
   a9224f5 (one rounding to whole nanoseconds, integer divmod): EVERY clock time h:m (0 <= h < 24, 0 <= m < 60 — the
   finite domain is closed by evaluation) is held as exactly (h*60+m)*60e9 nanoseconds although h + m/60 is not
   exact in binary64; so for all day numbers the integer nanosecond difference of two Timestamps is exactly the
   calendar difference (no guard; the former counter-model is Refuted.split_truncation_fixed). *)
Theorem clock_split_exact :
  forall h m : nat, h < 24 -> m < 60 ->
    ns_of_hours (clock_hours h m) = (Z.of_nat ((h * 60 + m) * 60) * 1000000000)%Z.
Proof. exact clock_split_exact_lemma. Qed.
Theorem stamp_difference_clock :
  forall (dn1 dn2 : Z) (h1 m1 h2 m2 : nat), h1 < 24 -> m1 < 60 -> h2 < 24 -> m2 < 60 ->
    ((dn2 * 86400000000000 + ns_of_hours (clock_hours h2 m2)) - (dn1 * 86400000000000 + ns_of_hours (clock_hours h1 m1)) =
     ((dn2 - dn1) * 1440 + (Z.of_nat (h2 * 60 + m2) - Z.of_nat (h1 * 60 + m1))) * 60000000000)%Z.
Proof. exact stamp_difference_clock_lemma. Qed.

(* raw mode (Model.read_raw_dataset): for every text over the printable alphabet without a TAB at a row end, the
   raw table is the documented lines split into the documented items, each row cut / padded to the width of the
   first row — no filter, no NULL substitution, no conversion, no padding to $INPUT (see Raw.v for what is skipped). *)
Theorem raw_refines :
  forall i : input, g_alphabet i = true -> g_edge_tab i = true -> read_raw i = spec_raw i.
Proof. exact raw_refines_lemma. Qed.
