(* PV.C13.Proofs — lemmas behind Properties.v *)
From Coq Require Import QArith ZArith NArith List Bool PArith Arith Lia ZifyBool.
From PV Require Import Base.PyData C13.Model C13.Spec.
Import ListNotations.
Local Open Scope nat_scope.

(* ---- characters ------------------------------------------------------------------------------ *)
Ltac char_unfold :=
  unfold is_dig_us, non_sd, doc_char, is_hard in *;
  unfold is_digit, is_sign, is_expmark_e, is_expmark_d, is_blankc, is_alpha in *;
  unfold c_dot, c_plus, c_minus, c_e, c_E, c_d, c_D, c_us, c_sp, c_tab, c_comma, c_nl, c_0, c_hash, c_at in *.
(* boolean facts about single characters: ZifyBool lets lia decide them *)
Ltac char_tac := char_unfold; lia.

Lemma str_eqb_refl (s : str) : str_eqb s s = true.
Proof. induction s as [|c tl IH]; cbn; [reflexivity|]. rewrite N.eqb_refl. exact IH. Qed.

Lemma str_eqb_eq (a b : str) : str_eqb a b = true <-> a = b.
Proof.
  split.
  - revert b. induction a as [|x a IH]; destruct b as [|y b]; cbn; intro H; try discriminate; [reflexivity|].
    apply andb_true_iff in H. destruct H as [H1 H2]. apply N.eqb_eq in H1. subst. f_equal. apply IH. exact H2.
  - intros ->. apply str_eqb_refl.
Qed.

Lemma str_eqb_neq (a b : str) : a <> b -> str_eqb a b = false.
Proof. intro H. destruct (str_eqb a b) eqn:E; [apply str_eqb_eq in E; contradiction | reflexivity]. Qed.

(* ---- span -------------------------------------------------------------------------------------- *)
Lemma span_spec {A} (p : A -> bool) (l a b : list A) :
  span p l = (a, b) -> l = a ++ b /\ forallb p a = true /\ match b with x :: _ => p x = false | [] => True end.
Proof.
  revert a b. induction l as [|x tl IH]; cbn; intros a b H.
  - inversion H. subst. cbn. auto.
  - destruct (p x) eqn:E.
    + destruct (span p tl) as [a' b'] eqn:S. inversion H. subst. destruct (IH a' b eq_refl) as [H1 [H2 H3]].
      subst. cbn. rewrite E, H2. auto.
    + inversion H. subst. cbn. rewrite E. auto.
Qed.

Lemma span_app {A} (p : A -> bool) (a b : list A) :
  forallb p a = true -> match b with x :: _ => p x = false | [] => True end -> span p (a ++ b) = (a, b).
Proof.
  induction a as [|x a IH]; cbn; intros Ha Hb.
  - destruct b as [|y b]; cbn; [reflexivity|]. rewrite Hb. reflexivity.
  - apply andb_true_iff in Ha. destruct Ha as [Hx Ha]. rewrite Hx, (IH Ha Hb). reflexivity.
Qed.

Lemma forallb_impl {A} (p q : A -> bool) (l : list A) :
  (forall x, p x = true -> q x = true) -> forallb p l = true -> forallb q l = true.
Proof.
  intros H. induction l as [|x l IH]; cbn; [auto|]. intro E. apply andb_true_iff in E. destruct E as [E1 E2].
  rewrite (H _ E1), (IH E2). reflexivity.
Qed.

(* ---- digit groups -------------------------------------------------------------------------------- *)
Lemma digit_dig_us c : is_digit c = true -> is_dig_us c = true.
Proof. intro H. unfold is_dig_us. rewrite H. reflexivity. Qed.

Lemma group_ok_from_digits l : all_digits l = true -> group_ok_from false l = true.
Proof.
  induction l as [|c l IH]; cbn; [reflexivity|]. intro H. apply andb_true_iff in H. destruct H as [Hc Hl].
  assert (N.eqb c c_us = false) as -> by char_tac. apply IH. exact Hl.
Qed.

Lemma group_ok_digits l : all_digits l = true -> l <> [] -> group_ok l = true.
Proof.
  destruct l as [|c l]; [congruence|]. intros H _. unfold group_ok. pose proof H as H'. cbn in H'.
  apply andb_true_iff in H'. destruct H' as [Hc _]. rewrite Hc. cbn [andb]. apply group_ok_from_digits. exact H.
Qed.

Lemma group_digits_digits l : all_digits l = true -> group_digits l = l.
Proof.
  unfold group_digits. induction l as [|c l IH]; cbn; [reflexivity|]. intro H. apply andb_true_iff in H. destruct H as [Hc Hl].
  rewrite Hc, (IH Hl). reflexivity.
Qed.

Lemma all_digits_dig_us l : all_digits l = true -> forallb is_dig_us l = true.
Proof. apply forallb_impl. exact digit_dig_us. Qed.

(* ---- canonical strings of the number grammar ----------------------------------------------------- *)
Definition mant_str (ip fp : str) (dot : bool) : str := ip ++ (if dot then c_dot :: fp else []).

Record mant_ok (ip fp : str) (dot : bool) : Prop := {
  mo_ip : all_digits ip = true;
  mo_fp : all_digits fp = true;
  mo_dot : dot = false -> fp = [];
  mo_ne : ~ (ip = [] /\ fp = [])
}.

Inductive sign_str : str -> bool -> Prop :=
| SgNone : sign_str [] false
| SgPlus : sign_str [c_plus] false
| SgMinus : sign_str [c_minus] true.

Definition no_sign_head (s : str) : Prop := match s with c :: _ => is_sign c = false | [] => True end.

Lemma take_sign_app sg neg s : sign_str sg neg -> no_sign_head s -> take_sign (sg ++ s) = (neg, s).
Proof.
  intros [] H; cbn; try reflexivity.
  destruct s as [|c s]; [reflexivity|]. cbn in H. unfold take_sign.
  assert (N.eqb c c_minus = false) as -> by char_tac. assert (N.eqb c c_plus = false) as -> by char_tac. reflexivity.
Qed.

Lemma mant_no_sign_head ip fp dot tl : mant_ok ip fp dot -> no_sign_head (mant_str ip fp dot ++ tl).
Proof.
  intros [Hi Hf Hd Hn]. unfold mant_str. destruct ip as [|c ip]; cbn.
  - destruct dot; [reflexivity|]. exfalso. apply Hn. split; [reflexivity | apply Hd; reflexivity].
  - cbn in Hi. apply andb_true_iff in Hi. destruct Hi as [Hc _]. char_tac.
Qed.

(* what pyfloat does after the sign on a canonical mantissa followed by tl, where tl does not start
   with a digit, an underscore or (when there is no dot) a dot *)
Definition tail_ok (dot : bool) (tl : str) : Prop :=
  match tl with
  | c :: _ => is_dig_us c = false /\ (dot = false -> N.eqb c c_dot = false)
  | [] => True
  end.

Lemma pyfloat_canon sg neg ip fp dot tl :
  sign_str sg neg -> mant_ok ip fp dot -> tail_ok dot tl ->
  pyfloat (sg ++ mant_str ip fp dot ++ tl) = pyfloat_exp neg ip fp tl.
Proof.
  intros Hs Hm Ht. unfold pyfloat. rewrite (take_sign_app _ _ _ Hs (mant_no_sign_head _ _ _ tl Hm)).
  destruct Hm as [Hi Hf Hd Hn]. unfold mant_str. rewrite <- app_assoc.
  destruct dot.
  - (* ip . fp tl *)
    rewrite (span_app is_dig_us ip ((c_dot :: fp) ++ tl) (all_digits_dig_us _ Hi)) by (cbn; reflexivity).
    cbn [app]. assert (N.eqb c_dot c_dot = true) as -> by reflexivity.
    rewrite (span_app is_dig_us fp tl (all_digits_dig_us _ Hf)).
    2:{ destruct tl as [|c tl]; [exact I|]. cbn in Ht. tauto. }
    rewrite (group_digits_digits _ Hi), (group_digits_digits _ Hf).
    destruct ip as [|a ip].
    + destruct fp as [|b fp]; [exfalso; apply Hn; auto|].
      rewrite (group_ok_digits (b :: fp) Hf) by discriminate. cbn. reflexivity.
    + rewrite (group_ok_digits (a :: ip) Hi) by discriminate.
      destruct fp as [|b fp]; cbn [is_nil orb andb negb].
      * reflexivity.
      * rewrite (group_ok_digits (b :: fp) Hf) by discriminate. reflexivity.
  - rewrite (Hd eq_refl) in *. cbn [app].
    assert (ip <> []) as Hne by (intro E; apply Hn; auto).
    rewrite (span_app is_dig_us ip tl (all_digits_dig_us _ Hi)).
    2:{ destruct tl as [|c tl]; [exact I|]. cbn in Ht. tauto. }
    rewrite (group_ok_digits ip Hi Hne), (group_digits_digits _ Hi).
    destruct tl as [|c tl]; [reflexivity|]. cbn in Ht. destruct Ht as [_ Ht]. rewrite (Ht eq_refl). reflexivity.
Qed.

Lemma pyfloat_exp_e neg ip fp m esg eneg ep :
  is_expmark_e m = true -> sign_str esg eneg -> all_digits ep = true -> ep <> [] ->
  pyfloat_exp neg ip fp (m :: esg ++ ep) = Some (dec_value neg ip fp eneg ep).
Proof.
  intros Hm Hs He Hne. unfold pyfloat_exp. rewrite Hm.
  assert (no_sign_head ep) as Hh.
  { destruct ep as [|c ep]; [exact I|]. cbn in He. apply andb_true_iff in He. destruct He as [Hc _]. cbn. char_tac. }
  rewrite (take_sign_app _ _ _ Hs Hh).
  replace ep with (ep ++ []) at 1 by apply app_nil_r.
  rewrite (span_app is_dig_us ep [] (all_digits_dig_us _ He) I).
  rewrite (group_ok_digits ep He Hne), (group_digits_digits _ He). reflexivity.
Qed.

Lemma pyfloat_exp_other neg ip fp c tl : is_expmark_e c = false -> pyfloat_exp neg ip fp (c :: tl) = None.
Proof. intro H. unfold pyfloat_exp. rewrite H. reflexivity. Qed.

(* ---- inversion of the reference grammar ---------------------------------------------------------- *)
Inductive exp_tail : str -> bool -> str -> Prop :=
| ETnone : exp_tail [] false []
| ETmark m esg eneg ep :
    is_expmark_e m || is_expmark_d m = true -> sign_str esg eneg -> all_digits ep = true -> ep <> [] ->
    exp_tail (m :: esg ++ ep) eneg ep
| ETshort c ep :
    is_sign c = true -> all_digits ep = true -> ep <> [] -> exp_tail (c :: ep) (N.eqb c c_minus) ep.

Lemma take_sign_inv s neg r : take_sign s = (neg, r) -> exists sg, s = sg ++ r /\ sign_str sg neg.
Proof.
  unfold take_sign. destruct s as [|c tl].
  - intro H. inversion H. exists []. split; [reflexivity | constructor].
  - destruct (N.eqb c c_minus) eqn:E1.
    + intro H. inversion H. subst. apply N.eqb_eq in E1. subst. exists [c_minus]. split; [reflexivity | constructor].
    + destruct (N.eqb c c_plus) eqn:E2.
      * intro H. inversion H. subst. apply N.eqb_eq in E2. subst. exists [c_plus]. split; [reflexivity | constructor].
      * intro H. inversion H. subst. exists []. split; [reflexivity | constructor].
Qed.

Lemma is_nil_false {A} (l : list A) : is_nil l = false -> l <> [].
Proof. destruct l; [discriminate | discriminate]. Qed.

Lemma parse_exponent_inv s eneg ep : parse_exponent s = Some (eneg, ep) -> exp_tail s eneg ep.
Proof.
  unfold parse_exponent. destruct s as [|c t].
  - intro H. inversion H. constructor.
  - destruct (is_expmark_e c || is_expmark_d c) eqn:Em.
    + destruct (take_sign t) as [en t1] eqn:Ts. destruct (negb (is_nil t1) && all_digits t1) eqn:Ed; [|discriminate].
      intro H. inversion H. subst. apply andb_true_iff in Ed. destruct Ed as [E1 E2].
      destruct (take_sign_inv _ _ _ Ts) as [sg [-> Hs]]. apply ETmark; auto.
      apply is_nil_false. apply negb_true_iff. exact E1.
    + destruct (is_sign c) eqn:Es; [|discriminate].
      destruct (negb (is_nil t) && all_digits t) eqn:Ed; [|discriminate].
      intro H. inversion H. subst. apply andb_true_iff in Ed. destruct Ed as [E1 E2].
      apply ETshort; auto. apply is_nil_false. apply negb_true_iff. exact E1.
Qed.

Lemma span_digits_all s a b : span is_digit s = (a, b) -> all_digits a = true.
Proof. intro H. apply span_spec in H. tauto. Qed.

Lemma parse_number_inv s neg ip fp eneg ep :
  parse_number s = Some (NDec neg ip fp eneg ep) ->
  exists sg dot tl, s = sg ++ mant_str ip fp dot ++ tl /\ sign_str sg neg /\ mant_ok ip fp dot /\
                    exp_tail tl eneg ep /\ str_eqb s [c_plus] || str_eqb s [c_minus] = false.
Proof.
  unfold parse_number. destruct (str_eqb s [c_plus] || str_eqb s [c_minus]) eqn:Elone; [discriminate|].
  destruct (take_sign s) as [ng s0] eqn:Ts. destruct (span is_digit s0) as [ip0 s1] eqn:Sp.
  destruct (take_sign_inv _ _ _ Ts) as [sg [Hs Hsg]].
  destruct (span_spec _ _ _ _ Sp) as [Hs0 [Hip Hs1]].
  destruct s1 as [|c t].
  - (* digits only *)
    destruct (is_nil ip0 && is_nil (@nil N)) eqn:En; [discriminate|]. cbn [parse_exponent].
    intro H. inversion H. subst. exists sg, false, []. unfold mant_str. rewrite !app_nil_r.
    repeat split; auto; try constructor; auto.
    intros [E _]. subst. discriminate.
  - destruct (N.eqb c c_dot) eqn:Edot.
    + destruct (span is_digit t) as [fp0 s2] eqn:Sp2. destruct (span_spec _ _ _ _ Sp2) as [Ht [Hfp Hs2]].
      destruct (is_nil ip0 && is_nil fp0) eqn:En; [discriminate|].
      destruct (parse_exponent s2) as [[en e0]|] eqn:Pe; [|discriminate].
      intro H. inversion H. subst. apply N.eqb_eq in Edot. subst c.
      exists sg, true, s2. unfold mant_str. rewrite <- app_assoc. cbn [app].
      repeat split; auto; try discriminate.
      * intros [E1 E2]. subst. discriminate.
      * apply parse_exponent_inv. exact Pe.
    + destruct (is_nil ip0 && is_nil (@nil N)) eqn:En; [discriminate|].
      destruct (parse_exponent (c :: t)) as [[en e0]|] eqn:Pe; [|discriminate].
      intro H. inversion H. subst. exists sg, false, (c :: t). unfold mant_str. rewrite app_nil_r.
      repeat split; auto.
      * intros [E _]. subst. discriminate.
      * apply parse_exponent_inv. exact Pe.
Qed.

Lemma exp_tail_tail_ok tl eneg ep dot : exp_tail tl eneg ep -> tail_ok dot tl.
Proof. intros []; cbn; auto; split; try intro; char_tac. Qed.

Lemma mant_non_sd ip fp dot : mant_ok ip fp dot -> forallb non_sd (mant_str ip fp dot) = true.
Proof.
  intros [Hi Hf _ _]. unfold mant_str. rewrite forallb_app. apply andb_true_iff. split.
  - revert Hi. apply forallb_impl. intros x Hx. char_tac.
  - destruct dot; [|reflexivity]. cbn [forallb]. apply andb_true_iff. split; [reflexivity|].
    revert Hf. apply forallb_impl. intros x Hx. char_tac.
Qed.

Lemma digits_non_sd l : all_digits l = true -> forallb non_sd l = true.
Proof. apply forallb_impl. intros x Hx. char_tac. Qed.

Lemma span_non_sd_digits_end ep : all_digits ep = true -> fst (span non_sd ep) = ep.
Proof.
  intro H. replace ep with (ep ++ []) at 1 by apply app_nil_r.
  rewrite (span_app non_sd ep [] (digits_non_sd _ H) I). reflexivity.
Qed.

Lemma mant_head ip fp dot tl : mant_ok ip fp dot ->
  exists c r, mant_str ip fp dot ++ tl = c :: r /\ is_sign c = false /\ is_expmark_d c = false.
Proof.
  intros [Hi Hf Hd Hn]. unfold mant_str. destruct ip as [|a ip].
  - destruct dot.
    + exists c_dot, (fp ++ tl). repeat split.
    + exfalso. apply Hn. auto.
  - exists a, ((ip ++ (if dot then c_dot :: fp else [])) ++ tl). cbn in Hi. apply andb_true_iff in Hi. destruct Hi as [Ha _].
    repeat split; char_tac.
Qed.

Lemma replace_d_id l : forallb (fun c => negb (is_expmark_d c)) l = true -> replace_d l = l.
Proof.
  unfold replace_d. induction l as [|c l IH]; cbn; [reflexivity|]. intro H. apply andb_true_iff in H. destruct H as [Hc Hl].
  apply negb_true_iff in Hc. rewrite Hc, (IH Hl). reflexivity.
Qed.

Lemma sign_str_no_d sg neg : sign_str sg neg -> forallb (fun c => negb (is_expmark_d c)) sg = true.
Proof. intros []; reflexivity. Qed.

Lemma sign_cases c : is_sign c = true -> c = c_plus \/ c = c_minus.
Proof. intro H. unfold is_sign in H. apply orb_true_iff in H. destruct H as [H|H]; apply N.eqb_eq in H; auto. Qed.



(* ---- convert_rejects ------------------------------------------------------------------------------ *)
Definition noUS (s : str) : Prop := forallb (fun c => negb (N.eqb c c_us)) s = true.

Lemma noUS_app a b : noUS (a ++ b) <-> noUS a /\ noUS b.
Proof. unfold noUS. rewrite forallb_app, andb_true_iff. tauto. Qed.

Lemma charset_noUS s : g_charset s = true -> noUS s.
Proof. unfold g_charset, noUS. apply forallb_impl. intros x Hx. char_tac. Qed.

Lemma dig_us_digits r : forallb is_dig_us r = true -> noUS r -> all_digits r = true.
Proof.
  unfold noUS, all_digits. induction r as [|c r IH]; cbn; [reflexivity|]. intros H1 H2.
  apply andb_true_iff in H1. apply andb_true_iff in H2. destruct H1 as [A1 A2]. destruct H2 as [B1 B2].
  rewrite (IH A2 B2). rewrite andb_true_r. char_tac.
Qed.

Lemma group_ok_ne r : group_ok r = true -> r <> [].
Proof. destruct r; [discriminate | discriminate]. Qed.

Lemma pyfloat_exp_inv neg ip fp s q :
  pyfloat_exp neg ip fp s = Some q -> noUS s ->
  exists eneg ep, exp_tail s eneg ep /\ q = dec_value neg ip fp eneg ep /\
                  match s with m :: _ => is_expmark_e m = true | [] => True end.
Proof.
  unfold pyfloat_exp. destruct s as [|c t].
  - intros H _. inversion H. exists false, []. repeat split. constructor.
  - destruct (is_expmark_e c) eqn:Ec; [|discriminate].
    destruct (take_sign t) as [eneg t1] eqn:Ts. destruct (span is_dig_us t1) as [r3 s4] eqn:Sp.
    destruct (group_ok r3 && is_nil s4) eqn:Eg; [|discriminate].
    intros H Hus. inversion H. subst q. apply andb_true_iff in Eg. destruct Eg as [Eg En].
    destruct s4; [|discriminate]. destruct (span_spec _ _ _ _ Sp) as [Ht1 [Hd _]]. rewrite app_nil_r in Ht1. subst t1.
    destruct (take_sign_inv _ _ _ Ts) as [sg [-> Hs]].
    assert (noUS r3) as Hus3.
    { change (c :: sg ++ r3) with ([c] ++ sg ++ r3) in Hus. apply noUS_app in Hus. destruct Hus as [_ Hus].
      apply noUS_app in Hus. tauto. }
    pose proof (dig_us_digits _ Hd Hus3) as Hdig. rewrite (group_digits_digits _ Hdig).
    exists eneg, r3. repeat split.
    apply ETmark; auto. rewrite Ec. reflexivity. apply group_ok_ne. exact Eg.
Qed.

Lemma pyfloat_inv s q :
  pyfloat s = Some q -> noUS s ->
  exists sg neg ip fp dot tl eneg ep,
    s = sg ++ mant_str ip fp dot ++ tl /\ sign_str sg neg /\ mant_ok ip fp dot /\ exp_tail tl eneg ep /\
    q = dec_value neg ip fp eneg ep /\ match tl with m :: _ => is_expmark_e m = true | [] => True end.
Proof.
  unfold pyfloat. destruct (take_sign s) as [neg s0] eqn:Ts. destruct (span is_dig_us s0) as [r1 s1] eqn:Sp.
  destruct (take_sign_inv _ _ _ Ts) as [sg [Hs Hsg]]. destruct (span_spec _ _ _ _ Sp) as [Hs0 [Hd1 _]].
  intros H Hus. subst s. apply noUS_app in Hus. destruct Hus as [_ Hus]. subst s0.
  apply noUS_app in Hus. destruct Hus as [Hus1 Hus2]. pose proof (dig_us_digits _ Hd1 Hus1) as Hdig1.
  rewrite (group_digits_digits _ Hdig1) in H.
  destruct s1 as [|c s2].
  - destruct (group_ok r1) eqn:Eg; [|discriminate]. unfold pyfloat_exp in H. inversion H. subst q.
    exists sg, neg, r1, [], false, [], false, []. unfold mant_str. rewrite !app_nil_r.
    repeat split; auto; try constructor; auto. intros [E _]. subst. discriminate.
  - destruct (N.eqb c c_dot) eqn:Ed.
    + apply N.eqb_eq in Ed. subst c. destruct (span is_dig_us s2) as [r2 s3] eqn:Sp2.
      destruct (span_spec _ _ _ _ Sp2) as [Hs2 [Hd2 _]]. subst s2.
      change (c_dot :: r2 ++ s3) with ([c_dot] ++ r2 ++ s3) in Hus2. apply noUS_app in Hus2. destruct Hus2 as [_ Hus2].
      apply noUS_app in Hus2. destruct Hus2 as [Hus2 Hus3]. pose proof (dig_us_digits _ Hd2 Hus2) as Hdig2.
      rewrite (group_digits_digits _ Hdig2) in H.
      destruct ((group_ok r1 || is_nil r1) && (group_ok r2 || is_nil r2) && negb (is_nil r1 && is_nil r2)) eqn:Eg; [|discriminate].
      destruct (pyfloat_exp_inv _ _ _ _ _ H Hus3) as [eneg [ep [He [Hq Hm]]]].
      exists sg, neg, r1, r2, true, s3, eneg, ep. unfold mant_str. rewrite <- app_assoc. cbn [app].
      repeat split; auto; try discriminate.
      intros [E1 E2]. subst. cbn in Eg. discriminate.
    + destruct (group_ok r1) eqn:Eg; [|discriminate].
      destruct (pyfloat_exp_inv _ _ _ _ _ H Hus2) as [eneg [ep [He [Hq Hm]]]].
      exists sg, neg, r1, [], false, (c :: s2), eneg, ep. unfold mant_str. rewrite app_nil_r.
      repeat split; auto. intros [E _]. subst. discriminate.
Qed.

(* forward: the reference grammar accepts every canonical string *)
Lemma parse_exponent_fwd tl eneg ep : exp_tail tl eneg ep -> parse_exponent tl = Some (eneg, ep).
Proof.
  intros [|m esg en e Hm Hs He Hne|c e Hc He Hne]; [reflexivity| |].
  - unfold parse_exponent. rewrite Hm.
    assert (no_sign_head e) as Hh by (destruct e as [|x e]; [exact I|]; cbn in He |- *; char_tac).
    rewrite (take_sign_app _ _ _ Hs Hh). rewrite He. destruct e; [congruence|]. reflexivity.
  - unfold parse_exponent. assert (is_expmark_e c || is_expmark_d c = false) as -> by char_tac.
    rewrite Hc, He. destruct e; [congruence|]. reflexivity.
Qed.

Lemma exp_tail_head tl eneg ep : exp_tail tl eneg ep ->
  match tl with c :: _ => is_digit c = false /\ N.eqb c c_dot = false | [] => True end.
Proof. intros []; cbn; auto; split; char_tac. Qed.

Lemma parse_number_fwd sg neg ip fp dot tl eneg ep :
  sign_str sg neg -> mant_ok ip fp dot -> exp_tail tl eneg ep ->
  parse_number (sg ++ mant_str ip fp dot ++ tl) = Some (NDec neg ip fp eneg ep).
Proof.
  intros Hs Hm Ht. unfold parse_number.
  assert (str_eqb (sg ++ mant_str ip fp dot ++ tl) [c_plus] || str_eqb (sg ++ mant_str ip fp dot ++ tl) [c_minus] = false) as ->.
  { destruct (mant_head ip fp dot tl Hm) as [c0 [r0 [Hc0 [Hns _]]]]. rewrite Hc0.
    destruct Hs; cbn; try (destruct r0; reflexivity).
    destruct (N.eqb c0 43) eqn:E1; destruct (N.eqb c0 45) eqn:E2; cbn; try reflexivity; char_tac. }
  rewrite (take_sign_app _ _ _ Hs (mant_no_sign_head _ _ _ tl Hm)).
  pose proof (exp_tail_head _ _ _ Ht) as Hh. pose proof (parse_exponent_fwd _ _ _ Ht) as Hpe.
  destruct Hm as [Hi Hf Hd Hn]. unfold mant_str. rewrite <- app_assoc. destruct dot.
  - rewrite (span_app is_digit ip ((c_dot :: fp) ++ tl) Hi) by reflexivity. cbn [app].
    assert (N.eqb c_dot c_dot = true) as -> by reflexivity.
    rewrite (span_app is_digit fp tl Hf) by (destruct tl; [exact I | tauto]).
    destruct (is_nil ip && is_nil fp) eqn:En.
    + exfalso. apply Hn. destruct ip; [|discriminate]. destruct fp; [|discriminate]. auto.
    + rewrite Hpe. reflexivity.
  - rewrite (Hd eq_refl) in *. cbn [app].
    rewrite (span_app is_digit ip tl Hi) by (destruct tl; [exact I | tauto]).
    assert (is_nil ip = false) as Hnil by (destruct ip; [exfalso; apply Hn; auto | reflexivity]).
    destruct tl as [|c t].
    + rewrite Hnil. cbn [andb]. rewrite Hpe. reflexivity.
    + destruct Hh as [_ Hh]. rewrite Hh. rewrite Hnil. cbn [andb]. rewrite Hpe. reflexivity.
Qed.

Lemma fortran_number_canon sg neg ip fp dot tl eneg ep :
  sign_str sg neg -> mant_ok ip fp dot -> exp_tail tl eneg ep ->
  fortran_number (sg ++ mant_str ip fp dot ++ tl) = true.
Proof. intros. unfold fortran_number. erewrite parse_number_fwd; eauto. Qed.

Lemma short_match_spec s g1 g2 g3 g4 k :
  short_match s = Some (g1, g2, g3, g4, k) ->
  exists rest, s = g1 ++ g2 ++ g3 :: g4 ++ rest /\ k = length (g1 ++ g2 ++ g3 :: g4) /\
               forallb non_sd g2 = true /\ forallb non_sd g4 = true /\ is_sign g3 = true /\
               (g1 = [] \/ g1 = [c_plus] \/ g1 = [c_minus]).
Proof.
  unfold short_match. destruct s as [|c rest]; [discriminate|].
  destruct (is_sign c) eqn:Ec.
  - destruct (span non_sd rest) as [run1 after] eqn:Sp. destruct (span_spec _ _ _ _ Sp) as [Hr [Hrun _]].
    assert (forall r, Some ([], [], c, run1, 1 + length run1) = Some (g1, g2, g3, g4, k) -> rest = run1 ++ r ->
                      exists rest0, c :: rest = g1 ++ g2 ++ g3 :: g4 ++ rest0 /\ k = length (g1 ++ g2 ++ g3 :: g4) /\
                        forallb non_sd g2 = true /\ forallb non_sd g4 = true /\ is_sign g3 = true /\
                        (g1 = [] \/ g1 = [c_plus] \/ g1 = [c_minus])) as HB.
    { intros r H Hrr. inversion H. subst. exists r. cbn. repeat split; auto. rewrite Hrr; reflexivity. }
    destruct after as [|c2 after'].
    + intro H. apply (HB [] H). exact Hr.
    + destruct (is_sign c2) eqn:Ec2.
      * destruct (span non_sd after') as [g4' r4] eqn:Sp4. destruct (span_spec _ _ _ _ Sp4) as [Ha [Hg4 _]].
        cbn [fst]. intro H. inversion H. subst. exists r4.
        repeat split; auto.
        -- cbn [app length]. rewrite !app_length. cbn [length]. lia.
        -- destruct (sign_cases _ Ec); subst; auto.
      * intro H. apply (HB (c2 :: after') H). exact Hr.
  - destruct (span non_sd (c :: rest)) as [run after] eqn:Sp. destruct (span_spec _ _ _ _ Sp) as [Hr [Hrun _]].
    destruct after as [|c2 after']; [discriminate|]. destruct (is_sign c2) eqn:Ec2; [|discriminate].
    destruct (span non_sd after') as [g4' r4] eqn:Sp4. destruct (span_spec _ _ _ _ Sp4) as [Ha [Hg4 _]].
    cbn [fst]. intro H. inversion H. subst. exists r4. cbn [app]. rewrite Hr. repeat split; auto.
    rewrite app_length. cbn [length]. lia.
Qed.

Definition mchar (c : N) : bool := is_digit c || N.eqb c c_dot.

Lemma mant_mchar ip fp dot : mant_ok ip fp dot -> forallb mchar (mant_str ip fp dot) = true.
Proof.
  intros [Hi Hf _ _]. unfold mant_str. rewrite forallb_app. apply andb_true_iff. split.
  - revert Hi. apply forallb_impl. intros x Hx. unfold mchar. rewrite Hx. reflexivity.
  - destruct dot; [|reflexivity]. cbn [forallb]. apply andb_true_iff. split; [reflexivity|].
    revert Hf. apply forallb_impl. intros x Hx. unfold mchar. rewrite Hx. reflexivity.
Qed.

Lemma span_unique {A} (p : A -> bool) (a b a' b' : list A) :
  a ++ b = a' ++ b' -> forallb p a = true -> forallb p a' = true ->
  match b with x :: _ => p x = false | [] => True end ->
  match b' with x :: _ => p x = false | [] => True end -> a = a' /\ b = b'.
Proof.
  intros E Ha Ha' Hb Hb'. pose proof (span_app p a b Ha Hb) as S1. pose proof (span_app p a' b' Ha' Hb') as S2.
  rewrite E in S1. rewrite S1 in S2. inversion S2. auto.
Qed.

Definition sd_char (c : N) : bool := is_sign c || is_digit c.

Lemma exp_tail_chars esg eneg ep : sign_str esg eneg -> all_digits ep = true -> forallb sd_char (esg ++ ep) = true.
Proof.
  intros Hs He. rewrite forallb_app. apply andb_true_iff. split.
  - destruct Hs; reflexivity.
  - revert He. apply forallb_impl. intros x Hx. unfold sd_char. rewrite Hx. apply orb_true_r.
Qed.

Lemma replace_d_no_e l : forallb (fun c => negb (N.eqb c c_e)) (replace_d l) = true -> replace_d l = l.
Proof.
  intro H. apply replace_d_id. unfold replace_d in H. rewrite forallb_forall in H. apply forallb_forall.
  intros x Hx. specialize (H _ (in_map _ _ _ Hx)). cbn in H. destruct (is_expmark_d x); [discriminate | reflexivity].
Qed.

Lemma exp_tail_cons_inv m r eneg ep :
  exp_tail (m :: r) eneg ep ->
  (exists esg, is_expmark_e m || is_expmark_d m = true /\ sign_str esg eneg /\ all_digits ep = true /\ ep <> [] /\ r = esg ++ ep) \/
  (is_sign m = true /\ all_digits ep = true /\ ep <> [] /\ r = ep /\ eneg = N.eqb m c_minus).
Proof.
  intro H. inversion H; subst.
  - left. eexists. repeat split; eauto.
  - right. repeat split; auto.
Qed.

Lemma convert_rejects_lemma s :
  g_charset s = true -> fortran_number s = false -> convert s = None.
Proof.
  intros Hcs Hnf. destruct (convert s) as [q|] eqn:Hc; [|reflexivity]. exfalso.
  assert (fortran_number s = true) as Hyes; [|congruence]. clear Hnf.
  pose proof (charset_noUS _ Hcs) as Hus.
  unfold convert in Hc. destruct (pyfloat s) as [q0|] eqn:Hpf.
  - destruct (pyfloat_inv _ _ Hpf Hus) as [sg [neg [ip [fp [dot [tl [eneg [ep [Hs [Hsg [Hm [Ht _]]]]]]]]]]]].
    subst s. eapply fortran_number_canon; eauto.
  - destruct (str_eqb s [c_plus] || str_eqb s [c_minus]) eqn:El.
    + apply orb_true_iff in El. destruct El as [El|El]; apply str_eqb_eq in El; subst; reflexivity.
    + destruct (short_fullmatch s) as [[[[g1 g2] g3] g4]|] eqn:Hsf.
      * (* short form *)
        unfold short_fullmatch in Hsf. destruct (short_match s) as [[[[[g1' g2'] g3'] g4'] k]|] eqn:Hsm; [|discriminate].
        destruct (Nat.eqb k (length s)) eqn:Hanch; [|discriminate]. inversion Hsf. subst g1' g2' g3' g4'. clear Hsf.
        destruct (short_match_spec _ _ _ _ _ _ Hsm) as [rest [Hs [Hk [Hg2 [Hg4 [Hg3 Hg1]]]]]].
        apply Nat.eqb_eq in Hanch.
        assert (rest = []) as ->.
        { rewrite Hs in Hanch. rewrite Hk in Hanch. rewrite !app_length in Hanch. cbn in Hanch.
          rewrite !app_length in Hanch. destruct rest; [reflexivity | cbn in Hanch; lia]. }
        rewrite app_nil_r in Hs.
        set (msign := if str_eqb g1 [c_minus] then [c_minus] else []) in Hc.
        assert (noUS (msign ++ g2 ++ [c_E] ++ [g3] ++ g4)) as Hus2.
        { rewrite Hs in Hus. apply noUS_app in Hus. destruct Hus as [_ Hus]. apply noUS_app in Hus. destruct Hus as [U2 U3].
          change (g3 :: g4) with ([g3] ++ g4) in U3. apply noUS_app in U3. destruct U3 as [U3 U4].
          apply noUS_app. split; [subst msign; destruct (str_eqb g1 [c_minus]); reflexivity|].
          apply noUS_app. split; [exact U2|]. apply noUS_app. split; [reflexivity|]. apply noUS_app. split; assumption. }
        destruct (pyfloat_inv _ _ Hc Hus2) as [sg [neg [ip [fp [dot [tl [eneg [ep [Hs2 [Hsg [Hm [Ht [_ Hmk]]]]]]]]]]]]].
        (* the sign *)
        assert (exists neg1, sign_str g1 neg1) as [neg1 Hg1s].
        { destruct Hg1 as [->|[->| ->]]; eexists; constructor. }
        assert (g2 ++ c_E :: g3 :: g4 = mant_str ip fp dot ++ tl) as Hbody.
        { assert (no_sign_head (g2 ++ c_E :: g3 :: g4)) as Hnh.
          { destruct g2 as [|x g2]; [reflexivity|]. cbn in Hg2 |- *. apply andb_true_iff in Hg2. destruct Hg2 as [Hx _]. char_tac. }
          pose proof (mant_no_sign_head ip fp dot tl Hm) as Hnh2.
          assert (take_sign (msign ++ g2 ++ [c_E] ++ [g3] ++ g4) = ((if str_eqb g1 [c_minus] then true else false), g2 ++ c_E :: g3 :: g4)) as T1.
          { subst msign. destruct (str_eqb g1 [c_minus]).
            - apply (take_sign_app [c_minus] true _ SgMinus Hnh).
            - apply (take_sign_app [] false _ SgNone Hnh). }
          rewrite Hs2 in T1. rewrite (take_sign_app _ _ _ Hsg Hnh2) in T1. inversion T1. reflexivity. }
        (* the mantissa *)
        destruct (span mchar g2) as [a b] eqn:Spg. destruct (span_spec _ _ _ _ Spg) as [Hg2ab [Ha Hb]].
        assert (a = mant_str ip fp dot /\ b ++ c_E :: g3 :: g4 = tl) as [Hmant Htl].
        { apply (span_unique mchar).
          - rewrite <- Hbody. rewrite Hg2ab. rewrite <- app_assoc. reflexivity.
          - exact Ha.
          - apply mant_mchar. exact Hm.
          - destruct b as [|x b]; [reflexivity | exact Hb].
          - pose proof (exp_tail_head _ _ _ Ht) as Hh. destruct tl as [|x tl]; [exact I|]. unfold mchar. destruct Hh as [H1 H2]. rewrite H1, H2. reflexivity. }
        subst tl.
        assert (b = []) as ->.
        { destruct b as [|x b]; [reflexivity|]. exfalso. cbn [app] in Ht.
          destruct (exp_tail_cons_inv _ _ _ _ Ht) as [[esg [Hmm [Hes [Hee [Hne Heq]]]]]|[Hcc _]].
          - pose proof (exp_tail_chars esg _ _ Hes Hee) as Hch. rewrite <- Heq in Hch. rewrite forallb_app in Hch.
            apply andb_true_iff in Hch. destruct Hch as [_ Hch]. cbn in Hch. discriminate.
          - cbn in Hmk. destruct (sign_cases _ Hcc); subst; discriminate. }
        cbn [app] in Ht. rewrite app_nil_r in Hg2ab. subst g2 a.
        destruct (exp_tail_cons_inv _ _ _ _ Ht) as [[esg [Hmm [Hes [Hee [Hne Heq]]]]]|[Hcc _]]; [|discriminate].
        assert (esg = [g3] /\ ep = g4) as [-> ->].
        { destruct Hes; cbn [app] in Heq.
          - subst ep. cbn in Hee. apply andb_true_iff in Hee. destruct Hee as [Hx _]. exfalso. char_tac.
          - inversion Heq. auto.
          - inversion Heq. auto. }
        rewrite Hs. eapply fortran_number_canon; eauto. apply ETshort; auto.
      * (* D exponent *)
        destruct (existsb is_expmark_d s) eqn:Ed; [|discriminate].
        assert (noUS (replace_d s)) as Hus2.
        { unfold noUS, replace_d. rewrite forallb_forall. intros x Hx. apply in_map_iff in Hx. destruct Hx as [y [Hy Hin]].
          unfold noUS in Hus. rewrite forallb_forall in Hus. specialize (Hus _ Hin). cbn in Hus.
          destruct (is_expmark_d y); subst; [reflexivity | exact Hus]. }
        destruct (pyfloat_inv _ _ Hc Hus2) as [sg [neg [ip [fp [dot [tl [eneg [ep [Hs2 [Hsg [Hm [Ht [_ Hmk]]]]]]]]]]]]].
        unfold replace_d in Hs2. apply map_eq_app in Hs2. destruct Hs2 as [s1 [s23 [Hs [H1 H23]]]].
        apply map_eq_app in H23. destruct H23 as [s2 [s3 [Hs23 [H2 H3]]]]. subst s s23.
        fold (replace_d s1) in H1. fold (replace_d s2) in H2. fold (replace_d s3) in H3.
        assert (s1 = sg) as ->.
        { rewrite <- H1. symmetry. apply replace_d_no_e. rewrite H1. destruct Hsg; reflexivity. }
        assert (s2 = mant_str ip fp dot) as ->.
        { rewrite <- H2. symmetry. apply replace_d_no_e. rewrite H2. generalize (mant_mchar _ _ _ Hm).
          apply forallb_impl. intros x Hx. unfold mchar in Hx. char_tac. }
        destruct tl as [|m tl'].
        -- destruct s3; [|discriminate]. eapply fortran_number_canon; eauto.
        -- destruct (exp_tail_cons_inv _ _ _ _ Ht) as [[esg [Hmm [Hes [Hee [Hne Heq]]]]]|[Hcc _]].
           ++ destruct s3 as [|m0 s4]; [discriminate|]. unfold replace_d in H3. cbn [map] in H3. inversion H3 as [[Hm0 H4]].
              fold (replace_d s4) in H4. subst tl'.
              assert (s4 = esg ++ ep) as ->.
              { rewrite <- H4. symmetry. apply replace_d_no_e. rewrite H4. generalize (exp_tail_chars esg _ _ Hes Hee).
                apply forallb_impl. intros x Hx. unfold sd_char in Hx. char_tac. }
              eapply fortran_number_canon; eauto. apply ETmark; eauto.
              destruct (is_expmark_d m0) eqn:Em0; [apply orb_true_r|]. subst m. cbn in Hmk. rewrite Hmk. reflexivity.
           ++ cbn in Hmk. destruct (sign_cases _ Hcc); subst; discriminate.
Qed.

(* a full match of the short-form pattern contains no D *)
Lemma short_fullmatch_no_d s g : short_fullmatch s = Some g -> existsb is_expmark_d s = false.
Proof.
  unfold short_fullmatch. destruct (short_match s) as [[[[[g1 g2] g3] g4] k]|] eqn:Hsm; [|discriminate].
  destruct (Nat.eqb k (length s)) eqn:Hk; [|discriminate]. intros _. apply Nat.eqb_eq in Hk.
  destruct (short_match_spec _ _ _ _ _ _ Hsm) as [rest [Hs [Hkk [Hg2 [Hg4 [Hg3 Hg1]]]]]].
  assert (rest = []) as ->.
  { rewrite Hs in Hk. rewrite Hkk in Hk. rewrite !app_length in Hk. cbn in Hk. rewrite !app_length in Hk.
    destruct rest; [reflexivity | cbn in Hk; lia]. }
  rewrite app_nil_r in Hs. rewrite Hs. rewrite !existsb_app. cbn [existsb]. apply not_true_is_false. intro F.
  assert (forall l, forallb non_sd l = true -> existsb is_expmark_d l = false) as Hn.
  { intros l Hl. apply not_true_is_false. intro T. apply existsb_exists in T. destruct T as [x [Hx Hd]].
    rewrite forallb_forall in Hl. specialize (Hl x Hx). char_tac. }
  rewrite (Hn g2 Hg2), (Hn g4 Hg4) in F.
  assert (existsb is_expmark_d g1 = false) as E1 by (destruct Hg1 as [->|[->| ->]]; reflexivity).
  rewrite E1 in F. destruct (sign_cases _ Hg3); subst g3; discriminate.
Qed.

(* ---- number_forms ------------------------------------------------------------------------------------ *)
Lemma number_forms_lemma s :
  fortran_number s = true -> convert s = Some (value s).
Proof.
  unfold fortran_number, value. destruct (parse_number s) as [f|] eqn:P; [|discriminate]. intros _.
  destruct f as [|neg ip fp eneg ep].
  - (* lone sign *)
    unfold parse_number in P. destruct (str_eqb s [c_plus] || str_eqb s [c_minus]) eqn:El.
    + apply orb_true_iff in El. destruct El as [El|El]; apply str_eqb_eq in El; subst; reflexivity.
    + destruct (take_sign s) as [a b]. destruct (span is_digit b) as [c d].
      destruct d as [|x d]; [|destruct (N.eqb x c_dot); [destruct (span is_digit d)|]];
        match type of P with (if ?b then _ else _) = _ => destruct b end; try discriminate;
        match type of P with match ?e with _ => _ end = _ => destruct e as [[? ?]|] end; discriminate.
  - destruct (parse_number_inv _ _ _ _ _ _ P) as [sg [dot [tl [Hs [Hsg [Hm [Ht Hlone]]]]]]].
    cbn [numform_value]. unfold convert.
    pose proof (pyfloat_canon sg neg ip fp dot tl Hsg Hm (exp_tail_tail_ok _ _ _ dot Ht)) as Hpf.
    rewrite <- Hs in Hpf. rewrite Hpf.
    destruct Ht as [|m esg eneg ep Hmk Hes Hep Hne|c ep Hc Hep Hne].
    + reflexivity.
    + destruct (is_expmark_e m) eqn:Eme.
      * rewrite (pyfloat_exp_e neg ip fp m esg eneg ep Eme Hes Hep Hne). reflexivity.
      * (* D exponent, signed mantissa or not *)
        cbn [orb] in Hmk. rewrite (pyfloat_exp_other _ _ _ _ _ Eme). rewrite Hlone.
        assert (existsb is_expmark_d s = true) as Hd.
        { subst s. rewrite !existsb_app. cbn [existsb]. rewrite Hmk. rewrite !orb_true_r. reflexivity. }
        assert (short_fullmatch s = None) as ->.
        { destruct (short_fullmatch s) as [g|] eqn:E; [|reflexivity]. rewrite (short_fullmatch_no_d _ _ E) in Hd. discriminate. }
        rewrite Hd.
        assert (replace_d s = sg ++ mant_str ip fp dot ++ c_e :: esg ++ ep) as ->.
        { subst s. unfold replace_d. rewrite !map_app. cbn [map]. rewrite Hmk. rewrite map_app.
          fold (replace_d sg). fold (replace_d (mant_str ip fp dot)). fold (replace_d esg). fold (replace_d ep).
          rewrite (replace_d_id sg), (replace_d_id (mant_str ip fp dot)), (replace_d_id esg), (replace_d_id ep); auto.
          - revert Hep. apply forallb_impl. intros x Hx. char_tac.
          - apply (sign_str_no_d _ _ Hes).
          - generalize (mant_non_sd _ _ _ Hm). apply forallb_impl. intros x Hx. char_tac.
          - apply (sign_str_no_d _ _ Hsg). }
        pose proof (pyfloat_canon sg neg ip fp dot (c_e :: esg ++ ep) Hsg Hm) as Hpf2.
        rewrite Hpf2 by (cbn; split; [reflexivity | intro; reflexivity]).
        rewrite (pyfloat_exp_e neg ip fp c_e esg eneg ep eq_refl Hes Hep Hne). reflexivity.
    + (* short form *)
      assert (is_expmark_e c = false) as Ece by (destruct (sign_cases _ Hc); subst; reflexivity).
      rewrite (pyfloat_exp_other _ _ _ _ _ Ece). rewrite Hlone.
      destruct (mant_head ip fp dot (c :: ep) Hm) as [c0 [r0 [Hc0 [Hns Hnd]]]].
      assert (span non_sd (mant_str ip fp dot ++ c :: ep) = (mant_str ip fp dot, c :: ep)) as Hspan.
      { apply span_app; [apply (mant_non_sd _ _ _ Hm)|]. destruct (sign_cases _ Hc); subst; reflexivity. }
      assert (sign_str [c] (N.eqb c c_minus)) as Hcs by (destruct (sign_cases _ Hc); subst; constructor).
      pose proof (pyfloat_exp_e neg ip fp c_E [c] (N.eqb c c_minus) ep eq_refl Hcs Hep Hne) as Hfin.
      cbn [app] in Hfin.
      destruct Hsg; cbn [app] in Hs.
      * assert (short_fullmatch s = Some ([], mant_str ip fp dot, c, ep)) as ->.
        { unfold short_fullmatch.
          assert (short_match s = Some ([], mant_str ip fp dot, c, ep, 1 + length (mant_str ip fp dot) + length ep)) as ->.
          { subst s. rewrite Hc0. unfold short_match. rewrite Hns. rewrite <- Hc0. rewrite Hspan. rewrite Hc.
            rewrite (span_non_sd_digits_end _ Hep). reflexivity. }
          assert (Nat.eqb (1 + length (mant_str ip fp dot) + length ep) (length s) = true) as ->; [|reflexivity].
          apply Nat.eqb_eq. subst s. rewrite app_length. cbn [length]. lia. }
        cbn [str_eqb list_eqb app].
        pose proof (pyfloat_canon [] false ip fp dot (c_E :: c :: ep) SgNone Hm) as Hpf2.
        cbn [app] in Hpf2. rewrite Hpf2 by (cbn; split; [reflexivity | intro; reflexivity]). exact Hfin.
      * assert (short_fullmatch s = Some ([c_plus], mant_str ip fp dot, c, ep)) as ->.
        { unfold short_fullmatch.
          assert (short_match s = Some ([c_plus], mant_str ip fp dot, c, ep, 2 + length (mant_str ip fp dot) + length ep)) as ->.
          { subst s. unfold short_match. assert (is_sign c_plus = true) as -> by reflexivity.
            rewrite Hspan. rewrite Hc. rewrite (span_non_sd_digits_end _ Hep). reflexivity. }
          assert (Nat.eqb (2 + length (mant_str ip fp dot) + length ep) (length s) = true) as ->; [|reflexivity].
          apply Nat.eqb_eq. subst s. cbn [length]. rewrite app_length. cbn [length]. lia. }
        assert (str_eqb [c_plus] [c_minus] = false) as -> by reflexivity. cbn [app].
        pose proof (pyfloat_canon [] false ip fp dot (c_E :: c :: ep) SgNone Hm) as Hpf2.
        cbn [app] in Hpf2. rewrite Hpf2 by (cbn; split; [reflexivity | intro; reflexivity]). exact Hfin.
      * assert (short_fullmatch s = Some ([c_minus], mant_str ip fp dot, c, ep)) as ->.
        { unfold short_fullmatch.
          assert (short_match s = Some ([c_minus], mant_str ip fp dot, c, ep, 2 + length (mant_str ip fp dot) + length ep)) as ->.
          { subst s. unfold short_match. assert (is_sign c_minus = true) as -> by reflexivity.
            rewrite Hspan. rewrite Hc. rewrite (span_non_sd_digits_end _ Hep). reflexivity. }
          assert (Nat.eqb (2 + length (mant_str ip fp dot) + length ep) (length s) = true) as ->; [|reflexivity].
          apply Nat.eqb_eq. subst s. cbn [length]. rewrite app_length. cbn [length]. lia. }
        assert (str_eqb [c_minus] [c_minus] = true) as -> by reflexivity.
        pose proof (pyfloat_canon [c_minus] true ip fp dot (c_E :: c :: ep) SgMinus Hm) as Hpf2.
        cbn [app] in Hpf2. cbn [app]. rewrite Hpf2 by (cbn; split; [reflexivity | intro; reflexivity]). exact Hfin.
Qed.


(* ---- split_spec ------------------------------------------------------------------------------------- *)
Definition is_spc (c : N) : bool := N.eqb c_sp c.

Lemma span_fst_snd {A} (p : A -> bool) (l : list A) : l = fst (span p l) ++ snd (span p l).
Proof. destruct (span p l) as [a b] eqn:E. apply span_spec in E. cbn. tauto. Qed.

Lemma skipn_span_len {A} (p : A -> bool) (l : list A) : skipn (length (fst (span p l))) l = snd (span p l).
Proof.
  induction l as [|c l IH]; [reflexivity|]. cbn [span]. destruct (p c) eqn:E; [|reflexivity].
  destruct (span p l) as [a b]. cbn [fst snd length skipn] in *. exact IH.
Qed.
Lemma skipn_count_sp s : skipn (count_sp s) s = snd (span is_spc s).
Proof. unfold count_sp. change (N.eqb c_sp) with is_spc. apply skipn_span_len. Qed.

Lemma skipn_len_app {A} (a b : list A) k : skipn (length a + k) (a ++ b) = skipn k b.
Proof. induction a as [|x a IH]; [reflexivity|]. cbn. exact IH. Qed.

Lemma count_sp_span s a b : span is_spc s = (a, b) -> count_sp s = length a.
Proof. unfold count_sp. change (N.eqb c_sp) with is_spc. intros ->. reflexivity. Qed.

Lemma spaces_repeat l : forallb is_spc l = true -> l = repeat c_sp (length l).
Proof.
  induction l as [|c l IH]; cbn [forallb length repeat]; [reflexivity|]. intro H. apply andb_true_iff in H. destruct H as [Hc Hl].
  unfold is_spc in Hc. apply N.eqb_eq in Hc. subst c. f_equal. apply IH. exact Hl.
Qed.

(* the reference machine on runs of spaces *)
Lemma go_spaces_soft k u : spec_go SSoft [] (repeat c_sp k ++ u) = spec_go SSoft [] u.
Proof. induction k as [|k IH]; cbn; [reflexivity|]. exact IH. Qed.
Lemma go_spaces_hard k u : spec_go SHard [] (repeat c_sp k ++ u) = spec_go SHard [] u.
Proof. induction k as [|k IH]; cbn; [reflexivity|]. exact IH. Qed.
Lemma go_spaces_start k u : spec_go SStart [] (repeat c_sp k ++ u) = spec_go SStart [] u.
Proof. induction k as [|k IH]; cbn; [reflexivity|]. exact IH. Qed.
Lemma go_spaces_item k cur u : spec_go SItem cur (repeat c_sp (S k) ++ u) = rev cur :: spec_go SSoft [] u.
Proof. cbn. f_equal. apply go_spaces_soft. Qed.

Definition head_not_sp (r : str) : Prop := match r with c :: _ => N.eqb c c_sp = false | [] => True end.

Lemma go_hard_as_item r : head_not_sp r -> spec_go SHard [] r = spec_go SItem [] r.
Proof. destruct r as [|c r]; [reflexivity|]. cbn. intro H. rewrite H. destruct (is_hard c); reflexivity. Qed.
Lemma go_start_as_item r : head_not_sp r -> r <> [] -> spec_go SStart [] r = spec_go SItem [] r.
Proof. destruct r as [|c r]; [congruence|]. cbn. intros H _. rewrite H. destruct (is_hard c); reflexivity. Qed.
Lemma go_soft_as_item c r : N.eqb c c_sp = false -> is_hard c = false -> spec_go SSoft [] (c :: r) = spec_go SItem [] (c :: r).
Proof. intros H1 H2. cbn. rewrite H1, H2. reflexivity. Qed.

(* trailing spaces are ignored by the reference machine *)
Lemma go_only_spaces st cur k : spec_go st cur (repeat c_sp k) = spec_go st cur [].
Proof.
  assert (forall j c0, spec_go SSoft c0 (repeat c_sp j) = []) as HS by (induction j; intro; cbn; auto).
  assert (forall j c0, spec_go SHard c0 (repeat c_sp j) = [[]]) as HH by (induction j; intro; cbn; auto).
  assert (forall j c0, spec_go SStart c0 (repeat c_sp j) = []) as HT by (induction j; intro; cbn; auto).
  destruct st; cbn [spec_go]; auto. destruct k; [reflexivity|]. cbn. rewrite HS. reflexivity.
Qed.

Lemma go_trailing st cur s k : spec_go st cur (s ++ repeat c_sp k) = spec_go st cur s.
Proof.
  revert st cur. induction s as [|c s IH]; intros st cur.
  - cbn [app]. apply go_only_spaces.
  - cbn [app spec_go]. destruct (N.eqb c c_sp); [destruct st; rewrite ?IH; reflexivity|].
    destruct (is_hard c); destruct st; rewrite ?IH; reflexivity.
Qed.

(* the model: skipping *)
Lemma resplit_skip k cur s : k <= length s -> resplit_aux k cur s = resplit_aux 0 cur (skipn k s).
Proof.
  revert s. induction k as [|k IH]; intros s H; [reflexivity|].
  destruct s as [|c s]; [cbn in H; lia|]. cbn [resplit_aux skipn]. apply IH. cbn in H. lia.
Qed.

Definition no_trail (t : str) : Prop := match rev t with c :: _ => N.eqb c c_sp = false | [] => True end.

Lemma no_trail_app a b : b <> [] -> no_trail (a ++ b) -> no_trail b.
Proof.
  unfold no_trail. rewrite rev_app_distr. intro Hb. destruct (rev b) as [|x rb] eqn:E.
  - apply (f_equal (@rev N)) in E. rewrite rev_involutive in E. cbn in E. contradiction.
  - cbn. auto.
Qed.

Lemma no_trail_tl c t : no_trail (c :: t) -> no_trail t.
Proof. destruct t as [|d t]; [intros; exact I|]. apply (no_trail_app [c] (d :: t)). discriminate. Qed.

Lemma no_trail_spaces k : 0 < k -> ~ no_trail (repeat c_sp k).
Proof.
  intros Hk H. unfold no_trail in H. destruct k; [lia|].
  replace (repeat c_sp (S k)) with (repeat c_sp k ++ [c_sp]) in H.
  - rewrite rev_app_distr in H. cbn in H. discriminate.
  - clear. induction k; cbn; [reflexivity|]. f_equal. exact IHk.
Qed.

Lemma split_main n : forall t cur, length t <= n -> no_trail t -> resplit_aux 0 cur t = spec_go SItem cur t.
Proof.
  induction n as [|n IH]; intros t cur Hlen Hnt.
  - destruct t; [reflexivity | cbn in Hlen; lia].
  - destruct t as [|c tl]; [reflexivity|].
    cbn [resplit_aux].
    pose proof (span_fst_snd is_spc (c :: tl)) as Hdec.
    destruct (span is_spc (c :: tl)) as [sps rest0] eqn:Sp. cbn [fst snd] in Hdec.
    destruct (span_spec _ _ _ _ Sp) as [_ [Hsps Hrest0]].
    pose proof (spaces_repeat _ Hsps) as Hrep.
    assert (count_sp (c :: tl) = length sps) as Hcnt by (apply (count_sp_span _ _ _ Sp)).
    assert (skipn (count_sp (c :: tl)) (c :: tl) = rest0) as Hskip by (rewrite skipn_count_sp, Sp; reflexivity).
    unfold sep_len. rewrite Hskip, Hcnt.
    destruct rest0 as [|h rest1].
    + (* only spaces: impossible without trailing space *)
      exfalso. rewrite app_nil_r in Hdec. rewrite Hdec, Hrep in Hnt. apply (no_trail_spaces (length sps)); [|exact Hnt].
      rewrite <- Hdec. cbn. lia.
    + destruct (N.eqb h c_comma || N.eqb h c_tab) eqn:Eh.
      * (* hard separator *)
        pose proof (span_fst_snd is_spc rest1) as Hdec1.
        destruct (span is_spc rest1) as [sps1 r] eqn:Sp1. cbn [fst snd] in Hdec1.
        destruct (span_spec _ _ _ _ Sp1) as [_ [Hsps1 Hr]]. pose proof (spaces_repeat _ Hsps1) as Hrep1.
        assert (count_sp rest1 = length sps1) as Hcnt1 by (apply (count_sp_span _ _ _ Sp1)).
        rewrite Hcnt1. replace (length sps + 1 + length sps1) with (S (length sps + length sps1)) by lia.
        assert (c :: tl = sps ++ h :: sps1 ++ r) as Hall by (rewrite Hdec, Hdec1; reflexivity).
        assert (tl = skipn 1 (sps ++ h :: sps1 ++ r)) as Htl by (rewrite <- Hall; reflexivity).
        assert (head_not_sp r) as Hhr.
        { destruct r as [|x r]; [exact I|]. cbn. unfold is_spc in Hr. rewrite N.eqb_sym. exact Hr. }
        assert (length sps + length sps1 <= length tl) as Hle.
        { apply (f_equal (@length N)) in Hall. cbn in Hall. rewrite !app_length in Hall. cbn in Hall. rewrite app_length in Hall. lia. }
        rewrite (resplit_skip _ _ _ Hle).
        assert (skipn (length sps + length sps1) tl = r) as Hsk.
        { change (skipn (length sps + length sps1) tl) with (skipn (S (length sps + length sps1)) (c :: tl)).
          rewrite Hall. replace (S (length sps + length sps1)) with (length sps + (length [h] + (length sps1 + 0))) by (cbn; lia).
          rewrite skipn_len_app. change (h :: sps1 ++ r) with ([h] ++ sps1 ++ r). rewrite skipn_len_app, skipn_len_app. reflexivity. }
        rewrite Hsk.
        assert (no_trail r) as Hntr.
        { destruct r as [|x r']; [exact I|]. rewrite Hall in Hnt.
          replace (sps ++ h :: sps1 ++ x :: r') with ((sps ++ h :: sps1) ++ x :: r') in Hnt by (rewrite <- app_assoc; reflexivity).
          apply (no_trail_app (sps ++ h :: sps1) (x :: r')); [discriminate | exact Hnt]. }
        assert (length r <= n) as Hlr.
        { apply (f_equal (@length N)) in Hall. cbn in Hall. rewrite !app_length in Hall. cbn in Hall. rewrite app_length in Hall. cbn in Hlen. lia. }
        rewrite (IH r [] Hlr Hntr).
        (* reference side *)
        rewrite Hall. rewrite Hrep, Hrep1.
        assert (is_hard h = true) as Hhard by exact Eh.
        assert (N.eqb h c_sp = false) as Hhsp by char_tac.
        destruct (length sps) as [|k].
        -- cbn [repeat app spec_go]. rewrite Hhsp, Hhard. f_equal. rewrite go_spaces_hard. symmetry. apply go_hard_as_item. exact Hhr.
        -- rewrite go_spaces_item. f_equal. cbn [spec_go]. rewrite Hhsp, Hhard. rewrite go_spaces_hard. symmetry. apply go_hard_as_item. exact Hhr.
      * (* soft separator or no separator *)
        destruct (length sps) as [|k] eqn:Ek.
        -- (* c is an item character *)
           destruct sps; [|discriminate]. cbn [app] in Hdec. inversion Hdec. subst h rest1.
           assert (N.eqb c c_sp = false) as Hcsp by (unfold is_spc in Hrest0; rewrite N.eqb_sym; exact Hrest0).
           cbn [spec_go]. rewrite Hcsp. unfold is_hard. rewrite Eh.
           apply IH; [cbn in Hlen; lia | apply (no_trail_tl _ _ Hnt)].
        -- assert (c :: tl = repeat c_sp (S k) ++ h :: rest1) as Hall by (rewrite Hdec; rewrite Hrep at 1; try rewrite Ek; reflexivity).
           assert (tl = repeat c_sp k ++ h :: rest1) as Htl by (cbn in Hall; inversion Hall; reflexivity).
           assert (k <= length tl) as Hle by (rewrite Htl, app_length, repeat_length; lia).
           rewrite (resplit_skip _ _ _ Hle).
           assert (skipn k tl = h :: rest1) as Hsk.
           { rewrite Htl. replace k with (length (repeat c_sp k) + 0) at 1 by (rewrite repeat_length; lia).
             rewrite skipn_len_app. reflexivity. }
           rewrite Hsk.
           assert (no_trail (h :: rest1)) as Hntr.
           { rewrite Hall in Hnt. apply (no_trail_app (repeat c_sp (S k)) (h :: rest1)); [discriminate | exact Hnt]. }
           assert (length (h :: rest1) <= n) as Hlr.
           { apply (f_equal (@length N)) in Hall. rewrite app_length, repeat_length in Hall. cbn in Hall, Hlen |- *. lia. }
           rewrite (IH _ [] Hlr Hntr).
           rewrite Hall. rewrite go_spaces_item. f_equal. symmetry.
           apply go_soft_as_item; [unfold is_spc in Hrest0; rewrite N.eqb_sym; exact Hrest0 | exact Eh].
Qed.

Definition strip_sp (s : str) : str := rev (dropwhile is_spc (rev (dropwhile is_spc s))).

Lemma dropwhile_decomp l : exists k, l = repeat c_sp k ++ dropwhile is_spc l.
Proof.
  induction l as [|c l [k IH]]; [exists 0; reflexivity|]. cbn [dropwhile]. destruct (is_spc c) eqn:E.
  - exists (S k). unfold is_spc in E. apply N.eqb_eq in E. subst c. cbn. f_equal. exact IH.
  - exists 0. reflexivity.
Qed.

Lemma dropwhile_head {A} (p : A -> bool) l : match dropwhile p l with c :: _ => p c = false | [] => True end.
Proof. induction l as [|c l IH]; cbn; [exact I|]. destruct (p c) eqn:E; [exact IH | exact E]. Qed.

Lemma strip_r_decomp m : exists j, m = rev (dropwhile is_spc (rev m)) ++ repeat c_sp j.
Proof.
  destruct (dropwhile_decomp (rev m)) as [j H]. exists j.
  apply (f_equal (@rev N)) in H. rewrite rev_involutive, rev_app_distr in H. rewrite H at 1. f_equal.
  clear. induction j; cbn; [reflexivity|]. rewrite IHj. clear. induction j; cbn; [reflexivity|]. f_equal. exact IHj.
Qed.

Lemma dw_pyspace l :
  forallb row_char l = true ->
  match dropwhile is_spc l with c :: _ => N.eqb c c_tab = false | [] => True end ->
  dropwhile is_pyspace l = dropwhile is_spc l.
Proof.
  induction l as [|c l IH]; [reflexivity|]. cbn [forallb dropwhile]. intros H1 H2. apply andb_true_iff in H1. destruct H1 as [Hc Hl].
  destruct (is_spc c) eqn:E.
  - unfold is_spc in E. apply N.eqb_eq in E. subst c. cbn [is_pyspace]. assert (is_pyspace c_sp = true) as -> by reflexivity.
    apply IH; assumption.
  - assert (is_pyspace c = false) as ->; [|reflexivity].
    unfold row_char in Hc. unfold is_spc in E. rewrite (N.eqb_sym c c_sp), E in Hc. rewrite H2 in Hc.
    rewrite !orb_false_r in Hc. apply negb_true_iff. exact Hc.
Qed.

Lemma forallb_rev {A} (p : A -> bool) l : forallb p (rev l) = forallb p l.
Proof.
  induction l as [|c l IH]; [reflexivity|]. cbn. rewrite forallb_app, IH. cbn. rewrite andb_true_r. apply andb_comm.
Qed.

Lemma forallb_dropwhile {A} (p q : A -> bool) l : forallb p l = true -> forallb p (dropwhile q l) = true.
Proof.
  induction l as [|c l IH]; [auto|]. cbn. intro H. apply andb_true_iff in H. destruct H as [H1 H2].
  destruct (q c); [apply IH; exact H2 | cbn; rewrite H1, H2; reflexivity].
Qed.

Lemma split_spec_lemma row : g_row row = true -> resplit (pystrip row) = spec_items row.
Proof.
  unfold g_row. intro H. apply andb_true_iff in H. destruct H as [H Hedge]. apply andb_true_iff in H. destruct H as [Hchars Hnb].
  apply negb_true_iff in Hedge. apply negb_true_iff in Hnb. unfold edge_tab in Hedge. apply orb_false_iff in Hedge.
  change (fun c : N => N.eqb c_sp c) with is_spc in Hedge. destruct Hedge as [He1 He2].
  set (m := dropwhile is_spc row) in *.
  assert (pystrip row = strip_sp row) as Hstrip.
  { unfold pystrip, strip_sp. rewrite (dw_pyspace row Hchars) by (fold m; destruct m; [exact I | exact He1]). fold m.
    rewrite (dw_pyspace (rev m)); [reflexivity| |].
    - rewrite forallb_rev. apply forallb_dropwhile. exact Hchars.
    - destruct (dropwhile is_spc (rev m)); [exact I | exact He2]. }
  rewrite Hstrip. unfold strip_sp. fold m. set (t := rev (dropwhile is_spc (rev m))).
  destruct (dropwhile_decomp row) as [k Hk]. fold m in Hk. destruct (strip_r_decomp m) as [j Hj]. fold t in Hj.
  assert (t <> []) as Htne.
  { intro E. rewrite E in Hj. cbn in Hj. rewrite Hj in Hk. rewrite Hk in Hnb.
    rewrite forallb_app in Hnb. apply andb_false_iff in Hnb. destruct Hnb as [Hnb|Hnb].
    - clear -Hnb. induction k; cbn in Hnb; [discriminate|auto].
    - clear -Hnb. induction j; cbn in Hnb; [discriminate|auto]. }
  assert (head_not_sp t) as Hht.
  { pose proof (dropwhile_head is_spc row) as Hh. fold m in Hh. rewrite Hj in Hh. destruct t as [|x t']; [exact I|].
    cbn in Hh |- *. unfold is_spc in Hh. rewrite N.eqb_sym. exact Hh. }
  assert (no_trail t) as Hnt.
  { unfold no_trail, t. rewrite rev_involutive. pose proof (dropwhile_head is_spc (rev m)) as Hh.
    destruct (dropwhile is_spc (rev m)); [exact I|]. unfold is_spc in Hh. rewrite N.eqb_sym. exact Hh. }
  unfold spec_items. rewrite Hk. rewrite go_spaces_start. rewrite Hj. rewrite go_trailing.
  rewrite (go_start_as_item t Hht Htne). unfold resplit. apply (split_main (length t)); [lia | exact Hnt].
Qed.

(* ---- pad_strip ---------------------------------------------------------------------------------------- *)
Lemma firstn_app_le {A} (a b : list A) n : n <= length a -> firstn n (a ++ b) = firstn n a.
Proof. intro H. rewrite firstn_app. replace (n - length a) with 0 by lia. cbn. apply app_nil_r. Qed.

Lemma firstn_app_ge {A} (a b : list A) n : length a <= n -> firstn n (a ++ b) = a ++ firstn (n - length a) b.
Proof. intro H. rewrite firstn_app. rewrite firstn_all2 by lia. reflexivity. Qed.

Lemma firstn_repeat {A} (x : A) n k : n <= k -> firstn n (repeat x k) = repeat x n.
Proof. revert k. induction n as [|n IH]; intros k H; [reflexivity|]. destruct k; [lia|]. cbn. f_equal. apply IH. lia. Qed.

Lemma map_repeat {A B} (f : A -> B) x n : map f (repeat x n) = repeat (f x) n.
Proof. induction n; cbn; [reflexivity|]. f_equal. assumption. Qed.

Lemma firstn_firstn_le {A} (l : list A) n w : n <= w -> firstn n (firstn w l) = firstn n l.
Proof. intro H. rewrite firstn_firstn. rewrite Nat.min_l by lia. reflexivity. Qed.

Lemma firstn_pad {A} (a : list A) (x : A) n k1 k2 : n <= length a + k1 -> n <= length a + k2 ->
  firstn n (a ++ repeat x k1) = firstn n (a ++ repeat x k2).
Proof.
  intros H1 H2. destruct (le_lt_dec n (length a)) as [Hle|Hgt].
  - rewrite !firstn_app_le by exact Hle. reflexivity.
  - rewrite !firstn_app_ge by lia. rewrite !firstn_repeat by lia. reflexivity.
Qed.

(* a row of the frame: cut/padded to the width w of the first row, then to the n columns of $INPUT *)
Definition mshape (w n : nat) (r : list str) : list (option str) := firstn n (shape w r) ++ repeat None (n - w).

Lemma pad_strip_row n w r : Nat.min (length r) n <= w -> mshape w n r = spec_shape n r.
Proof.
  intro Hmin. unfold mshape, shape, spec_shape.
  assert (length (map Some r) = length r) as Hl by apply (map_length (@Some str)).
  destruct (le_lt_dec w n) as [Hwn|Hnw].
  - rewrite (firstn_all2 (n := n)) by (rewrite firstn_length, app_length, repeat_length; lia).
    destruct (le_lt_dec (length r) w) as [Hle|Hgt].
    + rewrite (firstn_app_ge (map Some r) (repeat None w) w) by lia.
      rewrite (firstn_app_ge (map Some r) (repeat None n) n) by lia. rewrite Hl.
      rewrite !firstn_repeat by lia. rewrite <- app_assoc. f_equal. rewrite <- repeat_app. f_equal. lia.
    + assert (n = w) as -> by lia. rewrite Nat.sub_diag. cbn [repeat]. apply app_nil_r.
  - replace (n - w) with 0 by lia. cbn [repeat]. rewrite app_nil_r. rewrite firstn_firstn_le by lia.
    apply firstn_pad; rewrite Hl; lia.
Qed.

Lemma length_spec_shape n r : length (spec_shape n r) = n.
Proof. unfold spec_shape. rewrite firstn_length, app_length, map_length, repeat_length. lia. Qed.

Lemma pad_strip_lemma n rows fr :
  frame n rows = Ok fr ->
  forallb (fun r => Nat.min (length r) n <=? length (hd [] rows)) rows = true ->
  fr = map (spec_shape n) rows /\ Forall (fun r => length r = n) fr.
Proof.
  intros Hfr Hall. unfold frame in Hfr. destruct rows as [|r0 rest]; [discriminate|].
  cbn [hd] in Hall. set (w := length r0) in *. inversion Hfr. subst fr. clear Hfr. rewrite forallb_forall in Hall.
  assert (map (fun r : list str => firstn n (shape w r) ++ repeat None (n - w)) (r0 :: rest) = map (spec_shape n) (r0 :: rest)) as E.
  { apply map_ext_in. intros r Hr. apply (pad_strip_row n w r). apply Nat.leb_le. apply Hall. exact Hr. }
  split; [exact E|]. apply Forall_forall. intros x Hx.
  change (In x (map (fun r : list str => firstn n (shape w r) ++ repeat None (n - w)) (r0 :: rest))) in Hx. rewrite E in Hx.
  apply in_map_iff in Hx. destruct Hx as [r [<- _]]. apply length_spec_shape.
Qed.

(* a wider first row is cut to $INPUT (c9e4304): the frame always exists when there is a row *)
Lemma frame_total_lemma n r0 rest : exists fr, frame n (r0 :: rest) = Ok fr /\ length fr = S (length rest).
Proof. unfold frame. eexists. split; [reflexivity|]. cbn. rewrite map_length. reflexivity. Qed.

(* ---- filters_in_order ----------------------------------------------------------------------------------- *)
Definition only_err {A} (e0 : err) (p : A -> res bool) : Prop := forall x e, p x = Err e -> e = e0.

Lemma filterM_pure {A} (b : A -> bool) l : filterM (fun x => Ok (b x)) l = Ok (filter b l).
Proof. induction l as [|x l IH]; [reflexivity|]. cbn. rewrite IH. reflexivity. Qed.

Lemma filterM_compose {A} e0 (p q : A -> res bool) l :
  only_err e0 p -> only_err e0 q ->
  bind (filterM p l) (filterM q) =
  filterM (fun x => match p x with Err e => Err e | Ok false => Ok false | Ok true => q x end) l.
Proof.
  intros Hp Hq. induction l as [|x l IH]; [reflexivity|]. cbn [filterM].
  destruct (p x) as [b|e] eqn:Px; [|reflexivity].
  destruct (filterM p l) as [r|e1] eqn:Fp.
  - cbn [bind] in IH |- *. destruct b.
    + cbn [filterM]. destruct (q x) as [b2|e2]; [|reflexivity]. rewrite <- IH. reflexivity.
    + rewrite <- IH. destruct (filterM q r); reflexivity.
  - cbn [bind] in IH |- *. rewrite <- IH. pose proof (Hp_all := Hp).
    assert (e1 = e0) as ->.
    { clear -Fp Hp. revert e1 Fp. induction l as [|y l IHl]; [discriminate|]. cbn. intros e1.
      destruct (p y) eqn:Py; [|intro H; inversion H; subst; eapply Hp; eauto].
      destruct (filterM p l); [discriminate|]. intro H. inversion H. subst. apply IHl. reflexivity. }
    destruct b; [|reflexivity]. destruct (q x) as [b2|e2] eqn:Qx; [reflexivity|]. rewrite (Hq _ _ Qx). reflexivity.
Qed.

Lemma convert_item_err nullstr mdt x e : convert_item nullstr mdt x = Err e -> e = DatasetError.
Proof.
  unfold convert_item. destruct (24 <? _); [intro H; inversion H; reflexivity|].
  destruct (str_eqb _ mdt); [discriminate|]. destruct (convert _); [discriminate|]. intro H. inversion H. reflexivity.
Qed.

Lemma filter_get_err nullstr mdt names syn ign f get e :
  filters_valid names syn [f] = true ->
  filter_get (convert_item nullstr mdt) names syn ign f get = Err e -> e = DatasetError.
Proof.
  unfold filters_valid, filter_get, filter_kind. cbn [forallb]. rewrite andb_true_r. intro Hv. apply andb_true_iff in Hv. destruct Hv as [Hi He].
  destruct (index_of (filter_column syn f) names) as [j|]; [|discriminate].
  destruct (match f_op f with
            | Some t => match op_of_text t with Some tok => op_table tok | None => (CEq, KStr) end
            | None => (CEq, KStr) end) as [op kind] eqn:Eop.
  assert (kind = match f_op f with Some t => match op_of_text t with Some tok => snd (op_table tok) | None => KStr end | None => KStr end) as Hk.
  { destruct (f_op f); [destruct (op_of_text _)|]; inversion Eop; subst; try reflexivity. rewrite H0. reflexivity. }
  destruct kind; [discriminate|].
  destruct (convert_item nullstr mdt (get j)) eqn:Ec; [|intro H; inversion H; subst; eapply convert_item_err; eauto].
  rewrite <- Hk in He. cbn in He. destruct (pyfloat (unquote (f_expr f))); [discriminate | discriminate].
Qed.

Lemma filters_valid_cons names syn f fs :
  filters_valid names syn (f :: fs) = true <-> filters_valid names syn [f] = true /\ filters_valid names syn fs = true.
Proof. unfold filters_valid. cbn [forallb]. rewrite andb_true_r. apply andb_true_iff. Qed.

Lemma filters_get_err nullstr mdt names syn ign fs get e :
  filters_valid names syn fs = true ->
  filters_get (convert_item nullstr mdt) names syn ign fs get = Err e -> e = DatasetError.
Proof.
  induction fs as [|f fs IH]; [discriminate|]. intro Hv. apply filters_valid_cons in Hv. destruct Hv as [Hf Hfs].
  cbn [filters_get]. destruct (filter_get _ names syn ign f get) as [[|]|e1] eqn:E.
  - apply IH. exact Hfs.
  - discriminate.
  - intro H. inversion H. subst. eapply filter_get_err; eauto.
Qed.

Lemma apply_filter_filterM nullstr mdt names syn ign f rows :
  filters_valid names syn [f] = true ->
  apply_filter names syn nullstr mdt ign f rows =
  filterM (fun r => filter_get (convert_item nullstr mdt) names syn ign f (nth_cell r)) rows.
Proof.
  unfold filters_valid, filter_kind, apply_filter, filter_get. cbn [forallb]. rewrite andb_true_r. intro Hv. apply andb_true_iff in Hv. destruct Hv as [Hi He].
  destruct (match f_op f with
            | Some t => match op_of_text t with Some tok => op_table tok | None => (CEq, KStr) end
            | None => (CEq, KStr) end) as [op kind] eqn:Eop.
  assert (kind = match f_op f with Some t => match op_of_text t with Some tok => snd (op_table tok) | None => KStr end | None => KStr end) as Hk.
  { destruct (f_op f); [destruct (op_of_text _)|]; inversion Eop; subst; try reflexivity. rewrite H0. reflexivity. }
  destruct (index_of (filter_column syn f) names) as [j|]; [|discriminate].
  destruct kind.
  - rewrite filterM_pure. reflexivity.
  - rewrite <- Hk in He. cbn in He. destruct (pyfloat (unquote (f_expr f))) as [x|]; [|discriminate].
    induction rows as [|r rows IH]; [reflexivity|]. cbn [mapM filterM].
    destruct (convert_item nullstr mdt (nth_cell r j)) as [v|e]; [|reflexivity].
    destruct (mapM (fun r0 => convert_item nullstr mdt (nth_cell r0 j)) rows) as [vals|e] eqn:Em.
    + cbn [bind] in IH |- *. rewrite <- IH. cbn [combine filter fst snd].
      destruct (keep_of ign (cmp_cell op v x)); reflexivity.
    + cbn [bind] in IH |- *. rewrite <- IH. reflexivity.
Qed.

Lemma filters_in_order_lemma nullstr mdt names syn ign fs rows :
  filters_valid names syn fs = true ->
  apply_filters names syn nullstr mdt ign fs rows =
  filterM (fun r => filters_get (convert_item nullstr mdt) names syn ign fs (nth_cell r)) rows.
Proof.
  revert rows. induction fs as [|f fs IH]; intros rows Hv.
  - cbn. rewrite (filterM_pure (fun _ => true)). f_equal. clear. induction rows as [|a rows IHr]; cbn; [reflexivity|]. f_equal. exact IHr.
  - apply filters_valid_cons in Hv. destruct Hv as [Hf Hfs]. cbn [apply_filters filters_get].
    rewrite (apply_filter_filterM _ _ _ _ _ _ _ Hf).
    rewrite <- (filterM_compose DatasetError
                 (fun r => filter_get (convert_item nullstr mdt) names syn ign f (nth_cell r))
                 (fun r => filters_get (convert_item nullstr mdt) names syn ign fs (nth_cell r))).
    + destruct (filterM _ rows); [|reflexivity]. cbn [bind]. apply IH. exact Hfs.
    + intros r e H. eapply filter_get_err; eauto.
    + intros r e H. eapply filters_get_err; eauto.
Qed.

(* ======================================================================================================
   reader_refines
   ====================================================================================================== *)
(* ---- lines ---------------------------------------------------------------------------------------- *)
Lemma spec_comment_eq ic l : spec_comment ic l = comment_line ic l.
Proof. reflexivity. Qed.

Lemma filter_file_lines (f : str -> bool) ls t :
  (t = [] \/ f t = true) -> filter f (file_lines (ls, t)) = file_lines (filter f ls, t).
Proof.
  intro H. unfold file_lines. cbn [fst snd]. rewrite filter_app. f_equal.
  destruct t as [|c t]; [reflexivity|]. cbn [is_nil filter]. destruct H as [H|H]; [discriminate|]. rewrite H. reflexivity.
Qed.

Lemma existsb_file_lines (f : str -> bool) ls t :
  f [] = false -> existsb f (ls ++ [t]) = existsb f (file_lines (ls, t)).
Proof.
  intro H. unfold file_lines. cbn [fst snd]. rewrite !existsb_app. f_equal.
  destruct t; cbn; [rewrite H|]; reflexivity.
Qed.

Lemma blank_error_spec ls t : blank_error ls t = existsb (forallb is_blankc) (file_lines (ls, t)).
Proof.
  unfold blank_error, file_lines. cbn [fst snd]. rewrite existsb_app. f_equal.
  destruct t; cbn [is_nil negb andb existsb]; [reflexivity|]. rewrite orb_false_r. reflexivity.
Qed.

Lemma lines_agree_tail (kept : list str) (t : str) :
  match (if existsb has_space_tab (kept ++ [t]) then Err DatasetError
         else if blank_error kept t then Err DatasetError else Ok (kept, t)) with
  | Ok p => (if existsb has_space_tab (file_lines (kept, t)) then Err DatasetError
             else if existsb (forallb is_blankc) (file_lines (kept, t)) then Err DatasetError
             else Ok (file_lines (kept, t))) = Ok (file_lines p)
  | Err e => (if existsb has_space_tab (file_lines (kept, t)) then Err DatasetError
              else if existsb (forallb is_blankc) (file_lines (kept, t)) then Err DatasetError
              else Ok (file_lines (kept, t))) = Err e
  end.
Proof.
  rewrite (existsb_file_lines has_space_tab kept t eq_refl). rewrite blank_error_spec.
  destruct (existsb has_space_tab (file_lines (kept, t))); [reflexivity|].
  destruct (existsb (forallb is_blankc) (file_lines (kept, t))); reflexivity.
Qed.

(* since the fixes 8a96a4a and f9c38b4 the prefilter IS the documented line rule: no side condition *)
Lemma lines_agree ic s :
  match prefilter ic s with
  | Ok p => spec_lines ic s = Ok (file_lines p)
  | Err e => spec_lines ic s = Err e
  end.
Proof.
  unfold prefilter, spec_lines, all_lines.
  destruct (lines_tail s) as [ls t0] eqn:Elt.
  set (kept := filter (fun l => negb (comment_line ic l)) ls) in *.
  destruct (comment_line ic t0) eqn:Ect.
  - assert (filter (fun l => negb (spec_comment ic l)) (file_lines (ls, t0)) = file_lines (kept, [])) as ->.
    { unfold file_lines. cbn [fst snd is_nil]. rewrite filter_app. fold kept. f_equal.
      destruct t0 as [|c t0']; [reflexivity|]. cbn [is_nil filter]. rewrite spec_comment_eq, Ect. reflexivity. }
    apply lines_agree_tail.
  - assert (filter (fun l => negb (spec_comment ic l)) (file_lines (ls, t0)) = file_lines (kept, t0)) as ->.
    { apply filter_file_lines. right. rewrite spec_comment_eq, Ect. reflexivity. }
    apply lines_agree_tail.
Qed.

(* characters of the lines of a text *)
Lemma lines_tail_chars s ls t :
  lines_tail s = (ls, t) ->
  forall l, In l (ls ++ [t]) -> forall c, In c l -> In c s /\ c <> c_nl.
Proof.
  revert ls t. induction s as [|x s IH]; intros ls t H l Hl c Hc.
  - inversion H. subst. cbn in Hl. destruct Hl as [<-|[]]. destruct Hc.
  - cbn [lines_tail] in H. destruct (lines_tail s) as [ls0 t0] eqn:E. specialize (IH ls0 t0 eq_refl).
    destruct (N.eqb x c_nl) eqn:Ex.
    + inversion H. subst. cbn in Hl. destruct Hl as [<-|Hl]; [destruct Hc|].
      destruct (IH l Hl c Hc) as [A B]. split; [right; exact A | exact B].
    + apply N.eqb_neq in Ex. destruct ls0 as [|l0 ls0'].
      * inversion H. subst. cbn in Hl. destruct Hl as [<-|[]]. destruct Hc as [<-|Hc].
        -- split; [left; reflexivity | exact Ex].
        -- destruct (IH t0 (or_introl eq_refl) c Hc) as [A B]. split; [right; exact A | exact B].
      * inversion H. subst. cbn in Hl. destruct Hl as [<-|Hl].
        -- destruct Hc as [<-|Hc]; [split; [left; reflexivity | exact Ex]|].
           destruct (IH l0 (or_introl eq_refl) c Hc) as [A B]. split; [right; exact A | exact B].
        -- destruct (IH l (or_intror Hl) c Hc) as [A B]. split; [right; exact A | exact B].
Qed.

Lemma file_lines_incl ls t l : In l (file_lines (ls, t)) -> In l (ls ++ [t]).
Proof.
  unfold file_lines. cbn [fst snd]. rewrite !in_app_iff. intros [H|H]; [left; exact H|].
  destruct t; [destruct H|]. right. exact H.
Qed.

Lemma all_lines_row_char s l :
  forallb doc_text_char s = true -> In l (all_lines s) -> forallb row_char l = true.
Proof.
  intros Ha Hl. unfold all_lines in Hl. destruct (lines_tail s) as [ls t] eqn:E.
  apply file_lines_incl in Hl. apply forallb_forall. intros c Hc.
  destruct (lines_tail_chars s ls t E l Hl c Hc) as [A B]. rewrite forallb_forall in Ha. specialize (Ha _ A).
  unfold doc_text_char in Ha. unfold row_char, is_pyspace. unfold c_tab, c_nl, c_sp in *. lia.
Qed.

(* ---- rows ------------------------------------------------------------------------------------------- *)
Lemma dropwhile_split {A} (p : A -> bool) l : exists a, l = a ++ dropwhile p l /\ forallb p a = true.
Proof.
  induction l as [|c l [a [H1 H2]]]; [exists []; auto|]. cbn [dropwhile]. destruct (p c) eqn:E.
  - exists (c :: a). cbn. rewrite E, H2. split; [f_equal; exact H1 | reflexivity].
  - exists []. auto.
Qed.

Lemma pystrip_head row :
  g_row row = true -> exists c tl, pystrip row = c :: tl /\ is_pyspace c = false.
Proof.
  unfold g_row. intro H. apply andb_true_iff in H. destruct H as [H _]. apply andb_true_iff in H. destruct H as [Hchars Hnb].
  apply negb_true_iff in Hnb.
  assert (exists x, In x row /\ is_pyspace x = false) as [x [Hx Hpx]].
  { clear -Hchars Hnb. induction row as [|c row IH]; [discriminate|]. cbn in Hchars, Hnb.
    apply andb_true_iff in Hchars. destruct Hchars as [Hc Hr]. destruct (is_blankc c) eqn:Eb.
    - cbn in Hnb. destruct (IH Hr Hnb) as [x [A B]]. exists x. split; [right; exact A | exact B].
    - exists c. split; [left; reflexivity|]. unfold row_char in Hc. unfold is_blankc in Eb. char_unfold. unfold is_pyspace in *. lia. }
  unfold pystrip. set (m := dropwhile is_pyspace row).
  destruct (dropwhile_split is_pyspace row) as [a [Ha Hpa]]. fold m in Ha.
  assert (In x m) as Hxm.
  { rewrite Ha in Hx. apply in_app_or in Hx. destruct Hx as [Hx|Hx]; [|exact Hx].
    rewrite forallb_forall in Hpa. rewrite (Hpa _ Hx) in Hpx. discriminate. }
  destruct (dropwhile_split is_pyspace (rev m)) as [b [Hb Hpb]]. set (u := dropwhile is_pyspace (rev m)) in *.
  assert (In x u) as Hxu.
  { apply in_rev in Hxm. rewrite Hb in Hxm. apply in_app_or in Hxm. destruct Hxm as [Hx'|Hx']; [|exact Hx'].
    rewrite forallb_forall in Hpb. rewrite (Hpb _ Hx') in Hpx. discriminate. }
  assert (m = rev u ++ rev b) as Hm.
  { rewrite <- (rev_involutive m). rewrite Hb. rewrite rev_app_distr. reflexivity. }
  pose proof (dropwhile_head is_pyspace row) as Hh. fold m in Hh.
  destruct (rev u) as [|c tl] eqn:Eu.
  - apply in_rev in Hxu. rewrite Eu in Hxu. destruct Hxu.
  - exists c, tl. split; [reflexivity|]. rewrite Hm in Hh. cbn in Hh. exact Hh.
Qed.

Lemma resplit_aux_nonempty s : forall k cur, resplit_aux k cur s <> [].
Proof.
  induction s as [|c s IH]; intros k cur; cbn [resplit_aux]; [discriminate|].
  destruct k; [|apply IH]. destruct (sep_len (c :: s)) as [[|l]|]; try apply IH. discriminate.
Qed.

Lemma resplit_aux_not_blank s : forall k cur,
  existsb (fun c => negb (is_pyspace c)) cur = true -> blank_row (resplit_aux k cur s) = false.
Proof.
  induction s as [|c s IH]; intros k cur H; cbn [resplit_aux].
  - cbn [blank_row]. rewrite forallb_rev. apply not_true_is_false. intro F. rewrite forallb_forall in F.
    apply existsb_exists in H. destruct H as [x [Hx Hp]]. rewrite (F _ Hx) in Hp. discriminate.
  - destruct k; [|apply IH; exact H].
    destruct (sep_len (c :: s)) as [[|l]|].
    + apply IH. cbn. rewrite H. apply orb_true_r.
    + pose proof (resplit_aux_nonempty s l []) as Hne. destruct (resplit_aux l [] s); [congruence | reflexivity].
    + apply IH. cbn. rewrite H. apply orb_true_r.
Qed.

Lemma resplit_not_blank c tl : is_pyspace c = false -> blank_row (resplit (c :: tl)) = false.
Proof.
  intro H. unfold resplit. cbn [resplit_aux]. destruct (sep_len (c :: tl)) as [[|l]|].
  - apply resplit_aux_not_blank. cbn. rewrite H. reflexivity.
  - pose proof (resplit_aux_nonempty tl l []) as Hne. destruct (resplit_aux l [] tl); [congruence | reflexivity].
  - apply resplit_aux_not_blank. cbn. rewrite H. reflexivity.
Qed.

Lemma rows_agree ls :
  (forall l, In l ls -> g_row l = true) ->
  filter (fun r => negb (blank_row r)) (map (fun l => resplit (pystrip l)) ls) = map spec_items ls.
Proof.
  intro H. induction ls as [|l ls IH]; [reflexivity|]. cbn [map filter].
  assert (g_row l = true) as Hl by (apply H; left; reflexivity).
  destruct (pystrip_head l Hl) as [c [tl [Hp Hc]]]. rewrite <- (split_spec_lemma l Hl).
  rewrite Hp at 1. rewrite (resplit_not_blank c tl Hc). cbn [negb]. f_equal. apply IH. intros l' Hl'. apply H. right. exact Hl'.
Qed.

(* ---- the frame ---------------------------------------------------------------------------------------- *)
Lemma nth_shape w r j : j < w -> nth j (shape w r) None = nth_error r j.
Proof.
  intro H. unfold shape.
  assert (nth j (firstn w (map Some r ++ repeat None w)) None = nth j (map Some r ++ repeat None w) None) as ->.
  { rewrite <- (firstn_skipn w (map Some r ++ repeat None w)) at 2. rewrite app_nth1; [reflexivity|].
    rewrite firstn_length, app_length, map_length, repeat_length. lia. }
  destruct (le_lt_dec (length r) j) as [Hge|Hlt].
  - rewrite app_nth2 by (rewrite map_length; lia). rewrite nth_repeat. symmetry. apply nth_error_None. exact Hge.
  - rewrite app_nth1 by (rewrite map_length; lia). 
    destruct (nth_error r j) as [x|] eqn:E.
    + rewrite (nth_indep _ None (Some x)) by (rewrite map_length; lia). rewrite map_nth. f_equal. apply nth_error_nth. exact E.
    + apply nth_error_None in E. lia.
Qed.

Lemma length_shape w r : length (shape w r) = w.
Proof. unfold shape. rewrite firstn_length, app_length, map_length, repeat_length. lia. Qed.

Lemma nth_repeat_in {A} (a d : A) m k : k < m -> nth k (repeat a m) d = a.
Proof. revert k. induction m as [|m IH]; intros k H; [lia|]. destruct k; [reflexivity|]. cbn. apply IH. lia. Qed.

Lemma nth_spec_shape n r j : j < n -> nth_cell (spec_shape n r) j = nth_error r j.
Proof. apply nth_shape. Qed.

(* ---- items -------------------------------------------------------------------------------------------- *)
Definition item_ok3 (x : str) : bool := item_charset_ok x.

(* since fix 0a78c77 the conversion agrees with the grammar on the whole documented alphabet *)
Lemma item_agree x : item_ok3 x = true -> convert x = spec_convert x.
Proof.
  unfold item_ok3, item_charset_ok. intro H3.
  destruct (fortran_number x) eqn:Ef.
  - rewrite (number_forms_lemma x Ef). unfold value, spec_convert. unfold fortran_number in Ef.
    destruct (parse_number x); [reflexivity | discriminate].
  - rewrite (convert_rejects_lemma x H3 Ef). unfold spec_convert. unfold fortran_number in Ef.
    destruct (parse_number x); [discriminate | reflexivity].
Qed.

Lemma spec_null_eq ns x :
  match x with None => ns | Some s => if is_nil s || str_eqb s [c_dot] then ns else s end = null_subst ns x.
Proof. destruct x as [s|]; [|reflexivity]. cbn [null_subst]. rewrite orb_comm. reflexivity. Qed.

Lemma item_conv_agree ns mdt c c' :
  null_subst ns c = null_subst ns c' -> item_ok3 (null_subst ns c) = true ->
  convert_item ns mdt c = spec_item ns mdt c'.
Proof.
  intros He Hok. unfold convert_item, spec_item. rewrite spec_null_eq. rewrite <- He.
  rewrite (item_agree _ Hok). reflexivity.
Qed.

Lemma null_string_ok cn ns : null_string cn = Ok ns -> item_ok3 ns = true /\ null_subst ns (Some ns) = ns.
Proof.
  unfold null_string. destruct cn as [ch|].
  - destruct (is_sign ch); [intro H; inversion H; split; reflexivity|].
    destruct (is_digit ch) eqn:Ed; [|discriminate]. intro H. inversion H. subst ns.
    assert (ch = 48 \/ ch = 49 \/ ch = 50 \/ ch = 51 \/ ch = 52 \/ ch = 53 \/ ch = 54 \/ ch = 55 \/ ch = 56 \/ ch = 57)%N as Hc
      by (unfold is_digit in Ed; lia).
    repeat (destruct Hc as [->|Hc]; [split; reflexivity|]). subst. split; reflexivity.
  - intro H. inversion H. split; reflexivity.
Qed.

Lemma items_ok_nth p flags r j x :
  items_ok p flags r = true -> nth j flags false = true -> nth_error r j = Some x -> p x = true.
Proof.
  revert r j. induction flags as [|f flags IH]; intros r j H Hf Hx; [destruct j; discriminate|].
  destruct r as [|y r]; [destruct j; discriminate|]. cbn [items_ok] in H. apply andb_true_iff in H. destruct H as [H1 H2].
  destruct j as [|j]; cbn in Hf, Hx.
  - inversion Hx. subst. cbn in H1. exact H1.
  - apply (IH r j); assumption.
Qed.

Lemma index_of_lt x l j : index_of x l = Some j -> j < length l /\ nth j l [] = x.
Proof.
  revert j. induction l as [|y l IH]; intros j H; [discriminate|]. cbn [index_of] in H.
  destruct (str_eqb x y) eqn:E.
  - inversion H. subst. apply str_eqb_eq in E. subst. cbn. split; [lia | reflexivity].
  - destruct (index_of x l) as [k|]; [|discriminate]. inversion H. subst. destruct (IH k eq_refl) as [A B]. cbn. split; [lia | exact B].
Qed.

Lemma length_parse_flags names drops : length drops = length names -> length (parse_flags names drops) = length names.
Proof.
  revert drops. induction names as [|nm names IH]; intros drops H; [reflexivity|]. destruct drops as [|d drops]; [discriminate|].
  cbn. f_equal. apply IH. cbn in H. lia.
Qed.

Lemma nth_conv_flags names drops syn i j :
  length drops = length names -> j < length names ->
  nth j (conv_flags names drops syn i) false = nth j (parse_flags names drops) false || numeric_filter_col names syn i j.
Proof.
  intros Hl Hj. unfold conv_flags.
  set (g := fun jp : nat * bool => snd jp || numeric_filter_col names syn i (fst jp)).
  assert (length (combine (seq 0 (length names)) (parse_flags names drops)) = length names) as Hlen
    by (rewrite combine_length, seq_length, (length_parse_flags _ _ Hl); lia).
  rewrite (nth_indep _ false (g (0, false))) by (rewrite map_length, Hlen; exact Hj).
  rewrite map_nth. rewrite combine_nth by (rewrite seq_length, (length_parse_flags _ _ Hl); reflexivity).
  unfold g. cbn [fst snd]. rewrite seq_nth by exact Hj. reflexivity.
Qed.

(* ---- filters ------------------------------------------------------------------------------------------ *)
Definition filter_opk (f : filt) : cmpop * okind :=
  match f_op f with
  | None => (CEq, KStr)
  | Some t => match op_of_text t with Some tok => op_table tok | None => (CEq, KStr) end
  end.
Lemma filter_opk_kind f : snd (filter_opk f) = filter_kind f.
Proof. unfold filter_opk, filter_kind. destruct (f_op f); [destruct (op_of_text _)|]; reflexivity. Qed.

Section RowFacts.
  Variables (i : input) (names : list str) (drops : list bool) (syn : list (str * str)) (ns mdt : str).
  Let n := length names.
  Hypothesis Hdrops : length drops = n.
  Hypothesis Hnull : item_ok3 ns = true /\ null_subst ns (Some ns) = ns.

  (* what the guard says about the items of one data row *)
  Definition row_guard (r : list str) : Prop :=
    items_ok item_charset_ok (conv_flags names drops syn i) r = true.

  Lemma cell_item_ok r j : row_guard r -> j < n -> nth j (conv_flags names drops syn i) false = true ->
    item_ok3 (null_subst ns (nth_error r j)) = true.
  Proof.
    intros H3 Hj Hf. destruct (nth_error r j) as [x|] eqn:E; [|apply (proj1 Hnull)].
    cbn [null_subst]. destruct (str_eqb x [c_dot] || is_nil x); [apply (proj1 Hnull)|].
    unfold item_ok3. apply (items_ok_nth _ _ _ _ _ H3 Hf E).
  Qed.

  Lemma filter_get_agree ign f r :
    In f (i_ignore i ++ i_accept i) -> row_guard r ->
    filter_get (convert_item ns mdt) names syn ign f (nth_cell (spec_shape n r)) =
    filter_get (spec_item ns mdt) names syn ign f (nth_error r).
  Proof.
    intros Hin Hrg. unfold filter_get. fold (filter_opk f). pose proof (filter_opk_kind f) as Hk.
    destruct (filter_opk f) as [op kind]. cbn [snd] in Hk.
    destruct (index_of (filter_column syn f) names) as [j|] eqn:Ei; [|reflexivity].
    destruct (index_of_lt _ _ _ Ei) as [Hj _]. fold n in Hj.
    rewrite (nth_spec_shape n r j Hj).
    destruct kind; [reflexivity|].
    assert (nth j (conv_flags names drops syn i) false = true) as Hflag.
    { rewrite nth_conv_flags by (fold n; assumption). apply orb_true_iff. right. unfold numeric_filter_col.
      apply existsb_exists. exists f. split; [exact Hin|]. rewrite <- Hk. cbn. rewrite Ei. apply Nat.eqb_refl. }
    rewrite (item_conv_agree ns mdt (nth_error r j) (nth_error r j)); [reflexivity | reflexivity|].
    apply cell_item_ok; assumption.
  Qed.

  Lemma filters_get_agree ign fs r :
    incl fs (i_ignore i ++ i_accept i) -> row_guard r ->
    filters_get (convert_item ns mdt) names syn ign fs (nth_cell (spec_shape n r)) =
    filters_get (spec_item ns mdt) names syn ign fs (nth_error r).
  Proof.
    intros Hincl Hrg. induction fs as [|f fs IH]; [reflexivity|]. cbn [filters_get].
    rewrite (filter_get_agree ign f r (Hincl f (or_introl eq_refl)) Hrg).
    destruct (filter_get (spec_item ns mdt) names syn ign f (nth_error r)) as [[|]|]; try reflexivity.
    apply IH. intros x Hx. apply Hincl. right. exact Hx.
  Qed.
End RowFacts.

Lemma filterM_map {A B} (g : A -> B) (p : B -> res bool) l :
  filterM p (map g l) = match filterM (fun x => p (g x)) l with Ok r => Ok (map g r) | Err e => Err e end.
Proof.
  induction l as [|x l IH]; [reflexivity|]. cbn [map filterM]. destruct (p (g x)) as [b|e]; [|reflexivity].
  rewrite IH. destruct (filterM (fun x0 => p (g x0)) l); [|reflexivity]. destruct b; reflexivity.
Qed.

Lemma filterM_ext_in {A} (p q : A -> res bool) l : (forall x, In x l -> p x = q x) -> filterM p l = filterM q l.
Proof.
  induction l as [|x l IH]; intro H; [reflexivity|]. cbn [filterM]. rewrite (H x (or_introl eq_refl)).
  rewrite IH; [reflexivity|]. intros y Hy. apply H. right. exact Hy.
Qed.

Lemma filterM_incl {A} (p : A -> res bool) l r : filterM p l = Ok r -> incl r l.
Proof.
  revert r. induction l as [|x l IH]; intros r H; [inversion H; intros y []|]. cbn [filterM] in H.
  destruct (p x) as [b|]; [|discriminate]. destruct (filterM p l) as [r0|]; [|discriminate]. inversion H. subst.
  destruct b; intros y Hy.
  - destruct Hy as [<-|Hy]; [left; reflexivity | right; apply (IH r0 eq_refl); exact Hy].
  - right. apply (IH r0 eq_refl). exact Hy.
Qed.

(* ---- conversion of one row ------------------------------------------------------------------------- *)
Definition timelike (nm : str) : bool := mems nm (s_TIME :: date_names).

Fixpoint all3 (P : str -> bool -> icell -> Prop) (names : list str) (drops : list bool) (cs : list icell) : Prop :=
  match names, drops, cs with
  | nm :: ns, d :: ds, c :: cs' => P nm d c /\ all3 P ns ds cs'
  | _, _, _ => True
  end.

Definition idP (lbl : option str) (nm : str) (d : bool) (c : icell) : Prop :=
  is_label lbl nm = true -> d = true -> id_check_cell c = Ok tt.

Lemma kept_of_cons {A} d ds (x : A) l :
  kept_of (d :: ds) (x :: l) = if d then kept_of ds l else x :: kept_of ds l.
Proof. unfold kept_of. cbn. destruct d; reflexivity. Qed.

Lemma conv_row_agree ns mdt lbl : forall names drops Mc Sc,
  length drops = length names -> length Mc = length names -> length Sc = length names ->
  (forall j, j < length names ->
     null_subst ns (nth j Mc None) = null_subst ns (nth j Sc None) /\
     (timelike (nth j names []) = true -> nth j drops false = false -> nth j Mc None = nth j Sc None) /\
     (parse_col (nth j names []) (nth j drops false) = true -> item_ok3 (null_subst ns (nth j Mc None)) = true) /\
     (is_label lbl (nth j names []) = true -> nth j drops false = true ->
        exists x, nth j Mc None = Some x /\ pyint_small x = true)) ->
  match convert_row ns mdt (parse_flags names drops) Mc with
  | Ok cs => spec_convert_row ns mdt names drops Sc = Ok (kept_of drops cs) /\ length cs = length names /\
             all3 (idP lbl) names drops cs
  | Err e => spec_convert_row ns mdt names drops Sc = Err e
  end.
Proof.
  induction names as [|nm names IH]; intros drops Mc Sc Hd HM HS H.
  - destruct drops; [|discriminate]. cbn. repeat split.
  - destruct drops as [|d drops]; [discriminate|]. destruct Mc as [|m Mc]; [discriminate|]. destruct Sc as [|s Sc]; [discriminate|].
    cbn [length] in Hd, HM, HS. pose proof (H 0 ltac:(cbn; lia)) as [H0a [H0b [H0c H0d]]]. cbn [nth] in H0a, H0b, H0c, H0d.
    assert (forall j, j < length names ->
       null_subst ns (nth j Mc None) = null_subst ns (nth j Sc None) /\
       (timelike (nth j names []) = true -> nth j drops false = false -> nth j Mc None = nth j Sc None) /\
       (parse_col (nth j names []) (nth j drops false) = true -> item_ok3 (null_subst ns (nth j Mc None)) = true) /\
       (is_label lbl (nth j names []) = true -> nth j drops false = true ->
          exists x, nth j Mc None = Some x /\ pyint_small x = true)) as Htl.
    { intros j Hj. apply (H (S j)). cbn. lia. }
    specialize (IH drops Mc Sc ltac:(lia) ltac:(lia) ltac:(lia) Htl).
    cbn [parse_flags convert_row]. unfold spec_convert_row in *. cbn [combine]. rewrite kept_of_cons.
    destruct d.
    + (* dropped column: kept raw by the model, absent in the reference *)
      assert (parse_col nm true = false) as -> by reflexivity. cbn [bind].
      destruct (convert_row ns mdt (parse_flags names drops) Mc) as [cs|e].
      * cbn [bind]. destruct IH as [I1 [I2 I3]]. rewrite kept_of_cons. repeat split; auto; [cbn; lia|].
        intros Hl _. destruct (H0d Hl eq_refl) as [x [-> Hx]]. cbn [id_check_cell]. rewrite Hx.
        unfold pyint_small in Hx. apply andb_true_iff in Hx. destruct Hx as [Hx1 _]. rewrite Hx1. reflexivity.
      * cbn [bind]. exact IH.
    + cbn [mapM fst snd]. unfold parse_col. cbn [negb andb]. fold (timelike nm).
      destruct (timelike nm) eqn:Et.
      * cbn [negb bind]. rewrite (H0b eq_refl eq_refl).
        destruct (convert_row ns mdt (parse_flags names drops) Mc) as [cs|e].
        -- cbn [bind]. destruct IH as [I1 [I2 I3]]. rewrite I1. rewrite kept_of_cons. repeat split; auto; [cbn; lia|].
           intros _ F. discriminate.
        -- cbn [bind]. rewrite IH. reflexivity.
      * cbn [negb]. assert (parse_col nm false = true) as Hp by (unfold parse_col; fold (timelike nm); rewrite Et; reflexivity).
        rewrite (item_conv_agree ns mdt m s H0a (H0c Hp)).
        destruct (spec_item ns mdt s) as [v|e]; [|reflexivity]. cbn [bind].
        destruct (convert_row ns mdt (parse_flags names drops) Mc) as [cs|e].
        -- cbn [bind]. destruct IH as [I1 [I2 I3]]. rewrite I1. rewrite kept_of_cons. repeat split; auto; [cbn; lia|].
           intros _ F. discriminate.
        -- cbn [bind]. rewrite IH. reflexivity.
Qed.

(* ---- columns ------------------------------------------------------------------------------------------ *)
Definition keptc (c : column) : bool := negb (col_drop c).

Lemma kept_columns : forall names drops rows,
  length drops = length names -> (forall r, In r rows -> length r = length names) ->
  filter keptc (columns_of names drops rows) =
  columns_of (kept_of drops names) (map (fun _ => false) (kept_of drops names)) (map (kept_of drops) rows).
Proof.
  induction names as [|nm names IH]; intros drops rows Hd Hr.
  - destruct drops; [|discriminate]. reflexivity.
  - destruct drops as [|d drops]; [discriminate|]. cbn [columns_of filter]. rewrite kept_of_cons.
    assert (forall r, In r (map (@tl icell) rows) -> length r = length names) as Hr'.
    { intros r Hin. apply in_map_iff in Hin. destruct Hin as [r0 [<- Hin]]. specialize (Hr _ Hin). destruct r0; [discriminate|]. cbn in *. lia. }
    specialize (IH drops (map (@tl icell) rows) ltac:(cbn in Hd; lia) Hr').
    assert (map (kept_of drops) (map (@tl icell) rows) = map (fun r => kept_of drops (tl r)) rows) as Hmm by apply map_map.
    destruct d; unfold keptc at 1; cbn [col_drop negb].
    + rewrite IH. f_equal. rewrite Hmm. apply map_ext_in. intros r Hin. specialize (Hr _ Hin). destruct r; [discriminate|]. rewrite kept_of_cons. reflexivity.
    + cbn [map columns_of]. f_equal.
      * f_equal. rewrite map_map. apply map_ext_in. intros r Hin. specialize (Hr _ Hin). destruct r; [discriminate|]. rewrite kept_of_cons. reflexivity.
      * rewrite IH. f_equal. rewrite Hmm, map_map. apply map_ext_in. intros r Hin. specialize (Hr _ Hin). destruct r; [discriminate|]. rewrite kept_of_cons. reflexivity.
Qed.

Lemma columns_all3 (P : str -> bool -> icell -> Prop) : forall names drops rows,
  (forall r, In r rows -> all3 P names drops r /\ length r = length names) ->
  Forall (fun col => Forall (P (col_name col) (col_drop col)) (col_cells col)) (columns_of names drops rows).
Proof.
  induction names as [|nm names IH]; intros drops rows H; [constructor|].
  destruct drops as [|d drops]; [constructor|]. cbn [columns_of]. constructor.
  - cbn [col_name col_drop col_cells]. apply Forall_forall. intros c Hc. apply in_map_iff in Hc. destruct Hc as [r [<- Hin]].
    destruct (H _ Hin) as [Ha Hl]. destruct r; [discriminate|]. cbn in Ha |- *. tauto.
  - apply IH. intros r Hin. apply in_map_iff in Hin. destruct Hin as [r0 [<- Hin]]. destruct (H _ Hin) as [Ha Hl].
    destruct r0; [discriminate|]. cbn in Ha, Hl |- *. split; [tauto | lia].
Qed.

Lemma columns_drops : forall names drops rows, length drops = length names ->
  map col_drop (columns_of names drops rows) = drops /\ map col_name (columns_of names drops rows) = names.
Proof.
  induction names as [|nm names IH]; intros drops rows H; destruct drops as [|d drops]; try discriminate; [split; reflexivity|].
  cbn [columns_of map col_drop col_name]. destruct (IH drops (map (@tl icell) rows) ltac:(cbn in H; lia)) as [A B]. rewrite A, B. split; reflexivity.
Qed.

(* ---- postprocess ----------------------------------------------------------------------------------------- *)
Lemma filter_map_commute {A} (keep : A -> bool) (g : A -> A) l :
  (forall x, keep (g x) = keep x) -> filter keep (map g l) = map g (filter keep l).
Proof.
  intro H. induction l as [|x l IH]; [reflexivity|]. cbn. rewrite H. destruct (keep x); cbn; rewrite IH; reflexivity.
Qed.

Lemma mapM_ext_in {A B} (f g : A -> res B) l : (forall x, In x l -> f x = g x) -> mapM f l = mapM g l.
Proof.
  induction l as [|x l IH]; intro H; [reflexivity|]. cbn [mapM]. rewrite (H x (or_introl eq_refl)).
  rewrite IH; [reflexivity|]. intros y Hy. apply H. right. exact Hy.
Qed.

(* elements outside `keep` never fail: mapM over the kept ones gives the kept results / the same error *)
Lemma mapM_kept {A B} (keep : A -> bool) (f : A -> res B) l :
  (forall x, In x l -> keep x = false -> exists y, f x = Ok y) ->
  match mapM f l with
  | Ok ys => mapM f (filter keep l) = Ok (kept_of (map (fun x => negb (keep x)) l) ys)
  | Err e => mapM f (filter keep l) = Err e
  end.
Proof.
  induction l as [|x l IH]; intro H; [reflexivity|].
  assert (forall y, In y l -> keep y = false -> exists z, f y = Ok z) as H' by (intros y Hy; apply H; right; exact Hy).
  specialize (IH H'). cbn [mapM filter map]. destruct (keep x) eqn:Ek.
  - cbn [mapM]. destruct (f x) as [y|e]; [|reflexivity]. destruct (mapM f l) as [ys|e].
    + rewrite IH. rewrite kept_of_cons. reflexivity.
    + rewrite IH. reflexivity.
  - destruct (H x (or_introl eq_refl) Ek) as [y ->]. destruct (mapM f l) as [ys|e].
    + rewrite IH. rewrite kept_of_cons. reflexivity.
    + exact IH.
Qed.

Lemma ids_step_shape lbl c : col_name (ids_step lbl c) = col_name c /\ col_drop (ids_step lbl c) = col_drop c.
Proof. unfold ids_step. destruct (_ && _); split; reflexivity. Qed.
Lemma time_step_shape ns mdt dates c : col_name (time_step ns mdt dates c) = col_name c /\ col_drop (time_step ns mdt dates c) = col_drop c.
Proof. unfold time_step. destruct (_ && _); [destruct (mapM _ _)|]; split; reflexivity. Qed.

Lemma ids_step_dropped lbl c : col_drop c = true -> ids_step lbl c = c.
Proof. intro H. unfold ids_step, parse_col. rewrite H. cbn. rewrite andb_false_r. reflexivity. Qed.
Lemma time_step_dropped ns mdt dates c : col_drop c = true -> time_step ns mdt dates c = c.
Proof. intro H. unfold time_step. rewrite H. cbn. rewrite !andb_false_r. reflexivity. Qed.

Lemma finish_col_dropped c : col_drop c = true -> exists y, finish_col c = Ok y.
Proof.
  intro H. unfold finish_col. rewrite H.
  assert (exists cells, mapM (finish_cell (col_name c) true) (col_cells c) = Ok cells) as [cells ->].
  { induction (col_cells c) as [|x l [cells IH]]; [exists []; reflexivity|]. cbn [mapM].
    assert (exists v, finish_cell (col_name c) true x = Ok v) as [v ->] by (destruct x as [[s|]|v]; eexists; reflexivity).
    rewrite IH. eexists. reflexivity. }
  eexists. reflexivity.
Qed.

Lemma postprocess_agree lbl lbl' dates ns mdt cols :
  (forall c, In c cols -> col_drop c = false -> is_label lbl (col_name c) = is_label lbl' (col_name c)) ->
  (forall c, In c cols -> col_drop c = true -> id_check lbl c = Ok tt) ->
  match postprocess lbl dates ns mdt cols with
  | Ok res => postprocess lbl' dates ns mdt (filter keptc cols) = Ok (kept_of (map col_drop cols) res)
  | Err e => postprocess lbl' dates ns mdt (filter keptc cols) = Err e
  end.
Proof.
  intros Hlbl Hid. unfold postprocess.
  (* ids_step *)
  assert (map (ids_step lbl') (filter keptc cols) = filter keptc (map (ids_step lbl) cols)) as Hids.
  { rewrite (filter_map_commute keptc (ids_step lbl)) by (intro c; unfold keptc; rewrite (proj2 (ids_step_shape lbl c)); reflexivity).
    apply map_ext_in. intros c Hc. apply filter_In in Hc. destruct Hc as [Hin Hk]. unfold keptc in Hk. apply negb_true_iff in Hk.
    unfold ids_step. rewrite (Hlbl c Hin Hk). reflexivity. }
  rewrite Hids. set (cols1 := map (ids_step lbl) cols).
  assert (forall c, In c cols1 -> keptc c = false -> id_check lbl c = Ok tt) as Hid1.
  { intros c Hc Hk. unfold cols1 in Hc. apply in_map_iff in Hc. destruct Hc as [c0 [<- Hin]]. unfold keptc in Hk. apply negb_false_iff in Hk.
    rewrite (proj2 (ids_step_shape lbl c0)) in Hk. rewrite (ids_step_dropped lbl c0 Hk). apply Hid; assumption. }
  assert (forall c, In c cols1 -> keptc c = true -> id_check lbl' c = id_check lbl c) as Hid2.
  { intros c Hc Hk. unfold cols1 in Hc. apply in_map_iff in Hc. destruct Hc as [c0 [<- Hin]]. unfold keptc in Hk. apply negb_true_iff in Hk.
    unfold id_check. rewrite (proj1 (ids_step_shape lbl c0)). rewrite (proj2 (ids_step_shape lbl c0)) in Hk. rewrite (Hlbl c0 Hin Hk). reflexivity. }
  pose proof (mapM_kept keptc (id_check lbl) cols1 (fun c Hc Hk => ex_intro _ tt (Hid1 c Hc Hk))) as Hm.
  assert (mapM (id_check lbl') (filter keptc cols1) = mapM (id_check lbl) (filter keptc cols1)) as ->.
  { apply mapM_ext_in. intros c Hc. apply filter_In in Hc. destruct Hc. apply Hid2; assumption. }
  destruct (mapM (id_check lbl) cols1) as [us|e]; [|rewrite Hm; reflexivity]. rewrite Hm. cbn [bind].
  (* time_step and finish *)
  rewrite <- (filter_map_commute keptc (time_step ns mdt dates)) by (intro c; unfold keptc; rewrite (proj2 (time_step_shape ns mdt dates c)); reflexivity).
  set (cols2 := map (time_step ns mdt dates) cols1).
  pose proof (mapM_kept keptc finish_col cols2) as Hf.
  assert (forall x, In x cols2 -> keptc x = false -> exists y, finish_col x = Ok y) as Hfd.
  { intros c Hc Hk. apply finish_col_dropped. unfold keptc in Hk. apply negb_false_iff in Hk. exact Hk. }
  specialize (Hf Hfd).
  assert (map (fun x => negb (keptc x)) cols2 = map col_drop cols) as Hdr.
  { unfold cols2, cols1. rewrite !map_map. apply map_ext. intro c. unfold keptc. rewrite negb_involutive.
    rewrite (proj2 (time_step_shape _ _ _ _)), (proj2 (ids_step_shape _ _)). reflexivity. }
  rewrite Hdr in Hf. destruct (mapM finish_col cols2); exact Hf.
Qed.

(* ---- names ----------------------------------------------------------------------------------------------- *)
Lemma mems_In x l : mems x l = true <-> In x l.
Proof.
  unfold mems. rewrite existsb_exists. split.
  - intros [y [Hy E]]. apply str_eqb_eq in E. subst. exact Hy.
  - intro H. exists x. split; [exact H | apply str_eqb_refl].
Qed.

Lemma index_of_nodup l j : nodup_s l = true -> j < length l -> index_of (nth j l []) l = Some j.
Proof.
  revert j. induction l as [|y l IH]; intros j Hn Hj; [cbn in Hj; lia|]. cbn [nodup_s] in Hn. apply andb_true_iff in Hn.
  destruct Hn as [Hy Hl]. apply negb_true_iff in Hy. destruct j as [|j]; cbn [nth index_of].
  - rewrite str_eqb_refl. reflexivity.
  - cbn in Hj. assert (str_eqb (nth j l []) y = false) as ->.
    { apply str_eqb_neq. intro E. assert (mems y l = true) as F by (apply mems_In; rewrite <- E; apply nth_In; lia). congruence. }
    rewrite (IH j Hl ltac:(lia)). reflexivity.
Qed.

Lemma index_of_In x l : In x l -> exists j, index_of x l = Some j.
Proof.
  induction l as [|y l IH]; [intros []|]. intro H. cbn [index_of]. destruct (str_eqb x y) eqn:E; [eexists; reflexivity|].
  destruct H as [<-|H]; [rewrite str_eqb_refl in E; discriminate|]. destruct (IH H) as [j ->]. eexists. reflexivity.
Qed.

Lemma nth_parse_flags names drops j : length drops = length names -> j < length names ->
  nth j (parse_flags names drops) false = parse_col (nth j names []) (nth j drops false).
Proof.
  revert drops j. induction names as [|nm names IH]; intros drops j Hd Hj; [cbn in Hj; lia|].
  destruct drops as [|d drops]; [discriminate|]. destruct j; [reflexivity|]. cbn. apply IH; cbn in *; lia.
Qed.

Lemma parse_flags_eq names drops :
  map (fun nd : str * bool => parse_col (fst nd) (snd nd)) (combine names drops) = parse_flags names drops.
Proof.
  revert drops. induction names as [|nm names IH]; intro drops; [reflexivity|]. destruct drops as [|d drops]; [reflexivity|].
  cbn. f_equal. apply IH.
Qed.

Lemma kept_of_In {A} (x : A) drops l : In x (kept_of drops l) -> In x l.
Proof.
  unfold kept_of. intro H. apply in_map_iff in H. destruct H as [[y d] [E H]]. cbn in E. subst y.
  apply filter_In in H. destruct H as [H _]. apply in_combine_l in H. exact H.
Qed.

Lemma kept_of_spec {A} (x : A) drops l : In x (kept_of drops l) <-> In (x, false) (combine l drops).
Proof.
  unfold kept_of. rewrite in_map_iff. split.
  - intros [[y d] [E H]]. cbn in E. subst y. apply filter_In in H. destruct H as [H Hd]. cbn in Hd. apply negb_true_iff in Hd. subst d. exact H.
  - intro H. exists (x, false). split; [reflexivity|]. apply filter_In. split; [exact H | reflexivity].
Qed.

Lemma has_date_kept names drops : has_date names = false -> has_date (kept_of drops names) = false.
Proof.
  unfold has_date. intro H. apply not_true_is_false. intro F. apply existsb_exists in F. destruct F as [d [Hd Hm]].
  assert (existsb (fun d0 => mems d0 names) date_names = true) as T; [|congruence].
  apply existsb_exists. exists d. split; [exact Hd|]. apply mems_In. apply mems_In in Hm. apply (kept_of_In _ _ _ Hm).
Qed.

Lemma combine_nodup_fun (names : list str) (drops : list bool) (nm : str) (d1 d2 : bool) :
  nodup_s names = true -> In (nm, d1) (combine names drops) -> In (nm, d2) (combine names drops) -> d1 = d2.
Proof.
  revert drops. induction names as [|y names IH]; intros drops Hn H1 H2; [destruct H1|].
  destruct drops as [|d drops]; [destruct H1|]. cbn [nodup_s] in Hn. apply andb_true_iff in Hn. destruct Hn as [Hy Hl].
  apply negb_true_iff in Hy. cbn [combine] in H1, H2.
  assert (forall dd, In (nm, dd) (combine names drops) -> nm <> y) as Hne.
  { intros dd Hin E. subst. apply in_combine_l in Hin. apply mems_In in Hin. congruence. }
  destruct H1 as [E1|H1]; destruct H2 as [E2|H2].
  - congruence.
  - inversion E1. subst. exfalso. apply (Hne d2 H2). reflexivity.
  - inversion E2. subst. exfalso. apply (Hne d1 H1). reflexivity.
  - apply (IH drops Hl H1 H2).
Qed.

Lemma index_of_combine (names : list str) (drops : list bool) (l : str) (j : nat) :
  length drops = length names -> index_of l names = Some j -> In (l, nth j drops false) (combine names drops).
Proof.
  revert drops j. induction names as [|y names IH]; intros drops j Hd H; [discriminate|]. destruct drops as [|d drops]; [discriminate|].
  cbn [index_of] in H. destruct (str_eqb l y) eqn:E.
  - inversion H. subst. apply str_eqb_eq in E. subst. left. reflexivity.
  - destruct (index_of l names) as [k|] eqn:Ek; [|discriminate]. inversion H. subst. right. cbn [nth]. apply IH; [cbn in Hd; lia | reflexivity].
Qed.

Lemma id_label_cases names : 
  (id_label names = None /\ ~ In s_ID names /\ ~ In s_L1 names) \/
  (exists l, id_label names = Some l /\ In l names /\ (l = s_ID \/ (l = s_L1 /\ ~ In s_ID names))).
Proof.
  unfold id_label. destruct (mems s_ID names) eqn:E1.
  - right. exists s_ID. apply mems_In in E1. auto.
  - destruct (mems s_L1 names) eqn:E2.
    + right. exists s_L1. apply mems_In in E2. repeat split; auto. right. split; [reflexivity|]. intro F. apply mems_In in F. congruence.
    + left. repeat split; auto; intro F; apply mems_In in F; congruence.
Qed.

Lemma id_label_kept names drops nm :
  length drops = length names -> nodup_s names = true -> g_id_choice names drops = true ->
  In (nm, false) (combine names drops) ->
  is_label (id_label names) nm = is_label (id_label (kept_of drops names)) nm.
Proof.
  intros Hd Hn Hc Hin. destruct (id_label_cases names) as [[E [N1 N2]]|[l [E [Hl Hcase]]]].
  - rewrite E. destruct (id_label_cases (kept_of drops names)) as [[E' _]|[l' [E' [Hl' _]]]]; [rewrite E'; reflexivity|].
    exfalso. pose proof (kept_of_In _ _ _ Hl') as Hin'. unfold id_label in E'.
    destruct (mems s_ID (kept_of drops names)) eqn:M1; [inversion E'; subst; contradiction|].
    destruct (mems s_L1 (kept_of drops names)) eqn:M2; [inversion E'; subst; contradiction | discriminate].
  - rewrite E. destruct (index_of_In _ _ Hl) as [j Ej]. pose proof (index_of_combine names drops l j Hd Ej) as Hpair.
    unfold g_id_choice in Hc. rewrite E, Ej in Hc. destruct (nth j drops false) eqn:Edj.
    + (* the id column is dropped: no label among the kept names, and nm is not the label *)
      cbn [negb orb] in Hc. change (kept_names names drops) with (kept_of drops names) in Hc.
      destruct (id_label (kept_of drops names)) as [x|] eqn:E'; [cbn in Hc; discriminate|]. cbn [is_label].
      apply str_eqb_neq. intro F. subst nm. pose proof (combine_nodup_fun names drops l true false Hn Hpair Hin). discriminate.
    + (* kept: the same label *)
      assert (In l (kept_of drops names)) as Hk by (apply kept_of_spec; exact Hpair).
      assert (id_label (kept_of drops names) = Some l) as ->; [|reflexivity].
      unfold id_label. destruct Hcase as [->|[-> Hno]].
      * apply mems_In in Hk. rewrite Hk. reflexivity.
      * assert (mems s_ID (kept_of drops names) = false) as ->.
        { apply not_true_is_false. intro F. apply mems_In in F. apply Hno. apply (kept_of_In _ _ _ F). }
        apply mems_In in Hk. rewrite Hk. reflexivity.
Qed.

Lemma columns_pairs : forall names drops rows c,
  In c (columns_of names drops rows) -> In (col_name c, col_drop c) (combine names drops).
Proof.
  induction names as [|nm names IH]; intros drops rows c H; [destruct H|]. destruct drops as [|d drops]; [destruct H|].
  cbn [columns_of combine] in *. destruct H as [<-|H]; [left; reflexivity | right; apply (IH _ _ _ H)].
Qed.

Lemma mapM_all_ok {A} (f : A -> res unit) l : Forall (fun x => f x = Ok tt) l -> exists u, mapM f l = Ok u.
Proof.
  induction 1 as [|x l Hx _ [u IH]]; [exists []; reflexivity|]. cbn [mapM]. rewrite Hx, IH. eexists. reflexivity.
Qed.

Lemma spec_lines_ok ic s ls : spec_lines ic s = Ok ls ->
  ls = filter (fun l => negb (spec_comment ic l)) (all_lines s) /\ existsb (forallb is_blankc) ls = false.
Proof.
  unfold spec_lines. set (L := filter _ _). destruct (existsb has_space_tab L); [discriminate|].
  destruct (existsb (forallb is_blankc) L) eqn:E; [discriminate|]. intro H. inversion H. subst. auto.
Qed.

Lemma forallb_incl {A} (p : A -> bool) l l' : incl l' l -> forallb p l = true -> forallb p l' = true.
Proof. intros Hi H. rewrite forallb_forall in *. intros x Hx. apply H. apply Hi. exact Hx. Qed.

Lemma length_column_info : forall opts k names drops syn ci,
  length drops = length names -> column_info_from opts k names drops syn = Ok ci -> length (ci_drop ci) = length (ci_names ci).
Proof.
  induction opts as [|[key [value|]] opts IH]; intros k names drops syn ci Hl H; cbn [column_info_from] in H.
  - inversion H. cbn. rewrite !rev_length. exact Hl.
  - destruct (is_dropword key); [(eapply IH; [|exact H]; cbn; lia)|].
    destruct (is_dropword value); [(eapply IH; [|exact H]; cbn; lia)|].
    destruct (mems key reserved_names); [(eapply IH; [|exact H]; cbn; lia)|].
    destruct (mems value reserved_names); [(eapply IH; [|exact H]; cbn; lia) | discriminate].
  - destruct (is_dropword key); (eapply IH; [|exact H]; cbn; lia).
Qed.

(* ---- rows of the frame through conversion ------------------------------------------------------------- *)
Lemma rows_convert_agree ns mdt lbl names drops (f : list str -> list (option str)) (rows : list (list str)) :
  (forall r, In r rows ->
     match convert_row ns mdt (parse_flags names drops) (f r) with
     | Ok cs => spec_convert_row ns mdt names drops (spec_shape (length names) r) = Ok (kept_of drops cs) /\
                length cs = length names /\ all3 (idP lbl) names drops cs
     | Err e => spec_convert_row ns mdt names drops (spec_shape (length names) r) = Err e
     end) ->
  match mapM (convert_row ns mdt (parse_flags names drops)) (map f rows) with
  | Ok mrows => mapM (fun r => spec_convert_row ns mdt names drops (spec_shape (length names) r)) rows =
                Ok (map (kept_of drops) mrows) /\
                (forall cs, In cs mrows -> all3 (idP lbl) names drops cs /\ length cs = length names)
  | Err e => mapM (fun r => spec_convert_row ns mdt names drops (spec_shape (length names) r)) rows = Err e
  end.
Proof.
  induction rows as [|r rows IH]; intro H; [cbn; split; [reflexivity | intros cs []]|].
  cbn [map mapM]. pose proof (H r (or_introl eq_refl)) as Hr.
  destruct (convert_row ns mdt (parse_flags names drops) (f r)) as [cs|e].
  - destruct Hr as [R1 [R2 R3]]. rewrite R1.
    specialize (IH (fun r0 Hr0 => H r0 (or_intror Hr0))). destruct (mapM (convert_row ns mdt (parse_flags names drops)) (map f rows)) as [mrows|e].
    + destruct IH as [I1 I2]. rewrite I1. split; [reflexivity|]. intros cs0 [<-|Hin]; [split; assumption | apply I2; exact Hin].
    + rewrite IH. reflexivity.
  - rewrite Hr. reflexivity.
Qed.

Lemma id_drop_item names drops i j l r :
  g_id_drop names drops i = true -> id_label names = Some l -> nodup_s names = true -> j < length names ->
  nth j names [] = l -> nth j drops false = true -> In r (data_rows i) ->
  exists x, nth_error r j = Some x /\ pyint_small x = true.
Proof.
  intros G El Hn Hj Hl Hd Hr. unfold g_id_drop in G. rewrite El in G. rewrite <- Hl in G. rewrite (index_of_nodup names j Hn Hj) in G.
  rewrite Hd in G. cbn [negb orb] in G. rewrite forallb_forall in G. specialize (G r Hr).
  destruct (nth_error r j) as [x|]; [|discriminate]. exists x. auto.
Qed.

Ltac pop H G := apply andb_true_iff in H; destruct H as [G H].

Lemma reader_refines_match i :
  guard i = true ->
  match read_model i, column_info (i_options i) with
  | Ok t, Ok ci => spec_read i = Ok (kept_of (ci_drop ci) t)
  | Err e, _ => spec_read i = Err e
  | Ok _, Err _ => False
  end.
Proof.
  intro Hg. unfold guard, guard_conjuncts in Hg. unfold read_model, spec_read.
  destruct (column_info (i_options i)) as [ci|e] eqn:Eci; [|reflexivity].
  cbn [bind]. cbv zeta.
  assert (length (ci_drop ci) = length (ci_names ci)) as Hdl.
  { unfold column_info in Eci. apply (length_column_info (i_options i) 1 [] [] [] ci); [reflexivity | exact Eci]. }
  set (names := ci_names ci) in *. set (drops := ci_drop ci) in *. set (syn := ci_syn ci) in *.
  set (ic := ign_char (i_ignchar i)) in *. set (mdt := i_mdt i) in *.
  cbn [forallb] in Hg.
  pop Hg G1. pop Hg G5. pop Hg G7. pop Hg G11. pop Hg G12. pop Hg G13. pop Hg G15. pop Hg G16. clear Hg.
  destruct (null_string (i_null i)) as [ns|e] eqn:Ens; cbn [bind]; [|reflexivity].
  pose proof (null_string_ok _ _ Ens) as Hnull.
  change (kept_names names drops) with (kept_of drops names).
  destruct (negb (nodup_s (kept_of drops names))); [reflexivity|].
  (* lines *)
  pose proof (lines_agree ic (i_text i)) as Hlines.
  destruct (prefilter ic (i_text i)) as [p|e] eqn:Ep; [|rewrite Hlines; reflexivity]. rewrite Hlines. cbn [bind].
  destruct (spec_lines_ok _ _ _ Hlines) as [Hdl_eq Hnoblank].
  assert (data_lines i = file_lines p) as Hdata by (unfold data_lines; fold ic; symmetry; exact Hdl_eq).
  (* rows *)
  assert (raw_rows p = map spec_items (file_lines p)) as Hrows.
  { unfold raw_rows. apply rows_agree. intros l Hl. unfold g_row. apply andb_true_iff. split; [apply andb_true_iff; split|].
    - apply (all_lines_row_char (i_text i)); [exact G1|]. rewrite Hdl_eq in Hl. apply filter_In in Hl. tauto.
    - apply negb_true_iff. apply not_true_is_false. intro F. assert (existsb (forallb is_blankc) (file_lines p) = true) as T; [|congruence].
      apply existsb_exists. exists l. split; assumption.
    - unfold g_edge_tab in G5. rewrite Hdata in G5. rewrite forallb_forall in G5. apply G5. exact Hl. }
  rewrite Hrows. set (rows := map spec_items (file_lines p)) in *.
  assert (data_rows i = rows) as Hdr by (unfold data_rows; rewrite Hdata; reflexivity).
  destruct rows as [|r0 rest] eqn:Erows; [reflexivity|]. rewrite <- Erows in *. clearbody rows.
  (* the frame: every row is the documented row *)
  set (n := length names) in *.
  assert (first_width i = length r0) as Hfw by (unfold first_width; rewrite Hdr, Erows; reflexivity).
  assert (frame n rows = Ok (map (spec_shape n) rows)) as ->.
  { destruct (frame n rows) as [fr|e] eqn:Efr; [|rewrite Erows in Efr; discriminate].
    destruct (pad_strip_lemma n rows fr Efr) as [-> _]; [|reflexivity].
    unfold g_rows_within in G7. rewrite Hdr, Hfw in G7. replace (hd [] rows) with r0 by (rewrite Erows; reflexivity). fold n in G7. exact G7. }
  cbn [bind].
  (* facts about every data row *)
  assert (forall r, In r rows -> row_guard i names drops syn r) as Hrg.
  { intros r Hr. unfold row_guard. unfold g_items in G11. rewrite Hdr in G11. rewrite forallb_forall in G11. apply G11. exact Hr. }
  (* IGNORE / ACCEPT *)
  assert (forall flag fs, incl fs (i_ignore i ++ i_accept i) ->
            match apply_filters names syn ns mdt flag fs (map (spec_shape n) rows) with
            | Ok fr' => exists rows', fr' = map (spec_shape n) rows' /\ incl rows' rows /\
                                      filterM (spec_filters_row names syn ns mdt flag fs) rows = Ok rows'
            | Err e => filterM (spec_filters_row names syn ns mdt flag fs) rows = Err e
            end) as Hfilt.
  { intros flag fs Hincl.
    assert (filters_valid names syn fs = true) as Hv by (apply (forallb_incl _ _ _ Hincl); exact G16).
    rewrite (filters_in_order_lemma ns mdt names syn flag fs _ Hv). rewrite filterM_map.
    assert (filterM (fun x => filters_get (convert_item ns mdt) names syn flag fs (nth_cell (spec_shape n x))) rows =
            filterM (spec_filters_row names syn ns mdt flag fs) rows) as ->.
    { apply filterM_ext_in. intros r Hr. unfold spec_filters_row.
      apply (filters_get_agree i names drops syn ns mdt Hdl Hnull flag fs r Hincl (Hrg r Hr)). }
    destruct (filterM (spec_filters_row names syn ns mdt flag fs) rows) as [rows'|e] eqn:Ef; [|reflexivity].
    exists rows'. repeat split. apply (filterM_incl _ _ _ Ef). }
  (* conversion, columns, postprocess: for any subset of the rows *)
  assert (forall rows', incl rows' rows ->
            match bind (mapM (convert_row ns mdt (map (fun nd : str * bool => parse_col (fst nd) (snd nd)) (combine names drops)))
                             (map (spec_shape n) rows'))
                       (fun rws => postprocess (id_label names) (has_date names) ns mdt (columns_of names drops rws)) with
            | Ok t => bind (mapM (fun r => spec_convert_row ns mdt names drops (spec_shape n r)) rows')
                           (fun crows => postprocess (id_label (kept_of drops names)) (has_date names) ns mdt
                                           (columns_of (kept_of drops names) (map (fun _ => false) (kept_of drops names)) crows))
                      = Ok (kept_of drops t)
            | Err e => bind (mapM (fun r => spec_convert_row ns mdt names drops (spec_shape n r)) rows')
                           (fun crows => postprocess (id_label (kept_of drops names)) (has_date names) ns mdt
                                           (columns_of (kept_of drops names) (map (fun _ => false) (kept_of drops names)) crows))
                       = Err e
            end) as Hconv.
  { intros rows' Hincl. rewrite parse_flags_eq.
    pose proof (rows_convert_agree ns mdt (id_label names) names drops (spec_shape n) rows') as Hrc.
    match type of Hrc with ?A -> _ => assert A as Hrows'; [|specialize (Hrc Hrows')] end.
    { intros r Hr. apply Hincl in Hr. pose proof (Hrg r Hr) as Hitems.
      apply conv_row_agree.
      { exact Hdl. }
      { apply length_spec_shape. }
      { apply length_spec_shape. }
      intros j Hj. fold n in Hj. change (length names) with n.
      change (nth j (spec_shape n r) None) with (nth_cell (spec_shape n r) j). rewrite (nth_spec_shape n r j Hj).
      repeat split.
      - intro Hp. apply (cell_item_ok i names drops syn ns Hnull r j Hitems Hj).
        rewrite nth_conv_flags by assumption. rewrite nth_parse_flags by assumption. apply orb_true_iff. left. exact Hp.
      - intros Hl Hd. destruct (id_label names) as [l|] eqn:El; [|discriminate].
        cbn [is_label] in Hl. apply str_eqb_eq in Hl. symmetry in Hl.
        assert (In r (data_rows i)) as Hrd by (rewrite Hdr; exact Hr).
        destruct (id_drop_item names drops i j l r G12 El G15 Hj Hl Hd Hrd) as [x [Ex Hx]].
        exists x. split; [exact Ex | exact Hx]. }
    change (length names) with n in Hrc.
    destruct (mapM (convert_row ns mdt (parse_flags names drops)) (map (spec_shape n) rows')) as [mrows|e]; [|rewrite Hrc; reflexivity].
    destruct Hrc as [Hrc1 Hrc2]. rewrite Hrc1. cbn [bind].
    rewrite <- (kept_columns names drops mrows Hdl (fun r Hr => proj2 (Hrc2 r Hr))).
    set (cols := columns_of names drops mrows).
    destruct (columns_drops names drops mrows Hdl) as [Hcd Hcn].
    pose proof (postprocess_agree (id_label names) (id_label (kept_of drops names)) (has_date names) ns mdt cols) as Hpp.
    fold cols in Hcd. rewrite Hcd in Hpp. apply Hpp.
    - intros c Hc Hd. apply (id_label_kept names drops (col_name c) Hdl G15 G13). rewrite <- Hd. apply (columns_pairs _ _ _ _ Hc).
    - intros c Hc Hd. unfold id_check. destruct (is_label (id_label names) (col_name c)) eqn:El; [|reflexivity].
      pose proof (columns_all3 (idP (id_label names)) names drops mrows (fun r Hr => Hrc2 r Hr)) as Hall.
      rewrite Forall_forall in Hall. specialize (Hall c Hc).
      destruct (mapM_all_ok id_check_cell (col_cells c)) as [u ->]; [|reflexivity].
      revert Hall. apply Forall_impl. intros x Hx. apply Hx; assumption. }
  (* the three shapes of the filter options *)
  unfold filter_ignore_accept.
  destruct (i_ignore i) as [|f1 fs1] eqn:Eign; destruct (i_accept i) as [|g1 gs1] eqn:Eacc; try reflexivity.
  - (* no filter *)
    cbn [is_nil negb]. specialize (Hconv rows (incl_refl _)). cbn [bind].
    assert (filterM (spec_filters_row names syn ns mdt false []) rows = Ok rows) as ->.
    { unfold spec_filters_row. cbn [filters_get]. rewrite (filterM_pure (fun _ => true)). f_equal. clear. induction rows as [|a l IHl]; cbn; [reflexivity|]. f_equal. exact IHl. }
    cbn [bind]. fold n. destruct (bind _ _) as [t|e] in Hconv |- *; exact Hconv.
  - (* ACCEPT *)
    cbn [is_nil negb]. specialize (Hfilt false (g1 :: gs1) ltac:(intros x Hx; exact Hx)).
    destruct (apply_filters names syn ns mdt false (g1 :: gs1) (map (spec_shape n) rows)) as [fr'|e]; [|rewrite Hfilt; reflexivity].
    destruct Hfilt as [rows' [-> [Hincl ->]]]. cbn [bind]. specialize (Hconv rows' Hincl). fold n.
    destruct (bind _ _) as [t|e] in Hconv |- *; exact Hconv.
  - (* IGNORE *)
    cbn [is_nil negb]. specialize (Hfilt true (f1 :: fs1) ltac:(intros x Hx; rewrite app_nil_r; exact Hx)).
    destruct (apply_filters names syn ns mdt true (f1 :: fs1) (map (spec_shape n) rows)) as [fr'|e]; [|rewrite Hfilt; reflexivity].
    destruct Hfilt as [rows' [-> [Hincl ->]]]. cbn [bind]. specialize (Hconv rows' Hincl). fold n.
    destruct (bind _ _) as [t|e] in Hconv |- *; exact Hconv.
Qed.

Lemma reader_refines_lemma i : guard i = true -> project_kept i (read_model i) = spec_read i.
Proof.
  intro Hg. pose proof (reader_refines_match i Hg) as H. unfold project_kept.
  destruct (read_model i) as [t|e]; destruct (column_info (i_options i)) as [ci|e']; try (symmetry; exact H); contradiction.
Qed.

(* ======================================================================================================
   write/read cycle
   ====================================================================================================== *)
Lemma lines_tail_app l rest :
  ~ In c_nl l -> lines_tail (l ++ c_nl :: rest) = (l :: fst (lines_tail rest), snd (lines_tail rest)).
Proof.
  induction l as [|x l IH]; intro H.
  - cbn [app lines_tail]. destruct (lines_tail rest) as [ls t]. rewrite N.eqb_refl. reflexivity.
  - cbn [app lines_tail]. rewrite IH by (intro F; apply H; right; exact F).
    assert (N.eqb x c_nl = false) as -> by (apply N.eqb_neq; intro E; apply H; left; exact E). reflexivity.
Qed.

Lemma lines_tail_flat ls :
  (forall l, In l ls -> ~ In c_nl l) -> lines_tail (flat_map (fun l => l ++ [c_nl]) ls) = (ls, []).
Proof.
  induction ls as [|l ls IH]; intro H; [reflexivity|]. cbn [flat_map]. rewrite <- app_assoc. cbn [app].
  rewrite lines_tail_app by (apply H; left; reflexivity). rewrite IH by (intros l' Hl'; apply H; right; exact Hl'). reflexivity.
Qed.

Definition line_char (c : N) : bool := tok_char c || N.eqb c c_comma.

Lemma join_comma_chars cells :
  (forall x, In x cells -> forallb tok_char x = true) -> forallb line_char (join_comma cells) = true.
Proof.
  induction cells as [|x cells IH]; intro H; [reflexivity|].
  assert (forallb line_char x = true) as Hx.
  { generalize (H x (or_introl eq_refl)). apply forallb_impl. intros c Hc. unfold line_char. rewrite Hc. reflexivity. }
  destruct cells as [|y cells]; [exact Hx|]. change (join_comma (x :: y :: cells)) with (x ++ c_comma :: join_comma (y :: cells)).
  rewrite forallb_app. rewrite Hx. cbn [forallb andb]. unfold line_char at 1. rewrite N.eqb_refl, orb_true_r. cbn [andb].
  apply IH. intros z Hz. apply H. right. exact Hz.
Qed.

Lemma join_comma_head c x cells : exists rest, join_comma ((c :: x) :: cells) = c :: rest.
Proof. destruct cells; cbn; eexists; reflexivity. Qed.

Lemma line_char_facts c : line_char c = true ->
  is_pyspace c = false /\ N.eqb c c_nl = false /\ N.eqb c c_sp = false /\ N.eqb c c_tab = false /\ row_char c = true.
Proof.
  unfold line_char, tok_char, row_char. intro H.
  assert (is_pyspace c = false) as Hp.
  { destruct (is_pyspace c) eqn:E; [|reflexivity]. cbn in H. apply N.eqb_eq in H. subst. discriminate. }
  rewrite Hp. repeat split; auto; apply N.eqb_neq; intro E; subst; discriminate.
Qed.

Lemma has_space_tab_none l : forallb line_char l = true -> has_space_tab l = false.
Proof.
  induction l as [|a l IH]; [reflexivity|]. intro H. cbn [forallb] in H. apply andb_true_iff in H. destruct H as [Ha Hl].
  destruct l as [|b l']; [reflexivity|].
  change (has_space_tab (a :: b :: l')) with ((N.eqb a c_sp && N.eqb b c_tab) || has_space_tab (b :: l')). rewrite (IH Hl).
  destruct (line_char_facts a Ha) as [_ [_ [Hs _]]]. rewrite Hs. reflexivity.
Qed.

Lemma blank_error_none ls : (forall l, In l ls -> forallb is_blankc l = false) -> blank_error ls [] = false.
Proof.
  intro H. unfold blank_error. cbn [is_nil negb andb]. rewrite orb_false_r. apply not_true_is_false. intro F.
  apply existsb_exists in F. destruct F as [l [Hl Hb]]. rewrite (H l Hl) in Hb. discriminate.
Qed.

Lemma comment_line_nil ic : comment_line ic [] = false.
Proof. unfold comment_line. destruct (N.eqb ic c_at); reflexivity. Qed.

(* a printed line: nonempty tokens joined by commas *)
Definition toks_ok (cells : list str) : Prop :=
  cells <> [] /\ forall x, In x cells -> x <> [] /\ forallb tok_char x = true.

Lemma toks_line cells : toks_ok cells ->
  forallb line_char (join_comma cells) = true /\ exists c rest, join_comma cells = c :: rest /\ tok_char c = true.
Proof.
  intros [Hne H]. split; [apply join_comma_chars; intros x Hx; apply H; exact Hx|].
  destruct cells as [|x cells]; [congruence|]. destruct (H x (or_introl eq_refl)) as [Hx Ht]. destruct x as [|c x]; [congruence|].
  destruct (join_comma_head c x cells) as [rest E]. exists c, rest. split; [exact E|]. cbn in Ht. apply andb_true_iff in Ht. tauto.
Qed.

Lemma toks_g_row cells : toks_ok cells -> g_row (join_comma cells) = true.
Proof.
  intro H. destruct (toks_line cells H) as [Hch [c [rest [E Hc]]]]. unfold g_row.
  assert (forall x, In x (join_comma cells) -> N.eqb x c_sp = false /\ N.eqb x c_tab = false /\ row_char x = true) as Hall.
  { intros x Hx. rewrite forallb_forall in Hch. destruct (line_char_facts x (Hch x Hx)) as [_ [_ [A [B C]]]]. auto. }
  apply andb_true_iff. split; [apply andb_true_iff; split|].
  - apply forallb_forall. intros x Hx. apply Hall. exact Hx.
  - rewrite E. cbn [forallb]. assert (is_blankc c = false) as ->; [|reflexivity].
    destruct (Hall c ltac:(rewrite E; left; reflexivity)) as [A [B _]]. unfold is_blankc. rewrite A, B. reflexivity.
  - apply negb_true_iff. unfold edge_tab. apply orb_false_iff. split.
    + pose proof (dropwhile_head (fun x => N.eqb c_sp x) (join_comma cells)) as Hh.
      destruct (dropwhile (fun x => N.eqb c_sp x) (join_comma cells)) as [|y m] eqn:Ed; [reflexivity|].
      assert (In y (join_comma cells)) as Hy.
      { destruct (dropwhile_split (fun x => N.eqb c_sp x) (join_comma cells)) as [a [Ha _]]. rewrite Ha, Ed. apply in_or_app. right. left. reflexivity. }
      apply Hall. exact Hy.
    + set (m := dropwhile (fun x => N.eqb c_sp x) (join_comma cells)).
      destruct (dropwhile (fun x => N.eqb c_sp x) (rev m)) as [|y m'] eqn:Ed; [reflexivity|].
      assert (In y (join_comma cells)) as Hy.
      { destruct (dropwhile_split (fun x => N.eqb c_sp x) (rev m)) as [a [Ha _]]. rewrite Ed in Ha.
        assert (In y (rev m)) as Hr by (rewrite Ha; apply in_or_app; right; left; reflexivity).
        apply in_rev in Hr. destruct (dropwhile_split (fun x => N.eqb c_sp x) (join_comma cells)) as [b [Hb _]]. fold m in Hb.
        rewrite Hb. apply in_or_app. right. exact Hr. }
      apply Hall. exact Hy.
Qed.

(* the reference machine on a printed line gives the tokens back *)
Lemma go_item_tok x : forall cur rest, forallb tok_char x = true ->
  spec_go SItem cur (x ++ rest) = spec_go SItem (rev x ++ cur) rest.
Proof.
  induction x as [|c x IH]; intros cur rest H; [reflexivity|]. cbn [forallb] in H. apply andb_true_iff in H. destruct H as [Hc Hx].
  cbn [app spec_go]. assert (line_char c = true) as Hl by (unfold line_char; rewrite Hc; reflexivity).
  destruct (line_char_facts c Hl) as [_ [_ [A [B _]]]]. rewrite A.
  assert (is_hard c = false) as ->.
  { unfold is_hard. rewrite B. unfold tok_char in Hc. apply andb_true_iff in Hc. destruct Hc as [_ Hc]. apply negb_true_iff in Hc. rewrite Hc. reflexivity. }
  rewrite (IH (c :: cur) rest Hx). cbn [rev]. rewrite <- app_assoc. reflexivity.
Qed.

Lemma spec_items_join_from st cells :
  (st = SStart \/ st = SHard) -> toks_ok cells -> spec_go st [] (join_comma cells) = cells.
Proof.
  intros Hst [Hne H]. revert st Hst. induction cells as [|x cells IH]; intros st Hst; [congruence|].
  destruct (H x (or_introl eq_refl)) as [Hx Ht]. destruct x as [|c x]; [congruence|].
  pose proof Ht as Ht'. cbn [forallb] in Ht'. apply andb_true_iff in Ht'. destruct Ht' as [Hc Hxt].
  assert (line_char c = true) as Hl by (unfold line_char; rewrite Hc; reflexivity).
  destruct (line_char_facts c Hl) as [_ [_ [A [B _]]]].
  assert (is_hard c = false) as Hh.
  { unfold is_hard. rewrite B. unfold tok_char in Hc. apply andb_true_iff in Hc. destruct Hc as [_ Hc]. apply negb_true_iff in Hc. rewrite Hc. reflexivity. }
  assert (forall rest, spec_go st [] ((c :: x) ++ rest) = spec_go SItem (rev x ++ [c]) rest) as Hstart.
  { intro rest. cbn [app spec_go]. rewrite A, Hh. destruct Hst as [-> | ->]; apply (go_item_tok x [c] rest Hxt). }
  destruct cells as [|y cells].
  - cbn [join_comma]. rewrite <- (app_nil_r (c :: x)) at 1. rewrite Hstart. cbn [spec_go]. rewrite rev_app_distr, rev_involutive. reflexivity.
  - change (join_comma ((c :: x) :: y :: cells)) with ((c :: x) ++ c_comma :: join_comma (y :: cells)). rewrite Hstart.
    cbn [spec_go]. assert (N.eqb c_comma c_sp = false) as -> by reflexivity. assert (is_hard c_comma = true) as -> by reflexivity.
    rewrite rev_app_distr, rev_involutive. cbn [rev app]. f_equal.
    apply IH; [discriminate | intros z Hz; apply H; right; exact Hz | right; reflexivity].
Qed.

Lemma spec_items_join cells : toks_ok cells -> spec_items (join_comma cells) = cells.
Proof. intro H. unfold spec_items. apply spec_items_join_from; [left; reflexivity | exact H]. Qed.

(* ---- $INPUT of plain names --------------------------------------------------------------------------- *)
Lemma column_info_plain_from hdr : forall k names drops syn,
  forallb (fun nm => negb (is_dropword nm)) hdr = true ->
  column_info_from (map (fun nm => (nm, @None str)) hdr) k names drops syn =
  Ok (mkCols (rev names ++ hdr) (rev drops ++ map (fun _ => false) hdr) syn).
Proof.
  induction hdr as [|nm hdr IH]; intros k names drops syn H.
  - cbn. rewrite !app_nil_r. reflexivity.
  - cbn [forallb] in H. apply andb_true_iff in H. destruct H as [Hn Hh]. apply negb_true_iff in Hn.
    cbn [map column_info_from]. rewrite Hn. rewrite (IH k (nm :: names) (false :: drops) syn Hh). cbn [rev map].
    rewrite <- !app_assoc. reflexivity.
Qed.

Lemma column_info_plain hdr :
  forallb (fun nm => negb (is_dropword nm)) hdr = true ->
  column_info (map (fun nm => (nm, @None str)) hdr) = Ok (mkCols hdr (map (fun _ => false) hdr) []).
Proof. intro H. unfold column_info. rewrite (column_info_plain_from hdr 1 [] [] [] H). reflexivity. Qed.

Lemma kept_names_all hdr : kept_names hdr (map (fun _ => false) hdr) = hdr.
Proof. unfold kept_names. induction hdr as [|nm hdr IH]; [reflexivity|]. cbn. f_equal. exact IH. Qed.

(* ---- one row ------------------------------------------------------------------------------------------- *)
Section Cycle.
  Variable pr : Q -> str.
  Variable mdt : str.

  Definition icell_of (nm : str) (c : cell) : icell :=
    if parse_col nm false then IVal (reparse pr mdt c) else IRaw (Some (pr_cell pr mdt c)).

  Lemma cell_ok_tok c : cell_ok pr mdt c = true ->
    pr_cell pr mdt c <> [] /\ forallb tok_char (pr_cell pr mdt c) = true.
  Proof.
    unfold cell_ok. intro H. repeat (apply andb_true_iff in H; destruct H as [H ?]). split; [|assumption].
    apply negb_true_iff in H. destruct (pr_cell pr mdt c); [discriminate | discriminate].
  Qed.

  Lemma cell_ok_convert ns c : cell_ok pr mdt c = true ->
    convert_item ns mdt (Some (pr_cell pr mdt c)) = Ok (reparse pr mdt c) /\ cell_eqb (reparse pr mdt c) c = true.
  Proof.
    unfold cell_ok, reparse. intro H. apply andb_true_iff in H. destruct H as [H Hc]. apply andb_true_iff in H. destruct H as [H Hdot].
    apply andb_true_iff in H. destruct H as [H Hlen]. apply andb_true_iff in H. destruct H as [Hne Htok].
    apply negb_true_iff in Hdot. apply negb_true_iff in Hne. apply Nat.leb_le in Hlen.
    unfold convert_item. cbn [null_subst]. rewrite Hdot, Hne. cbn [orb].
    assert (24 <? length (pr_cell pr mdt c) = false) as -> by (apply Nat.ltb_ge; exact Hlen).
    destruct c as [q| |s]; [| |discriminate].
    - apply andb_true_iff in Hc. destruct Hc as [Hm Hq]. apply negb_true_iff in Hm. cbn [pr_cell] in *. rewrite Hm.
      unfold okq in Hq. destruct (convert (pr q)) as [q'|]; [|discriminate]. split; [reflexivity | exact Hq].
    - cbn [pr_cell]. rewrite str_eqb_refl. split; reflexivity.
  Qed.

  Lemma shape_full n (r : list str) : length r = n -> shape n r = map Some r.
  Proof.
    intro H. unfold shape. rewrite firstn_app. rewrite map_length, H, Nat.sub_diag. cbn [firstn]. rewrite app_nil_r.
    apply firstn_all2. rewrite map_length. lia.
  Qed.

  (* convert_row on the cells of a printed row *)
  Lemma convert_row_cycle ns : forall hdr (r : list cell),
    length r = length hdr -> forallb (cell_ok pr mdt) r = true ->
    convert_row ns mdt (map (fun nd : str * bool => parse_col (fst nd) (snd nd)) (combine hdr (map (fun _ => false) hdr)))
                (map Some (map (pr_cell pr mdt) r)) =
    Ok (map (fun nc => icell_of (fst nc) (snd nc)) (combine hdr r)).
  Proof.
    induction hdr as [|nm hdr IH]; intros r Hl Hok.
    - destruct r; [reflexivity | discriminate].
    - destruct r as [|c r]; [discriminate|]. cbn [forallb] in Hok. apply andb_true_iff in Hok. destruct Hok as [Hc Hr].
      cbn [map combine convert_row fst snd]. rewrite (IH r ltac:(cbn in Hl; lia) Hr).
      destruct (parse_col nm false) eqn:Ep.
      + rewrite (proj1 (cell_ok_convert ns c Hc)). cbn [bind]. f_equal. f_equal. unfold icell_of. rewrite Ep. reflexivity.
      + cbn [bind]. f_equal. f_equal. unfold icell_of. rewrite Ep. reflexivity.
  Qed.

  (* the columns of the converted rows *)
  Lemma columns_cycle : forall hdr (rows : list (list cell)),
    (forall r, In r rows -> length r = length hdr) ->
    columns_of hdr (map (fun _ => false) hdr) (map (fun r => map (fun nc => icell_of (fst nc) (snd nc)) (combine hdr r)) rows) =
    map (fun nmcells => mkCol (fst nmcells) false (map (icell_of (fst nmcells)) (snd nmcells)))
        (combine hdr (transpose (length hdr) rows)).
  Proof.
    induction hdr as [|nm hdr IH]; intros rows Hl; [reflexivity|].
    cbn [map columns_of length transpose combine fst snd]. f_equal.
    - f_equal. rewrite !map_map. apply map_ext_in. intros r Hr. specialize (Hl r Hr). destruct r; [discriminate | reflexivity].
    - rewrite <- (IH (map (@tl cell) rows)).
      + f_equal. rewrite !map_map. apply map_ext_in. intros r Hr. specialize (Hl r Hr). destruct r; [discriminate | reflexivity].
      + intros r Hr. apply in_map_iff in Hr. destruct Hr as [r0 [<- Hr0]]. specialize (Hl r0 Hr0). destruct r0; [discriminate|]. cbn in *. lia.
  Qed.
End Cycle.

(* ---- one column through postprocess -------------------------------------------------------------------- *)
Lemma cell_eqb_trans a b c : cell_eqb a b = true -> cell_eqb b c = true -> cell_eqb a c = true.
Proof.
  destruct a as [x| |x], b as [y| |y], c as [z| |z]; cbn; try discriminate; auto.
  - intros H1 H2. apply Qeq_bool_iff in H1. apply Qeq_bool_iff in H2. apply Qeq_bool_iff. rewrite H1. exact H2.
  - intros H1 H2. apply str_eqb_eq in H1. apply str_eqb_eq in H2. subst. apply str_eqb_refl.
Qed.

Lemma mapM_map_ok {A B} (f : A -> res B) (g : A -> B) l : (forall x, In x l -> f x = Ok (g x)) -> mapM f l = Ok (map g l).
Proof.
  induction l as [|x l IH]; intro H; [reflexivity|]. cbn [mapM map]. rewrite (H x (or_introl eq_refl)).
  rewrite IH; [reflexivity|]. intros y Hy. apply H. right. exact Hy.
Qed.

Lemma mapM_map {A B C} (f : B -> res C) (h : A -> B) l : mapM f (map h l) = mapM (fun x => f (h x)) l.
Proof. induction l as [|x l IH]; [reflexivity|]. cbn [map mapM]. rewrite IH. reflexivity. Qed.

Lemma id_label_is lbl hdr nm : lbl = id_label hdr -> is_label lbl nm = true -> nm = s_ID \/ nm = s_L1.
Proof.
  intros -> H. unfold id_label in H. destruct (mems s_ID hdr); [left|destruct (mems s_L1 hdr); [right|discriminate]];
    cbn [is_label] in H; apply str_eqb_eq in H; symmetry; exact H.
Qed.

Section CycleCol.
  Variable pr : Q -> str.
  Variable mdt : str.
  Variable ns : str.
  Variable lbl : option str.
  Hypothesis Hlbl : forall nm, is_label lbl nm = true -> nm = s_ID \/ nm = s_L1.

  Definition fin_cell (nm : str) (c : cell) : cell :=
    let v := reparse pr mdt c in
    if mems nm int32_names then match to_int32 v with Ok x => x | Err _ => CNaN end else v.

  Lemma column_cycle nm cells :
    forallb (cell_ok pr mdt) cells = true -> col_ok lbl nm (map (reparse pr mdt) cells) = true ->
    mems nm date_names = false ->
    let col := mkCol nm false (map (icell_of pr mdt nm) cells) in
    ids_step lbl col = col /\ id_check lbl col = Ok tt /\
    finish_col (time_step ns mdt false col) = Ok (nm, map (fin_cell nm) cells) /\
    cells_same (map (fin_cell nm) cells) cells = true.
  Proof.
    intros Hok Hcol Hdate col. unfold col_ok in Hcol. apply andb_true_iff in Hcol. destruct Hcol as [Hid Hint].
    rewrite forallb_forall in Hok.
    assert (is_label lbl nm = true -> parse_col nm false = true) as Hlp.
    { intro H. destruct (Hlbl nm H) as [-> | ->]; reflexivity. }
    repeat split.
    - (* ids_step *)
      unfold ids_step, col. cbn [col_name col_drop col_cells]. destruct (is_label lbl nm) eqn:El; [|reflexivity].
      rewrite (Hlp eq_refl). cbn [andb]. cbn [negb orb] in Hid. apply andb_true_iff in Hid. destruct Hid as [_ Heq].
      f_equal. rewrite map_map.
      assert (map (fun x => icell_val (icell_of pr mdt nm x)) cells = map (reparse pr mdt) cells) as ->.
      { apply map_ext. intro c. unfold icell_of. rewrite (Hlp eq_refl). reflexivity. }
      unfold make_ids_unique. rewrite Heq. rewrite map_map. apply map_ext. intro c. unfold icell_of. rewrite (Hlp eq_refl). reflexivity.
    - (* id_check *)
      unfold id_check, col. cbn [col_name col_cells]. destruct (is_label lbl nm) eqn:El; [|reflexivity].
      cbn [negb orb] in Hid. apply andb_true_iff in Hid. destruct Hid as [Hnum _].
      rewrite (mapM_map_ok id_check_cell (fun _ => tt)); [reflexivity|].
      intros x Hx. apply in_map_iff in Hx. destruct Hx as [c [<- Hc]]. unfold icell_of. rewrite (Hlp eq_refl).
      rewrite forallb_forall in Hnum. specialize (Hnum (reparse pr mdt c) (in_map _ _ _ Hc)).
      destruct (reparse pr mdt c); [reflexivity | discriminate | discriminate].
    - (* time_step, finish *)
      assert (time_step ns mdt false col = mkCol nm false (map (fun c => IVal (reparse pr mdt c)) cells)) as ->.
      { unfold time_step, col. cbn [col_name col_drop col_cells negb andb]. rewrite andb_true_r.
        destruct (str_eqb nm s_TIME) eqn:Et.
        - cbn [andb]. apply str_eqb_eq in Et. subst nm. rewrite mapM_map.
          rewrite (mapM_map_ok _ (reparse pr mdt)).
          + rewrite map_map. reflexivity.
          + intros c Hc. unfold icell_of. assert (parse_col s_TIME false = false) as -> by reflexivity.
            apply (proj1 (cell_ok_convert pr mdt ns c (Hok c Hc))).
        - cbn [andb]. f_equal. apply map_ext. intro c. unfold icell_of.
          assert (parse_col nm false = true) as ->; [|reflexivity].
          unfold parse_col. cbn [negb andb mems existsb]. rewrite Et. cbn [orb]. unfold mems in Hdate. rewrite Hdate. reflexivity. }
      unfold finish_col. cbn [col_name col_drop col_cells]. rewrite mapM_map.
      rewrite (mapM_map_ok _ (fin_cell nm)); [reflexivity|].
      intros c Hc. unfold fin_cell. cbn [finish_cell negb andb]. destruct (mems nm int32_names) eqn:Ei; [|reflexivity].
      cbn [negb orb] in Hint. rewrite forallb_forall in Hint. specialize (Hint (reparse pr mdt c) (in_map _ _ _ Hc)).
      destruct (reparse pr mdt c); [reflexivity | discriminate | discriminate].
    - (* same values *)
      unfold cells_same. rewrite map_length, Nat.eqb_refl. cbn [andb]. apply forallb_forall. intros [a b] Hab. cbn [fst snd].
      assert (a = fin_cell nm b) as ->.
      { clear -Hab. induction cells as [|c l IH]; [destruct Hab|]. cbn in Hab. destruct Hab as [E|Hab]; [inversion E; reflexivity | apply IH; exact Hab]. }
      assert (In b cells) as Hb by (apply in_combine_r in Hab; exact Hab).
      pose proof (proj2 (cell_ok_convert pr mdt ns b (Hok b Hb))) as Hrb. unfold fin_cell.
      destruct (mems nm int32_names) eqn:Ei; [|exact Hrb].
      cbn [negb orb] in Hint. rewrite forallb_forall in Hint. specialize (Hint (reparse pr mdt b) (in_map _ _ _ Hb)).
      destruct (reparse pr mdt b) as [q| |x]; [|discriminate|discriminate]. cbn [to_int32].
      apply (cell_eqb_trans _ (CNum q)); [exact Hint | exact Hrb].
  Qed.
End CycleCol.

Lemma postprocess_percol lbl ns mdt cols outs :
  Forall2 (fun c o => ids_step lbl c = c /\ id_check lbl c = Ok tt /\ finish_col (time_step ns mdt false c) = Ok o) cols outs ->
  postprocess lbl false ns mdt cols = Ok outs.
Proof.
  intro H. unfold postprocess.
  assert (map (ids_step lbl) cols = cols) as ->.
  { induction H as [|c o cols outs [H1 _] _ IH]; [reflexivity|]. cbn. rewrite H1, IH. reflexivity. }
  assert (exists u, mapM (id_check lbl) cols = Ok u) as [u ->].
  { induction H as [|c o cols outs [_ [H2 _]] _ [u IH]]; [exists []; reflexivity|]. cbn [mapM]. rewrite H2, IH. eexists. reflexivity. }
  cbn [bind]. induction H as [|c o cols outs [_ [_ H3]] _ IH]; [reflexivity|]. cbn [map mapM]. rewrite H3, IH. reflexivity.
Qed.

Lemma filter_all {A} (p : A -> bool) l : forallb p l = true -> filter p l = l.
Proof.
  induction l as [|x l IH]; [reflexivity|]. cbn. intro H. apply andb_true_iff in H. destruct H as [H1 H2]. rewrite H1, (IH H2). reflexivity.
Qed.

Section CycleMain.
  Variable pr : Q -> str.
  Variable mdt : str.
  Variable ns : str.

  Lemma cols_forall2 lbl :
    (forall nm, is_label lbl nm = true -> nm = s_ID \/ nm = s_L1) ->
    forall hdr rows,
    (forall r, In r rows -> length r = length hdr /\ forallb (cell_ok pr mdt) r = true) ->
    cols_ok pr lbl mdt hdr rows = true ->
    (forall nm, In nm hdr -> mems nm date_names = false) ->
    exists outs,
      Forall2 (fun c o => ids_step lbl c = c /\ id_check lbl c = Ok tt /\ finish_col (time_step ns mdt false c) = Ok o)
              (map (fun nmcells => mkCol (fst nmcells) false (map (icell_of pr mdt (fst nmcells)) (snd nmcells)))
                   (combine hdr (transpose (length hdr) rows))) outs /\
      map fst outs = hdr /\ list_eqb (cells_same) (map snd outs) (transpose (length hdr) rows) = true.
  Proof.
    intros Hlbl. induction hdr as [|nm hdr IH]; intros rows Hrows Hcols Hdates.
    - exists []. repeat split. constructor.
    - cbn [cols_ok] in Hcols. apply andb_true_iff in Hcols. destruct Hcols as [Hc Hcs].
      assert (forall r, In r (map (@tl cell) rows) -> length r = length hdr /\ forallb (cell_ok pr mdt) r = true) as Hrows'.
      { intros r Hr. apply in_map_iff in Hr. destruct Hr as [r0 [<- Hr0]]. destruct (Hrows r0 Hr0) as [Hl Hk].
        destruct r0 as [|c r0]; [discriminate|]. cbn in Hl, Hk |- *. apply andb_true_iff in Hk. split; [lia | tauto]. }
      destruct (IH (map (@tl cell) rows) Hrows' Hcs (fun x Hx => Hdates x (or_intror Hx))) as [outs [F [Hn Hs]]].
      set (cells := map (hd CNaN) rows).
      assert (forallb (cell_ok pr mdt) cells = true) as Hcells.
      { apply forallb_forall. intros c Hcin. unfold cells in Hcin. apply in_map_iff in Hcin. destruct Hcin as [r [<- Hr]].
        destruct (Hrows r Hr) as [Hl Hk]. destruct r as [|c r]; [discriminate|]. cbn in Hk |- *. apply andb_true_iff in Hk. tauto. }
      assert (map (fun r => reparse pr mdt (hd CNaN r)) rows = map (reparse pr mdt) cells) as Hmm by (unfold cells; rewrite map_map; reflexivity).
      rewrite Hmm in Hc.
      destruct (column_cycle pr mdt ns lbl Hlbl nm cells Hcells Hc (Hdates nm (or_introl eq_refl))) as [C1 [C2 [C3 C4]]].
      exists ((nm, map (fin_cell pr mdt nm) cells) :: outs). cbn [length transpose combine map fst snd]. fold cells. repeat split.
      + constructor; [repeat split; assumption | exact F].
      + rewrite Hn. reflexivity.
      + cbn [list_eqb]. rewrite C4, Hs. reflexivity.
  Qed.

  Lemma write_read_cycle_full opts syn ignc nullc hdr rows :
    column_info opts = Ok (mkCols hdr (map (fun _ => false) hdr) syn) ->
    ign_char ignc = hdr_ignchar hdr -> null_string nullc = Ok ns ->
    cycle_guard pr mdt hdr rows = true ->
    exists t, read_model (cycle_input_full pr opts ignc nullc mdt hdr rows) = Ok t /\ table_same t hdr rows = true.
  Proof.
    intros Hci Hign Hnull. unfold cycle_guard. intro G.
    apply andb_true_iff in G. destruct G as [G Gcols]. apply andb_true_iff in G. destruct G as [G Grows].
    apply andb_true_iff in G. destruct G as [G Gne]. apply andb_true_iff in G. destruct G as [G Ghdrc].
    apply andb_true_iff in G. destruct G as [G Gdate]. apply andb_true_iff in G. destruct G as [G Gnames].
    apply andb_true_iff in G. destruct G as [Gn Gnodup].
    apply negb_true_iff in Gdate. apply negb_true_iff in Gne. apply Nat.leb_le in Gn.
    set (ic := hdr_ignchar hdr) in *. set (n := length hdr) in *.
    rewrite forallb_forall in Grows.
    assert (forall r, In r rows -> length r = n /\ forallb (cell_ok pr mdt) r = true /\
                                   comment_line ic (join_comma (map (pr_cell pr mdt) r)) = false) as Hrows.
    { intros r Hr. specialize (Grows r Hr). apply andb_true_iff in Grows. destruct Grows as [Gr Gc]. apply andb_true_iff in Gr.
      destruct Gr as [Gl Gk]. apply Nat.eqb_eq in Gl. apply negb_true_iff in Gc. auto. }
    (* names *)
    assert (forallb (fun nm => negb (is_dropword nm)) hdr = true) as Hnd.
    { revert Gnames. apply forallb_impl. intros nm H. unfold name_ok in H. apply andb_true_iff in H. tauto. }
    assert (toks_ok hdr) as Htokh.
    { split; [destruct hdr; [cbn in Gn; lia | discriminate]|]. intros x Hx. rewrite forallb_forall in Gnames. specialize (Gnames x Hx).
      unfold name_ok in Gnames. apply andb_true_iff in Gnames. destruct Gnames as [Gx _]. apply andb_true_iff in Gx. destruct Gx as [G1 G2].
      split; [destruct x; [discriminate | discriminate] | exact G2]. }
    assert (forall r, In r rows -> toks_ok (map (pr_cell pr mdt) r)) as Htokr.
    { intros r Hr. destruct (Hrows r Hr) as [Hl [Hk _]]. split.
      - destruct r; [cbn in Hl; lia | discriminate].
      - intros x Hx. apply in_map_iff in Hx. destruct Hx as [c [<- Hc]]. rewrite forallb_forall in Hk. apply (cell_ok_tok pr mdt c (Hk c Hc)). }
    set (rowlines := map (fun r => join_comma (map (pr_cell pr mdt) r)) rows).
    (* the text *)
    unfold read_model, cycle_input_full. cbn [i_options i_null i_ignchar i_text i_ignore i_accept i_mdt].
    rewrite Hci. cbn [bind ci_names ci_drop ci_syn]. rewrite Hnull. cbn [bind]. rewrite kept_names_all. rewrite Gnodup. cbn [negb].
    rewrite Hign.
    assert (prefilter ic (csv_text pr mdt hdr rows) = Ok (rowlines, [])) as ->.
    { unfold prefilter. unfold csv_text, csv_lines. fold rowlines.
      rewrite lines_tail_flat.
      2:{ intros l Hl Hin. assert (forallb line_char l = true) as Hlc.
          { destruct Hl as [<-|Hl]; [apply (toks_line hdr Htokh)|]. unfold rowlines in Hl. apply in_map_iff in Hl. destruct Hl as [r [<- Hr]].
            apply (toks_line _ (Htokr r Hr)). }
          rewrite forallb_forall in Hlc. destruct (line_char_facts _ (Hlc _ Hin)) as [_ [F _]]. rewrite N.eqb_refl in F. discriminate. }
      rewrite comment_line_nil. cbn [filter]. rewrite Ghdrc. cbn [negb].
      rewrite filter_all.
      2:{ apply forallb_forall. intros l Hl. unfold rowlines in Hl. apply in_map_iff in Hl. destruct Hl as [r [<- Hr]].
          destruct (Hrows r Hr) as [_ [_ Hc]]. rewrite Hc. reflexivity. }
      match goal with |- (if ?b then _ else _) = _ => assert (b = false) as -> end.
      { apply not_true_is_false. intro F. apply existsb_exists in F. destruct F as [l [Hl Hs]]. apply in_app_or in Hl. destruct Hl as [Hl|[<-|[]]]; [|discriminate].
        unfold rowlines in Hl. apply in_map_iff in Hl. destruct Hl as [r [<- Hr]]. rewrite (has_space_tab_none _ (proj1 (toks_line _ (Htokr r Hr)))) in Hs. discriminate. }
      rewrite blank_error_none; [reflexivity|].
      intros l Hl. unfold rowlines in Hl. apply in_map_iff in Hl. destruct Hl as [r [<- Hr]].
      destruct (toks_line _ (Htokr r Hr)) as [_ [c [rest [E Hc]]]]. rewrite E. cbn [forallb].
      assert (line_char c = true) as Hlc by (unfold line_char; rewrite Hc; reflexivity).
      destruct (line_char_facts c Hlc) as [_ [_ [A [B _]]]]. unfold is_blankc. rewrite A, B. reflexivity. }
    cbn [bind].
    (* rows *)
    assert (raw_rows (rowlines, []) = map (fun r => map (pr_cell pr mdt) r) rows) as ->.
    { unfold raw_rows, file_lines. cbn [fst snd is_nil]. rewrite app_nil_r. rewrite rows_agree.
      - unfold rowlines. rewrite map_map. apply map_ext_in. intros r Hr. apply spec_items_join. apply (Htokr r Hr).
      - intros l Hl. unfold rowlines in Hl. apply in_map_iff in Hl. destruct Hl as [r [<- Hr]]. apply toks_g_row. apply (Htokr r Hr). }
    (* the frame *)
    assert (frame (length hdr) (map (fun r => map (pr_cell pr mdt) r) rows) =
            Ok (map (fun r => map Some (map (pr_cell pr mdt) r)) rows)) as ->.
    { unfold frame. destruct rows as [|r0 rest] eqn:Er; [discriminate|]. cbn [map].
      assert (length (map (pr_cell pr mdt) r0) = n) as Hl0 by (rewrite map_length; apply (Hrows r0); left; reflexivity).
      rewrite Hl0. fold n. rewrite Nat.sub_diag. cbn [repeat]. f_equal. f_equal.
      - rewrite app_nil_r. rewrite firstn_all2 by (rewrite length_shape; lia). apply shape_full. exact Hl0.
      - rewrite map_map. apply map_ext_in. intros r Hr. rewrite app_nil_r. rewrite firstn_all2 by (rewrite length_shape; lia).
        apply shape_full. rewrite map_length. apply (Hrows r). right. exact Hr. }
    cbn [bind filter_ignore_accept].
    (* conversion *)
    rewrite <- (map_map (fun r => map (pr_cell pr mdt) r) (fun s => map Some s)). rewrite mapM_map. rewrite mapM_map.
    rewrite (mapM_map_ok _ (fun r => map (fun nc => icell_of pr mdt (fst nc) (snd nc)) (combine hdr r))).
    2:{ intros r Hr. destruct (Hrows r Hr) as [Hl [Hk _]]. apply (convert_row_cycle pr mdt ns hdr r Hl Hk). }
    cbn [bind].
    rewrite (columns_cycle pr mdt hdr rows (fun r Hr => proj1 (Hrows r Hr))).
    rewrite Gdate.
    destruct (cols_forall2 (id_label hdr) (fun nm H => id_label_is (id_label hdr) hdr nm eq_refl H) hdr rows) as [outs [F [Hn Hs]]].
    - intros r Hr. destruct (Hrows r Hr) as [Hl [Hk _]]. auto.
    - exact Gcols.
    - intros nm Hnm. apply not_true_is_false. intro T. unfold has_date in Gdate.
      assert (existsb (fun d => mems d hdr) date_names = true) as X; [|congruence].
      apply existsb_exists. unfold mems in T. apply existsb_exists in T. destruct T as [d [Hd E]]. apply str_eqb_eq in E. subst d.
      exists nm. split; [exact Hd|]. apply existsb_exists. exists nm. split; [exact Hnm | apply str_eqb_refl].
    - exists outs. split; [apply postprocess_percol; exact F|]. unfold table_same. rewrite Hn, Hs.
      assert (list_eqb str_eqb hdr hdr = true) as ->; [|reflexivity]. clear. induction hdr as [|x l IH]; [reflexivity|]. cbn. rewrite str_eqb_refl. exact IH.
  Qed.

End CycleMain.

Lemma write_read_cycle_opts pr mdt opts syn hdr rows :
  column_info opts = Ok (mkCols hdr (map (fun _ => false) hdr) syn) ->
  cycle_guard pr mdt hdr rows = true ->
  exists t, read_model (cycle_input_opts pr opts mdt hdr rows) = Ok t /\ table_same t hdr rows = true.
Proof.
  intros Hci G. unfold cycle_input_opts. apply (write_read_cycle_full pr mdt [c_0] opts syn); auto.
Qed.

Lemma write_read_cycle_lemma pr mdt hdr rows :
  cycle_guard pr mdt hdr rows = true ->
  exists t, read_model (cycle_input pr mdt hdr rows) = Ok t /\ table_same t hdr rows = true.
Proof.
  intro G. unfold cycle_input. apply (write_read_cycle_opts pr mdt _ []); [|exact G]. apply column_info_plain.
  unfold cycle_guard in G. repeat (apply andb_true_iff in G; destruct G as [G ?]).
  match goal with H : forallb name_ok hdr = true |- _ => revert H end. apply forallb_impl.
  intros nm Hnm. unfold name_ok in Hnm. apply andb_true_iff in Hnm. tauto.
Qed.

(* ---- update_input --------------------------------------------------------------------------------------- *)
(* one option of $INPUT seen by column_info_from: an option that does not fail moves the state on *)
Lemma column_info_from_cons o tl k names drops syn ci :
  column_info_from (o :: tl) k names drops syn = Ok ci ->
  exists k' nm syn', column_info_from (o :: tl) k names drops syn = column_info_from tl k' (nm :: names) (opt_drop o :: drops) syn' /\
                     (forall x, given_names [o] = [Some x] -> nm = x).
Proof.
  destruct o as [key [value|]]; cbn [column_info_from opt_drop given_names].
  - destruct (is_dropword key) eqn:E1; [intros _; exists k, value, syn; split; [reflexivity | intros x Hx; inversion Hx; reflexivity]|].
    destruct (is_dropword value) eqn:E2; [intros _; exists k, key, syn; split; [reflexivity | intros x Hx; inversion Hx; reflexivity]|].
    destruct (mems key reserved_names) eqn:E3; [intros _; exists k, value, ((key, value) :: syn); split; [reflexivity | intros x Hx; inversion Hx; reflexivity]|].
    destruct (mems value reserved_names) eqn:E4; [|discriminate].
    intros _. exists k, key, ((value, key) :: syn). split; [reflexivity | intros x Hx; inversion Hx; reflexivity].
  - destruct (is_dropword key) eqn:E1.
    + intros _. exists (S k), (s__DROP ++ nat_digits k), syn. split; [reflexivity | intros x Hx; inversion Hx].
    + intros _. exists k, key, syn. split; [reflexivity | intros x Hx; inversion Hx; reflexivity].
Qed.

Lemma given_names_cons o tl : given_names (o :: tl) = given_names [o] ++ given_names tl.
Proof. destruct o as [key [value|]]; reflexivity. Qed.

Lemma given_single o : exists g, given_names [o] = [g].
Proof. destruct o as [key [value|]]; eexists; reflexivity. Qed.

Lemma update_input_plain_from : forall new old k names drops syn k0 names0 drops0 syn0 ci0,
  column_info_from old k0 names0 drops0 syn0 = Ok ci0 ->
  g_no_anon old (length new) = true -> g_no_same_dropped old new = true ->
  forallb (fun nm => negb (is_dropword nm)) new = true ->
  exists syn',
    column_info_from (update_input_from old (given_names old) (map opt_drop old) (map (fun nm => (nm, false)) new)) k names drops syn =
    Ok (mkCols (rev names ++ new) (rev drops ++ map (fun _ => false) new) syn').
Proof.
  induction new as [|nm new IH]; intros old k names drops syn k0 names0 drops0 syn0 ci0 Hold Hanon Hsame Hplain.
  - exists syn. cbn. rewrite !app_nil_r. reflexivity.
  - cbn [forallb] in Hplain. apply andb_true_iff in Hplain. destruct Hplain as [Hnm Hplain]. apply negb_true_iff in Hnm.
    destruct old as [|o old].
    + (* appended columns *)
      cbn [update_input_from given_names map]. exists syn.
      change ((nm, @None str) :: map (fun x : str * bool => (fst x, if snd x then Some s_DROP else None)) (map (fun nm0 => (nm0, false)) new))
        with (map (fun x : str * bool => (fst x, if snd x then Some s_DROP else @None str)) (map (fun nm0 => (nm0, false)) (nm :: new))).
      rewrite map_map. cbn [fst snd].
      apply (column_info_plain_from (nm :: new) k names drops syn). cbn [forallb]. rewrite Hnm. exact Hplain.
    + destruct (column_info_from_cons o old k0 names0 drops0 syn0 ci0 Hold) as [k1 [n1 [syn1 [Estep Hgiven]]]].
      pose proof Hold as Hold0. rewrite Estep in Hold.
      rewrite given_names_cons. destruct (given_single o) as [g Hg]. rewrite Hg. cbn [app map update_input_from].
      unfold g_no_anon in Hanon. rewrite given_names_cons, Hg in Hanon. cbn [length firstn app forallb] in Hanon.
      apply andb_true_iff in Hanon. destruct Hanon as [Hg1 Hanon]. destruct g as [x|]; [|discriminate].
      unfold g_no_same_dropped in Hsame. cbn [combine forallb fst snd] in Hsame. apply andb_true_iff in Hsame. destruct Hsame as [Hs1 Hsame].
      rewrite Hg in Hs1. rewrite andb_false_r, orb_false_r.
      destruct (str_eqb x nm) eqn:Ex; cbn [negb].
      * (* the old option is kept: it names the new column and does not drop it *)
        apply str_eqb_eq in Ex. subst x. rewrite andb_true_r in Hs1. apply negb_true_iff in Hs1.
        (* o does not fail whatever the state *)
        assert (exists k' syn', forall tl, column_info_from (o :: tl) k names drops syn = column_info_from tl k' (nm :: names) (false :: drops) syn') as [k' [syn' Ho]].
        { clear -Hg Hs1 Hold0. destruct o as [key [value|]]; cbn [given_names opt_drop] in Hg, Hs1; cbn [column_info_from] in Hold0 |- *.
          - apply orb_false_iff in Hs1. destruct Hs1 as [E1 E2]. rewrite E1, E2 in *.
            destruct (mems key reserved_names) eqn:E3; inversion Hg; subst.
            + exists k, ((key, nm) :: syn). intro tl. reflexivity.
            + destruct (mems value reserved_names) eqn:E4; [|discriminate]. exists k, ((value, nm) :: syn). intro tl. reflexivity.
          - rewrite Hs1 in *. inversion Hg. subst. exists k, syn. intro tl. reflexivity. }
        rewrite Ho.
        destruct (IH old k' (nm :: names) (false :: drops) syn' k1 (n1 :: names0) (opt_drop o :: drops0) syn1 ci0 Hold Hanon Hsame Hplain) as [syn'' E].
        exists syn''. rewrite E. cbn [rev]. rewrite <- !app_assoc. reflexivity.
      * (* replaced by the plain new name *)
        cbn [andb]. cbn [column_info_from]. rewrite Hnm.
        destruct (IH old k (nm :: names) (false :: drops) syn k1 (n1 :: names0) (opt_drop o :: drops0) syn1 ci0 Hold Hanon Hsame Hplain) as [syn'' E].
        exists syn''. rewrite E. cbn [rev]. rewrite <- !app_assoc. reflexivity.
Qed.

Lemma column_info_drops : forall old k names drops syn ci,
  column_info_from old k names drops syn = Ok ci -> ci_drop ci = rev drops ++ map opt_drop old.
Proof.
  induction old as [|o old IH]; intros k names drops syn ci H.
  - cbn in H. inversion H. cbn. rewrite app_nil_r. reflexivity.
  - destruct (column_info_from_cons o old k names drops syn ci H) as [k1 [n1 [syn1 [E _]]]]. rewrite E in H.
    rewrite (IH _ _ _ _ _ H). cbn [rev map]. rewrite <- app_assoc. reflexivity.
Qed.

Lemma update_input_plain_lemma old ci new :
  column_info old = Ok ci ->
  g_no_anon old (length new) = true -> g_no_same_dropped old new = true ->
  forallb (fun nm => negb (is_dropword nm)) new = true ->
  exists syn, column_info (update_input_model old (ci_drop ci) (map (fun nm => (nm, false)) new)) =
              Ok (mkCols new (map (fun _ => false) new) syn).
Proof.
  intros Hci Ha Hs Hp. unfold update_input_model. unfold column_info in *.
  rewrite (column_info_drops old 1 [] [] [] ci Hci). cbn [rev app].
  apply (update_input_plain_from new old 1 [] [] [] 1 [] [] [] ci Hci Ha Hs Hp).
Qed.

Lemma write_read_cycle_updated_lemma (pr : Q -> str) mdt old ci hdr rows :
  column_info old = Ok ci ->
  g_no_anon old (length hdr) = true -> g_no_same_dropped old hdr = true ->
  cycle_guard pr mdt hdr rows = true ->
  exists t, read_model (cycle_input_opts pr (update_input_model old (ci_drop ci) (map (fun nm => (nm, false)) hdr)) mdt hdr rows) = Ok t /\
            table_same t hdr rows = true.
Proof.
  intros Hci Ha Hs G.
  assert (forallb (fun nm => negb (is_dropword nm)) hdr = true) as Hp.
  { pose proof G as G'. unfold cycle_guard in G'. repeat (apply andb_true_iff in G'; destruct G' as [G' ?]).
    match goal with H : forallb name_ok hdr = true |- _ => revert H end. apply forallb_impl.
    intros nm Hnm. unfold name_ok in Hnm. apply andb_true_iff in Hnm. tauto. }
  destruct (update_input_plain_lemma old ci hdr Hci Ha Hs Hp) as [syn E].
  apply (write_read_cycle_opts pr mdt _ syn hdr rows E G).
Qed.

(* ---- update_source: the filtered cycle ------------------------------------------------------------------ *)
Lemma ign_char_set c tok : ign_char (set_ignchar c tok) = c.
Proof.
  unfold set_ignchar. destruct tok as [[|x tl]|]; try reflexivity.
  match goal with |- context [if ?b then _ else _] => destruct b eqn:E end; [apply N.eqb_eq in E; exact E | reflexivity].
Qed.

Lemma write_read_cycle_filtered_lemma (pr : Q -> str) old ci ns mdt hdr rows :
  column_info (i_options old) = Ok ci -> null_string (i_null old) = Ok ns ->
  g_no_anon (i_options old) (length hdr) = true -> g_no_same_dropped (i_options old) hdr = true ->
  cycle_guard pr mdt hdr rows = true ->
  (exists t, read_model (written_input pr true true old ci mdt hdr rows) = Ok t /\ table_same t hdr rows = true) /\
  i_ignore (written_input pr true true old ci mdt hdr rows) = [] /\
  i_accept (written_input pr true true old ci mdt hdr rows) = [] /\
  (forall renamed, written_input pr false renamed old ci mdt hdr rows = old).
Proof.
  intros Hci Hnull Ha Hs G. split; [|repeat split].
  assert (forallb (fun nm => negb (is_dropword nm)) hdr = true) as Hp.
  { pose proof G as G'. unfold cycle_guard in G'. repeat (apply andb_true_iff in G'; destruct G' as [G' ?]).
    match goal with H : forallb name_ok hdr = true |- _ => revert H end. apply forallb_impl.
    intros nm Hnm. unfold name_ok in Hnm. apply andb_true_iff in Hnm. tauto. }
  destruct (update_input_plain_lemma (i_options old) ci hdr Hci Ha Hs Hp) as [syn E].
  unfold written_input, update_data, data_of. cbn [d_ignchar d_null d_ignore d_accept].
  apply (write_read_cycle_full pr mdt ns _ syn (set_ignchar (hdr_ignchar hdr) (i_ignchar old)) (i_null old) hdr rows E);
    [apply ign_char_set | exact Hnull | exact G].
Qed.
