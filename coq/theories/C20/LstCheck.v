(* PV.C20.LstCheck — comparison run inside Coq for .lst files: the model (C20.Lst) re-run on the text against what the
   real NONMEMResultsFile reports (tag 8), the reported facts against what the reference writer wrote (tag 30), the
   Python writer against the Coq renderer (tag 9). *)
From Coq Require Import List NArith ZArith QArith Bool Arith.
From PV Require Import C20.Model C20.Check C20.Lst.
Import ListNotations.
Local Open Scope nat_scope.

Record lobs := mkLObs {
  lo_found : bool;
  lo_min : option bool; lo_near : option bool; lo_round : option bool; lo_maxev : option bool; lo_warn : option bool;
  lo_sig : option lval; lo_fev : option lval; lo_ofvc : option lval;
  lo_cov : option bool; lo_time : option lval; lo_meth : option text
}.

Inductive lobs_file :=
| LObsRaise
| LObsUnsupported
| LObsOk (version : text) (l : list (N * lobs)).

Record lcase := mkL {
  lc_text : text;
  lc_numbers : list N;
  lc_written : option (text * list wblock);       (* version, blocks *)
  lc_obs : lobs_file
}.

Definition obool_eqb (a b : option bool) : bool := opt_eqb Bool.eqb a b.
(* model value (exact decimal) against the float python reports *)
Definition lval_match (m o : lval) : bool :=
  match m, o with
  | LNum q, LNum x => Qeq_bool q x || match round_b64 q with Some y => Qeq_bool y x | None => false end
  | LNaN, LNaN => true
  | _, _ => false
  end.
Definition olval_match (m o : option lval) : bool := opt_eqb lval_match m o.

(* estimation_status / covariance_status / table[n] as the model predicts them *)
Definition expected_obs (f : lst_facts) : lobs :=
  if lf_found f then
    match lf_term f with
    | Some r => mkLObs true (tm_min_success r) (tm_near_boundary r) (tm_rounding r) (tm_maxevals r) (tm_warning r)
                       (Some (tm_sig_digits r)) (Some (tm_fevals r)) (tm_ofv_const r) (lf_cov_ok f) (lf_est_time f) (lf_meth f)
    | None => mkLObs true None None None None None None None None (lf_cov_ok f) (lf_est_time f) (lf_meth f)
    end
  else mkLObs false (Some false) None None None None (Some LNaN) (Some LNaN) None (Some false) None None.

Definition lobs_match (m o : lobs) : bool :=
  Bool.eqb (lo_found m) (lo_found o) && obool_eqb (lo_min m) (lo_min o) && obool_eqb (lo_near m) (lo_near o) &&
  obool_eqb (lo_round m) (lo_round o) && obool_eqb (lo_maxev m) (lo_maxev o) && obool_eqb (lo_warn m) (lo_warn o) &&
  olval_match (lo_sig m) (lo_sig o) && olval_match (lo_fev m) (lo_fev o) && olval_match (lo_ofvc m) (lo_ofvc o) &&
  obool_eqb (lo_cov m) (lo_cov o) && olval_match (lo_time m) (lo_time o) && opt_eqb text_eqb (lo_meth m) (lo_meth o).

Definition lcorrespondence (c : lcase) : list nat :=
  match read_lst (lc_text c) (lc_numbers c), lc_obs c with
  | LstRaise, LObsRaise => []
  | LstNoVersion, LObsUnsupported => []
  | LstOk v fs, LObsOk v' os =>
      tag (text_eqb v v' &&
           list_eqb (fun a b => N.eqb (fst a) (fst b) && lobs_match (expected_obs (snd a)) (snd b)) fs os) 8
  | _, _ => [8]
  end.

Definition loracle (c : lcase) : list nat :=
  match lc_written c with
  | None => []
  | Some (v, bs) =>
      tag (text_eqb (render_lst v bs) (lc_text c)) 9 ++
      match lc_obs c with
      | LObsOk v' os =>
          tag (text_eqb v v' &&
               forallb (fun b => match find (fun no => N.eqb (fst no) (digits_val (wb_number b))) os with
                                 | Some no => lobs_match (expected_obs (facts_of_wblock b)) (snd no)
                                 | None => false end) bs) 30
      | _ => [30]
      end
  end.

(* 211: the file lies in the domain (version_ok, wblock_ok) of the row-level theorems parse_render_lst_term / parse_render_lst_tere *)
Definition lguards (c : lcase) : list nat :=
  match lc_written c with
  | Some (v, bs) => tag (negb (version_ok v && forallb wblock_ok bs)) 211
  | None => []
  end.

Definition lverdict (c : lcase) : list nat := lcorrespondence c ++ loracle c ++ lguards c.
