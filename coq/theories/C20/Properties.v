(* PV.C20.Properties — the property theorems of C20 (estimation results are read faithfully from NONMEM output)
   and nothing else.  Every statement is about the executable model C20.Model, which the correspondence check
   ties to pharmpy's NONMEMTableFile / ExtTable / CovTable / PhiTable / results._parse_* on generated output. *)
From Coq Require Import List NArith ZArith QArith Qround Bool Arith.
From PV Require Import C20.Model C20.Proofs.
Import ListNotations.
Local Open Scope nat_scope.

(* ---- reading the file and splitting it into tables ---------------------------------------------------- *)

(* Iterating over the lines loses nothing: the lines (with their line ends) concatenate to the text. *)
Theorem lines_concat : forall t : text, concat (lines t) = t.
Proof. exact lines_concat. Qed.

(* Splitting on "TABLE NO." lines loses and reorders nothing: the tables, concatenated, are the lines of the file;
   on the text level: all characters of the file, in order.  For every text (no well-formedness needed). *)
Theorem split_tables_concat : forall t : text, concat (concat (split_tables (lines t))) = t.
Proof. exact split_tables_text. Qed.

Theorem split_tables_concat_lines : forall ls : list text, concat (split_tables ls) = ls.
Proof. exact split_tables_concat_lemma. Qed.

(* table_starts: (1) every table after the first starts with a line that starts with "TABLE NO.";
   (2) so does the first one when the file starts with such a line; (3) inside a table no line but the first
   is a "TABLE NO." line; (4) no table is empty; (5) their number is the number of "TABLE NO." lines (plus one
   when the file does not start with one). *)
Theorem table_starts_later : forall (ls : list text) (t : list text),
    In t (tl (split_tables ls)) -> exists l r, t = l :: r /\ is_table_line l = true.
Proof. intros ls t H. exact (split_from_later_start ls [] t H). Qed.

Theorem table_starts_first : forall (l : text) (rest : list text),
    is_table_line l = true ->
    exists r, hd [] (split_tables (l :: rest)) = l :: r.
Proof.
  intros l rest E. destruct (split_first_start l rest E) as [l' [r [H1 H2]]].
  exists r. rewrite H1. f_equal.
  (* the head line is l itself *)
  unfold split_tables in H1. cbn [split_from] in H1. rewrite E in H1.
  assert (G : forall ls c, exists r0, hd [] (split_from (l :: c) ls) = l :: r0).
  { clear. induction ls as [|x xs IHx]; intros c.
    - cbn. eexists; reflexivity.
    - cbn [split_from]. destruct (is_table_line x).
      + cbn. eexists; reflexivity.
      + cbn [app]. apply IHx. }
  destruct (G rest []) as [r0 Hr0]. rewrite Hr0 in H1. inversion H1. reflexivity.
Qed.

Theorem table_starts_only_first : forall (ls : list text) (t : list text),
    In t (split_tables ls) -> Forall (fun x => is_table_line x = false) (tl t).
Proof. intros ls t H. apply (split_from_tail_clean ls []); [constructor|exact H]. Qed.

Theorem tables_nonempty : forall (ls : list text) (t : list text), ls <> [] -> In t (split_tables ls) -> t <> [].
Proof. intros ls t Hne H. apply (split_from_nonempty ls [] t); [right; exact Hne|exact H]. Qed.

Theorem table_count : forall (l : text) (rest : list text),
    length (split_tables (l :: rest)) =
    count_occ bool_dec (map is_table_line (l :: rest)) true + (if is_table_line l then 0 else 1).
Proof. intros l rest. unfold split_tables. rewrite split_from_count. reflexivity. Qed.

(* Text mode: after newline translation there is no carriage return left, and a file without carriage returns
   is read as it is. *)
Theorem universal_newlines_no_cr : forall t : text, existsb (N.eqb c_cr) (universal_newlines t) = false.
Proof. exact universal_newlines_no_cr. Qed.
Theorem universal_newlines_id : forall t : text, existsb (N.eqb c_cr) t = false -> universal_newlines t = t.
Proof. exact universal_newlines_id. Qed.

(* ---- parse (render x) = x ------------------------------------------------------------------------------ *)

(* One record of the reference writer (every field right justified in its 13 / 22 character field, strictly
   shorter than the field) is split into exactly the written fields — whatever the field widths leave of blanks;
   in particular a negative number never merges with the field before it as long as it fits its field. *)
Theorem tokens_render_row : forall (lastwide : bool) (cells : list wnum),
    row_ok lastwide cells = true -> tokens (render_cells lastwide cells) = map wnum_text cells.
Proof. intros lw cells H. exact (proj1 (render_cells_tokens lw cells H)). Qed.

Theorem tokens_render_labels : forall labels : list text,
    labels_ok labels = true -> tokens (render_labels_aux labels) = labels.
Proof. intros labels H. exact (proj1 (render_labels_tokens labels H)). Qed.

(* Every number of the documented shapes is classified and valued exactly as written: integers as integers,
   d.dddddE+dd and plain decimals as the exact rational their digits denote. *)
Theorem number_as_written : forall (w : nat) (x : wnum),
    wnum_ok w x = true -> cell_of (is_wstr x) (Some (wnum_text x)) = wcell x.
Proof. exact cell_of_wnum. Qed.

(* parse_render (one table body): for every written table whose body is well formed (label line, every record
   with as many fields as labels, every number of a documented shape and narrower than its field, every column
   all numbers or all names, distinct labels) reading the rendered text gives back exactly the labels, the
   row numbers 0,1,2,... and the values written — exact rationals, so equality is on the printed precision. *)
Theorem parse_render_body : forall t : wtable,
    wbody_ok t = true -> read_frame (render_body t) = ROk (frame_of_wtable t).
Proof. exact read_frame_render_lemma. Qed.

(* The title line: every title of the documented shape (number, method without colon, optional design-optimality
   word, optional goal function, the six problem / iteration counters) is read back field by field; the lazy and
   greedy groups of the regular expression pick exactly the written pieces. *)
Theorem parse_title_render : forall t : wtitle,
    wtitle_ok t = true -> parse_title (render_title t) = Some (title_of_wtitle t).
Proof. exact parse_title_render_lemma. Qed.

(* "[A-Z]*OBJ" -> "OBJ" on a table body changes nothing but the last label (SAEMOBJ, MCMCOBJ -> OBJ) *)
Theorem obj_renaming_only : forall t : wtable,
    wbody_ok t = true -> labels_obj_ok (w_labels t) = true -> forallb (forallb wstr_no_J) (w_rows t) = true ->
    sub_obj (render_body t) = render_body (with_labels t (labels_as_read SExt (w_labels t))).
Proof. intros t H1 H2 H3. exact (proj1 (sub_obj_render_body_lemma t H1 H2 H3)). Qed.

(* parse_render — THE round trip: for every suffix (ext, phi, cov/cor/coi, $TABLE) and every well-formed written
   file (one or more tables, each with its title line; for $TABLE files label lines repeated every k records, or —
   read with nolabel, as read_modelfit_results does for $TABLE ... NOLABEL — no label line at all; negative numbers,
   22 wide last column, ...) reading the rendered text gives exactly the written tables: numbers (title), methods,
   labels (with the OBJ renaming for ext/phi; column numbers when there is no label line), row numbers and exact
   values.  No record is lost: the guard "every table carries its label line" of the first version of this theorem
   (finding C20-NOHEADER-FIRST-ROW, fixed in 5f0fde5) is gone. *)
Theorem parse_render : forall (sfx : suffix) (nolabel : bool) (ws : list wtable),
    wfile_ok sfx nolabel ws = true ->
    read_table_file sfx false nolabel (render_wfile ws) = ROk (map (table_of_wtable sfx nolabel) ws).
Proof. exact parse_render_file_lemma. Qed.

(* ... and the same file with CR LF line ends (NONMEM on Windows) reads identically *)
Theorem parse_render_crlf : forall (sfx : suffix) (nolabel : bool) (ws : list wtable),
    wfile_ok sfx nolabel ws = true ->
    read_table_file sfx false nolabel (crlf (render_wfile ws)) = ROk (map (table_of_wtable sfx nolabel) ws).
Proof. exact parse_render_crlf_lemma. Qed.

(* $TABLE ... NOTITLE (label line, no title) and NOHEADER (neither title nor labels), read with notitle and
   nolabel accordingly: one table, every record kept *)
Theorem parse_render_notitle : forall (sfx : suffix) (nolabel : bool) (t : wtable),
    wtable_notitle_ok nolabel t = true ->
    read_table_file sfx true nolabel (render_wtable t) = ROk [mkTable None (frame_as_read SOther nolabel t)].
Proof. exact parse_render_notitle_lemma. Qed.

(* ---- the rows NONMEM designates -------------------------------------------------------------------------- *)

(* ext_final_row: final_parameter_estimates, when it answers, answers with the entries (ITERATION and OBJ removed)
   of THE row whose ITERATION is -1000000000; when no row carries that code, with the row of the largest
   non-negative iteration. *)
Theorem ext_final_row : forall (g : frame) (l : list (text * cell)),
    final_parameter_estimates g = ROk l ->
    (exists i r, In (i, r) (f_rows g) /\ row_has_code g code_final (i, r) = true /\
                 (forall ir, In ir (f_rows g) -> row_has_code g code_final ir = true -> ir = (i, r)) /\
                 l = drop_first_last (combine (f_cols g) r))
    \/
    ((forall ir, In ir (f_rows g) -> row_has_code g code_final ir = false) /\
     exists m i r, In (i, r) (f_rows g) /\ row_iter_is g m (i, r) = true /\ Qle_bool 0 m = true /\
                   (forall ir q, In ir (f_rows g) -> cell_at (snd ir) (index_of s_ITERATION (f_cols g)) = CNum q ->
                                 Qle_bool 0 q = true -> Qle_bool q m = true) /\
                   l = drop_first_last (combine (f_cols g) r)).
Proof. exact ext_final_row_lemma. Qed.

(* ext_se_row: standard errors are the entries of the unique row -1000000001 ... *)
Theorem ext_se_row : forall (g : frame) (l : list (text * cell)),
    standard_errors g = ROk l ->
    exists i r, In (i, r) (f_rows g) /\ row_has_code g code_se (i, r) = true /\
                (forall ir, In ir (f_rows g) -> row_has_code g code_se ir = true -> ir = (i, r)) /\
                l = drop_first_last (combine (f_cols g) r).
Proof. exact ext_se_row_lemma. Qed.

(* ... and a KeyError is raised exactly when no row carries the code (any code, any selection) *)
Theorem ext_row_missing : forall (g : frame) (z : Z) (th : bool),
    get_parameters g z th = RErr 3%N <-> (forall ir, In ir (f_rows g) -> row_has_code g z ir = false).
Proof. exact get_parameters_keyerror. Qed.

(* ext_fixed_row: the fixed flags are row -1000000006, anything but 0 meaning fixed *)
Theorem ext_fixed_row : forall (g : frame) (l : list (text * bool)),
    fixed_flags g = ROk l ->
    exists i r, In (i, r) (f_rows g) /\ row_has_code g code_fixed (i, r) = true /\
                (forall ir, In ir (f_rows g) -> row_has_code g code_fixed ir = true -> ir = (i, r)) /\
                l = map (fun nc => (fst nc, cell_truthy (snd nc))) (drop_first_last (combine (f_cols g) r)).
Proof. exact ext_fixed_row_lemma. Qed.

(* ExtTable.final_ofv is the OBJ entry of the unique row -1000000000 (or there is no such row: fallback) *)
Theorem ext_final_ofv_row : forall (g : frame) (c : cell),
    final_ofv g = ROk c ->
    (exists i r, In (i, r) (f_rows g) /\ row_has_code g code_final (i, r) = true /\
                 (forall ir, In ir (f_rows g) -> row_has_code g code_final ir = true -> ir = (i, r)) /\ c = obj_cell g r)
    \/ (forall ir, In ir (f_rows g) -> row_has_code g code_final ir = false).
Proof. exact ext_final_ofv_lemma. Qed.

(* results._get_iter_df: when the final row repeats the objective value of the last printed iteration, the iteration
   frame is exactly the printed (non-negative) iterations, unchanged — whether or not iteration 0 is among them
   (the guard g_has_iter0 of the first version, finding C20-NO-ITER0, is gone after 54e76a4) ... *)
Theorem iter_df_printed : forall g : frame,
    g_final_obj_eq_last g = true ->
    get_iter_df g = ROk (mkFrame (f_cols g) (filter (fun ir => cell_ge0 (iter_cell g (snd ir))) (f_rows g))).
Proof. exact iter_df_printed_iterations. Qed.

(* a table that prints no iteration at all (optimal design evaluation): the final row becomes iteration 0 *)
Theorem iter_df_final_only : forall g : frame,
    existsb cell_ge0 (col_cells g s_ITERATION) = false -> existsb (cell_is code_final) (col_cells g s_ITERATION) = true ->
    get_iter_df g = ROk (mkFrame (f_cols g)
                           (set_first_label 0 (fun r => set_iter g r 0) (number_from 0 (map snd (rows_with g code_final))))).
Proof. intros g H1 H2. unfold get_iter_df. rewrite H1, H2. reflexivity. Qed.

(* ... and the objective value reported for the run (results._parse_ofv) is the OBJ entry of the row NONMEM
   designates — for ANY number of tables in the ext file: the last table that is not an optimal-design table
   decides, whatever the earlier tables contain.  The remaining guard is needed: see Refuted.v. *)
Theorem ofv_designated : forall (ts : list table) (k : nat) (t : table) (g : frame) (c : cell)
                                (entries : list (nat * cell * cell)),
    last_opt (est_tables ts) = Some (k, t) -> ext_data_frame (tb_frame t) = ROk g ->
    g_final_obj_eq_last g = true ->
    parse_ofv ts = ROk (c, entries) ->
    exists i r, In (i, r) (f_rows g) /\ row_has_code g code_final (i, r) = true /\
                (forall ir, In ir (f_rows g) -> row_has_code g code_final ir = true -> ir = (i, r)) /\
                c = obj_cell g r.
Proof.
  intros ts k t g c entries Hl Hg HF H.
  apply get_ofv_row. exact (ofv_designated_any_lemma ts k t g c entries Hl Hg HF H).
Qed.

(* ... and so are the run's parameter estimates (results._parse_parameter_estimates), again for any number of
   tables: the entries of the designated row of the last estimation table (ext_final_row), minus the columns that
   row -1000000006 (or, without it, the model) marks as fixed, renamed through the model's name map; only when the
   last printed iteration of that table has no value in any estimated column NaN is reported under those names. *)
Theorem pe_designated : forall (ts : list table) (k : nat) (t : table) (g : frame) (pfix : list (text * bool))
                               (nm : list (text * text)) (fpe : list (text * cell)) (cols : list text)
                               (rows : list (nat * cell * list cell)) (sd : option (list (text * cell))),
    last_opt (est_tables ts) = Some (k, t) -> ext_data_frame (tb_frame t) = ROk g ->
    g_final_obj_eq_last g = true ->
    parse_parameter_estimates ts pfix nm = ROk (fpe, cols, rows, sd) ->
    exists fx i rl,
      get_fixed_parameters g pfix nm = ROk fx /\
      last_opt (filter (fun ir => cell_ge0 (iter_cell g (snd ir))) (f_rows g)) = Some (i, rl) /\
      let pcols := drop_first_last (f_cols g) in
      let lastvals := keep_mask (keep_of fx pcols) (drop_first_last rl) in
      if forallb is_nan lastvals
      then fpe = combine cols lastvals
      else exists fe, final_parameter_estimates g = ROk fe /\
                      fpe = map (fun nc => (rename_with nm (fst nc), snd nc)) (drop_names (fixed_names_of fx pcols) fe).
Proof. exact pe_designated_any_lemma. Qed.

(* se_designated (results._parse_standard_errors, any number of tables: the LAST table of the file decides, design
   tables included): with rows -1000000001 and -1000000005 the standard errors are the former's entries and the
   sd/corr variant takes the latter's OMEGA/SIGMA entries, fixed columns dropped, model names; without row
   -1000000001 nothing is reported; with -1000000001 but without -1000000005 the covariance step counts as aborted. *)
Theorem se_designated : forall (ts : list table) (t : table) (g : frame) (pfix : list (text * bool))
                               (nm : list (text * text)) (ses sesd : option (list (text * cell))) (abort : bool),
    last_opt ts = Some t -> ext_data_frame (tb_frame t) = ROk g ->
    parse_standard_errors ts pfix nm = ROk (ses, sesd, abort) ->
    (exists fx se_row sd_row,
        get_fixed_parameters g pfix nm = ROk fx /\ standard_errors g = ROk se_row /\
        omega_sigma_se_stdcorr g = ROk sd_row /\
        ses = Some (renamed nm (not_fixed fx se_row)) /\
        sesd = Some (update_with (renamed nm (not_fixed fx se_row)) (renamed nm (not_fixed fx sd_row))) /\ abort = false)
    \/ (standard_errors g = RErr 3%N /\ ses = None /\ sesd = None /\ abort = false)
    \/ (exists se_row, standard_errors g = ROk se_row /\ omega_sigma_se_stdcorr g = RErr 3%N /\
                        ses = None /\ sesd = None /\ abort = true).
Proof. exact se_designated_lemma. Qed.

(* ---- cov / cor / coi ---------------------------------------------------------------------------------------- *)

(* cov_drop_fixed_exact: CovTable.data_frame is the full matrix in pharmpy's parameter order restricted to
   exactly the rows with a non-zero entry and the columns with a non-zero entry — no other row or column is
   dropped, the remaining entries and labels are untouched and keep their order. *)
Theorem cov_drop_fixed_exact : forall (f : frame) (m : matrix) (names : list text),
    cov_data_frame f = ROk m -> cov_names f = Some names ->
    let L := cov_labels f in
    let V := cov_full f names in
    m_rows m = map (fun i => rename_theta (nth i L [])) (kept_rows V) /\
    m_cols m = map (fun j => rename_theta (nth j L [])) (kept_cols V (length L)) /\
    m_vals m = map (fun i => map (fun j => nth j (nth i V []) CNaN) (kept_cols V (length L))) (kept_rows V).
Proof. exact cov_drop_fixed_exact_lemma. Qed.

(* for a symmetric matrix the surviving rows and columns coincide (square result, same labels both ways) *)
Theorem cov_symmetric_square : forall (V : list (list cell)) (n : nat),
    length V = n -> (forall i, i < n -> length (nth i V []) = n) ->
    (forall i j, i < n -> j < n -> nth j (nth i V []) CNaN = nth i (nth j V []) CNaN) ->
    kept_rows V = kept_cols V n.
Proof. exact cov_symmetric_same_kept. Qed.

(* matrix_designated (results._parse_matrix for .cov / .cor / .coi): the matrix reported is CovTable.data_frame
   (cov_drop_fixed_exact: exactly the all-zero rows / columns dropped) of the table whose number is the LAST table
   number of the ext file, rows AND columns labelled with the renamed row labels. *)
Theorem matrix_designated : forall (raw : text) (nm : list (text * text)) (tn : list N) (m : matrix),
    parse_matrix (Some raw) nm tn = ROk (Some m) ->
    exists tables n tb m0,
      read_table_file SCov false false raw = ROk tables /\ last_opt tn = Some n /\
      find (fun tb => N.eqb (number_of tb) n) tables = Some tb /\
      cov_data_frame (tb_frame tb) = ROk m0 /\ length (m_rows m0) = length (m_cols m0) /\
      m = mkMatrix (map (rename_with nm) (m_rows m0)) (map (rename_with nm) (m_rows m0)) (m_vals m0).
Proof. exact matrix_designated_lemma. Qed.

(* ---- phi: triangular numbers and the symmetric matrix ---------------------------------------------------------- *)

(* triangular_root_correct, for every n (integer model of floor(sqrt(2x)); the float engine is compared in the tie) *)
Theorem triangular_root_correct : forall n : N, triangular_root (n * (n + 1) / 2) = n.
Proof. exact triangular_root_correct_lemma. Qed.

Theorem triangular_root_is_floor_sqrt : forall x : N,
    let r := triangular_root x in (r * r <= 2 * x < (r + 1) * (r + 1))%N.
Proof. exact triangular_root_spec. Qed.

(* flattened_symmetric: a vector of n(n+1)/2 entries becomes an n x n matrix that is symmetric and carries entry
   k = r(r+1)/2 + c of the vector at (r, c) and (c, r), for all c <= r < n; any element type, any n. *)
Theorem flattened_symmetric : forall (A : Type) (z : A) (x : list A) (n : nat),
    length x = n * (n + 1) / 2 ->
    exists m, flattened_to_symmetric z x = Some m /\ dims m n /\
      forall r c, c <= r -> r < n ->
        mget z m r c = nth (r * (r + 1) / 2 + c) x z /\ mget z m c r = nth (r * (r + 1) / 2 + c) x z.
Proof. intros A z x n H. exact (flattened_symmetric_lemma z x n H). Qed.

(* phi_designated (results._parse_phi): individual OFV, estimates and their covariances come from the last phi
   table that is not an optimal-design table: the individuals with any non-zero entry, ID and OBJ as written, the
   ETA / PHI columns unchanged under the model's eta names, and per individual the symmetric matrix of the flattened
   ETC / PHC columns (phi_etcs_symmetric + flattened_symmetric), re-ordered like the model's etas. *)
Theorem phi_designated : forall (raw : text) (nm : list (text * text)) (rv : list text) (pr : phi_results),
    parse_phi (Some raw) nm rv = ROk (Some pr) ->
    exists tables tb keys idx mats c0,
      read_table_file SPhi false false raw = ROk tables /\
      last_opt (filter (fun tb => match design_of tb with None => true | Some _ => false end) tables) = Some tb /\
      let v := phi_view_of (tb_frame tb) in
      pr_ids pr = p_ids v /\ pr_iofv pr = p_iofv v /\ pr_ie pr = p_etas v /\
      p_eta_names v = c0 :: tl (p_eta_names v) /\
      pr_ie_cols pr = map (rename_with (map (fun ia => (paren_name (firstn 3 c0) (fst ia), snd ia)) (number_from 1 rv)))
                          (p_eta_names v) /\
      rsequence (p_etcs v) = Some mats /\
      rsequence (map (alookup nm) (p_etc_names v)) = Some keys /\
      rsequence (map (fun r => index_of r keys) rv) = Some idx /\
      pr_iec pr = map (select_sub idx) mats.
Proof. exact phi_designated_lemma. Qed.

Theorem phi_etcs_are_symmetric : forall (f : frame) (k n : nat) (m : list (list cell)),
    nth k (p_etcs (phi_view_of f)) None = Some m ->
    (forall ir, In ir (phi_nonzero_rows f) -> length (select_cols f is_etc_col (snd ir)) = n * (n + 1) / 2) ->
    k < length (phi_nonzero_rows f) ->
    dims m n /\
    forall r c, c <= r -> r < n ->
      let x := select_cols f is_etc_col (snd (nth k (phi_nonzero_rows f) (0, []))) in
      mget (CNum 0) m r c = nth (r * (r + 1) / 2 + c) x (CNum 0) /\ mget (CNum 0) m c r = nth (r * (r + 1) / 2 + c) x (CNum 0).
Proof. exact phi_etcs_symmetric. Qed.

(* ---- the defining relations ---------------------------------------------------------------------------------
   Over the exact field Q, with np.sqrt as an ORACLE: a Section variable sq that is only assumed to be a positive
   square root on the diagonal entries of the matrix at hand (sqrt_on_diag).  The same statements over the real
   numbers with Coq's sqrt are proved in C20/Relations.v (they depend on the standard Reals axioms). *)
Local Open Scope Q_scope.

(* sd_matrix @ corr @ sd_matrix, entry by entry *)
Theorem corr2cov_entrywise : forall (n : nat) (corr : MatQ) (sd : nat -> Q) (i j : nat),
    (i < n)%nat -> (j < n)%nat -> corr2covQ n corr sd i j == sd i * corr i j * sd j.
Proof. exact corr2covQ_entry. Qed.

(* corr_cov_relations: cor = D^-1 cov D^-1 with D = diag(sqrt(diag(cov))) *)
Theorem corr_cov_relations : forall (n : nat) (sq : Q -> Q) (cov : MatQ) (i j : nat),
    (i < n)%nat -> (j < n)%nat -> sqrt_on_diag n sq cov ->
    cov2corrQ sq cov i j ==
    mmulQ n (mmulQ n (diagQ (fun k => / sq (cov k k))) cov) (diagQ (fun k => / sq (cov k k))) i j.
Proof. exact corQ_is_scaled_cov. Qed.

Theorem corr_unit_diagonal : forall (n : nat) (sq : Q -> Q) (cov : MatQ) (i : nat),
    (i < n)%nat -> sqrt_on_diag n sq cov -> cov2corrQ sq cov i i == 1.
Proof. exact corrQ_diag_one. Qed.

(* cov_from_corrse o (corr, se)_from_cov = id for positive diagonals *)
Theorem cov_from_corrse_of_cov : forall (n : nat) (sq : Q -> Q) (cov : MatQ) (i j : nat),
    (i < n)%nat -> (j < n)%nat -> sqrt_on_diag n sq cov ->
    corr2covQ n (cov2corrQ sq cov) (se_from_covQ sq cov) i j == cov i j.
Proof. exact covQ_from_corrse_roundtrip. Qed.

(* ---- the same relations over the real numbers with Coq's sqrt (C20/Relations.v); these five depend on the
   standard axioms of Coq's Reals (reported by Print Assumptions) ---------------------------------------------- *)
From Coq Require Import Reals.
From PV Require Import C20.Relations.
Local Open Scope R_scope.

Theorem corr2cov_entrywise_R : forall (n : nat) (corr : Mat) (sd : nat -> R) (i j : nat),
    (i < n)%nat -> (j < n)%nat -> corr2cov n corr sd i j = sd i * corr i j * sd j.
Proof. exact corr2cov_entry. Qed.

Theorem corr_cov_relations_R : forall (n : nat) (cov : Mat) (i j : nat),
    (i < n)%nat -> (j < n)%nat -> (forall k, (k < n)%nat -> 0 < cov k k) ->
    cov2corr cov i j = mmul n (mmul n (diagM (fun k => / sqrt (cov k k))) cov) (diagM (fun k => / sqrt (cov k k))) i j.
Proof. exact cor_is_scaled_cov. Qed.

Theorem corr_unit_diagonal_R : forall (cov : Mat) (i : nat), 0 < cov i i -> cov2corr cov i i = 1.
Proof. exact corr_diag_one. Qed.

Theorem cov_from_corrse_of_cov_R : forall (n : nat) (cov : Mat) (i j : nat),
    (i < n)%nat -> (j < n)%nat -> (forall k, (k < n)%nat -> 0 < cov k k) ->
    corr2cov n (cov2corr cov) (se_from_cov cov) i j = cov i j.
Proof. exact cov_from_corrse_roundtrip. Qed.

Theorem corrse_of_cov_from_corrse_R : forall (n : nat) (corr : Mat) (sd : nat -> R) (i j : nat),
    (i < n)%nat -> (j < n)%nat -> (forall k, (k < n)%nat -> 0 < sd k) -> (forall k, (k < n)%nat -> corr k k = 1) ->
    se_from_cov (corr2cov n corr sd) i = sd i /\ cov2corr (corr2cov n corr sd) i j = corr i j.
Proof. exact corrse_from_cov_roundtrip. Qed.

(* ---- .lst: the fixed-format facts of results_file.py (C20/Lst.v) --------------------------------------------------
   Row level, for every well-formed written block (any table number, method, outcome SUCCESSFUL / TERMINATED
   (+ ROUNDING ERRORS | MAX EVALUATIONS) / OPTIMIZATION WAS COMPLETED, near-boundary line, any digit strings for the
   function evaluations, significant digits and estimation time, every covariance line): the rows between #TERM: and
   #TERE: are read back as exactly the written termination facts, and the rows after #TERE: as the written covariance
   status and estimation time.
   File level (parse_render_lst, proved in C20/LstFile.v): for EVERY version text accepted by the 7.2.0 gate, EVERY
   list of well-formed written blocks (any number of blocks, including none) and EVERY list of queried table
   numbers, reading the rendered file -- binary line splitting, version line, the tag state machine of tag_items
   over all lines, table_blocks, and the per-table status queries -- returns exactly the written version and, per
   queried number, the facts of the LAST written block with that number (expected_facts; no such block -> the default "nothing known" facts).
   Non-vacuity: Examples.ex_lst_file (version_ok accepts 7.5.0 and rejects 7.1.0; a concrete two-block file). *)
From PV Require Import C20.Lst C20.LstProofs C20.LstFile.

Theorem parse_render_lst_term : forall b : wblock,
    wblock_ok b = true -> parse_termination (render_term_rows b) = term_of_wblock b.
Proof. exact parse_termination_render_lemma. Qed.

Theorem parse_render_lst_tere : forall b : wblock,
    wblock_ok b = true -> parse_tere (render_tere_rows b) = tere_of_wblock b.
Proof. exact parse_tere_render_lemma. Qed.

Theorem parse_render_lst : forall (v : text) (bs : list wblock) (numbers : list N),
    version_ok v = true -> forallb wblock_ok bs = true ->
    read_lst (render_lst v bs) numbers = LstOk v (map (fun n => (n, expected_facts bs n)) numbers).
Proof. exact parse_render_lst_lemma. Qed.

(* ---- the subproblem argument of results._parse_phi (C20/Sub.v) ------------------------------------------------------
   With subproblem = k the reader takes phi_tables.tables[k - 1] (Python indexing; optimal-design tables are NOT
   skipped) instead of the last table that is not an optimal-design table; everything after the choice of the table
   (phi_of_table) is the same code (Sub.parse_phi_unfold: Model.parse_phi is that function on the default table).
   For EVERY well-formed written phi file ws, name map, eta names and k:
   - 1 <= k <= number of tables: the result is exactly what the k-th WRITTEN table gives;
   - k beyond the number of tables (or k <= -number of tables): IndexError, never another table's values;
   - k = number of tables and the last table is not an optimal-design table: the same result as without subproblem. *)
From PV Require Import C20.Check C20.Sub.

Theorem phi_subproblem_positional : forall (ws : list wtable) (nm : list (text * text)) (rv : list text) (k : Z) (d : wtable),
    wfile_ok SPhi false ws = true -> (1 <= k <= Z.of_nat (List.length ws))%Z ->
    parse_phi_sub (Some (render_wfile ws)) nm rv (Some k) =
    phi_of_table (table_of_wtable SPhi false (nth (Z.to_nat (k - 1)) ws d)) nm rv.
Proof. exact phi_subproblem_render_lemma. Qed.

Theorem phi_subproblem_out_of_range : forall (ws : list wtable) (nm : list (text * text)) (rv : list text) (k : Z),
    wfile_ok SPhi false ws = true -> (Z.of_nat (List.length ws) < k \/ k <= - Z.of_nat (List.length ws))%Z ->
    parse_phi_sub (Some (render_wfile ws)) nm rv (Some k) = RErr 4%N.
Proof. exact phi_subproblem_out_of_range_lemma. Qed.

Theorem phi_subproblem_last_is_default : forall (ws : list wtable) (w : wtable) (nm : list (text * text)) (rv : list text),
    wfile_ok SPhi false (ws ++ [w]) = true -> not_design (table_of_wtable SPhi false w) = true ->
    parse_phi_sub (Some (render_wfile (ws ++ [w]))) nm rv (Some (Z.of_nat (List.length (ws ++ [w])))) =
    parse_phi (Some (render_wfile (ws ++ [w]))) nm rv.
Proof. exact phi_subproblem_last_lemma. Qed.

