(* PV.C20.Examples — non-vacuity: for every hypothesis / guard of every theorem a concrete NON-TRIVIAL instance. *)
From Coq Require Import List NArith ZArith QArith Qround Bool Arith Lia.
From PV Require Import C20.Model C20.Proofs C20.Refuted.
Import ListNotations.
Local Open Scope N_scope.

(* ---- a written ext table: three parameters, negative numbers, a 22 wide OBJ, the special rows ---- *)
Definition dg (s : list nat) : text := map (fun d => 48 + N.of_nat d) s.
Definition sci (neg : bool) (d : list nat) (eneg : bool) (e : list nat) : wnum := WSci neg (dg d) eneg (dg e).
Definition int (neg : bool) (d : list nat) : wnum := WInt neg (dg d).
Definition obj (neg : bool) (i f : list nat) : wnum := WFix neg (dg i) (dg f).
Definition final_code := [1;0;0;0;0;0;0;0;0;0]%nat.

Definition ex_ext : wtable :=
  mkWTable None [s_ITERATION; s_THETA1; s_SIGMA11; s_OMEGA ++ [40;49;44;49;41]; s_OBJ]
    [[int false [0]%nat; sci false [4;6;9;3;0;7]%nat true [0;3]%nat; sci false [1;3;0;8;6;5]%nat true [0;2]%nat;
      sci true [3;0;9;6;2;6]%nat true [0;2]%nat; obj false [5;8;7]%nat [3;6;6;4;4;1;3;4;6;6;1;6;1;7]%nat];
     [int false [5]%nat; sci false [4;6;9;5;0;4]%nat true [0;3]%nat; sci false [1;3;2;3;4;0]%nat true [0;2]%nat;
      sci true [2;9;2;2;4;7]%nat true [0;2]%nat; obj true [5;8;6]%nat [2;7;6;0;5;6;2;8;1;8;8;0;5;3]%nat];
     [int true final_code; sci false [4;6;9;5;0;4]%nat true [0;3]%nat; sci false [1;3;2;3;4;0]%nat true [0;2]%nat;
      sci true [2;9;2;2;4;7]%nat true [0;2]%nat; obj true [5;8;6]%nat [2;7;6;0;5;6;2;8;1;8;8;0;5;3]%nat];
     [int true [1;0;0;0;0;0;0;0;0;1]%nat; sci false [2;1;0;0;0;0]%nat true [0;4]%nat; sci false [1;0;0;0;0;0]%nat false [1;0]%nat;
      sci false [9;9;9;9;9;9]%nat false [0;9]%nat; obj false [0]%nat [0]%nat];
     [int true [1;0;0;0;0;0;0;0;0;6]%nat; sci false [0;0;0;0;0;0]%nat false [0;0]%nat; sci false [1;0;0;0;0;0]%nat false [0;0]%nat;
      sci false [0;0;0;0;0;0]%nat false [0;0]%nat; obj false [0]%nat [0]%nat]]
    true 0 true.

(* the guard of parse_render_body holds on it (so do row_ok / labels_ok / wnum_ok on its parts) ... *)
Example ex_ext_wf : wbody_ok ex_ext = true.
Proof. vm_compute. reflexivity. Qed.

(* ... the rendered text is what NONMEM's layout looks like (first data line shown), a "-" directly follows the
   blank that ends the previous field ... *)
Example ex_ext_rendered_line :
  nth 1 (lines (render_body ex_ext)) [] =
  [32;32;32;32;32;32;32;32;32;32;32;32;48; 32;32;52;46;54;57;51;48;55;69;45;48;51; 32;32;49;46;51;48;56;54;53;69;45;48;50;
   32;45;51;46;48;57;54;50;54;69;45;48;50; 32;32;32;32;53;56;55;46;51;54;54;52;52;49;51;52;54;54;49;54;49;55; 10].
Proof. vm_compute. reflexivity. Qed.

(* ... and reading it gives the written values exactly: -3.09626E-02 is the rational -154813/5000000 *)
Example ex_ext_parsed_value :
  match read_frame (render_body ex_ext) with
  | ROk f => nth 3 (snd (nth 0 (f_rows f) (0%nat, []))) CNaN
  | _ => CNaN end = CNum (-154813 # 5000000).
Proof. vm_compute. reflexivity. Qed.

Definition ex_g : frame :=
  match read_frame (render_body ex_ext) with
  | ROk f => match ext_data_frame f with ROk g => g | _ => mkFrame [] [] end
  | _ => mkFrame [] [] end.

(* hypotheses of ext_final_row / ext_se_row / ext_fixed_row / ext_final_ofv_row: the properties answer *)
Example ex_final_row :
  final_parameter_estimates ex_g =
  ROk [(s_THETA ++ [40;49;41], CNum (1834 # 390625)); (s_OMEGA ++ [40;49;44;49;41], CNum (-292247 # 10000000));
       (s_SIGMA11, CNum (6617 # 500000))].
Proof. vm_compute. reflexivity. Qed.

Example ex_se_row : exists l, standard_errors ex_g = ROk l /\ length l = 3%nat.
Proof. eexists. split; vm_compute; reflexivity. Qed.

Example ex_fixed_row :
  fixed_flags ex_g = ROk [(s_THETA ++ [40;49;41], false); (s_OMEGA ++ [40;49;44;49;41], false); (s_SIGMA11, true)].
Proof. vm_compute. reflexivity. Qed.

Example ex_missing_row : get_parameters ex_g code_sdcorr false = RErr 3.
Proof. vm_compute. reflexivity. Qed.

(* the fallback of ext_final_row: without row -1000000000 the last iteration is used *)
Example ex_fallback :
  final_parameter_estimates (mkFrame (f_cols ex_g) (firstn 2 (f_rows ex_g))) =
  ROk [(s_THETA ++ [40;49;41], CNum (1834 # 390625)); (s_OMEGA ++ [40;49;44;49;41], CNum (-292247 # 10000000));
       (s_SIGMA11, CNum (6617 # 500000))].
Proof. vm_compute. reflexivity. Qed.

(* guards of iter_df_printed / ofv_designated hold on it and the objective value is the designated one *)
Example ex_guards : g_final_obj_eq_last ex_g = true.
Proof. vm_compute. reflexivity. Qed.

(* two estimation tables followed by an optimal-design table: the second one decides *)
Definition ex_frame0 : frame := match read_frame (render_body ex_ext) with ROk f => f | _ => mkFrame [] [] end.
Definition ex_tbl (k : N) (design : option text) : table :=
  mkTable (Some (mkTitle k false (Some ([70], design, None, [1;0;0;0;0;0])))) ex_frame0.
Definition ex_tables : list table :=
  [mkTable (Some (mkTitle 1 false (Some ([70], None, None, [1;0;0;0;0;0])))) bayes_frame; ex_tbl 2 None; ex_tbl 3 (Some [68])].

Example ex_ofv_designated :
  last_opt (est_tables ex_tables) = Some (2%nat, ex_tbl 2 None) /\ ext_data_frame (tb_frame (ex_tbl 2 None)) = ROk ex_g /\
  exists entries, parse_ofv ex_tables = ROk (CNum (-58627605628188053 # 100000000000000), entries) /\ length entries = 6%nat.
Proof. split; [reflexivity|]. split; [vm_compute; reflexivity|]. eexists. split; vm_compute; reflexivity. Qed.

(* pe_designated on ex_tables is outside its "same columns in every table" domain (bayes_frame has other
   columns); on the two-table file [ex_tbl 1; ex_tbl 2]: SIGMA(1,1) is fixed (row -1000000006) and dropped *)
Example ex_pe_designated :
  exists cols rows sd,
    parse_parameter_estimates [ex_tbl 1 None; ex_tbl 2 None] [] [(s_THETA ++ [40;49;41], [80;79;80;95;67;76])] =
    ROk ([([80;79;80;95;67;76], CNum (1834 # 390625)); (s_OMEGA ++ [40;49;44;49;41], CNum (-292247 # 10000000))], cols, rows, sd) /\
    length rows = 4%nat.
Proof. eexists. eexists. eexists. split; vm_compute; reflexivity. Qed.

(* se_designated: ex_g has row -1000000001 but not -1000000005 (third case); with both rows (first case) *)
Example ex_se_abort : parse_standard_errors ex_tables [] [] = ROk (None, None, true).
Proof. vm_compute. reflexivity. Qed.

Definition ex_g_sd : frame :=
  mkFrame (f_cols ex_g) (f_rows ex_g ++ [(9%nat, [CNum (-1000000005 # 1); CNum 0; CNum (1 # 100); CNum (1 # 10); CNum 0])]).
Example ex_se_designated :
  exists ses sesd, parse_standard_errors [mkTable (Some (mkTitle 1 false None))
                                            (mkFrame (f_cols ex_frame0) (f_rows ex_frame0 ++ [(9%nat, [CNum (-1000000005 # 1); CNum 0; CNum (1 # 10); CNum (1 # 100); CNum 0])]))]
                                         [] [] = ROk (Some ses, Some sesd, false) /\
                   map fst ses = [s_THETA ++ [40;49;41]; s_OMEGA ++ [40;49;44;49;41]] /\
                   map snd sesd = [CNum (21 # 100000); CNum (1 # 100)].
Proof. eexists. eexists. split; [vm_compute; reflexivity|]. split; vm_compute; reflexivity. Qed.

(* ---- whole files: hypotheses of parse_render / parse_title_render / obj_renaming_only ---- *)
Definition ex_title (k : list nat) (design goal : option text) : wtitle :=
  mkWTitle false (dg k) [70;105;114;115;116;32;79;114;100;101;114] design goal (map dg [[1];[0];[0];[0];[0];[0]])%nat.
Definition ex_ext_titled (k : list nat) (lastlabel : text) : wtable :=
  mkWTable (Some (ex_title k None (Some [77;73;78;73;77;85;77])))
           (removelast (w_labels ex_ext) ++ [lastlabel]) (w_rows ex_ext) true 0 true.
Definition ex_file : list wtable := [ex_ext_titled [1]%nat [83;65;69;77;79;66;74]; ex_ext_titled [1;2]%nat s_OBJ].

Example ex_file_wf : wfile_ok SExt false ex_file = true /\
  wtitle_ok (ex_title [7]%nat (Some [68;45;79;80;84]) None) = true /\ labels_obj_ok (w_labels (ex_ext_titled [1]%nat [83;65;69;77;79;66;74])) = true.
Proof. repeat split; vm_compute; reflexivity. Qed.

(* the SAEMOBJ column is read as OBJ; two tables; 1128 characters *)
Example ex_file_read :
  match read_table_file SExt false false (render_wfile ex_file) with
  | ROk [a; b] => (last (f_cols (tb_frame a)) [], option_map t_number (tb_title b), length (f_rows (tb_frame b)))
  | _ => ([], None, 0%nat) end = (s_OBJ, Some 12, 5%nat).
Proof. vm_compute. reflexivity. Qed.

(* a $TABLE file with the label line repeated before every second record *)
Definition ex_tab : wtable :=
  mkWTable (Some (mkWTitle true (dg [1]%nat) [] None None [])) [s_ID; [68;86]]
    [[sci false [1;0;0;0;0;0]%nat false [0;0]%nat; sci true [2;5;0;0;0;0]%nat false [0;1]%nat];
     [sci false [1;0;0;0;0;0]%nat false [0;0]%nat; sci false [3;5;0;0;0;0]%nat true [0;1]%nat];
     [sci false [2;0;0;0;0;0]%nat false [0;0]%nat; sci false [0;0;0;0;0;0]%nat false [0;0]%nat]]
    false 2 true.
Example ex_tab_wf : wfile_ok SOther false [ex_tab; ex_tab] = true /\ length (lines (render_wfile [ex_tab])) = 6%nat.
Proof. split; vm_compute; reflexivity. Qed.

(* NOLABEL: title line but no label line, read with nolabel: the columns are numbered, all three records kept *)
Definition ex_nolabel : wtable :=
  mkWTable (w_title ex_tab) (w_labels ex_tab) (w_rows ex_tab) false 0 false.
Example ex_nolabel_wf :
  wfile_ok SOther true [ex_nolabel] = true /\
  match read_table_file SOther false true (render_wfile [ex_nolabel]) with
  | ROk [a] => (f_cols (tb_frame a), length (f_rows (tb_frame a)))
  | _ => ([], 0%nat) end = ([[48]; [49]], 3%nat).
Proof. split; vm_compute; reflexivity. Qed.

(* NOTITLE: label line, no title *)
Example ex_notitle_wf :
  wtable_notitle_ok false (mkWTable None (w_labels ex_tab) (w_rows ex_tab) false 2 true) = true.
Proof. vm_compute. reflexivity. Qed.

(* iter_df_final_only: a design-evaluation table (special rows only) *)
Example ex_final_only :
  let g := mkFrame (f_cols ex_g) (skipn 2 (f_rows ex_g)) in
  existsb cell_ge0 (col_cells g s_ITERATION) = false /\ existsb (cell_is code_final) (col_cells g s_ITERATION) = true /\
  match get_iter_df g with ROk h => map (fun ir => (fst ir, nth 0 (snd ir) CNaN)) (f_rows h) | _ => [] end =
  [(0%nat, CNum 0)].
Proof. repeat split; vm_compute; reflexivity. Qed.

(* matrix_designated / phi_designated: a cov and a phi file rendered by the reference writer, read at run level *)
Definition ex_cov_w : wtable :=
  mkWTable (Some (ex_title [2]%nat None None)) [s_NAME; s_THETA1; [84;72;69;84;65;50]; s_SIGMA11]
    [[WStr s_THETA1; sci false [4;0;0;0;0;0]%nat false [0;0]%nat; sci false [0;0;0;0;0;0]%nat false [0;0]%nat; sci true [1;0;0;0;0;0]%nat false [0;0]%nat];
     [WStr [84;72;69;84;65;50]; sci false [0;0;0;0;0;0]%nat false [0;0]%nat; sci false [0;0;0;0;0;0]%nat false [0;0]%nat; sci false [0;0;0;0;0;0]%nat false [0;0]%nat];
     [WStr s_SIGMA11; sci true [1;0;0;0;0;0]%nat false [0;0]%nat; sci false [0;0;0;0;0;0]%nat false [0;0]%nat; sci false [9;0;0;0;0;0]%nat false [0;0]%nat]]
    false 0 true.
Example ex_matrix_designated :
  wfile_ok SCov false [ex_cov_w] = true /\
  parse_matrix (Some (render_wfile [ex_cov_w])) [(s_THETA ++ [40;49;41], [80;79;80])] [1; 2] =
  ROk (Some (mkMatrix [[80;79;80]; s_SIGMA11] [[80;79;80]; s_SIGMA11] [[CNum 4; CNum (-1)]; [CNum (-1); CNum 9]])).
Proof. split; vm_compute; reflexivity. Qed.

Definition ex_phi_w : wtable :=
  mkWTable (Some (ex_title [1]%nat None None))
    [[83;85;66;74;69;67;84;95;78;79]; s_ID; [69;84;65;40;49;41]; [69;84;65;40;50;41]; [69;84;67;40;49;44;49;41]; [69;84;67;40;50;44;49;41]; [69;84;67;40;50;44;50;41]; s_OBJ]
    [[int false [1]%nat; int false [1;1]%nat; sci true [1;0;0;0;0;0]%nat true [0;1]%nat; sci false [2;0;0;0;0;0]%nat true [0;1]%nat;
      sci false [4;0;0;0;0;0]%nat true [0;2]%nat; sci true [1;0;0;0;0;0]%nat true [0;2]%nat; sci false [9;0;0;0;0;0]%nat true [0;2]%nat; obj false [5]%nat [2;5]%nat];
     [int false [2]%nat; int false [1;2]%nat; sci false [0;0;0;0;0;0]%nat false [0;0]%nat; sci false [0;0;0;0;0;0]%nat false [0;0]%nat;
      sci false [0;0;0;0;0;0]%nat false [0;0]%nat; sci false [0;0;0;0;0;0]%nat false [0;0]%nat; sci false [0;0;0;0;0;0]%nat false [0;0]%nat; obj false [0]%nat [0]%nat]]
    true 0 true.
Example ex_phi_designated :
  wfile_ok SPhi false [ex_phi_w] = true /\
  parse_phi (Some (render_wfile [ex_phi_w])) [([69;84;65;40;49;41], [69;84;65;95;49]); ([69;84;65;40;50;41], [69;84;65;95;50])] [[69;84;65;95;50]; [69;84;65;95;49]] =
  ROk (Some (mkPhiRes [CNum 11] [CNum (21 # 4)] [[69;84;65;95;50]; [69;84;65;95;49]] [[CNum (-1 # 10); CNum (1 # 5)]]
                      [[[CNum (9 # 100); CNum (-1 # 100)]; [CNum (-1 # 100); CNum (1 # 25)]]])).
Proof. split; vm_compute; reflexivity. Qed.

(* ---- tables and lines ---- *)
Definition two_tables : text := title1 ++ [32;65;10;32;49;10] ++ title1 ++ [32;65;10;32;50;10].

Example ex_split : map (@length text) (split_tables (lines two_tables)) = [3%nat; 3%nat] /\
                   existsb (N.eqb c_cr) two_tables = false.
Proof. split; vm_compute; reflexivity. Qed.

Example ex_first_not_title : length (split_tables (lines ([32;65;10] ++ two_tables))) = 3%nat.
Proof. vm_compute. reflexivity. Qed.

Example ex_crlf : universal_newlines [65;13;10;66;13;67] = [65;10;66;10;67].
Proof. vm_compute. reflexivity. Qed.

(* ---- cov: a fixed (all zero) parameter in the middle is dropped, the rest keeps values and order ---- *)
Definition nm (l : text) : cell := CStr l.
Definition s_THETA2 : text := s_THETA ++ [50].
Definition ex_cov : frame :=
  mkFrame [s_NAME; s_THETA1; s_THETA2; s_SIGMA11]
    [(0%nat, [nm s_THETA1; CNum 4; CNum 0; CNum (-1)]); (1%nat, [nm s_THETA2; CNum 0; CNum 0; CNum 0]);
     (2%nat, [nm s_SIGMA11; CNum (-1); CNum 0; CNum 9])].

Example ex_cov_drop :
  cov_data_frame ex_cov = ROk (mkMatrix [s_THETA ++ [40;49;41]; s_SIGMA11] [s_THETA ++ [40;49;41]; s_SIGMA11]
                                        [[CNum 4; CNum (-1)]; [CNum (-1); CNum 9]]) /\
  cov_names ex_cov = Some [s_THETA1; s_THETA2; s_SIGMA11] /\
  kept_rows (cov_full ex_cov [s_THETA1; s_THETA2; s_SIGMA11]) = [0%nat; 2%nat].
Proof. repeat split; vm_compute; reflexivity. Qed.

(* ---- triangular / symmetric ---- *)
Example ex_triangular : triangular_root 6 = 3 /\ triangular_root (94906265 * 94906266 / 2) = 94906265 /\ triangular_root 7 = 3.
Proof. repeat split; vm_compute; reflexivity. Qed.

Example ex_flattened :
  flattened_to_symmetric 0%Z [1;2;3;4;5;6]%Z = Some [[1;2;4];[2;3;5];[4;5;6]]%Z /\
  flattened_to_symmetric 0%Z [1;2]%Z = None.
Proof. split; vm_compute; reflexivity. Qed.

(* ---- decimal -> binary64 ---- *)
Example ex_round_b64 :
  round_b64 (1 # 10) = Some (3602879701896397 # 36028797018963968) /\ round_b64 (3 # 1) = Some (3 # 1).
Proof. split; vm_compute; reflexivity. Qed.

(* ---- the relations: sqrt_on_diag is satisfiable with a genuine matrix (diagonal 4 and 9, oracle 2 and 3) ---- *)
Local Open Scope Q_scope.
Definition ex_covQ : MatQ := fun i j => if Nat.eqb i j then (if Nat.eqb i 0 then 4 else 9) else 3.
Definition ex_sq (x : Q) : Q := if Qeq_bool x 4 then 2 else 3.
Example ex_sqrt_on_diag : sqrt_on_diag 2 ex_sq ex_covQ /\ cov2corrQ ex_sq ex_covQ 0%nat 1%nat == 1 # 2.
Proof.
  split.
  - intros k Hk. destruct k as [|[|k]]; [| |exfalso; lia]; vm_compute; split; reflexivity.
  - vm_compute. reflexivity.
Qed.

(* ---- .lst: a whole file of two blocks through the tag state machine; guards of parse_render_lst_partial ---- *)
From Coq Require Import String.
From PV Require Import C20.Lst.
Definition ex_b1 : wblock :=
  mkWBlock (st "1") (st "First Order Conditional Estimation with Interaction") 1 true (Some (st "100"))
           (Some (st "3", st "3")) (Some (st "0", st "32")) 1.
Definition ex_b2 : wblock := mkWBlock (st "2") (st "Importance Sampling") 4 false None None (Some (st "12", st "5")) 2.
Example ex_lst_file :
  wblock_ok ex_b1 = true /\ wblock_ok ex_b2 = true /\ version_ok (st "7.5.0") = true /\ version_ok (st "7.1.0") = false /\
  read_lst (render_lst (st "7.5.0") [ex_b1; ex_b2]) [1%N; 2%N] =
  LstOk (st "7.5.0") [(1%N, facts_of_wblock ex_b1); (2%N, facts_of_wblock ex_b2)] /\
  read_lst (render_lst (st "7.1.0") [ex_b1]) [1%N] = LstNoVersion.
Proof. repeat split; vm_compute; reflexivity. Qed.

(* phi_subproblem_*: two phi tables; subproblem 1 and 2 pick the written tables by position, 0 is Python's [-1],
   3 is an IndexError, no subproblem is the last table *)
From PV Require Import C20.Check C20.Sub.
Local Open Scope N_scope.
Definition ex_phi_w2 : wtable :=
  mkWTable (Some (ex_title [2]%nat None None)) (w_labels ex_phi_w)
    (map (fun r => match r with a :: _ :: tl => a :: int false [4;2]%nat :: tl | _ => r end) (w_rows ex_phi_w)) true 0 true.
Definition ex_ids (r : rres (option phi_results)) : option (list cell) :=
  match r with ROk (Some p) => Some (pr_ids p) | _ => None end.
Definition ex_sub (k : option Z) : rres (option phi_results) :=
  parse_phi_sub (Some (render_wfile [ex_phi_w; ex_phi_w2]))
    [([69;84;65;40;49;41], [69;84;65;95;49]); ([69;84;65;40;50;41], [69;84;65;95;50])] [[69;84;65;95;50]; [69;84;65;95;49]] k.
Example ex_phi_subproblem :
  wfile_ok SPhi false [ex_phi_w; ex_phi_w2] = true /\
  not_design (table_of_wtable SPhi false ex_phi_w2) = true /\
  ex_ids (ex_sub (Some 1%Z)) = Some [CNum 11] /\ ex_ids (ex_sub (Some 2%Z)) = Some [CNum 42] /\
  ex_ids (ex_sub (Some 0%Z)) = Some [CNum 42] /\ ex_ids (ex_sub None) = Some [CNum 42] /\
  ex_sub (Some 3%Z) = RErr 4%N /\ ex_sub (Some (-2)%Z) = RErr 4%N /\ ex_ids (ex_sub (Some (-1)%Z)) = Some [CNum 11].
Proof. repeat split; vm_compute; reflexivity. Qed.
(* the correspondence verdict is sensitive: an observation taken from the wrong table (off by one), a result where
   the implementation should raise, or an exception where it should not, are all flagged with tag 6 *)
Definition ex_subcase (k : Z) (o : sub_obs) : subcase :=
  mkSub (render_wfile [ex_phi_w; ex_phi_w2])
    [([69;84;65;40;49;41], [69;84;65;95;49]); ([69;84;65;40;50;41], [69;84;65;95;50])] [[69;84;65;95;50]; [69;84;65;95;49]] (Some k) o.
Definition ex_obs (k : Z) : sub_obs := match ex_sub (Some k) with ROk p => SubRes p | _ => SubExc end.
Example ex_subverdict_sensitive :
  subverdict (ex_subcase 1 (ex_obs 1)) = [] /\ subverdict (ex_subcase 2 (ex_obs 2)) = [] /\
  subverdict (ex_subcase 3 (ex_obs 3)) = [] /\
  subverdict (ex_subcase 2 (ex_obs 1)) = [6%nat] /\ subverdict (ex_subcase 1 (ex_obs 2)) = [6%nat] /\
  subverdict (ex_subcase 3 (ex_obs 2)) = [6%nat] /\ subverdict (ex_subcase 2 SubExc) = [6%nat] /\
  subverdict (ex_subcase 2 (SubRes None)) = [6%nat].
Proof. repeat split; vm_compute; reflexivity. Qed.
