(* PV.C20.Lst — executable model of the fixed-format facts pharmpy takes from a NONMEM results (.lst) file:
   pharmpy/tools/external/nonmem/results_file.py  tag_items (the #TBLN/#METH/#TERM/#TERE/#OBJV state machine, NONMEM
   version gate), parse_termination, parse_tere, table_blocks, estimation_status, covariance_status — every regular
   expression as a prefix matcher — and a reference writer of those lines.  Not modelled: parse_runtime (dates, total
   run time), log_items (warnings / errors collected into the log).  No proofs in this file. *)
From Coq Require Import List NArith ZArith QArith Bool Arith.
From Coq Require Import String Ascii.
From PV Require Import C20.Model.
Import ListNotations.
Local Open Scope N_scope.

Definition st (s : string) : text := map (fun a => N_of_ascii a) (list_ascii_of_string s).
Local Notation "'$' s" := (st s%string) (at level 0, s at level 0).

(* ---- patterns: literal characters and '.' (any character but a newline); re.match = match at the start ---- *)
Definition pat := list (option N).
Definition lit (s : text) : pat := map Some s.
Definition dotpat (s : text) : pat := map (fun c => if c =? 46 then None else Some c) s.   (* every '.' is a wildcard *)

Fixpoint pmatch (p : pat) (s : text) : option text :=
  match p, s with
  | [], _ => Some s
  | Some a :: p', b :: s' => if a =? b then pmatch p' s' else None
  | None :: p', b :: s' => if b =? c_nl then None else pmatch p' s'
  | _ :: _, [] => None
  end.
Definition pm (p : pat) (s : text) : bool := match pmatch p s with Some _ => true | None => false end.

(* (A1|A2|...) as a prefix: all ways to continue *)
Definition alts (ps : list pat) (s : text) : list text :=
  flat_map (fun p => match pmatch p s with Some r => [r] | None => [] end) ps.
Definition seq_alts (groups : list (list pat)) (s : text) : list text :=
  fold_left (fun rests g => flat_map (alts g) rests) groups [s].
Definition matches_seq (groups : list (list pat)) (s : text) : bool :=
  match seq_alts groups s with [] => false | _ :: _ => true end.

Definition skip_ws (s : text) : text := snd (span is_space_re s).
Definition nonspace (c : N) : bool := negb (is_space_re c).

(* prefix '\s*(\S+)': the token *)
Definition ws_token (s : text) : option text :=
  let (tok, _) := span nonspace (skip_ws s) in match tok with [] => None | _ :: _ => Some tok end.

(* ---- parse_termination ---- *)
Definition estim_words : list pat :=
  [lit $"REDUCED STOCHASTIC PORTION"; lit $"OPTIMIZATION"; lit $"BURN-IN"; lit $"EXPECTATION ONLY PROCESS"].

Definition is_success (row : text) : bool :=
  pm (lit $"0MINIMIZATION SUCCESSFUL") row ||
  matches_seq [[lit $" "]; estim_words; [lit $" STATISTICALLY "; lit $" WAS "; lit $" "];
               [lit $"COMPLETED"; lit $"NOT TESTED"]] row ||
  pm (lit $"1OBJECTIVE FUNCTION IS TO BE EVALUATED") row.

Definition is_failure (row : text) : bool :=
  pm (lit $"0MINIMIZATION TERMINATED") row ||
  pm (lit $"0SEARCH WITH ESTIMATION STEP WILL NOT PROCEED") row ||
  pm (lit $"INDIVIDUAL OBJECTIVE FUNCTION VALUES ARE ALL ZERO. PROBLEM ENDED") (skip_ws row) ||
  pm (lit $"0HESSIAN OF POSTERIOR DENSITY IS NON-POSITIVE-DEFINITE DURING SEARCH") row.

Definition is_maybe (row : text) : bool :=
  matches_seq [[lit $" "]; estim_words; [lit $" WAS "; lit $" "]; [lit $"NOT COMPLETED"]] row.

(* the first loop: Some b = decided, None = undecided *)
Fixpoint min_success (maybe : bool) (rows : list text) : option bool :=
  match rows with
  | [] => None
  | row :: tl =>
      if maybe then Some (contains $"USER INTERRUPT" row)
      else if is_success row then Some true
      else if is_failure row then Some false
      else min_success (is_maybe row) tl
  end.

Inductive lval :=                       (* a value taken from the text *)
| LNum (q : Q)
| LNaN
| LBad.                                 (* float()/int() of the token raises ValueError *)

Definition float_of (tok : text) : lval := match parse_float tok with Some q => LNum q | None => LBad end.
Definition int_of (tok : text) : lval :=
  match parse_int tok with Some z => LNum (inject_Z z) | None => LBad end.

Record term_result := mkTerm {
  tm_min_success : option bool;
  tm_near_boundary : option bool;
  tm_rounding : option bool;
  tm_maxevals : option bool;
  tm_warning : option bool;
  tm_sig_digits : lval;
  tm_fevals : lval;
  tm_ofv_const : option lval
}.

Definition unknown_term : term_result := mkTerm None None None None None LNaN LNaN None.

Definition p_sig := dotpat $" NO. OF SIG. DIGITS IN FINAL EST.:".
Definition p_feval := dotpat $" NO. OF FUNCTION EVALUATIONS USED:".
Definition p_ofvc := lit $" OBJECTIVE FUNCTION VALUE WITH CONSTANT:".
Definition p_near : list pat :=
  [lit $"0ESTIMATE OF THETA IS NEAR THE BOUNDARY AND"; lit $"0PARAMETER ESTIMATE IS NEAR ITS BOUNDARY"].
Definition p_round := lit $" DUE TO ROUNDING ERRORS".
Definition p_maxev := dotpat $" DUE TO MAX. NO. OF FUNCTION EVALUATIONS EXCEEDED".
Definition p_warn := dotpat $" HOWEVER, PROBLEMS OCCURRED WITH THE MINIMIZATION.".

(* the second loop; the pattern for "SIG. DIGITS UNREPORTABLE" needs a trailing newline and the rows are stripped:
   it never matches *)
Definition term_row (r : term_result) (row : text) : term_result :=
  match pmatch p_sig row with
  | Some rest => match ws_token rest with
                 | Some tok => mkTerm (tm_min_success r) (tm_near_boundary r) (tm_rounding r) (tm_maxevals r) (tm_warning r)
                                      (float_of tok) (tm_fevals r) (tm_ofv_const r)
                 | None => r end
  | None =>
    match pmatch p_ofvc row with
    | Some rest => match ws_token rest with
                   | Some tok => mkTerm (tm_min_success r) (tm_near_boundary r) (tm_rounding r) (tm_maxevals r) (tm_warning r)
                                        (tm_sig_digits r) (tm_fevals r) (Some (float_of tok))
                   | None => r end
    | None =>
      match pmatch p_feval row with
      | Some rest => match ws_token rest with
                     | Some tok => mkTerm (tm_min_success r) (tm_near_boundary r) (tm_rounding r) (tm_maxevals r) (tm_warning r)
                                          (tm_sig_digits r) (int_of tok) (tm_ofv_const r)
                     | None => r end
      | None =>
          if existsb (fun p => pm p row) p_near
          then mkTerm (tm_min_success r) (Some true) (tm_rounding r) (tm_maxevals r) (tm_warning r) (tm_sig_digits r) (tm_fevals r) (tm_ofv_const r)
          else if pm p_round row
          then mkTerm (tm_min_success r) (tm_near_boundary r) (Some true) (tm_maxevals r) (tm_warning r) (tm_sig_digits r) (tm_fevals r) (tm_ofv_const r)
          else if pm p_maxev row
          then mkTerm (tm_min_success r) (tm_near_boundary r) (tm_rounding r) (Some true) (tm_warning r) (tm_sig_digits r) (tm_fevals r) (tm_ofv_const r)
          else if pm p_warn row
          then mkTerm (tm_min_success r) (tm_near_boundary r) (tm_rounding r) (tm_maxevals r) (Some true) (tm_sig_digits r) (tm_fevals r) (tm_ofv_const r)
          else r
      end
    end
  end.

Definition parse_termination (rows : list text) : term_result :=
  match rows with
  | [] => mkTerm (Some false) None None None None LNaN LNaN None
  | _ :: _ =>
      fold_left term_row rows
                (mkTerm (min_success false rows) (Some false) (Some false) (Some false) (Some false) LNaN LNaN None)
  end.

(* ---- parse_tere ---- *)
Record tere_result := mkTere { te_cov_ok : bool; te_est_time : lval }.

Definition cov_not_ok (row : text) : bool :=
  pm (lit $" INTERPRET VARIANCE-COVARIANCE OF ESTIMATES WITH CARE") row ||
  pm (lit $"R MATRIX ALGORITHMICALLY SINGULAR") row || pm (lit $"S MATRIX ALGORITHMICALLY SINGULAR") row.

(* ' Elapsed (covariance|opt\. design)\s+time in seconds: ' *)
Definition cov_ok (row : text) : bool :=
  existsb (fun r => match span is_space_re r with
                    | (_ :: _, r') => pm (lit $"time in seconds: ") r'
                    | ([], _) => false end)
          (alts [lit $" Elapsed covariance"; lit $" Elapsed opt. design"] row).

(* '\d+\.*\d+' with its backtracking: the matched text *)
Definition digits_dots_digits (s : text) : option text :=
  let (d1, r1) := span is_digit s in
  match d1 with
  | [] => None
  | _ :: _ =>
      let (dots, r2) := span (N.eqb 46) r1 in
      let (d2, _) := span is_digit r2 in
      match d2 with
      | _ :: _ => Some (d1 ++ dots ++ d2)
      | [] => if (2 <=? List.length d1)%nat then Some d1 else None
      end
  end.

(* ' Elapsed estimation\s+time in seconds:\s+(\d+\.*\d+)' *)
Definition est_time (row : text) : option lval :=
  match pmatch (lit $" Elapsed estimation") row with
  | None => None
  | Some r =>
      match span is_space_re r with
      | ([], _) => None
      | (_ :: _, r1) =>
          match pmatch (lit $"time in seconds:") r1 with
          | None => None
          | Some r2 => match span is_space_re r2 with
                       | ([], _) => None
                       | (_ :: _, r3) => option_map float_of (digits_dots_digits r3)
                       end
          end
      end
  end.

Fixpoint tere_loop (rows : list text) (acc : tere_result) : tere_result :=
  match rows with
  | [] => acc
  | row :: tl =>
      if cov_not_ok row then mkTere false (te_est_time acc)
      else if cov_ok row then mkTere true (te_est_time acc)
      else match est_time row with
           | Some v => tere_loop tl (mkTere (te_cov_ok acc) v)
           | None => tere_loop tl acc
           end
  end.
Definition parse_tere (rows : list text) : tere_result := tere_loop rows (mkTere false LNaN).

(* ---- tag_items ---- *)
Definition rstrip (s : text) : text := rev (snd (span is_space_re (rev s))).
Definition strip (s : text) : text := rstrip (skip_ws s).

(* binary readlines; first and last line kept raw, the middle decoded, '\r' removed, split at '\n' *)
Fixpoint split_nl (s : text) : list text :=
  match s with
  | [] => [[]]
  | c :: tl => if c =? c_nl then [] :: split_nl tl
               else match split_nl tl with l :: ls => (c :: l) :: ls | [] => [[c]] end
  end.
Definition lst_lines (raw : text) : list text :=
  match lines raw with
  | [] => []                          (* binary[0] raises IndexError: not modelled (empty file) *)
  | l1 :: rest =>
      let lastl := last rest l1 in
      let mid := filter (fun c => negb (c =? c_cr)) (List.concat (removelast rest)) in
      removelast (l1 :: split_nl mid) ++ [lastl]
  end.

(* the tag regex: optional blanks, '#', four capitals, ':', optional blanks, the rest of the row — on a stripped row *)
Definition tag_of (row : text) : option (text * text) :=
  match skip_ws row with
  | h :: a :: b :: c :: d :: col :: rest =>
      if (h =? 35) && is_upper a && is_upper b && is_upper c && is_upper d && (col =? 58)
      then Some ([a; b; c; d], fst (span (fun x => negb (x =? c_nl)) (skip_ws rest)))
      else None
  | _ => None
  end.

(* cleanup.sub('', v): every run of '*' together with the whitespace after it *)
Fixpoint cleanup_aux (fuel : nat) (s : text) : text :=
  match fuel with
  | O => s
  | S f => match s with
           | [] => []
           | c :: tl => if c =? 42 then cleanup_aux f (skip_ws (snd (span (N.eqb 42) s))) else c :: cleanup_aux f tl
           end
  end.
Definition cleanup (s : text) : text := cleanup_aux (S (List.length s)) s.

(* version: r'1NONLINEAR MIXED EFFECTS MODEL PROGRAM \(NONMEM\) VERSION\s+(\S+)' *)
Definition version_of (row : text) : option text :=
  match pmatch (lit $"1NONLINEAR MIXED EFFECTS MODEL PROGRAM (NONMEM) VERSION") row with
  | Some r => match span is_space_re r with
              | (_ :: _, r') => let (tok, _) := span nonspace r' in match tok with [] => None | _ => Some tok end
              | ([], _) => None end
  | None => None
  end.

(* packaging.version for plain dotted numbers: components; anything else is not described *)
Fixpoint dotted (s : text) (cur : text) : option (list N) :=
  match s with
  | [] => match cur with [] => None | _ => Some [digits_val cur] end
  | c :: tl => if is_digit c then dotted tl (cur ++ [c])
               else if c =? 46 then match cur with [] => None | _ => option_map (cons (digits_val cur)) (dotted tl []) end
               else None
  end.
Definition cleanup_version (v : text) : text :=
  if text_eqb v $"V" then $"5.0" else if text_eqb v $"VI" then $"6.0" else v.
Definition ge_720 (v : list N) : bool :=
  match v with
  | a :: tl => (7 <? a) || ((a =? 7) && match tl with b :: _ => 2 <=? b | [] => false end)
  | [] => false
  end.

Inductive item :=
| ITag (name value : text)
| ITerm (r : term_result)
| ITere (r : tere_result)
| IErr.                                 (* NotImplementedError: TERM twice / TERE without TERM *)

Record tstate := mkTS { ts_term : list text; ts_tere : list text; ts_in_term : bool; ts_in_tere : bool;
                        ts_prev1 : text; ts_prev2 : text; ts_out : list item }.

Definition hessian_line := $"0HESSIAN OF POSTERIOR DENSITY".

Definition step (s : tstate) (rawrow : text) : tstate :=
  let row := rstrip rawrow in
  let s' :=
    match tag_of row with
    | Some (name, value) =>
        if text_eqb name $"TERM" then
          if ts_in_term s then mkTS (ts_term s) (ts_tere s) true (ts_in_tere s) (ts_prev1 s) (ts_prev2 s) (ts_out s ++ [IErr])
          else mkTS (if starts_with hessian_line (ts_prev2 s) then [ts_prev2 s] else []) (ts_tere s) true (ts_in_tere s)
                    (ts_prev1 s) (ts_prev2 s) (ts_out s)
        else if text_eqb name $"TERE" then
          if ts_in_term s
          then mkTS [] (ts_tere s) false true (ts_prev1 s) (ts_prev2 s) (ts_out s ++ [ITerm (parse_termination (ts_term s))])
          else mkTS (ts_term s) (ts_tere s) false (ts_in_tere s) (ts_prev1 s) (ts_prev2 s) (ts_out s ++ [IErr])
        else if ts_in_tere s then mkTS (ts_term s) (ts_tere s) (ts_in_term s) false (ts_prev1 s) (ts_prev2 s) (ts_out s)
        else mkTS (ts_term s) (ts_tere s) (ts_in_term s) (ts_in_tere s) (ts_prev1 s) (ts_prev2 s)
                  (ts_out s ++ [ITag name (strip (cleanup value))])
    | None =>
        if ts_in_tere s then
          match row with
          | c :: _ => if (c =? 48) || (c =? 49)
                      then mkTS (ts_term s) [] (ts_in_term s) false (ts_prev1 s) (ts_prev2 s)
                                (ts_out s ++ [ITere (parse_tere (ts_tere s))])
                      else mkTS (ts_term s) (ts_tere s ++ [row]) (ts_in_term s) true (ts_prev1 s) (ts_prev2 s) (ts_out s)
          | [] => mkTS (ts_term s) (ts_tere s ++ [row]) (ts_in_term s) true (ts_prev1 s) (ts_prev2 s) (ts_out s)
          end
        else if ts_in_term s
        then mkTS (ts_term s ++ [row]) (ts_tere s) true (ts_in_tere s) (ts_prev1 s) (ts_prev2 s) (ts_out s)
        else s
    end in
  mkTS (ts_term s') (ts_tere s') (ts_in_term s') (ts_in_tere s') rawrow (ts_prev1 s) (ts_out s').

Definition tag_items (ls : list text) : option (text * list item) :=        (* version, items *)
  match flat_map (fun l => match version_of l with Some v => [v] | None => [] end) ls with
  | [] => None
  | v :: _ =>
      let v := cleanup_version v in
      match dotted v [] with
      | None => Some (v, [IErr])                       (* a version string packaging would have to interpret *)
      | Some comps =>
          if ge_720 comps then
            let s := fold_left step ls (mkTS [] [] false false [] [] []) in
            Some (v, ts_out s ++ (if ts_in_term s then [ITerm (parse_termination (ts_term s))] else []) ++
                                 (if ts_in_tere s then [ITere (parse_tere (ts_tere s))] else []))
          else Some (v, [])
      end
  end.

(* ---- table_blocks and the status queries ---- *)
Record block := mkBlock {
  bk_number : option N;                               (* None: the INIT block *)
  bk_tags : list (text * text);                       (* first occurrence wins *)
  bk_term : option term_result;
  bk_tere : option tere_result
}.

Definition add_item (bs : list block) (cur : block) (it : item) : list block * block :=
  match it with
  | ITag name value =>
      if text_eqb name $"TBLN" then
        let bs' := match bk_tags cur, bk_term cur, bk_tere cur with
                   | [], None, None => bs               (* 'if bool(block)': an empty block is not yielded *)
                   | _, _, _ => bs ++ [cur] end in
        (bs', mkBlock (Some (match parse_int value with Some z => Z.to_N z | None => 0 end)) [] None None)
      else if existsb (fun kv => text_eqb (fst kv) name) (bk_tags cur) then (bs, cur)
      else (bs, mkBlock (bk_number cur) (bk_tags cur ++ [(name, value)]) (bk_term cur) (bk_tere cur))
  | ITerm r => (bs, mkBlock (bk_number cur) (bk_tags cur) (Some r) (bk_tere cur))
  | ITere r => (bs, mkBlock (bk_number cur) (bk_tags cur) (bk_term cur) (Some r))
  | IErr => (bs, cur)
  end.

Definition table_blocks (items : list item) : list block :=
  let '(bs, cur) := fold_left (fun st it => add_item (fst st) (snd st) it) items ([], mkBlock None [] None None) in
  match bk_tags cur, bk_term cur, bk_tere cur with
  | [], None, None => bs
  | _, _, _ => bs ++ [cur]
  end.

(* self.table[n]: a later block with the same number replaces an earlier one *)
Definition block_no (bs : list block) (n : N) : option block :=
  last_opt (filter (fun b => match bk_number b with Some k => k =? n | None => false end) bs).

Record lst_facts := mkFacts {
  lf_found : bool;                                    (* the table number occurs *)
  lf_term : option term_result;
  lf_cov_ok : option bool;                            (* covariance_status()['covariance_step_ok'] *)
  lf_est_time : option lval;
  lf_meth : option text
}.

Definition facts_for (bs : list block) (n : N) : lst_facts :=
  match block_no bs n with
  | None => mkFacts false None (Some false) None None
  | Some b => mkFacts true (bk_term b) (option_map te_cov_ok (bk_tere b)) (option_map te_est_time (bk_tere b))
                      (match find (fun kv => text_eqb (fst kv) $"METH") (bk_tags b) with Some kv => Some (snd kv) | None => None end)
  end.

(* ---- the comparison run inside Coq for .lst files (used by Check) ---- *)
Definition lval_bad (v : lval) : bool := match v with LBad => true | _ => false end.
Definition term_bad (r : term_result) : bool :=
  lval_bad (tm_sig_digits r) || lval_bad (tm_fevals r) || match tm_ofv_const r with Some v => lval_bad v | None => false end.
Definition item_bad (i : item) : bool :=
  match i with
  | IErr => true
  | ITerm r => term_bad r
  | ITere r => lval_bad (te_est_time r)
  | ITag name value => text_eqb name $"TBLN" && match parse_int value with Some z => (z <? 0)%Z | None => true end
  end.

Inductive lst_result :=
| LstNoVersion                          (* no NONMEM version line, or a version before 7.2: nothing is reported *)
| LstRaise                              (* NotImplementedError, or a version string that is not plain dotted numbers *)
| LstOk (version : text) (facts : list (N * lst_facts)).


Definition read_lst (raw : text) (numbers : list N) : lst_result :=
  match tag_items (lst_lines raw) with
  | None => LstNoVersion
  | Some (v, items) =>
      if existsb item_bad items then LstRaise
      else match dotted v [] with
           | Some comps => if ge_720 comps
                           then LstOk v (map (fun n => (n, facts_for (table_blocks items) n)) numbers)
                           else LstNoVersion
           | None => LstRaise
           end
  end.


(* ---- reference writer of the modelled lines ---- *)
Record wblock := mkWBlock {
  wb_number : text;                       (* digits *)
  wb_method : text;
  wb_outcome : nat;                       (* 0 MINIMIZATION SUCCESSFUL, 1 TERMINATED + ROUNDING ERRORS, 2 TERMINATED + MAX EVALS,
                                             3 TERMINATED, 4 OPTIMIZATION WAS COMPLETED, 5 OPTIMIZATION WAS NOT COMPLETED *)
  wb_near : bool;
  wb_fevals : option text;                (* digits *)
  wb_sig : option (text * text);          (* digits '.' digits *)
  wb_time : option (text * text);
  wb_cov : nat                            (* 0 no line, 1 covariance time, 2 INTERPRET ... WITH CARE, 3 opt. design time *)
}.

Definition line (s : text) : text := s ++ [c_nl].
Definition dec_text (ab : text * text) : text := fst ab ++ [46] ++ snd ab.

Definition render_term_rows (b : wblock) : list text :=
  (match wb_outcome b with
   | 0%nat => [$"0MINIMIZATION SUCCESSFUL"]
   | 1%nat => [$"0MINIMIZATION TERMINATED"; $" DUE TO ROUNDING ERRORS (ERROR=134)"]
   | 2%nat => [$"0MINIMIZATION TERMINATED"; $" DUE TO MAX. NO. OF FUNCTION EVALUATIONS EXCEEDED"]
   | 3%nat => [$"0MINIMIZATION TERMINATED"]
   | 4%nat => [$" OPTIMIZATION WAS COMPLETED"]
   | _ => [$" OPTIMIZATION WAS NOT COMPLETED"]
   end) ++
  (if wb_near b then [$"0PARAMETER ESTIMATE IS NEAR ITS BOUNDARY"] else []) ++
  (match wb_fevals b with Some d => [$" NO. OF FUNCTION EVALUATIONS USED:" ++ rjust 9 d] | None => [] end) ++
  (match wb_sig b with Some ab => [$" NO. OF SIG. DIGITS IN FINAL EST.:" ++ rjust 5 (dec_text ab)] | None => [] end).

Definition render_tere_rows (b : wblock) : list text :=
  (match wb_time b with Some ab => [$" Elapsed estimation  time in seconds:" ++ rjust 9 (dec_text ab)] | None => [] end) ++
  (match wb_cov b with
   | 0%nat => []
   | 1%nat => [$" Elapsed covariance  time in seconds:     0.30"]
   | 2%nat => [$" INTERPRET VARIANCE-COVARIANCE OF ESTIMATES WITH CARE"]
   | _ => [$" Elapsed opt. design time in seconds:     0.10"]
   end).

Definition render_block (b : wblock) : text :=
  List.concat (map line ([$" #TBLN:" ++ rjust 7 (wb_number b); $" #METH: " ++ wb_method b; $" #TERM:"] ++
                         render_term_rows b ++ [$" #TERE:"] ++ render_tere_rows b ++
                         [$"1"; $" #OBJV:********************      586.276       ********************"])).

Definition lst_head (version : text) : text :=
  List.concat (map line [$"Mon Jan  1 10:00:00 CET 2024"; $"$PROBLEM synthetic";
                         $"1NONLINEAR MIXED EFFECTS MODEL PROGRAM (NONMEM) VERSION " ++ version]).
Definition lst_foot : text := List.concat (map line [$"Stop Time:"; $"Mon Jan  1 10:00:05 CET 2024"]).

Definition render_lst (version : text) (bs : list wblock) : text :=
  lst_head version ++ List.concat (map render_block bs) ++ lst_foot.

Definition dec_value (ab : text * text) : Q :=
  Qred (inject_Z (Zdigits (fst ab ++ snd ab)) * pow10 (Z.opp (Z.of_nat (List.length (snd ab))))).

(* what the written block says *)
Definition term_of_wblock (b : wblock) : term_result :=
  mkTerm (match wb_outcome b with
          | 0%nat | 4%nat => Some true
          | 1%nat | 2%nat | 3%nat => Some false
          | _ => (* NOT COMPLETED: decided by the next row (USER INTERRUPT or not), undecided without one *)
              if wb_near b || match wb_fevals b with Some _ => true | None => false end ||
                 match wb_sig b with Some _ => true | None => false end then Some false else None
          end)
         (Some (wb_near b))
         (Some (Nat.eqb (wb_outcome b) 1)) (Some (Nat.eqb (wb_outcome b) 2)) (Some false)
         (match wb_sig b with Some ab => LNum (dec_value ab) | None => LNaN end)
         (match wb_fevals b with Some d => LNum (inject_Z (Zdigits d)) | None => LNaN end)
         None.
Definition tere_of_wblock (b : wblock) : tere_result :=
  mkTere (match wb_cov b with 1%nat | 3%nat => true | _ => false end)
         (match wb_time b with Some ab => LNum (dec_value ab) | None => LNaN end).
Definition facts_of_wblock (b : wblock) : lst_facts :=
  mkFacts true (Some (term_of_wblock b)) (Some (te_cov_ok (tere_of_wblock b))) (Some (te_est_time (tere_of_wblock b)))
          (Some (wb_method b)).

(* well-formed written blocks *)
Definition dec_ok (ab : text * text) : bool := all_digits (fst ab) && all_digits (snd ab).
Definition method_ok (m : text) : bool :=
  match m with [] => false | c :: _ => negb (is_space_re c) end &&
  forallb (fun c => negb (is_space_re c && negb (c =? c_sp)) && negb (c =? 42)) m &&
  match rev m with c :: _ => negb (is_space_re c) | [] => false end.
Definition wblock_ok (b : wblock) : bool :=
  all_digits (wb_number b) && method_ok (wb_method b) && Nat.leb (wb_outcome b) 4 && Nat.leb (wb_cov b) 3 &&
  match wb_fevals b with Some d => all_digits d | None => true end &&
  match wb_sig b with Some ab => dec_ok ab | None => true end &&
  match wb_time b with Some ab => dec_ok ab && (List.length (dec_text ab) <? 9)%nat | None => true end.

(* a NONMEM version pharmpy supports, written as plain dotted numbers (7.2.0 or later) *)
Definition version_ok (v : text) : bool :=
  match v with [] => false | _ :: _ => true end && forallb nonspace v &&
  match dotted v [] with Some c => ge_720 c | None => false end &&
  negb (text_eqb v $"V") && negb (text_eqb v $"VI").

(* what a rendered file says about table number n: the last block with that number *)
Definition expected_facts (bs : list wblock) (n : N) : lst_facts :=
  match last_opt (filter (fun b => N.eqb (digits_val (wb_number b)) n) bs) with
  | Some b => facts_of_wblock b
  | None => mkFacts false None (Some false) None None
  end.
