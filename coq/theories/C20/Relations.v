(* PV.C20.Relations — cov2corr / corr2cov / calculate_{corr,cov,se}_from_* over the reals: the defining relations
   of what is reported together.  Uses the standard Reals axioms (reported by Print Assumptions). *)
From Coq Require Import Reals Lra Lia Arith Bool.
Local Open Scope R_scope.

(* ---- cov2corr / corr2cov / calculate_{corr,cov,se}_from_* over the reals ---- *)
Section CorrCov.
  Variable n : nat.
  Definition Mat := nat -> nat -> R.

  Fixpoint sumR (k : nat) (f : nat -> R) : R :=
    match k with O => 0 | S k' => sumR k' f + f k' end.

  Definition diagM (d : nat -> R) : Mat := fun i j => if Nat.eqb i j then d i else 0.
  Definition mmul (a b : Mat) : Mat := fun i j => sumR n (fun k => a i k * b k j).

  (* v = sqrt(diag(cov)); corr = cov / outer(v, v); corr[cov == 0] = 0 *)
  Definition cov2corr (cov : Mat) : Mat :=
    fun i j => if Req_EM_T (cov i j) 0 then 0 else cov i j / (sqrt (cov i i) * sqrt (cov j j)).
  (* sd_matrix @ corr @ sd_matrix *)
  Definition corr2cov (corr : Mat) (sd : nat -> R) : Mat := mmul (mmul (diagM sd) corr) (diagM sd).
  Definition se_from_cov (cov : Mat) : nat -> R := fun i => sqrt (cov i i).

  Lemma sumR_single : forall k (f : nat -> R) (i : nat),
      (i < k)%nat -> (forall j, (j < k)%nat -> j <> i -> f j = 0) -> sumR k f = f i.
  Proof.
    induction k as [|k IH]; intros f i Hi Hz; [lia|].
    cbn [sumR]. destruct (Nat.eq_dec i k) as [E|E].
    - subst i. assert (Hs : sumR k f = 0).
      { clear IH Hi. assert (G : forall m, (m <= k)%nat -> sumR m f = 0).
        { induction m as [|m IHm]; intros Hm; [reflexivity|]. cbn [sumR]. rewrite IHm by lia. rewrite Hz by lia. lra. }
        apply G. lia. }
      rewrite Hs. lra.
    - rewrite (IH f i) by (try lia; intros j Hj Hne; apply Hz; lia). rewrite (Hz k) by lia. lra.
  Qed.

  Lemma diag_left : forall d a i j, (i < n)%nat -> mmul (diagM d) a i j = d i * a i j.
  Proof.
    intros d a i j Hi. unfold mmul. rewrite (sumR_single n _ i Hi).
    - unfold diagM. rewrite Nat.eqb_refl. reflexivity.
    - intros k Hk Hne. unfold diagM. destruct (Nat.eqb_spec i k); [congruence|]. lra.
  Qed.

  Lemma diag_right : forall d a i j, (j < n)%nat -> mmul a (diagM d) i j = a i j * d j.
  Proof.
    intros d a i j Hj. unfold mmul. rewrite (sumR_single n _ j Hj).
    - unfold diagM. rewrite Nat.eqb_refl. reflexivity.
    - intros k Hk Hne. unfold diagM. destruct (Nat.eqb_spec k j); [congruence|]. lra.
  Qed.

  (* the matrix product with diagonal matrices, entry by entry *)
  Lemma corr2cov_entry : forall corr sd i j, (i < n)%nat -> (j < n)%nat ->
      corr2cov corr sd i j = sd i * corr i j * sd j.
  Proof.
    intros corr sd i j Hi Hj. unfold corr2cov. rewrite diag_right by exact Hj. rewrite diag_left by exact Hi. reflexivity.
  Qed.

  Lemma cov2corr_entry : forall cov i j, 0 < cov i i -> 0 < cov j j ->
      cov2corr cov i j = cov i j / (sqrt (cov i i) * sqrt (cov j j)).
  Proof.
    intros cov i j Hi Hj. unfold cov2corr. destruct (Req_EM_T (cov i j) 0) as [E|E]; [|reflexivity].
    rewrite E. unfold Rdiv. rewrite Rmult_0_l. reflexivity.
  Qed.

  (* cor = D^-1 cov D^-1 with D = diag(sqrt(diag cov)) *)
  Theorem cor_is_scaled_cov : forall cov i j, (i < n)%nat -> (j < n)%nat ->
      (forall k, (k < n)%nat -> 0 < cov k k) ->
      cov2corr cov i j = mmul (mmul (diagM (fun k => / sqrt (cov k k))) cov) (diagM (fun k => / sqrt (cov k k))) i j.
  Proof.
    intros cov i j Hi Hj Hpos. rewrite diag_right by exact Hj. rewrite diag_left by exact Hi.
    rewrite cov2corr_entry by (apply Hpos; assumption).
    assert (sqrt (cov i i) <> 0) by (apply Rgt_not_eq; apply sqrt_lt_R0; apply Hpos; exact Hi).
    assert (sqrt (cov j j) <> 0) by (apply Rgt_not_eq; apply sqrt_lt_R0; apply Hpos; exact Hj).
    field. split; assumption.
  Qed.

  Theorem corr_diag_one : forall cov i, 0 < cov i i -> cov2corr cov i i = 1.
  Proof.
    intros cov i Hi. rewrite cov2corr_entry by assumption. rewrite sqrt_sqrt by lra. field. lra.
  Qed.

  (* calculate_cov_from_corrse (calculate_corr_from_cov cov) (calculate_se_from_cov cov) = cov *)
  Theorem cov_from_corrse_roundtrip : forall cov i j, (i < n)%nat -> (j < n)%nat ->
      (forall k, (k < n)%nat -> 0 < cov k k) ->
      corr2cov (cov2corr cov) (se_from_cov cov) i j = cov i j.
  Proof.
    intros cov i j Hi Hj Hpos. rewrite corr2cov_entry by assumption.
    rewrite cov2corr_entry by (apply Hpos; assumption). unfold se_from_cov.
    assert (sqrt (cov i i) <> 0) by (apply Rgt_not_eq; apply sqrt_lt_R0; apply Hpos; exact Hi).
    assert (sqrt (cov j j) <> 0) by (apply Rgt_not_eq; apply sqrt_lt_R0; apply Hpos; exact Hj).
    field. split; assumption.
  Qed.

  (* and the other way round: from (corr, se) with unit diagonal and positive se *)
  Theorem corrse_from_cov_roundtrip : forall corr sd i j, (i < n)%nat -> (j < n)%nat ->
      (forall k, (k < n)%nat -> 0 < sd k) -> (forall k, (k < n)%nat -> corr k k = 1) ->
      se_from_cov (corr2cov corr sd) i = sd i /\ cov2corr (corr2cov corr sd) i j = corr i j.
  Proof.
    intros corr sd i j Hi Hj Hpos Hone.
    assert (Hd : forall k, (k < n)%nat -> corr2cov corr sd k k = sd k * sd k).
    { intros k Hk. rewrite corr2cov_entry by assumption. rewrite Hone by exact Hk. ring. }
    assert (Hs : forall k, (k < n)%nat -> sqrt (corr2cov corr sd k k) = sd k).
    { intros k Hk. rewrite Hd by exact Hk. apply sqrt_square. apply Rlt_le. apply Hpos. exact Hk. }
    split.
    - unfold se_from_cov. apply Hs. exact Hi.
    - unfold cov2corr. rewrite !Hs by assumption. rewrite corr2cov_entry by assumption.
      pose proof (Hpos i Hi). pose proof (Hpos j Hj).
      destruct (Req_EM_T (sd i * corr i j * sd j) 0) as [E|E].
      + assert (corr i j = 0).
        { apply Rmult_integral in E. destruct E as [E|E]; [|lra].
          apply Rmult_integral in E. destruct E as [E|E]; [lra|exact E]. }
        lra.
      + field. split; lra.
  Qed.
End CorrCov.
